(* C04 L5, histograms: inside a histogram family the line loop first asks _parse_nh_sample whether a line is a native
   histogram sample.  A sample line written by the exposition never is: after the name and label block there is no
   unquoted opening brace, or the first one follows the ' # ' of an exemplar. *)
From V Require Import lib.PyBase lib.Tac lib.PyStr model.Utils model.Validation model.Expo model.TextParser model.OMParser
  proofs.EscapeProofs proofs.ScanFacts proofs.TextParserTotal proofs.LabelRoundTrip proofs.SampleRoundTrip
  proofs.DocRoundTrip proofs.OMLabelRoundTrip proofs.OMSampleRoundTrip proofs.OMDocRoundTrip.
Ltac Zify.zify_post_hook ::= Z.to_euclidean_division_equations.
Open Scope N_scope.

(* what follows the name and label block: no unquoted opening brace, or a hash in front of the first one *)
Definition nh_tail (t : str) : Prop :=
  nuq0 [LBRACE] t false false = None \/
  exists a b, nuq0 [LBRACE] t false false = Some a /\ nuq0 [HASH] t false false = Some b /\ (b < a)%nat.

Lemma nh_tail_decide p c t : c <> BS -> nh_tail t ->
  let text := (p ++ [c]) ++ t in let st := zlen (p ++ [c]) in
  (next_unquoted_char text [LBRACE] st =? -1)%Z = true \/
  ((next_unquoted_char text [LBRACE] st =? -1)%Z = false /\
   negb (next_unquoted_char text [HASH] st =? -1)%Z
   && (next_unquoted_char text [HASH] st <? next_unquoted_char text [LBRACE] st)%Z = true).
Proof.
  intros Hc Ht. cbv zeta. rewrite !nuc_from by exact Hc. destruct Ht as [E|(a & b & Ea & Eb & Hlt)].
  - left. rewrite E. reflexivity.
  - right. rewrite Ea, Eb. unfold zlen. split; [lia|]. apply andb_true_iff. split; [apply negb_true_iff|]; lia.
Qed.

Lemma index_app_at (a : str) c b : index (a ++ c :: b) (Z.of_nat (length a)) = Ok c.
Proof.
  unfold index, zlen. rewrite app_length. cbn [length].
  replace (Z.of_nat (length a) <? 0)%Z with false by lia. cbv beta iota zeta.
  replace (Z.of_nat (length a) <? 0)%Z with false by lia. cbn [orb].
  replace (Z.of_nat (length a + S (length b)) <=? Z.of_nat (length a))%Z with false by lia.
  rewrite Nat2Z.id. rewrite nth_error_app2 by lia. rewrite Nat.sub_diag. reflexivity.
Qed.

Section NhNone.
  Variable fix_nhkeys fix_nhsfx : bool.
  Variable NUM : Type.
  Variable parse_float : str -> option NUM.
  Variable parse_int : str -> option Z.
  Variable is_word is_space_re is_digit_re : char -> bool.
  Notation p_nh := (om_parse_nh_sample false true fix_nhkeys fix_nhsfx NUM parse_float parse_int is_word is_space_re is_digit_re).

  (* name <tail> *)
  Lemma nh_none_bare n t : is_valid_legacy_metric_name n = true -> nh_tail t -> p_nh (n ++ SP :: t) = Ok None.
  Proof.
    intros Hn Ht. unfold om_parse_nh_sample.
    assert (Hi0 : next_unquoted_char (n ++ SP :: t) [SP; LBRACE] 0 = Z.of_nat (length n)).
    { rewrite next_unquoted_char_rel. rewrite name_scan; [|exact Hn|].
      - rewrite nuq0_hit by (try discriminate; reflexivity). cbn [option_map]. f_equal. lia.
      - intros c Hc. destruct (name_rest_plain c Hc) as (_ & _ & Hl & _ & Hs & _). cbn [mem_char].
        destruct (N.eqb_spec c SP); [contradiction|]. destruct (N.eqb_spec c LBRACE); [contradiction|]. reflexivity. }
    rewrite Hi0. replace (Z.of_nat (length n) =? -1)%Z with false by lia.
    rewrite index_app_at. cbn [bind]. change (SP =? LBRACE) with false. cbn [andb]. cbv iota.
    replace (n ++ SP :: t) with ((n ++ [SP]) ++ t) by (rewrite <- app_assoc; reflexivity).
    replace (Z.of_nat (length n) + 1)%Z with (zlen (n ++ [SP])) by (unfold zlen; rewrite app_length; cbn [length]; lia).
    destruct (nh_tail_decide n SP t ltac:(discriminate) Ht) as [E|[E1 E2]]; cbv zeta in *.
    - rewrite E. reflexivity.
    - rewrite E1, E2. reflexivity.
  Qed.

  (* pre{inner} <tail>, where pre is empty or a legacy name and inner holds no unquoted closing brace *)
  Lemma nh_none_braced pre inner t :
    (pre = [] \/ is_valid_legacy_metric_name pre = true) ->
    (forall r, nuq0 [RBRACE] (inner ++ r) false false
               = option_map (fun k => (length inner + k)%nat) (nuq0 [RBRACE] r false false)) ->
    nh_tail (SP :: t) ->
    p_nh (pre ++ LBRACE :: inner ++ RBRACE :: SP :: t) = Ok None.
  Proof.
    intros Hpre Hinner Ht. unfold om_parse_nh_sample.
    set (text := pre ++ LBRACE :: inner ++ RBRACE :: SP :: t).
    assert (Hi0 : next_unquoted_char text [SP; LBRACE] 0 = Z.of_nat (length pre)).
    { rewrite next_unquoted_char_rel. subst text. destruct Hpre as [->|Hn].
      - cbn [app]. rewrite nuq0_hit by (try discriminate; reflexivity). reflexivity.
      - rewrite name_scan; [|exact Hn|].
        + rewrite nuq0_hit by (try discriminate; reflexivity). cbn [option_map]. f_equal. lia.
        + intros c Hc. destruct (name_rest_plain c Hc) as (_ & _ & Hl & _ & Hs & _). cbn [mem_char].
          destruct (N.eqb_spec c SP); [contradiction|]. destruct (N.eqb_spec c LBRACE); [contradiction|]. reflexivity. }
    rewrite Hi0. replace (Z.of_nat (length pre) =? -1)%Z with false by lia.
    subst text. rewrite index_app_at. cbn [bind]. change (LBRACE =? LBRACE) with true. cbn [andb]. cbv iota.
    set (text := pre ++ LBRACE :: inner ++ RBRACE :: SP :: t).
    assert (Hle : next_unquoted_char text [RBRACE] (Z.of_nat (length pre)) = Z.of_nat (length pre + 1 + length inner)).
    { assert (Hrest : nuq0 [RBRACE] (LBRACE :: inner ++ RBRACE :: SP :: t) false false = Some (1 + length inner)%nat).
      { rewrite nuq0_skip by (try discriminate; reflexivity). rewrite Hinner.
        rewrite nuq0_hit by (try discriminate; reflexivity). cbn [option_map]. f_equal. lia. }
      subst text. destruct Hpre as [->|Hn].
      - cbn [app length]. rewrite next_unquoted_char_rel, Hrest. f_equal.
      - destruct (legacy_name_chars pre Hn) as (c0 & r0 & En & Hall).
        destruct (@exists_last _ pre ltac:(rewrite En; discriminate)) as (p & d & Ep).
        assert (Hd : d <> BS).
        { assert (Hin : In d pre) by (rewrite Ep; apply in_or_app; right; left; reflexivity).
          rewrite En in Hin. rewrite Forall_forall in Hall. destruct (name_rest_plain d (Hall d Hin)) as (H1 & _). exact H1. }
        rewrite Ep. change (Z.of_nat (length (p ++ [d]))) with (zlen (p ++ [d])).
        rewrite (nuc_from p d _ [RBRACE] Hd), Hrest. unfold zlen. lia. }
    rewrite Hle. replace (Z.of_nat (length pre + 1 + length inner) =? -1)%Z with false by lia. cbv iota.
    subst text.
    replace (pre ++ LBRACE :: inner ++ RBRACE :: SP :: t) with (((pre ++ LBRACE :: inner) ++ [RBRACE]) ++ SP :: t)
      by (repeat (cbn [app]; rewrite <- ?app_assoc); reflexivity).
    replace (Z.of_nat (length pre + 1 + length inner) + 1)%Z with (zlen ((pre ++ LBRACE :: inner) ++ [RBRACE]))
      by (unfold zlen; rewrite !app_length; cbn [length]; lia).
    destruct (nh_tail_decide (pre ++ LBRACE :: inner) RBRACE (SP :: t) ltac:(discriminate) Ht) as [E|[E1 E2]]; cbv zeta in *.
    - rewrite E. reflexivity.
    - rewrite E1, E2. reflexivity.
  Qed.
End NhNone.

(* ---------- the tail of an exposed sample line ---------- *)
Section Tail.
  Variable fix_tsexp : bool.
  Variable NUM : Type.
  Variable parse_num parse_float : str -> option NUM.
  Variable parse_int : str -> option Z.
  Variable num_eqb : NUM -> NUM -> bool.
  Variable num_isinf : NUM -> bool.
  Notation ts_rd := (ts_reads fix_tsexp NUM parse_float parse_int num_eqb num_isinf).

  Lemma body_tail_nh (lead : bool) vt tso tsv exo :
    om_token_ok vt -> ts_rd tso tsv ->
    nh_tail ((if lead then [SP] else []) ++ vt ++ OMSampleRoundTrip.ts_text tso ++ ex_text exo).
  Proof.
    intros Hv Hts.
    assert (Hscan : forall chs rest, (chs = [LBRACE] \/ chs = [HASH]) ->
              nuq0 chs ((if lead then [SP] else []) ++ vt ++ OMSampleRoundTrip.ts_text tso ++ rest) false false
              = option_map (fun j => (length ((if lead then [SP] else []) ++ vt ++ OMSampleRoundTrip.ts_text tso) + j)%nat)
                           (nuq0 chs rest false false)).
    { intros chs rest Hchs.
      assert (Hch : forall c, mem_char c chs = true -> c = DQ \/ c = BS \/ c = SP \/ c = HASH \/ c = LBRACE \/ c = RBRACE).
      { intros c Hc. destruct Hchs as [-> | ->]; cbn [mem_char] in Hc; rewrite orb_false_r in Hc; apply N.eqb_eq in Hc; auto 10. }
      assert (Hsp : mem_char SP chs = false) by (destruct Hchs as [-> | ->]; reflexivity).
      assert (Hmid : nuq0 chs (vt ++ OMSampleRoundTrip.ts_text tso ++ rest) false false
                     = option_map (fun j => (length (vt ++ OMSampleRoundTrip.ts_text tso) + j)%nat) (nuq0 chs rest false false)).
      { rewrite om_token_scan by assumption. unfold OMSampleRoundTrip.ts_text. red in Hts. destruct tso as [t|].
        - destruct Hts as (Ht & _). cbn [app]. rewrite nuq0_skip by (try discriminate; exact Hsp).
          rewrite om_token_scan by assumption.
          destruct (nuq0 chs rest false false); cbn [option_map]; [|reflexivity]. f_equal.
          rewrite !app_length. cbn [length]. lia.
        - cbn [app]. rewrite app_nil_r. reflexivity. }
      destruct lead; cbn [app].
      - rewrite nuq0_skip by (try discriminate; exact Hsp). rewrite Hmid.
        destruct (nuq0 chs rest false false); cbn [option_map length]; [f_equal|reflexivity].
      - exact Hmid. }
    unfold nh_tail. rewrite !Hscan by auto. unfold ex_text. destruct exo as [e|]; [|left; reflexivity].
    right. rewrite exemplar_str_shape. cbn [app].
    rewrite (nuq0_skip [LBRACE] SP), (nuq0_skip [LBRACE] HASH), (nuq0_skip [LBRACE] SP) by (try discriminate; reflexivity).
    rewrite (nuq0_hit [LBRACE] LBRACE) by (try discriminate; reflexivity).
    rewrite (nuq0_skip [HASH] SP) by (try discriminate; reflexivity).
    rewrite (nuq0_hit [HASH] HASH) by (try discriminate; reflexivity).
    cbn [option_map]. eexists _, _. split; [reflexivity|]. split; [reflexivity|]. lia.
  Qed.
End Tail.

(* ---------- every exposed sample line ---------- *)
Section Line.
  Variable fix_nhkeys fix_nhsfx fix_tsexp : bool.
  Variable NUM : Type.
  Variable parse_num parse_float : str -> option NUM.
  Variable parse_int : str -> option Z.
  Variable num_eqb : NUM -> NUM -> bool.
  Variable num_isinf : NUM -> bool.
  Variable is_word is_space_re is_digit_re : char -> bool.
  Notation p_nh := (om_parse_nh_sample false true fix_nhkeys fix_nhsfx NUM parse_float parse_int is_word is_space_re is_digit_re).

  Theorem sample_line_not_native s tsv :
    om_token_ok (go_string (s_value s)) ->
    ts_reads fix_tsexp NUM parse_float parse_int num_eqb num_isinf (s_ts_om s) tsv ->
    p_nh (om_body s) = Ok None.
  Proof.
    intros Hv Hts. unfold om_body.
    pose proof (om_head_cases s) as Hh. cbv zeta in Hh.
    pose proof (body_tail_nh fix_tsexp NUM parse_num parse_float parse_int num_eqb num_isinf false _ _ tsv (s_ex s) Hv Hts) as Hbare.
    pose proof (body_tail_nh fix_tsexp NUM parse_num parse_float parse_int num_eqb num_isinf true _ _ tsv (s_ex s) Hv Hts) as Hbr.
    cbn [app] in Hbare, Hbr.
    destruct (is_valid_legacy_metric_name (s_name s)) eqn:Hn.
    - destruct (s_labels s) as [|l0 lr] eqn:El.
      + rewrite Hh. cbn [app]. apply nh_none_bare; assumption.
      + rewrite Hh. rewrite <- !app_assoc. cbn [app]. rewrite <- !app_assoc. cbn [app].
        apply nh_none_braced; [right; exact Hn| |exact Hbr].
        intro r. apply ltext_scan. exact chs_ok_rbrace.
    - rewrite Hh. cbn [app]. rewrite <- !app_assoc. cbn [app].
      change (LBRACE :: quote (escape (s_name s)) ++ sep_text true (sort_kv (s_labels s)) ++ RBRACE :: SP :: go_string (s_value s)
                ++ OMSampleRoundTrip.ts_text (s_ts_om s) ++ ex_text (s_ex s))
        with ([] ++ LBRACE :: quote (escape (s_name s)) ++ sep_text true (sort_kv (s_labels s)) ++ RBRACE :: SP :: go_string (s_value s)
                ++ OMSampleRoundTrip.ts_text (s_ts_om s) ++ ex_text (s_ex s)).
      rewrite app_assoc.
      apply nh_none_braced; [left; reflexivity| |exact Hbr].
      intro r. rewrite <- app_assoc.
      destruct (quoted_scan [RBRACE] (s_name s) (sep_text true (sort_kv (s_labels s)) ++ r) eq_refl) as [Hq _]. rewrite Hq.
      destruct (sort_kv (s_labels s)) as [|kv kr].
      + cbn [sep_text app]. rewrite app_nil_r. reflexivity.
      + cbn [sep_text app]. rewrite (nuq0_skip [RBRACE] COMMA) by (try discriminate; reflexivity).
        rewrite (nuq0_skip [RBRACE] SP) by (try discriminate; reflexivity).
        rewrite (ltext_scan [RBRACE] (kv :: kr) r chs_ok_rbrace).
        destruct (nuq0 [RBRACE] r false false); cbn [option_map]; [|reflexivity].
        f_equal. rewrite !app_length. cbn [length]. lia.
  Qed.
End Line.
