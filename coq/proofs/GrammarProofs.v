(* C05: every line the text exposition writes is accepted by the independent line grammar (model/LineGrammar.v). *)
From V Require Import lib.PyBase lib.Tac lib.PyStr model.Utils model.Validation model.Expo model.LineGrammar
  proofs.EscapeProofs proofs.LabelRoundTrip proofs.LineProofs.
Ltac Zify.zify_post_hook ::= Z.to_euclidean_division_equations.
Open Scope N_scope.

(* ---------- basic combinator facts ---------- *)
Lemma g_lit_app l rest : g_lit l (l ++ rest) = Some rest.
Proof. induction l as [|x l IH]; [reflexivity|]. cbn [g_lit app]. rewrite N.eqb_refl. exact IH. Qed.

Lemma g_many_all p s rest :
  Forall (fun c => p c = true) s -> (match rest with [] => True | c :: _ => p c = false end) ->
  g_many p (s ++ rest) = Some rest.
Proof.
  intros Hs Hr. induction Hs as [|c s Hc _ IH]; cbn [app g_many].
  - destruct rest as [|c r]; cbn [g_many]; [reflexivity|]. rewrite Hr. reflexivity.
  - rewrite Hc. exact IH.
Qed.

Lemma g_seq_ok a b s r1 r2 : a s = Some r1 -> b r1 = Some r2 -> g_seq a b s = Some r2.
Proof. intros H1 H2. unfold g_seq. rewrite H1. exact H2. Qed.

(* ---------- quoted strings ---------- *)
Lemma g_qbody_escape1 c rest : g_qbody (escape1 c ++ rest) = g_qbody rest.
Proof.
  unfold escape1, BS, LF, DQ, CH_n.
  destruct (N.eqb_spec c 92) as [->|H1]; [reflexivity|].
  destruct (N.eqb_spec c 10) as [->|H2]; [reflexivity|].
  destruct (N.eqb_spec c 34) as [->|H3]; [reflexivity|].
  cbn [app g_qbody].
  destruct (N.eqb_spec c 34); [contradiction|]. destruct (N.eqb_spec c 10); [contradiction|].
  destruct (N.eqb_spec c 92); [contradiction|]. reflexivity.
Qed.

Lemma g_qbody_escape v rest : g_qbody (escape v ++ DQ :: rest) = Some rest.
Proof.
  induction v as [|c v IH]; [reflexivity|].
  unfold escape in *. cbn [flat_map]. rewrite <- app_assoc, g_qbody_escape1. exact IH.
Qed.

Lemma g_quoted_ok v rest : g_quoted (quote (escape v) ++ rest) = Some rest.
Proof.
  unfold g_quoted, g_seq, quote. cbn [app g_lit]. change (DQ =? 34) with true. cbv iota.
  rewrite <- app_assoc. cbn [app]. apply g_qbody_escape.
Qed.

(* ---------- names: the grammar's character classes are those of the legacy patterns ---------- *)
Lemma c_name0_eq c : c_name0 c = name_start c.
Proof. reflexivity. Qed.
Lemma c_name_eq c : c_name c = name_rest c.
Proof. reflexivity. Qed.
Lemma c_label0_eq c : c_label0 c = label_start c.
Proof. reflexivity. Qed.
Lemma c_label_eq c : c_label c = label_rest c.
Proof. reflexivity. Qed.

Definition stops (p : char -> bool) (rest : str) : Prop :=
  match rest with [] => True | c :: _ => p c = false end.

Lemma g_legacy_name n rest : is_valid_legacy_metric_name n = true -> stops c_name rest ->
  g_metric_name (n ++ rest) = Some rest.
Proof.
  intros Hn Hr. unfold is_valid_legacy_metric_name, re_name in Hn. destruct n as [|c r]; [discriminate|].
  apply andb_true_iff in Hn as [H1 H2].
  unfold g_metric_name, g_alt.
  assert (Hq : g_quoted ((c :: r) ++ rest) = None).
  { unfold g_quoted, g_seq. cbn [app g_lit]. destruct (N.eqb_spec c 34) as [->|_]; [vm_compute in H1; discriminate|reflexivity]. }
  rewrite Hq. unfold g_seq, g_char. cbn [app]. rewrite c_name0_eq, H1.
  apply g_many_all; [|exact Hr]. apply match_rest_forall in H2. exact H2.
Qed.

Lemma g_metric_name_ok n rest : stops c_name rest ->
  g_metric_name (escape_metric_name n ++ rest) = Some rest.
Proof.
  intro Hr. unfold escape_metric_name. destruct (is_valid_legacy_metric_name n) eqn:E.
  - apply g_legacy_name; assumption.
  - rewrite escape_chain_eq. unfold g_metric_name, g_alt. rewrite g_quoted_ok. reflexivity.
Qed.

Lemma g_label_name_ok k rest : stops c_label rest ->
  g_label_name (escape_label_name k ++ rest) = Some rest.
Proof.
  intro Hr. unfold escape_label_name. destruct (is_valid_legacy_labelname k) eqn:E.
  - destruct (legacy_label_chars k E) as (c & r & -> & Hs & Hall).
    unfold g_label_name, g_alt.
    assert (Hq : g_quoted ((c :: r) ++ rest) = None).
    { unfold g_quoted, g_seq. cbn [app g_lit]. destruct (N.eqb_spec c 34) as [->|_]; [vm_compute in Hs; discriminate|reflexivity]. }
    rewrite Hq. unfold g_seq, g_char. cbn [app]. rewrite c_label0_eq, Hs.
    inversion Hall; subst. apply g_many_all; assumption.
  - rewrite escape_chain_eq. unfold g_label_name, g_alt. rewrite g_quoted_ok. reflexivity.
Qed.

Lemma g_label_ok kv rest : g_label (label_pair kv ++ rest) = Some rest.
Proof.
  unfold g_label, label_pair. rewrite <- !app_assoc.
  eapply g_seq_ok; [apply g_label_name_ok; reflexivity|].
  cbn [app]. eapply g_seq_ok; [apply (g_lit_app [61])|].
  rewrite escape_chain_eq. apply g_quoted_ok.
Qed.

(* label (, label)* followed by something that is not a comma *)
Lemma g_labels_fuel_ok kvs : forall fuel rest, kvs <> [] -> (length kvs <= fuel)%nat ->
  (match rest with [] => True | c :: _ => c <> COMMA end) ->
  g_labels_fuel fuel [44] (ltext kvs ++ rest) = Some rest.
Proof.
  induction kvs as [|kv r IH]; intros fuel rest Hne Hf Hr; [congruence|].
  destruct fuel as [|fuel]; [cbn in Hf; lia|]. cbn [g_labels_fuel].
  destruct r as [|kv2 r2].
  - cbn [ltext]. rewrite g_label_ok.
    destruct rest as [|c rr]; [reflexivity|]. cbn [g_lit]. destruct (N.eqb_spec c 44); [contradiction|reflexivity].
  - change (ltext (kv :: kv2 :: r2)) with (label_pair kv ++ [COMMA] ++ ltext (kv2 :: r2)).
    rewrite <- !app_assoc. rewrite g_label_ok. cbn [app g_lit]. change (COMMA =? 44) with true. cbv iota.
    apply IH; [discriminate|cbn [length] in *; lia|exact Hr].
Qed.

Lemma g_labels_ok kvs rest : kvs <> [] ->
  (match rest with [] => True | c :: _ => c <> COMMA end) ->
  g_labels [44] (ltext kvs ++ rest) = Some rest.
Proof.
  intros Hne Hr. unfold g_labels. apply g_labels_fuel_ok; auto.
  pose proof (ltext_length kvs). rewrite app_length. lia.
Qed.

(* ---------- numbers ---------- *)
(* what a rendered float looks like to the grammar: one of the three specials or a run of [0-9.e+-] *)
Definition value_token (t : str) : Prop :=
  t = [43; 73; 110; 102] \/ t = [45; 73; 110; 102] \/ t = [78; 97; 78] \/
  (t <> [] /\ Forall (fun c => c_num c = true) t /\ hd 0 t <> 43 /\ hd 0 t <> 78 /\ t <> [45]).

Lemma g_value_ok t rest : value_token t -> stops c_num rest -> g_value (t ++ rest) = Some rest.
Proof.
  intros Ht Hr. unfold g_value, g_alt.
  destruct Ht as [->|[->|[->|(Hne & Hall & H43 & H78 & Hm)]]].
  - rewrite (g_lit_app [43; 73; 110; 102]). reflexivity.
  - replace (g_lit [43; 73; 110; 102] ([45; 73; 110; 102] ++ rest)) with (@None str) by reflexivity.
    rewrite (g_lit_app [45; 73; 110; 102]). reflexivity.
  - replace (g_lit [43; 73; 110; 102] ([78; 97; 78] ++ rest)) with (@None str) by reflexivity.
    replace (g_lit [45; 73; 110; 102] ([78; 97; 78] ++ rest)) with (@None str) by reflexivity.
    rewrite (g_lit_app [78; 97; 78]). reflexivity.
  - destruct t as [|c r]; [congruence|]. cbn [hd] in *. cbn [app g_lit].
    destruct (N.eqb_spec c 43); [contradiction|].
    inversion Hall as [|? ? Hc Hr']; subst.
    assert (Hfin : (if c =? 78 then g_lit [97; 78] (r ++ rest) else None) = None ->
                   match (if c =? 78 then g_lit [97; 78] (r ++ rest) else None) with
                   | Some r0 => Some r0
                   | None => g_many1 c_num (c :: r ++ rest)
                   end = Some rest).
    { intros ->. unfold g_many1, g_seq, g_char. rewrite Hc. apply g_many_all; assumption. }
    assert (H78' : (if c =? 78 then g_lit [97; 78] (r ++ rest) else None) = None)
      by (destruct (N.eqb_spec c 78); [contradiction|reflexivity]).
    destruct (N.eqb_spec c 45) as [->|_]; [|apply Hfin, H78'].
    destruct r as [|d r2]; [exfalso; apply Hm; reflexivity|].
    cbn [app g_lit]. inversion Hr' as [|? ? Hd _]; subst.
    destruct (N.eqb_spec d 73) as [->|_]; [vm_compute in Hd; discriminate|].
    apply Hfin, H78'.
Qed.

Lemma dec_digits_fuel_digits fuel : forall n acc, Forall (fun c => c_digit c = true) acc ->
  Forall (fun c => c_digit c = true) (dec_digits_fuel fuel n acc).
Proof.
  induction fuel as [|f IH]; intros n acc H; cbn [dec_digits_fuel]; [exact H|].
  assert (Hd : Forall (fun c => c_digit c = true) ((48 + n mod 10) :: acc)).
  { constructor; [|exact H]. unfold c_digit. apply andb_true_iff. split; lia. }
  destruct (n / 10 =? 0); [exact Hd|apply IH; exact Hd].
Qed.
Lemma dec_of_N_digits n : Forall (fun c => c_digit c = true) (dec_of_N n).
Proof. unfold dec_of_N. apply dec_digits_fuel_digits. constructor. Qed.
Lemma dec_of_N_nonempty n : dec_of_N n <> [].
Proof.
  unfold dec_of_N. generalize (N.to_nat (N.log2 n)). intro k. cbn [dec_digits_fuel].
  destruct (n / 10 =? 0); [discriminate|].
  assert (G : forall f m acc, acc <> [] -> dec_digits_fuel f m acc <> []).
  { induction f as [|f IH]; intros m acc Ha; cbn [dec_digits_fuel]; [exact Ha|].
    destruct (m / 10 =? 0); [discriminate|apply IH; discriminate]. }
  apply G. discriminate.
Qed.

Lemma g_int_ok z rest : stops c_digit rest -> g_int (dec_of_Z z ++ rest) = Some rest.
Proof.
  intro Hr. unfold g_int, g_seq, g_opt.
  assert (Hdig : forall n tail, stops c_digit tail -> g_many1 c_digit (dec_of_N n ++ tail) = Some tail).
  { intros n tail Ht. pose proof (dec_of_N_digits n) as Hd. pose proof (dec_of_N_nonempty n) as Hn.
    destruct (dec_of_N n) as [|c r]; [congruence|]. inversion Hd; subst.
    unfold g_many1, g_seq, g_char. cbn [app]. rewrite H1. apply g_many_all; assumption. }
  destruct z as [|p|p]; cbn [dec_of_Z].
  - cbn [app g_lit]. change (ZERO =? 45) with false. cbv iota.
    unfold g_many1, g_seq, g_char. change (c_digit ZERO) with true. cbv iota.
    apply (g_many_all c_digit [] rest); [constructor|exact Hr].
  - pose proof (dec_of_N_digits (Npos p)) as Hd. pose proof (dec_of_N_nonempty (Npos p)) as Hn.
    destruct (dec_of_N (Npos p)) as [|c r] eqn:E; [congruence|]. cbn [app g_lit].
    inversion Hd; subst. destruct (N.eqb_spec c 45) as [->|_]; [vm_compute in H1; discriminate|].
    unfold g_many1, g_seq, g_char. rewrite H1. apply g_many_all; assumption.
  - cbn [app g_lit]. change (MINUS =? 45) with true. cbv iota. apply Hdig. exact Hr.
Qed.

(* ---------- the body of a text sample line, in its two shapes ---------- *)
From V Require Import proofs.SampleRoundTrip.
From Coq Require Import Permutation.

Definition ts_text (s : sample) : str := match s_ts_ms s with None => [] | Some ms => SP :: dec_of_Z ms end.

Lemma text_sample_line_shape s :
  exists body, text_sample_line s = body ++ [LF] /\
    ((is_valid_legacy_metric_name (s_name s) = true /\
      body = s_name s ++ (match s_labels s with [] => [] | _ => LBRACE :: ltext (sort_kv (s_labels s)) ++ [RBRACE] end)
             ++ SP :: go_string (s_value s) ++ ts_text s)
     \/
     (is_valid_legacy_metric_name (s_name s) = false /\
      body = LBRACE :: quote (escape (s_name s)) ++ rest_text (sort_kv (s_labels s)) ++ RBRACE :: SP :: go_string (s_value s) ++ ts_text s)).
Proof.
  unfold text_sample_line, ts_text. cbv zeta.
  destruct (is_valid_legacy_metric_name (s_name s)) eqn:Hn.
  - eexists. split; [|left; split; [reflexivity|reflexivity]].
    destruct (s_labels s) as [|l0 lr] eqn:El; [repeat (cbn [app]; rewrite <- ?app_assoc); reflexivity|].
    unfold labelstr. rewrite <- ltext_join.
    assert (Hne : sort_kv (l0 :: lr) <> []) by (apply sort_kv_nonempty; discriminate).
    pose proof (ltext_nonempty _ Hne) as Hlne.
    destruct (ltext (sort_kv (l0 :: lr))) as [|t0 tr] eqn:Elt; [congruence|].
    repeat (cbn [app]; rewrite <- ?app_assoc). reflexivity.
  - unfold escape_metric_name. rewrite Hn, escape_chain_eq.
    eexists. split; [|right; split; [reflexivity|reflexivity]].
    destruct (s_labels s) as [|l0 lr] eqn:El.
    + cbn [sort_kv fold_right rest_text]. repeat (cbn [app]; rewrite <- ?app_assoc). reflexivity.
    + unfold labelstr. rewrite <- ltext_join.
      assert (Hne : sort_kv (l0 :: lr) <> []) by (apply sort_kv_nonempty; discriminate).
      pose proof (ltext_nonempty _ Hne) as Hlne.
      destruct (sort_kv (l0 :: lr)) as [|k0 kr] eqn:Esk; [congruence|]. cbn [rest_text].
      destruct (ltext (k0 :: kr)) as [|t0 tr] eqn:Elt; [congruence|].
      repeat (cbn [app]; rewrite <- ?app_assoc). reflexivity.
Qed.

(* value, optional timestamp, end of line *)
Lemma g_tail_ok vt (ts : option Z) : value_token vt ->
  g_seq (g_lit SPC) (g_seq g_value (g_seq (g_opt (g_seq (g_lit SPC) g_int)) g_end))
        (SP :: vt ++ match ts with None => [] | Some ms => SP :: dec_of_Z ms end) = Some [].
Proof.
  intro Hv. unfold g_seq at 1. cbn [g_lit SPC]. change (SP =? 32) with true. cbv iota.
  destruct ts as [ms|].
  - eapply g_seq_ok; [apply g_value_ok; [exact Hv|reflexivity]|].
    unfold g_seq, g_opt. cbn [g_lit SPC]. change (SP =? 32) with true. cbv iota.
    rewrite <- (app_nil_r (dec_of_Z ms)), g_int_ok by exact I. reflexivity.
  - eapply g_seq_ok; [apply g_value_ok; [exact Hv|exact I]|]. reflexivity.
Qed.

Theorem text_sample_line_in_grammar s :
  value_token (go_string (s_value s)) ->
  exists body, text_sample_line s = body ++ [LF] /\ is_sample_line_text body = true.
Proof.
  intro Hv. destruct (text_sample_line_shape s) as (body & Hb & Hshape). exists body. split; [exact Hb|].
  unfold is_sample_line_text.
  assert (Htail : forall tl, tl = SP :: go_string (s_value s) ++ ts_text s ->
            g_seq (g_lit SPC) (g_seq g_value (g_seq (g_opt (g_seq (g_lit SPC) g_int)) g_end)) tl = Some [])
    by (intros tl ->; apply g_tail_ok; exact Hv).
  destruct Hshape as [[Hn ->]|[Hn ->]].
  - (* name[{labels}] ... *)
    assert (Hser : g_series [44] (s_name s ++ (match s_labels s with [] => [] | _ => LBRACE :: ltext (sort_kv (s_labels s)) ++ [RBRACE] end)
                                  ++ SP :: go_string (s_value s) ++ ts_text s)
                   = Some (SP :: go_string (s_value s) ++ ts_text s)).
    { unfold g_series, g_alt.
      destruct (legacy_name_chars (s_name s) Hn) as (c & r & En & Hall). rewrite En.
      inversion Hall as [|? ? Hc Hr]; subst.
      unfold g_seq at 1 2. unfold g_char. cbn [app]. rewrite c_name0_eq.
      assert (Hs0 : name_start c = true).
      { unfold is_valid_legacy_metric_name, re_name in Hn. rewrite En in Hn. apply andb_true_iff in Hn. tauto. }
      rewrite Hs0.
      destruct (s_labels s) as [|l0 lr] eqn:El.
      - cbn [app]. rewrite (g_many_all c_name r (SP :: go_string (s_value s) ++ ts_text s) Hr eq_refl).
        unfold g_opt, g_seq. cbn [g_lit]. reflexivity.
      - assert (Hne : sort_kv (l0 :: lr) <> []) by (apply sort_kv_nonempty; discriminate).
        cbn [app]. match goal with |- context [g_many c_name (r ++ ?rest)] => rewrite (g_many_all c_name r rest Hr eq_refl) end.
        unfold g_opt, g_seq. cbn [g_lit]. change (LBRACE =? 123) with true. cbv iota.
        rewrite <- app_assoc. rewrite g_labels_ok; [|exact Hne|discriminate].
        cbn [app g_lit]. change (RBRACE =? 125) with true. reflexivity. }
    unfold g_seq at 1. rewrite Hser. rewrite (Htail _ eq_refl). reflexivity.
  - (* {"name"[,labels]} ... *)
    assert (Hser : g_series [44] (LBRACE :: quote (escape (s_name s)) ++ rest_text (sort_kv (s_labels s))
                                  ++ RBRACE :: SP :: go_string (s_value s) ++ ts_text s)
                   = Some (SP :: go_string (s_value s) ++ ts_text s)).
    { unfold g_series, g_alt.
      assert (H1 : g_seq (g_seq (g_char c_name0) (g_many c_name))
                     (g_opt (g_seq (g_lit [123]) (g_seq (g_labels [44]) (g_lit [125]))))
                     (LBRACE :: quote (escape (s_name s)) ++ rest_text (sort_kv (s_labels s))
                      ++ RBRACE :: SP :: go_string (s_value s) ++ ts_text s) = None) by reflexivity.
      rewrite H1. unfold g_seq at 1. cbn [g_lit]. change (LBRACE =? 123) with true. cbv iota.
      unfold g_seq at 1. rewrite g_quoted_ok.
      destruct (sort_kv (s_labels s)) as [|k0 kr] eqn:Esk.
      - cbn [rest_text app g_lit]. change (RBRACE =? 125) with true. reflexivity.
      - cbn [rest_text app]. 
        replace (g_lit [125] (COMMA :: ltext (k0 :: kr) ++ RBRACE :: SP :: go_string (s_value s) ++ ts_text s))
          with (@None str) by reflexivity.
        unfold g_seq. cbn [g_lit]. change (COMMA =? 44) with true. cbv iota.
        rewrite g_labels_ok; [|discriminate|discriminate].
        cbn [g_lit]. change (RBRACE =? 125) with true. reflexivity. }
    unfold g_seq at 1. rewrite Hser. rewrite (Htail _ eq_refl). reflexivity.
Qed.

(* ---------- HELP and TYPE lines ---------- *)
Lemma g_doc_help_escape d : g_doc false (help_escape d) = Some [].
Proof.
  induction d as [|c d IH]; [reflexivity|].
  unfold help_escape in *. cbn [flat_map]. unfold help_escape1 at 1, BS, LF, CH_n.
  destruct (N.eqb_spec c 92) as [->|H1]; [cbn; exact IH|].
  destruct (N.eqb_spec c 10) as [->|H2]; [cbn; exact IH|].
  cbn [app g_doc]. destruct (N.eqb_spec c 10); [contradiction|]. destruct (N.eqb_spec c 92); [contradiction|].
  cbn [andb]. exact IH.
Qed.

Lemma text_meta_lines mname doc typ : mem_str typ type_words_text = true ->
  exists l1 l2, text_meta mname doc typ = l1 ++ [LF] ++ l2 ++ [LF] /\
    is_help_line false l1 = true /\ is_type_line type_words_text l2 = true.
Proof.
  intro Ht. unfold text_meta.
  exists (S_HELP ++ escape_metric_name mname ++ [SP] ++ help_escape_chain doc),
         (S_TYPE ++ escape_metric_name mname ++ [SP] ++ typ).
  split; [repeat (cbn [app]; rewrite <- ?app_assoc); reflexivity|]. split.
  - unfold is_help_line. change S_HELP with L_HELP.
    unfold g_seq at 1. rewrite g_lit_app. unfold g_seq at 1.
    rewrite g_metric_name_ok by reflexivity. unfold g_seq. cbn [app g_lit SPC]. change (SP =? 32) with true. cbv iota.
    rewrite help_escape_chain_eq, g_doc_help_escape. reflexivity.
  - unfold is_type_line. change S_TYPE with L_TYPE.
    unfold g_seq at 1. rewrite g_lit_app. unfold g_seq at 1.
    rewrite g_metric_name_ok by reflexivity. unfold g_seq. cbn [app g_lit SPC]. change (SP =? 32) with true. cbv iota.
    unfold g_word. rewrite Ht. reflexivity.
Qed.
