(* C12 - discharging counts_small: after a history `ops` every histogram count cell of the in-memory registry (each
   non-cumulative bucket count, hence the cumulative counts and _count = total) is at most the number of observe()
   calls in `ops`, hence at most length ops.  So a history of fewer than 2^53 calls is inside the domain of FL4 and
   C12_equiv holds without the hypothesis counts_small. *)
From V Require Import lib.PyBase lib.Tac.
From V Require Import model.Metrics model.Equiv proofs.EquivProofs proofs.EquivHistProofs.
From V Require model.Multiproc model.Values.
From Coq Require Import Permutation.
Ltac Zify.zify_post_hook ::= Z.to_euclidean_division_equations.
Open Scope N_scope.

Fixpoint nsum (cs : list N) : N := match cs with [] => 0 | c :: r => c + nsum r end.

Lemma last_accum_ne cs : forall n d c, last (accum n (c :: cs)) d = n + nsum (c :: cs).
Proof.
  induction cs as [|c' cs IH]; intros n d c; [cbn; lia|].
  change (accum n (c :: c' :: cs)) with ((n + c) :: accum (n + c) (c' :: cs)).
  change (last ((n + c) :: accum (n + c) (c' :: cs)) d) with (last (accum (n + c) (c' :: cs)) d).
  rewrite IH. cbn [nsum]. lia.
Qed.

Lemma last_accum_nsum cs : forall n, last (accum n cs) n = n + nsum cs.
Proof. destruct cs as [|c cs]; intro n; [cbn; lia|apply last_accum_ne]. Qed.

Lemma total_nsum cs : total cs = nsum cs.
Proof. unfold total. rewrite last_accum_nsum. lia. Qed.

Lemma nsum_zeros {A} (l : list A) : nsum (map (fun _ => 0) l) = 0.
Proof. induction l; cbn [map nsum]; lia. Qed.

Lemma In_set_nth {A} (l : list A) : forall i v x, In x (set_nth l i v) -> x = v \/ In x l.
Proof.
  induction l as [|a l IH]; intros i v x H; [destruct i; contradiction|].
  destruct i; cbn [set_nth] in H; destruct H as [H|H]; subst; cbn; auto.
  destruct (IH _ _ _ H); auto.
Qed.

Lemma In_d_set {K V} (keq : K -> K -> bool) (d : assoc K V) k v kc : In kc (d_set keq d k v) -> snd kc = v \/ In kc d.
Proof.
  induction d as [|[k' v'] d IH]; cbn [d_set]; intro H.
  - destruct H as [<-|[]]. left; reflexivity.
  - destruct (keq k k').
    + destruct H as [<-|H]; [left; reflexivity|right; right; exact H].
    + destruct H as [<-|H]; [right; left; reflexivity|]. destruct (IH H); auto. right; right; assumption.
Qed.

Lemma In_d_remove {K V} (keq : K -> K -> bool) (d : assoc K V) k kc : In kc (d_remove keq d k) -> In kc d.
Proof.
  induction d as [|[k' v'] d IH]; cbn [d_remove]; intro H; [contradiction|].
  destruct (keq k k'); [right; exact H|]. destruct H as [<-|H]; [left; reflexivity|right; auto].
Qed.

Lemma d_find_value {K V} (keq : K -> K -> bool) (d : assoc K V) k v : d_find keq d k = Some v -> exists k', In (k', v) d.
Proof.
  induction d as [|[k' v'] d IH]; cbn [d_find]; intro H; [discriminate|].
  destruct (keq k k').
  - inversion H; subst. exists k'. left; reflexivity.
  - destruct (IH H) as [k2 H2]. exists k2. right; exact H2.
Qed.

Section Obs.
  Variable F : Type.
  (* ---------- the number of observe() calls of a history ---------- *)
  Definition is_observe (o : mcall F) : bool := match o with CUpd _ _ (Observe _) => true | _ => false end.
  Definition obs1 (o : mcall F) : N := if is_observe o then 1 else 0.
  Fixpoint n_observe (ops : list (F * mcall F)) : N :=
    match ops with [] => 0 | o :: r => obs1 (snd o) + n_observe r end.

  Lemma n_observe_le_length ops : n_observe ops <= N.of_nat (length ops).
  Proof.
    induction ops as [|[now o] ops IH]; [cbn; lia|]. cbn [n_observe length snd].
    unfold obs1. destruct (is_observe o); lia.
  Qed.

  Lemma n_observe_app a b : n_observe (a ++ b) = n_observe a + n_observe b.
  Proof. induction a as [|o a IH]; cbn [app n_observe]; lia. Qed.

  Definition mop_obs (m : mop F) : N := match m with Observe _ => 1 | _ => 0 end.
End Obs.

Section Len.
  Variable F : Type.
  Variables fzero : F.
  Variable fadd : F -> F -> F.
  Variable fneg : F -> F.
  Variables flt fle : F -> F -> bool.
  Variable of_Z : Z -> res F.
  Variable zlef : Z -> F -> bool.

  Notation MSTEP := (mstep fzero fadd fneg flt fle of_Z zlef).
  Notation APPLY := (apply_mop fzero fadd fneg flt fle of_Z zlef false).
  Notation mem_step := (mem_step F fzero fadd fneg flt fle of_Z zlef).
  Notation mem_run := (mem_run F fzero fadd fneg flt fle of_Z zlef).
  Notation hc := (hc F).
  Notation obs1 := (obs1 F).
  Notation n_observe := (n_observe F).
  Notation mop_obs := (mop_obs F).

  (* ---------- the sum of the bucket counts of a child ---------- *)
  Definition hsum (c : child F) : N := nsum (hc c).

  Lemma bump_nsum a : forall bs cs, nsum (bump fle zlef bs cs a) <= nsum cs + 1.
  Proof.
    induction bs as [|b bs IH]; intros [|c cs]; cbn [bump nsum]; try lia.
    destruct (ale fle zlef a b); cbn [nsum]; [lia|]. specialize (IH cs). lia.
  Qed.

  Lemma init_hsum k bs : hsum (init_child fzero k bs) = 0.
  Proof. destruct k; cbn; try reflexivity. unfold hsum. cbn. apply nsum_zeros. Qed.

  Lemma apply_hsum names bounds states c m : hsum (fst (APPLY names bounds states c m)) <= hsum c + mop_obs m.
  Proof.
    unfold apply_mop. destruct c as [v|v|n s|s cs|kv|i]; destruct m as [a|a|a|a| |kv'|st]; cbn [fst mop_obs]; try lia;
      repeat match goal with
             | |- context [if ?b then _ else _] => destruct b
             | |- context [match ?x with Ok _ => _ | Err _ => _ end] => destruct x
             | |- context [match ?x with Some _ => _ | None => _ end] => destruct x
             end; cbn [fst]; unfold hsum; cbn [EquivHistProofs.hc nsum]; try lia.
    pose proof (bump_nsum a bounds cs). lia.
  Qed.

  (* every cell of the registry: the metric's own cells and the cells of every child *)
  Definition fam_bounded (n : N) (fam : mfamily F (child F)) : Prop :=
    hsum (f_solo fam) <= n /\ forall kc, In kc (f_children fam) -> hsum (snd kc) <= n.
  Definition reg_bounded (n : N) (r : mregistry F) : Prop := forall fam, In fam r -> fam_bounded n fam.

  Lemma reg_bounded_mono n m r : n <= m -> reg_bounded n r -> reg_bounded m r.
  Proof.
    intros Hle H fam Hin. destruct (H fam Hin) as [H1 H2]. split; [lia|]. intros kc Hk. specialize (H2 kc Hk). lia.
  Qed.

  Lemma put_bounded n r f fam' : reg_bounded n r -> fam_bounded n fam' -> reg_bounded n (put_family r f fam').
  Proof. intros H H' fam Hin. unfold put_family in Hin. apply In_set_nth in Hin as [->|Hin]; auto. Qed.

  Lemma ensure_bounded n k bs (ch : list (key * child F)) lv :
    (forall kc, In kc ch -> hsum (snd kc) <= n) ->
    forall kc, In kc (ensure (init_child fzero k bs) ch lv) -> hsum (snd kc) <= n.
  Proof.
    intros H kc. unfold ensure. destruct (d_find key_eqb ch lv); [apply H|].
    intro Hin. apply in_app_or in Hin as [Hin|[<-|[]]]; [apply H; exact Hin|]. cbn [snd]. rewrite init_hsum. lia.
  Qed.

  Lemma child_at_bounded n k bs (ch : list (key * child F)) lv :
    (forall kc, In kc ch -> hsum (snd kc) <= n) -> hsum (child_at (init_child fzero k bs) ch lv) <= n.
  Proof.
    intros H. unfold child_at. destruct (d_find key_eqb ch lv) as [c|] eqn:E; [|rewrite init_hsum; lia].
    apply d_find_value in E as [k' Hin]. apply (H _ Hin).
  Qed.

  Lemma mstep_bounded n r o : reg_bounded n r -> reg_bounded (n + obs1 o) (fst (MSTEP r o)).
  Proof.
    intro H. assert (Hm : reg_bounded (n + obs1 o) r) by (apply (reg_bounded_mono n); [lia|exact H]).
    unfold mstep, mstep_gen. destruct o as [f a m|f a|f vs|f]; destruct (nth_error r f) as [fam|] eqn:E; try exact Hm.
    - pose proof (H fam (nth_error_In _ _ E)) as [Hs Hc].
      assert (Ho : mop_obs m = obs1 (CUpd f a m)) by (destruct m; reflexivity).
      destruct (resolve (f_labelnames fam) a) as [[k|]|e]; try exact Hm.
      + set (init := init_child fzero (f_kind fam) (f_bounds fam)).
        set (ch := ensure init (f_children fam) k).
        pose proof (apply_hsum (f_labelnames fam) (f_bounds fam) (f_states fam) (child_at init ch k) m) as Ha.
        destruct (APPLY _ _ _ _ _) as [c' out]. cbn [fst] in *.
        assert (Hch : forall kc, In kc ch -> hsum (snd kc) <= n) by (apply ensure_bounded; exact Hc).
        pose proof (child_at_bounded n (f_kind fam) (f_bounds fam) ch k Hch) as Hat. fold init in Hat.
        apply put_bounded; [exact Hm|]. split; cbn [f_solo f_children with_children]; [lia|].
        intros kc Hin. apply In_d_set in Hin as [->|Hin]; [lia|]. specialize (Hch kc Hin). lia.
      + destruct (is_nil (f_labelnames fam)); [|exact Hm].
        pose proof (apply_hsum (f_labelnames fam) (f_bounds fam) (f_states fam) (f_solo fam) m) as Ha.
        destruct (APPLY _ _ _ _ _) as [c' out]. cbn [fst] in *.
        apply put_bounded; [exact Hm|]. split; cbn [f_solo f_children with_solo]; [lia|].
        intros kc Hin. specialize (Hc kc Hin). lia.
    - pose proof (Hm fam (nth_error_In _ _ E)) as [Hs Hc].
      destruct (resolve (f_labelnames fam) a) as [[k|]|e]; try exact Hm. cbn [fst].
      apply put_bounded; [exact Hm|]. split; cbn [f_solo f_children with_children]; [exact Hs|].
      apply ensure_bounded. exact Hc.
    - pose proof (Hm fam (nth_error_In _ _ E)) as [Hs Hc].
      destruct (is_nil (f_labelnames fam)); [exact Hm|]. destruct (negb _); [exact Hm|]. cbn [fst].
      apply put_bounded; [exact Hm|]. split; cbn [f_solo f_children with_children]; [exact Hs|].
      intros kc Hin. apply In_d_remove in Hin. apply Hc. exact Hin.
    - pose proof (Hm fam (nth_error_In _ _ E)) as [Hs Hc].
      destruct (is_nil (f_labelnames fam)); [destruct (f_kind fam); exact Hm|]. cbn [fst].
      apply put_bounded; [exact Hm|]. split; cbn [f_solo f_children with_children]; [exact Hs|]. intros kc [].
  Qed.

  Lemma mem_step_bounded metas n s o :
    reg_bounded n (m_reg F s) -> reg_bounded (n + obs1 o) (m_reg F (fst (mem_step metas s o))).
  Proof.
    intro H. unfold Equiv.mem_step. destruct o as [f a m|f a|f vs|f].
    - destruct (nth_error (m_reg F s) f) as [fam|]; [|cbn [fst]; apply (reg_bounded_mono n); [lia|exact H]].
      destruct (nth_error metas f) as [me|]; [|cbn [fst]; apply (reg_bounded_mono n); [lia|exact H]].
      destruct (mr_blocked F (f_kind fam) (fm_mode me) m).
      + pose proof (mstep_bounded n (m_reg F s) (CLabels f a) H) as Hb.
        destruct (MSTEP (m_reg F s) (CLabels f a)) as [r' out]. cbn [fst m_reg] in *.
        apply (reg_bounded_mono (n + obs1 (CLabels f a))); [unfold obs1; cbn [is_observe]; lia|exact Hb].
      + pose proof (mstep_bounded n (m_reg F s) (CUpd f a m) H) as Hb.
        destruct (MSTEP (m_reg F s) (CUpd f a m)) as [r' out]. exact Hb.
    - pose proof (mstep_bounded n (m_reg F s) (CLabels f a) H) as Hb.
      destruct (MSTEP (m_reg F s) (CLabels f a)) as [r' out]. exact Hb.
    - pose proof (mstep_bounded n (m_reg F s) (CRemove f vs) H) as Hb.
      destruct (MSTEP (m_reg F s) (CRemove f vs)) as [r' out]. exact Hb.
    - pose proof (mstep_bounded n (m_reg F s) (CClear f) H) as Hb.
      destruct (MSTEP (m_reg F s) (CClear f)) as [r' out]. exact Hb.
  Qed.

  Lemma mem_run_bounded metas ops : forall n s,
    reg_bounded n (m_reg F s) -> reg_bounded (n + n_observe ops) (m_reg F (mem_run metas s ops)).
  Proof.
    induction ops as [|[now o] ops IH]; intros n s H.
    - cbn. apply (reg_bounded_mono n); [lia|exact H].
    - unfold Equiv.mem_run. cbn [fold_left fst snd n_observe].
      replace (n + (obs1 o + n_observe ops)) with (n + obs1 o + n_observe ops) by lia.
      apply IH. apply mem_step_bounded. exact H.
  Qed.

  Lemma fresh_bounded (fams : mregistry F) :
    (forall fam, In fam fams -> fresh_fam F fzero fam) -> reg_bounded 0 fams.
  Proof.
    intros H fam Hin. destruct (H fam Hin) as [Hc Hs]. split.
    - rewrite Hs, init_hsum. lia.
    - rewrite Hc. intros kc [].
  Qed.

  (* ===== after ANY history (no domain restriction on the calls) from freshly constructed metrics: every bucket count of
     every histogram cell - and so their sum, which is the _count the collection reports - is bounded by the number
     of observe() calls ===== *)
  Theorem counts_bounded_by_observes metas (fams : mregistry F) ops :
    (forall fam, In fam fams -> fresh_fam F fzero fam) ->
    forall f fam, nth_error (m_reg F (mem_run metas (mem_init F fams) ops)) f = Some fam ->
      forall kc, In kc (kids F fam) ->
        total (hc (snd kc)) <= n_observe ops /\ (forall c, In c (hc (snd kc)) -> c <= n_observe ops).
  Proof.
    intros Hfr f fam Hf kc Hin.
    pose proof (mem_run_bounded metas ops 0 (mem_init F fams) (fresh_bounded fams Hfr)) as Hb.
    destruct (Hb fam (nth_error_In _ _ Hf)) as [Hs Hc].
    assert (Hk : hsum (snd kc) <= n_observe ops).
    { unfold EquivProofs.kids in Hin. destruct (is_nil (f_labelnames fam)).
      - destruct Hin as [<-|[]]. cbn [snd]. lia.
      - specialize (Hc kc Hin). lia. }
    split; [rewrite total_nsum; exact Hk|].
    unfold hsum in Hk. revert Hk. generalize (hc (snd kc)) as cs. induction cs as [|c0 cs IH]; intros Hk c [].
    - subst. cbn [nsum] in Hk. lia.
    - apply IH; [cbn [nsum] in Hk; lia|assumption].
  Qed.

  Theorem counts_small_of_observes metas (fams : mregistry F) ops :
    (forall fam, In fam fams -> fresh_fam F fzero fam) -> n_observe ops < 2 ^ 53 ->
    forall f fam, nth_error (m_reg F (mem_run metas (mem_init F fams) ops)) f = Some fam -> counts_small F fam.
  Proof.
    intros Hfr Hn f fam Hf kc Hin.
    destruct (counts_bounded_by_observes metas fams ops Hfr f fam Hf kc Hin) as [H _].
    eapply N.le_lt_trans; [exact H|exact Hn].
  Qed.

End Len.

Section LenEquiv.
  Variable F : Type.
  Variables fzero fone : F.
  Variable fadd : F -> F -> F.
  Variable fneg : F -> F.
  Variables flt fle feqb : F -> F -> bool.
  Variable of_Z : Z -> res F.
  Variable zlef : Z -> F -> bool.
  Variable parse_le : str -> F.
  Variable fmt_le : F -> str.
  Notation mem_run := (mem_run F fzero fadd fneg flt fle of_Z zlef).
  Notation n_observe := (n_observe F).

  (* ===== C12 with the length of the history instead of counts_small ===== *)
  Hypothesis FL1 : forall v, feq F feqb v (fadd fzero v).
  Hypothesis FLT_zero : flt fzero fzero = false.
  Hypothesis FLT_trans : forall a b c, flt a b = true -> flt b c = true -> flt a c = true.
  Hypothesis FLT_ne : forall a b, flt a b = true -> feqb b a = false.
  Hypothesis FL4 : forall a b, a + b < 2 ^ 53 ->
    fadd (fcount F fzero fone fadd a) (fcount F fzero fone fadd b) = fcount F fzero fone fadd (a + b).

  Theorem equiv_all_observes metas pid fams ops :
    wf_reg F fzero fmt_le metas fams ->
    (forall fam0, In fam0 fams -> f_kind fam0 = KHistogram -> hwf F fzero flt fle parse_le fmt_le fam0) ->
    ~ In Multiproc.US pid -> Forall (call_ok F fzero flt) ops ->
    n_observe ops < 2 ^ 53 ->
    let S := mem_run metas (mem_init F fams) ops in
    let P := mp_run F fzero fone fadd fneg flt fle feqb of_Z zlef fmt_le metas pid (mp_init F fzero fmt_le metas pid fams) ops in
    forall f fam me, nth_error (m_reg F S) f = Some fam -> nth_error metas f = Some me ->
      sim F feqb (norm_mem F fzero fone fadd fle fmt_le me (m_log F S) f fam)
                 (norm_mp F (f_kind fam) me
                    (mp_family F (f_name fam) (collect_mp F fzero fadd flt feqb parse_le fmt_le (p_fs F P)))).
  Proof.
    intros Hwf Hh Hpid Hops Hn S P f fam me Hf Hm.
    apply (equiv_all F fzero fone fadd fneg flt fle feqb of_Z zlef parse_le fmt_le FL1 FLT_zero FLT_trans FLT_ne FL4
             metas pid fams ops Hwf Hh Hpid Hops f fam me Hf Hm).
    intros _. refine (counts_small_of_observes F fzero fadd fneg flt fle of_Z zlef metas fams ops _ Hn f fam Hf).
    intros fam0 Hin. destruct Hwf as (_ & _ & Hw & _). apply (Hw fam0 Hin).
  Qed.

  Theorem equiv_all_hist_len metas pid fams ops :
    wf_reg F fzero fmt_le metas fams ->
    (forall fam0, In fam0 fams -> f_kind fam0 = KHistogram -> hwf F fzero flt fle parse_le fmt_le fam0) ->
    ~ In Multiproc.US pid -> Forall (call_ok F fzero flt) ops ->
    N.of_nat (length ops) < 2 ^ 53 ->
    let S := mem_run metas (mem_init F fams) ops in
    let P := mp_run F fzero fone fadd fneg flt fle feqb of_Z zlef fmt_le metas pid (mp_init F fzero fmt_le metas pid fams) ops in
    forall f fam me, nth_error (m_reg F S) f = Some fam -> nth_error metas f = Some me ->
      sim F feqb (norm_mem F fzero fone fadd fle fmt_le me (m_log F S) f fam)
                 (norm_mp F (f_kind fam) me
                    (mp_family F (f_name fam) (collect_mp F fzero fadd flt feqb parse_le fmt_le (p_fs F P)))).
  Proof.
    intros Hwf Hh Hpid Hops Hn. apply equiv_all_observes; auto.
    eapply N.le_lt_trans; [apply n_observe_le_length|exact Hn].
  Qed.
End LenEquiv.
