(* C13: the le labels of the multiprocess collector are rendered per label set, from that label set's own bounds *)
From V Require Import lib.PyBase model.Utils model.Decimal model.LeLabels proofs.UtilsProofs.
Open Scope N_scope.

Lemma le_cumulate_labels acc bs :
  map fst (le_cumulate acc bs) = map (fun bv => go_string (fst bv)) bs.
Proof.
  revert acc. induction bs as [|[b v] r IH]; intro acc; simpl; [reflexivity|].
  rewrite IH. reflexivity.
Qed.

Lemma le_cumulate_counts acc bs :
  map snd (le_cumulate acc bs) = prefix_sums acc (map snd bs).
Proof.
  revert acc. induction bs as [|[b v] r IH]; intro acc; simpl; [reflexivity|].
  rewrite IH. reflexivity.
Qed.

Lemma le_plain_labels bs : map fst (le_plain bs) = map (fun bv => go_string (fst bv)) bs.
Proof. unfold le_plain. rewrite map_map. reflexivity. Qed.

Lemma le_plain_counts bs : map snd (le_plain bs) = map snd bs.
Proof. unfold le_plain. rewrite map_map. reflexivity. Qed.

(* every label set exposed comes from a label set merged, and its le labels are, position for position, the
   renderings of ITS OWN bounds, each carrying the (cumulative) count of that bound *)
Theorem mp_le_own_bounds (A : Type) (acc : bool) (sets : list (A * layout)) l out :
  In (l, out) (mp_le_samples acc sets) ->
  exists bs, In (l, bs) sets
    /\ map fst out = map (fun bv => go_string (fst bv)) bs
    /\ map snd out = (if acc then prefix_sums 0 (map snd bs) else map snd bs).
Proof.
  unfold mp_le_samples. intro H. apply in_map_iff in H. destruct H as [[l' bs] [Heq Hin]].
  simpl in Heq. inversion Heq; subst l out. exists bs. split; [exact Hin|].
  destruct acc.
  - split; [apply le_cumulate_labels|apply le_cumulate_counts].
  - split; [apply le_plain_labels|apply le_plain_counts].
Qed.

(* no label set merged is lost, and none is invented *)
Theorem mp_le_label_sets (A : Type) (acc : bool) (sets : list (A * layout)) :
  map fst (mp_le_samples acc sets) = map fst sets.
Proof. unfold mp_le_samples. rewrite map_map. reflexivity. Qed.

(* the i-th exposed label is the rendering of the i-th bound of the same label set *)
Theorem mp_le_nth (A : Type) (acc : bool) (sets : list (A * layout)) l out i le n :
  In (l, out) (mp_le_samples acc sets) -> nth_error out i = Some (le, n) ->
  exists bs b v, In (l, bs) sets /\ nth_error bs i = Some (b, v) /\ le = go_string b.
Proof.
  intros Hin Hn. destruct (mp_le_own_bounds A acc sets l out Hin) as (bs & Hbs & Hl & _).
  assert (Hm : nth_error (map fst out) i = Some le) by (rewrite nth_error_map, Hn; reflexivity).
  rewrite Hl, nth_error_map in Hm. destruct (nth_error bs i) as [[b v]|] eqn:E; [|discriminate].
  simpl in Hm. inversion Hm. exists bs, b, v. auto.
Qed.

(* two finite bounds of one label set that get the same le label denote the same number: with the labels
   rendered per label set, go_string's injectivity carries over to the exposed buckets *)
Theorem mp_le_distinct (A : Type) (acc : bool) (sets : list (A * layout)) l out i j le n1 n2 :
  In (l, out) (mp_le_samples acc sets) ->
  nth_error out i = Some (le, n1) -> nth_error out j = Some (le, n2) ->
  exists bs b1 v1 b2 v2, In (l, bs) sets /\ nth_error bs i = Some (b1, v1) /\ nth_error bs j = Some (b2, v2)
    /\ go_string b1 = go_string b2.
Proof.
  intros Hin H1 H2. destruct (mp_le_own_bounds A acc sets l out Hin) as (bs & Hbs & Hl & _).
  assert (Hm1 : nth_error (map fst out) i = Some le) by (rewrite nth_error_map, H1; reflexivity).
  assert (Hm2 : nth_error (map fst out) j = Some le) by (rewrite nth_error_map, H2; reflexivity).
  rewrite Hl, nth_error_map in Hm1, Hm2.
  destruct (nth_error bs i) as [[b1 v1]|] eqn:E1; [|discriminate].
  destruct (nth_error bs j) as [[b2 v2]|] eqn:E2; [|discriminate].
  simpl in Hm1, Hm2. inversion Hm1. inversion Hm2.
  exists bs, b1, v1, b2, v2. repeat split; auto. congruence.
Qed.

(* the shared-labels design: two workers, the second one's top bucket raised from 1e6 to 2.5e6 by a deploy.
   The second label set is exposed with le = 1e+06, which is the rendering of none of its bounds. *)
Definition W_a : layout := [(FFin true (s2l "0.1"), 1); (FFin true (s2l "1000000.0"), 2); (FPosInf, 1)].
Definition W_b : layout := [(FFin true (s2l "0.1"), 1); (FFin true (s2l "2500000.0"), 2); (FPosInf, 1)].
Definition W_short : layout := [(FFin true (s2l "2500000.0"), 2); (FPosInf, 1)].

Theorem mp_le_shared_wrong_label :
  exists (sets : list (N * layout)) l bs out,
    In (l, bs) sets /\ In (l, out) (mp_le_samples_shared sets)
    /\ map fst out <> map (fun bv => go_string (fst bv)) bs
    /\ exists le, In le (map fst out) /\ ~ In le (map (fun bv => go_string (fst bv)) bs).
Proof.
  exists [(1, W_a); (2, W_b)], 2, W_b, (zip_cumulate 0 (map (fun bv => go_string (fst bv)) W_a) W_b).
  split; [right; left; reflexivity|]. split; [right; left; reflexivity|].
  split; [vm_compute; discriminate|].
  exists (s2l "1e+06"). split; [vm_compute; right; left; reflexivity|].
  vm_compute. intros [H|[H|[H|[]]]]; discriminate.
Qed.

(* layouts of different length: zip drops the buckets beyond the first label set's count *)
Theorem mp_le_shared_drops_buckets :
  exists (sets : list (N * layout)) l bs out,
    In (l, bs) sets /\ In (l, out) (mp_le_samples_shared sets) /\ (length out < length bs)%nat.
Proof.
  exists [(1, W_short); (2, W_a)], 2, W_a, (zip_cumulate 0 (map (fun bv => go_string (fst bv)) W_short) W_a).
  split; [right; left; reflexivity|]. split; [right; left; reflexivity|].
  vm_compute. repeat constructor.
Qed.

(* the code's rendering on the same input: every label is the label set's own *)
Example mp_le_example :
  mp_le_samples true [(1, W_a); (2, W_b)] =
    [(1, [(s2l "0.1", 1); (s2l "1e+06", 3); (s2l "+Inf", 4)]);
     (2, [(s2l "0.1", 1); (s2l "2.5e+06", 3); (s2l "+Inf", 4)])].
Proof. vm_compute. reflexivity. Qed.
