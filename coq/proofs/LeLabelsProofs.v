(* C13: the le labels of the multiprocess collector are rendered per label set, from that label set's own bounds *)
From V Require Import lib.PyBase model.Utils model.Decimal model.LeLabels proofs.UtilsProofs.
Open Scope N_scope.

Lemma le_cumulate_labels acc bs :
  map fst (le_cumulate acc bs) = map (fun bv => go_string (fst bv)) bs.
Proof.
  revert acc. induction bs as [|[b v] r IH]; intro acc; simpl; [reflexivity|].
  rewrite IH. reflexivity.
Qed.

Lemma le_cumulate_counts acc bs :
  map snd (le_cumulate acc bs) = prefix_sums acc (map snd bs).
Proof.
  revert acc. induction bs as [|[b v] r IH]; intro acc; simpl; [reflexivity|].
  rewrite IH. reflexivity.
Qed.

Lemma le_plain_labels bs : map fst (le_plain bs) = map (fun bv => go_string (fst bv)) bs.
Proof. unfold le_plain. rewrite map_map. reflexivity. Qed.

Lemma le_plain_counts bs : map snd (le_plain bs) = map snd bs.
Proof. unfold le_plain. rewrite map_map. reflexivity. Qed.

(* every label set exposed comes from a label set merged, and its le labels are, position for position, the
   renderings of ITS OWN bounds, each carrying the (cumulative) count of that bound *)
Theorem mp_le_own_bounds (A : Type) (acc : bool) (sets : list (A * layout)) l out :
  In (l, out) (mp_le_samples acc sets) ->
  exists bs, In (l, bs) sets
    /\ map fst out = map (fun bv => go_string (fst bv)) bs
    /\ map snd out = (if acc then prefix_sums 0 (map snd bs) else map snd bs).
Proof.
  unfold mp_le_samples. intro H. apply in_map_iff in H. destruct H as [[l' bs] [Heq Hin]].
  simpl in Heq. inversion Heq; subst l out. exists bs. split; [exact Hin|].
  destruct acc.
  - split; [apply le_cumulate_labels|apply le_cumulate_counts].
  - split; [apply le_plain_labels|apply le_plain_counts].
Qed.

(* no label set merged is lost, and none is invented *)
Theorem mp_le_label_sets (A : Type) (acc : bool) (sets : list (A * layout)) :
  map fst (mp_le_samples acc sets) = map fst sets.
Proof. unfold mp_le_samples. rewrite map_map. reflexivity. Qed.

(* the i-th exposed label is the rendering of the i-th bound of the same label set *)
Theorem mp_le_nth (A : Type) (acc : bool) (sets : list (A * layout)) l out i le n :
  In (l, out) (mp_le_samples acc sets) -> nth_error out i = Some (le, n) ->
  exists bs b v, In (l, bs) sets /\ nth_error bs i = Some (b, v) /\ le = go_string b.
Proof.
  intros Hin Hn. destruct (mp_le_own_bounds A acc sets l out Hin) as (bs & Hbs & Hl & _).
  assert (Hm : nth_error (map fst out) i = Some le) by (rewrite nth_error_map, Hn; reflexivity).
  rewrite Hl, nth_error_map in Hm. destruct (nth_error bs i) as [[b v]|] eqn:E; [|discriminate].
  simpl in Hm. inversion Hm. exists bs, b, v. auto.
Qed.

(* two finite bounds of one label set that get the same le label denote the same number: with the labels
   rendered per label set, go_string's injectivity carries over to the exposed buckets *)
Theorem mp_le_distinct (A : Type) (acc : bool) (sets : list (A * layout)) l out i j le n1 n2 :
  In (l, out) (mp_le_samples acc sets) ->
  nth_error out i = Some (le, n1) -> nth_error out j = Some (le, n2) ->
  exists bs b1 v1 b2 v2, In (l, bs) sets /\ nth_error bs i = Some (b1, v1) /\ nth_error bs j = Some (b2, v2)
    /\ go_string b1 = go_string b2.
Proof.
  intros Hin H1 H2. destruct (mp_le_own_bounds A acc sets l out Hin) as (bs & Hbs & Hl & _).
  assert (Hm1 : nth_error (map fst out) i = Some le) by (rewrite nth_error_map, H1; reflexivity).
  assert (Hm2 : nth_error (map fst out) j = Some le) by (rewrite nth_error_map, H2; reflexivity).
  rewrite Hl, nth_error_map in Hm1, Hm2.
  destruct (nth_error bs i) as [[b1 v1]|] eqn:E1; [|discriminate].
  destruct (nth_error bs j) as [[b2 v2]|] eqn:E2; [|discriminate].
  simpl in Hm1, Hm2. inversion Hm1. inversion Hm2.
  exists bs, b1, v1, b2, v2. repeat split; auto. congruence.
Qed.

(* the shared-labels design: two workers, the second one's top bucket raised from 1e6 to 2.5e6 by a deploy.
   The second label set is exposed with le = 1e+06, which is the rendering of none of its bounds. *)
Definition W_a : layout := [(FFin true (s2l "0.1"), 1); (FFin true (s2l "1000000.0"), 2); (FPosInf, 1)].
Definition W_b : layout := [(FFin true (s2l "0.1"), 1); (FFin true (s2l "2500000.0"), 2); (FPosInf, 1)].
Definition W_short : layout := [(FFin true (s2l "2500000.0"), 2); (FPosInf, 1)].

Theorem mp_le_shared_wrong_label :
  exists (sets : list (N * layout)) l bs out,
    In (l, bs) sets /\ In (l, out) (mp_le_samples_shared sets)
    /\ map fst out <> map (fun bv => go_string (fst bv)) bs
    /\ exists le, In le (map fst out) /\ ~ In le (map (fun bv => go_string (fst bv)) bs).
Proof.
  exists [(1, W_a); (2, W_b)], 2, W_b, (zip_cumulate 0 (map (fun bv => go_string (fst bv)) W_a) W_b).
  split; [right; left; reflexivity|]. split; [right; left; reflexivity|].
  split; [vm_compute; discriminate|].
  exists (s2l "1e+06"). split; [vm_compute; right; left; reflexivity|].
  vm_compute. intros [H|[H|[H|[]]]]; discriminate.
Qed.

(* layouts of different length: zip drops the buckets beyond the first label set's count *)
Theorem mp_le_shared_drops_buckets :
  exists (sets : list (N * layout)) l bs out,
    In (l, bs) sets /\ In (l, out) (mp_le_samples_shared sets) /\ (length out < length bs)%nat.
Proof.
  exists [(1, W_short); (2, W_a)], 2, W_a, (zip_cumulate 0 (map (fun bv => go_string (fst bv)) W_short) W_a).
  split; [right; left; reflexivity|]. split; [right; left; reflexivity|].
  vm_compute. repeat constructor.
Qed.

(* the code's rendering on the same input: every label is the label set's own *)
Example mp_le_example :
  mp_le_samples true [(1, W_a); (2, W_b)] =
    [(1, [(s2l "0.1", 1); (s2l "1e+06", 3); (s2l "+Inf", 4)]);
     (2, [(s2l "0.1", 1); (s2l "2.5e+06", 3); (s2l "+Inf", 4)])].
Proof. vm_compute. reflexivity. Qed.

(* ---------------------------------------------------------------------------------------------------------- *)
(* the instrumentation class: le labels of a Histogram built from bounds GIVEN in any type/spelling          *)

Lemma with_inf_cases bs :
  with_inf bs = bs \/ with_inf bs = bs ++ [FPosInf].
Proof.
  destruct bs as [|b r]; [left; reflexivity|]. unfold with_inf.
  destruct (is_pinf (last (b :: r) FNaN)); [left|right]; reflexivity.
Qed.

Lemma with_inf_nth bs i : (i < length bs)%nat -> nth_error (with_inf bs) i = nth_error bs i.
Proof.
  intro H. destruct (with_inf_cases bs) as [E|E]; rewrite E; [reflexivity|].
  apply nth_error_app1. exact H.
Qed.

Lemma last_app_single {A} (l : list A) (x d : A) : last (l ++ [x]) d = x.
Proof. induction l as [|a r IH]; [reflexivity|]. simpl. destruct (r ++ [x]) eqn:E; [destruct r; discriminate|]. exact IH. Qed.

Lemma is_pinf_true c : is_pinf c = true -> c = FPosInf.
Proof. destruct c; simpl; congruence. Qed.

(* the last bound kept is +Inf, everything before it is the given bounds, converted, in the given order *)
Lemma with_inf_shape bs : bs <> [] ->
  exists pre, with_inf bs = pre ++ [FPosInf] /\ (pre = bs \/ pre ++ [FPosInf] = bs).
Proof.
  intro Hne. destruct bs as [|b r]; [congruence|]. unfold with_inf.
  destruct (is_pinf (last (b :: r) FNaN)) eqn:E.
  - apply is_pinf_true in E. destruct (exists_last Hne) as (pre & x & Hx). rewrite Hx in *.
    rewrite last_app_single in E. subst x. exists pre. split; [reflexivity|right; reflexivity].
  - exists (b :: r). split; [reflexivity|left; reflexivity].
Qed.

Theorem hist_bounds_shape (B : Type) (f : B -> fclass) src bs :
  hist_bounds B f src = Ok bs ->
  (2 <= length bs)%nat /\
  exists pre, bs = pre ++ [FPosInf] /\ (pre = map f src \/ pre ++ [FPosInf] = map f src).
Proof.
  unfold hist_bounds. destruct (length (with_inf (map f src)) <? 2)%nat eqn:E; [discriminate|].
  intro H. inversion H. subst bs. apply Nat.ltb_ge in E. split; [exact E|].
  apply with_inf_shape. intro Hn. rewrite Hn in E. simpl in E. lia.
Qed.

(* every bucket exposed: its le is the rendering of the DOUBLE its bound denotes, its value the running count *)
Theorem hist_le_own_bounds (B : Type) (f : B -> fclass) src counts out :
  hist_le_samples B f src counts = Ok out ->
  exists bs, hist_bounds B f src = Ok bs /\
    (length counts = length bs ->
       map fst out = map go_string bs /\ map snd out = prefix_sums 0 counts).
Proof.
  unfold hist_le_samples. destruct (hist_bounds B f src) as [bs|e] eqn:E; simpl; [|discriminate].
  intro H. inversion H. subst out. exists bs. split; [reflexivity|]. intro Hl.
  rewrite le_cumulate_labels, le_cumulate_counts.
  assert (H1 : map fst (combine bs counts) = bs).
  { clear - Hl. revert counts Hl. induction bs as [|b r IH]; intros [|c cs] Hl; simpl in *; try congruence.
    rewrite IH; [reflexivity|lia]. }
  assert (H2 : map snd (combine bs counts) = counts).
  { clear - Hl. revert counts Hl. induction bs as [|b r IH]; intros [|c cs] Hl; simpl in *; try congruence; try lia.
    rewrite IH; [reflexivity|lia]. }
  rewrite H2. split; [|reflexivity].
  rewrite <- H1 at 2. rewrite map_map. reflexivity.
Qed.

Lemma combine_nth_fst {X Y} (l1 : list X) (l2 : list Y) i a b :
  nth_error (combine l1 l2) i = Some (a, b) -> nth_error l1 i = Some a.
Proof.
  revert l2 i. induction l1 as [|x r IH]; intros [|y l2] [|i]; simpl; try discriminate.
  - intro H. inversion H. reflexivity.
  - apply IH.
Qed.

Lemma combine_nth_some {X Y} (l1 : list X) (l2 : list Y) i a :
  nth_error l1 i = Some a -> (i < length l2)%nat -> exists b, nth_error (combine l1 l2) i = Some (a, b).
Proof.
  revert l2 i. induction l1 as [|x r IH]; intros [|y l2] [|i]; simpl; try discriminate; try lia.
  - intros H _. inversion H. exists y. reflexivity.
  - intros H Hl. apply IH; [exact H|lia].
Qed.

Lemma hist_bounds_nth (B : Type) (f : B -> fclass) src bs i b :
  hist_bounds B f src = Ok bs -> nth_error src i = Some b -> nth_error bs i = Some (f b).
Proof.
  intros Hbs Hb. assert (Hi : (i < length src)%nat) by (apply nth_error_Some; congruence).
  unfold hist_bounds in Hbs. destruct (length (with_inf (map f src)) <? 2)%nat; [discriminate|].
  inversion Hbs. rewrite with_inf_nth by (rewrite map_length; exact Hi).
  rewrite nth_error_map, Hb. reflexivity.
Qed.

(* the i-th given bound gets the rendering of float(bound) - nothing of how it was given survives *)
Theorem hist_le_nth (B : Type) (f : B -> fclass) src counts out i b le n :
  hist_le_samples B f src counts = Ok out ->
  nth_error src i = Some b -> nth_error out i = Some (le, n) -> le = go_string (f b).
Proof.
  intros H Hb Ho. unfold hist_le_samples in H.
  destruct (hist_bounds B f src) as [bs|e] eqn:Hbs; simpl in H; [|discriminate]. inversion H. subst out.
  assert (Hm : nth_error (map fst (le_cumulate 0 (combine bs counts))) i = Some le)
    by (rewrite nth_error_map, Ho; reflexivity).
  rewrite le_cumulate_labels, nth_error_map in Hm.
  destruct (nth_error (combine bs counts) i) as [[b' c]|] eqn:E; [|discriminate].
  simpl in Hm. inversion Hm. apply combine_nth_fst in E.
  rewrite (hist_bounds_nth B f src bs i b Hbs Hb) in E. inversion E. reflexivity.
Qed.

(* ... and it IS exposed (a bucket per given bound) when a value was kept for it *)
Theorem hist_le_nth_exposed (B : Type) (f : B -> fclass) src counts out i b :
  hist_le_samples B f src counts = Ok out -> nth_error src i = Some b -> (i < length counts)%nat ->
  exists n, nth_error out i = Some (go_string (f b), n).
Proof.
  intros H Hb Hc. pose proof H as H0. unfold hist_le_samples in H.
  destruct (hist_bounds B f src) as [bs|e] eqn:Hbs; simpl in H; [|discriminate]. inversion H.
  destruct (combine_nth_some bs counts i (f b) (hist_bounds_nth B f src bs i b Hbs Hb) Hc) as (c & Ec).
  assert (Hm : nth_error (map fst (le_cumulate 0 (combine bs counts))) i = Some (go_string (f b)))
    by (rewrite le_cumulate_labels, nth_error_map, Ec; reflexivity).
  rewrite nth_error_map in Hm.
  destruct (nth_error (le_cumulate 0 (combine bs counts)) i) as [[le n]|]; [|discriminate].
  simpl in Hm. inversion Hm. exists n. reflexivity.
Qed.

Theorem hist_le_of_the_double (B : Type) (f : B -> fclass) src counts out :
  hist_le_samples B f src counts = Ok out ->
  exists bs, hist_bounds B f src = Ok bs
    /\ (2 <= length bs)%nat
    /\ (exists pre, bs = pre ++ [FPosInf] /\ (pre = map f src \/ pre ++ [FPosInf] = map f src))
    /\ (length counts = length bs ->
          map fst out = map go_string bs /\ map snd out = prefix_sums 0 counts).
Proof.
  intro H. destruct (hist_le_own_bounds B f src counts out H) as (bs & Hb & Hm).
  exists bs. destruct (hist_bounds_shape B f src bs Hb) as [H2 Hs]. auto.
Qed.

Theorem hist_le_nth_both (B : Type) (f : B -> fclass) src counts out i b :
  hist_le_samples B f src counts = Ok out -> nth_error src i = Some b ->
  (forall le n, nth_error out i = Some (le, n) -> le = go_string (f b))
  /\ ((i < length counts)%nat -> exists n, nth_error out i = Some (go_string (f b), n)).
Proof.
  intros H Hb. split.
  - intros le n Ho. exact (hist_le_nth B f src counts out i b le n H Hb Ho).
  - exact (hist_le_nth_exposed B f src counts out i b H Hb).
Qed.

(* how the bounds were given does not matter: two sources denoting the same doubles are exposed identically *)
Theorem hist_le_spelling_independent (B1 B2 : Type) (f1 : B1 -> fclass) (f2 : B2 -> fclass) s1 s2 counts :
  map f1 s1 = map f2 s2 ->
  hist_le_samples B1 f1 s1 counts = hist_le_samples B2 f2 s2 counts.
Proof. intro H. unfold hist_le_samples, hist_bounds. rewrite H. reflexivity. Qed.

(* one number, one label string: the same double at any position of any two histograms, however given *)
Theorem hist_le_same_number (B1 B2 : Type) (f1 : B1 -> fclass) (f2 : B2 -> fclass) s1 s2 c1 c2 o1 o2 i j b1 b2 le1 n1 le2 n2 :
  hist_le_samples B1 f1 s1 c1 = Ok o1 -> hist_le_samples B2 f2 s2 c2 = Ok o2 ->
  nth_error s1 i = Some b1 -> nth_error s2 j = Some b2 -> f1 b1 = f2 b2 ->
  nth_error o1 i = Some (le1, n1) -> nth_error o2 j = Some (le2, n2) -> le1 = le2.
Proof.
  intros H1 H2 N1 N2 Hf O1 O2.
  rewrite (hist_le_nth B1 f1 s1 c1 o1 i b1 le1 n1 H1 N1 O1), (hist_le_nth B2 f2 s2 c2 o2 j b2 le2 n2 H2 N2 O2), Hf.
  reflexivity.
Qed.

(* the in-process exposition of a histogram IS what the multiprocess collector renders for a label set with
   those bounds and counts: the label strings agree across the two paths *)
Theorem hist_le_agrees_with_merge (A B : Type) (f : B -> fclass) (l : A) src counts out bs :
  hist_le_samples B f src counts = Ok out -> hist_bounds B f src = Ok bs ->
  mp_le_samples true [(l, combine bs counts)] = [(l, out)].
Proof.
  unfold hist_le_samples. intros H Hb. rewrite Hb in H. simpl in H. inversion H. reflexivity.
Qed.

(* fewer than two buckets: ValueError, and nothing else is ever raised *)
Theorem hist_le_only_value_error (B : Type) (f : B -> fclass) src counts e :
  hist_le_samples B f src counts = Err e -> e = ValueError /\ (length (with_inf (map f src)) < 2)%nat.
Proof.
  unfold hist_le_samples, hist_bounds. destruct (length (with_inf (map f src)) <? 2)%nat eqn:E; simpl; [|discriminate].
  intro H. inversion H. split; [reflexivity|]. apply Nat.ltb_lt. exact E.
Qed.

(* the verbatim design: bounds 1e6 given as the text "1000000" and +Inf given as "inf" *)
Definition G_text : list given :=
  [GText (s2l "0.50") (FFin true (s2l "0.5")); GText (s2l "1000000") (FFin true (s2l "1000000.0"));
   GText (s2l "inf") FPosInf].
Definition G_num : list given :=
  [GNum (FFin true (s2l "0.5")); GNum (FFin true (s2l "1000000.0"))].

Theorem hist_les_verbatim_wrong :
  exists s1 s2 : list given,
    with_inf (map given_float s1) = with_inf (map given_float s2)
    /\ hist_les_verbatim s1 <> hist_les_verbatim s2
    /\ hist_les_verbatim s1 <> map go_string (with_inf (map given_float s1))
    /\ hist_les_verbatim s2 = map go_string (with_inf (map given_float s2))
    /\ forall counts, hist_le_samples given given_float s1 counts = hist_le_samples given given_float s2 counts.
Proof.
  exists G_text, G_num. split; [vm_compute; reflexivity|].
  split; [vm_compute; discriminate|]. split; [vm_compute; discriminate|].
  split; [vm_compute; reflexivity|]. intro counts. reflexivity.
Qed.

Example hist_le_example :
  hist_le_samples given given_float G_text [1; 2; 1] =
    Ok [(s2l "0.5", 1); (s2l "1e+06", 3); (s2l "+Inf", 4)]
  /\ hist_le_samples given given_float G_num [1; 2; 1] = hist_le_samples given given_float G_text [1; 2; 1]
  /\ hist_le_samples given given_float [GText (s2l "Infinity") FPosInf] [0] = Err ValueError
  /\ hist_les_verbatim G_text = [s2l "0.50"; s2l "1000000"; s2l "inf"].
Proof. vm_compute. repeat split. Qed.
