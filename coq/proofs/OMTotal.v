(* C14, OpenMetrics half: the whole-document function of model/OMParser.v (repaired source) is total -
   for every input string and every oracle it returns families or ValueError; in particular never OutOfFuel
   (termination: every fuel given is sufficient) and never KeyError / TypeError / AttributeError / IndexError /
   OverflowError / UnboundLocalError.  Bottom-up: one lemma per reader, then the histogram scan and the line loop
   with their invariants (HI, Inv), then the document. *)
From V Require Import lib.PyBase lib.PyStr lib.Tac model.Validation model.Expo model.TextParser model.OMParser.
From V Require Import proofs.ScanFacts proofs.TextParserTotal proofs.OMProofs proofs.OMNhProofs.
Ltac Zify.zify_post_hook ::= Z.to_euclidean_division_equations.
Open Scope N_scope.

Lemma VE_Ok {A} (a : A) : only_VE (Ok a).
Proof. exact I. Qed.
Lemma VE_Err {A} : only_VE (@Err A ValueError).
Proof. reflexivity. Qed.
#[export] Hint Resolve VE_Ok VE_Err : ve.

(* one step of case analysis on a goal  only_VE <program> *)
Ltac ve_step :=
  match goal with
  | |- only_VE (Ok _) => exact I
  | |- only_VE (Err ValueError) => reflexivity
  | |- only_VE (if ?c then _ else _) => let D := fresh "D" in destruct c eqn:D
  | |- only_VE (match ?x with _ => _ end) => let D := fresh "D" in destruct x eqn:D
  end.
Ltac ve := repeat ve_step.

(* ------------------------------------------------------------------------------------------- *)
(* parse_labels in OpenMetrics mode: an empty term is an error, so every round of the label loop
   shortens its input - for ANY input (no brace-freeness needed, unlike the text-format mode; the
   exemplar labels are cut at the LAST unquoted closing brace and may well contain others). *)
Lemma nt_tail_progress_om text term sub' :
  nt_tail true text = Ok (term, sub') -> (length sub' < length text)%nat.
Proof.
  unfold nt_tail.
  set (sp0 := next_unquoted_char text [COMMA; RBRACE] 0).
  assert (R : sp0 = (-1)%Z \/ (0 <= sp0 < zlen text)%Z).
  { unfold sp0, next_unquoted_char.
    destruct (nuq_range [COMMA; RBRACE] text 0 0 false false) as [H|H]; [left; exact H|right; lia]. }
  cbv zeta. destruct (Z.eqb_spec sp0 (-1)) as [E|E].
  - destruct (slice_to text (zlen text)) eqn:T; [discriminate|].
    intro H. inversion H; subst term sub'.
    unfold zlen. rewrite slice_from_skipn by lia. rewrite skipn_all. cbn.
    pose proof (length_slice text 0 (zlen text)) as L. unfold slice_to in T. rewrite T in L. cbn in L. lia.
  - destruct R as [R|R]; [contradiction|].
    replace sp0 with (Z.of_nat (Z.to_nat sp0)) by lia.
    set (k := Z.to_nat sp0). assert (Hk : (k < length text)%nat) by (unfold zlen in R; lia).
    rewrite slice_to_firstn, slice_from_skipn by lia.
    destruct (firstn k text) eqn:T; [discriminate|].
    intro H. inversion H; subst term sub'.
    assert (k <> 0)%nat by (intro Z0; rewrite Z0 in T; discriminate).
    pose proof (length_strip (skipn k text)) as L. rewrite skipn_length in L. lia.
Qed.

Lemma next_term_progress_om c r term sub' :
  next_term (c :: r) true = Ok (term, sub') -> (length sub' < length (c :: r))%nat.
Proof.
  intro H. unfold next_term in H. rewrite index0_nonempty in H. cbn [bind] in H.
  fold (nt_tail true) in H.
  destruct (c =? COMMA).
  - change 1%Z with (Z.of_nat 1) in H. rewrite slice_from_skipn in H by (cbn; lia). cbn [skipn] in H.
    destruct r as [|c1 r1]; [inversion H; cbn; lia|].
    destruct (c1 =? COMMA); [discriminate|].
    apply nt_tail_progress_om in H. cbn [length] in *. lia.
  - apply nt_tail_progress_om in H. exact H.
Qed.

Lemma VE_parse_labels_fuel_om legacy fuel : forall sub labels,
  (length sub < fuel)%nat -> only_VE (parse_labels_fuel legacy true fuel sub true labels).
Proof.
  induction fuel as [|fuel IH]; intros sub labels Hf; [lia|].
  cbn [parse_labels_fuel]. destruct sub as [|c r]; [exact I|].
  apply only_VE_bind; [apply VE_next_term|]. intros [term sub'] Hnt.
  pose proof (next_term_progress_om c r term sub' Hnt) as Hlen.
  destruct term as [|t0 tr]; [reflexivity|].
  apply only_VE_bind; [apply VE_parse_one_label|]. intros labels' _. apply IH. lia.
Qed.

Theorem VE_parse_labels_om legacy s : only_VE (parse_labels legacy true s true).
Proof.
  unfold parse_labels. destruct (strip s) as [|c r] eqn:E; [exact I|].
  destruct (true && _); [reflexivity|]. apply VE_parse_labels_fuel_om. lia.
Qed.

(* an index returned by the scanner is inside the text *)
Lemma index_nuq text chs start :
  next_unquoted_char text chs start <> (-1)%Z -> (0 <= start)%Z ->
  exists c, index text (next_unquoted_char text chs start) = Ok c.
Proof.
  intros N Hs. unfold next_unquoted_char in *.
  destruct (nuq_range chs text 0 start false false) as [H|H]; [contradiction|].
  set (i := nuq chs text 0 start false false) in *. unfold index.
  destruct (Z.ltb_spec i 0); [lia|]. destruct (Z.ltb_spec i 0); [lia|].
  destruct (Z.leb_spec (zlen text) i); [lia|]. cbn [orb].
  destruct (nth_error text (Z.to_nat i)) eqn:E; [eexists; reflexivity|].
  apply nth_error_None in E. unfold zlen in *. lia.
Qed.

Lemma split_first_None c s : forall a, om_split_first c s = (a, None) -> a = s.
Proof.
  induction s as [|x r IH]; intros a H; cbn [om_split_first] in H; [inversion H; reflexivity|].
  destruct (x =? c); [discriminate|]. destruct (om_split_first c r) as [a' b'].
  inversion H; subst. f_equal. apply IH. reflexivity.
Qed.

Lemma only_VE_map_res {A B} (f : A -> res B) (l : list A) :
  (forall x, only_VE (f x)) -> only_VE (om_map_res f l).
Proof.
  intro H. induction l as [|x l IH]; cbn [om_map_res]; [exact I|].
  apply only_VE_bind; [apply H|]. intros y _. apply only_VE_bind; [exact IH|]. intros ys _. exact I.
Qed.

(* re.findall: the fuel is enough, the scan always ends *)
Lemma findall_fuel_ok {A} (at_ : str -> option (A * str)) fuel : forall s,
  (length s < fuel)%nat -> exists l, om_findall_fuel fuel at_ s = Ok l.
Proof.
  induction fuel as [|f IH]; intros s Hf; [lia|].
  cbn [om_findall_fuel]. destruct s as [|c r]; [eexists; reflexivity|].
  destruct (at_ (c :: r)) as [[a rest]|].
  - match goal with |- context[om_findall_fuel f at_ ?x] => destruct (IH x) as [l ->] end.
    + match goal with |- context[Nat.ltb ?a ?b] => destruct (Nat.ltb_spec a b) end; cbn [length] in *; lia.
    + eexists; reflexivity.
  - apply IH. cbn [length] in Hf. lia.
Qed.

Lemma findall_ok {A} (at_ : str -> option (A * str)) s : exists l, om_findall at_ s = Ok l.
Proof. unfold om_findall. apply findall_fuel_ok. lia. Qed.


Section Total.
  (* the settings the property does not depend on stay arbitrary; the five repairs of C14 are fixed to true *)
  Variable legacy fix_unit fix_quote fix_tsexp fix_sname : bool.
  Variable NUM : Type.
  Variable parse_num parse_float : str -> option NUM.
  Variable parse_int : str -> option Z.
  Variable num_lt num_eqb : NUM -> NUM -> bool.
  Variable num_isinf num_integral num_huge : NUM -> bool.
  Variable num_zero num_one num_inf : NUM.
  Variable ts_float : Z -> Z -> option NUM.
  Variable is_word is_space_re is_digit_re : char -> bool.
  (* platform fact (checked over all code points by harness/c14om.check_platform_facts at every run) *)
  Hypothesis digit_not_space : forall c, is_digit_re c = true -> is_space_uni c = false.

  Notation p_ts := (om_parse_timestamp fix_tsexp NUM parse_float parse_int num_eqb num_isinf).
  Notation p_value := (om_parse_value NUM parse_num).
  Notation rt_step := (om_rt_step legacy true fix_quote).
  Notation rt_run := (om_rt_run legacy true fix_quote).
  Notation p_rest := (om_parse_remaining_text legacy true fix_quote fix_tsexp NUM parse_num parse_float parse_int
                        num_eqb num_isinf).
  Notation p_nh_struct := (om_parse_nh_struct true NUM parse_float parse_int is_word is_space_re is_digit_re).
  Notation p_nh_sample := (om_parse_nh_sample legacy true true true NUM parse_float parse_int is_word is_space_re
                             is_digit_re).
  Notation p_sample := (om_parse_sample legacy true fix_quote fix_tsexp fix_sname NUM parse_num parse_float parse_int
                          num_eqb num_isinf).
  Notation read_sample := (om_read_sample legacy true true true fix_quote fix_tsexp fix_sname NUM parse_num parse_float
                             parse_int num_eqb num_isinf is_word is_space_re is_digit_re).
  Notation hist_step := (om_check_hist_step NUM parse_float num_lt num_eqb num_zero num_inf).
  Notation hist_run := (om_check_hist_run NUM parse_float num_lt num_eqb num_zero num_inf).
  Notation check_hist := (om_check_histogram NUM parse_float num_lt num_eqb num_zero num_inf).
  Notation do_checks := (om_do_checks NUM num_eqb num_inf).
  Notation build_metric := (om_build_metric legacy NUM parse_float num_lt num_eqb num_zero num_inf).
  Notation flush := (om_flush legacy NUM parse_float num_lt num_eqb num_zero num_inf).
  Notation meta_line := (om_meta_line legacy true fix_unit NUM parse_float num_lt num_eqb num_zero num_inf).
  Notation enter_family := (om_enter_family legacy true true fix_sname NUM parse_float num_lt num_eqb num_zero num_inf).
  Notation group_step := (om_group_step true NUM num_lt num_eqb ts_float).
  Notation pre_checks := (om_pre_checks NUM parse_float num_lt num_eqb num_integral num_zero num_one num_inf).
  Notation post_checks := (om_post_checks true NUM num_lt num_eqb num_huge num_zero num_one).
  Notation sample_line := (om_sample_line legacy true true true true true fix_quote fix_tsexp fix_sname
                      NUM parse_num parse_float parse_int num_lt num_eqb num_isinf num_integral num_huge
                      num_zero num_one num_inf ts_float is_word is_space_re is_digit_re).
  Notation step := (om_step_line legacy true true true true true fix_unit fix_quote fix_tsexp fix_sname
                      NUM parse_num parse_float parse_int num_lt num_eqb num_isinf num_integral num_huge
                      num_zero num_one num_inf ts_float is_word is_space_re is_digit_re).
  Notation run := (om_run_lines legacy true true true true true fix_unit fix_quote fix_tsexp fix_sname
                      NUM parse_num parse_float parse_int num_lt num_eqb num_isinf num_integral num_huge
                      num_zero num_one num_inf ts_float is_word is_space_re is_digit_re).
  Notation parse := (om_parse legacy true true true true true fix_unit fix_quote fix_tsexp fix_sname
                      NUM parse_num parse_float parse_int num_lt num_eqb num_isinf num_integral num_huge
                      num_zero num_one num_inf ts_float is_word is_space_re is_digit_re).

  (* ---------------- _parse_timestamp, _parse_value ---------------- *)
  (* parts[1] (IndexError) is read only after int(parts[0]) succeeded although int(timestamp) failed, so the text
     has a dot *)
  Theorem VE_parse_timestamp t : only_VE (p_ts t).
  Proof.
    unfold om_parse_timestamp. destruct t as [|c t]; [exact I|].
    destruct (negb _ || _); [reflexivity|].
    destruct (parse_int (c :: t)) eqn:E.
    { apply only_VE_bind; [unfold om_mk_timestamp; ve|]. intros ts _. exact I. }
    cbv zeta. destruct (om_split_first OM_DOT (c :: t)) as [p0 p1o] eqn:S.
    assert (FB : only_VE (match parse_float (c :: t) with
                          | None => Err ValueError
                          | Some x => if om_num_nan NUM num_eqb x || num_isinf x then Err ValueError
                                      else Ok (Some (OTf x))
                          end)) by ve.
    destruct (parse_int p0) eqn:E0; [|exact FB].
    destruct p1o as [p1|]; [|apply split_first_None in S; subst p0; congruence].
    repeat match goal with |- only_VE (if ?c then _ else _) => destruct c; [exact FB|] end.
    match goal with |- only_VE (match ?x with _ => _ end) => destruct x; [|exact FB] end.
    match goal with |- only_VE (match ?x with _ => _ end) => destruct x; [exact I|exact FB] end.
  Qed.

  Lemma VE_parse_value v : only_VE (p_value v).
  Proof. unfold om_parse_value. ve. Qed.

  (* ---------------- _parse_remaining_text ---------------- *)
  Lemma VE_rt_step text r c : only_VE (rt_step text r c).
  Proof.
    unfold om_rt_step. cbv zeta. cbn [rt_state rt_inq rt_esc rt_ts rt_exv rt_exts rt_exl].
    destruct (if (c =? DQ) && _ then _ else _); [exact I|].
    destruct (rt_state r); ve.
    apply only_VE_bind; [apply VE_parse_labels_om|]. intros labels _. exact I.
  Qed.

  Lemma VE_rt_run text l : forall r, only_VE (rt_run text r l).
  Proof.
    induction l as [|c l IH]; intro r; cbn [om_rt_run]; [exact I|].
    apply only_VE_bind; [apply VE_rt_step|]. intros r' _. apply IH.
  Qed.

  Theorem VE_parse_remaining_text text : only_VE (p_rest text).
  Proof.
    unfold om_parse_remaining_text. destruct (om_split_first SP text) as [v0 rest].
    apply only_VE_bind; [apply VE_parse_value|]. intros val _.
    destruct rest as [t|]; [|exact I].
    apply only_VE_bind; [apply VE_rt_run|]. intros r _. cbv zeta.
    repeat match goal with |- only_VE (if ?c then _ else _) => destruct c; [reflexivity|] end.
    apply only_VE_bind; [apply VE_parse_timestamp|]. intros ts _.
    destruct (rt_exl r); [|exact I].
    destruct (Nat.ltb _ _); [reflexivity|].
    apply only_VE_bind; [apply VE_parse_value|]. intros ev _.
    apply only_VE_bind; [apply VE_parse_timestamp|]. intros ets _. exact I.
  Qed.

  (* ---------------- _parse_nh_struct ---------------- *)
  Lemma VE_om_int s : only_VE (om_int parse_int s).
  Proof. unfold om_int. ve. Qed.

  Lemma VE_om_item items k : only_VE (om_item true items k).
  Proof. unfold om_item. ve. Qed.

  Lemma VE_compose_spans m name : only_VE (om_compose_spans parse_int m name).
  Proof.
    unfold om_compose_spans. apply only_VE_bind.
    - apply only_VE_map_res. intro x. apply only_VE_bind; [|intros; exact I].
      unfold om_span_value. apply only_VE_map_res. intro pair. apply only_VE_map_res. intro. apply VE_om_int.
    - intros vals _. destruct (d_find _ _ _); [|exact I].
      apply only_VE_bind; [|intros; exact I]. apply only_VE_map_res. intro t. ve.
  Qed.

  (* `elems` of _compose_deltas is always bound: a re_deltas capture starts with '-' or a \d character *)
  Lemma VE_compose_deltas text l name :
    om_findall (om_deltas_at is_digit_re) text = Ok l ->
    only_VE (om_compose_deltas parse_int (om_dict_of l []) name).
  Proof.
    intros H. unfold om_findall in H. apply (findall_fuel_vals is_digit_re digit_not_space) in H.
    unfold om_compose_deltas.
    destruct (d_find str_eqb (om_dict_of l []) name) as [out|] eqn:E; [|exact I].
    assert (N : strip out <> []).
    { apply strip_nonblank. eapply d_find_vals; [|exact E]. apply dict_of_vals; [exact H | constructor]. }
    destruct (strip out) eqn:S; [contradiction|].
    apply only_VE_bind; [|intros; exact I]. apply only_VE_map_res. intro x. apply VE_om_int.
  Qed.

  Theorem VE_parse_nh_struct text : only_VE (p_nh_struct text).
  Proof.
    unfold om_parse_nh_struct.
    match goal with |- only_VE (bind (om_findall ?f text) _) => destruct (findall_ok f text) as [items_l ->] end.
    cbn [bind].
    destruct (findall_ok (om_spans_at is_digit_re) text) as [sm ->]. cbn [bind].
    destruct (findall_ok (om_deltas_at is_digit_re) text) as [dl Ed]. rewrite Ed. cbn [bind]. cbv zeta.
    apply only_VE_bind; [ve|]. intros _ _.
    repeat (apply only_VE_bind;
            [first [apply VE_om_item | apply VE_om_int | apply VE_compose_spans
                   | (eapply VE_compose_deltas; exact Ed) | ve]|]; intros ? _).
    exact I.
  Qed.

  (* ---------------- _parse_nh_sample, _parse_sample ---------------- *)
  Ltac ve_readers :=
    repeat first [ ve_step
                 | apply VE_parse_labels_om | apply VE_parse_nh_struct | apply VE_parse_remaining_text
                 | apply only_VE_bind; [|intros ? ?] ].

  Theorem VE_parse_nh_sample text : only_VE (p_nh_sample text).
  Proof.
    unfold om_parse_nh_sample. cbv zeta.
    destruct (Z.eqb_spec (next_unquoted_char text [SP; LBRACE] 0) (-1)) as [E|E]; [exact I|].
    destruct (index_nuq text [SP; LBRACE] 0 E (Z.le_refl 0)) as [ci ->]. cbn [bind].
    ve_readers.
  Qed.

  Theorem VE_parse_sample text : only_VE (p_sample text).
  Proof. unfold om_parse_sample. cbv zeta. ve_readers. Qed.

  (* a native-histogram sample: no value, no exemplar, and none of the suffixes that name a float sample *)
  Definition nh_name (n : str) : Prop := om_ends_with_any (om_nh_suffixes true) n = false.
  Definition nh_shape (s : om_sample NUM) : Prop := os_value s = None /\ os_ex s = None /\ nh_name (os_name s).
  Definition val_shape (s : om_sample NUM) : Prop := exists v l, os_value s = Some v /\ os_labels s = Some l.

  Lemma parse_nh_sample_shape text s : p_nh_sample text = Ok (Some s) -> nh_shape s.
  Proof.
    unfold om_parse_nh_sample, nh_shape, nh_name. cbv zeta. intro H.
    crack H; inversion H; subst; cbn [os_value os_ex os_name]; repeat split; auto.
  Qed.

  Lemma parse_sample_shape text s : p_sample text = Ok s -> val_shape s.
  Proof.
    unfold om_parse_sample, val_shape. cbv zeta. intro H.
    crack H; inversion H; subst; cbn [os_value os_labels]; eauto.
  Qed.

  Lemma typ_is_eq t x : om_typ_is t x = true -> t = Some x.
  Proof. destruct t as [t|]; cbn; [|discriminate]. intro H. apply str_eqb_eq in H. congruence. Qed.

  Theorem VE_read_sample typ line : only_VE (read_sample typ line).
  Proof.
    unfold om_read_sample. destruct (om_typ_is typ OM_histogram).
    - apply only_VE_bind; [apply VE_parse_nh_sample|]. intros [s|] _; [exact I|].
      apply only_VE_bind; [apply VE_parse_sample|]. intros s _. exact I.
    - apply only_VE_bind; [apply VE_parse_sample|]. intros s _. exact I.
  Qed.

  Lemma read_sample_shape typ line s b : read_sample typ line = Ok (s, b) ->
    if b then typ = Some OM_histogram /\ nh_shape s else val_shape s.
  Proof.
    unfold om_read_sample. intro H. destruct (om_typ_is typ OM_histogram) eqn:T.
    - apply bind_ok in H as ([s'|] & E & H).
      + inversion H; subst. split; [apply typ_is_eq; exact T|eapply parse_nh_sample_shape; eauto].
      + apply bind_ok in H as (s' & E' & H). inversion H; subst. eapply parse_sample_shape; eauto.
    - apply bind_ok in H as (s' & E' & H). inversion H; subst. eapply parse_sample_shape; eauto.
  Qed.

  (* ---------------- suffix facts ---------------- *)
  Lemma starts_with_app a b : starts_with a (a ++ b) = true.
  Proof. induction a as [|x a IH]; cbn; [reflexivity|]. rewrite N.eqb_refl. exact IH. Qed.

  Lemma ends_with_app a sfx : ends_with sfx (a ++ sfx) = true.
  Proof. unfold ends_with. rewrite rev_app_distr. apply starts_with_app. Qed.

  Lemma skipn_ends_with k (n : str) : ends_with (skipn k n) n = true.
  Proof. rewrite <- (firstn_skipn k n) at 2. apply ends_with_app. Qed.

  Lemma nh_name_sfx n sfx : nh_name n -> In sfx (om_nh_suffixes true) -> ends_with sfx n = false.
  Proof.
    intros H Hin. destruct (ends_with sfx n) eqn:E; [|reflexivity]. exfalso.
    unfold nh_name, om_ends_with_any in H.
    assert (X : existsb (fun x => ends_with x n) (om_nh_suffixes true) = true)
      by (apply existsb_exists; exists sfx; auto).
    congruence.
  Qed.

  Lemma nh_name_skipn n k sfx : nh_name n -> In sfx (om_nh_suffixes true) -> str_eqb (skipn k n) sfx = false.
  Proof.
    intros H Hin. destruct (str_eqb (skipn k n) sfx) eqn:E; [|reflexivity]. exfalso.
    apply str_eqb_eq in E. pose proof (skipn_ends_with k n) as X. rewrite E in X.
    rewrite (nh_name_sfx n sfx H Hin) in X. discriminate.
  Qed.

  Lemma nh_name_app n name sfx : nh_name n -> In sfx (om_nh_suffixes true) -> str_eqb (name ++ sfx) n = false.
  Proof.
    intros H Hin. destruct (str_eqb (name ++ sfx) n) eqn:E; [|reflexivity]. exfalso.
    apply str_eqb_eq in E. pose proof (ends_with_app name sfx) as X. rewrite E in X.
    rewrite (nh_name_sfx n sfx H Hin) in X. discriminate.
  Qed.

  Ltac in_sfx := cbn; repeat (first [left; reflexivity | right]).

  (* ---------------- _check_histogram ---------------- *)
  (* what the line loop guarantees about every sample recorded in a histogram / gaugehistogram family *)
  Definition hist_ok (name : str) (s : om_sample NUM) : Prop :=
    (os_value s = None /\ nh_name (os_name s))
    \/ (exists v l sfx, os_value s = Some v /\ os_labels s = Some l /\ os_name s = name ++ sfx /\
                        (sfx = OM_bucket -> d_mem str_eqb l OM_le = true)).

  (* invariant of the scan: the locals of do_checks are bound as soon as a group is open *)
  Definition HI (st : om_hstate NUM) : Prop := hs_hv st = None -> hs_group st = None.

  Lemma VE_do_checks h : only_VE (do_checks (Some h)).
  Proof. unfold om_do_checks. ve. Qed.

  Lemma group_hist_nh (s : om_sample NUM) name :
    nh_name (os_name s) -> om_group_for_sample s name OM_histogram = Ok (os_labels s).
  Proof.
    intro H. unfold om_group_for_sample.
    change (str_eqb OM_histogram OM_info) with false.
    change (str_eqb OM_histogram OM_summary) with false.
    change (str_eqb OM_histogram OM_stateset) with false.
    change (str_eqb OM_histogram OM_histogram) with true. cbn [andb orb].
    rewrite str_eqb_sym, (nh_name_app _ name OM_bucket H) by in_sfx. reflexivity.
  Qed.

  Lemma group_hist_val (s : om_sample NUM) name l sfx :
    os_labels s = Some l -> os_name s = name ++ sfx -> (sfx = OM_bucket -> d_mem str_eqb l OM_le = true) ->
    exists g, om_group_for_sample s name OM_histogram = Ok (Some g).
  Proof.
    intros Hl Hn Hle. unfold om_group_for_sample.
    change (str_eqb OM_histogram OM_info) with false.
    change (str_eqb OM_histogram OM_summary) with false.
    change (str_eqb OM_histogram OM_stateset) with false.
    change (str_eqb OM_histogram OM_histogram) with true. cbn [andb orb].
    rewrite Hn, app_str_eqb_head. destruct (str_eqb sfx OM_bucket) eqn:E.
    - apply str_eqb_eq in E. specialize (Hle E). unfold om_labels_of. rewrite Hl. cbn [bind].
      unfold d_del. rewrite Hle. cbn [bind]. eexists; reflexivity.
    - rewrite Hl. eexists; reflexivity.
  Qed.

  Lemma hv0_spec st g ts : HI st ->
    let m := (if negb (om_optdict_eqb g (hs_group st)) || negb (om_ts_eqb NUM num_eqb ts (hs_ts st)) then
                do _ <- (match hs_group st with Some _ => do_checks (hs_hv st) | None => Ok tt end);
                Ok (Some (om_hv_init NUM num_zero))
              else Ok (hs_hv st)) in
    only_VE m /\ forall hv0, m = Ok hv0 -> hv0 = None -> g = None.
  Proof.
    intros H. cbv zeta. destruct (negb _ || negb _) eqn:C.
    - split.
      + apply only_VE_bind; [|intros; exact I].
        destruct (hs_group st) eqn:G; [|exact I].
        destruct (hs_hv st) eqn:Hh; [apply VE_do_checks|]. specialize (H Hh). congruence.
      + intros hv0 E. apply bind_ok in E as (? & _ & E). inversion E; subst. discriminate.
    - split; [exact I|]. intros hv0 E Hn. assert (X : hs_hv st = None) by congruence. specialize (H X). rewrite H in C.
      destruct g; [cbn in C; discriminate|reflexivity].
  Qed.

  Theorem hist_step_total name st s : hist_ok name s -> HI st ->
    only_VE (hist_step name st s) /\ (forall st', hist_step name st s = Ok st' -> HI st').
  Proof.
    intros [(Hv & Hn) | (v & l & sfx & Hv & Hl & Hn & Hle)] HIst; unfold om_check_hist_step; cbv zeta.
    - rewrite (group_hist_nh s name Hn). cbn [bind].
      pose proof (fun x => nh_name_skipn (os_name s) (length name) x Hn) as Hs.
      destruct (skipn (length name) (os_name s)) as [|c0 sfx'] eqn:Es.
      { split; [exact I|]. intros st' E. inversion E; subst. exact HIst. }
      rewrite (Hs OM_bucket), (Hs OM_count), (Hs OM_gcount), (Hs OM_sum), (Hs OM_gsum) by in_sfx. cbn [orb].
      pose proof (hv0_spec st (os_labels s) (os_ts s) HIst) as HM. cbv zeta in HM.
      match goal with |- only_VE (bind ?m _) /\ _ => set (M := m) in * end.
      destruct HM as [HA HB]. destruct M as [hv0|e]; cbn [bind]; [|split; [exact HA|discriminate]].
      split; [exact I|]. intros st' E. inversion E; subst. unfold HI. cbn. intro X. apply (HB hv0 eq_refl X).
    - destruct (group_hist_val s name l sfx Hl Hn Hle) as [g ->]. cbn [bind].
      rewrite Hn, skipn_app_len. destruct sfx as [|c0 sfx']; [split; [exact I|]; intros st' E; inversion E; subst; exact HIst|].
      pose proof (hv0_spec st (Some g) (os_ts s) HIst) as HM. cbv zeta in HM.
      match goal with |- only_VE (bind ?m _) /\ _ => set (M := m) in * end.
      destruct HM as [HA HB]. destruct M as [hv0|e]; cbn [bind]; [|split; [exact HA|discriminate]].
      destruct hv0 as [h|]; [|discriminate (HB None eq_refl eq_refl)].
      unfold om_value_of. rewrite Hv, Hl. split.
      + destruct (str_eqb (c0 :: sfx') OM_bucket) eqn:Eb.
        * apply str_eqb_eq in Eb. specialize (Hle Eb). unfold d_get. unfold d_mem in Hle.
          destruct (d_find str_eqb l OM_le); [|discriminate]. cbn [bind].
          destruct (parse_float _); cbn [bind]; ve.
        * cbn [bind]. ve.
      + intros st' E. crack E; inversion E; subst; unfold HI; cbn; discriminate.
  Qed.

  Lemma hist_run_total name l : forall st, Forall (hist_ok name) l -> HI st ->
    only_VE (hist_run name st l) /\ (forall st', hist_run name st l = Ok st' -> HI st').
  Proof.
    induction l as [|s l IH]; intros st Hl Hst; cbn [om_check_hist_run].
    - split; [exact I|]. intros st' E. inversion E; subst. exact Hst.
    - inversion Hl; subst. destruct (hist_step_total name st s H1 Hst) as [HA HB].
      destruct (hist_step name st s) as [st1|e]; cbn [bind]; [|split; [exact HA|discriminate]].
      apply IH; auto.
  Qed.

  Theorem VE_check_hist name samples : Forall (hist_ok name) samples -> only_VE (check_hist samples name).
  Proof.
    intro H. unfold om_check_histogram.
    match goal with |- only_VE (bind (hist_run name ?st0 samples) _) =>
      destruct (hist_run_total name samples st0 H) as [HA HB]; [unfold HI; cbn; reflexivity|] end.
    apply only_VE_bind; [exact HA|]. intros st E. specialize (HB st E).
    destruct (hs_group st) eqn:G; [|exact I].
    destruct (hs_hv st) eqn:Hh; [apply VE_do_checks|]. specialize (HB Hh). congruence.
  Qed.

  (* ---------------- build_metric ---------------- *)
  Lemma VE_validate_metric_name n : only_VE (om_validate_metric_name legacy n).
  Proof.
    unfold om_validate_metric_name, validate_metric_name_legacy, validate_metric_name_utf8. ve.
  Qed.

  Theorem VE_build_metric seen name doc t unit samples :
    (hist_typ t -> Forall (hist_ok name) samples) -> only_VE (build_metric seen name doc t unit samples).
  Proof.
    intro H. unfold om_build_metric. cbv zeta.
    repeat match goal with |- only_VE (if ?c then Err ValueError else _) => destruct c; [reflexivity|] end.
    apply only_VE_bind.
    - match goal with |- only_VE (if ?c then _ else _) => destruct c eqn:C end; [|exact I].
      apply VE_check_hist. apply H. unfold hist_typ. destruct t as [x|]; [|cbv in C; discriminate].
      apply orb_true_iff in C as [C|C]; apply str_eqb_eq in C; subst; auto.
    - intros _ _. apply only_VE_bind; [apply VE_validate_metric_name|]. intros _ _.
      apply only_VE_bind; [apply VE_validate_metric_name|]. intros _ _. ve.
  Qed.

  (* ---------------- the line loop ---------------- *)
  (* invariant of the loop state: without a family in progress there is neither a type nor an allowed name
     (so no native-histogram line and no sample line can take the `name + suffix` path with name None); in a
     histogram / gaugehistogram family every allowed name starts with the family name and every recorded sample
     is hist_ok *)
  Definition Inv (st : om_st NUM) : Prop :=
    match st_name st with
    | None => st_typ st = None /\ st_allowed st = []
    | Some name => hist_typ (st_typ st) ->
                   Forall (fun a => exists sfx, a = name ++ sfx) (st_allowed st)
                   /\ Forall (hist_ok name) (st_samples st)
    end.

  Lemma Inv_init : Inv om_st_init.
  Proof. unfold Inv. cbn. split; reflexivity. Qed.

  Lemma Inv_ext (a b : om_st NUM) :
    st_name a = st_name b -> st_typ a = st_typ b -> st_allowed a = st_allowed b -> st_samples a = st_samples b ->
    Inv b -> Inv a.
  Proof. unfold Inv. intros -> -> -> ->. exact (fun x => x). Qed.

  Lemma not_hist_unknown : ~ hist_typ (Some OM_unknown).
  Proof. intros [H|H]; discriminate H. Qed.
  Lemma not_hist_None : ~ hist_typ None.
  Proof. intros [H|H]; discriminate H. Qed.

  Theorem VE_flush st : Inv st -> only_VE (flush st).
  Proof.
    intro H. unfold om_flush. unfold Inv in H. destruct (st_name st) as [n|]; [|exact I].
    apply only_VE_bind; [|intros [m seen'] _; exact I].
    apply VE_build_metric. intro Ht. apply Forall_rev. apply (H Ht).
  Qed.

  Lemma Inv_new_family st seen cand allowed t :
    ~ hist_typ t -> Inv (om_new_family st seen cand t allowed).
  Proof. intro N. unfold Inv. cbn. intro X. contradiction. Qed.

  Theorem meta_line_total st line : Inv st ->
    only_VE (meta_line st line) /\ (forall st' out, meta_line st line = Ok (st', out) -> Inv st').
  Proof.
    intro HI0. unfold om_meta_line.
    destruct (split_quoted_ok line [SP] 3) as [parts ->]. cbn [bind].
    destruct parts as [|p0 [|kw [|p2 [|p3 rest]]]]; try (split; [reflexivity|discriminate]).
    pose proof (unquote_unescape_fixed_VE p2) as U.
    destruct (unquote_unescape_with true p2) as [[cand quoted]|e]; cbn [bind]; [|split; [exact U|discriminate]].
    destruct (negb quoted && _); [split; [reflexivity|discriminate]|].
    destruct (om_opt_str_eqb (st_name st) cand && _) eqn:Esame; [split; [reflexivity|discriminate]|].
    (* the state in which the keyword is handled *)
    match goal with |- only_VE (bind ?m _) /\ _ => set (M := m) end.
    assert (HM : only_VE M /\ forall st1 out, M = Ok (st1, out) ->
                   Inv st1 /\ st_name st1 = Some cand /\ st_samples st1 = []).
    { subst M. destruct (om_opt_str_eqb (st_name st) cand) eqn:Es; cbn [negb].
      - split; [exact I|]. intros st1 out E. assert (X : st1 = st) by congruence. subst st1. split; [exact HI0|].
        cbn [andb] in Esame. destruct (st_name st) as [n|]; [|discriminate Es]. cbn in Es.
        apply str_eqb_eq in Es. subst n. split; [reflexivity|]. destruct (st_samples st); [reflexivity|discriminate].
      - pose proof (VE_flush st HI0) as F. destruct (flush st) as [[o seen']|e]; cbn [bind]; [|split; [exact F|discriminate]].
        split; [exact I|]. intros st1 out E. inversion E; subst.
        split; [apply Inv_new_family, not_hist_None|]. split; reflexivity. }
    destruct HM as [HA HB]. destruct M as [[st1 out1]|e]; cbn [bind]; [|split; [exact HA|discriminate]].
    destruct (HB st1 out1 eq_refl) as (I1 & N1 & S1).
    destruct (str_eqb kw OM_HELP).
    { destruct (st_doc st1); [split; [reflexivity|discriminate]|]. split; [exact I|].
      intros st' out E. inversion E; subst. eapply Inv_ext; [..|exact I1]; reflexivity. }
    destruct (str_eqb kw OM_TYPE).
    { destruct (st_typ st1); [split; [reflexivity|discriminate]|].
      destruct (str_eqb p3 OM_untyped); [split; [reflexivity|discriminate]|]. split; [exact I|].
      intros st' out E. inversion E; subst. unfold Inv. cbn. rewrite N1, S1. intros _. split; [|constructor].
      apply Forall_forall. intros a Ha. apply in_map_iff in Ha as (sfx & <- & _). eexists; reflexivity. }
    destruct (str_eqb kw OM_UNIT); [|split; [reflexivity|discriminate]].
    destruct (st_unit st1); [split; [reflexivity|discriminate]|]. split; [exact I|].
    intros st' out E. inversion E; subst. eapply Inv_ext; [..|exact I1]; reflexivity.
  Qed.

  Theorem enter_family_total st (s : om_sample NUM) b :
    Inv st -> (b = true -> st_typ st = Some OM_histogram) ->
    only_VE (enter_family st s b)
    /\ (forall st1 out, enter_family st s b = Ok (st1, out) ->
          Inv st1 /\ (exists name, st_name st1 = Some name)
          /\ (if b then st1 = st else mem_str (os_name s) (st_allowed st1) = true)).
  Proof.
    intros HI0 Hb. unfold om_enter_family.
    assert (Hname : st_typ st <> None \/ st_allowed st <> [] -> exists name, st_name st = Some name).
    { intro X. unfold Inv in HI0. destruct (st_name st) as [n|]; [eexists; reflexivity|].
      destruct HI0 as [A B]. destruct X; contradiction. }
    destruct (negb (mem_str (os_name s) (st_allowed st)) && negb (b && _)) eqn:C.
    - apply andb_true_iff in C as [C1 C2]. destruct b; [split; [reflexivity|discriminate]|].
      pose proof (VE_flush st HI0) as F. destruct (flush st) as [[o seen']|e]; cbn [bind]; [|split; [exact F|discriminate]].
      assert (U : only_VE (om_implicit_name true fix_sname NUM s)).
      { unfold om_implicit_name. destruct fix_sname; [exact I|].
        pose proof (unquote_unescape_fixed_VE (os_name s)) as U.
        destruct (unquote_unescape_with true (os_name s)) as [[cand quoted]|e]; cbn [bind]; [|exact U].
        destruct (negb quoted && _); [reflexivity|exact I]. }
      destruct (om_implicit_name true fix_sname NUM s) as [cand|e]; cbn [bind]; [|split; [exact U|discriminate]].
      split; [exact I|].
      intros st1 out E. inversion E; subst. split; [apply Inv_new_family, not_hist_unknown|].
      split; [eexists; reflexivity|]. cbn. rewrite str_eqb_refl. reflexivity.
    - split; [exact I|]. intros st1 out E. inversion E; subst. split; [exact HI0|].
      destruct b.
      + split; [|reflexivity]. apply Hname. left. rewrite (Hb eq_refl). discriminate.
      + cbn [andb negb] in C. rewrite andb_true_r in C. apply negb_false_iff in C. split; [|exact C].
        apply Hname. right. intro X. rewrite X in C. discriminate.
  Qed.

  Lemma pre_checks_bucket_le name typ (s : om_sample NUM) l :
    os_labels s = Some l -> pre_checks name typ s = Ok tt -> os_name s = name ++ OM_bucket ->
    d_mem str_eqb l OM_le = true.
  Proof.
    intros Hl H Hn. unfold om_pre_checks, om_labels_of in H. rewrite Hl in H.
    apply bind_ok in H as ([] & HA & H). apply bind_ok in H as ([] & HB & H).
    rewrite Hn, str_eqb_refl in HB. cbn [bind] in HB. unfold d_mem.
    destruct (d_find str_eqb l OM_le); [reflexivity|discriminate].
  Qed.

  Lemma group_step_fields st name s st' :
    group_step st name s = Ok st' ->
    st_name st' = st_name st /\ st_typ st' = st_typ st /\ st_allowed st' = st_allowed st /\
    (st_samples st' = st_samples st \/ st_samples st' = s :: st_samples st).
  Proof.
    unfold om_group_step. intros H. crack H; inversion H; subst; clear H; cbn; repeat split; auto;
      match goal with |- context[if ?c then _ else _] => destruct c; auto end.
  Qed.

  (* a native-histogram sample passes the checks that read a float value or the labels without touching them *)
  Lemma pre_checks_nh name (s : om_sample NUM) :
    nh_shape s -> pre_checks name (Some OM_histogram) s = Ok tt.
  Proof.
    intros (Hv & Hex & Hn). unfold om_pre_checks.
    change (om_typ_is (Some OM_histogram) OM_stateset) with false.
    change (om_typ_is (Some OM_histogram) OM_summary) with false.
    rewrite (nh_name_app _ name OM_bucket Hn), (nh_name_app _ name OM_count Hn),
      (nh_name_app _ name OM_gcount Hn) by in_sfx.
    reflexivity.
  Qed.

  Lemma post_checks_nh name (s : om_sample NUM) :
    nh_shape s -> post_checks name (Some OM_histogram) s = Ok tt.
  Proof.
    intros (Hv & Hex & Hn). unfold om_post_checks. cbv zeta.
    change (om_typ_is (Some OM_histogram) OM_stateset) with false.
    change (om_typ_is (Some OM_histogram) OM_info) with false.
    change (om_typ_is (Some OM_histogram) OM_summary) with false.
    cbn [andb bind mem_str].
    pose proof (fun x => nh_name_skipn (os_name s) (length name) x Hn) as Hs.
    rewrite (Hs OM_bucket), (Hs OM_count), (Hs OM_gcount), (Hs OM_sum), (Hs OM_gsum), (Hs OM_total) by in_sfx.
    cbn [orb bind]. rewrite Hex. reflexivity.
  Qed.

  Theorem sample_line_total st line : Inv st ->
    only_VE (sample_line st line) /\ (forall st' out, sample_line st line = Ok (st', out) -> Inv st').
  Proof.
    intro HI0. unfold om_sample_line.
    pose proof (VE_read_sample (st_typ st) line) as R0.
    destruct (read_sample (st_typ st) line) as [[s b]|e] eqn:R; cbn [bind]; [|split; [exact R0|discriminate]].
    apply read_sample_shape in R.
    assert (Hb : b = true -> st_typ st = Some OM_histogram) by (intro; subst b; apply R).
    destruct (enter_family_total st s b HI0 Hb) as [EA EB].
    destruct (enter_family st s b) as [[st1 out]|e]; cbn [bind]; [|split; [exact EA|discriminate]].
    destruct (EB st1 out eq_refl) as (I1 & [name N1] & C1). rewrite N1.
    unfold Inv in I1. rewrite N1 in I1.
    destruct b; cbn [negb].
    - destruct R as [T Hs]. subst st1. rewrite T, (pre_checks_nh name s Hs), (post_checks_nh name s Hs). cbn [bind].
      split; [exact I|]. intros st' out' E. inversion E; subst. unfold Inv. cbn. rewrite N1. intro Ht.
      destruct (I1 Ht) as [FA FS]. split; [exact FA|]. constructor; [|exact FS].
      left. destruct Hs as (Hv & _ & Hn). split; assumption.
    - destruct R as (v & l & Hv & Hl).
      assert (P : only_VE (pre_checks name (st_typ st1) s)) by (eapply pre_checks_only_VE; eassumption).
      destruct (pre_checks name (st_typ st1) s) as [[]|e] eqn:PC; cbn [bind]; [|split; [exact P|discriminate]].
      assert (G : only_VE (group_step st1 name s)).
      { eapply group_step_only_VE; [reflexivity|eassumption|]. eapply pre_checks_guard; eassumption. }
      destruct (group_step st1 name s) as [st2|e] eqn:GS; cbn [bind]; [|split; [exact G|discriminate]].
      assert (Q : only_VE (post_checks name (st_typ st1) s)) by (eapply post_checks_only_VE; [reflexivity|eassumption]).
      destruct (post_checks name (st_typ st1) s) as [[]|e]; cbn [bind]; [|split; [exact Q|discriminate]].
      split; [exact I|]. intros st' out' E. inversion E; subst.
      apply group_step_fields in GS as (A1 & A2 & A3 & A4).
      unfold Inv. rewrite A1, A2, A3, N1. intro Ht. destruct (I1 Ht) as [FA FS]. split; [exact FA|].
      destruct A4 as [-> | ->]; [exact FS|]. constructor; [|exact FS].
      right. apply mem_str_In in C1. rewrite Forall_forall in FA. destruct (FA _ C1) as [sfx Hsfx].
      exists v, l, sfx. repeat split; auto. intro X. subst sfx. eapply pre_checks_bucket_le; eassumption.
  Qed.

  Theorem step_total st line : Inv st ->
    only_VE (step st line) /\ (forall st' out, step st line = Ok (st', out) -> Inv st').
  Proof.
    intro HI0. unfold om_step_line.
    destruct (st_eof st); [split; [reflexivity|discriminate]|].
    destruct line as [|c r]; [split; [reflexivity|discriminate]|].
    destruct (str_eqb (c :: r) OM_EOF).
    { split; [exact I|]. intros st' out E. inversion E; subst. eapply Inv_ext; [..|exact HI0]; reflexivity. }
    destruct (c =? HASH); [apply meta_line_total|apply sample_line_total]; exact HI0.
  Qed.

  Theorem run_total lines : forall st acc, Inv st -> only_VE (run st lines acc).
  Proof.
    induction lines as [|l r IH]; intros st acc HI0; cbn [om_run_lines].
    - apply only_VE_bind; [apply VE_flush; exact HI0|]. intros [out seen] _. ve.
    - destruct (step_total st l HI0) as [HA HB].
      destruct (step st l) as [[st' out]|e]; cbn [bind]; [|exact HA].
      apply IH. eapply HB. reflexivity.
  Qed.

  (* the document: families or ValueError, for every input and every oracle *)
  Theorem om_parse_total text : only_VE (parse text).
  Proof. unfold om_parse. apply run_total. apply Inv_init. Qed.

  (* the invariant holds after every prefix of every document *)
  Notation prefix := (om_prefix legacy true true true true true fix_unit fix_quote fix_tsexp fix_sname
                      NUM parse_num parse_float parse_int num_lt num_eqb num_isinf num_integral num_huge
                      num_zero num_one num_inf ts_float is_word is_space_re is_digit_re).

  Theorem prefix_Inv lines : forall st acc st' acc',
    Inv st -> prefix st lines acc = Ok (st', acc') -> Inv st'.
  Proof.
    induction lines as [|l r IH]; intros st acc st' acc' HI0 H; cbn [om_prefix] in H.
    - inversion H; subst. exact HI0.
    - apply bind_ok in H as ([st1 out] & E & H). eapply IH; [|exact H].
      destruct (step_total st l HI0) as [_ HB]. eapply HB. exact E.
  Qed.
End Total.

(* ------------------------------------------------------------------------------------------- *)
(* The two greedy repetitions inside re_spans / re_deltas: every round consumes at least one character, so the
   fuel they are given (the length of their input) is never the reason they stop - any larger fuel gives the
   same result. *)
Section Fuel.
  Variable is_digit_re : char -> bool.

  Lemma span_split p s : forall a b, om_span p s = (a, b) -> s = a ++ b.
  Proof.
    induction s as [|c r IH]; intros a b H; cbn [om_span] in H; [inversion H; reflexivity|].
    destruct (p c); [|inversion H; reflexivity].
    destruct (om_span p r) as [a' b']. inversion H; subst. cbn. f_equal. apply IH. reflexivity.
  Qed.

  Lemma digits1_len s d r : om_digits1 is_digit_re s = Some (d, r) -> (length r < length s)%nat.
  Proof.
    unfold om_digits1. destruct (om_span is_digit_re s) as [a b] eqn:E.
    destruct a as [|c a]; [discriminate|]. intro H. inversion H; subst.
    apply span_split in E. subst s. rewrite app_length. cbn. lia.
  Qed.

  Lemma span_pair_len s p r : om_span_pair is_digit_re s = Some (p, r) -> (length r < length s)%nat.
  Proof.
    unfold om_span_pair. destruct (om_digits1 is_digit_re s) as [[a [|c r0]]|] eqn:E1; try discriminate.
    destruct (c =? COLON); [|discriminate].
    destruct (om_digits1 is_digit_re r0) as [[b r']|] eqn:E2; [|discriminate].
    intro H. inversion H; subst. apply digits1_len in E1, E2. cbn [length] in *. lia.
  Qed.

  Lemma sdigits_len s p r : om_sdigits is_digit_re s = Some (p, r) -> (length r < length s)%nat.
  Proof.
    unfold om_sdigits. destruct s as [|c s']; [discriminate|].
    destruct (c =? OM_MINUS).
    - destruct (om_digits1 is_digit_re s') as [[d r']|] eqn:E; [|discriminate].
      intro H. inversion H; subst. apply digits1_len in E. cbn [length]. lia.
    - apply digits1_len.
  Qed.

  Theorem span_more_fuel : forall f1 f2 s, (length s <= f1)%nat -> (length s <= f2)%nat ->
    om_span_more is_digit_re f1 s = om_span_more is_digit_re f2 s.
  Proof.
    induction f1 as [|f1 IH]; intros f2 s H1 H2.
    - destruct s; [|cbn in H1; lia]. destruct f2; reflexivity.
    - destruct f2 as [|f2]; [destruct s; [reflexivity|cbn in H2; lia]|].
      cbn [om_span_more]. destruct s as [|c r]; [reflexivity|]. destruct (c =? COMMA); [|reflexivity].
      destruct (om_span_pair is_digit_re r) as [[p r']|] eqn:E; [|reflexivity].
      apply span_pair_len in E. rewrite (IH f2 r') by (cbn [length] in *; lia). reflexivity.
  Qed.

  Theorem deltas_more_fuel : forall f1 f2 s, (length s <= f1)%nat -> (length s <= f2)%nat ->
    om_deltas_more is_digit_re f1 s = om_deltas_more is_digit_re f2 s.
  Proof.
    induction f1 as [|f1 IH]; intros f2 s H1 H2.
    - destruct s; [|cbn in H1; lia]. destruct f2; reflexivity.
    - destruct f2 as [|f2]; [destruct s; [reflexivity|cbn in H2; lia]|].
      cbn [om_deltas_more]. destruct s as [|c r]; [reflexivity|]. destruct (c =? COMMA); [|reflexivity].
      destruct (om_sdigits is_digit_re r) as [[p r']|] eqn:E; [|reflexivity].
      apply sdigits_len in E. rewrite (IH f2 r') by (cbn [length] in *; lia). reflexivity.
  Qed.
End Fuel.

(* ------------------------------------------------------------------------------------------- *)
(* Non-vacuity and sharpness, with the ASCII instance of the oracles of proofs/OMWitness.v. *)
From V Require Import proofs.OMWitness.

Lemma toy_digit_not_space : forall c, is_digit c = true -> is_space_uni c = false.
Proof. intros c H. unfold is_digit, is_space_uni in *. lia. Qed.

(* a histogram family with classic buckets, a native-histogram sample, an exemplar and a float-form timestamp,
   followed by a summary: the document is accepted, so the theorem does not hold by rejecting everything *)
Definition doc_total_ok := "# TYPE h histogram
# HELP h help
h_bucket{le=""1""} 1 # {a=""b""} 1 1
h_bucket{le=""+Inf""} 2
h_count 2
h_sum 3
h {count:1,sum:1,schema:0,zero_threshold:0,zero_count:0,positive_spans:[0:1,2:3],positive_deltas:[1,2]}
# TYPE s summary
s{quantile=""1""} 1 1.5e0
# EOF
"%string.

Definition doc_total_ok_shape : bool :=
  match toy_parse true true true true true true doc_total_ok with
  | Ok [h; s] => Nat.eqb (length (of_samples h)) 5 && Nat.eqb (length (of_samples s)) 1
  | _ => false
  end.
Example om_total_nonvacuous : doc_total_ok_shape = true.
Proof. vm_compute. reflexivity. Qed.

(* the hypothesis on \d is needed: with an oracle whose \d class holds the space character the model does reach
   the unbound `elems` of _compose_deltas (CPython's \d holds no whitespace: harness/c14om.check_platform_facts) *)
Definition sp_digit (c : char) : bool := (c =? 32) || is_digit c.
Definition doc_spdelta := "# TYPE a histogram
a {count:1,sum:1,schema:0,zero_threshold:0,zero_count:0,positive_deltas:[ ]}
# EOF
"%string.

Example om_total_digit_hypothesis_needed :
  om_parse false true true true true true true true true true Z toy_int toy_float toy_int
    Z.ltb Z.eqb (fun _ => false) (fun _ => true) (fun z => (2 ^ 1024 <=? Z.abs z)%Z) 0%Z 1%Z (10 ^ 400)%Z
    (fun _ _ => None) toy_word is_space_ascii sp_digit (s2l doc_spdelta) = Err UnboundLocalError
  /\ is_ok (toy_parse true true true true true true doc_spdelta) = true.
Proof. split; vm_compute; reflexivity. Qed.
