(* C05: the number of line terminators in an exposition depends only on how many families and samples
   there are, never on a supplied string. *)
From V Require Import lib.PyBase lib.Tac lib.PyStr model.Utils model.Validation model.Expo model.Graphite
  proofs.EscapeProofs.
Ltac Zify.zify_post_hook ::= Z.to_euclidean_division_equations.
Open Scope N_scope.

Fixpoint cnt (x : char) (s : str) : nat :=
  match s with [] => 0%nat | c :: r => ((if (c =? x)%N then 1 else 0) + cnt x r)%nat end.
Notation nlf := (cnt LF).

Lemma cnt_app x a b : cnt x (a ++ b) = (cnt x a + cnt x b)%nat.
Proof. induction a as [|c a IH]; cbn [app cnt]; [reflexivity|]. rewrite IH. lia. Qed.

Lemma cnt_zero_iff x s : cnt x s = 0%nat <-> ~ In x s.
Proof.
  induction s as [|c r IH]; cbn [cnt In]; [tauto|].
  destruct (N.eqb_spec c x).
  - split; [lia|]. intro H. exfalso. apply H. left; auto.
  - rewrite Nat.add_0_l, IH. split; [intros H [E|E]; [congruence|auto]|tauto].
Qed.

Lemma cnt_flat_map_zero {A} x (f : A -> str) l : (forall a, In a l -> cnt x (f a) = 0%nat) -> cnt x (flat_map f l) = 0%nat.
Proof.
  induction l as [|a l IH]; intro H; cbn [flat_map cnt]; [reflexivity|].
  rewrite cnt_app, H by (left; auto). apply IH. intros b Hb. apply H. right; auto.
Qed.

Lemma cnt_flat_map_const {A} x (f : A -> str) l k : (forall a, In a l -> cnt x (f a) = k) -> cnt x (flat_map f l) = (k * length l)%nat.
Proof.
  induction l as [|a l IH]; intro H; cbn [flat_map cnt length]; [lia|].
  rewrite cnt_app, H by (left; auto). rewrite IH by (intros b Hb; apply H; right; auto). lia.
Qed.

Lemma nlf_escape s : nlf (escape_chain s) = 0%nat.
Proof. apply cnt_zero_iff. rewrite escape_chain_eq. apply escape_no_lf. Qed.
Lemma nlf_help_escape s : nlf (help_escape_chain s) = 0%nat.
Proof. apply cnt_zero_iff. rewrite help_escape_chain_eq. apply help_escape_no_lf. Qed.

Lemma nlf_quote s : nlf (quote s) = nlf s.
Proof. unfold quote. cbn [cnt]. rewrite cnt_app. cbn. lia. Qed.

(* a name matching the legacy pattern (anchored with \Z) holds no line feed *)
Lemma match_rest_no_lf p s : (forall c, p c = true -> c <> LF) -> match_rest false p s = true -> nlf s = 0%nat.
Proof.
  intro Hp. induction s as [|c r IH]; intro H; cbn [match_rest cnt] in *; [reflexivity|].
  destruct (p c) eqn:E; [|discriminate]. apply Hp in E. destruct (N.eqb_spec c LF); [contradiction|]. auto.
Qed.

Lemma name_rest_not_lf c : name_rest c = true -> c <> LF.
Proof. intros H E. subst c. vm_compute in H. discriminate. Qed.
Lemma name_start_not_lf c : name_start c = true -> c <> LF.
Proof. intros H E. subst c. vm_compute in H. discriminate. Qed.
Lemma label_rest_not_lf c : label_rest c = true -> c <> LF.
Proof. intros H E. subst c. vm_compute in H. discriminate. Qed.
Lemma label_start_not_lf c : label_start c = true -> c <> LF.
Proof. intros H E. subst c. vm_compute in H. discriminate. Qed.

Lemma legacy_name_no_lf s : is_valid_legacy_metric_name s = true -> nlf s = 0%nat.
Proof.
  unfold is_valid_legacy_metric_name, re_name. destruct s as [|c r]; [reflexivity|].
  intro H. apply andb_true_iff in H as [H1 H2]. cbn [cnt].
  apply name_start_not_lf in H1. destruct (N.eqb_spec c LF); [contradiction|].
  apply (match_rest_no_lf name_rest); auto. apply name_rest_not_lf.
Qed.

Lemma legacy_label_no_lf s : is_valid_legacy_labelname s = true -> nlf s = 0%nat.
Proof.
  unfold is_valid_legacy_labelname, label_name_re, re_name. destruct s as [|c r]; [reflexivity|].
  intro H. apply andb_true_iff in H as [H _]. apply andb_true_iff in H as [H1 H2]. cbn [cnt].
  apply label_start_not_lf in H1. destruct (N.eqb_spec c LF); [contradiction|].
  apply (match_rest_no_lf label_rest); auto. apply label_rest_not_lf.
Qed.

Lemma nlf_escape_metric_name s : nlf (escape_metric_name s) = 0%nat.
Proof.
  unfold escape_metric_name. destruct (is_valid_legacy_metric_name s) eqn:E.
  - apply legacy_name_no_lf; auto.
  - rewrite nlf_quote. apply nlf_escape.
Qed.

Lemma nlf_escape_label_name s : nlf (escape_label_name s) = 0%nat.
Proof.
  unfold escape_label_name. destruct (is_valid_legacy_labelname s) eqn:E.
  - apply legacy_label_no_lf; auto.
  - rewrite nlf_quote. apply nlf_escape.
Qed.

Lemma nlf_join sep l : nlf sep = 0%nat -> (forall x, In x l -> nlf x = 0%nat) -> nlf (join sep l) = 0%nat.
Proof.
  intros Hs. induction l as [|x l IH]; intro H; [reflexivity|].
  cbn [join]. destruct l as [|y l']; [apply H; left; auto|].
  rewrite !cnt_app, Hs, H by (left; auto). rewrite IH; [reflexivity|]. intros z Hz. apply H. right; auto.
Qed.

Lemma nlf_label_pair kv : nlf (label_pair kv) = 0%nat.
Proof.
  unfold label_pair. rewrite !cnt_app, nlf_escape_label_name, nlf_quote, nlf_escape. reflexivity.
Qed.

Lemma nlf_labelstr l : nlf (labelstr l) = 0%nat.
Proof.
  unfold labelstr. apply nlf_join; [reflexivity|]. intros x Hx. apply in_map_iff in Hx as (kv & <- & _).
  apply nlf_label_pair.
Qed.

(* decimal renderings *)
Lemma nlf_digits_fuel fuel : forall n acc, nlf acc = 0%nat -> nlf (dec_digits_fuel fuel n acc) = 0%nat.
Proof.
  induction fuel as [|f IH]; intros n acc H; cbn [dec_digits_fuel]; [exact H|].
  assert (Hd : nlf ((48 + n mod 10) :: acc) = 0%nat).
  { cbn [cnt]. destruct (N.eqb_spec (48 + n mod 10) LF) as [E|E]; [unfold LF in E; lia|]. exact H. }
  destruct (n / 10 =? 0); [exact Hd|]. apply IH. exact Hd.
Qed.
Lemma nlf_dec_of_N n : nlf (dec_of_N n) = 0%nat.
Proof. unfold dec_of_N. apply nlf_digits_fuel. reflexivity. Qed.
Lemma nlf_dec_of_Z z : nlf (dec_of_Z z) = 0%nat.
Proof. destruct z; cbn [dec_of_Z]; [reflexivity|apply nlf_dec_of_N|]. cbn [cnt]. rewrite nlf_dec_of_N. reflexivity. Qed.

(* float renderings: repr(d) holds no line feed (a fact about CPython's repr, checked per case by the harness) *)
Definition fclass_clean (c : fclass) : Prop :=
  match c with FFin _ r => nlf r = 0%nat | _ => True end.

Lemma nlf_firstn n s : nlf s = 0%nat -> nlf (firstn n s) = 0%nat.
Proof. intro H. rewrite <- (firstn_skipn n s), cnt_app in H. lia. Qed.
Lemma nlf_skipn n s : nlf s = 0%nat -> nlf (skipn n s) = 0%nat.
Proof. intro H. rewrite <- (firstn_skipn n s), cnt_app in H. lia. Qed.
Lemma nlf_rev s : nlf (rev s) = nlf s.
Proof. induction s as [|c r IH]; [reflexivity|]. cbn [rev cnt]. rewrite cnt_app, IH. cbn. lia. Qed.
Lemma nlf_lstrip_set cs s : nlf s = 0%nat -> nlf (lstrip_set cs s) = 0%nat.
Proof.
  induction s as [|c r IH]; intro H; cbn [lstrip_set]; [reflexivity|].
  destruct (mem_char c cs); [|exact H]. apply IH. cbn [cnt] in H. lia.
Qed.
Lemma nlf_rstrip_set cs s : nlf s = 0%nat -> nlf (rstrip_set cs s) = 0%nat.
Proof. intro H. unfold rstrip_set. rewrite nlf_rev. apply nlf_lstrip_set. rewrite nlf_rev. exact H. Qed.

Lemma nlf_exp_text_2d e : nlf (exp_text_2d e) = 0%nat.
Proof.
  unfold exp_text_2d. cbn [app cnt]. destruct (e <? 10); cbn [cnt]; rewrite nlf_dec_of_N; reflexivity.
Qed.

Lemma nlf_go_string c : fclass_clean c -> nlf (go_string c) = 0%nat.
Proof.
  destruct c as [| | |p r]; intro H; try reflexivity.
  cbn [go_string go_string_with]. unfold go_finite_with.
  destruct (p && _); [|exact H].
  rewrite cnt_app, nlf_exp_text_2d, Nat.add_0_r. apply nlf_rstrip_set.
  rewrite !cnt_app. rewrite nlf_firstn, nlf_skipn, nlf_skipn; auto. apply nlf_firstn; auto.
Qed.

(* ---------------- text format ---------------- *)
Definition sample_clean (s : sample) : Prop :=
  fclass_clean (s_value s) /\
  match s_ex s with Some e => fclass_clean (ex_value e) | None => True end.

Lemma nlf_braces X : nlf (LBRACE :: X ++ [RBRACE]) = nlf X.
Proof. change (nlf (LBRACE :: X ++ [RBRACE])) with (nlf (X ++ [RBRACE])). rewrite cnt_app. cbn. lia. Qed.

Lemma nlf_text_sample_line s : sample_clean s -> nlf (text_sample_line s) = 1%nat.
Proof.
  intros [Hv _]. unfold text_sample_line. cbv zeta.
  match goal with |- context [go_string (s_value s) ++ ?t ++ [LF]] => set (ts := t) end.
  match goal with |- context [s_name s ++ match ?l with [] => [] | _ => _ end ++ _] => set (ls := l) end.
  assert (Hls : nlf ls = 0%nat) by (subst ls; destruct (s_labels s); [reflexivity|apply nlf_labelstr]).
  assert (Hts : nlf ts = 0%nat)
    by (subst ts; destruct (s_ts_ms s); [cbn [cnt]; rewrite nlf_dec_of_Z|]; reflexivity).
  destruct (is_valid_legacy_metric_name (s_name s)) eqn:E.
  - rewrite !cnt_app, (legacy_name_no_lf _ E), (nlf_go_string _ Hv), Hts.
    destruct ls as [|l0 lr] eqn:Els; [reflexivity|]. rewrite nlf_braces, Hls. reflexivity.
  - rewrite !cnt_app, nlf_escape_metric_name, (nlf_go_string _ Hv), Hts, Hls.
    destruct ls; reflexivity.
Qed.

Definition type_clean (f : family) : Prop := nlf (f_type f) = 0%nat.

Lemma nlf_text_meta mname doc typ : nlf typ = 0%nat -> nlf (text_meta mname doc typ) = 2%nat.
Proof.
  intro H. unfold text_meta. rewrite !cnt_app, !nlf_escape_metric_name, nlf_help_escape, H. reflexivity.
Qed.

Lemma nlf_text_munge name typ : nlf typ = 0%nat -> nlf (snd (text_munge name typ)) = 0%nat.
Proof.
  intro H. unfold text_munge.
  repeat match goal with |- context [if ?b then _ else _] => destruct b end; cbn [snd]; auto.
Qed.

Definition fam_clean (f : family) : Prop :=
  type_clean f /\ Forall sample_clean (f_samples f).

Definition trailing_groups (f : family) : nat :=
  let present k := match filter (fun s => match om_suffix_of (f_name f) s with Some j => Nat.eqb j k | None => false end) (f_samples f) with [] => 0%nat | _ => 1%nat end in
  (present 0 + present 1 + present 2)%nat.

Lemma filter_partition_len {A} (l : list A) (cls : A -> option nat) :
  (forall a j, cls a = Some j -> j = 0 \/ j = 1 \/ j = 2)%nat ->
  (length (filter (fun s => match cls s with None => true | Some _ => false end) l)
   + length (filter (fun s => match cls s with Some j => Nat.eqb j 0 | None => false end) l)
   + length (filter (fun s => match cls s with Some j => Nat.eqb j 1 | None => false end) l)
   + length (filter (fun s => match cls s with Some j => Nat.eqb j 2 | None => false end) l)
   = length l)%nat.
Proof.
  intro H. induction l as [|a l IH]; [reflexivity|]. cbn [filter].
  destruct (cls a) as [j|] eqn:E; cbn [length]; [|lia].
  destruct (H a j E) as [Hj|[Hj|Hj]]; subst j; cbn [Nat.eqb length]; lia.
Qed.

Lemma om_suffix_range fname s j : om_suffix_of fname s = Some j -> (j = 0 \/ j = 1 \/ j = 2)%nat.
Proof.
  unfold om_suffix_of. repeat match goal with |- context [if ?b then _ else _] => destruct b end;
    intro H; inversion H; auto.
Qed.

Theorem nlf_text_family f : fam_clean f ->
  nlf (text_family f) = (2 + length (f_samples f) + 2 * trailing_groups f)%nat.
Proof.
  intros [Ht Hs]. unfold text_family.
  destruct (text_munge (f_name f) (f_type f)) as [mname mtype] eqn:Em.
  assert (Hmt : nlf mtype = 0%nat) by (pose proof (nlf_text_munge (f_name f) (f_type f) Ht) as H; rewrite Em in H; exact H).
  assert (Hline : forall l, (forall s, In s l -> In s (f_samples f)) ->
            nlf (flat_map text_sample_line l) = length l).
  { intros l Hl. rewrite (cnt_flat_map_const LF text_sample_line l 1); [lia|].
    intros s Hin. apply nlf_text_sample_line. rewrite Forall_forall in Hs. apply Hs, Hl, Hin. }
  assert (Hsub : forall p s, In s (filter p (f_samples f)) -> In s (f_samples f))
    by (intros p s H; apply filter_In in H; tauto).
  pose proof (filter_partition_len (f_samples f) (om_suffix_of (f_name f)) (om_suffix_range (f_name f))) as Hpart.
  rewrite !cnt_app, (nlf_text_meta _ _ _ Hmt), (Hline _ (Hsub _)).
  unfold trailing_groups.
  repeat match goal with
  | |- context [match filter ?p ?l with [] => [] | _ => _ end] =>
      let E := fresh "E" in destruct (filter p l) eqn:E
  end;
  rewrite ?cnt_app;
  repeat match goal with
  | |- context [nlf (text_meta ?a ?b S_gauge)] => rewrite (nlf_text_meta a b S_gauge eq_refl)
  end;
  repeat match goal with
  | H : filter ?p (f_samples f) = ?x :: ?y |- context [flat_map text_sample_line (?x :: ?y)] =>
      rewrite (Hline (x :: y)) by (let z := fresh "z" in let Hz := fresh "Hz" in intros z Hz; rewrite <- H in Hz; eapply Hsub; exact Hz)
  end;
  cbn [cnt length] in *; lia.
Qed.

Theorem nlf_text_render fams : Forall fam_clean fams ->
  nlf (text_render fams) = fold_right (fun f acc => (2 + length (f_samples f) + 2 * trailing_groups f + acc)%nat) 0%nat fams.
Proof.
  induction 1 as [|f fams Hf _ IH]; [reflexivity|].
  unfold text_render in *. cbn [flat_map fold_right]. rewrite cnt_app, IH, nlf_text_family by exact Hf. lia.
Qed.

(* ---------------- Graphite ---------------- *)
Lemma sanitize_chars s : Forall (fun c => graphite_ok c = true) (sanitize s).
Proof.
  induction s as [|c r IH]; [constructor|]. cbn [sanitize map]. constructor; [|exact IH].
  destruct (graphite_ok c) eqn:E; [exact E|reflexivity].
Qed.

Lemma graphite_ok_not c x : graphite_ok x = false -> Forall (fun c => graphite_ok c = true) c -> cnt x c = 0%nat.
Proof.
  intros Hx. induction 1 as [|a l Ha _ IH]; [reflexivity|]. cbn [cnt].
  destruct (N.eqb_spec a x); [congruence|]. exact IH.
Qed.

Lemma sanitize_no x s : graphite_ok x = false -> cnt x (sanitize s) = 0%nat.
Proof. intro H. apply graphite_ok_not; [exact H|apply sanitize_chars]. Qed.

(* ---------------- OpenMetrics ---------------- *)
Lemma Ok_inj {A} (a b : A) : Ok a = Ok b -> a = b.
Proof. intro H. injection H. auto. Qed.

Definition om_ts_clean (t : option om_ts) : Prop :=
  match t with Some (TsRepr r) => nlf r = 0%nat | _ => True end.

Definition sample_clean_om (s : sample) : Prop :=
  fclass_clean (s_value s) /\ om_ts_clean (s_ts_om s) /\
  match s_ex s with Some e => fclass_clean (ex_value e) /\ om_ts_clean (ex_ts e) | None => True end.

Lemma nlf_pad9 n : forall s, nlf (pad9 s n) = nlf s.
Proof.
  induction n as [|n IH]; intro s; cbn [pad9]; [reflexivity|].
  destruct (Nat.ltb _ _); [|reflexivity]. rewrite IH. reflexivity.
Qed.

Lemma nlf_render_om_ts t : om_ts_clean (Some t) -> nlf (render_om_ts t) = 0%nat.
Proof.
  destruct t as [z|sec nsec|r]; cbn [render_om_ts om_ts_clean]; intro H.
  - apply nlf_dec_of_Z.
  - rewrite !cnt_app, nlf_dec_of_Z, nlf_pad9, nlf_dec_of_N. reflexivity.
  - exact H.
Qed.

Lemma nlf_sp x : nlf (SP :: x) = nlf x.
Proof. reflexivity. Qed.

Lemma nlf_exemplar_str e : fclass_clean (ex_value e) -> om_ts_clean (ex_ts e) -> nlf (exemplar_str true e) = 0%nat.
Proof.
  intros Hv Ht. unfold exemplar_str. cbv zeta.
  assert (Hl : forall x, In x (map (fun kv : str * str => escape_label_name (fst kv) ++ [EQS] ++ quote (escape_chain (snd kv)))
                               (sort_kv (ex_labels e))) -> nlf x = 0%nat).
  { intros x Hx. apply in_map_iff in Hx as (kv & <- & _).
    rewrite !cnt_app, nlf_escape_label_name, nlf_quote, nlf_escape. reflexivity. }
  destruct (ex_ts e) as [t|]; rewrite !cnt_app, (nlf_go_string _ Hv);
    match goal with |- context [nlf (LBRACE :: ?x ++ [RBRACE])] => rewrite (nlf_braces x) end;
    rewrite (nlf_join [COMMA] _ eq_refl Hl).
  - rewrite (nlf_sp (render_om_ts t)), (nlf_render_om_ts t Ht). reflexivity.
  - reflexivity.
Qed.

Lemma nlf_om_sample_line ftype fname s line :
  sample_clean_om s -> om_sample_line true ftype fname s = Ok line -> nlf line = 1%nat.
Proof.
  intros (Hv & Ht & He) H. unfold om_sample_line in H. cbv zeta in H.
  match type of H with bind ?m _ = _ => destruct m as [exs|] eqn:Eex end; [|discriminate].
  cbn [bind] in H. inversion H; subst line; clear H.
  assert (Hexs : nlf exs = 0%nat).
  { destruct (s_ex s) as [e|]; [|inversion Eex; reflexivity].
    destruct (is_valid_exemplar_metric _ _ _); [|discriminate]. inversion Eex. destruct He. apply nlf_exemplar_str; auto. }
  set (l1 := (if is_valid_legacy_metric_name (s_name s) then [] else _) ++ _).
  assert (Hl1 : nlf l1 = 0%nat).
  { subst l1. rewrite cnt_app.
    assert (Hlb : nlf (match s_labels s with [] => [] | _ => labelstr (s_labels s) end) = 0%nat)
      by (destruct (s_labels s); [reflexivity|apply nlf_labelstr]).
    destruct (is_valid_legacy_metric_name (s_name s)).
    - destruct (s_labels s); [reflexivity|apply nlf_labelstr].
    - rewrite cnt_app, nlf_escape_metric_name. destruct (s_labels s); [reflexivity|].
      rewrite nlf_labelstr. reflexivity. }
  assert (Hls : nlf (match l1 with [] => [] | _ => LBRACE :: l1 ++ [RBRACE] end) = 0%nat)
    by (destruct l1 eqn:E1; [reflexivity|rewrite nlf_braces; exact Hl1]).
  destruct (s_ts_om s) as [t|]; destruct (is_valid_legacy_metric_name (s_name s)) eqn:E;
    rewrite ?cnt_app; rewrite ?(legacy_name_no_lf _ E);
    match goal with |- context [nlf (SP :: go_string ?v ++ ?r)] => rewrite (nlf_sp (go_string v ++ r)) end;
    rewrite ?cnt_app, (nlf_go_string _ Hv), ?(nlf_sp (render_om_ts t)), ?(nlf_render_om_ts _ Ht), Hexs;
    destruct l1 as [|l1a l1b] eqn:El1; rewrite ?nlf_braces, ?Hl1; reflexivity.
Qed.

Lemma nlf_res_concat_map {A} (f : A -> res str) (P : A -> Prop) k :
  (forall a line, P a -> f a = Ok line -> nlf line = k) ->
  forall l out, Forall P l -> res_concat_map f l = Ok out -> nlf out = (k * length l)%nat.
Proof.
  intro Hf. induction l as [|a l IH]; intros out HP H; cbn [res_concat_map] in H.
  - inversion H. cbn. lia.
  - inversion HP; subst. destruct (f a) as [x|] eqn:Ea; [|discriminate]. cbn [bind] in H.
    destruct (res_concat_map f l) as [y|] eqn:El; [|discriminate]. cbn [bind] in H. inversion H; subst out.
    rewrite cnt_app, (Hf a x) by auto. rewrite (IH y) by auto. cbn [length]. lia.
Qed.

Definition fam_clean_om (f : family) : Prop :=
  type_clean f /\ Forall sample_clean_om (f_samples f).

Definition om_family_lines (f : family) : nat :=
  (2 + (match f_unit f with [] => 0 | _ => 1 end) + length (f_samples f))%nat.

Theorem nlf_om_family f out : fam_clean_om f -> om_family true f = Ok out -> nlf out = om_family_lines f.
Proof.
  intros [Ht Hs] H. unfold om_family in H.
  destruct (res_concat_map _ _) as [ss|] eqn:Ess; [|discriminate]. cbn [bind] in H. apply Ok_inj in H. subst out.
  pose proof (nlf_res_concat_map _ sample_clean_om 1%nat
                (fun a line => nlf_om_sample_line (f_type f) (f_name f) a line) _ _ Hs Ess) as Hss.
  unfold om_family_lines. unfold type_clean in Ht.
  rewrite !cnt_app, !nlf_escape_metric_name, nlf_escape, Ht, Hss.
  destruct (f_unit f) as [|u0 ur] eqn:Eu; [cbn; lia|].
  rewrite !cnt_app, nlf_escape_metric_name, nlf_escape. cbn. lia.
Qed.

Theorem nlf_om_render fams out : Forall fam_clean_om fams -> om_render true fams = Ok out ->
  nlf out = (fold_right (fun f acc => (om_family_lines f + acc)%nat) 0%nat fams + 1)%nat
  /\ exists body, out = body ++ S_EOF ++ [LF].
Proof.
  intros Hc H. unfold om_render in H.
  destruct (res_concat_map _ _) as [body|] eqn:Eb; [|discriminate]. cbn [bind] in H. apply Ok_inj in H. subst out.
  split; [|exists body; reflexivity].
  rewrite !cnt_app. change (nlf S_EOF) with 0%nat. change (nlf [LF]) with 1%nat.
  assert (G : forall l b, Forall fam_clean_om l -> res_concat_map (om_family true) l = Ok b ->
                nlf b = fold_right (fun f acc => (om_family_lines f + acc)%nat) 0%nat l).
  { induction l as [|f l IH]; intros b HP Hb; cbn [res_concat_map] in Hb.
    - inversion Hb. reflexivity.
    - inversion HP; subst. destruct (om_family true f) as [x|] eqn:Ef; [|discriminate]. cbn [bind] in Hb.
      destruct (res_concat_map (om_family true) l) as [y|] eqn:El; [|discriminate]. cbn [bind] in Hb.
      inversion Hb; subst b. rewrite cnt_app, (nlf_om_family f x), (IH y) by auto. reflexivity. }
  rewrite (G fams body Hc Eb). lia.
Qed.

(* ---------------- Graphite ---------------- *)
Lemma cnt_join_sanitized x sep (l : list str) :
  cnt x sep = 0%nat -> (forall s, In s l -> cnt x s = 0%nat) -> cnt x (join sep l) = 0%nat.
Proof.
  intros Hs. induction l as [|y l IH]; intro H; [reflexivity|].
  cbn [join]. destruct l as [|z l']; [apply H; left; auto|].
  rewrite !cnt_app, Hs, H by (left; auto). rewrite IH; [reflexivity|]. intros w Hw. apply H. right; auto.
Qed.

Theorem gr_line_structure tags prefix name labels value now :
  nlf prefix = 0%nat -> cnt SP prefix = 0%nat -> nlf value = 0%nat -> cnt SP value = 0%nat ->
  nlf now = 0%nat -> cnt SP now = 0%nat ->
  nlf (gr_line tags prefix name labels value now) = 1%nat /\
  cnt SP (gr_line tags prefix name labels value now) = 2%nat.
Proof.
  intros Hp1 Hp2 Hv1 Hv2 Hn1 Hn2. unfold gr_line.
  assert (Hlab : forall x, graphite_ok x = false -> x <> SEMI -> x <> 46 -> x <> EQS ->
                           cnt x (gr_labelstr tags labels) = 0%nat).
  { intros x Hx H1 H2 H3. unfold gr_labelstr. destruct labels as [|l0 lr]; [reflexivity|]. cbv zeta.
    destruct tags.
    - assert (Hsep : cnt x [SEMI] = 0%nat) by (cbn [cnt]; destruct (N.eqb_spec SEMI x); try congruence; reflexivity).
      rewrite cnt_app, Hsep. apply cnt_join_sanitized; [exact Hsep|].
      intros s Hs. apply in_map_iff in Hs as (kv & <- & _).
      rewrite !cnt_app, !sanitize_no by exact Hx.
      cbn [cnt]. destruct (N.eqb_spec EQS x); try congruence; reflexivity.
    - assert (Hsep : cnt x [46] = 0%nat) by (cbn [cnt]; destruct (N.eqb_spec 46 x); try congruence; reflexivity).
      rewrite cnt_app, Hsep. apply cnt_join_sanitized; [exact Hsep|].
      intros s Hs. apply in_map_iff in Hs as (kv & <- & _).
      rewrite !cnt_app, !sanitize_no by exact Hx. rewrite Hsep. reflexivity. }
  match goal with |- context [?t ++ sanitize name ++ _] => set (pre := t) end.
  assert (Hpre : forall x, cnt x prefix = 0%nat -> x <> 46 -> cnt x pre = 0%nat).
  { intros x Hx H1. subst pre. destruct prefix; [reflexivity|]. rewrite cnt_app, Hx. cbn [cnt].
    destruct (N.eqb_spec 46 x); try congruence; reflexivity. }
  split.
  - rewrite !cnt_app, (Hpre LF Hp1), (sanitize_no LF), (Hlab LF), Hv1, Hn1 by (try reflexivity; discriminate).
    reflexivity.
  - rewrite !cnt_app, (Hpre SP Hp2), (sanitize_no SP), (Hlab SP), Hv2, Hn2 by (try reflexivity; discriminate).
    reflexivity.
Qed.
