(* C04 L5: gauge and counter families meet family_acc of proofs/OMFamilyRoundTrip.v (so that they can stand in a document
   next to families of other types). *)
From V Require Import lib.PyBase lib.Tac lib.PyStr model.Utils model.Validation model.Expo model.TextParser model.OMParser
  proofs.LabelRoundTrip proofs.OMSampleRoundTrip proofs.OMDocRoundTrip proofs.OMCounterRoundTrip proofs.OMFamilyRoundTrip
  proofs.OMGroupingFacts proofs.OMSummaryRoundTrip.
From Coq Require Import Permutation.
Ltac Zify.zify_post_hook ::= Z.to_euclidean_division_equations.
Open Scope N_scope.

Section Inst.
  Variable fix_nhkeys fix_nhsfx fix_tsmix fix_isnan fix_tsexp fix_sname : bool.
  Variable NUM : Type.
  Variable parse_num parse_float : str -> option NUM.
  Variable parse_int : str -> option Z.
  Variable num_lt num_eqb : NUM -> NUM -> bool.
  Variable num_isinf num_integral num_huge : NUM -> bool.
  Variable num_zero num_one num_inf : NUM.
  Variable ts_float : Z -> Z -> option NUM.
  Variable is_word is_space_re is_digit_re : char -> bool.
  Variable val_of : sample -> NUM.
  Variable ts_of : sample -> option (om_tsv NUM).
  Variable ex_of : sample -> option (om_exemplar NUM).
  Variable n : str.

  Notation ps := (g_ps_of NUM val_of ts_of ex_of).
  Notation rd_ok := (read_ok fix_tsexp NUM parse_num parse_float parse_int num_eqb num_isinf val_of ts_of ex_of).
  Notation s_acc := (sample_acc fix_nhkeys fix_nhsfx fix_isnan fix_tsexp NUM parse_num parse_float parse_int num_lt num_eqb
                       num_isinf num_integral num_huge num_zero num_one num_inf is_word is_space_re is_digit_re val_of ts_of ex_of).
  Notation f_acc := (family_acc fix_nhkeys fix_nhsfx fix_tsmix fix_isnan fix_tsexp NUM parse_num parse_float parse_int num_lt
                       num_eqb num_isinf num_integral num_huge num_zero num_one num_inf ts_float is_word is_space_re is_digit_re
                       val_of ts_of ex_of).

  Definition lkey (s : sample) : list (str * str) := sort_kv (sort_kv (s_labels s)).

  Lemma lkey_perm s s' : lkey s = lkey s' -> Permutation (s_labels s') (s_labels s).
  Proof.
    unfold lkey. intro E.
    etransitivity; [apply sort_kv_perm|]. etransitivity; [apply sort_kv_perm|]. rewrite <- E.
    symmetry. etransitivity; [apply sort_kv_perm|]. apply sort_kv_perm.
  Qed.

  (* ---------- gauge ---------- *)
  Definition gauge_sample_ok (s : sample) : Prop := rd_ok s /\ s_ex s = None /\ s_name s = n.

  Definition gauge_family_wf (f : family) : Prop :=
    f_name f = n /\ n <> [] /\ f_type f = Expo.S_gauge /\
    (f_unit f = [] \/ ends_with (USCORE :: f_unit f) n = true) /\
    Forall gauge_sample_ok (f_samples f) /\
    ForallOrdPairs (fun s1 s2 => ~ Permutation (s_labels s1) (s_labels s2)) (f_samples f).

  Lemma gauge_sample_acc s : gauge_sample_ok s -> s_acc OM_gauge n s.
  Proof.
    intros (Hr & He & Hn). assert (Hex : ex_of s = None).
    { destruct Hr as (_ & _ & _ & _ & _ & Hx). rewrite He in Hx. exact Hx. }
    split; [exact Hr|]. split; [left; exact He|]. split; [|split; [|split; [|discriminate]]].
    - rewrite Hn. unfold allowed_names. change (om_type_suffixes OM_gauge [[]]) with [@nil char]. cbn [map mem_str].
      rewrite app_nil_r, str_eqb_refl. reflexivity.
    - apply pre_checks_gauge. exact Hn.
    - apply post_checks_gauge; [exact Hn|exact Hex].
  Qed.

  Lemma gauge_key s : key_of NUM val_of ts_of ex_of OM_gauge n lkey s.
  Proof. unfold key_of, om_group_for_sample. eexists. split; reflexivity. Qed.

  Lemma pairs_nodup_keys l :
    ForallOrdPairs (fun s1 s2 => ~ Permutation (s_labels s1) (s_labels s2)) l -> NoDup (map lkey l).
  Proof.
    induction 1 as [|s l Hs _ IH]; [constructor|]. cbn [map]. constructor; [|exact IH].
    intro Hin. apply in_map_iff in Hin as (s' & E & Hs'). rewrite Forall_forall in Hs.
    apply (Hs s' Hs'). apply lkey_perm. exact E.
  Qed.

  Theorem gauge_family_acc f : gauge_family_wf f -> f_acc f.
  Proof.
    intros (Hfn & Hne & Hty & Hun & Hok & Hpw). unfold family_acc. rewrite Hfn, Hty.
    split; [exact Hne|]. split; [reflexivity|]. split.
    { unfold unit_ok. rewrite Hfn, Hty. destruct Hun as [Hun|Hun]; [left; exact Hun|right]. repeat split; auto. }
    split; [eapply Forall_impl; [|exact Hok]; apply gauge_sample_acc|].
    split; [|discriminate].
    apply (grun_fresh fix_tsmix NUM num_lt num_eqb ts_float val_of ts_of ex_of Expo.S_gauge n lkey).
    - rewrite Forall_forall. intros s _. apply gauge_key.
    - apply pairs_nodup_keys. exact Hpw.
    - intros s _ [].
    - exact I.
  Qed.

  (* ---------- counter ---------- *)
  Definition counter_sample_ok (s : sample) : Prop :=
    rd_ok s /\ s_ts_om s = None /\
    ((s_name s = n ++ OM_total /\ counts_ok fix_isnan NUM num_lt num_eqb num_huge num_zero (val_of s))
     \/ (s_name s = n ++ OM_created /\ s_ex s = None)).

  Definition counter_family_wf (f : family) : Prop :=
    f_name f = n /\ n <> [] /\ f_type f = Expo.S_counter /\
    (f_unit f = [] \/ ends_with (USCORE :: f_unit f) n = true) /\
    Forall counter_sample_ok (f_samples f) /\ wgk lkey None [] [] (f_samples f) = true.

  Lemma counter_sample_old s : counter_sample_ok s ->
    om_csample_ok fix_isnan fix_tsexp NUM parse_num parse_float parse_int num_lt num_eqb num_isinf num_huge num_zero val_of ex_of n s
    /\ ps s = om_cps_of NUM val_of ex_of s.
  Proof.
    intros ((Hk & Hnd & Hv & Hpv & Hts & Hex) & Ht & Hkind). split.
    - split; [exact Hk|]. split; [exact Hnd|]. split; [exact Hv|]. split; [exact Hpv|]. split; [exact Ht|]. split; [exact Hex|].
      destruct Hkind as [(Hn & H1 & H2 & H3)|(Hn & He)]; [left|right]; repeat split; auto.
    - unfold g_ps_of, om_cps_of. rewrite Ht in Hts. red in Hts. rewrite Hts. reflexivity.
  Qed.

  Lemma counter_sample_acc s : counter_sample_ok s -> s_acc OM_counter n s.
  Proof.
    intro Hs. destruct (counter_sample_old s Hs) as [Hold Heq]. destruct Hs as (Hr & Ht & Hkind).
    split; [exact Hr|]. split; [|split; [|split; [|split; [|discriminate]]]].
    - destruct Hkind as [(Hn & _)|(_ & He)]; [right|left; exact He].
      unfold is_valid_exemplar_metric. rewrite Hn. change (str_eqb OM_counter S_counter) with true.
      change S_total with OM_total. rewrite ends_with_app. reflexivity.
    - unfold allowed_names. change (om_type_suffixes OM_counter [[]]) with [OM_total; OM_created]. cbn [map mem_str].
      destruct Hkind as [(Hn & _)|(Hn & _)]; rewrite Hn, !str_eqb_app_head; reflexivity.
    - rewrite Heq. eapply pre_checks_counter. exact Hold.
    - rewrite Heq. eapply post_checks_counter. exact Hold.
  Qed.

  Lemma counter_key s : key_of NUM val_of ts_of ex_of OM_counter n lkey s.
  Proof. unfold key_of, om_group_for_sample. eexists. split; reflexivity. Qed.

  Theorem counter_family_acc f : counter_family_wf f -> f_acc f.
  Proof.
    intros (Hfn & Hne & Hty & Hun & Hok & Hwg). unfold family_acc. rewrite Hfn, Hty.
    split; [exact Hne|]. split; [reflexivity|]. split.
    { unfold unit_ok. rewrite Hfn, Hty. destruct Hun as [Hun|Hun]; [left; exact Hun|right]. repeat split; auto. }
    split; [eapply Forall_impl; [|exact Hok]; apply counter_sample_acc|].
    split; [|discriminate].
    apply (grun_nots fix_tsmix NUM num_lt num_eqb ts_float val_of ts_of ex_of Expo.S_counter n lkey (f_samples f) None [] []);
      [|exact Hwg].
    eapply Forall_impl; [|exact Hok]. intros s Hs. split; [apply counter_key|].
    destruct Hs as ((_ & _ & _ & _ & Hts & _) & Ht & _). rewrite Ht in Hts. exact Hts.
  Qed.
End Inst.
