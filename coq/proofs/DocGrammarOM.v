(* C05, OpenMetrics, document level: every line of the OpenMetrics exposition is accepted by the independent line
   grammar (HELP / TYPE / UNIT / sample with optional timestamp and exemplar), and the document ends in exactly one EOF line. *)
From V Require Import lib.PyBase lib.PyStr lib.Tac model.Utils model.Validation model.Expo model.LineGrammar
  proofs.EscapeProofs proofs.LabelRoundTrip proofs.SampleRoundTrip proofs.LineProofs proofs.GrammarProofs
  proofs.DocRoundTrip proofs.DocGrammar.
Open Scope N_scope.
Ltac Zify.zify_post_hook ::= Z.to_euclidean_division_equations.

(* ---------- tokens ---------- *)
Lemma g_many1_all p s rest : s <> [] -> Forall (fun c => p c = true) s -> stops p rest ->
  g_many1 p (s ++ rest) = Some rest.
Proof.
  intros Hne Hall Hr. destruct s as [|c r]; [congruence|]. inversion Hall as [|? ? Hc Hr']; subst.
  unfold g_many1, g_seq, g_char. cbn [app]. rewrite Hc. apply g_many_all; assumption.
Qed.

Lemma digit_num c : c_digit c = true -> c_num c = true.
Proof. intro H. unfold c_num. rewrite H. reflexivity. Qed.

Lemma dec_of_N_num n : Forall (fun c => c_num c = true) (dec_of_N n).
Proof. eapply Forall_impl; [|apply dec_of_N_digits]. intros c H. apply digit_num, H. Qed.

Lemma dec_of_Z_num z : Forall (fun c => c_num c = true) (dec_of_Z z) /\ dec_of_Z z <> [].
Proof.
  destruct z as [|p|p]; cbn [dec_of_Z].
  - split; [repeat constructor|discriminate].
  - split; [apply dec_of_N_num|apply dec_of_N_nonempty].
  - split; [constructor; [reflexivity|apply dec_of_N_num]|discriminate].
Qed.

Lemma pad9_num n : forall s, Forall (fun c => c_num c = true) s -> Forall (fun c => c_num c = true) (pad9 s n).
Proof.
  induction n as [|n IH]; intros s H; cbn [pad9]; [exact H|].
  destruct (Nat.ltb (length s) 9); [|exact H]. apply IH. constructor; [reflexivity|exact H].
Qed.

Definition om_ts_token (t : om_ts) : Prop :=
  match t with TsRepr r => r <> [] /\ Forall (fun c => c_num c = true) r | _ => True end.

Lemma render_om_ts_num t : om_ts_token t ->
  Forall (fun c => c_num c = true) (render_om_ts t) /\ render_om_ts t <> [].
Proof.
  destruct t as [z|sec nsec|r]; cbn [render_om_ts om_ts_token]; intro H.
  - apply dec_of_Z_num.
  - destruct (dec_of_Z_num sec) as [H1 H2]. split.
    + apply Forall_app. split; [exact H1|]. apply Forall_app. split; [repeat constructor|].
      apply pad9_num, dec_of_N_num.
    + destruct (dec_of_Z sec); [congruence|discriminate].
  - destruct H as [H1 H2]. split; assumption.
Qed.

Lemma g_om_ts_ok t rest : om_ts_token t -> stops c_num rest -> g_om_ts (render_om_ts t ++ rest) = Some rest.
Proof. intros Ht Hr. destruct (render_om_ts_num t Ht) as [H1 H2]. unfold g_om_ts. apply g_many1_all; assumption. Qed.

(* ---------- exemplar ---------- *)
Definition ex_token_ok (e : exemplar) : Prop :=
  value_token (go_string (ex_value e)) /\ match ex_ts e with Some t => om_ts_token t | None => True end.

Lemma exemplar_str_eq e :
  exemplar_str true e
  = [SP; HASH; SP; LBRACE] ++ ltext (sort_kv (ex_labels e)) ++ RBRACE :: SP :: go_string (ex_value e)
    ++ match ex_ts e with None => [] | Some t => SP :: render_om_ts t end.
Proof.
  unfold exemplar_str. cbv zeta. rewrite ltext_join. unfold label_pair.
  repeat (cbn [app]; rewrite <- ?app_assoc). reflexivity.
Qed.

Lemma ltext_not_rbrace kvs rest : kvs <> [] -> g_lit [125] (ltext kvs ++ rest) = None.
Proof.
  destruct kvs as [|kv r]; [congruence|]. intros _.
  destruct (ltext_shape kv r) as (c & mid & E & Hsp & Hc). rewrite E. cbn [app g_lit].
  assert (Hc125 : c <> 125).
  { intro E125. subst c. destruct r as [|kv2 r2]; cbn [ltext] in E; unfold label_pair, escape_label_name in E;
      destruct (is_valid_legacy_labelname (fst kv)) eqn:El.
    - destruct (legacy_label_chars _ El) as (c0 & r0 & Ek & Hs & _). rewrite Ek in E. cbn [app] in E.
      inversion E; subst c0. vm_compute in Hs. discriminate.
    - unfold quote in E. cbn [app] in E. inversion E.
    - destruct (legacy_label_chars _ El) as (c0 & r0 & Ek & Hs & _). rewrite Ek in E. cbn [app] in E.
      inversion E; subst c0. vm_compute in Hs. discriminate.
    - unfold quote in E. cbn [app] in E. inversion E. }
  destruct (N.eqb_spec c 125); [contradiction|reflexivity].
Qed.

Lemma g_exemplar_ok e : ex_token_ok e -> g_exemplar (exemplar_str true e) = Some [].
Proof.
  intros [Hv Ht]. rewrite exemplar_str_eq. unfold g_exemplar.
  unfold g_seq at 1. rewrite (g_lit_app [32; 35; 32; 123]).
  assert (Htail : g_seq (g_lit SPC) (g_seq g_value (g_opt (g_seq (g_lit SPC) g_om_ts)))
                    (SP :: go_string (ex_value e) ++ match ex_ts e with None => [] | Some t => SP :: render_om_ts t end)
                  = Some []).
  { unfold g_seq at 1. cbn [g_lit SPC]. change (SP =? 32) with true. cbv iota.
    destruct (ex_ts e) as [t|].
    - eapply g_seq_ok; [apply g_value_ok; [exact Hv|reflexivity]|].
      unfold g_opt, g_seq. cbn [g_lit SPC]. change (SP =? 32) with true. cbv iota.
      rewrite <- (app_nil_r (render_om_ts t)). rewrite (g_om_ts_ok t [] Ht I). reflexivity.
    - eapply g_seq_ok; [apply g_value_ok; [exact Hv|exact I]|]. reflexivity. }
  destruct (sort_kv (ex_labels e)) as [|k0 kr] eqn:Esk.
  - cbn [ltext app]. unfold g_seq at 1. unfold g_alt. cbn [g_lit]. change (RBRACE =? 125) with true. cbv iota.
    exact Htail.
  - unfold g_seq at 1. unfold g_alt. rewrite ltext_not_rbrace by discriminate.
    unfold g_seq at 1. rewrite g_labels_ok; [|discriminate|discriminate].
    cbn [g_lit]. change (RBRACE =? 125) with true. cbv iota. exact Htail.
Qed.

(* ---------- the series part: name{labels} | name | {qname} | {qname, labels} ---------- *)
Definition om_series_text (s : sample) : str :=
  if is_valid_legacy_metric_name (s_name s)
  then s_name s ++ (match s_labels s with [] => [] | _ => LBRACE :: ltext (sort_kv (s_labels s)) ++ [RBRACE] end)
  else LBRACE :: quote (escape (s_name s))
       ++ (match s_labels s with [] => [] | _ => COMMA :: SP :: ltext (sort_kv (s_labels s)) end) ++ [RBRACE].

Lemma g_series_om s r : g_series [44; 32] (om_series_text s ++ SP :: r) = Some (SP :: r).
Proof.
  unfold om_series_text, g_series, g_alt.
  destruct (is_valid_legacy_metric_name (s_name s)) eqn:Hn.
  - destruct (legacy_name_chars (s_name s) Hn) as (c & r0 & En & Hall). rewrite En.
    inversion Hall as [|? ? Hc Hr]; subst.
    unfold g_seq at 1 2. unfold g_char. cbn [app]. rewrite c_name0_eq.
    assert (Hs0 : name_start c = true).
    { unfold is_valid_legacy_metric_name, re_name in Hn. rewrite En in Hn. apply andb_true_iff in Hn. tauto. }
    rewrite Hs0.
    assert (Hr' : Forall (fun x => c_name x = true) r0)
      by (eapply Forall_impl; [|exact Hr]; intros x Hx; rewrite c_name_eq; exact Hx).
    destruct (s_labels s) as [|l0 lr] eqn:El.
    + rewrite app_nil_r. cbn [app]. rewrite (g_many_all c_name r0 (SP :: r) Hr' eq_refl).
      unfold g_opt, g_seq. cbn [g_lit]. reflexivity.
    + assert (Hne : sort_kv (l0 :: lr) <> []) by (apply sort_kv_nonempty; discriminate).
      rewrite <- app_assoc. cbn [app].
      match goal with |- context [g_many c_name (r0 ++ ?rest)] => rewrite (g_many_all c_name r0 rest Hr' eq_refl) end.
      unfold g_opt, g_seq. cbn [g_lit]. change (LBRACE =? 123) with true. cbv iota.
      rewrite <- app_assoc. rewrite g_labels_ok; [|exact Hne|discriminate].
      cbn [app g_lit]. change (RBRACE =? 125) with true. reflexivity.
  - match goal with |- match ?a with Some _ => _ | None => _ end = _ => replace a with (@None str) by reflexivity end.
    cbn [app]. unfold g_seq at 1. cbn [g_lit]. change (LBRACE =? 123) with true. cbv iota.
    rewrite <- app_assoc. unfold g_seq at 1. rewrite g_quoted_ok.
    destruct (s_labels s) as [|l0 lr] eqn:El.
    + cbn [app g_lit]. change (RBRACE =? 125) with true. reflexivity.
    + assert (Hne : sort_kv (l0 :: lr) <> []) by (apply sort_kv_nonempty; discriminate).
      cbn [app].
      match goal with |- match ?a with Some _ => _ | None => _ end = _ => replace a with (@None str) by reflexivity end.
      unfold g_seq. cbn [g_lit]. change (COMMA =? 44) with true. change (SP =? 32) with true. cbv iota.
      rewrite <- app_assoc. rewrite g_labels_ok; [|exact Hne|discriminate].
      cbn [app g_lit]. change (RBRACE =? 125) with true. reflexivity.
Qed.

(* ---------- the whole sample line ---------- *)
Definition om_sample_tokens_ok (s : sample) : Prop :=
  value_token (go_string (s_value s)) /\
  match s_ts_om s with Some t => om_ts_token t | None => True end /\
  match s_ex s with Some e => ex_token_ok e | None => True end.

Lemma om_sample_line_shape ftype fname s line : om_sample_line true ftype fname s = Ok line ->
  line = (om_series_text s ++ SP :: go_string (s_value s)
          ++ (match s_ts_om s with None => [] | Some t => SP :: render_om_ts t end)
          ++ (match s_ex s with None => [] | Some e => exemplar_str true e end)) ++ [LF].
Proof.
  intro H. unfold om_sample_line in H. cbv zeta in H.
  match type of H with bind ?m _ = _ => destruct m as [exs|] eqn:Eex end; [|discriminate].
  cbn [bind] in H. apply Ok_inj in H. subst line.
  assert (Hexs : exs = match s_ex s with None => [] | Some e => exemplar_str true e end).
  { destruct (s_ex s) as [e|]; [|apply Ok_inj in Eex; congruence].
    destruct (is_valid_exemplar_metric _ _ _); [apply Ok_inj in Eex; congruence|discriminate]. }
  rewrite Hexs. clear Hexs Eex. unfold om_series_text.
  destruct (is_valid_legacy_metric_name (s_name s)) eqn:Hn.
  - destruct (s_labels s) as [|l0 lr] eqn:El.
    + repeat (cbn [app]; rewrite <- ?app_assoc). reflexivity.
    + unfold labelstr. rewrite <- ltext_join.
      assert (Hne : sort_kv (l0 :: lr) <> []) by (apply sort_kv_nonempty; discriminate).
      pose proof (ltext_nonempty _ Hne) as Hlne. cbn [app].
      destruct (ltext (sort_kv (l0 :: lr))) as [|t0 tr] eqn:Elt; [congruence|].
      repeat (cbn [app]; rewrite <- ?app_assoc). reflexivity.
  - unfold escape_metric_name. rewrite Hn, escape_chain_eq. unfold quote.
    destruct (s_labels s) as [|l0 lr] eqn:El.
    + repeat (cbn [app]; rewrite <- ?app_assoc). reflexivity.
    + unfold labelstr. rewrite <- ltext_join.
      repeat (cbn [app]; rewrite <- ?app_assoc). reflexivity.
Qed.

Theorem om_sample_line_in_grammar ftype fname s line :
  om_sample_tokens_ok s -> om_sample_line true ftype fname s = Ok line ->
  exists body, line = body ++ [LF] /\ is_sample_line_om body = true.
Proof.
  intros (Hv & Ht & He) H. rewrite (om_sample_line_shape _ _ _ _ H). eexists. split; [reflexivity|].
  unfold is_sample_line_om. cbv zeta.
  unfold g_seq at 1. rewrite g_series_om.
  unfold g_seq at 1. cbn [g_lit SPC]. change (SP =? 32) with true. cbv iota.
  match goal with |- context [go_string (s_value s) ++ _ ++ ?e] => set (exs := e) end.
  assert (Hex : g_seq (g_opt g_exemplar) g_end exs = Some [] /\ stops c_num exs /\
                g_seq (g_lit SPC) (g_seq g_om_ts (g_seq (g_opt g_exemplar) g_end)) exs = None).
  { subst exs. destruct (s_ex s) as [e|].
    - split; [|split; rewrite exemplar_str_eq; reflexivity]. unfold g_seq, g_opt. rewrite (g_exemplar_ok e He). reflexivity.
    - split; [|split]; reflexivity. }
  clearbody exs. destruct Hex as (Hex1 & Hex2 & Hex3).
  destruct (s_ts_om s) as [t|].
  - unfold g_seq at 1. rewrite g_value_ok; [|exact Hv|reflexivity].
    unfold g_alt. unfold g_seq at 1. cbn [app g_lit SPC]. change (SP =? 32) with true. cbv iota.
    rewrite (g_seq_ok g_om_ts _ _ _ _ (g_om_ts_ok t _ Ht Hex2) Hex1). reflexivity.
  - cbn [app]. unfold g_seq at 1. rewrite g_value_ok; [|exact Hv|exact Hex2].
    unfold g_alt. cbn [g_lit SPC] in Hex3. rewrite Hex3, Hex1. reflexivity.
Qed.

(* ---------- metadata lines ---------- *)
Lemma g_doc_escape d : g_doc true (escape d) = Some [].
Proof.
  induction d as [|c d IH]; [reflexivity|].
  unfold escape in *. cbn [flat_map]. unfold escape1 at 1, BS, LF, CH_n, DQ.
  destruct (N.eqb_spec c 92) as [->|H1]; [cbn; exact IH|].
  destruct (N.eqb_spec c 10) as [->|H2]; [cbn; exact IH|].
  destruct (N.eqb_spec c 34) as [->|H3]; [cbn; exact IH|].
  cbn [app g_doc]. destruct (N.eqb_spec c 10); [contradiction|]. destruct (N.eqb_spec c 92); [contradiction|].
  destruct (N.eqb_spec c 34); [contradiction|]. cbn [andb]. exact IH.
Qed.

Definition om_help_line (n doc : str) : str := S_HELP ++ escape_metric_name n ++ [SP] ++ escape_chain doc.
Definition om_type_line (n typ : str) : str := S_TYPE ++ escape_metric_name n ++ [SP] ++ typ.
Definition om_unit_line (n u : str) : str := S_UNIT ++ escape_metric_name n ++ [SP] ++ escape_chain u.

Lemma om_help_line_ok n doc : is_help_line true (om_help_line n doc) = true /\ nlf (om_help_line n doc) = 0%nat.
Proof.
  unfold om_help_line. split.
  - unfold is_help_line. change S_HELP with L_HELP.
    unfold g_seq at 1. rewrite g_lit_app. unfold g_seq at 1.
    rewrite g_metric_name_ok by reflexivity. unfold g_seq. cbn [app g_lit SPC]. change (SP =? 32) with true. cbv iota.
    rewrite escape_chain_eq, g_doc_escape. reflexivity.
  - rewrite !cnt_app, nlf_escape_metric_name, nlf_escape. reflexivity.
Qed.

Lemma om_unit_line_ok n u : is_unit_line (om_unit_line n u) = true /\ nlf (om_unit_line n u) = 0%nat.
Proof.
  unfold om_unit_line. split.
  - unfold is_unit_line. change S_UNIT with L_UNIT.
    unfold g_seq at 1. rewrite g_lit_app. unfold g_seq at 1.
    rewrite g_metric_name_ok by reflexivity. unfold g_seq. cbn [app g_lit SPC]. change (SP =? 32) with true. cbv iota.
    rewrite escape_chain_eq, g_doc_escape. reflexivity.
  - rewrite !cnt_app, nlf_escape_metric_name, nlf_escape. reflexivity.
Qed.

Lemma om_type_word_no_lf typ : mem_str typ type_words_om = true -> nlf typ = 0%nat.
Proof.
  intro H. apply mem_str_In in H. unfold type_words_om in H. cbn [In] in H.
  repeat (destruct H as [<-|H]; [reflexivity|]). destruct H.
Qed.

Lemma om_type_line_ok n typ : mem_str typ type_words_om = true ->
  is_type_line type_words_om (om_type_line n typ) = true /\ nlf (om_type_line n typ) = 0%nat.
Proof.
  intro Ht. unfold om_type_line. split.
  - unfold is_type_line. change S_TYPE with L_TYPE.
    unfold g_seq at 1. rewrite g_lit_app. unfold g_seq at 1.
    rewrite g_metric_name_ok by reflexivity. unfold g_seq. cbn [app g_lit SPC]. change (SP =? 32) with true. cbv iota.
    unfold g_word. rewrite Ht. reflexivity.
  - rewrite !cnt_app, nlf_escape_metric_name, (om_type_word_no_lf typ Ht). reflexivity.
Qed.

(* ---------- families and documents ---------- *)
Definition om_sample_ok (s : sample) : Prop := sample_clean_om s /\ om_sample_tokens_ok s.
Definition fam_grammar_ok_om (f : family) : Prop :=
  mem_str (f_type f) type_words_om = true /\ Forall om_sample_ok (f_samples f).

Definition om_good (l : str) : Prop := nlf l = 0%nat /\ om_line_ok l = true.

Lemma om_samples_lines ftype fname ss : forall out, Forall om_sample_ok ss ->
  res_concat_map (om_sample_line true ftype fname) ss = Ok out ->
  exists bodies, out = unlines bodies /\ length bodies = length ss /\
                 Forall (fun b => nlf b = 0%nat /\ is_sample_line_om b = true) bodies.
Proof.
  induction ss as [|s ss IH]; intros out Hs H.
  - cbn [res_concat_map] in H. apply Ok_inj in H. subst out. exists []. repeat split. constructor.
  - cbn [res_concat_map] in H. inversion Hs as [|? ? [Hc Ht] Hs']; subst.
    destruct (om_sample_line true ftype fname s) as [line|] eqn:El; [|discriminate]. cbn [bind] in H.
    destruct (res_concat_map (om_sample_line true ftype fname) ss) as [rest|] eqn:Er; [|discriminate]. cbn [bind] in H.
    apply Ok_inj in H. subst out.
    destruct (IH rest Hs' eq_refl) as (bodies & -> & Hlen & Hall).
    destruct (om_sample_line_in_grammar _ _ _ _ Ht El) as (body & Hb & Hg).
    exists (body :: bodies). split; [|split].
    + unfold unlines. cbn [flat_map]. rewrite Hb. reflexivity.
    + cbn [length]. rewrite Hlen. reflexivity.
    + constructor; [|exact Hall]. split; [|exact Hg].
      pose proof (nlf_om_sample_line _ _ _ _ Hc El) as Hn. rewrite Hb, cnt_app in Hn. cbn [cnt] in Hn.
      change (LF =? LF) with true in Hn. cbv iota in Hn. lia.
Qed.

(* the lines of one family: HELP, TYPE, UNIT when the family has a unit, then one line per sample *)
Theorem om_family_lines_ok f out : fam_grammar_ok_om f -> om_family true f = Ok out ->
  exists bodies, length bodies = length (f_samples f) /\
    Forall (fun b => nlf b = 0%nat /\ is_sample_line_om b = true) bodies /\
    out = unlines (om_help_line (f_name f) (f_doc f) :: om_type_line (f_name f) (f_type f)
                   :: (match f_unit f with [] => [] | u => [om_unit_line (f_name f) u] end) ++ bodies).
Proof.
  intros [Ht Hs] H. unfold om_family in H.
  destruct (res_concat_map (om_sample_line true (f_type f) (f_name f)) (f_samples f)) as [ss|] eqn:Es; [|discriminate].
  cbn [bind] in H. apply Ok_inj in H. subst out.
  destruct (om_samples_lines _ _ _ _ Hs Es) as (bodies & -> & Hlen & Hall).
  exists bodies. split; [exact Hlen|]. split; [exact Hall|].
  unfold unlines, om_help_line, om_type_line, om_unit_line. cbn [flat_map].
  destruct (f_unit f) as [|u0 ur]; repeat (cbn [app flat_map]; rewrite <- ?app_assoc); reflexivity.
Qed.

Lemma om_family_good f out : fam_grammar_ok_om f -> om_family true f = Ok out ->
  exists ls, out = unlines ls /\ Forall om_good ls.
Proof.
  intros Hf H. destruct (om_family_lines_ok f out Hf H) as (bodies & _ & Hall & ->). eexists. split; [reflexivity|].
  destruct Hf as [Ht _].
  destruct (om_help_line_ok (f_name f) (f_doc f)) as [H1 H2].
  destruct (om_type_line_ok (f_name f) (f_type f) Ht) as [H3 H4].
  constructor; [split; [exact H2|unfold om_line_ok; rewrite H1; reflexivity]|].
  constructor; [split; [exact H4|unfold om_line_ok; rewrite H3; rewrite orb_true_r; reflexivity]|].
  apply Forall_app. split.
  - destruct (f_unit f) as [|u0 ur]; [constructor|]. constructor; [|constructor].
    destruct (om_unit_line_ok (f_name f) (u0 :: ur)) as [H5 H6].
    split; [exact H6|unfold om_line_ok; rewrite H5; rewrite !orb_true_r; reflexivity].
  - eapply Forall_impl; [|exact Hall]. intros b [Hb1 Hb2]. split; [exact Hb1|].
    unfold om_line_ok. rewrite Hb2. rewrite !orb_true_r. reflexivity.
Qed.

Lemma om_families_good fams : forall out, Forall fam_grammar_ok_om fams ->
  res_concat_map (om_family true) fams = Ok out -> exists ls, out = unlines ls /\ Forall om_good ls.
Proof.
  induction fams as [|f fams IH]; intros out Hf H.
  - cbn [res_concat_map] in H. apply Ok_inj in H. subst out. exists []. split; [reflexivity|constructor].
  - cbn [res_concat_map] in H. inversion Hf as [|? ? Hf1 Hf2]; subst.
    destruct (om_family true f) as [a|] eqn:Ea; [|discriminate]. cbn [bind] in H.
    destruct (res_concat_map (om_family true) fams) as [b|] eqn:Eb; [|discriminate]. cbn [bind] in H.
    apply Ok_inj in H. subst out.
    destruct (om_family_good f a Hf1 Ea) as (l1 & -> & H1). destruct (IH b Hf2 eq_refl) as (l2 & -> & H2).
    exists (l1 ++ l2). split; [symmetry; apply unlines_app|apply Forall_app; split; assumption].
Qed.

(* the EOF line is none of the other kinds, so a document accepted by om_doc_ok holds exactly one *)
Lemma eof_is_no_other_line : om_line_ok L_EOF = false.
Proof. vm_compute. reflexivity. Qed.

Theorem om_render_doc_ok fams out : Forall fam_grammar_ok_om fams -> om_render true fams = Ok out ->
  om_doc_ok out = true /\
  exists ls, out = unlines (ls ++ [L_EOF]) /\ Forall om_good ls /\ ~ In L_EOF ls.
Proof.
  intros Hf H. unfold om_render in H.
  destruct (res_concat_map (om_family true) fams) as [body|] eqn:Eb; [|discriminate]. cbn [bind] in H.
  apply Ok_inj in H. subst out. destruct (om_families_good fams body Hf Eb) as (ls & -> & Hls).
  assert (E : unlines ls ++ S_EOF ++ [LF] = unlines (ls ++ [L_EOF])).
  { rewrite unlines_app. unfold unlines at 3. cbn [flat_map]. rewrite app_nil_r. reflexivity. }
  rewrite E. split.
  - unfold om_doc_ok. rewrite split_lines_unlines.
    + rewrite rev_app_distr. cbn [rev app]. rewrite rev_involutive.
      change (is_eof_line L_EOF) with true. cbn [andb].
      apply forallb_forall. intros l Hin. rewrite Forall_forall in Hls. apply (Hls l Hin).
    + apply Forall_app. split; [|repeat constructor].
      eapply Forall_impl; [|exact Hls]. intros l [Hl _]. exact Hl.
  - exists ls. split; [reflexivity|]. split; [exact Hls|].
    intro Hin. rewrite Forall_forall in Hls. destruct (Hls _ Hin) as [_ Hok]. rewrite eof_is_no_other_line in Hok. discriminate.
Qed.
