(* L1: escaping and unescaping are mutually inverse; the chained str.replace calls equal one pass. *)
From V Require Import lib.PyBase lib.Tac lib.PyStr model.Validation model.Expo model.TextParser.
Ltac Zify.zify_post_hook ::= Z.to_euclidean_division_equations.
Open Scope N_scope.

Lemma flat_map_flat_map {A B C} (f : A -> list B) (g : B -> list C) (l : list A) :
  flat_map g (flat_map f l) = flat_map (fun x => flat_map g (f x)) l.
Proof.
  induction l as [|x l IH]; simpl; auto. rewrite flat_map_app, IH. reflexivity.
Qed.

Lemma flat_map_ext_all {A B} (f g : A -> list B) (l : list A) :
  (forall x, f x = g x) -> flat_map f l = flat_map g l.
Proof. intro H. induction l as [|x l IH]; simpl; auto. rewrite H, IH. reflexivity. Qed.

Ltac case_char c v :=
  let E := fresh "E" in destruct (N.eqb_spec c v) as [E|E]; [subst c|].

Lemma escape_chain_eq s : escape_chain s = escape s.
Proof.
  unfold escape_chain, escape, replace_char. rewrite !flat_map_flat_map.
  apply flat_map_ext_all. intro c. unfold escape1, BS, LF, DQ, CH_n.
  case_char c 92; [reflexivity|].
  case_char c 10; [reflexivity|].
  case_char c 34; [reflexivity|].
  cbn [flat_map app].
  destruct (N.eqb_spec c 10); [contradiction|]. cbn [flat_map app].
  destruct (N.eqb_spec c 34); [contradiction|]. reflexivity.
Qed.

Lemma help_escape_chain_eq s : help_escape_chain s = help_escape s.
Proof.
  unfold help_escape_chain, help_escape, replace_char. rewrite !flat_map_flat_map.
  apply flat_map_ext_all. intro c. unfold help_escape1, BS, LF, CH_n.
  case_char c 92; [reflexivity|].
  case_char c 10; [reflexivity|].
  cbn [flat_map app].
  destruct (N.eqb_spec c 10); [contradiction|]. reflexivity.
Qed.

Lemma unescape_escape s : replace_escaping (escape s) = s.
Proof.
  induction s as [|c s IH]; [reflexivity|].
  unfold escape in *. cbn [flat_map]. unfold escape1 at 1, BS, LF, DQ, CH_n.
  case_char c 92; [cbn; rewrite IH; reflexivity|].
  case_char c 10; [cbn; rewrite IH; reflexivity|].
  case_char c 34; [cbn; rewrite IH; reflexivity|].
  cbn [app replace_escaping]. unfold BS.
  destruct (N.eqb_spec c 92); [contradiction|]. rewrite IH. reflexivity.
Qed.

Lemma help_unescape_escape s : replace_help_escaping (help_escape s) = s.
Proof.
  induction s as [|c s IH]; [reflexivity|].
  unfold help_escape in *. cbn [flat_map]. unfold help_escape1 at 1, BS, LF, CH_n.
  case_char c 92; [cbn; rewrite IH; reflexivity|].
  case_char c 10; [cbn; rewrite IH; reflexivity|].
  cbn [app replace_help_escaping]. unfold BS.
  destruct (N.eqb_spec c 92); [contradiction|]. rewrite IH. reflexivity.
Qed.

(* escaped text contains no raw LF and no unescaped DQ: every DQ is preceded by an odd backslash run *)
Lemma escape_no_lf s : ~ In LF (escape s).
Proof.
  induction s as [|c s IH]; [intros []|].
  unfold escape in *. cbn [flat_map]. intro H. apply in_app_or in H as [H|H]; [|auto].
  unfold escape1, BS, LF, DQ, CH_n in H.
  case_char c 92; [destruct H as [H|[H|[]]]; discriminate|].
  case_char c 10; [destruct H as [H|[H|[]]]; discriminate|].
  case_char c 34; [destruct H as [H|[H|[]]]; discriminate|].
  destruct H as [H|[]]. congruence.
Qed.

Lemma help_escape_no_lf s : ~ In LF (help_escape s).
Proof.
  induction s as [|c s IH]; [intros []|].
  unfold help_escape in *. cbn [flat_map]. intro H. apply in_app_or in H as [H|H]; [|auto].
  unfold help_escape1, BS, LF, CH_n in H.
  case_char c 92; [destruct H as [H|[H|[]]]; discriminate|].
  case_char c 10; [destruct H as [H|[H|[]]]; discriminate|].
  destruct H as [H|[]]. congruence.
Qed.
