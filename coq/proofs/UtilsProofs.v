(* C13: floatToGoString rewrites repr(d) without changing the number it denotes. *)
From V Require Import lib.PyBase lib.Tac model.Utils model.Decimal proofs.DecimalFacts.
Ltac Zify.zify_post_hook ::= Z.to_euclidean_division_equations.
Open Scope N_scope.

(* ---- rstrip_set ---- *)
Lemma lstrip_set_all cs a b :
  (forall x, In x a -> mem_char x cs = true) -> lstrip_set cs (a ++ b) = lstrip_set cs b.
Proof.
  induction a as [|x a IH]; intro H; simpl; auto.
  rewrite (H x (or_introl eq_refl)). apply IH. intros y Hy. apply H. right; auto.
Qed.

Lemma rstrip_set_all cs a b :
  (forall x, In x b -> mem_char x cs = true) -> rstrip_set cs (a ++ b) = rstrip_set cs a.
Proof.
  intro H. unfold rstrip_set. rewrite rev_app_distr.
  rewrite lstrip_set_all; auto. intros x Hx. apply H. apply in_rev; auto.
Qed.

Lemma rstrip_set_stop cs a x :
  mem_char x cs = false -> rstrip_set cs (a ++ [x]) = a ++ [x].
Proof.
  intro H. unfold rstrip_set. rewrite rev_app_distr. simpl. rewrite H.
  simpl. rewrite rev_involutive. reflexivity.
Qed.

(* every digit string is r' ++ zeros with r' not ending in '0' *)
Lemma strip_zeros_exists (r : str) :
  exists r' k, r = r' ++ repeat ZERO k /\ (r' = [] \/ exists p c, r' = p ++ [c] /\ c <> ZERO).
Proof.
  induction r as [|c r IH] using rev_ind.
  - exists [], 0%nat. split; auto.
  - destruct (N.eq_dec c ZERO) as [->|Hc].
    + destruct IH as (r' & k & Hr & Hlast).
      exists r', (S k). split; auto.
      rewrite Hr, <- app_assoc. f_equal.
      change [ZERO] with (repeat ZERO 1). rewrite <- repeat_app.
      f_equal. lia.
    + exists (r ++ [c]), 0%nat. split; [simpl; rewrite app_nil_r; auto|].
      right. exists r, c. auto.
Qed.

Lemma find_char_from_digits c i f n :
  all_digits i = true -> is_digit c = false ->
  find_char_from c (i ++ c :: f) n = (n + Z.of_nat (length i))%Z.
Proof.
  revert n; induction i as [|x i IH]; intros n Hd Hc.
  - simpl. rewrite N.eqb_refl. lia.
  - cbn [all_digits] in Hd. apply andb_true_iff in Hd as [Hx Hi].
    cbn [app find_char_from].
    destruct (N.eqb_spec x c) as [->|Hne]; [congruence|].
    rewrite IH; auto. cbn [length]. lia.
Qed.

Lemma split_at_no c s : ~ In c s -> split_at c s = (s, None).
Proof.
  induction s as [|x s IH]; intro H; simpl; auto.
  destruct (N.eqb_spec x c) as [->|Hne]; [exfalso; apply H; left; auto|].
  rewrite IH; auto. intro Hin; apply H; right; auto.
Qed.

Lemma split_at_first c a b : ~ In c a -> split_at c (a ++ c :: b) = (a, Some b).
Proof.
  induction a as [|x a IH]; intro H; simpl.
  - rewrite N.eqb_refl. reflexivity.
  - destruct (N.eqb_spec x c) as [->|Hne]; [exfalso; apply H; left; auto|].
    rewrite IH; auto. intro Hin; apply H; right; auto.
Qed.

Lemma all_digits_not_in c s : all_digits s = true -> is_digit c = false -> ~ In c s.
Proof.
  induction s as [|x s IH]; intros Hd Hc Hin; [inversion Hin|].
  cbn [all_digits] in Hd. apply andb_true_iff in Hd as [Hx Hs].
  destruct Hin as [->|Hin]; [congruence|]. apply IH; auto.
Qed.

(* ---- the shape of repr(d) for 1e6 <= d < 1e16 and beyond: i0 ir . f ---- *)
Record fixed_repr (i0 : char) (ir f : str) : Prop := {
  fr_i0 : 49 <= i0 <= 57;
  fr_ir : all_digits ir = true;
  fr_f : all_digits f = true;
  fr_fne : f <> [];
  fr_long : (6 <= length ir)%nat
}.

Definition mant_of (i0 : char) (r' : str) : str :=
  match r' with [] => [i0] | _ => i0 :: DOT :: r' end.

Lemma go_finite_fixed exp_text i0 ir f r' k :
  fixed_repr i0 ir f -> ir ++ f = r' ++ repeat ZERO k ->
  (r' = [] \/ exists p c, r' = p ++ [c] /\ c <> ZERO) ->
  go_finite_with exp_text true (i0 :: ir ++ DOT :: f)
  = mant_of i0 r' ++ exp_text (N.of_nat (length ir)).
Proof.
  intros [Hi0 Hir Hf Hfne Hlong] Hsplit Hlast.
  unfold go_finite_with.
  assert (Hdot : find_char DOT (i0 :: ir ++ DOT :: f) = Z.of_nat (S (length ir))).
  { unfold find_char. change (i0 :: ir ++ DOT :: f) with ((i0 :: ir) ++ DOT :: f).
    rewrite find_char_from_digits; auto.
    cbn [all_digits]. rewrite Hir, andb_true_r. apply is_digit_spec. lia. }
  rewrite Hdot.
  replace (true && (6 <? Z.of_nat (S (length ir)))%Z) with true by lia.
  rewrite Nat2Z.id.
  replace (Z.to_N (Z.of_nat (S (length ir)) - 1)) with (N.of_nat (length ir)) by lia.
  f_equal.
  rewrite !firstn_cons, !skipn_cons. rewrite skipn_O.
  rewrite firstn_O, firstn_app, firstn_all, Nat.sub_diag. cbn [firstn]. rewrite app_nil_r.
  replace (skipn (S (length ir)) (ir ++ DOT :: f)) with f.
  2:{ rewrite skipn_app. rewrite skipn_all2 by lia.
      replace (S (length ir) - length ir)%nat with 1%nat by lia. reflexivity. }
  cbn [app].
  rewrite Hsplit.
  assert (Hz : forall x, In x (repeat ZERO k) -> mem_char x [ZERO; DOT] = true).
  { intros x Hx. apply repeat_spec in Hx. subst. reflexivity. }
  change (i0 :: DOT :: r' ++ repeat ZERO k) with ((i0 :: DOT :: r') ++ repeat ZERO k).
  rewrite rstrip_set_all by exact Hz.
  destruct Hlast as [->|(p & c & -> & Hc)].
  - cbn [mant_of].
    change [i0; DOT] with ([i0] ++ [DOT]).
    rewrite rstrip_set_all by (intros x [<-|[]]; reflexivity).
    change [i0] with ([] ++ [i0]). apply rstrip_set_stop.
    unfold mem_char, ZERO, DOT.
    destruct (N.eqb_spec i0 48); [lia|]. destruct (N.eqb_spec i0 46); [lia|]. reflexivity.
  - assert (Hcd : is_digit c = true).
    { assert (Hall : all_digits (ir ++ f) = true) by (rewrite all_digits_app, Hir, Hf; reflexivity).
      rewrite Hsplit, !all_digits_app in Hall. cbn [all_digits] in Hall.
      apply andb_true_iff in Hall as [Hall _]. apply andb_true_iff in Hall as [_ Hall].
      apply andb_true_iff in Hall as [Hall _]. exact Hall. }
    unfold mant_of. destruct (p ++ [c]) eqn:E; [destruct p; discriminate|]. rewrite <- E.
    change (i0 :: DOT :: p ++ [c]) with ((i0 :: DOT :: p) ++ [c]).
    apply rstrip_set_stop.
    apply is_digit_spec in Hcd. unfold mem_char, ZERO, DOT in *.
    destruct (N.eqb_spec c 48); [congruence|]. destruct (N.eqb_spec c 46); [lia|]. reflexivity.
Qed.

(* denote of the original repr *)
Lemma denote_fixed i0 ir f :
  fixed_repr i0 ir f ->
  denote (i0 :: ir ++ DOT :: f) = Some (digits_val 0 (i0 :: ir ++ f), (- Z.of_nat (length f))%Z).
Proof.
  intros [Hi0 Hir Hf Hfne Hlong]. unfold denote.
  assert (Hi : all_digits (i0 :: ir) = true).
  { cbn [all_digits]. rewrite Hir, andb_true_r. apply is_digit_spec. lia. }
  assert (Hall : all_digits ((i0 :: ir) ++ DOT :: f) = false \/ True) by auto.
  assert (Hne : ~ In CH_e (i0 :: ir ++ DOT :: f)).
  { change (i0 :: ir ++ DOT :: f) with ((i0 :: ir) ++ DOT :: f).
    intro Hin. apply in_app_or in Hin as [Hin|[Hin|Hin]].
    - revert Hin. apply all_digits_not_in; auto.
    - discriminate.
    - revert Hin. apply all_digits_not_in; auto. }
  rewrite split_at_no by exact Hne.
  change (i0 :: ir ++ DOT :: f) with ((i0 :: ir) ++ DOT :: f).
  rewrite split_at_first by (apply all_digits_not_in; auto).
  rewrite Hi, Hf. destruct f as [|f0 f']; [congruence|].
  cbn [nonempty andb denote_exp]. rewrite <- app_comm_cons. f_equal.
Qed.

(* what an exponent rendering must satisfy for the theorem: digits only, denoting e *)
Definition exp_text_ok (exp_text : N -> str) : Prop :=
  forall e, exists ds, exp_text e = CH_e :: PLUS :: ds /\ ds <> [] /\ all_digits ds = true
                       /\ digits_val 0 ds = e.

Lemma exp_text_orig_ok : exp_text_ok exp_text_orig.
Proof.
  intro e. destruct (dec_of_N_spec e) as (H1 & H2 & H3).
  exists (ZERO :: dec_of_N e). repeat split; [discriminate| |].
  - cbn [all_digits]. rewrite H2. reflexivity.
  - cbn [digits_val]. exact H1.
Qed.

Lemma exp_text_2d_ok : exp_text_ok exp_text_2d.
Proof.
  intro e. destruct (dec_of_N_spec e) as (H1 & H2 & H3). unfold exp_text_2d.
  destruct (e <? 10).
  - exists (ZERO :: dec_of_N e). repeat split; [discriminate| |].
    + cbn [all_digits]. rewrite H2. reflexivity.
    + cbn [digits_val]. exact H1.
  - exists (dec_of_N e). repeat split; auto.
Qed.

Lemma denote_mant_exp i0 r' ds :
  49 <= i0 <= 57 -> all_digits r' = true -> ds <> [] -> all_digits ds = true ->
  denote (mant_of i0 r' ++ CH_e :: PLUS :: ds)
  = Some (digits_val 0 (i0 :: r'), (Z.of_N (digits_val 0 ds) - Z.of_nat (length r'))%Z).
Proof.
  intros Hi0 Hr Hne Hds. unfold denote.
  assert (Hi0d : is_digit i0 = true) by (apply is_digit_spec; lia).
  assert (Hm : ~ In CH_e (mant_of i0 r')).
  { unfold mant_of. destruct r' as [|x r]; intro Hin.
    - destruct Hin as [Hin|[]]. unfold CH_e in Hin. lia.
    - destruct Hin as [Hin|[Hin|Hin]]; [unfold CH_e in Hin; lia|discriminate|].
      revert Hin. apply all_digits_not_in; auto. }
  rewrite split_at_first by exact Hm.
  unfold mant_of. destruct r' as [|x r].
  - rewrite split_at_no by (intros [Hin|[]]; unfold DOT in Hin; lia).
    cbn [all_digits nonempty andb]. rewrite Hi0d. cbn [andb denote_exp].
    destruct ds as [|d0 ds']; [congruence|]. cbn [nonempty andb]. rewrite Hds.
    rewrite N.eqb_refl. cbn [app length]. reflexivity.
  - change (i0 :: DOT :: x :: r) with ([i0] ++ DOT :: x :: r).
    rewrite split_at_first by (intros [Hin|[]]; unfold DOT in Hin; lia).
    cbn [all_digits nonempty andb]. rewrite Hi0d. cbn [andb].
    cbn [all_digits] in Hr. rewrite Hr. cbn [andb denote_exp].
    destruct ds as [|d0 ds']; [congruence|]. cbn [nonempty andb]. rewrite Hds.
    rewrite N.eqb_refl. reflexivity.
Qed.

(* ---- C13: value preservation ---- *)
Theorem go_finite_value_preserved exp_text i0 ir f :
  exp_text_ok exp_text -> fixed_repr i0 ir f ->
  exists v v', denote (i0 :: ir ++ DOT :: f) = Some v
    /\ denote (go_finite_with exp_text true (i0 :: ir ++ DOT :: f)) = Some v'
    /\ same_value v v'.
Proof.
  intros Hexp Hfr.
  destruct (strip_zeros_exists (ir ++ f)) as (r' & k & Hsplit & Hlast).
  rewrite (go_finite_fixed exp_text i0 ir f r' k Hfr Hsplit Hlast).
  destruct (Hexp (N.of_nat (length ir))) as (ds & -> & Hne & Hds & Hval).
  pose proof Hfr as [Hi0 Hir Hf Hfne Hlong].
  assert (Hall : all_digits (r' ++ repeat ZERO k) = true)
    by (rewrite <- Hsplit, all_digits_app, Hir, Hf; reflexivity).
  rewrite all_digits_app in Hall. apply andb_true_iff in Hall as [Hr' _].
  eexists _, _. split; [apply denote_fixed; exact Hfr|].
  split; [apply denote_mant_exp; auto|].
  unfold same_value. rewrite Hval.
  assert (Hlen : (length ir + length f = length r' + k)%nat).
  { rewrite <- !app_length, Hsplit, app_length, repeat_length. reflexivity. }
  rewrite Z.min_l by lia.
  replace (- Z.of_nat (length f) - - Z.of_nat (length f))%Z with 0%Z by lia.
  replace (Z.of_N (N.of_nat (length ir)) - Z.of_nat (length r') - - Z.of_nat (length f))%Z
    with (Z.of_nat k) by lia.
  rewrite Z.pow_0_r, Z.mul_1_r.
  cbn [digits_val]. rewrite Hsplit, digits_val_app, digits_val_zeros.
  rewrite N2Z.inj_mul, N2Z.inj_pow. rewrite nat_N_Z. reflexivity.
Qed.

(* ---- C13: canonical shape of the rewritten text ---- *)
(* [1-9](\.[0-9]*[1-9])?e\+XX  with XX the exponent in at least two digits and no needless third *)
Definition two_digit_min (e : N) (ds : str) : Prop :=
  digits_val 0 ds = e /\ all_digits ds = true /\
  (if e <? 10 then length ds = 2%nat else (2 <= length ds)%nat /\ hd ZERO ds <> ZERO).

Lemma dec_digits_fuel_head fuel : forall n acc, n <> 0 -> n < 2 ^ N.of_nat fuel ->
  hd ZERO (dec_digits_fuel fuel n acc) <> ZERO.
Proof.
  induction fuel as [|fuel IH]; intros n acc Hn Hlt.
  - simpl in Hlt. lia.
  - cbn [dec_digits_fuel].
    destruct (N.eqb_spec (n / 10) 0) as [Hq|Hq].
    + cbn [hd]. unfold ZERO. lia.
    + apply IH; auto.
      rewrite Nat2N.inj_succ, N.pow_succ_r' in Hlt.
      apply N.div_lt_upper_bound; lia.
Qed.

Lemma dec_of_N_head n : n <> 0 -> hd ZERO (dec_of_N n) <> ZERO.
Proof.
  intro Hn. unfold dec_of_N. apply dec_digits_fuel_head; auto.
  rewrite Nat2N.inj_succ, N2Nat.id. apply N.log2_spec. lia.
Qed.

Lemma dec_of_N_length_small n : n < 10 -> length (dec_of_N n) = 1%nat.
Proof.
  intro H. unfold dec_of_N. destruct (S (N.to_nat (N.log2 n))) eqn:E; [lia|].
  cbn [dec_digits_fuel]. replace (n / 10) with 0 by lia. reflexivity.
Qed.

Lemma dec_of_N_length_big n : 10 <= n -> (2 <= length (dec_of_N n))%nat.
Proof.
  intro H. destruct (dec_of_N_spec n) as (H1 & H2 & H3).
  destruct (dec_of_N n) as [|a [|b r]] eqn:E; [congruence| |simpl; lia].
  exfalso. cbn [digits_val all_digits] in *. rewrite andb_true_r in H2.
  apply is_digit_spec in H2. lia.
Qed.

Theorem exp_text_2d_canonical e :
  exists ds, exp_text_2d e = CH_e :: PLUS :: ds /\ two_digit_min e ds.
Proof.
  unfold exp_text_2d, two_digit_min. destruct (dec_of_N_spec e) as (H1 & H2 & H3).
  destruct (N.ltb_spec e 10) as [Hlt|Hge].
  - exists (ZERO :: dec_of_N e). split; [reflexivity|]. repeat split.
    + cbn [digits_val]. exact H1.
    + cbn [all_digits]. rewrite H2. reflexivity.
    + cbn [length]. rewrite dec_of_N_length_small; auto.
  - exists (dec_of_N e). split; [reflexivity|]. repeat split; auto.
    + apply dec_of_N_length_big; auto.
    + apply dec_of_N_head. lia.
Qed.

(* the pinned source wrote  e+0<exp>: three digits from 1e10 on *)
Theorem exp_text_orig_not_canonical :
  exists e ds, exp_text_orig e = CH_e :: PLUS :: ds /\ ~ two_digit_min e ds.
Proof.
  exists 10, (s2l "010"). split; [vm_compute; reflexivity|].
  unfold two_digit_min. intros (_ & _ & H). vm_compute in H. destruct H as [_ H]. congruence.
Qed.

Theorem go_finite_canonical i0 ir f :
  fixed_repr i0 ir f ->
  exists r' ds, go_finite_with exp_text_2d true (i0 :: ir ++ DOT :: f)
                = mant_of i0 r' ++ CH_e :: PLUS :: ds
    /\ 49 <= i0 <= 57 /\ all_digits r' = true
    /\ (r' = [] \/ exists p c, r' = p ++ [c] /\ c <> ZERO)
    /\ two_digit_min (N.of_nat (length ir)) ds.
Proof.
  intros Hfr.
  destruct (strip_zeros_exists (ir ++ f)) as (r' & k & Hsplit & Hlast).
  rewrite (go_finite_fixed exp_text_2d i0 ir f r' k Hfr Hsplit Hlast).
  destruct (exp_text_2d_canonical (N.of_nat (length ir))) as (ds & -> & Hds).
  pose proof Hfr as [Hi0 Hir Hf Hfne Hlong].
  assert (Hall : all_digits (r' ++ repeat ZERO k) = true)
    by (rewrite <- Hsplit, all_digits_app, Hir, Hf; reflexivity).
  rewrite all_digits_app in Hall. apply andb_true_iff in Hall as [Hr' _].
  exists r', ds. auto.
Qed.

(* ---- untouched cases ---- *)
Lemma go_finite_identity exp_text p s :
  p = false \/ (find_char DOT s <= 6)%Z -> go_finite_with exp_text p s = s.
Proof.
  intros [->|H]; unfold go_finite_with; [reflexivity|].
  replace (6 <? find_char DOT s)%Z with false by lia. rewrite andb_false_r. reflexivity.
Qed.

(* ---- same_value is an equivalence; injectivity of the rendering ---- *)
Lemma same_value_scaled m1 e1 m2 e2 e :
  (e <= Z.min e1 e2)%Z ->
  same_value (m1, e1) (m2, e2) <->
  (Z.of_N m1 * 10 ^ (e1 - e) = Z.of_N m2 * 10 ^ (e2 - e))%Z.
Proof.
  intro He. unfold same_value.
  set (mn := Z.min e1 e2) in *.
  assert (Hp : (0 < 10 ^ (mn - e))%Z) by (apply Z.pow_pos_nonneg; lia).
  replace (e1 - e)%Z with ((e1 - mn) + (mn - e))%Z by lia.
  replace (e2 - e)%Z with ((e2 - mn) + (mn - e))%Z by lia.
  rewrite !Z.pow_add_r by lia. rewrite !Z.mul_assoc.
  split; intro H.
  - rewrite H. reflexivity.
  - apply Z.mul_cancel_r in H; [exact H|lia].
Qed.

Lemma same_value_refl a : same_value a a.
Proof. destruct a as [m e]. unfold same_value. reflexivity. Qed.

Lemma same_value_sym a b : same_value a b -> same_value b a.
Proof.
  destruct a as [m1 e1], b as [m2 e2]. unfold same_value.
  rewrite (Z.min_comm e2 e1). intro H. symmetry. exact H.
Qed.

Lemma same_value_trans a b c : same_value a b -> same_value b c -> same_value a c.
Proof.
  destruct a as [m1 e1], b as [m2 e2], c as [m3 e3]. intros H12 H23.
  set (e := Z.min e1 (Z.min e2 e3)).
  apply (same_value_scaled m1 e1 m2 e2 e) in H12; [|lia].
  apply (same_value_scaled m2 e2 m3 e3 e) in H23; [|lia].
  apply (same_value_scaled m1 e1 m3 e3 e); [lia|]. congruence.
Qed.

(* a finite class is well-formed when repr(d) denotes a number and, whenever the rewriting
   branch is taken, has the fixed shape CPython's repr guarantees for 1e6 <= d < 1e16 *)
Definition wf_fin (p : bool) (s : str) : Prop :=
  (exists v, denote_signed s = Some v) /\
  (p = true -> (6 < find_char DOT s)%Z ->
     exists i0 ir f, s = i0 :: ir ++ DOT :: f /\ fixed_repr i0 ir f).

Lemma denote_signed_digit_head c r :
  is_digit c = true -> denote_signed (c :: r) = option_map (fun v => (false, v)) (denote (c :: r)).
Proof.
  intro H. unfold denote_signed. apply is_digit_spec in H.
  destruct (N.eqb_spec c MINUS) as [E|_]; [unfold MINUS in E; lia|reflexivity].
Qed.

Theorem go_finite_denote exp_text p s :
  exp_text_ok exp_text -> wf_fin p s ->
  exists v v', denote_signed s = Some v
     /\ denote_signed (go_finite_with exp_text p s) = Some v' /\ same_signed v v'.
Proof.
  intros Hexp [[v Hv] Hshape].
  destruct p; [destruct (Z.ltb_spec 6 (find_char DOT s)) as [Hlt|Hge]|].
  - destruct (Hshape eq_refl Hlt) as (i0 & ir & f & -> & Hfr).
    destruct (go_finite_value_preserved exp_text i0 ir f Hexp Hfr) as (w & w' & Hw & Hw' & Hsv).
    assert (Hd0 : is_digit i0 = true) by (apply is_digit_spec; destruct Hfr; lia).
    rewrite denote_signed_digit_head, Hw by exact Hd0.
    destruct (strip_zeros_exists (ir ++ f)) as (r' & k & Hsplit & Hlast).
    rewrite (go_finite_fixed exp_text i0 ir f r' k Hfr Hsplit Hlast) in Hw' |- *.
    assert (Hhd : exists t, mant_of i0 r' ++ exp_text (N.of_nat (length ir)) = i0 :: t).
    { unfold mant_of. destruct r'; eexists; reflexivity. }
    destruct Hhd as [t Ht]. rewrite Ht in Hw' |- *.
    rewrite denote_signed_digit_head, Hw' by exact Hd0.
    exists (false, w), (false, w'). repeat split; auto.
  - rewrite go_finite_identity by (right; lia).
    exists v, v. repeat split; auto. apply same_value_refl.
  - rewrite go_finite_identity by (left; reflexivity).
    exists v, v. repeat split; auto. apply same_value_refl.
Qed.

Lemma same_signed_sym a b : same_signed a b -> same_signed b a.
Proof.
  destruct a as [s1 [m1 e1]], b as [s2 [m2 e2]]. unfold same_signed. cbn [fst snd].
  intros [Hv Hs]. split; [apply same_value_sym; exact Hv|].
  destruct Hs as [Hs|Hs]; [left; congruence|]. subst m1.
  right. unfold same_value in Hv.
  assert (Hp : (0 < 10 ^ (e2 - Z.min e1 e2))%Z) by (apply Z.pow_pos_nonneg; lia).
  simpl in Hv. symmetry in Hv. apply Z.mul_eq_0 in Hv. lia.
Qed.

Lemma same_signed_trans a b c : same_signed a b -> same_signed b c -> same_signed a c.
Proof.
  destruct a as [s1 [m1 e1]], b as [s2 [m2 e2]], c as [s3 [m3 e3]].
  unfold same_signed. cbn [fst snd]. intros [Hv1 Hs1] [Hv2 Hs2].
  split; [eapply same_value_trans; eauto|].
  destruct Hs1 as [Hs1|Hs1]; [subst s2|right; exact Hs1].
  destruct Hs2 as [Hs2|Hs2]; [left; exact Hs2|]. subst m2.
  right. unfold same_value in Hv1.
  assert (Hp : (0 < 10 ^ (e1 - Z.min e1 e2))%Z) by (apply Z.pow_pos_nonneg; lia).
  simpl in Hv1. apply Z.mul_eq_0 in Hv1. lia.
Qed.

Theorem go_finite_injective exp_text p1 s1 p2 s2 :
  exp_text_ok exp_text -> wf_fin p1 s1 -> wf_fin p2 s2 ->
  go_finite_with exp_text p1 s1 = go_finite_with exp_text p2 s2 ->
  exists v1 v2, denote_signed s1 = Some v1 /\ denote_signed s2 = Some v2 /\ same_signed v1 v2.
Proof.
  intros Hexp H1 H2 Heq.
  destruct (go_finite_denote exp_text p1 s1 Hexp H1) as (v1 & w1 & Hv1 & Hw1 & Hs1).
  destruct (go_finite_denote exp_text p2 s2 Hexp H2) as (v2 & w2 & Hv2 & Hw2 & Hs2).
  rewrite Heq in Hw1. rewrite Hw1 in Hw2. inversion Hw2; subst w2.
  exists v1, v2. split; [exact Hv1|]. split; [exact Hv2|].
  eapply same_signed_trans; [exact Hs1|]. apply same_signed_sym. exact Hs2.
Qed.

(* specials never collide with a finite rendering *)
Lemma denote_signed_specials :
  denote_signed S_pinf = None /\ denote_signed S_ninf = None /\ denote_signed S_nan = None.
Proof. vm_compute. auto. Qed.
