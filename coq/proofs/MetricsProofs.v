(* Proofs for C01: the metrics model refines the history specification. *)
From V Require Import lib.PyBase lib.Tac model.Metrics model.MetricsSpec.
From Coq Require Import Permutation.
Ltac Zify.zify_post_hook ::= Z.to_euclidean_division_equations.
Open Scope N_scope.

(* ---------- keys ---------- *)
Lemma key_eqb_eq a b : key_eqb a b = true <-> a = b.
Proof.
  revert b; induction a as [|x a IH]; intros [|y b]; simpl; split; intro H;
    try reflexivity; try discriminate.
  - apply andb_true_iff in H as [H1 H2]. apply str_eqb_eq in H1. apply IH in H2. congruence.
  - inversion H; subst. rewrite str_eqb_refl. simpl. apply IH. reflexivity.
Qed.

Lemma key_eqb_refl a : key_eqb a a = true.
Proof. apply key_eqb_eq; reflexivity. Qed.

Lemma key_eqb_neq a b : key_eqb a b = false <-> a <> b.
Proof.
  split; intro H.
  - intro E. apply key_eqb_eq in E. congruence.
  - destruct (key_eqb a b) eqn:E; [apply key_eqb_eq in E; contradiction | reflexivity].
Qed.

(* ---------- association lists under a map on the values ---------- *)
Section MapV.
  Context {C D : Type} (g : C -> D).

  Lemma d_find_mapv l k : d_find key_eqb (mapv g l) k = option_map g (d_find key_eqb l k).
  Proof.
    induction l as [|[k' v] l IH]; simpl; [reflexivity|].
    destruct (key_eqb k k'); [reflexivity|apply IH].
  Qed.

  Lemma d_set_mapv l k v : d_set key_eqb (mapv g l) k (g v) = mapv g (d_set key_eqb l k v).
  Proof.
    induction l as [|[k' v'] l IH]; simpl; [reflexivity|].
    destruct (key_eqb k k'); simpl; [reflexivity|]. rewrite IH. reflexivity.
  Qed.

  Lemma d_remove_mapv l k : d_remove key_eqb (mapv g l) k = mapv g (d_remove key_eqb l k).
  Proof.
    induction l as [|[k' v'] l IH]; simpl; [reflexivity|].
    destruct (key_eqb k k'); simpl; [reflexivity|]. rewrite IH. reflexivity.
  Qed.

  Lemma ensure_mapv i l k : ensure (g i) (mapv g l) k = mapv g (ensure i l k).
  Proof.
    unfold ensure. rewrite d_find_mapv. destruct (d_find key_eqb l k); simpl; [reflexivity|].
    unfold mapv. rewrite map_app. reflexivity.
  Qed.

  Lemma child_at_mapv i l k : child_at (g i) (mapv g l) k = g (child_at i l k).
  Proof. unfold child_at. rewrite d_find_mapv. destruct (d_find key_eqb l k); reflexivity. Qed.
End MapV.

Lemma nth_error_map' {A B} (f : A -> B) l i : nth_error (map f l) i = option_map f (nth_error l i).
Proof. revert i; induction l as [|x l IH]; intros [|i]; simpl; auto. Qed.

Lemma set_nth_map {A B} (f : A -> B) l i x : set_nth (map f l) i (f x) = map f (set_nth l i x).
Proof. revert i; induction l as [|y l IH]; intros [|i]; simpl; auto. rewrite IH. reflexivity. Qed.

Lemma d_set_same {V} (l : list (key * V)) k v : d_find key_eqb l k = Some v -> d_set key_eqb l k v = l.
Proof.
  induction l as [|[k' v'] l IH]; simpl; [discriminate|].
  destruct (key_eqb k k'); intro H; [inversion H; reflexivity|]. rewrite IH; auto.
Qed.

Lemma set_nth_same {A} (l : list A) i x : nth_error l i = Some x -> set_nth l i x = l.
Proof. revert i; induction l as [|y l IH]; intros [|i]; simpl; intro H; try discriminate.
  - inversion H; reflexivity.
  - rewrite IH; auto.
Qed.

Lemma d_find_ensure {V} (i : V) l k : d_find key_eqb (ensure i l k) k = Some (child_at i l k).
Proof.
  unfold ensure, child_at. destruct (d_find key_eqb l k) eqn:E; [exact E|].
  induction l as [|[k' v'] l IH]; simpl in *.
  - rewrite key_eqb_refl. reflexivity.
  - destruct (key_eqb k k'); [discriminate|]. apply IH. exact E.
Qed.

Lemma child_at_ensure {V} (i : V) l k : child_at i (ensure i l k) k = child_at i l k.
Proof. unfold child_at at 1. rewrite d_find_ensure. reflexivity. Qed.

Section Refine.
  Variable F : Type.
  Variables fzero fone finf : F.
  Variable fadd : F -> F -> F.
  Variable fneg : F -> F.
  Variables flt fle feqb : F -> F -> bool.
  Variable of_Z : Z -> res F.
  Variable zlef : Z -> F -> bool.

  Notation APPLY := (apply_mop fzero fadd fneg flt fle of_Z zlef).
  Notation STEPG := (mstep_gen fzero fadd fneg flt fle of_Z zlef).
  Notation STEP := (mstep fzero fadd fneg flt fle of_Z zlef).
  Notation RUN := (mrun fzero fadd fneg flt fle of_Z zlef).
  Notation COLLECT := (mcollect fzero fone fle).
  Notation INTERP := (interp fzero fadd fneg fle of_Z zlef).
  Notation IFAM := (interp_family fzero fadd fneg fle of_Z zlef).
  Notation IREG := (interp_reg fzero fadd fneg fle of_Z zlef).
  Notation VERDICT := (verdict fzero fneg flt of_Z).
  Notation ACCEPTED := (accepted fzero fneg flt of_Z).
  Notation SSTEP := (spec_step fzero fneg flt of_Z).
  Notation SRUN := (spec_run fzero fneg flt of_Z).
  Notation SOUT := (spec_outcome fzero fneg flt of_Z).
  Notation SCOLLECT := (spec_collect fzero fone fadd fneg fle of_Z zlef).
  Notation SCHILD := (spec_child_samples fzero fone fadd fneg fle of_Z zlef).
  Notation CHILD := (child_samples fzero fone fle).
  Notation FSUM := (fsum fzero fadd of_Z).
  Notation AVAL := (aval fzero of_Z).
  Notation ALE := (ale fle zlef).
  Notation TOF := (to_F of_Z).

  (* ---------- readouts of a history extended by one call ---------- *)
  Lemma fsum_snoc l a : FSUM (l ++ [a]) = fadd (FSUM l) (AVAL a).
  Proof. unfold fsum. rewrite fold_left_app. reflexivity. Qed.

  Lemma aval_ok a x : TOF a = Ok x -> AVAL a = x.
  Proof. unfold aval. intros ->. reflexivity. Qed.

  Lemma ctr_amounts_snoc (h : hist F) m :
    ctr_amounts (h ++ [m]) = match m with Reset => [] | Inc a => ctr_amounts h ++ [a] | _ => ctr_amounts h end.
  Proof. unfold ctr_amounts. rewrite fold_left_app. reflexivity. Qed.

  Lemma observations_snoc (h : hist F) m :
    observations (h ++ [m]) = observations h ++ match m with Observe a => [a] | _ => [] end.
  Proof. unfold observations. rewrite flat_map_app. simpl. rewrite app_nil_r. reflexivity. Qed.

  Lemma hist_cells_snoc bounds obs a :
    hist_cells fle zlef bounds (obs ++ [a]) = bump fle zlef bounds (hist_cells fle zlef bounds obs) a.
  Proof. unfold hist_cells. rewrite fold_left_app. reflexivity. Qed.

  Lemma strip_info_some kv : existsb (fun p : str * option str => match snd p with None => true | Some _ => false end) kv = false
    -> exists kv', strip_info kv = Some kv'.
  Proof.
    induction kv as [|[k [v|]] kv IH]; simpl; intro H.
    - eexists; reflexivity.
    - destruct (IH H) as [kv' ->]. eexists; reflexivity.
    - discriminate.
  Qed.

  Lemma strip_info_none kv : existsb (fun p : str * option str => match snd p with None => true | Some _ => false end) kv = true
    -> strip_info kv = None.
  Proof.
    induction kv as [|[k [v|]] kv IH]; simpl; intro H; [discriminate| |reflexivity].
    rewrite (IH H). reflexivity.
  Qed.

  Lemma index_of_mem s l : mem_str s l = true <-> exists i, index_of s l = Some i.
  Proof.
    induction l as [|x l IH]; simpl.
    - split; [discriminate|intros [i H]; discriminate].
    - destruct (str_eqb s x); simpl.
      + split; [eexists; reflexivity|reflexivity].
      + rewrite IH. split; intros [i H].
        * rewrite H. eexists; reflexivity.
        * destruct (index_of s l); [eexists; reflexivity|discriminate].
  Qed.

  (* ---------- one update call on one child: the cells follow the history, the outcome is the verdict ---------- *)
  Lemma apply_mop_interp k names bounds states h m :
    APPLY false names bounds states (INTERP k bounds states h) m
    = (INTERP k bounds states (h ++ ACCEPTED k names states m), VERDICT k names states m).
  Proof.
    unfold accepted.
    destruct k, m; simpl; try (rewrite app_nil_r; reflexivity).
    - (* counter inc *)
      destruct (alt0 fzero flt a); [rewrite app_nil_r; reflexivity|].
      unfold conv_verdict. destruct (TOF a) as [x|e] eqn:E; simpl; [|rewrite app_nil_r; reflexivity].
      unfold ctr_value. rewrite ctr_amounts_snoc, fsum_snoc, (aval_ok _ _ E). reflexivity.
    - (* counter reset *)
      unfold ctr_value. rewrite ctr_amounts_snoc. reflexivity.
    - (* gauge inc *)
      unfold conv_verdict. destruct (TOF a) as [x|e] eqn:E; simpl; [|rewrite app_nil_r; reflexivity].
      unfold gauge_value. rewrite fold_left_app. simpl. rewrite (aval_ok _ _ E). reflexivity.
    - (* gauge dec *)
      unfold conv_verdict. destruct (TOF (aneg fneg a)) as [x|e] eqn:E; simpl; [|rewrite app_nil_r; reflexivity].
      unfold gauge_value. rewrite fold_left_app. simpl. rewrite (aval_ok _ _ E). reflexivity.
    - (* gauge set *)
      unfold conv_verdict. destruct (TOF a) as [x|e] eqn:E; simpl; [|rewrite app_nil_r; reflexivity].
      unfold gauge_value. rewrite fold_left_app. simpl. rewrite (aval_ok _ _ E). reflexivity.
    - (* summary observe *)
      unfold conv_verdict. destruct (TOF a) as [x|e] eqn:E; simpl; [|rewrite app_nil_r; reflexivity].
      rewrite observations_snoc, fsum_snoc, (aval_ok _ _ E), app_length. simpl.
      f_equal. f_equal. lia.
    - (* histogram observe *)
      unfold conv_verdict. destruct (TOF a) as [x|e] eqn:E; simpl; [|rewrite app_nil_r; reflexivity].
      rewrite observations_snoc, fsum_snoc, (aval_ok _ _ E), hist_cells_snoc. reflexivity.
    - (* info *)
      destruct (overlaps names kv); [rewrite app_nil_r; reflexivity|].
      destruct (existsb _ kv) eqn:E.
      + rewrite (strip_info_none _ E), app_nil_r. reflexivity.
      + destruct (strip_info_some _ E) as [kv' E']. rewrite E'.
        unfold info_value. rewrite fold_left_app. simpl. rewrite E'. reflexivity.
    - (* enum *)
      destruct (mem_str s states) eqn:E.
      + apply index_of_mem in E as [i E]. rewrite E.
        unfold enum_index. rewrite fold_left_app. simpl. rewrite E. reflexivity.
      + destruct (index_of s states) eqn:E2.
        * assert (mem_str s states = true) by (apply index_of_mem; eexists; eauto). congruence.
        * rewrite app_nil_r. reflexivity.
  Qed.

  Lemma init_child_interp k bounds states : init_child fzero k bounds = INTERP k bounds states [].
  Proof. destruct k; reflexivity. Qed.

  Lemma ifam_with_children sf X :
    with_children (IFAM sf) (mapv (INTERP (f_kind sf) (f_bounds sf) (f_states sf)) X) = IFAM (with_children sf X).
  Proof. reflexivity. Qed.

  Lemma ifam_with_solo sf h :
    with_solo (IFAM sf) (INTERP (f_kind sf) (f_bounds sf) (f_states sf) h) = IFAM (with_solo sf h).
  Proof. reflexivity. Qed.

  Lemma put_interp sr f sf : put_family (IREG sr) f (IFAM sf) = IREG (sput sr f sf).
  Proof. unfold put_family, interp_reg, sput. apply set_nth_map. Qed.

  (* ---------- one call: the model's next state is the image of the extended history; its outcome is the verdict ---------- *)
  Lemma step_refines sr o : STEP (IREG sr) o = (IREG (SSTEP sr o), SOUT sr o).
  Proof.
    unfold mstep, mstep_gen, spec_step, spec_outcome.
    destruct o as [f a m|f a|f vs|f]; unfold interp_reg at 1; rewrite nth_error_map';
      destruct (nth_error sr f) as [sf|] eqn:Ef; simpl; try reflexivity.
    - (* update *)
      destruct (resolve (f_labelnames sf) a) as [[k|]|e]; [| |reflexivity].
      + rewrite (init_child_interp _ _ (f_states sf)).
        rewrite ensure_mapv, child_at_mapv, apply_mop_interp.
        rewrite d_set_mapv, ifam_with_children, put_interp. reflexivity.
      + destruct (is_nil (f_labelnames sf)).
        * rewrite apply_mop_interp, ifam_with_solo, put_interp. reflexivity.
        * unfold parent_outcome. destruct (has_method (f_kind sf) m); [|reflexivity].
          destruct m; reflexivity.
    - (* labels alone *)
      destruct (resolve (f_labelnames sf) a) as [[k|]|e]; try reflexivity.
      rewrite (init_child_interp _ _ (f_states sf)), ensure_mapv, ifam_with_children, put_interp. reflexivity.
    - (* remove *)
      destruct (is_nil (f_labelnames sf)); [reflexivity|].
      destruct (negb _); [reflexivity|].
      rewrite d_remove_mapv, ifam_with_children, put_interp. reflexivity.
    - (* clear *)
      destruct (is_nil (f_labelnames sf)).
      + destruct (f_kind sf); reflexivity.
      + change (@nil (key * child F)) with (mapv (INTERP (f_kind sf) (f_bounds sf) (f_states sf)) []).
        rewrite ifam_with_children, put_interp. reflexivity.
  Qed.

  Lemma run_refines ops : forall sr, RUN (IREG sr) ops = IREG (SRUN sr ops).
  Proof.
    unfold mrun, mrun_gen, spec_run.
    induction ops as [|o ops IH]; intro sr; simpl; [reflexivity|].
    fold (STEP (IREG sr) o). rewrite step_refines. simpl. apply IH.
  Qed.

  (* ---------- histogram: non-cumulative cells accumulate to "number of observations <= bound" ---------- *)
  (* FL3: the order used by `amount <= bound` is transitive, for float and for int amounts *)
  Hypothesis fle_trans : forall a b c, fle a b = true -> fle b c = true -> fle a c = true.
  Hypothesis zlef_trans : forall z b c, zlef z b = true -> fle b c = true -> zlef z c = true.

  Lemma ale_trans a b c : ALE a b = true -> fle b c = true -> ALE a c = true.
  Proof. destruct a; simpl; [apply fle_trans|apply zlef_trans]. Qed.

  Fixpoint add_obs (bs : list F) (cum : list N) (a : amount F) : list N :=
    match bs, cum with
    | b :: bs', n :: cum' => (n + if ALE a b then 1 else 0) :: add_obs bs' cum' a
    | _, _ => []
    end.

  Lemma add_obs_all bs a : (forall b, In b bs -> ALE a b = true) ->
    forall cs acc, length cs = length bs -> add_obs bs (accum acc cs) a = accum (acc + 1) cs.
  Proof.
    induction bs as [|b bs IH]; intros Hall [|c cs] acc Hlen; simpl in *; try discriminate; try reflexivity.
    rewrite (Hall b) by (left; reflexivity).
    replace (acc + 1 + c) with (acc + c + 1) by lia. f_equal.
    apply IH; [intros; apply Hall; right; assumption|lia].
  Qed.

  Lemma sorted_tail_all a : forall bs b, adj_sortedb fle (b :: bs) = true -> ALE a b = true ->
    forall b', In b' bs -> ALE a b' = true.
  Proof.
    induction bs as [|b1 bs IH]; intros b Hs Ha b' Hin; [destruct Hin|].
    simpl in Hs. apply andb_true_iff in Hs as [H1 H2].
    assert (Hb1 : ALE a b1 = true) by (eapply ale_trans; eauto).
    destruct Hin as [<-|Hin]; [assumption|]. eapply IH; eauto.
  Qed.

  Lemma adj_sorted_tail b bs : adj_sortedb fle (b :: bs) = true -> adj_sortedb fle bs = true.
  Proof. destruct bs; simpl; [reflexivity|]. intro H. apply andb_true_iff in H. tauto. Qed.

  Lemma accum_bump a : forall bs cs acc, adj_sortedb fle bs = true -> length cs = length bs ->
    accum acc (bump fle zlef bs cs a) = add_obs bs (accum acc cs) a.
  Proof.
    induction bs as [|b bs IH]; intros [|c cs] acc Hs Hlen; simpl in *; try discriminate; try reflexivity.
    destruct (ALE a b) eqn:E.
    - simpl. replace (acc + (c + 1)) with (acc + c + 1) by lia. f_equal.
      symmetry. apply add_obs_all; [|lia]. eapply sorted_tail_all; eauto.
    - simpl. replace (acc + c + 0) with (acc + c) by lia. f_equal.
      apply IH; [eapply adj_sorted_tail; eauto|lia].
  Qed.

  Lemma bump_length a : forall bs cs, length (bump fle zlef bs cs a) = length cs.
  Proof.
    induction bs as [|b bs IH]; intros [|c cs]; simpl; try reflexivity.
    destruct (ALE a b); simpl; [reflexivity|]. rewrite IH. reflexivity.
  Qed.

  Lemma hist_cells_length bs obs : length (hist_cells fle zlef bs obs) = length bs.
  Proof.
    induction obs as [|a obs IH] using rev_ind.
    - unfold hist_cells. simpl. apply map_length.
    - rewrite hist_cells_snoc, bump_length. exact IH.
  Qed.

  Lemma countN_snoc {A} (p : A -> bool) l x : countN p (l ++ [x]) = countN p l + (if p x then 1 else 0).
  Proof. induction l as [|y l IH]; simpl; [lia|]. rewrite IH. lia. Qed.

  Lemma map_count_snoc obs a bs :
    map (count_le fle zlef (obs ++ [a])) bs = add_obs bs (map (count_le fle zlef obs) bs) a.
  Proof.
    induction bs as [|b bs IH]; simpl; [reflexivity|].
    unfold count_le at 1. rewrite countN_snoc. fold (count_le fle zlef obs b). f_equal. exact IH.
  Qed.

  Lemma accum_zeros {A} (bs : list A) : accum 0 (map (fun _ => 0) bs) = map (fun _ => 0) bs.
  Proof. induction bs as [|b bs IH]; simpl; [reflexivity|]. f_equal. exact IH. Qed.

  (* the cumulative value exposed for bound b is the number of observations a with a <= b *)
  Lemma bucket_is_count_le bs obs : adj_sortedb fle bs = true ->
    accum 0 (hist_cells fle zlef bs obs) = map (count_le fle zlef obs) bs.
  Proof.
    intro Hs. induction obs as [|a obs IH] using rev_ind.
    - unfold hist_cells. simpl. rewrite accum_zeros. apply map_ext. reflexivity.
    - rewrite hist_cells_snoc, accum_bump, IH, map_count_snoc; auto. apply hist_cells_length.
  Qed.

  Lemma last_map {A B} (f : A -> B) l d d' : l <> [] -> last (map f l) d' = f (last l d).
  Proof.
    induction l as [|x l IH]; [congruence|]. intros _. destruct l as [|y l]; [reflexivity|].
    change (last (map f (y :: l)) d' = f (last (y :: l) d)). apply IH. discriminate.
  Qed.

  Lemma combine_map_r {A B} (f : A -> B) l : combine l (map f l) = map (fun x => (x, f x)) l.
  Proof. induction l as [|x l IH]; simpl; [reflexivity|]. rewrite IH. reflexivity. Qed.

  (* ---------- collect of the image of a history = the declarative readout ---------- *)
  Definition wf_family (sf : mfamily F (hist F)) : Prop :=
    f_kind sf = KHistogram -> adj_sortedb fle (f_bounds sf) = true /\ f_bounds sf <> [].

  Lemma child_readout k name bounds states lbls h :
    (k = KHistogram -> adj_sortedb fle bounds = true /\ bounds <> []) ->
    CHILD name bounds states lbls (INTERP k bounds states h) = SCHILD k name bounds states lbls h.
  Proof.
    intro WF. destruct k; try reflexivity.
    destruct (WF eq_refl) as [Hs Hne]. simpl.
    unfold total. rewrite (bucket_is_count_le _ _ Hs).
    unfold bucket_samples. rewrite combine_map_r, map_map. simpl.
    rewrite (last_map _ _ fzero 0 Hne). reflexivity.
  Qed.

  Lemma family_readout sf : wf_family sf ->
    family_samples fzero fone fle (IFAM sf) = spec_family_samples fzero fone fadd fneg fle of_Z zlef sf.
  Proof.
    intro WF. unfold family_samples, spec_family_samples. simpl.
    destruct (is_nil (f_labelnames sf)).
    - apply child_readout. exact WF.
    - unfold mapv. rewrite flat_map_concat_map, map_map, <- flat_map_concat_map.
      apply flat_map_ext. intros [k h]. simpl. apply child_readout. exact WF.
  Qed.

  Lemma collect_readout sr : Forall wf_family sr -> COLLECT (IREG sr) = SCOLLECT sr.
  Proof.
    unfold mcollect, spec_collect, interp_reg.
    induction 1 as [|sf sr H _ IH]; simpl; [reflexivity|].
    rewrite family_readout by assumption. f_equal. exact IH.
  Qed.

  Lemma Forall_set_nth {A} (P : A -> Prop) l i x : Forall P l -> P x -> Forall P (set_nth l i x).
  Proof.
    intros Hl Hx. revert i. induction Hl as [|y l Hy Hl IH]; intros [|i]; simpl; constructor; auto.
  Qed.

  Lemma wf_step sr o : Forall wf_family sr -> Forall wf_family (SSTEP sr o).
  Proof.
    intro H. assert (Hn : forall f sf, nth_error sr f = Some sf -> wf_family sf).
    { intros f sf E. eapply Forall_forall; [exact H|]. eapply nth_error_In; eauto. }
    destruct o as [f a m|f a|f vs|f]; simpl; destruct (nth_error sr f) as [sf|] eqn:E; try assumption;
      specialize (Hn _ _ E).
    - destruct (resolve (f_labelnames sf) a) as [[k|]|e]; try assumption.
      + apply Forall_set_nth; assumption.
      + destruct (is_nil (f_labelnames sf)); [apply Forall_set_nth|]; assumption.
    - destruct (resolve (f_labelnames sf) a) as [[k|]|e]; try assumption. apply Forall_set_nth; assumption.
    - destruct (is_nil (f_labelnames sf)); [assumption|]. destruct (negb _); [assumption|].
      apply Forall_set_nth; assumption.
    - destruct (is_nil (f_labelnames sf)); [assumption|]. apply Forall_set_nth; assumption.
  Qed.

  Lemma wf_run ops : forall sr, Forall wf_family sr -> Forall wf_family (SRUN sr ops).
  Proof.
    unfold spec_run. induction ops as [|o ops IH]; intros sr H; simpl; [assumption|].
    apply IH. apply wf_step. assumption.
  Qed.

  (* C01_refines *)
  Theorem refines sr ops : Forall wf_family sr ->
    COLLECT (RUN (IREG sr) ops) = SCOLLECT (SRUN sr ops).
  Proof. intro H. rewrite run_refines. apply collect_readout. apply wf_run. exact H. Qed.

  (* outcomes, call by call *)
  Theorem outcome_refines sr o : snd (STEP (IREG sr) o) = SOUT sr o.
  Proof. rewrite step_refines. reflexivity. Qed.

  (* ---------- a failing call changes nothing beyond what its .labels() part did ---------- *)
  Definition touch (r : mregistry F) (o : mcall F) : mregistry F :=
    match o with CUpd f a _ => fst (STEP r (CLabels f a)) | _ => r end.

  Lemma apply_mop_err names bounds states c m c' e :
    APPLY false names bounds states c m = (c', Err e) -> c' = c.
  Proof.
    destruct c as [[v|z]|v|n s|s cs|kv|i], m; simpl; intro H;
      repeat match type of H with
             | context [if ?b then _ else _] => destruct b
             | context [match ?x with _ => _ end] => destruct x
             end; inversion H; reflexivity.
  Qed.

  Lemma with_solo_same {C} (fam : mfamily F C) : with_solo fam (f_solo fam) = fam.
  Proof. destruct fam; reflexivity. Qed.
  Lemma with_children_same {C} (fam : mfamily F C) : with_children fam (f_children fam) = fam.
  Proof. destruct fam; reflexivity. Qed.

  Theorem reject_unchanged r o r' e : STEP r o = (r', Err e) -> r' = touch r o.
  Proof.
    unfold touch; unfold mstep, mstep_gen.
    destruct o as [f a m|f a|f vs|f]; destruct (nth_error r f) as [fam|] eqn:Ef; simpl;
      try (intro H; inversion H; reflexivity).
    - destruct (resolve (f_labelnames fam) a) as [[k|]|e0]; simpl.
      + destruct (APPLY false _ _ _ _ m) as [c' out] eqn:Ea. intro H. inversion H; subst.
        apply apply_mop_err in Ea. subst c'. cbn [fst].
        rewrite d_set_same; [reflexivity|]. rewrite child_at_ensure. apply d_find_ensure.
      + destruct (is_nil (f_labelnames fam)).
        * destruct (APPLY false _ _ _ _ m) as [c' out] eqn:Ea. intro H. inversion H; subst.
          apply apply_mop_err in Ea. subst c'. rewrite with_solo_same. unfold put_family.
          apply set_nth_same. exact Ef.
        * intro H. inversion H; reflexivity.
      + intro H. inversion H; reflexivity.
    - destruct (resolve (f_labelnames fam) a) as [[k|]|e0]; intro H; inversion H; reflexivity.
    - destruct (is_nil (f_labelnames fam)); [intro H; inversion H; reflexivity|].
      destruct (negb _); intro H; inversion H; reflexivity.
    - destruct (is_nil (f_labelnames fam)); [|intro H; inversion H].
      destruct (f_kind fam); intro H; inversion H; reflexivity.
  Qed.

  (* ... and that part changes nothing when the child already exists (or the call is on the object itself) *)
  Lemma touch_existing r f a m fam k c :
    nth_error r f = Some fam -> resolve (f_labelnames fam) a = Ok (Some k) ->
    d_find key_eqb (f_children fam) k = Some c -> touch r (CUpd f a m) = r.
  Proof.
    intros Ef Er Ec. unfold touch, mstep, mstep_gen. rewrite Ef, Er. simpl.
    unfold ensure. rewrite Ec, with_children_same. apply set_nth_same. exact Ef.
  Qed.

  Lemma touch_parent r f m : touch r (CUpd f Parent m) = r.
  Proof. unfold touch, mstep, mstep_gen. destruct (nth_error r f); reflexivity. Qed.

  Lemma touch_rejected r f a m fam e :
    nth_error r f = Some fam -> resolve (f_labelnames fam) a = Err e -> touch r (CUpd f a m) = r.
  Proof. intros Ef Er. unfold touch, mstep, mstep_gen. rewrite Ef, Er. reflexivity. Qed.

End Refine.

(* ---------- labels(): sorted(kw) == sorted(labelnames) is "same multiset", i.e. a permutation ---------- *)
Lemma count_str_app s l1 l2 : count_str s (l1 ++ l2) = (count_str s l1 + count_str s l2)%nat.
Proof. induction l1 as [|x l1 IH]; simpl; [reflexivity|]. destruct (str_eqb s x); simpl; rewrite IH; reflexivity. Qed.

Lemma count_str_in s l : count_str s l <> O -> In s l.
Proof.
  induction l as [|x l IH]; simpl; [congruence|].
  destruct (str_eqb s x) eqn:E; [apply str_eqb_eq in E; auto|auto].
Qed.

Lemma count_str_perm s a b : Permutation a b -> count_str s a = count_str s b.
Proof.
  induction 1; simpl; try congruence.
  - destruct (str_eqb s x); congruence.
  - destruct (str_eqb s x), (str_eqb s y); reflexivity.
Qed.

Lemma perm_multiset a b : Permutation a b -> multiset_eqb a b = true.
Proof.
  intro P. unfold multiset_eqb. rewrite (Permutation_length P), Nat.eqb_refl. simpl.
  apply forallb_forall. intros x _. rewrite (count_str_perm x a b P). apply Nat.eqb_refl.
Qed.

Lemma multiset_perm a : forall b, multiset_eqb a b = true -> Permutation a b.
Proof.
  induction a as [|x a IH]; intros b H; unfold multiset_eqb in H; apply andb_true_iff in H as [Hl Hc].
  - apply Nat.eqb_eq in Hl. destruct b; [constructor|discriminate].
  - apply Nat.eqb_eq in Hl. rewrite forallb_forall in Hc.
    assert (Hx : In x b).
    { apply count_str_in. specialize (Hc x (or_introl eq_refl)). apply Nat.eqb_eq in Hc.
      simpl in Hc. rewrite str_eqb_refl in Hc. congruence. }
    apply in_split in Hx as [b1 [b2 ->]].
    apply Permutation_cons_app. apply IH.
    unfold multiset_eqb. apply andb_true_iff. split.
    + apply Nat.eqb_eq. rewrite app_length in *. simpl in *. lia.
    + apply forallb_forall. intros y Hy. specialize (Hc y (or_intror Hy)). apply Nat.eqb_eq in Hc.
      apply Nat.eqb_eq. rewrite count_str_app in *. simpl in Hc.
      destruct (str_eqb y x); lia.
Qed.

Lemma d_find_in_keys {V} (kw : list (str * V)) l : In l (map fst kw) -> exists v, d_find str_eqb kw l = Some v.
Proof.
  induction kw as [|[k v] kw IH]; simpl; [tauto|].
  destruct (str_eqb l k) eqn:E; [eexists; reflexivity|].
  intros [H|H]; [subst; rewrite str_eqb_refl in E; discriminate|auto].
Qed.

(* the values are read out in declaration order *)
Lemma kw_values_ok kw : forall names, (forall l, In l names -> In l (map fst kw)) ->
  exists vs, kw_values kw names = Ok vs /\ Forall2 (fun l v => d_find str_eqb kw l = Some v) names vs.
Proof.
  induction names as [|l names IH]; intro H; simpl.
  - eexists; split; [reflexivity|constructor].
  - destruct (d_find_in_keys kw l (H l (or_introl eq_refl))) as [v Ev].
    destruct IH as [vs [E1 E2]]; [intros; apply H; right; assumption|].
    unfold d_get. rewrite Ev. simpl. rewrite E1. simpl. eexists; split; [reflexivity|constructor; assumption].
Qed.

Lemma Forall2_length' {A B} (R : A -> B -> Prop) l1 l2 : Forall2 R l1 l2 -> length l1 = length l2.
Proof. induction 1; simpl; congruence. Qed.

Lemma is_nil_false {A} (l : list A) : l <> [] -> is_nil l = false.
Proof. destruct l; [congruence|reflexivity]. Qed.

(* keyword call with the declared names in any order = the positional call with the values in declaration order *)
Lemma kw_pos_same_child names kw : kw <> [] -> Permutation (map fst kw) names ->
  exists vs, Forall2 (fun l v => d_find str_eqb kw l = Some v) names vs
             /\ resolve names (Lab [] kw) = Ok (Some vs)
             /\ resolve names (Lab vs []) = Ok (Some vs).
Proof.
  intros Hkw P.
  assert (Hn : names <> []).
  { intro E. subst. apply Permutation_sym, Permutation_nil in P. destruct kw; [congruence|discriminate]. }
  destruct (kw_values_ok kw names) as [vs [E1 E2]].
  { intros l Hl. eapply Permutation_in; [apply Permutation_sym; exact P|exact Hl]. }
  exists vs. split; [exact E2|]. unfold resolve.
  rewrite (is_nil_false _ Hn), (is_nil_false _ Hkw). simpl.
  rewrite (perm_multiset _ _ P), E1. simpl. split; [reflexivity|].
  destruct vs as [|v vs].
  - apply Forall2_length' in E2. destruct names; [congruence|discriminate].
  - apply Forall2_length' in E2. cbn [is_nil negb andb]. rewrite <- E2, Nat.eqb_refl. reflexivity.
Qed.

(* every rejection by labels() is a ValueError; keyword names that are not a permutation, or a wrong count, are rejected *)
Lemma resolve_err_VE names a e : resolve names a = Err e -> e = ValueError.
Proof.
  destruct a as [|pos kw]; simpl; [discriminate|].
  destruct (is_nil names); [intro H; inversion H; reflexivity|].
  destruct (negb (is_nil pos) && negb (is_nil kw)); [intro H; inversion H; reflexivity|].
  destruct (negb (is_nil kw)).
  - destruct (multiset_eqb (map fst kw) names) eqn:E; [|intro H; inversion H; reflexivity].
    apply multiset_perm in E.
    destruct (kw_values_ok kw names) as [vs [E1 _]].
    { intros l Hl. eapply Permutation_in; [apply Permutation_sym; exact E|exact Hl]. }
    rewrite E1. discriminate.
  - destruct (Nat.eqb _ _); [discriminate|intro H; inversion H; reflexivity].
Qed.

Lemma resolve_wrong_names names kw : kw <> [] -> ~ Permutation (map fst kw) names ->
  resolve names (Lab [] kw) = Err ValueError.
Proof.
  intros Hkw NP. unfold resolve. destruct (is_nil names); [reflexivity|]. simpl.
  rewrite (is_nil_false _ Hkw). simpl.
  destruct (multiset_eqb (map fst kw) names) eqn:E; [|reflexivity].
  apply multiset_perm in E. contradiction.
Qed.

Lemma resolve_wrong_count names pos : length pos <> length names -> resolve names (Lab pos []) = Err ValueError.
Proof.
  intro H. unfold resolve. destruct (is_nil names); [reflexivity|].
  rewrite andb_false_r. simpl. apply Nat.eqb_neq in H. rewrite H. reflexivity.
Qed.

Lemma resolve_both names pos kw : pos <> [] -> kw <> [] -> resolve names (Lab pos kw) = Err ValueError.
Proof.
  intros H1 H2. unfold resolve. destruct (is_nil names); [reflexivity|].
  rewrite (is_nil_false _ H1), (is_nil_false _ H2). reflexivity.
Qed.

Lemma resolve_unlabelled pos kw : resolve [] (Lab pos kw) = Err ValueError.
Proof. reflexivity. Qed.

(* ---------- children are keyed uniquely; remove deletes exactly the addressed child ---------- *)
Lemma d_find_none_notin {V} (l : list (key * V)) k : d_find key_eqb l k = None -> ~ In k (map fst l).
Proof.
  induction l as [|[k' v] l IH]; simpl; [tauto|].
  destruct (key_eqb k k') eqn:E; [discriminate|].
  intros H [H1|H1]; [subst; rewrite key_eqb_refl in E; discriminate|apply IH; assumption].
Qed.

Lemma d_set_keys {V} (l : list (key * V)) k v c : d_find key_eqb l k = Some c ->
  map fst (d_set key_eqb l k v) = map fst l.
Proof.
  induction l as [|[k' v'] l IH]; simpl; [discriminate|].
  destruct (key_eqb k k'); [reflexivity|]. intro H. simpl. rewrite IH; auto.
Qed.

Lemma ensure_keys_nodup {V} (i : V) l k : NoDup (map fst l) -> NoDup (map fst (ensure i l k)).
Proof.
  intro H. unfold ensure. destruct (d_find key_eqb l k) eqn:E; [assumption|].
  rewrite map_app. simpl. eapply Permutation_NoDup; [apply Permutation_cons_append|].
  constructor; [apply d_find_none_notin; assumption|assumption].
Qed.

Lemma filter_all {A} (p : A -> bool) l : (forall x, In x l -> p x = true) -> filter p l = l.
Proof.
  induction l as [|x l IH]; simpl; intro H; [reflexivity|].
  rewrite (H x (or_introl eq_refl)). rewrite IH; [reflexivity|]. intros; apply H; right; assumption.
Qed.

Lemma d_remove_filter {V} (l : list (key * V)) k : NoDup (map fst l) ->
  d_remove key_eqb l k = filter (fun kc => negb (key_eqb k (fst kc))) l.
Proof.
  induction l as [|[k' v] l IH]; simpl; intro H; [reflexivity|].
  inversion H as [|? ? Hn Hd]; subst.
  destruct (key_eqb k k') eqn:E; simpl.
  - apply key_eqb_eq in E. subst k'. symmetry. apply filter_all.
    intros [k2 v2] Hin. simpl. apply negb_true_iff. apply key_eqb_neq. intro; subst k2.
    apply Hn. apply in_map_iff. exists (k, v2). split; [reflexivity|assumption].
  - rewrite IH by assumption. reflexivity.
Qed.

Lemma d_remove_keys_nodup {V} (l : list (key * V)) k : NoDup (map fst l) -> NoDup (map fst (d_remove key_eqb l k)).
Proof.
  induction l as [|[k' v] l IH]; simpl; intro H; [constructor|].
  inversion H as [|? ? Hn Hd]; subst.
  destruct (key_eqb k k'); [assumption|]. simpl. constructor; [|apply IH; assumption].
  intro Hin. apply Hn. clear -Hin. induction l as [|[k2 v2] l IH]; simpl in *; [tauto|].
  destruct (key_eqb k k2); [right; assumption|]. simpl in Hin. destruct Hin; [left; assumption|right; apply IH; assumption].
Qed.

Lemma d_find_remove {V} (l : list (key * V)) k : NoDup (map fst l) -> d_find key_eqb (d_remove key_eqb l k) k = None.
Proof.
  intro H. rewrite d_remove_filter by assumption.
  induction l as [|[k' v] l IH]; simpl; [reflexivity|].
  inversion H; subst. destruct (key_eqb k k') eqn:E; simpl; [apply IH; assumption|].
  rewrite E. apply IH; assumption.
Qed.

Lemma d_find_snoc {V} (l : list (key * V)) k i : d_find key_eqb l k = None -> d_find key_eqb (l ++ [(k, i)]) k = Some i.
Proof.
  induction l as [|[k' v'] l IH]; simpl.
  - rewrite key_eqb_refl. reflexivity.
  - destruct (key_eqb k k'); [discriminate|]. exact IH.
Qed.

Lemma d_set_snoc {V} (l : list (key * V)) k i c : d_find key_eqb l k = None -> d_set key_eqb (l ++ [(k, i)]) k c = l ++ [(k, c)].
Proof.
  induction l as [|[k' v'] l IH]; simpl.
  - rewrite key_eqb_refl. reflexivity.
  - destruct (key_eqb k k'); [discriminate|]. intro H. rewrite (IH H). reflexivity.
Qed.

Lemma nth_error_set_nth {A} (l : list A) i x y : nth_error l i = Some x -> nth_error (set_nth l i y) i = Some y.
Proof. revert i. induction l as [|z l IH]; intros [|i]; simpl; intro H; try discriminate; [reflexivity|eauto]. Qed.

Section Lifecycle.
  Variable F : Type.
  Variables fzero fone finf : F.
  Variable fadd : F -> F -> F.
  Variable fneg : F -> F.
  Variables flt fle feqb : F -> F -> bool.
  Variable of_Z : Z -> res F.
  Variable zlef : Z -> F -> bool.
  Notation APPLY := (apply_mop fzero fadd fneg flt fle of_Z zlef).
  Notation STEPG := (mstep_gen fzero fadd fneg flt fle of_Z zlef).
  Notation STEP := (mstep fzero fadd fneg flt fle of_Z zlef).

  Definition keys_ok (r : mregistry F) : Prop := Forall (fun fam => NoDup (map fst (f_children fam))) r.

  Lemma keys_ok_put r f (fam : mfamily F (child F)) :
    keys_ok r -> NoDup (map fst (f_children fam)) -> keys_ok (put_family r f fam).
  Proof. intros. apply Forall_set_nth; assumption. Qed.

  Lemma keys_ok_nth r f (fam : mfamily F (child F)) : keys_ok r -> nth_error r f = Some fam -> NoDup (map fst (f_children fam)).
  Proof. intros H E. eapply (proj1 (Forall_forall _ _) H). eapply nth_error_In; eauto. Qed.

  Lemma step_keys_ok orig r o : keys_ok r -> keys_ok (fst (STEPG orig r o)).
  Proof.
    intro H. unfold mstep_gen.
    destruct o as [f a m|f a|f vs|f]; destruct (nth_error r f) as [fam|] eqn:Ef; simpl; try assumption;
      pose proof (keys_ok_nth _ _ _ H Ef) as Hk.
    - destruct (resolve (f_labelnames fam) a) as [[k|]|e]; simpl; try assumption.
      + destruct (APPLY orig _ _ _ _ m) as [c' out]. simpl. apply keys_ok_put; [assumption|]. simpl.
        erewrite d_set_keys by apply d_find_ensure. apply ensure_keys_nodup. assumption.
      + destruct (is_nil (f_labelnames fam)); [|assumption].
        destruct (APPLY orig _ _ _ _ m) as [c' out]. simpl. apply keys_ok_put; assumption.
    - destruct (resolve (f_labelnames fam) a) as [[k|]|e]; simpl; try assumption.
      apply keys_ok_put; [assumption|]. simpl. apply ensure_keys_nodup. assumption.
    - destruct (is_nil (f_labelnames fam)); [assumption|]. destruct (negb _); [assumption|]. simpl.
      apply keys_ok_put; [assumption|]. simpl. apply d_remove_keys_nodup. assumption.
    - destruct (is_nil (f_labelnames fam)).
      + destruct (f_kind fam); assumption.
      + simpl. apply keys_ok_put; [assumption|]. constructor.
  Qed.

  Lemma run_keys_ok orig ops : forall r, keys_ok r -> keys_ok (mrun_gen fzero fadd fneg flt fle of_Z zlef orig r ops).
  Proof.
    unfold mrun_gen. induction ops as [|o ops IH]; intros r H; simpl; [assumption|].
    apply IH. apply step_keys_ok. assumption.
  Qed.

  (* remove(vs) accepted: exactly the child keyed vs disappears, every other child and their order stay *)
  Theorem remove_exact r f vs fam :
    keys_ok r -> nth_error r f = Some fam -> f_labelnames fam <> [] -> length vs = length (f_labelnames fam) ->
    STEP r (CRemove f vs)
    = (put_family r f (with_children fam (filter (fun kc => negb (key_eqb vs (fst kc))) (f_children fam))), Ok tt).
  Proof.
    intros H Ef Hn Hl. unfold mstep, mstep_gen. rewrite Ef, (is_nil_false _ Hn), Hl, Nat.eqb_refl. simpl.
    rewrite d_remove_filter by (eapply keys_ok_nth; eauto). reflexivity.
  Qed.

  (* a child that is not (or no longer) present starts from the initial state and is appended last *)
  Theorem recreate_from_zero r f a m fam k :
    nth_error r f = Some fam -> resolve (f_labelnames fam) a = Ok (Some k) ->
    d_find key_eqb (f_children fam) k = None ->
    STEP r (CUpd f a m)
    = (let (c', out) := APPLY false (f_labelnames fam) (f_bounds fam) (f_states fam)
                              (init_child fzero (f_kind fam) (f_bounds fam)) m in
       (put_family r f (with_children fam (f_children fam ++ [(k, c')])), out)).
  Proof.
    intros Ef Er En. unfold mstep, mstep_gen. rewrite Ef, Er.
    unfold ensure, child_at. rewrite En.
    rewrite d_find_snoc by assumption. destruct (APPLY false _ _ _ _ m) as [c' out].
    rewrite d_set_snoc by assumption. reflexivity.
  Qed.

  Lemma removed_absent r f vs fam r' :
    keys_ok r -> nth_error r f = Some fam -> STEP r (CRemove f vs) = (r', Ok tt) ->
    exists fam', nth_error r' f = Some fam' /\ d_find key_eqb (f_children fam') vs = None
                 /\ f_labelnames fam' = f_labelnames fam.
  Proof.
    intros H Ef. unfold mstep, mstep_gen. rewrite Ef.
    destruct (is_nil (f_labelnames fam)); [discriminate|]. destruct (negb _); [discriminate|].
    intro E. inversion E; subst. eexists. split; [|split].
    - unfold put_family. eapply nth_error_set_nth; eauto.
    - simpl. apply d_find_remove. eapply keys_ok_nth; eauto.
    - reflexivity.
  Qed.

  Lemma cleared_empty r f fam r' :
    nth_error r f = Some fam -> f_labelnames fam <> [] -> STEP r (CClear f) = (r', Ok tt) ->
    exists fam', nth_error r' f = Some fam' /\ f_children fam' = [] /\ f_labelnames fam' = f_labelnames fam.
  Proof.
    intros Ef Hn. unfold mstep, mstep_gen. rewrite Ef, (is_nil_false _ Hn).
    intro E. inversion E; subst. eexists. split; [unfold put_family; eapply nth_error_set_nth; eauto|].
    split; reflexivity.
  Qed.
End Lifecycle.

From Coq Require Import Sorted.

(* ---------- exposed buckets are cumulative; the last one is _count ---------- *)
Lemma accum_ge acc cs : Forall (N.le acc) (accum acc cs).
Proof.
  revert acc. induction cs as [|c cs IH]; intro acc; simpl; constructor; [lia|].
  eapply Forall_impl; [|apply IH]. intros x Hx. simpl in Hx. lia.
Qed.

Lemma accum_sorted acc cs : StronglySorted N.le (accum acc cs).
Proof.
  revert acc. induction cs as [|c cs IH]; intro acc; simpl; constructor; [apply IH|apply accum_ge].
Qed.

Section More.
  Variable F : Type.
  Variables fzero fone finf : F.
  Variable fadd : F -> F -> F.
  Variable fneg : F -> F.
  Variables flt fle feqb : F -> F -> bool.
  Variable of_Z : Z -> res F.
  Variable zlef : Z -> F -> bool.
  Notation APPLY := (apply_mop fzero fadd fneg flt fle of_Z zlef).
  Notation STEPG := (mstep_gen fzero fadd fneg flt fle of_Z zlef).
  Notation STEP := (mstep fzero fadd fneg flt fle of_Z zlef).
  Notation VERDICT := (verdict fzero fneg flt of_Z).
  Notation SOUT := (spec_outcome fzero fneg flt of_Z).
  Notation ALE := (ale fle zlef).
  Notation PREP := (prepare_buckets finf fle feqb).

  (* what a histogram child exposes: bucket values in bound order, then _count *)
  Theorem hist_cumulative name bounds states lbls s cs :
    exists cum, StronglySorted N.le cum
      /\ child_samples fzero fone fle name bounds states lbls (Hst s cs)
         = bucket_samples name lbls bounds cum
           ++ [mkMSample (name ++ SUF_count) lbls None (VI (Z.of_N (last cum 0)))]
           ++ (if sum_exposed fzero fle bounds then [mkMSample (name ++ SUF_sum) lbls None (VF s)] else []).
  Proof. exists (accum 0 cs). split; [apply accum_sorted|reflexivity]. Qed.

  (* ---------- _prepare_buckets ---------- *)
  Lemma adj_sortedb_snoc l x : adj_sortedb fle l = true -> (forall y, In y l -> fle y x = true) ->
    adj_sortedb fle (l ++ [x]) = true.
  Proof.
    induction l as [|a l IH]; intros Hs Hx; [reflexivity|].
    destruct l as [|b l].
    - simpl. rewrite (Hx a (or_introl eq_refl)). reflexivity.
    - simpl in Hs. apply andb_true_iff in Hs as [H1 H2].
      change (fle a b && adj_sortedb fle ((b :: l) ++ [x]) = true). rewrite H1. simpl.
      apply IH; [assumption|]. intros y Hy. apply Hx. right. assumption.
  Qed.

  Theorem prepare_buckets_ok src bs : PREP src = Ok bs ->
    adj_sortedb fle src = true /\ (2 <= length bs)%nat /\ bs <> []
    /\ ((bs = src /\ exists l, last src l = l /\ feqb (last src l) finf = true) \/ bs = src ++ [finf]).
  Proof.
    unfold prepare_buckets. destruct (adj_sortedb fle src) eqn:Es; simpl; [|discriminate].
    set (bs' := match rev src with l :: _ => if feqb l finf then src else src ++ [finf] | [] => src end).
    destruct (Nat.ltb (length bs') 2) eqn:El; [discriminate|]. intro H. inversion H; subst bs. clear H.
    apply Nat.ltb_ge in El. split; [reflexivity|]. split; [assumption|]. split.
    { intro E. rewrite E in El. simpl in El. lia. }
    unfold bs'. destruct (rev src) as [|l r] eqn:Er.
    - assert (src = []) by (rewrite <- (rev_involutive src), Er; reflexivity). subst src.
      unfold bs' in El. simpl in El. lia.
    - destruct (feqb l finf) eqn:Ef; [|right; reflexivity]. left. split; [reflexivity|].
      assert (Hs : src = rev r ++ [l]) by (rewrite <- (rev_involutive src), Er; reflexivity).
      exists l. rewrite Hs, last_last. split; [reflexivity|assumption].
  Qed.

  Theorem prepare_buckets_sorted src bs : PREP src = Ok bs -> (forall x, In x src -> fle x finf = true) ->
    adj_sortedb fle bs = true.
  Proof.
    intros H Hinf. destruct (prepare_buckets_ok _ _ H) as [Hs [_ [_ [[-> _]| ->]]]]; [assumption|].
    apply adj_sortedb_snoc; assumption.
  Qed.

  Theorem prepare_buckets_unsorted src : adj_sortedb fle src = false -> PREP src = Err ValueError.
  Proof. intro H. unfold prepare_buckets. rewrite H. reflexivity. Qed.

  (* a constructed metric is the image of the empty history *)
  Theorem mk_family_fresh k name names buckets states fam :
    mk_family fzero finf fle feqb k name names buckets states = Ok fam ->
    fam = interp_family fzero fadd fneg fle of_Z zlef (fresh_family k name names (f_bounds fam) (f_states fam))
    /\ (k = KHistogram -> PREP buckets = Ok (f_bounds fam)).
  Proof.
    unfold mk_family. destruct k; try (intro H; inversion H; subst; split; [reflexivity|discriminate]).
    - destruct (PREP buckets) as [bs|e] eqn:E; simpl; [|discriminate].
      intro H; inversion H; subst; split; reflexivity.
    - destruct (is_nil states); [discriminate|]. intro H; inversion H; subst; split; [reflexivity|discriminate].
  Qed.

  (* ---------- the rejections the property names ---------- *)
  Theorem reject_negative_inc names states a : alt0 fzero flt a = true -> VERDICT KCounter names states (Inc a) = Err ValueError.
  Proof. intro H. simpl. rewrite H. reflexivity. Qed.

  Theorem accept_zero_inc names states a x : alt0 fzero flt a = false -> to_F of_Z a = Ok x ->
    VERDICT KCounter names states (Inc a) = Ok tt.
  Proof. intros H E. simpl. rewrite H. unfold conv_verdict. rewrite E. reflexivity. Qed.

  Theorem reject_unknown_state names states s : ~ In s states -> VERDICT KEnum names states (State s) = Err ValueError.
  Proof.
    intro H. simpl. destruct (mem_str s states) eqn:E; [|reflexivity]. apply mem_str_In in E. contradiction.
  Qed.

  Theorem reject_labelled_parent sr f sf m : nth_error sr f = Some sf -> f_labelnames sf <> [] ->
    has_method (f_kind sf) m = true -> SOUT sr (CUpd f Parent m) = Err ValueError.
  Proof. intros E Hn Hm. simpl. rewrite E. simpl. rewrite (is_nil_false _ Hn), Hm. reflexivity. Qed.

  Theorem reject_bad_labels sr f sf a m e : nth_error sr f = Some sf -> resolve (f_labelnames sf) a = Err e ->
    SOUT sr (CUpd f a m) = Err ValueError /\ SOUT sr (CLabels f a) = Err ValueError.
  Proof. intros E Er. simpl. rewrite E, Er. rewrite (resolve_err_VE _ _ _ Er). split; reflexivity. Qed.

  (* ---------- the pinned source (before fixes/C01-*.diff) ---------- *)
  (* reset()/info() on a labelled parent: AttributeError, not ValueError *)
  Theorem parent_reset_orig r f fam : nth_error r f = Some fam -> f_labelnames fam <> [] -> f_kind fam = KCounter ->
    STEPG true r (CUpd f Parent Reset) = (r, Err AttributeError).
  Proof. intros E Hn Hk. unfold mstep_gen. rewrite E. simpl. rewrite (is_nil_false _ Hn), Hk. reflexivity. Qed.

  Theorem parent_info_orig r f fam kv : nth_error r f = Some fam -> f_labelnames fam <> [] -> f_kind fam = KInfo ->
    STEPG true r (CUpd f Parent (InfoSet kv)) = (r, Err AttributeError).
  Proof. intros E Hn Hk. unfold mstep_gen. rewrite E. simpl. rewrite (is_nil_false _ Hn), Hk. reflexivity. Qed.

  (* Summary.observe counted an amount it could not add: a failing call changed an exposed value *)
  Theorem summary_count_orig name z e n s : of_Z z = Err e ->
    let fam := mkMFamily KSummary name [] [] [] (Smy n s) [] in
    exists r', STEPG true [fam] (CUpd 0 Parent (Observe (AInt z))) = (r', Err e)
               /\ mcollect fzero fone fle r' <> mcollect fzero fone fle [fam].
  Proof.
    intros E fam. eexists. split.
    - unfold mstep_gen. simpl. rewrite E. reflexivity.
    - simpl. intro H. inversion H. lia.
  Qed.

  (* Counter.reset stored the int 0: the next int increment is exact integer addition (no float conversion, so an
     unconvertible int is ACCEPTED), the exposed value is an int, and every later float increment raises *)
  Theorem reset_int_orig name z e x : (z <? 0)%Z = false -> of_Z z = Err e -> flt x fzero = false ->
    let fam0 := mkMFamily KCounter name [] [] [] (Ctr (CF fzero)) [] in
    let fam2 := mkMFamily KCounter name [] [] [] (Ctr (CI z)) [] in
    STEPG true [fam0] (CUpd 0 Parent Reset) = ([mkMFamily KCounter name [] [] [] (Ctr (CI 0%Z)) []], Ok tt)
    /\ STEPG true [mkMFamily KCounter name [] [] [] (Ctr (CI 0%Z)) []] (CUpd 0 Parent (Inc (AInt z))) = ([fam2], Ok tt)
    /\ STEPG true [fam2] (CUpd 0 Parent (Inc (AFloat x))) = ([fam2], Err e)
    /\ STEP [fam0] (CUpd 0 Parent Reset) = ([fam0], Ok tt)
    /\ STEP [fam0] (CUpd 0 Parent (Inc (AInt z))) = ([fam0], Err e).
  Proof.
    intros Hz E Hx fam0 fam2. unfold mstep, mstep_gen. simpl. rewrite Hz, Hx, E. simpl.
    repeat split; reflexivity.
  Qed.
  Hypothesis fle_trans : forall a b c, fle a b = true -> fle b c = true -> fle a c = true.
  Hypothesis zlef_trans : forall z b c, zlef z b = true -> fle b c = true -> zlef z c = true.

  Lemma count_le_mono obs b c : fle b c = true -> count_le fle zlef obs b <= count_le fle zlef obs c.
  Proof.
    intro H. unfold count_le. induction obs as [|a obs IH]; simpl; [lia|].
    destruct (ALE a b) eqn:E.
    - rewrite (ale_trans F fle zlef fle_trans zlef_trans a b c E H). lia.
    - destruct (ALE a c); lia.
  Qed.
End More.

(* ---------- a toy instance (integers as "floats") used only for the non-vacuity examples ---------- *)
Module Toy.
  Definition tF := Z.
  Definition t_of_Z (z : Z) : res Z := if (Z.abs z <? 1000)%Z then Ok z else Err OverflowError.
  Definition t_inf : Z := 1000000%Z.
  Definition tstep := mstep (F:=Z) 0%Z Z.add Z.opp Z.ltb Z.leb t_of_Z Z.leb.
  Definition tstep_orig := mstep_orig (F:=Z) 0%Z Z.add Z.opp Z.ltb Z.leb t_of_Z Z.leb.
  Definition trun := mrun (F:=Z) 0%Z Z.add Z.opp Z.ltb Z.leb t_of_Z Z.leb.
  Definition tcollect := mcollect (F:=Z) 0%Z 1%Z Z.leb.
  Definition tinterp := interp_reg (F:=Z) 0%Z Z.add Z.opp Z.leb t_of_Z Z.leb.
  Definition tspec_run := spec_run (F:=Z) 0%Z Z.opp Z.ltb t_of_Z.
  Definition tspec_collect := spec_collect (F:=Z) 0%Z 1%Z Z.add Z.opp Z.leb t_of_Z Z.leb.
  Lemma t_fle_trans : forall a b c : Z, Z.leb a b = true -> Z.leb b c = true -> Z.leb a c = true.
  Proof. intros. lia. Qed.
End Toy.

(* ---------- corollaries that spell the specification out ---------- *)
Section Corollaries.
  Variable F : Type.
  Variables fzero fone finf : F.
  Variable fadd : F -> F -> F.
  Variable fneg : F -> F.
  Variables flt fle feqb : F -> F -> bool.
  Variable of_Z : Z -> res F.
  Variable zlef : Z -> F -> bool.
  Notation IFAM := (interp_family fzero fadd fneg fle of_Z zlef).
  Notation IREG := (interp_reg fzero fadd fneg fle of_Z zlef).

  (* a counter total restarts at the last reset: it is the left-to-right sum of the amounts accepted after it *)
  Lemma ctr_amounts_incs (amts : list (amount F)) acc :
    fold_left (fun acc m => match m with Reset => [] | Inc a => acc ++ [a] | _ => acc end) (map Inc amts) acc = acc ++ amts.
  Proof.
    revert acc. induction amts as [|a amts IH]; intro acc; simpl; [rewrite app_nil_r; reflexivity|].
    rewrite IH, <- app_assoc. reflexivity.
  Qed.

  Theorem counter_restarts_at_reset (h : hist F) amts :
    ctr_value fzero fadd of_Z (h ++ Reset :: map Inc amts)
    = fold_left (fun v a => fadd v (aval fzero of_Z a)) amts fzero.
  Proof.
    unfold ctr_value, ctr_amounts. rewrite fold_left_app. simpl. rewrite ctr_amounts_incs. reflexivity.
  Qed.

  Theorem counter_from_creation amts :
    ctr_value fzero fadd of_Z (map Inc amts) = fold_left (fun v a => fadd v (aval fzero of_Z a)) amts fzero.
  Proof. unfold ctr_value, ctr_amounts. rewrite ctr_amounts_incs. reflexivity. Qed.

  (* an enum exposes one sample per state, 1 exactly at the current index, and the index is always a valid one *)
  Lemma enum_from_vals j name lbls states i :
    map (fun s : msample F => ms_val s) (enum_from j name lbls states i)
    = map (fun n => VI (if Nat.eqb n i then 1 else 0)%Z) (seq j (length states)).
  Proof.
    revert j. induction states as [|s states IH]; intro j; simpl; [reflexivity|]. rewrite IH. reflexivity.
  Qed.

  Theorem enum_one_per_state name lbls states i :
    map (fun s : msample F => ms_val s) (enum_samples name lbls states i)
    = map (fun n => VI (if Nat.eqb n i then 1 else 0)%Z) (seq 0 (length states)).
  Proof. apply enum_from_vals. Qed.

  Lemma index_of_lt s states i : index_of s states = Some i -> (i < length states)%nat.
  Proof.
    revert i. induction states as [|x states IH]; intro i; simpl; [discriminate|].
    destruct (str_eqb s x); [intro H; inversion H; lia|].
    destruct (index_of s states) as [j|]; [|discriminate]. intro H; inversion H. specialize (IH j eq_refl). lia.
  Qed.

  Theorem enum_index_valid states (h : hist F) : states <> [] -> (enum_index states h < length states)%nat.
  Proof.
    intro Hne. unfold enum_index.
    assert (G : forall i, (i < length states)%nat ->
              (fold_left (fun i m => match m with
                                     | State s => match index_of s states with Some j => j | None => i end
                                     | _ => i end) h i < length states)%nat).
    { induction h as [|m h IH]; intros i Hi; simpl; [assumption|]. apply IH.
      destruct m; try assumption. destruct (index_of s states) eqn:E; [eapply index_of_lt; eauto|assumption]. }
    apply G. destruct states; [congruence|simpl; lia].
  Qed.

  (* the refinement stated for constructed metrics *)
  Hypothesis fle_trans : forall a b c, fle a b = true -> fle b c = true -> fle a c = true.
  Hypothesis zlef_trans : forall z b c, zlef z b = true -> fle b c = true -> zlef z c = true.

  Definition fresh_of (fam : mfamily F (child F)) : mfamily F (hist F) :=
    fresh_family (f_kind fam) (f_name fam) (f_labelnames fam) (f_bounds fam) (f_states fam).

  Definition constructed (fam : mfamily F (child F)) : Prop :=
    exists k name names buckets states,
      mk_family fzero finf fle feqb k name names buckets states = Ok fam
      /\ forall x, In x buckets -> fle x finf = true.

  Lemma constructed_fresh fam : constructed fam -> fam = IFAM (fresh_of fam) /\ wf_family F fle (fresh_of fam).
  Proof.
    intros [k [name [names [buckets [states [E Hinf]]]]]].
    destruct (mk_family_fresh F fzero finf fadd fneg fle feqb of_Z zlef _ _ _ _ _ _ E) as [E1 E2].
    assert (Hk : f_kind fam = k).
    { unfold mk_family in E. destruct k; try (inversion E; reflexivity).
      - destruct (prepare_buckets finf fle feqb buckets); [inversion E; reflexivity|discriminate].
      - destruct (is_nil states); [discriminate|inversion E; reflexivity]. }
    assert (Hn : f_name fam = name /\ f_labelnames fam = names).
    { unfold mk_family in E. destruct k; try (inversion E; split; reflexivity).
      - destruct (prepare_buckets finf fle feqb buckets); [inversion E; split; reflexivity|discriminate].
      - destruct (is_nil states); [discriminate|inversion E; split; reflexivity]. }
    destruct Hn as [Hn1 Hn2]. split.
    - unfold fresh_of. rewrite Hk, Hn1, Hn2. exact E1.
    - unfold wf_family, fresh_of. simpl. intro Hh. rewrite Hk in Hh. specialize (E2 Hh).
      split.
      + eapply prepare_buckets_sorted; eauto.
      + destruct (prepare_buckets_ok F finf fadd fneg flt fle feqb zlef _ _ E2) as [_ [_ [Hne _]]]. exact Hne.
  Qed.

  Theorem refines_constructed fams ops : Forall constructed fams ->
    mcollect fzero fone fle (mrun fzero fadd fneg flt fle of_Z zlef fams ops)
    = spec_collect fzero fone fadd fneg fle of_Z zlef (spec_run fzero fneg flt of_Z (map fresh_of fams) ops).
  Proof.
    intro H.
    assert (E : fams = IREG (map fresh_of fams)).
    { unfold interp_reg. rewrite map_map. induction H as [|fam fams Hc _ IH]; simpl; [reflexivity|].
      rewrite <- IH. f_equal. apply constructed_fresh. assumption. }
    rewrite E at 1. apply (refines F fzero fone finf fadd fneg flt fle feqb of_Z zlef fle_trans zlef_trans).
    apply Forall_forall. intros sf Hin. apply in_map_iff in Hin as [fam [<- Hin]].
    apply constructed_fresh. eapply Forall_forall; eauto.
  Qed.
End Corollaries.
