(* C08 over worker histories with forks (model/MultiFork.v): proofs.
   Part A  without fork steps the model IS MultiHist's (conservative extension).
   Part B  locality: a step with forks performed by process c - the re-initialisation of every inherited value object
           included - reads and writes only the files of pid c; the fork itself writes nothing.
   Part C  a history with forks leaves the directory of a fork-free history (MultiFork.defork): the first call of a
           forked process that reaches a value object = the start of a process with that pid, labels() for every child it
           inherited, the call.  So every theorem of props/C08h.v about the collection applies to histories with forks. *)
From V Require Import lib.PyBase lib.Tac.
From V Require Import model.Metrics model.Equiv model.MultiHist model.MultiFork.
From V Require Import proofs.EquivProofs proofs.MultiHistProofs.
From V Require model.Multiproc model.Values proofs.ValuesProofs proofs.MetricsProofs proofs.MultiReuseProofs.
Ltac Zify.zify_post_hook ::= Z.to_euclidean_division_equations.
Open Scope N_scope.

Lemma mem_drop_same c l : mem_str c (drop_pid c l) = false.
Proof.
  unfold drop_pid. induction l as [|q l IH]; [reflexivity|]. cbn [filter]. destruct (str_eqb q c) eqn:E; cbn [negb]; [exact IH|].
  cbn [mem_str]. destruct (str_eqb c q) eqn:E2; [|exact IH]. apply str_eqb_eq in E2; subst q. rewrite str_eqb_refl in E. discriminate.
Qed.
Lemma mem_drop_other c q l : q <> c -> mem_str q (drop_pid c l) = mem_str q l.
Proof.
  intro H. unfold drop_pid. induction l as [|x l IH]; [reflexivity|]. cbn [filter mem_str]. destruct (str_eqb x c) eqn:E; cbn [negb].
  - apply str_eqb_eq in E; subst x. apply str_eqb_neq in H. rewrite H. exact IH.
  - cbn [mem_str]. rewrite IH. reflexivity.
Qed.

Section Fork.
  Variable F : Type.
  Variables fzero fone : F.
  Variable fadd : F -> F -> F.
  Variable fneg : F -> F.
  Variables flt fle feqb : F -> F -> bool.
  Variable of_Z : Z -> res F.
  Variable zlef : Z -> F -> bool.
  Variable fmt_le : F -> str.
  Variable fams : list (shape F).
  Variable metas : list fmeta.

  Notation fs := (Values.fs F).
  Notation rp := (fs_of_pid F).
  Notation shape := (shape F).
  Notation mp_step := (mp_step F fzero fone fadd fneg flt fle feqb of_Z zlef fmt_le).
  Notation mp_run := (mp_run F fzero fone fadd fneg flt fle feqb of_Z zlef fmt_le).
  Notation mp_init_fs := (mp_init_fs F fzero fmt_le).
  Notation mp_create := (mp_create F fzero).
  Notation mh_step := (mh_step F fzero fone fadd fneg flt fle feqb of_Z zlef fmt_le fams metas).
  Notation run := (mp_run_multi F fzero fone fadd fneg flt fle feqb of_Z zlef fmt_le fams metas).
  Notation mf_step := (mf_step F fzero fone fadd fneg flt fle feqb of_Z zlef fmt_le fams metas).
  Notation mf_run := (mf_run F fzero fone fadd fneg flt fle feqb of_Z zlef fmt_le fams metas).
  Notation rebind := (rebind F fzero fmt_le).
  Notation rebind_fam := (rebind_fam F fzero fmt_le).
  Notation rebind_children := (rebind_children F fzero fmt_le).
  Notation touches := (touches F fzero flt of_Z).
  Notation defork_step := (defork_step F fzero flt of_Z metas).
  Notation defork := (defork F fzero fone fadd fneg flt fle feqb of_Z zlef fmt_le fams metas).
  Notation hstep := (hstep F).
  Notation mh := (mh F).
  Notation mf := (mf F).
  Let seq_eq := str_eqb_eq.

  (* ================= Part A ================= *)
  Theorem run_without_forks : forall (steps : list hstep) (s : mh),
    mf_run (mkMF F s []) (map FStep steps) = mkMF F (run s steps) [].
  Proof.
    induction steps as [|st steps IH]; intro s; [reflexivity|].
    unfold MultiFork.mf_run, mp_run_multi in *. cbn [map fold_left].
    assert (E : fst (mf_step (mkMF F s []) (FStep st)) = mkMF F (fst (mh_step s st)) []).
    { destruct st as [p|p now o|p]; cbn [MultiFork.mf_step f_pending f_mh mem_str lift fst hpid drop_pid filter]; reflexivity. }
    rewrite E. apply IH.
  Qed.

  (* ================= Part B ================= *)
  Lemma mh_step_other (s : mh) st q : hpid F st <> q -> ~ In Multiproc.US q -> ~ In Multiproc.US (hpid F st) ->
    rp q (h_fs F (fst (mh_step s st))) = rp q (h_fs F s).
  Proof.
    intros Hne Hq Hp.
    destruct (step_frame F fzero fone fadd fneg flt fle feqb of_Z zlef fmt_le fams metas q s
                (mkMH F (h_procs F s) (rp q (h_fs F s))) st Hne Hq Hp) as [H _]; [split; reflexivity|exact H].
  Qed.

  Lemma rebind_fam_other c q (fam : shape) me : q <> c -> forall d, rp q (rebind_fam c fam me d) = rp q d.
  Proof.
    intro H. unfold MultiFork.rebind_fam. generalize (f_children fam). intro l.
    induction l as [|kc l IH]; intro d; cbn [fold_left]; [reflexivity|]. rewrite IH.
    rewrite (fam_file_pid F fam me c). apply create_other. exact H.
  Qed.

  Lemma rebind_children_other c q : q <> c -> forall (sh : list shape) ms d, rp q (rebind_children c sh ms d) = rp q d.
  Proof.
    intro H. induction sh as [|fam sh IH]; intros [|me ms] d; cbn [MultiFork.rebind_children]; try reflexivity.
    rewrite IH. apply rebind_fam_other. exact H.
  Qed.

  Lemma rebind_other c q (sh : list shape) ms d : q <> c -> rp q (rebind c sh ms d) = rp q d.
  Proof.
    intro H. unfold MultiFork.rebind. rewrite (rebind_children_other c q H). apply init_other. exact H.
  Qed.

  (* the fork itself writes nothing *)
  Theorem fork_writes_nothing (s : mf) p c : h_fs F (f_mh F (fst (mf_step s (FFork p c)))) = h_fs F (f_mh F s).
  Proof. cbn [MultiFork.mf_step]. destruct (d_find str_eqb (h_procs F (f_mh F s)) p); reflexivity. Qed.

  (* a step of process c leaves the files of every other pid as they are *)
  Theorem step_own_files (s : mf) st q : fpid F st <> q -> ~ In Multiproc.US q -> ~ In Multiproc.US (fpid F st) ->
    rp q (h_fs F (f_mh F (fst (mf_step s st)))) = rp q (h_fs F (f_mh F s)).
  Proof.
    intros Hne Hq Hp. destruct st as [st0|p c]; [|rewrite fork_writes_nothing; reflexivity].
    cbn [fpid] in *. destruct st0 as [p|c now o|p]; cbn [MultiFork.mf_step].
    - cbn [lift fst f_mh]. apply mh_step_other; assumption.
    - assert (Hc : c <> q) by exact Hne. assert (Hq' : q <> c) by congruence.
      destruct (mem_str c (f_pending F s)); [|cbn [lift fst f_mh]; apply (mh_step_other _ (HCall c now o)); assumption].
      destruct (d_find str_eqb (h_procs F (f_mh F s)) c) as [sh|]; [|reflexivity].
      destruct (touches metas sh o); cbn [lift fst f_mh].
      + rewrite (mh_step_other _ (HCall c now o)) by assumption. cbn [h_fs]. apply rebind_other. exact Hq'.
      + apply (mh_step_other _ (HCall c now o)); assumption.
    - cbn [lift fst f_mh]. apply mh_step_other; assumption.
  Qed.
  (* ================= Part C ================= *)
  Definition bare (fam : shape) : shape := with_children fam [].
  Definition child_wf (fam : shape) : Prop :=
    NoDup (map fst (f_children fam))
    /\ forall k, In k (map fst (f_children fam)) -> length k = length (f_labelnames fam) /\ is_nil (f_labelnames fam) = false.
  (* the metric objects of a process: the constructed families, each with its own children *)
  Definition shape_ok (sh : list shape) : Prop := map bare sh = fams /\ Forall child_wf sh.

  Hypothesis Hfresh : Forall (fun fam : shape => f_children fam = []) fams.
  Hypothesis Hlen : length metas = length fams.

  Let keq_eq := MetricsProofs.key_eqb_eq.

  Lemma bare_fresh (fam : shape) : f_children fam = [] -> bare fam = fam.
  Proof. destruct fam as [k n ln b st so ch]. cbn. intros ->. reflexivity. Qed.

  Lemma fams_ok : shape_ok fams.
  Proof.
    split.
    - clear Hlen. induction fams as [|fam l IH]; [reflexivity|]. inversion Hfresh as [|? ? H1 H2]; subst.
      cbn [map]. rewrite (bare_fresh fam H1), (IH H2). reflexivity.
    - eapply Forall_impl; [|exact Hfresh]. intros fam H. unfold child_wf. rewrite H. split; [constructor|intros k []].
  Qed.

  Lemma Forall_set_nth {A} (P : A -> Prop) (l : list A) : forall i x, Forall P l -> P x -> Forall P (set_nth l i x).
  Proof.
    induction l as [|a l IH]; intros [|i] x Hl Hx; cbn [set_nth]; try exact Hl; inversion Hl; subst; constructor; auto.
  Qed.

  Lemma set_nth_ok (sh : list shape) f fam fam' : shape_ok sh -> nth_error sh f = Some fam -> bare fam' = bare fam ->
    child_wf fam' -> shape_ok (set_nth sh f fam').
  Proof.
    intros [H1 H2] Hf Hb Hw. split.
    - rewrite (map_set_nth_same bare sh f fam' fam Hf Hb). exact H1.
    - apply Forall_set_nth; assumption.
  Qed.

  Lemma nth_wf (sh : list shape) f fam : shape_ok sh -> nth_error sh f = Some fam -> child_wf fam.
  Proof. intros [_ H] Hf. rewrite Forall_forall in H. apply H. eapply nth_error_In; exact Hf. Qed.

  Lemma df_none_notin {V} (d : assoc key V) k : d_find key_eqb d k = None -> ~ In k (map fst d).
  Proof. intros H Hi. destruct (df_in key_eqb keq_eq d k Hi) as [v E]. congruence. Qed.

  Lemma ensure_ok (fam : shape) me c d k : child_wf fam -> length k = length (f_labelnames fam) ->
    is_nil (f_labelnames fam) = false ->
    bare (fst (mp_ensure F fzero fmt_le fam me c d k)) = bare fam /\ child_wf (fst (mp_ensure F fzero fmt_le fam me c d k)).
  Proof.
    intros [Hn Hk] Hl Hnil. unfold mp_ensure. destruct (d_find key_eqb (f_children fam) k) eqn:E; cbn [fst].
    - split; [reflexivity|split; assumption].
    - split; [reflexivity|]. unfold child_wf. cbn [with_children f_children f_labelnames]. rewrite map_app. cbn [map fst]. split.
      + apply ValuesProofs.NoDup_snoc; [exact Hn|apply df_none_notin; exact E].
      + intros k' Hi. apply in_app_iff in Hi. destruct Hi as [Hi|[<-|[]]]; [apply Hk; exact Hi|split; assumption].
  Qed.

  Lemma step_shape_ok c (sh : list shape) d now o : shape_ok sh ->
    shape_ok (p_shape F (fst (mp_step metas c (mkMp F sh d) now o))).
  Proof.
    intro Hok. unfold Equiv.mp_step. cbn [p_shape p_fs]. destruct o as [f a m|f a|f vs|f].
    - destruct (nth_error sh f) as [fam|] eqn:Ef; [|exact Hok]. destruct (nth_error metas f) as [me|]; [|exact Hok].
      destruct (resolve (f_labelnames fam) a) as [[k|]|e] eqn:Er; [| |exact Hok].
      + destruct (ensure_ok fam me c d k (nth_wf sh f fam Hok Ef) (resolve_length _ _ _ Er) (resolve_some_labelled _ _ _ Er)) as [Hb Hw].
        destruct (mp_ensure F fzero fmt_le fam me c d k) as [fam' d1]. cbn [fst] in Hb, Hw.
        destruct (mr_blocked F (f_kind fam) (fm_mode me) m); cbn [fst p_shape]; [apply (set_nth_ok sh f fam fam'); assumption|].
        destruct (mp_apply F fzero fone fadd fneg flt fle feqb of_Z zlef fmt_le fam me c now d1 k m) as [d2 out].
        cbn [fst p_shape]. apply (set_nth_ok sh f fam fam'); assumption.
      + destruct (mr_blocked F (f_kind fam) (fm_mode me) m); [exact Hok|].
        destruct (is_nil (f_labelnames fam)); [|exact Hok].
        destruct (mp_apply F fzero fone fadd fneg flt fle feqb of_Z zlef fmt_le fam me c now d [] m) as [d2 out]. exact Hok.
    - destruct (nth_error sh f) as [fam|] eqn:Ef; [|exact Hok]. destruct (nth_error metas f) as [me|]; [|exact Hok].
      destruct (resolve (f_labelnames fam) a) as [[k|]|e] eqn:Er; try exact Hok.
      destruct (ensure_ok fam me c d k (nth_wf sh f fam Hok Ef) (resolve_length _ _ _ Er) (resolve_some_labelled _ _ _ Er)) as [Hb Hw].
      destruct (mp_ensure F fzero fmt_le fam me c d k) as [fam' d1]. cbn [fst p_shape] in *.
      apply (set_nth_ok sh f fam fam'); assumption.
    - destruct (nth_error sh f) as [fam|] eqn:Ef; [|exact Hok].
      destruct (is_nil (f_labelnames fam)); [exact Hok|]. destruct (negb _); [exact Hok|]. cbn [fst p_shape].
      apply (set_nth_ok sh f fam); [exact Hok|exact Ef|reflexivity|].
      destruct (nth_wf sh f fam Hok Ef) as [Hn Hk]. split; cbn [with_children f_children f_labelnames].
      + apply (dr_NoDup key_eqb). exact Hn.
      + intros k Hi. apply Hk. eapply (dr_keys_in key_eqb); exact Hi.
    - destruct (nth_error sh f) as [fam|] eqn:Ef; [|exact Hok].
      destruct (is_nil (f_labelnames fam)); [destruct (f_kind fam); exact Hok|]. cbn [fst p_shape].
      apply (set_nth_ok sh f fam); [exact Hok|exact Ef|reflexivity|]. split; cbn [with_children f_children map]; [constructor|intros k []].
  Qed.

  (* ----- a call of a forked process that reaches no value object changes nothing ----- *)
  Lemma apply_unreached (fam : shape) me c now d lv m : reaches F fzero flt of_Z (f_kind fam) m = false ->
    fst (mp_apply F fzero fone fadd fneg flt fle feqb of_Z zlef fmt_le fam me c now d lv m) = d.
  Proof.
    unfold reaches, mp_apply. destruct (f_kind fam), m; try discriminate; try reflexivity.
    - destruct (alt0 fzero flt a); [reflexivity|discriminate].
    - destruct (to_F of_Z a); [discriminate|reflexivity].
  Qed.

  Lemma held_find (fam : shape) k : held F fam k = true -> exists u, d_find key_eqb (f_children fam) k = Some u.
  Proof. unfold held. destruct (d_find key_eqb (f_children fam) k) as [u|]; [eexists; reflexivity|discriminate]. Qed.

  Lemma untouched c (sh : list shape) d now o : touches metas sh o = false -> no_removal F o ->
    fst (mp_step metas c (mkMp F sh d) now o) = mkMp F sh d.
  Proof.
    intros Ht Hr. unfold Equiv.mp_step. cbn [p_shape p_fs]. destruct o as [f a m|f a|f vs|f]; try contradiction; cbn [MultiFork.touches] in Ht.
    - destruct (nth_error sh f) as [fam|] eqn:Ef; [|reflexivity]. destruct (nth_error metas f) as [me|]; [|reflexivity].
      destruct (resolve (f_labelnames fam) a) as [[k|]|e]; [| |reflexivity].
      + apply Bool.orb_false_iff in Ht. destruct Ht as [Hh Ht]. apply Bool.negb_false_iff in Hh.
        destruct (held_find fam k Hh) as [u Eu]. unfold mp_ensure. rewrite Eu. rewrite (MetricsProofs.set_nth_same sh f fam Ef).
        destruct (mr_blocked F (f_kind fam) (fm_mode me) m); [reflexivity|]. cbn [negb andb] in Ht.
        pose proof (apply_unreached fam me c now d k m Ht) as Ha.
        destruct (mp_apply F fzero fone fadd fneg flt fle feqb of_Z zlef fmt_le fam me c now d k m) as [d2 out]. cbn [fst] in *. subst d2. reflexivity.
      + destruct (mr_blocked F (f_kind fam) (fm_mode me) m); [reflexivity|].
        destruct (is_nil (f_labelnames fam)); [|reflexivity]. cbn [negb andb] in Ht.
        pose proof (apply_unreached fam me c now d [] m Ht) as Ha.
        destruct (mp_apply F fzero fone fadd fneg flt fle feqb of_Z zlef fmt_le fam me c now d [] m) as [d2 out]. cbn [fst] in *. subst d2. reflexivity.
    - destruct (nth_error sh f) as [fam|] eqn:Ef; [|reflexivity]. destruct (nth_error metas f) as [me|]; [|reflexivity].
      destruct (resolve (f_labelnames fam) a) as [[k|]|e]; try reflexivity.
      apply Bool.negb_false_iff in Ht. destruct (held_find fam k Ht) as [u Eu]. unfold mp_ensure. rewrite Eu.
      rewrite (MetricsProofs.set_nth_same sh f fam Ef). reflexivity.
  Qed.

  (* ----- labels() for every inherited child, in a process that has just constructed its metrics ----- *)
  Lemma labels_step c now (sh : list shape) d f fam me k : nth_error sh f = Some fam -> nth_error metas f = Some me ->
    length k = length (f_labelnames fam) -> is_nil (f_labelnames fam) = false -> d_find key_eqb (f_children fam) k = None ->
    fst (mp_step metas c (mkMp F sh d) now (CLabels f (Lab k [])))
    = mkMp F (set_nth sh f (with_children fam (f_children fam ++ [(k, tt)])))
             (mp_create d (fam_file F fam me c) (cell_keys F fmt_le fam me k)).
  Proof.
    intros Ef Em Hl Hn Hd. unfold Equiv.mp_step. cbn [p_shape p_fs]. rewrite Ef, Em.
    assert (Er : resolve (f_labelnames fam) (Lab k []) = Ok (Some k)).
    { unfold resolve. rewrite Hn. cbn [is_nil negb]. rewrite Bool.andb_false_r. rewrite Hl, Nat.eqb_refl. reflexivity. }
    rewrite Er. unfold mp_ensure. rewrite Hd. reflexivity.
  Qed.

  Lemma set_nth_app {A} (pre : list A) x y post : set_nth (pre ++ x :: post) (length pre) y = pre ++ y :: post.
  Proof. induction pre as [|a pre IH]; cbn [app length set_nth]; [reflexivity|]. rewrite IH. reflexivity. Qed.
  Lemma nth_error_mid {A} (pre : list A) x post : nth_error (pre ++ x :: post) (length pre) = Some x.
  Proof. induction pre as [|a pre IH]; cbn [app length nth_error]; [reflexivity|exact IH]. Qed.

  Lemma with_children_self (fam : shape) : with_children fam (f_children fam) = fam.
  Proof. destruct fam; reflexivity. Qed.

  Definition at_now (now : F) (calls : list (mcall F)) : list (F * mcall F) := map (fun call => (now, call)) calls.

  Lemma replay_fam c now me (fam : shape) (pre post : list shape) : nth_error metas (length pre) = Some me -> child_wf fam ->
    forall (todo done : list (key * unit)) d, f_children fam = done ++ todo ->
      mp_run metas c (mkMp F (pre ++ with_children fam done :: post) d)
             (at_now now (map (fun kc : key * unit => CLabels (length pre) (Lab (fst kc) [])) todo))
      = mkMp F (pre ++ fam :: post)
               (fold_left (fun d kc => mp_create d (fam_file F fam me c) (cell_keys F fmt_le fam me (fst kc))) todo d).
  Proof.
    intros Em [Hn Hk]. induction todo as [|[k u] todo IH]; intros done d E.
    - rewrite app_nil_r in E. rewrite <- E, with_children_self. reflexivity.
    - destruct u. unfold at_now, Equiv.mp_run in *. cbn [map fold_left fst snd].
      assert (Hin : In k (map fst (f_children fam))). { rewrite E, map_app, in_app_iff. right. left. reflexivity. }
      destruct (Hk k Hin) as [Hl Hnil].
      assert (Hnd : d_find key_eqb done k = None).
      { apply (df_notin key_eqb keq_eq). rewrite E, map_app in Hn. cbn [map fst] in Hn. intro Hi.
        apply NoDup_remove_2 in Hn. apply Hn. apply in_app_iff. left. exact Hi. }
      rewrite (labels_step c now (pre ++ with_children fam done :: post) d (length pre) (with_children fam done) me k
                 (nth_error_mid pre _ post) Em Hl Hnil Hnd).
      rewrite set_nth_app. cbn [with_children f_children f_kind f_name f_labelnames f_bounds f_states f_solo].
      specialize (IH (done ++ [(k, tt)]) (mp_create d (fam_file F fam me c) (cell_keys F fmt_le fam me k))).
      rewrite <- app_assoc in IH. specialize (IH E). exact IH.
  Qed.

  Lemma mp_run_app c s l1 l2 : mp_run metas c s (l1 ++ l2) = mp_run metas c (mp_run metas c s l1) l2.
  Proof. unfold Equiv.mp_run. apply fold_left_app. Qed.

  Lemma replay_all c now : forall (rest pre : list shape) (mpre ms : list fmeta) d,
    metas = mpre ++ ms -> length mpre = length pre -> length ms = length rest -> Forall child_wf rest ->
    mp_run metas c (mkMp F (pre ++ map bare rest) d) (at_now now (inherit_calls F (length pre) rest))
    = mkMp F (pre ++ rest) (rebind_children c rest ms d).
  Proof.
    induction rest as [|fam rest IH]; intros pre mpre ms d Hm Hp Hl Hw.
    - destruct ms; [|discriminate]. cbn [map inherit_calls MultiFork.rebind_children at_now]. reflexivity.
    - destruct ms as [|me ms]; [discriminate|]. apply Forall_cons_iff in Hw. destruct Hw as [Hw1 Hw2].
      cbn [inherit_calls map MultiFork.rebind_children]. unfold at_now. rewrite map_app. rewrite mp_run_app.
      assert (Em : nth_error metas (length pre) = Some me). { rewrite Hm, <- Hp. apply nth_error_mid. }
      pose proof (replay_fam c now me fam pre (map bare rest) Em Hw1 (f_children fam) [] d eq_refl) as H1.
      unfold at_now, inherit_fam in *. change (with_children fam []) with (bare fam) in H1.
      match goal with |- mp_run metas c ?x _ = _ => replace x with (mkMp F (pre ++ fam :: map bare rest) (rebind_fam c fam me d)) by (symmetry; exact H1) end.
      specialize (IH (pre ++ [fam]) (mpre ++ [me]) ms (rebind_fam c fam me d)).
      rewrite !app_length in IH. cbn [length] in IH. rewrite !Nat.add_1_r in IH. rewrite <- !app_assoc in IH. cbn [app] in IH.
      apply IH; [exact Hm|congruence|cbn [length] in Hl; congruence|exact Hw2].
  Qed.

  Lemma init_bare c : forall (sh : list shape) ms d, mp_init_fs c (map bare sh) ms d = mp_init_fs c sh ms d.
  Proof. induction sh as [|fam sh IH]; intros [|me ms] d; cbn [map Equiv.mp_init_fs]; try reflexivity. apply IH. Qed.

  (* the re-initialisation after a fork = constructing the metrics, then labels() for every inherited child *)
  Lemma rebind_is_replay c now (sh : list shape) d : shape_ok sh ->
    mp_run metas c (mkMp F fams (mp_init_fs c fams metas d)) (at_now now (inherit_calls F 0 sh)) = mkMp F sh (rebind c sh metas d).
  Proof.
    intros [Hb Hw]. unfold MultiFork.rebind. rewrite <- Hb at 1 2. rewrite init_bare.
    apply (replay_all c now sh [] [] metas); [reflexivity|reflexivity| |exact Hw].
    rewrite Hlen, <- Hb, map_length. reflexivity.
  Qed.

  (* ----- a block of calls of one running process, at the level of the shared directory ----- *)
  Lemma run_app (h : mh) l1 l2 : run h (l1 ++ l2) = run (run h l1) l2.
  Proof. unfold mp_run_multi. apply fold_left_app. Qed.

  Lemma run_calls c now : forall (calls : list (mcall F)) (h : mh) sh0, d_find str_eqb (h_procs F h) c = Some sh0 ->
    let q := mp_run metas c (mkMp F sh0 (h_fs F h)) (at_now now calls) in
    let h' := run h (map (fun call => HCall c now call) calls) in
    h_fs F h' = p_fs F q /\ d_find str_eqb (h_procs F h') c = Some (p_shape F q)
    /\ (forall q', q' <> c -> d_find str_eqb (h_procs F h') q' = d_find str_eqb (h_procs F h) q')
    /\ (procs_ok F h -> procs_ok F h').
  Proof.
    induction calls as [|o calls IH]; intros h sh0 Hf; cbn zeta.
    - cbn [map at_now]. unfold mp_run_multi, Equiv.mp_run. cbn [fold_left p_fs p_shape]. repeat split; auto.
    - unfold mp_run_multi, Equiv.mp_run, at_now in *. cbn [map fold_left fst snd].
      cbn [MultiHist.mh_step]. rewrite Hf.
      destruct (mp_step metas c (mkMp F sh0 (h_fs F h)) now o) as [q1 out] eqn:E1. cbn [fst].
      specialize (IH (mkMH F (d_set str_eqb (h_procs F h) c (p_shape F q1)) (p_fs F q1)) (p_shape F q1)).
      cbn [h_procs h_fs] in IH. rewrite (df_set str_eqb seq_eq), str_eqb_refl in IH. specialize (IH eq_refl). cbn zeta in IH.
      destruct q1 as [sh1 d1]. cbn [p_shape p_fs] in *. destruct IH as (I1 & I2 & I3 & I4). repeat split; auto.
      + intros q' Hq. rewrite (I3 q' Hq). rewrite (df_set str_eqb seq_eq). apply str_eqb_neq in Hq. rewrite Hq. reflexivity.
      + intro Hok. apply I4. unfold procs_ok in *. cbn [h_procs]. apply (ds_NoDup str_eqb seq_eq). exact Hok.
  Qed.

  (* ----- the simulation ----- *)
  Definition Sim (s : mf) (h : mh) : Prop :=
    h_fs F (f_mh F s) = h_fs F h
    /\ (forall q, mem_str q (f_pending F s) = false -> d_find str_eqb (h_procs F (f_mh F s)) q = d_find str_eqb (h_procs F h) q)
    /\ (forall q sh, d_find str_eqb (h_procs F (f_mh F s)) q = Some sh -> shape_ok sh)
    /\ procs_ok F (f_mh F s) /\ procs_ok F h.

  Definition fcall_ok (st : fstep F) : Prop :=
    match st with FStep (HCall _ _ o) => no_removal F o | _ => True end.

  Lemma sim_mh_step (s : mf) (h : mh) st0 pend :
    Sim s h -> mem_str (hpid F st0) (f_pending F s) = false \/ (match st0 with HCall _ _ _ => False | _ => True end) ->
    (forall q, mem_str q pend = false -> q = hpid F st0 \/ mem_str q (f_pending F s) = false) ->
    Sim (mkMF F (fst (mh_step (f_mh F s) st0)) pend) (fst (mh_step h st0)).
  Proof.
    intros (Hfs & Hpr & Hok & Hn1 & Hn2) Hnp Hpend.
    assert (P1 := step_procs_ok F fzero fone fadd fneg flt fle feqb of_Z zlef fmt_le fams metas _ st0 Hn1).
    assert (P2 := step_procs_ok F fzero fone fadd fneg flt fle feqb of_Z zlef fmt_le fams metas _ st0 Hn2).
    unfold Sim. cbn [f_mh f_pending]. destruct st0 as [p|p now o|p]; cbn [hpid] in *; cbn [MultiHist.mh_step fst] in *.
    - cbn [h_fs h_procs]. rewrite Hfs. split; [reflexivity|]. split; [|split; [|split; assumption]].
      + intros q Hq. rewrite !(df_set str_eqb seq_eq). destruct (str_eqb q p) eqn:E; [reflexivity|].
        apply Hpr. destruct (Hpend q Hq) as [->|H]; [rewrite str_eqb_refl in E; discriminate|exact H].
      + intros q sh. rewrite (df_set str_eqb seq_eq). destruct (str_eqb q p); [intro H; inversion H; subst; exact fams_ok|apply Hok].
    - destruct Hnp as [Hnp|[]]. rewrite <- (Hpr p Hnp) in P2 |- *.
      destruct (d_find str_eqb (h_procs F (f_mh F s)) p) as [sh|] eqn:Ep.
      + rewrite <- Hfs in P2 |- *. pose proof (step_shape_ok p sh (h_fs F (f_mh F s)) now o (Hok p sh Ep)) as Hs.
        destruct (mp_step metas p (mkMp F sh (h_fs F (f_mh F s))) now o) as [q1 out]. cbn [fst h_fs h_procs] in *.
        split; [reflexivity|]. split; [|split; [|split; assumption]].
        * intros q Hq. rewrite !(df_set str_eqb seq_eq). destruct (str_eqb q p) eqn:E; [reflexivity|].
          apply Hpr. destruct (Hpend q Hq) as [->|H]; [rewrite str_eqb_refl in E; discriminate|exact H].
        * intros q sh'. rewrite (df_set str_eqb seq_eq). destruct (str_eqb q p); [intro H; inversion H; subst; exact Hs|apply Hok].
      + cbn [fst]. split; [exact Hfs|]. split; [|split; [exact Hok|split; assumption]].
        intros q Hq. destruct (Hpend q Hq) as [->|H]; [rewrite Ep; symmetry; rewrite <- (Hpr p Hnp); exact Ep|apply Hpr; exact H].
    - cbn [h_fs h_procs]. rewrite Hfs. split; [reflexivity|]. split; [|split; [|split; assumption]].
      + intros q Hq. destruct (str_eqb q p) eqn:E.
        * apply str_eqb_eq in E; subst q. rewrite !(df_remove_same str_eqb seq_eq) by assumption. reflexivity.
        * apply str_eqb_neq in E. rewrite !(df_remove_other str_eqb seq_eq) by exact E.
          apply Hpr. destruct (Hpend q Hq) as [->|H]; [contradiction|exact H].
      + intros q sh. destruct (str_eqb q p) eqn:E.
        * apply str_eqb_eq in E; subst q. rewrite (df_remove_same str_eqb seq_eq) by assumption. discriminate.
        * apply str_eqb_neq in E. rewrite (df_remove_other str_eqb seq_eq) by exact E. apply Hok.
  Qed.

  Lemma run_one (h : mh) st0 : run h [st0] = fst (mh_step h st0).
  Proof. reflexivity. Qed.

  Lemma drop_pend q c l : mem_str q (drop_pid c l) = false -> q = c \/ mem_str q l = false.
  Proof.
    intro H. destruct (str_eqb q c) eqn:E; [left; apply str_eqb_eq; exact E|right].
    apply str_eqb_neq in E. rewrite (mem_drop_other c q l E) in H. exact H.
  Qed.

  Lemma sim_step (s : mf) (h : mh) st : Sim s h -> fcall_ok st -> Sim (fst (mf_step s st)) (run h (defork_step s st)).
  Proof.
    intros HS Hc. destruct st as [st0|p c].
    - destruct st0 as [p|c now o|p].
      + cbn [MultiFork.mf_step MultiFork.defork_step lift fst]. rewrite run_one.
        apply sim_mh_step; [exact HS|right; exact I|]. cbn [hpid]. intros q Hq. apply drop_pend. exact Hq.
      + cbn [MultiFork.mf_step MultiFork.defork_step]. destruct (mem_str c (f_pending F s)) eqn:Ep.
        2:{ cbn [lift fst]. rewrite run_one. apply sim_mh_step; [exact HS|left; exact Ep|]. intros q Hq. right. exact Hq. }
        destruct (d_find str_eqb (h_procs F (f_mh F s)) c) as [sh|] eqn:Ec; [|exact HS].
        destruct HS as (Hfs & Hpr & Hok & Hn1 & Hn2). pose proof (Hok c sh Ec) as Hsh.
        destruct (touches metas sh o) eqn:Et.
        * (* the first call that reaches a value object *)
          cbn [lift fst]. cbn [MultiHist.mh_step h_procs h_fs]. rewrite Ec.
          change (HStart c :: map (fun call => HCall c now call) (inherit_calls F 0 sh) ++ [HCall c now o])
            with ([HStart c] ++ map (fun call => HCall c now call) (inherit_calls F 0 sh) ++ [HCall c now o]).
          rewrite !run_app, !run_one. cbn [MultiHist.mh_step fst].
          set (h1 := mkMH F (d_set str_eqb (h_procs F h) c fams) (mp_init_fs c fams metas (h_fs F h))).
          assert (Hf1 : d_find str_eqb (h_procs F h1) c = Some fams).
          { unfold h1. cbn [h_procs]. rewrite (df_set str_eqb seq_eq), str_eqb_refl. reflexivity. }
          destruct (run_calls c now (inherit_calls F 0 sh) h1 fams Hf1) as (R1 & R2 & R3 & R4). cbn zeta in *.
          change (h_fs F h1) with (mp_init_fs c fams metas (h_fs F h)) in R1, R2.
          rewrite (rebind_is_replay c now sh (h_fs F h) Hsh) in R1, R2.
          cbn [p_fs p_shape] in R1, R2.
          set (h2 := run h1 (map (fun call => HCall c now call) (inherit_calls F 0 sh))) in *.
          rewrite R2, R1, <- Hfs.
          pose proof (step_shape_ok c sh (rebind c sh metas (h_fs F (f_mh F s))) now o Hsh) as Hs.
          destruct (mp_step metas c (mkMp F sh (rebind c sh metas (h_fs F (f_mh F s)))) now o) as [q1 out]. cbn [fst].
          unfold Sim. cbn [f_mh f_pending h_fs h_procs]. split; [reflexivity|]. split; [|split; [|split]].
          -- intros q Hq. rewrite !(df_set str_eqb seq_eq). destruct (str_eqb q c) eqn:E; [reflexivity|].
             apply str_eqb_neq in E. rewrite (R3 q E). unfold h1. cbn [h_procs]. rewrite (df_set str_eqb seq_eq).
             apply str_eqb_neq in E. rewrite E. apply Hpr. apply str_eqb_neq in E. rewrite (mem_drop_other c q _ E) in Hq. exact Hq.
          -- intros q sh'. rewrite (df_set str_eqb seq_eq). destruct (str_eqb q c); [intro H; inversion H; subst; exact Hs|apply Hok].
          -- unfold procs_ok. cbn [h_procs]. apply (ds_NoDup str_eqb seq_eq). exact Hn1.
          -- unfold procs_ok. cbn [h_procs]. apply (ds_NoDup str_eqb seq_eq). apply R4. unfold h1, procs_ok. cbn [h_procs].
             apply (ds_NoDup str_eqb seq_eq). exact Hn2.
        * (* a call that reaches no value object: nothing happens *)
          cbn [lift fst]. cbn [MultiHist.mh_step]. rewrite Ec.
          pose proof (untouched c sh (h_fs F (f_mh F s)) now o Et Hc) as Hu.
          destruct (mp_step metas c (mkMp F sh (h_fs F (f_mh F s))) now o) as [q1 out]. cbn [fst] in *. subst q1.
          cbn [p_shape p_fs]. unfold mp_run_multi. cbn [fold_left].
          unfold Sim. cbn [f_mh f_pending h_fs h_procs]. split; [exact Hfs|]. split; [|split; [|split]].
          -- intros q Hq. rewrite (df_set str_eqb seq_eq). destruct (str_eqb q c) eqn:E; [|apply Hpr; exact Hq].
             apply str_eqb_eq in E; subst q. congruence.
          -- intros q sh'. rewrite (df_set str_eqb seq_eq). destruct (str_eqb q c); [intro H; inversion H; subst; exact Hsh|apply Hok].
          -- unfold procs_ok. cbn [h_procs]. apply (ds_NoDup str_eqb seq_eq). exact Hn1.
          -- exact Hn2.
      + cbn [MultiFork.mf_step MultiFork.defork_step lift fst]. rewrite run_one.
        apply sim_mh_step; [exact HS|right; exact I|]. cbn [hpid]. intros q Hq. apply drop_pend. exact Hq.
    - (* the fork *)
      cbn [MultiFork.mf_step MultiFork.defork_step]. unfold mp_run_multi. cbn [fold_left].
      destruct HS as (Hfs & Hpr & Hok & Hn1 & Hn2).
      destruct (d_find str_eqb (h_procs F (f_mh F s)) p) as [sh|] eqn:Ep; cbn [fst]; [|exact (conj Hfs (conj Hpr (conj Hok (conj Hn1 Hn2))))].
      unfold Sim. cbn [f_mh f_pending h_fs h_procs]. split; [exact Hfs|]. split; [|split; [|split]].
      + intros q Hq. cbn [mem_str] in Hq. destruct (str_eqb q c) eqn:E; [discriminate|]. rewrite (df_set str_eqb seq_eq), E.
        apply Hpr. apply str_eqb_neq in E. rewrite (mem_drop_other c q _ E) in Hq. exact Hq.
      + intros q sh'. rewrite (df_set str_eqb seq_eq). destruct (str_eqb q c); [intro H; inversion H; subst; exact (Hok p sh' Ep)|apply Hok].
      + unfold procs_ok. cbn [h_procs]. apply (ds_NoDup str_eqb seq_eq). exact Hn1.
      + exact Hn2.
  Qed.

  Theorem defork_sim : forall (steps : list (fstep F)) (s : mf) (h : mh), Sim s h -> Forall fcall_ok steps ->
    Sim (mf_run s steps) (run h (defork s steps)).
  Proof.
    induction steps as [|st steps IH]; intros s h HS Hc; [exact HS|]. inversion Hc; subst.
    cbn [MultiFork.defork]. rewrite run_app. unfold MultiFork.mf_run. cbn [fold_left]. apply IH; [|assumption].
    apply sim_step; assumption.
  Qed.

  (* the directory after a history with forks is the directory after the fork-free history `defork` *)
  Theorem fork_free (steps : list (fstep F)) : Forall fcall_ok steps ->
    h_fs F (f_mh F (mf_run (mf_init F) steps)) = h_fs F (run (mh_init F) (defork (mf_init F) steps)).
  Proof.
    intro Hc. destruct (defork_sim steps (mf_init F) (mh_init F)) as [H _]; [|exact Hc|exact H].
    unfold Sim, mf_init, mh_init. cbn [f_mh f_pending h_fs h_procs].
    split; [reflexivity|]. split; [intros q0 _; reflexivity|]. split; [intros q0 sh0 H0; discriminate H0|]. split; constructor.
  Qed.

  (* the fork-free history is in the domain of props/C08h.v when the history with forks is: the same pids act, the
     added calls are labels() calls at the clock reading of the call they precede *)
  Lemma defork_step_pids (P : str -> Prop) (s : mf) st : P (fpid F st) -> Forall (fun st0 => P (hpid F st0)) (defork_step s st).
  Proof.
    intro H. destruct st as [st0|p c]; [|constructor]. destruct st0 as [p|c now o|p]; cbn [MultiFork.defork_step fpid hpid] in *.
    - repeat constructor. exact H.
    - destruct (mem_str c (f_pending F s)); [|repeat constructor; exact H].
      destruct (d_find str_eqb (h_procs F (f_mh F s)) c) as [sh|]; [|constructor].
      destruct (touches metas sh o); [|constructor]. constructor; [exact H|]. apply Forall_app. split; [|repeat constructor; exact H].
      apply Forall_forall. intros x Hx. apply in_map_iff in Hx. destruct Hx as [call [<- _]]. exact H.
    - repeat constructor. exact H.
  Qed.

  Theorem defork_pids (P : str -> Prop) : forall (steps : list (fstep F)) (s : mf),
    Forall (fun st => P (fpid F st)) steps -> Forall (fun st0 => P (hpid F st0)) (defork s steps).
  Proof.
    induction steps as [|st steps IH]; intros s H; [constructor|]. inversion H; subst. cbn [MultiFork.defork].
    apply Forall_app. split; [apply defork_step_pids; assumption|apply IH; assumption].
  Qed.

  Lemma inherit_calls_labels : forall (sh : list shape) f call, In call (inherit_calls F f sh) -> exists g a, call = CLabels g a.
  Proof.
    induction sh as [|fam sh IH]; intros f call H; [destruct H|]. cbn [inherit_calls] in H. apply in_app_iff in H. destruct H as [H|H].
    - unfold inherit_fam in H. apply in_map_iff in H. destruct H as [kc [<- _]]. eexists; eexists; reflexivity.
    - eapply IH; exact H.
  Qed.

  Definition fcall_dom (st : fstep F) : Prop :=
    match st with FStep (HCall _ now o) => flt fzero now = true /\ no_removal F o | _ => True end.
  Definition hcall_dom (st : hstep) : Prop :=
    match st with HCall _ now o => flt fzero now = true /\ no_removal F o | _ => True end.

  Theorem defork_calls : forall (steps : list (fstep F)) (s : mf), Forall fcall_dom steps -> Forall hcall_dom (defork s steps).
  Proof.
    induction steps as [|st steps IH]; intros s H; [constructor|]. inversion H as [|? ? H1 H2]; subst. cbn [MultiFork.defork].
    apply Forall_app. split; [|apply IH; assumption]. clear IH H H2.
    destruct st as [st0|p c]; [|constructor]. destruct st0 as [p|c now o|p]; cbn [MultiFork.defork_step fcall_dom] in *.
    - repeat constructor.
    - destruct (mem_str c (f_pending F s)); [|repeat constructor; apply H1].
      destruct (d_find str_eqb (h_procs F (f_mh F s)) c) as [sh|]; [|constructor].
      destruct (touches metas sh o); [|constructor]. constructor; [exact I|]. apply Forall_app. split; [|repeat constructor; apply H1].
      apply Forall_forall. intros x Hx. apply in_map_iff in Hx. destruct Hx as [call [<- Hin]]. cbn [hcall_dom].
      split; [apply H1|]. destruct (inherit_calls_labels sh 0 call Hin) as [g [a ->]]. exact I.
    - repeat constructor.
  Qed.
End Fork.

(* ================= Part D: the collection theorems of props/C08h.v over histories with forks ================= *)
From V Require Import proofs.MultiCollectProofs.

Section Transfer.
  Variable F : Type.
  Variables fzero fone : F.
  Variable fadd : F -> F -> F.
  Variable fneg : F -> F.
  Variables flt fle feqb : F -> F -> bool.
  Variable of_Z : Z -> res F.
  Variable zlef : Z -> F -> bool.
  Variable parse_le : str -> F.
  Variable fmt_le : F -> str.
  Variable fams0 : mregistry F.
  Variable metas : list fmeta.
  Variable fsteps : list (fstep F).

  Notation fams := (map (shape_of F) fams0).
  Notation mf_run := (mf_run F fzero fone fadd fneg flt fle feqb of_Z zlef fmt_le fams metas).
  Notation defork := (defork F fzero fone fadd fneg flt fle feqb of_Z zlef fmt_le fams metas).

  (* the domain of props/C08h.v, for a history with forks *)
  Hypothesis Hwf : wf_reg F fzero fmt_le metas fams0.
  Hypothesis Hus : Forall (fun st => ~ In Multiproc.US (fpid F st)) fsteps.
  Hypothesis Hcalls : Forall (fcall_dom F fzero flt) fsteps.
  Hypothesis FLT_pos : forall t, flt fzero t = true -> feqb t fzero = false.

  (* the fork-free history that stands for it *)
  Definition plain : list (hstep F) := defork (mf_init F) fsteps.

  Lemma plain_us : Forall (fun st => ~ In Multiproc.US (hpid F st)) plain.
  Proof. apply (defork_pids F fzero fone fadd fneg flt fle feqb of_Z zlef fmt_le fams metas (fun p => ~ In Multiproc.US p)). exact Hus. Qed.

  Lemma plain_calls : Forall (hcall_ok F fzero flt) plain.
  Proof. apply (defork_calls F fzero fone fadd fneg flt fle feqb of_Z zlef fmt_le fams metas). exact Hcalls. Qed.

  Lemma fams_fresh : Forall (fun fam : shape F => f_children fam = []) fams.
  Proof.
    apply Forall_forall. intros fam H. apply in_map_iff in H. destruct H as [fam0 [<- H]].
    destruct Hwf as (_ & _ & Hw & _). destruct (Hw fam0 H) as (_ & _ & [Hc _]). unfold shape_of. cbn [f_children]. rewrite Hc. reflexivity.
  Qed.

  Lemma metas_len : length metas = length fams.
  Proof. destruct Hwf as (Hl & _). rewrite map_length. exact Hl. Qed.

  Lemma calls_weaken : Forall (fcall_ok F) fsteps.
  Proof.
    eapply Forall_impl; [|exact Hcalls]. intros [[p|p now o|p]|p c] H; cbn [fcall_ok fcall_dom] in *; try exact I. apply H.
  Qed.

  Notation DIR := (DIR F fzero fone fadd fneg flt fle feqb of_Z zlef fmt_le fams0 metas plain).

  Theorem forked_dir : h_fs F (f_mh F (mf_run (mf_init F) fsteps)) = DIR.
  Proof.
    unfold MultiCollectProofs.DIR, plain.
    apply (fork_free F fzero fone fadd fneg flt fle feqb of_Z zlef fmt_le fams metas fams_fresh metas_len fsteps calls_weaken).
  Qed.

  Notation COLLECT := (collect_mp F fzero fadd flt feqb parse_le fmt_le (h_fs F (f_mh F (mf_run (mf_init F) fsteps)))).
  Notation SERIES fam0 k := (d_find Multiproc.skey_eqb (mp_family F (f_name fam0) COLLECT) k).
  Notation readers := (readers F fzero fone fadd fneg flt fle feqb of_Z zlef fmt_le fams0 metas plain).
  Notation per_reader := (per_reader F fzero fadd fneg flt fle of_Z zlef fams0 metas plain).

  Theorem counter_forks f fam0 me lv :
    nth_error fams0 f = Some fam0 -> nth_error metas f = Some me -> f_kind fam0 = KCounter ->
    length lv = length (f_labelnames fam0) ->
    SERIES fam0 (f_name fam0 ++ SUF_total, lab (f_labelnames fam0) lv)
    = MultiprocSpec.agg_sum F fzero fadd (flat_map (per_reader f lv (@ctr_val F)) (readers fam0 me)).
  Proof.
    rewrite forked_dir.
    exact (counter_series F fzero fone fadd fneg flt fle feqb of_Z zlef fmt_le fams0 metas plain Hwf plain_us plain_calls FLT_pos parse_le f fam0 me lv).
  Qed.

  Theorem gauge_min_forks f fam0 me lv :
    nth_error fams0 f = Some fam0 -> nth_error metas f = Some me -> f_kind fam0 = KGauge ->
    length lv = length (f_labelnames fam0) ->
    Multiproc.is_mode Multiproc.M_min Multiproc.M_livemin (fm_mode me) = true ->
    SERIES fam0 (f_name fam0, lab (f_labelnames fam0) lv)
    = MultiprocSpec.agg_min F flt (flat_map (per_reader f lv (@gge_val F)) (readers fam0 me)).
  Proof.
    rewrite forked_dir.
    exact (gauge_min F fzero fone fadd fneg flt fle feqb of_Z zlef fmt_le fams0 metas plain Hwf plain_us plain_calls FLT_pos parse_le f fam0 me lv).
  Qed.
End Transfer.
