(* The implicit unknown family a sample starts (C04, second direction; fixes/C04-om-implicit-family-name.diff).

   Pinned source: text_fd_to_metric_families names that family _unquote_unescape(sample.name) although sample.name is
   already unquoted and unescaped, so the family can be named differently from the one sample it was opened for
   (the quoted sample name ' a' gives family a holding sample ' a'; the exposition of that family is rejected with
   Clashing name).  Repaired source (flag fix_sname of model/OMParser.v): the family takes the sample's name as it is.

   1. witnesses, evaluated with the toy oracles of proofs/OMWitness.v, for both settings of the flag;
   2. enter_family_named: in the repaired model the state a sample opens is named by that sample and allows exactly
      that name;
   3. parse_unknown_named: in the repaired model EVERY family of type unknown that om_parse returns holds only samples
      that carry the family's name - for arbitrary oracles and every setting of the other flags. *)
From V Require Import lib.PyBase lib.PyStr model.Validation model.Expo model.TextParser model.OMParser
  proofs.OMProofs proofs.OMRulesProofs proofs.OMWitness.
Open Scope N_scope.

(* ------------------------------------------------------------------ 1. witnesses *)
Definition doc_implicit_sp := "{"" a""} 1
# EOF
"%string.
Definition doc_implicit_trail := "{""a ""} 1
# EOF
"%string.
Definition doc_implicit_total := "{"" a_total""} 1
# EOF
"%string.
(* the quoted name is itself wrapped in quote characters: the second unquoting removes them *)
Definition doc_implicit_quoted := "{""\""a\""""} 1
# EOF
"%string.
(* a quoted UTF-8 name without metadata: the pinned source rejects it (no second unquoting, not a legacy name) *)
Definition doc_implicit_dotted := "{""a.b""} 1
# EOF
"%string.

(* (family name, names of its samples) for every family *)
Definition fam_shape (r : res (list (om_family Z))) : res (list (str * str * list str)) :=
  match r with
  | Ok fams => Ok (map (fun f => (of_name f, of_type f, map (@os_name Z) (of_samples f))) fams)
  | Err e => Err e
  end.
Definition toy_shape (sname : bool) (doc : string) := fam_shape (toy_parse true true true true true sname doc).

Lemma implicit_sp_orig : toy_shape false doc_implicit_sp = Ok [(s2l "a", OM_unknown, [s2l " a"])].
Proof. vm_compute. reflexivity. Qed.
Lemma implicit_sp_fixed : toy_shape true doc_implicit_sp = Ok [(s2l " a", OM_unknown, [s2l " a"])].
Proof. vm_compute. reflexivity. Qed.
Lemma implicit_trail_orig : toy_shape false doc_implicit_trail = Ok [(s2l "a", OM_unknown, [s2l "a "])].
Proof. vm_compute. reflexivity. Qed.
Lemma implicit_trail_fixed : toy_shape true doc_implicit_trail = Ok [(s2l "a ", OM_unknown, [s2l "a "])].
Proof. vm_compute. reflexivity. Qed.
Lemma implicit_total_orig : toy_shape false doc_implicit_total = Ok [(s2l "a_total", OM_unknown, [s2l " a_total"])].
Proof. vm_compute. reflexivity. Qed.
Lemma implicit_total_fixed : toy_shape true doc_implicit_total = Ok [(s2l " a_total", OM_unknown, [s2l " a_total"])].
Proof. vm_compute. reflexivity. Qed.
Lemma implicit_quoted_orig : toy_shape false doc_implicit_quoted = Ok [(s2l "a", OM_unknown, [s2l """a"""])].
Proof. vm_compute. reflexivity. Qed.
Lemma implicit_quoted_fixed : toy_shape true doc_implicit_quoted = Ok [(s2l """a""", OM_unknown, [s2l """a"""])].
Proof. vm_compute. reflexivity. Qed.
Lemma implicit_dotted_orig : toy_shape false doc_implicit_dotted = Err ValueError.
Proof. vm_compute. reflexivity. Qed.
Lemma implicit_dotted_fixed : toy_shape true doc_implicit_dotted = Ok [(s2l "a.b", OM_unknown, [s2l "a.b"])].
Proof. vm_compute. reflexivity. Qed.

(* ------------------------------------------------------------------ 2. and 3. the repaired model *)
Section Named.
  Variable legacy guard_fix fix_nhkeys fix_nhsfx fix_tsmix fix_isnan fix_unit fix_quote fix_tsexp : bool.
  Variable NUM : Type.
  Variable parse_num parse_float : str -> option NUM.
  Variable parse_int : str -> option Z.
  Variable num_lt num_eqb : NUM -> NUM -> bool.
  Variable num_isinf num_integral num_huge : NUM -> bool.
  Variable num_zero num_one num_inf : NUM.
  Variable ts_float : Z -> Z -> option NUM.
  Variable is_word is_space_re is_digit_re : char -> bool.

  Notation step := (om_step_line legacy guard_fix fix_nhkeys fix_nhsfx fix_tsmix fix_isnan fix_unit fix_quote fix_tsexp true
                      NUM parse_num parse_float parse_int num_lt num_eqb num_isinf num_integral num_huge
                      num_zero num_one num_inf ts_float is_word is_space_re is_digit_re).
  Notation run := (om_run_lines legacy guard_fix fix_nhkeys fix_nhsfx fix_tsmix fix_isnan fix_unit fix_quote fix_tsexp true
                      NUM parse_num parse_float parse_int num_lt num_eqb num_isinf num_integral num_huge
                      num_zero num_one num_inf ts_float is_word is_space_re is_digit_re).
  Notation parse := (om_parse legacy guard_fix fix_nhkeys fix_nhsfx fix_tsmix fix_isnan fix_unit fix_quote fix_tsexp true
                      NUM parse_num parse_float parse_int num_lt num_eqb num_isinf num_integral num_huge
                      num_zero num_one num_inf ts_float is_word is_space_re is_digit_re).
  Notation flush := (om_flush legacy NUM parse_float num_lt num_eqb num_zero num_inf).
  Notation build_metric := (om_build_metric legacy NUM parse_float num_lt num_eqb num_zero num_inf).
  Notation meta_line := (om_meta_line legacy guard_fix fix_unit NUM parse_float num_lt num_eqb num_zero num_inf).
  Notation sample_line := (om_sample_line legacy guard_fix fix_nhkeys fix_nhsfx fix_tsmix fix_isnan fix_quote fix_tsexp true
                      NUM parse_num parse_float parse_int num_lt num_eqb num_isinf num_integral num_huge
                      num_zero num_one num_inf ts_float is_word is_space_re is_digit_re).
  Notation enter_family := (om_enter_family legacy guard_fix fix_nhsfx true NUM parse_float num_lt num_eqb num_zero num_inf).
  Notation group_step := (om_group_step fix_tsmix NUM num_lt num_eqb ts_float).
  Notation read_sample := (om_read_sample legacy guard_fix fix_nhkeys fix_nhsfx fix_quote fix_tsexp true NUM parse_num parse_float
                             parse_int num_eqb num_isinf is_word is_space_re is_digit_re).
  Notation st0 := (@om_st_init NUM).

  (* ---- 2. the state a sample opens ---- *)
  Theorem enter_family_named st (s : om_sample NUM) st' out :
    enter_family st s false = Ok (st', out) -> mem_str (os_name s) (st_allowed st) = false ->
    st_name st' = Some (os_name s) /\ st_allowed st' = [os_name s] /\ st_typ st' = Some OM_unknown /\
    st_samples st' = [] /\ exists seen', flush st = Ok (out, seen') /\ st_seen st' = seen'.
  Proof.
    unfold om_enter_family, om_implicit_name. intros H Hm. rewrite Hm in H. cbn [negb andb] in H.
    apply bind_ok in H as ([fams seen'] & Hf & H). cbn [bind] in H. inversion H; subst st' out; clear H.
    cbn. repeat split. exists seen'. split; [exact Hf|reflexivity].
  Qed.

  (* the other case: the family in progress allows the name (or the line is a native-histogram sample) *)
  Lemma enter_family_same st (s : om_sample NUM) b st' out :
    enter_family st s b = Ok (st', out) -> b = true \/ mem_str (os_name s) (st_allowed st) = true ->
    st' = st /\ out = [].
  Proof.
    unfold om_enter_family. intros H Hc.
    destruct (negb (mem_str (os_name s) (st_allowed st)) && negb (b && _)) eqn:C.
    - destruct Hc as [->|Hm]; [discriminate|]. rewrite Hm in C. discriminate.
    - inversion H; subst. split; reflexivity.
  Qed.

  (* ---- 3. families of type unknown hold samples of their own name only ---- *)
  Definition fam_named (f : om_family NUM) : Prop :=
    of_type f = OM_unknown -> Forall (fun s => os_name s = of_name f) (of_samples f).

  (* the family in progress has no TYPE line (it will be built as unknown) or is of type unknown *)
  Definition plain (t : option str) : Prop := t = None \/ t = Some OM_unknown.

  Definition NamedInv (st : om_st NUM) : Prop :=
    plain (st_typ st) -> forall n, st_name st = Some n ->
    (forall a, In a (st_allowed st) -> a = n) /\ Forall (fun s => os_name s = n) (st_samples st).

  Lemma NamedInv_init : NamedInv st0.
  Proof. intros _ n H. discriminate. Qed.

  Lemma NamedInv_new st seen n t : NamedInv (om_new_family st seen n t [n]).
  Proof.
    intros _ m H. cbn in H. inversion H; subst m; clear H. cbn. split; [|constructor].
    intros a [<-|[]]. reflexivity.
  Qed.

  Lemma build_metric_fields seen n doc typ unit samples (m : om_family NUM) seen' :
    build_metric seen n doc typ unit samples = Ok (m, seen') ->
    of_name m = n /\ of_type m = (match typ with None => OM_unknown | Some t => t end) /\ of_samples m = samples.
  Proof.
    unfold om_build_metric. cbv zeta. intro H. crack H; inversion H; subst; clear H; cbn; auto.
  Qed.

  Lemma flush_named st out seen' : NamedInv st -> flush st = Ok (out, seen') -> Forall fam_named out.
  Proof.
    intros I H. unfold om_flush in H. destruct (st_name st) as [n|] eqn:N.
    - apply bind_ok in H as ([m seen1] & Hb & H). inversion H; subst out seen1; clear H.
      apply build_metric_fields in Hb as (B1 & B2 & B3). constructor; [|constructor].
      intro T. rewrite B1, B3. apply Forall_rev.
      refine (proj2 (I _ n N)). rewrite B2 in T. destruct (st_typ st) as [t|]; [right; exact (f_equal Some T)|left; reflexivity].
    - inversion H; subst. constructor.
  Qed.

  Lemma unknown_suffixes : om_type_suffixes OM_unknown [[]] = [[]].
  Proof. vm_compute. reflexivity. Qed.

  Lemma meta_line_named st line st' out :
    NamedInv st -> meta_line st line = Ok (st', out) -> NamedInv st' /\ Forall fam_named out.
  Proof.
    intros I H. unfold om_meta_line in H. apply bind_ok in H as (parts & Hs & H).
    destruct parts as [|p0 [|kw [|p2 [|p3 rest]]]]; try discriminate.
    apply bind_ok in H as ([cand quoted] & Hu & H).
    destruct (negb quoted && negb (is_valid_legacy_metric_name cand)); [discriminate|].
    destruct (om_opt_str_eqb (st_name st) cand && _); [discriminate|].
    apply bind_ok in H as ([st1 out1] & H1 & H).
    assert (G : NamedInv st1 /\ Forall fam_named out1 /\ (st_typ st1 = None -> st_name st1 = Some cand)).
    { destruct (negb (om_opt_str_eqb (st_name st) cand)) eqn:Same.
      - apply bind_ok in H1 as ([fams seen'] & Hf & H1). inversion H1; subst st1 out1; clear H1.
        split; [apply NamedInv_new|]. split; [eapply flush_named; eauto|]. reflexivity.
      - inversion H1; subst st1 out1; clear H1. split; [exact I|]. split; [constructor|].
        intros _. apply negb_false_iff in Same. destruct (st_name st) as [m|]; [|discriminate].
        unfold om_opt_str_eqb in Same. apply str_eqb_eq in Same. exact (f_equal Some Same). }
    destruct G as (I1 & F1 & N1).
    destruct (str_eqb kw OM_HELP).
    { destruct (st_doc st1); [discriminate|]. inversion H; subst st' out; clear H. split; [exact I1|exact F1]. }
    destruct (str_eqb kw OM_TYPE).
    { destruct (st_typ st1) eqn:T1; [discriminate|]. destruct (str_eqb p3 OM_untyped); [discriminate|].
      inversion H; subst st' out; clear H. split; [|exact F1].
      intros P n Hn. cbn in P, Hn |- *.
      rewrite (N1 eq_refl) in Hn. inversion Hn; subst n; clear Hn. split.
      - destruct P as [P|P]; [discriminate|]. inversion P; subst p3. rewrite unknown_suffixes. cbn.
        intros a [<-|[]]. apply app_nil_r.
      - refine (proj2 (I1 _ cand (N1 eq_refl))). left. exact T1. }
    destruct (str_eqb kw OM_UNIT); [|discriminate].
    destruct (st_unit st1); [discriminate|]. inversion H; subst st' out; clear H. split; [exact I1|exact F1].
  Qed.

  Lemma read_sample_nh typ line (s : om_sample NUM) :
    read_sample typ line = Ok (s, true) -> typ = Some OM_histogram.
  Proof.
    unfold om_read_sample. destruct (om_typ_is typ OM_histogram) eqn:T.
    - intros _. destruct typ as [t|]; [|discriminate]. unfold om_typ_is, om_opt_str_eqb in T.
      apply str_eqb_eq in T. exact (f_equal Some T).
    - intro H. apply bind_ok in H as (s1 & _ & H). inversion H.
  Qed.

  Lemma hist_not_plain : ~ plain (Some OM_histogram).
  Proof. intros [H|H]; [discriminate|]. inversion H. Qed.

  Lemma sample_line_named st line st' out :
    NamedInv st -> sample_line st line = Ok (st', out) -> NamedInv st' /\ Forall fam_named out.
  Proof.
    intros I H. unfold om_sample_line in H.
    apply bind_ok in H as ([s b] & Hr & H). apply bind_ok in H as ([st1 out1] & He & H).
    destruct (st_name st1) as [name|] eqn:Hn; [|discriminate].
    apply bind_ok in H as ([] & Hpre & H). apply bind_ok in H as (st2 & Hg & H).
    apply bind_ok in H as ([] & Hpost & H). inversion H; subst st2 out1; clear H.
    destruct b.
    - (* native-histogram sample: the family in progress is a histogram *)
      apply read_sample_nh in Hr.
      apply enter_family_same in He as [-> ->]; [|left; reflexivity].
      cbn [negb] in Hg. inversion Hg; subst st'; clear Hg. split; [|constructor].
      intros P. cbn in P. rewrite Hr in P. destruct (hist_not_plain P).
    - cbn [negb] in Hg. apply group_step_fields in Hg as (G1 & _ & G3 & _ & _ & G6 & _ & G8).
      assert (K : NamedInv st1 /\ Forall fam_named out /\ mem_str (os_name s) (st_allowed st1) = true).
      { destruct (mem_str (os_name s) (st_allowed st)) eqn:Hm.
        - apply enter_family_same in He as [-> ->]; [|right; exact Hm]. split; [exact I|]. split; [constructor|exact Hm].
        - pose proof (enter_family_named st s st1 out He Hm) as (E1 & E2 & E3 & E4 & seen' & Hf & E5).
          split; [|split; [eapply flush_named; eauto|]].
          + intros _ n Hn'. rewrite E1 in Hn'. inversion Hn'; subst n. rewrite E2, E4. split; [|constructor].
            intros a [<-|[]]. reflexivity.
          + rewrite E2. cbn. rewrite str_eqb_refl. reflexivity. }
      destruct K as (I1 & F1 & Hal). split; [|exact F1].
      intros P n Hn'. rewrite G3 in P. rewrite G1 in Hn'. rewrite G6.
      destruct (I1 P n Hn') as [A B]. split; [exact A|].
      destruct G8 as [->| ->]; [exact B|]. constructor; [|exact B].
      apply A. apply mem_str_In. exact Hal.
  Qed.

  Lemma step_named st l st' out :
    NamedInv st -> step st l = Ok (st', out) -> NamedInv st' /\ Forall fam_named out.
  Proof.
    intros I H. apply step_ok_cases in H as (_ & [H | [[_ H] | [_ H]]]).
    - destruct H as (_ & -> & A & _ & C & _ & _ & F & G & _). split; [|constructor].
      intros P n Hn. rewrite C in P. rewrite A in Hn. rewrite F, G. exact (I P n Hn).
    - eapply meta_line_named; eauto.
    - eapply sample_line_named; eauto.
  Qed.

  Lemma run_named lines : forall st acc fams,
    NamedInv st -> Forall fam_named acc -> run st lines acc = Ok fams -> Forall fam_named fams.
  Proof.
    induction lines as [|l r IH]; intros st acc fams I A H; cbn [om_run_lines] in H.
    - apply bind_ok in H as ([out seen'] & Hf & H). destruct (st_eof st); [|discriminate].
      inversion H; subst fams. apply Forall_app. split; [exact A|]. eapply flush_named; eauto.
    - apply bind_ok in H as ([st' out] & Hs & H). destruct (step_named st l st' out I Hs) as [I' F].
      eapply IH; [exact I'| |exact H]. apply Forall_app. split; assumption.
  Qed.

  Theorem parse_unknown_named text fams : parse text = Ok fams -> Forall fam_named fams.
  Proof. unfold om_parse. apply run_named; [apply NamedInv_init|constructor]. Qed.
End Named.

(* the pinned model does not have the property: the family a of doc_implicit_sp is unknown and holds ' a' *)
Lemma parse_unknown_named_orig_refuted :
  exists fams f, toy_parse true true true true true false doc_implicit_sp = Ok fams /\ In f fams /\
                 of_type f = OM_unknown /\ ~ Forall (fun s => os_name s = of_name f) (of_samples f).
Proof.
  eexists. eexists. split; [vm_compute; reflexivity|]. split; [left; reflexivity|]. split; [reflexivity|].
  intro H. inversion H; subst. cbn in *. discriminate.
Qed.
