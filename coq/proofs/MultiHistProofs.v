(* C08 over worker histories (model/MultiHist.v): proofs.
   Part A  locality: a step of worker p reads and writes only the files of pid p; mark_process_dead(q) removes only
           files of pid q (pids without underscore).  Hence the files of pid p after ANY interleaving are the directory
           of the run of p's own steps alone.
   Part B  the run of one pid's steps alone is Equiv.mp_run of the calls of its process (pid started once).
   Part C  the entries the collector groups under a family name over the shared directory, and the per-kind
           aggregates in terms of the workers' in-memory registries. *)
From V Require Import lib.PyBase lib.Tac.
From V Require Import model.Metrics model.Equiv model.MultiHist.
From V Require Import proofs.EquivProofs proofs.EquivHistProofs proofs.EquivLenProofs.
From V Require model.Multiproc model.Values model.MultiprocSpec proofs.MultiprocProofs proofs.ValuesProofs.
From Coq Require Import Permutation.
Ltac Zify.zify_post_hook ::= Z.to_euclidean_division_equations.
Open Scope N_scope.

(* ================= Part A: locality ================= *)
Section Restrict.
  Variable F : Type.
  Notation fs := (Values.fs F).
  Notation fneq := Values.fname_eqb.
  Let fneq_eq := ValuesProofs.fname_eqb_eq.
  Notation rp := (fs_of_pid F).

  Lemma rp_find (p : str) (d : fs) pre : d_find fneq (rp p d) (pre, p) = d_find fneq d (pre, p).
  Proof.
    induction d as [|[fn c] d IH]; [reflexivity|]. unfold fs_of_pid in *. cbn [filter fst snd d_find].
    destruct (fneq (pre, p) fn) eqn:E.
    - apply fneq_eq in E; subst fn. cbn [snd]. rewrite str_eqb_refl. cbn [d_find]. rewrite (kq_refl fneq fneq_eq). reflexivity.
    - destruct (str_eqb (snd fn) p); [cbn [d_find]; rewrite E|]; exact IH.
  Qed.

  Lemma rp_set_same (p : str) (d : fs) pre c : rp p (d_set fneq d (pre, p) c) = d_set fneq (rp p d) (pre, p) c.
  Proof.
    induction d as [|[fn c0] d IH]; unfold fs_of_pid in *.
    - cbn [d_set filter fst snd]. rewrite str_eqb_refl. reflexivity.
    - cbn [d_set]. destruct (fneq (pre, p) fn) eqn:E.
      + apply fneq_eq in E; subst fn. cbn [filter fst snd]. rewrite str_eqb_refl. cbn [d_set].
        rewrite (kq_refl fneq fneq_eq). reflexivity.
      + cbn [filter fst snd]. destruct (str_eqb (snd fn) p); [cbn [d_set]; rewrite E; f_equal|]; exact IH.
  Qed.

  Lemma rp_set_other (p q : str) (d : fs) pre c : q <> p -> rp q (d_set fneq d (pre, p) c) = rp q d.
  Proof.
    intro Hq. assert (Hf : str_eqb p q = false) by (apply str_eqb_neq; congruence).
    induction d as [|[fn c0] d IH]; unfold fs_of_pid in *.
    - cbn [d_set filter fst snd]. rewrite Hf. reflexivity.
    - cbn [d_set]. destruct (fneq (pre, p) fn) eqn:E.
      + apply fneq_eq in E; subst fn. cbn [filter fst snd]. rewrite Hf. reflexivity.
      + cbn [filter fst snd]. destruct (str_eqb (snd fn) q); [f_equal|]; exact IH.
  Qed.

  Lemma rp_idem (p : str) (d : fs) : rp p (rp p d) = rp p d.
  Proof.
    unfold fs_of_pid. induction d as [|[fn c] d IH]; [reflexivity|]. cbn [filter fst snd].
    destruct (str_eqb (snd fn) p) eqn:E; [cbn [filter fst snd]; rewrite E; f_equal|]; exact IH.
  Qed.

  Lemma rp_other_nil (p q : str) (d : fs) : q <> p -> rp q (rp p d) = [].
  Proof.
    intro Hq. unfold fs_of_pid. induction d as [|[fn c] d IH]; [reflexivity|]. cbn [filter fst snd].
    destruct (str_eqb (snd fn) p) eqn:E; [|exact IH]. cbn [filter fst snd].
    apply str_eqb_eq in E. rewrite E. rewrite (proj2 (str_eqb_neq p q)) by congruence. exact IH.
  Qed.

  Lemma rp_content (p : str) (d : fs) pre : Values.fs_content F (rp p d) (pre, p) = Values.fs_content F d (pre, p).
  Proof. unfold Values.fs_content. rewrite rp_find. reflexivity. Qed.
End Restrict.

Section Local.
  Variable F : Type.
  Variables fzero fone : F.
  Variable fadd : F -> F -> F.
  Variable fneg : F -> F.
  Variables flt fle feqb : F -> F -> bool.
  Variable of_Z : Z -> res F.
  Variable zlef : Z -> F -> bool.
  Variable fmt_le : F -> str.

  Notation fs := (Values.fs F).
  Notation fneq := Values.fname_eqb.
  Let fneq_eq := ValuesProofs.fname_eqb_eq.
  Notation rp := (fs_of_pid F).
  Notation rd := (rd F fzero).
  Notation wr := (wr F fzero).
  Notation mp_new := (mp_new F fzero).
  Notation mp_create := (mp_create F fzero).
  Notation mp_inc := (mp_inc F fzero fadd).
  Notation mp_apply := (mp_apply F fzero fone fadd fneg flt fle feqb of_Z zlef fmt_le).
  Notation mp_ensure := (mp_ensure F fzero fmt_le).
  Notation mp_step := (mp_step F fzero fone fadd fneg flt fle feqb of_Z zlef fmt_le).
  Notation mp_init_fs := (mp_init_fs F fzero fmt_le).
  Notation fam_file := (fam_file F).
  Notation shape := (shape F).

  (* ----- the primitives on a file of pid p ----- *)
  Lemma rd_rp p d pre k : rd (rp p d) (pre, p) k = rd d (pre, p) k.
  Proof. unfold Equiv.rd, Values.fs_cell. rewrite rp_content. reflexivity. Qed.

  Lemma wr_rp p d pre k v ts : rp p (wr d (pre, p) k v ts) = wr (rp p d) (pre, p) k v ts.
  Proof. unfold Equiv.wr, Values.fs_write. rewrite rp_set_same, rp_content. reflexivity. Qed.
  Lemma wr_other p q d pre k v ts : q <> p -> rp q (wr d (pre, p) k v ts) = rp q d.
  Proof. intro H. unfold Equiv.wr, Values.fs_write. apply rp_set_other. exact H. Qed.

  Lemma inc_rp p d pre k x : rp p (mp_inc d (pre, p) k x) = mp_inc (rp p d) (pre, p) k x.
  Proof. unfold Equiv.mp_inc. rewrite wr_rp, rd_rp. reflexivity. Qed.
  Lemma inc_other p q d pre k x : q <> p -> rp q (mp_inc d (pre, p) k x) = rp q d.
  Proof. intro H. unfold Equiv.mp_inc. apply wr_other. exact H. Qed.

  Lemma open_rp p d pre : rp p (Values.fs_open F d (pre, p)) = Values.fs_open F (rp p d) (pre, p).
  Proof.
    unfold Values.fs_open. rewrite rp_find. destruct (d_find fneq d (pre, p)); [reflexivity|]. apply rp_set_same.
  Qed.
  Lemma open_other p q d pre : q <> p -> rp q (Values.fs_open F d (pre, p)) = rp q d.
  Proof.
    intro H. unfold Values.fs_open. destruct (d_find fneq d (pre, p)); [reflexivity|]. apply rp_set_other. exact H.
  Qed.

  Lemma new_rp p d pre k : rp p (mp_new d (pre, p) k) = mp_new (rp p d) (pre, p) k.
  Proof.
    unfold Equiv.mp_new, Values.fs_read. cbn [fst]. rewrite rp_set_same.
    rewrite <- (rp_content F p (Values.fs_open F d (pre, p)) pre). rewrite open_rp. reflexivity.
  Qed.
  Lemma new_other p q d pre k : q <> p -> rp q (mp_new d (pre, p) k) = rp q d.
  Proof.
    intro H. unfold Equiv.mp_new, Values.fs_read. cbn [fst]. rewrite rp_set_other by exact H. apply open_other. exact H.
  Qed.

  Lemma create_rp p pre ks : forall d, rp p (mp_create d (pre, p) ks) = mp_create (rp p d) (pre, p) ks.
  Proof.
    unfold Equiv.mp_create. induction ks as [|k ks IH]; intro d; [reflexivity|]. cbn [fold_left].
    rewrite IH, new_rp. reflexivity.
  Qed.
  Lemma create_other p q pre ks : q <> p -> forall d, rp q (mp_create d (pre, p) ks) = rp q d.
  Proof.
    intro H. unfold Equiv.mp_create. induction ks as [|k ks IH]; intro d; [reflexivity|]. cbn [fold_left].
    rewrite IH. apply new_other. exact H.
  Qed.

  Lemma fam_file_pid {C} (fam : mfamily F C) me p : fam_file fam me p = (fst (fam_file fam me p), p).
  Proof. reflexivity. Qed.

  (* ----- the update methods ----- *)
  Lemma apply_rp (fam : shape) me p now d lv m :
    mp_apply fam me p now (rp p d) lv m = (rp p (fst (mp_apply fam me p now d lv m)), snd (mp_apply fam me p now d lv m)).
  Proof.
    unfold Equiv.mp_apply. rewrite (fam_file_pid fam me p). generalize (fst (fam_file fam me p)) as pre. intro pre.
    destruct (f_kind fam), m as [a|a|a|a| |kv|st]; cbn [fst snd]; try reflexivity;
      repeat match goal with
             | |- context [if ?b then _ else _] => destruct b
             | |- context [match ?x with Ok _ => _ | Err _ => _ end] => destruct x
             | |- context [match ?x with Some _ => _ | None => _ end] => destruct x
             end; cbn [fst snd]; rewrite ?inc_rp, ?wr_rp; reflexivity.
  Qed.

  Lemma apply_other (fam : shape) me p q now d lv m : q <> p -> rp q (fst (mp_apply fam me p now d lv m)) = rp q d.
  Proof.
    intro H. unfold Equiv.mp_apply. rewrite (fam_file_pid fam me p). generalize (fst (fam_file fam me p)) as pre. intro pre.
    destruct (f_kind fam), m as [a|a|a|a| |kv|st]; cbn [fst snd]; try reflexivity;
      repeat match goal with
             | |- context [if ?b then _ else _] => destruct b
             | |- context [match ?x with Ok _ => _ | Err _ => _ end] => destruct x
             | |- context [match ?x with Some _ => _ | None => _ end] => destruct x
             end; cbn [fst snd]; rewrite ?(inc_other p q) by exact H; rewrite ?(wr_other p q) by exact H; reflexivity.
  Qed.

  Lemma ensure_rp (fam : shape) me p d k :
    mp_ensure fam me p (rp p d) k = (fst (mp_ensure fam me p d k), rp p (snd (mp_ensure fam me p d k))).
  Proof.
    unfold Equiv.mp_ensure. destruct (d_find key_eqb (f_children fam) k); [reflexivity|]. cbn [fst snd].
    rewrite (fam_file_pid fam me p), create_rp. reflexivity.
  Qed.
  Lemma ensure_other (fam : shape) me p q d k : q <> p -> rp q (snd (mp_ensure fam me p d k)) = rp q d.
  Proof.
    intro H. unfold Equiv.mp_ensure. destruct (d_find key_eqb (f_children fam) k); [reflexivity|]. cbn [snd].
    rewrite (fam_file_pid fam me p). apply create_other. exact H.
  Qed.

  (* ----- one call of worker p ----- *)
  Lemma step_rp metas p sh d now o :
    mp_step metas p (mkMp F sh (rp p d)) now o
    = (mkMp F (p_shape F (fst (mp_step metas p (mkMp F sh d) now o))) (rp p (p_fs F (fst (mp_step metas p (mkMp F sh d) now o)))),
       snd (mp_step metas p (mkMp F sh d) now o)).
  Proof.
    unfold Equiv.mp_step. cbn [p_shape p_fs]. destruct o as [f a m|f a|f vs|f].
    - destruct (nth_error sh f) as [fam|]; [|reflexivity]. destruct (nth_error metas f) as [me|]; [|reflexivity].
      destruct (resolve (f_labelnames fam) a) as [[k|]|e]; [| |reflexivity].
      + rewrite ensure_rp. destruct (mp_ensure fam me p d k) as [fam' d1]. cbn [fst snd].
        destruct (mr_blocked F (f_kind fam) (fm_mode me) m); [reflexivity|].
        rewrite apply_rp. destruct (mp_apply fam me p now d1 k m) as [d2 out]. reflexivity.
      + destruct (mr_blocked F (f_kind fam) (fm_mode me) m); [reflexivity|].
        destruct (is_nil (f_labelnames fam)); [|reflexivity].
        rewrite apply_rp. destruct (mp_apply fam me p now d [] m) as [d2 out]. reflexivity.
    - destruct (nth_error sh f) as [fam|]; [|reflexivity]. destruct (nth_error metas f) as [me|]; [|reflexivity].
      destruct (resolve (f_labelnames fam) a) as [[k|]|e]; try reflexivity.
      rewrite ensure_rp. destruct (mp_ensure fam me p d k) as [fam' d1]. reflexivity.
    - destruct (nth_error sh f) as [fam|]; [|reflexivity].
      destruct (is_nil (f_labelnames fam)); [reflexivity|]. destruct (negb _); reflexivity.
    - destruct (nth_error sh f) as [fam|]; [|reflexivity].
      destruct (is_nil (f_labelnames fam)); [destruct (f_kind fam); reflexivity|reflexivity].
  Qed.

  Lemma step_other metas p q sh d now o : q <> p -> rp q (p_fs F (fst (mp_step metas p (mkMp F sh d) now o))) = rp q d.
  Proof.
    intro H. unfold Equiv.mp_step. cbn [p_shape p_fs]. destruct o as [f a m|f a|f vs|f].
    - destruct (nth_error sh f) as [fam|]; [|reflexivity]. destruct (nth_error metas f) as [me|]; [|reflexivity].
      destruct (resolve (f_labelnames fam) a) as [[k|]|e]; [| |reflexivity].
      + pose proof (ensure_other fam me p q d k H) as He. destruct (mp_ensure fam me p d k) as [fam' d1]. cbn [snd] in He.
        destruct (mr_blocked F (f_kind fam) (fm_mode me) m); [exact He|].
        pose proof (apply_other fam me p q now d1 k m H) as Ha. destruct (mp_apply fam me p now d1 k m) as [d2 out].
        cbn [fst p_fs] in *. congruence.
      + destruct (mr_blocked F (f_kind fam) (fm_mode me) m); [reflexivity|].
        destruct (is_nil (f_labelnames fam)); [|reflexivity].
        pose proof (apply_other fam me p q now d [] m H) as Ha. destruct (mp_apply fam me p now d [] m) as [d2 out]. exact Ha.
    - destruct (nth_error sh f) as [fam|]; [|reflexivity]. destruct (nth_error metas f) as [me|]; [|reflexivity].
      destruct (resolve (f_labelnames fam) a) as [[k|]|e]; try reflexivity.
      pose proof (ensure_other fam me p q d k H) as He. destruct (mp_ensure fam me p d k) as [fam' d1]. exact He.
    - destruct (nth_error sh f) as [fam|]; [|reflexivity].
      destruct (is_nil (f_labelnames fam)); [reflexivity|]. destruct (negb _); reflexivity.
    - destruct (nth_error sh f) as [fam|]; [|reflexivity].
      destruct (is_nil (f_labelnames fam)); [destruct (f_kind fam); reflexivity|reflexivity].
  Qed.

  (* ----- the construction of the metrics of worker p ----- *)
  Lemma init_rp p : forall (fams : list shape) metas d, rp p (mp_init_fs p fams metas d) = mp_init_fs p fams metas (rp p d).
  Proof.
    induction fams as [|fam fams IH]; intros [|me metas] d; try reflexivity. cbn [Equiv.mp_init_fs].
    rewrite IH. destruct (is_nil (f_labelnames fam)); [|reflexivity].
    rewrite (fam_file_pid fam me p), create_rp. reflexivity.
  Qed.
  Lemma init_other p q : q <> p -> forall (fams : list shape) metas d, rp q (mp_init_fs p fams metas d) = rp q d.
  Proof.
    intro H. induction fams as [|fam fams IH]; intros [|me metas] d; try reflexivity. cbn [Equiv.mp_init_fs].
    rewrite IH. destruct (is_nil (f_labelnames fam)); [|reflexivity].
    rewrite (fam_file_pid fam me p). apply create_other. exact H.
  Qed.
End Local.

(* ----- dict removal ----- *)
Section Remove.
  Context {K : Type} (keq : K -> K -> bool) (keq_eq : forall a b, keq a b = true <-> a = b).
  Lemma dr_keys_in {V} (d : assoc K V) k x : In x (map fst (d_remove keq d k)) -> In x (map fst d).
  Proof.
    induction d as [|[k' v] d IH]; cbn [d_remove map fst In]; [tauto|].
    destruct (keq k k'); cbn [map fst In]; [auto|]. intros [H|H]; auto.
  Qed.
  Lemma dr_NoDup {V} (d : assoc K V) k : NoDup (map fst d) -> NoDup (map fst (d_remove keq d k)).
  Proof.
    induction d as [|[k' v] d IH]; cbn [d_remove map fst]; intro H; [constructor|]. inversion H; subst.
    destruct (keq k k'); [assumption|]. cbn [map fst]. constructor; [|auto]. intro Hin. apply dr_keys_in in Hin. contradiction.
  Qed.
  Lemma df_remove_same {V} (d : assoc K V) k : NoDup (map fst d) -> d_find keq (d_remove keq d k) k = None.
  Proof.
    induction d as [|[k' v] d IH]; cbn [d_remove map fst]; intro H; [reflexivity|]. inversion H; subst.
    destruct (keq k k') eqn:E.
    - apply keq_eq in E; subst k'. apply (df_notin keq keq_eq). assumption.
    - cbn [d_find]. rewrite E. auto.
  Qed.
  Lemma df_remove_other {V} (d : assoc K V) k k' : k' <> k -> d_find keq (d_remove keq d k) k' = d_find keq d k'.
  Proof.
    intro Hne. induction d as [|[k0 v] d IH]; cbn [d_remove d_find]; [reflexivity|].
    destruct (keq k k0) eqn:E.
    - apply keq_eq in E; subst k0. rewrite (kq_neq keq keq_eq k' k Hne). reflexivity.
    - cbn [d_find]. destruct (keq k' k0); [reflexivity|exact IH].
  Qed.
End Remove.

Lemma filter_comm {A} (f g : A -> bool) l : filter f (filter g l) = filter g (filter f l).
Proof.
  induction l as [|a l IH]; [reflexivity|]. cbn [filter].
  destruct (g a) eqn:Eg, (f a) eqn:Ef; cbn [filter]; rewrite ?Eg, ?Ef, IH; reflexivity.
Qed.

(* ----- file names: the pid is what follows the last underscore ----- *)
Lemma last_us_eq (a b : str) : ~ In Multiproc.US a -> ~ In Multiproc.US b ->
  forall x y : str, x ++ Multiproc.US :: a = y ++ Multiproc.US :: b -> a = b.
Proof.
  intros Ha Hb. induction x as [|c x IH]; intros [|c' y] E; cbn [app] in E.
  - inversion E. reflexivity.
  - inversion E; subst. exfalso. apply Ha. apply in_or_app. right. left. reflexivity.
  - inversion E; subst. exfalso. apply Hb. apply in_or_app. right. left. reflexivity.
  - inversion E. eapply IH. eassumption.
Qed.

Lemma nous_db (p : str) : ~ In Multiproc.US p -> ~ In Multiproc.US (p ++ Multiproc.S_db).
Proof.
  intros H Hin. apply in_app_or in Hin as [Hin|Hin]; [contradiction|].
  cbn in Hin. unfold Multiproc.US in Hin. repeat (destruct Hin as [Hin|Hin]; [discriminate|]). contradiction.
Qed.

Lemma dead_name_other (p q : str) pre : ~ In Multiproc.US p -> ~ In Multiproc.US q -> p <> q ->
  dead_name q (fname_str (pre, p)) = false.
Proof.
  intros Hp Hq Hne. unfold dead_name. destruct (mem_str _ _) eqn:E; [|reflexivity]. exfalso.
  apply mem_str_In in E. apply in_map_iff in E as [m [E _]]. unfold fname_str, Multiproc.gauge_fname in E. cbn [fst snd] in E.
  rewrite !app_assoc in E. rewrite <- (app_assoc _ q) in E. cbn [app] in E.
  change (((Multiproc.S_gauge ++ [Multiproc.US]) ++ m) ++ [Multiproc.US]) with ((Multiproc.S_gauge ++ [Multiproc.US]) ++ m ++ [Multiproc.US]) in E.
  assert (E' : ((Multiproc.S_gauge ++ [Multiproc.US]) ++ m) ++ Multiproc.US :: (q ++ Multiproc.S_db)
               = prefix_str pre ++ Multiproc.US :: (p ++ Multiproc.S_db)).
  { rewrite <- E. rewrite <- !app_assoc. reflexivity. }
  apply last_us_eq in E'; [|apply nous_db; exact Hq|apply nous_db; exact Hp].
  apply app_inv_tail in E'. congruence.
Qed.

(* ================= theorem (a): the files of one pid after any interleaving ================= *)
Section Multi.
  Variable F : Type.
  Variables fzero fone : F.
  Variable fadd : F -> F -> F.
  Variable fneg : F -> F.
  Variables flt fle feqb : F -> F -> bool.
  Variable of_Z : Z -> res F.
  Variable zlef : Z -> F -> bool.
  Variable fmt_le : F -> str.
  Variable fams : list (shape F).
  Variable metas : list fmeta.

  Notation fs := (Values.fs F).
  Notation rp := (fs_of_pid F).
  Notation mp_step := (mp_step F fzero fone fadd fneg flt fle feqb of_Z zlef fmt_le).
  Notation mp_init_fs := (mp_init_fs F fzero fmt_le).
  Notation mh_step := (mh_step F fzero fone fadd fneg flt fle feqb of_Z zlef fmt_le fams metas).
  Notation run := (mp_run_multi F fzero fone fadd fneg flt fle feqb of_Z zlef fmt_le fams metas).
  Notation hstep := (hstep F).
  Notation mh := (mh F).
  Let seq_eq := str_eqb_eq.

  Lemma dead_rp p q (d : fs) : rp p (fs_mark_dead F q d) = fs_mark_dead F q (rp p d).
  Proof. unfold fs_of_pid, fs_mark_dead. apply filter_comm. Qed.

  Lemma dead_other p q (d : fs) : ~ In Multiproc.US p -> ~ In Multiproc.US q -> p <> q ->
    rp p (fs_mark_dead F q d) = rp p d.
  Proof.
    intros Hp Hq Hne. rewrite dead_rp. unfold fs_of_pid, fs_mark_dead. induction d as [|[[pre p'] c] d IH]; [reflexivity|].
    cbn [filter fst snd]. destruct (str_eqb p' p) eqn:E; [|exact IH]. apply str_eqb_eq in E; subst p'.
    cbn [filter fst snd]. rewrite (dead_name_other p q pre Hp Hq Hne). cbn [negb]. f_equal. exact IH.
  Qed.

  Definition procs_ok (s : mh) : Prop := NoDup (map fst (h_procs F s)).

  Lemma step_procs_ok s st : procs_ok s -> procs_ok (fst (mh_step s st)).
  Proof.
    unfold procs_ok. intro H. destruct st as [p|p now o|p]; cbn [MultiHist.mh_step fst h_procs].
    - apply (ds_NoDup str_eqb seq_eq). exact H.
    - destruct (d_find str_eqb (h_procs F s) p) as [sh|]; [|exact H].
      destruct (mp_step metas p (mkMp F sh (h_fs F s)) now o) as [q out]. cbn [fst h_procs].
      apply (ds_NoDup str_eqb seq_eq). exact H.
    - apply (dr_NoDup str_eqb). exact H.
  Qed.

  (* the state of the whole run seen from pid p, against the state of the run of p's steps alone *)
  Definition Rel (p : str) (s s' : mh) : Prop :=
    rp p (h_fs F s) = h_fs F s' /\ d_find str_eqb (h_procs F s) p = d_find str_eqb (h_procs F s') p.

  Lemma rel_own p s s' : Rel p s s' -> rp p (h_fs F s') = h_fs F s'.
  Proof. intros [H _]. rewrite <- H. apply rp_idem. Qed.

  Lemma step_same p s s' st : hpid F st = p -> procs_ok s -> procs_ok s' -> Rel p s s' ->
    Rel p (fst (mh_step s st)) (fst (mh_step s' st)) /\ snd (mh_step s st) = snd (mh_step s' st).
  Proof.
    intros Hp Hok Hok' [Hfs Hpr]. destruct st as [p0|p0 now o|p0]; cbn [hpid] in Hp; subst p0; cbn [MultiHist.mh_step fst snd].
    - split; [|reflexivity]. split; cbn [h_fs h_procs].
      + rewrite init_rp, Hfs. reflexivity.
      + rewrite !(df_set str_eqb seq_eq), str_eqb_refl. reflexivity.
    - rewrite <- Hpr. destruct (d_find str_eqb (h_procs F s) p) as [sh|] eqn:Esh; [|cbn [fst snd]; split; [split; [exact Hfs|]|reflexivity]].
      2:{ rewrite Esh. exact Hpr. }
      rewrite <- Hfs. rewrite step_rp. destruct (mp_step metas p (mkMp F sh (h_fs F s)) now o) as [q out].
      cbn [fst snd p_shape p_fs]. split; [|reflexivity]. split; cbn [h_fs h_procs]; [reflexivity|].
      rewrite !(df_set str_eqb seq_eq), str_eqb_refl. reflexivity.
    - split; [|reflexivity]. split; cbn [h_fs h_procs].
      + rewrite dead_rp, Hfs. reflexivity.
      + rewrite !(df_remove_same str_eqb seq_eq) by assumption. reflexivity.
  Qed.

  Lemma step_frame p s s' st : hpid F st <> p -> ~ In Multiproc.US p -> ~ In Multiproc.US (hpid F st) ->
    Rel p s s' -> Rel p (fst (mh_step s st)) s'.
  Proof.
    intros Hne Hup Huq [Hfs Hpr]. assert (Hne' : p <> hpid F st) by congruence.
    destruct st as [q|q now o|q]; cbn [hpid] in *; cbn [MultiHist.mh_step fst].
    - split; cbn [h_fs h_procs].
      + rewrite (init_other F fzero fmt_le q p Hne'). exact Hfs.
      + rewrite (df_set str_eqb seq_eq), (kq_neq str_eqb seq_eq p q Hne'). exact Hpr.
    - destruct (d_find str_eqb (h_procs F s) q) as [sh|]; [|split; assumption].
      pose proof (step_other F fzero fone fadd fneg flt fle feqb of_Z zlef fmt_le metas q p sh (h_fs F s) now o Hne') as Ho.
      destruct (mp_step metas q (mkMp F sh (h_fs F s)) now o) as [r out]. cbn [fst p_fs] in *. split; cbn [h_fs h_procs].
      + rewrite Ho. exact Hfs.
      + rewrite (df_set str_eqb seq_eq), (kq_neq str_eqb seq_eq p q Hne'). exact Hpr.
    - split; cbn [h_fs h_procs].
      + rewrite (dead_other p q _ Hup Huq Hne'). exact Hfs.
      + rewrite (df_remove_other str_eqb seq_eq) by exact Hne'. exact Hpr.
  Qed.

  Lemma run_rel p steps : ~ In Multiproc.US p -> Forall (fun st => ~ In Multiproc.US (hpid F st)) steps ->
    forall s s', procs_ok s -> procs_ok s' -> Rel p s s' -> Rel p (run s steps) (run s' (steps_of F p steps)).
  Proof.
    intros Hup. induction 1 as [|st steps Hu _ IH]; intros s s' Hok Hok' HR; [exact HR|].
    unfold mp_run_multi, steps_of. cbn [fold_left filter]. destruct (str_eqb (hpid F st) p) eqn:E.
    - apply str_eqb_eq in E. cbn [fold_left]. apply IH; try (apply step_procs_ok; assumption).
      apply (step_same p s s' st E Hok Hok' HR).
    - apply str_eqb_neq in E. apply IH; [apply step_procs_ok; assumption|assumption|].
      apply step_frame; assumption.
  Qed.

  (* ===== (a) ===== *)
  Theorem files_of_pid p steps : ~ In Multiproc.US p -> Forall (fun st => ~ In Multiproc.US (hpid F st)) steps ->
    rp p (h_fs F (run (mh_init F) steps)) = h_fs F (run (mh_init F) (steps_of F p steps))
    /\ d_find str_eqb (h_procs F (run (mh_init F) steps)) p = d_find str_eqb (h_procs F (run (mh_init F) (steps_of F p steps))) p.
  Proof.
    intros Hp Hs. apply (run_rel p steps Hp Hs); [constructor|constructor|split; reflexivity].
  Qed.
End Multi.

Lemma filter_idem {A} (f : A -> bool) l : filter f (filter f l) = filter f l.
Proof.
  induction l as [|a l IH]; [reflexivity|]. cbn [filter]. destruct (f a) eqn:E; [cbn [filter]; rewrite E, IH; reflexivity|exact IH].
Qed.

(* ================= Part B: the run of one pid's steps alone ================= *)
Section OnePid.
  Variable F : Type.
  Variables fzero fone : F.
  Variable fadd : F -> F -> F.
  Variable fneg : F -> F.
  Variables flt fle feqb : F -> F -> bool.
  Variable of_Z : Z -> res F.
  Variable zlef : Z -> F -> bool.
  Variable fmt_le : F -> str.
  Variable fams0 : mregistry F.
  Variable metas : list fmeta.
  Variable p : str.

  Notation fams := (map (shape_of F) fams0).
  Notation fs := (Values.fs F).
  Notation rp := (fs_of_pid F).
  Notation mp_step := (mp_step F fzero fone fadd fneg flt fle feqb of_Z zlef fmt_le).
  Notation mh_step := (mh_step F fzero fone fadd fneg flt fle feqb of_Z zlef fmt_le fams metas).
  Notation run := (mp_run_multi F fzero fone fadd fneg flt fle feqb of_Z zlef fmt_le fams metas).
  Notation MP ops := (mp_run F fzero fone fadd fneg flt fle feqb of_Z zlef fmt_le metas p (mp_init F fzero fmt_le metas p fams0) ops).
  Notation life_step := (life_step F p).
  Let seq_eq := str_eqb_eq.

  (* the directory of worker p's files, from what became of the worker *)
  Definition life_fs (l : life F) : fs :=
    match l with
    | None => []
    | Some (ops, false) => p_fs F (MP ops)
    | Some (ops, true) => fs_mark_dead F p (p_fs F (MP ops))
    end.
  Definition life_shape (l : life F) : option (list (shape F)) :=
    match l with Some (ops, false) => Some (p_shape F (MP ops)) | _ => None end.

  Definition Life (l : life F) (s : mh F) : Prop :=
    h_fs F s = life_fs l /\ d_find str_eqb (h_procs F s) p = life_shape l.

  (* pid p is started at most once: no pid reuse *)
  Definition once (l : life F) (steps : list (hstep F)) : Prop :=
    (count_str p (starts F steps) + match l with None => 0 | Some _ => 1 end <= 1)%nat.

  Lemma mp_run_snoc s ops now o :
    mp_run F fzero fone fadd fneg flt fle feqb of_Z zlef fmt_le metas p s (ops ++ [(now, o)])
    = fst (mp_step metas p (mp_run F fzero fone fadd fneg flt fle feqb of_Z zlef fmt_le metas p s ops) now o).
  Proof. unfold Equiv.mp_run. rewrite fold_left_app. reflexivity. Qed.

  Lemma life_run steps : forall l s, Life l s -> procs_ok F s -> once l steps ->
    Life (fold_left life_step steps l) (run s (steps_of F p steps)).
  Proof.
    induction steps as [|st steps IH]; intros l s HL Hok Hon; [exact HL|].
    unfold steps_of. cbn [filter fold_left]. unfold MultiHist.life_step at 2.
    destruct (str_eqb (hpid F st) p) eqn:E.
    2:{ apply IH; [exact HL|exact Hok|]. unfold once in *. destruct st as [q|q now o|q]; cbn [starts hpid] in *; try exact Hon.
        cbn [count_str] in Hon. rewrite str_eqb_neq in E. rewrite (proj2 (str_eqb_neq p q)) in Hon by congruence. exact Hon. }
    apply str_eqb_eq in E. unfold mp_run_multi. cbn [fold_left].
    destruct HL as [Hfs Hpr].
    destruct st as [q|q now o|q]; cbn [hpid] in E; subst q.
    - (* start *)
      assert (l = None).
      { unfold once in Hon. cbn [starts count_str] in Hon. rewrite str_eqb_refl in Hon. destruct l; [lia|reflexivity]. }
      subst l. apply IH.
      + cbn [MultiHist.mh_step fst]. split; cbn [h_fs h_procs life_fs life_shape].
        * rewrite Hfs. reflexivity.
        * rewrite (df_set str_eqb seq_eq), str_eqb_refl. reflexivity.
      + apply step_procs_ok. exact Hok.
      + unfold once in *. cbn [starts count_str] in Hon. rewrite str_eqb_refl in Hon. lia.
    - (* call *)
      assert (Hon' : once (match l with Some (ops, false) => Some (ops ++ [(now, o)], false) | _ => l end) steps).
      { unfold once in *. cbn [starts] in Hon. destruct l as [[ops [|]]|]; exact Hon. }
      destruct l as [[ops [|]]|]; cbn [life_fs life_shape] in Hfs, Hpr.
      + apply IH; [|apply step_procs_ok; exact Hok|exact Hon'].
        cbn [MultiHist.mh_step]. rewrite Hpr. cbn [fst]. split; assumption.
      + apply IH; [|apply step_procs_ok; exact Hok|exact Hon'].
        cbn [MultiHist.mh_step]. rewrite Hpr, Hfs.
        replace (mkMp F (p_shape F (MP ops)) (p_fs F (MP ops))) with (MP ops) by (destruct (MP ops); reflexivity).
        unfold Life. cbn [life_fs life_shape]. rewrite mp_run_snoc.
        destruct (mp_step metas p (MP ops) now o) as [q out]. cbn [fst].
        split; cbn [h_fs h_procs]; [reflexivity|].
        rewrite (df_set str_eqb seq_eq), str_eqb_refl. reflexivity.
      + apply IH; [|apply step_procs_ok; exact Hok|exact Hon'].
        cbn [MultiHist.mh_step]. rewrite Hpr. cbn [fst]. split; assumption.
    - (* dead *)
      apply IH; [|apply step_procs_ok; exact Hok|].
      + cbn [MultiHist.mh_step fst]. split; cbn [h_fs h_procs].
        * rewrite Hfs. destruct l as [[ops [|]]|]; cbn [life_fs]; [apply filter_idem|reflexivity|reflexivity].
        * rewrite (df_remove_same str_eqb seq_eq) by exact Hok. destruct l as [[ops [|]]|]; reflexivity.
      + unfold once in *. cbn [starts] in Hon. destruct l as [[ops d]|]; exact Hon.
  Qed.

  (* ===== (a) + (B): the files of pid p in the shared directory after ANY interleaving ===== *)
  Theorem pid_files steps : ~ In Multiproc.US p -> Forall (fun st => ~ In Multiproc.US (hpid F st)) steps ->
    (count_str p (starts F steps) <= 1)%nat ->
    rp p (h_fs F (run (mh_init F) steps)) = life_fs (life_of F p steps).
  Proof.
    intros Hp Hs Hon.
    destruct (files_of_pid F fzero fone fadd fneg flt fle feqb of_Z zlef fmt_le fams metas p steps Hp Hs) as [H _].
    rewrite H. apply (life_run steps None (mh_init F)); [split; reflexivity|constructor|unfold once; lia].
  Qed.
End OnePid.

(* ================= histograms over several workers: per-bound sums of count cells ================= *)
Fixpoint zipadd (a b : list N) : list N :=
  match a, b with x :: a', y :: b' => (x + y) :: zipadd a' b' | _, _ => [] end.

Lemma zipadd_length a : forall b, length a = length b -> length (zipadd a b) = length a.
Proof. induction a as [|x a IH]; intros [|y b] H; try discriminate; [reflexivity|]. cbn [zipadd length]. rewrite IH; [reflexivity|cbn in H; lia]. Qed.

Lemma nsum_zipadd a : forall b, length a = length b -> nsum (zipadd a b) = nsum a + nsum b.
Proof. induction a as [|x a IH]; intros [|y b] H; try discriminate; [reflexivity|]. cbn [zipadd nsum]. rewrite IH; [lia|cbn in H; lia]. Qed.

Lemma nth_zipadd a : forall b i, length a = length b -> nth i (zipadd a b) 0 = nth i a 0 + nth i b 0.
Proof.
  induction a as [|x a IH]; intros [|y b] i H; try discriminate; [destruct i; reflexivity|].
  destruct i; cbn [zipadd nth]; [reflexivity|]. apply IH. cbn in H; lia.
Qed.

Lemma accum_zipadd a : forall b n1 n2, length a = length b -> accum (n1 + n2) (zipadd a b) = zipadd (accum n1 a) (accum n2 b).
Proof.
  induction a as [|x a IH]; intros [|y b] n1 n2 H; try discriminate; [reflexivity|]. cbn [zipadd accum].
  replace (n1 + n2 + (x + y)) with ((n1 + x) + (n2 + y)) by lia. rewrite IH; [reflexivity|cbn in H; lia].
Qed.

Lemma accum_len cs : forall n, length (accum n cs) = length cs.
Proof. induction cs as [|c cs IH]; intro n; cbn [accum length]; [reflexivity|]. rewrite IH. reflexivity. Qed.

Lemma nth_accum_le cs : forall n i, nth i (accum n cs) 0 <= n + nsum cs.
Proof.
  induction cs as [|c cs IH]; intros n i; [destruct i; cbn; lia|]. cbn [accum nsum]. destruct i; cbn [nth]; [lia|].
  specialize (IH (n + c) i). lia.
Qed.

Lemma accum_ge cs : forall n, n <= last (accum n cs) n.
Proof. induction cs as [|c cs IH]; intro n; [cbn; lia|]. rewrite last_accum_cons. specialize (IH (n + c)). lia. Qed.

Lemma pointwise_small (B : N) a : forall c, length a = length c -> nsum a + nsum c < B -> Forall2 (fun x y => x + y < B) a c.
Proof.
  induction a as [|x a IH]; intros [|y c] H Hs; try discriminate; [constructor|]. cbn [nsum] in Hs. constructor; [lia|].
  apply IH; [cbn in H; lia|lia].
Qed.

Lemma dfold_app {K S A} (keq : K -> K -> bool) (upd : option S -> A -> S) a : forall d b,
  Multiproc.dfold keq upd d (a ++ b) = Multiproc.dfold keq upd (Multiproc.dfold keq upd d a) b.
Proof. induction a as [|[k x] a IH]; intros d b; cbn [app Multiproc.dfold]; [reflexivity|apply IH]. Qed.

Section HistCols.
  Variable F : Type.
  Variables fzero fone : F.
  Variable fadd : F -> F -> F.
  Variables flt feqb : F -> F -> bool.
  Variable fmt_le : F -> str.
  Notation fcount := (fcount F fzero fone fadd).
  Notation upd_sum := (Multiproc.upd_sum F fzero fadd).
  Notation strictly := (strictly F flt).
  Hypothesis FLT_trans : forall a b c, flt a b = true -> flt b c = true -> flt a c = true.
  Hypothesis FLT_ne : forall a b, flt a b = true -> feqb b a = false.
  Hypothesis FL4 : forall a b, a + b < 2 ^ 53 -> fadd (fcount a) (fcount b) = fcount (a + b).

  Lemma df_skip (pre l : assoc F F) b : (forall a, In a (map fst pre) -> feqb b a = false) ->
    d_find feqb (pre ++ l) b = d_find feqb l b.
  Proof.
    induction pre as [|[a v] pre IH]; intro H; cbn [app d_find]; [reflexivity|].
    rewrite (H a) by (left; reflexivity). apply IH. intros; apply H; right; assumption.
  Qed.
  Lemma ds_skip (pre l : assoc F F) b w : (forall a, In a (map fst pre) -> feqb b a = false) ->
    d_set feqb (pre ++ l) b w = pre ++ d_set feqb l b w.
  Proof.
    induction pre as [|[a v] pre IH]; intro H; cbn [app d_set]; [reflexivity|].
    rewrite (H a) by (left; reflexivity). f_equal. apply IH. intros; apply H; right; assumption.
  Qed.

  (* one more worker: every bound's cell is added to the sum the dict holds for it *)
  Lemma col_next : forall (bs : list F) (pre : assoc F F) (acc cs : list N),
    strictly bs -> (forall b, In b bs -> feqb b b = true) ->
    length acc = length bs -> length cs = length bs ->
    (forall b a, In b bs -> In a (map fst pre) -> feqb b a = false) ->
    Forall2 (fun x y => x + y < 2 ^ 53) acc cs ->
    Multiproc.dfold feqb upd_sum (pre ++ combine bs (map fcount acc)) (combine bs (map fcount cs))
    = pre ++ combine bs (map fcount (zipadd acc cs)).
  Proof.
    induction bs as [|b bs IH]; intros pre [|a acc] [|c cs] Hs Hr Hla Hlc Hpre Hsm; try discriminate; [reflexivity|].
    cbn [map combine Multiproc.dfold zipadd]. inversion Hsm; subst.
    rewrite (df_skip pre _ b) by (intros; apply Hpre; [left; reflexivity|assumption]).
    cbn [d_find]. rewrite (Hr b (or_introl eq_refl)).
    change (upd_sum (Some (fcount a)) (fcount c)) with (fadd (fcount a) (fcount c)).
    rewrite (ds_skip pre _ b) by (intros; apply Hpre; [left; reflexivity|assumption]).
    cbn [d_set]. rewrite (Hr b (or_introl eq_refl)). rewrite FL4 by assumption.
    change (pre ++ (b, fcount (a + c)) :: combine bs (map fcount acc)) with (pre ++ [(b, fcount (a + c))] ++ combine bs (map fcount acc)).
    rewrite app_assoc. rewrite IH.
    - rewrite <- app_assoc. reflexivity.
    - exact (strictly_tail F fzero flt fmt_le b bs Hs).
    - intros; apply Hr; right; assumption.
    - cbn in Hla; lia.
    - cbn in Hlc; lia.
    - intros b' a' Hb' Ha'. rewrite map_app in Ha'. apply in_app_or in Ha' as [Ha'|[<-|[]]].
      + apply Hpre; [right; assumption|assumption].
      + cbn [fst]. apply FLT_ne. eapply (strictly_all F flt FLT_trans); eassumption.
    - assumption.
  Qed.

  Lemma col_first (bs : list F) (cs : list N) : strictly bs -> length cs = length bs -> nsum cs < 2 ^ 53 ->
    Multiproc.dfold feqb upd_sum [] (combine bs (map fcount cs)) = combine bs (map fcount cs).
  Proof.
    intros Hs Hl Hsm. rewrite (dfold_fkeys feqb upd_sum).
    - cbn [app]. clear Hs. revert cs Hl Hsm. induction bs as [|b bs IH]; intros [|c cs] Hl Hsm; try discriminate; [reflexivity|].
      cbn [map combine fst snd]. cbn [nsum] in Hsm.
      change (upd_sum None (fcount c)) with (fadd (fcount 0) (fcount c)). rewrite FL4 by lia. cbn [N.add]. f_equal. apply IH; [cbn in Hl; lia|lia].
    - cbn [map]. rewrite map_fst_combine by (rewrite map_length; symmetry; exact Hl).
      apply (strictly_fresh F fzero flt feqb fmt_le FLT_trans FLT_ne); [exact Hs|intros a b []].
  Qed.

  Lemma cols_rest (bs : list F) : strictly bs -> (forall b, In b bs -> feqb b b = true) ->
    forall (rest : list (list N)) (acc : list N), length acc = length bs -> Forall (fun cs => length cs = length bs) rest ->
    nsum acc + nsum (map nsum rest) < 2 ^ 53 ->
    Multiproc.dfold feqb upd_sum (combine bs (map fcount acc)) (flat_map (fun cs => combine bs (map fcount cs)) rest)
    = combine bs (map fcount (fold_left zipadd rest acc)).
  Proof.
    intros Hs Hr. induction rest as [|cs rest IH]; intros acc Hla Hlr Hsm; [reflexivity|].
    inversion Hlr; subst. cbn [flat_map fold_left map nsum] in *. rewrite dfold_app.
    assert (Hn : Multiproc.dfold feqb upd_sum (combine bs (map fcount acc)) (combine bs (map fcount cs))
                 = combine bs (map fcount (zipadd acc cs))).
    { apply (col_next bs [] acc cs Hs Hr Hla H1); [intros ? ? _ []|apply pointwise_small; [congruence|lia]]. }
    rewrite Hn. apply IH.
    - rewrite zipadd_length; congruence.
    - assumption.
    - rewrite nsum_zipadd by congruence. lia.
  Qed.

  (* the whole group: the workers' cells cs1, rest (each one count per bound), in read order *)
  Lemma cols_all (bs : list F) cs1 rest : strictly bs -> (forall b, In b bs -> feqb b b = true) ->
    Forall (fun cs => length cs = length bs) (cs1 :: rest) -> nsum (map nsum (cs1 :: rest)) < 2 ^ 53 ->
    Multiproc.dfold feqb upd_sum [] (flat_map (fun cs => combine bs (map fcount cs)) (cs1 :: rest))
    = combine bs (map fcount (fold_left zipadd rest cs1)).
  Proof.
    intros Hs Hr Hl Hsm. inversion Hl; subst. cbn [flat_map map nsum] in *. rewrite dfold_app.
    rewrite (col_first bs cs1 Hs H1) by lia. apply cols_rest; try assumption.
  Qed.

  Lemma prefix_counts : forall (col : list N) n, last (accum n col) n < 2 ^ 53 ->
    MultiprocSpec.prefix_sums F fadd (fcount n) (map fcount col) = map fcount (accum n col).
  Proof.
    induction col as [|c col IH]; intros n Hsm; [reflexivity|].
    rewrite (last_accum_cons) in Hsm. pose proof (accum_ge col (n + c)) as Hge.
    cbn [map MultiprocSpec.prefix_sums accum]. rewrite FL4 by lia. f_equal. apply IH. exact Hsm.
  Qed.

  Lemma fold_fcount : forall (l : list N) n, n + nsum l < 2 ^ 53 ->
    fold_left fadd (map fcount l) (fcount n) = fcount (n + nsum l).
  Proof.
    induction l as [|x l IH]; intros n H; cbn [map fold_left nsum] in *; [f_equal; lia|].
    rewrite FL4 by lia. rewrite IH by lia. f_equal. lia.
  Qed.

  Lemma nth_fold_zipadd (g : list N -> list N) (Hg : forall a b, length a = length b -> g (zipadd a b) = zipadd (g a) (g b))
        (Hgl : forall a, length (g a) = length a) m i :
    forall rest acc, length acc = m -> Forall (fun cs => length cs = m) rest ->
    nth i (g (fold_left zipadd rest acc)) 0 = nth i (g acc) 0 + nsum (map (fun cs => nth i (g cs) 0) rest).
  Proof.
    induction rest as [|cs rest IH]; intros acc Hla Hl; cbn [fold_left map nsum]; [lia|]. inversion Hl; subst.
    rewrite IH; [|rewrite zipadd_length; congruence|assumption].
    rewrite Hg by congruence. rewrite nth_zipadd by (rewrite !Hgl; congruence). lia.
  Qed.
End HistCols.

(* C08's lookup of the bucket and _count series of one label group, with the distinctness of the formatted bounds of the
   merged group as a direct hypothesis (proofs/MultiprocProofs.v hist_lookup derives it from symmetry/transitivity of
   float == on the bounds; here the merged group is computed explicitly, so it is read off) *)
Section HistLookup.
  Variable F : Type.
  Variable fzero : F.
  Variable fadd : F -> F -> F.
  Variables flt feqb : F -> F -> bool.
  Variable parse_le : str -> F.
  Variable fmt_le : F -> str.
  Import Multiproc MultiprocSpec MultiprocProofs.
  Notation upd_sum := (upd_sum F fzero fadd).
  Notation hist_groups := (hist_groups F fzero fadd feqb parse_le).
  Notation hist_writes := (hist_writes F fzero fadd flt feqb parse_le fmt_le).
  Notation group_items := (group_items F parse_le).
  Notation bucket_key := (bucket_key F fmt_le).
  Notation bucket_writes := (bucket_writes F fzero fadd flt fmt_le).
  Notation prefix_sums := (prefix_sums F fadd).

  Theorem hist_lookup_nd mname ss ls :
    let G := group_items ss ls in
    let B := sort_b F flt (dfold feqb upd_sum [] G) in
    G <> [] -> NoDup (map fmt_le (map fst B)) ->
    (forall i b, nth_error (map fst B) i = Some b ->
       d_find skey_eqb (acc_histogram F fzero fadd flt feqb parse_le fmt_le mname ss) (bucket_key mname ls b)
       = nth_error (prefix_sums fzero (map snd B)) i)
    /\ d_find skey_eqb (acc_histogram F fzero fadd flt feqb parse_le fmt_le mname ss) (count_key mname ls)
       = Some (last (prefix_sums fzero (map snd B)) fzero).
  Proof.
    intros G B HG Hn1.
    set (inner := dfold feqb upd_sum [] G) in *.
    assert (Hfind : d_find labels_eqb (hist_groups ss) ls = Some inner).
    { rewrite hist_groups_find. fold G. destruct G; [contradiction | reflexivity]. }
    apply (d_find_In labels_eqb labels_eqb_eq) in Hfind. apply in_split in Hfind as [g1 [g2 Hsplit]].
    pose proof (hist_groups_NoDup F fzero fadd feqb parse_le ss) as Hnd. rewrite Hsplit, map_app in Hnd. cbn [map fst] in Hnd.
    pose proof (NoDup_remove_2 _ _ _ Hnd) as Hnot. rewrite in_app_iff in Hnot.
    assert (Hw : hist_writes mname ss
                 = flat_map (bucket_writes mname) g1 ++ bucket_writes mname (ls, inner) ++ flat_map (bucket_writes mname) g2).
    { unfold MultiprocSpec.hist_writes. fold (hist_groups ss). rewrite Hsplit, flat_map_app. cbn [flat_map]. reflexivity. }
    assert (Hks : NoDup (map (bucket_key mname ls) (map fst B))).
    { rewrite <- (map_map fmt_le (fun s => (mname ++ S_bucket, ls ++ [(S_le, s)]))) .
      apply NoDup_map_inj; [|exact Hn1].
      intros x y H. inversion H as [[H1]]. apply app_inv_head in H1. inversion H1. reflexivity. }
    assert (Hlen : length (map (bucket_key mname ls) (map fst B)) = length (prefix_sums fzero (map snd B)))
      by (rewrite prefix_sums_length, !map_length; reflexivity).
    split.
    - intros i b Hb. rewrite acc_histogram_spec, Hw, !find_last_app.
      rewrite (find_last_none skey_eqb (flat_map (bucket_writes mname) g2)).
      2:{ apply (other_group_silent F fzero fadd flt fmt_le mname g2 ls); [tauto | left; exists b; reflexivity]. }
      rewrite bucket_writes_spec. fold B. rewrite find_last_app. cbn [find_last].
      destruct (skey_eqb (bucket_key mname ls b) (count_key mname ls)) eqn:E.
      { apply skey_eqb_eq in E. exfalso. exact (bucket_not_count _ _ _ _ _ _ E). }
      destruct (nth_error (prefix_sums fzero (map snd B)) i) as [v|] eqn:Ev.
      + eapply (find_last_unique skey_eqb skey_eqb_eq); eauto.
        rewrite nth_error_map, Hb. reflexivity.
      + exfalso. apply nth_error_None in Ev. rewrite <- Hlen, map_length in Ev.
        assert (i < length (map fst B))%nat by (apply nth_error_Some; congruence). lia.
    - rewrite acc_histogram_spec, Hw, !find_last_app.
      rewrite (find_last_none skey_eqb (flat_map (bucket_writes mname) g2)).
      2:{ apply (other_group_silent F fzero fadd flt fmt_le mname g2 ls); [tauto | right; reflexivity]. }
      rewrite bucket_writes_spec. fold B. rewrite find_last_app. cbn [find_last].
      rewrite (proj2 (skey_eqb_eq _ _) eq_refl). reflexivity.
  Qed.

  (* no sample of the group: neither its bucket series nor its _count are written *)
  Lemma hist_writes_silent mname ss ls k : group_items ss ls = [] ->
    ((exists b, k = bucket_key mname ls b) \/ k = count_key mname ls) ->
    forall acc, find_last skey_eqb (hist_writes mname ss) k acc = acc.
  Proof.
    intros HG Hk acc. apply find_last_none. unfold MultiprocSpec.hist_writes. fold (hist_groups ss).
    apply (other_group_silent F fzero fadd flt fmt_le mname (hist_groups ss) ls k); [|exact Hk].
    apply (d_find_None_notin labels_eqb labels_eqb_eq). rewrite hist_groups_find, HG. reflexivity.
  Qed.
End HistLookup.

