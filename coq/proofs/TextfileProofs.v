(* C18: write_to_textfile replaces the target atomically or not at all - proofs about model/Textfile.v *)
From V Require Import lib.PyBase lib.Tac model.Utils model.Decimal proofs.DecimalFacts model.Textfile.
Ltac Zify.zify_post_hook ::= Z.to_euclidean_division_equations.
Import TF.
Open Scope N_scope.

Ltac break_match :=
  match goal with
  | H : context [match ?x with _ => _ end] |- _ => destruct x eqn:?
  | |- context [match ?x with _ => _ end] => destruct x eqn:?
  end.
Ltac inv H := inversion H; subst; clear H.

(* ------------------------------------------------------------------ file system *)
Lemma str_eqb_sym a b : str_eqb a b = str_eqb b a.
Proof.
  destruct (str_eqb a b) eqn:E; symmetry.
  - apply str_eqb_eq in E. subst. apply str_eqb_refl.
  - apply str_eqb_neq. apply str_eqb_neq in E. congruence.
Qed.

Lemma find_set_same f p b : fs_find (fs_set f p b) p = Some b.
Proof.
  unfold fs_find, fs_set. induction f as [|[q x] f IH]; cbn [d_set d_find].
  - rewrite str_eqb_refl. reflexivity.
  - destruct (str_eqb p q) eqn:E; cbn [d_find]; rewrite E; auto.
Qed.

Lemma find_set_other f p b q : q <> p -> fs_find (fs_set f p b) q = fs_find f q.
Proof.
  intro N. unfold fs_find, fs_set. induction f as [|[r x] f IH]; cbn [d_set d_find].
  - apply str_eqb_neq in N. rewrite N. reflexivity.
  - destruct (str_eqb p r) eqn:E; cbn [d_find].
    + apply str_eqb_eq in E. subst r. apply str_eqb_neq in N. rewrite N. reflexivity.
    + rewrite IH. reflexivity.
Qed.

Lemma find_remove_same f p : fs_find (fs_remove f p) p = None.
Proof.
  unfold fs_find. induction f as [|[q x] f IH]; cbn [fs_remove d_find]; auto.
  destruct (str_eqb p q) eqn:E; auto. cbn [d_find]. rewrite E. exact IH.
Qed.

Lemma find_remove_other f p q : q <> p -> fs_find (fs_remove f p) q = fs_find f q.
Proof.
  intro N. unfold fs_find. induction f as [|[r x] f IH]; cbn [fs_remove d_find]; auto.
  destruct (str_eqb p r) eqn:E.
  - apply str_eqb_eq in E. subst r. apply str_eqb_neq in N. rewrite N. exact IH.
  - cbn [d_find]. rewrite IH. reflexivity.
Qed.

Lemma find_append_same f p b : fs_find (fs_append f p b) p = option_map (fun x => x ++ b) (fs_find f p).
Proof.
  unfold fs_append. destruct (fs_find f p) eqn:E; cbn [option_map].
  - apply find_set_same.
  - exact E.
Qed.

Lemma find_append_other f p b q : q <> p -> fs_find (fs_append f p b) q = fs_find f q.
Proof.
  intro N. unfold fs_append. destruct (fs_find f p); auto. apply find_set_other; auto.
Qed.

(* ------------------------------------------------------------------ temporary names *)
Lemma digits_split a b r r' :
  all_digits a = true -> all_digits b = true -> a ++ DOT :: r = b ++ DOT :: r' -> a = b /\ r = r'.
Proof.
  revert b. induction a as [|x a IH]; intros [|y b] Ha Hb E; cbn [app] in E.
  - inv E. auto.
  - inv E. cbn [all_digits] in Hb. apply andb_true_iff in Hb as [Hb _]. vm_compute in Hb. discriminate.
  - inv E. cbn [all_digits] in Ha. apply andb_true_iff in Ha as [Ha _]. vm_compute in Ha. discriminate.
  - inv E. cbn [all_digits] in Ha, Hb. apply andb_true_iff in Ha as [_ Ha]. apply andb_true_iff in Hb as [_ Hb].
    destruct (IH b Ha Hb H1) as [-> ->]. auto.
Qed.

Lemma dec_of_N_inj a b : dec_of_N a = dec_of_N b -> a = b.
Proof.
  intro E. destruct (dec_of_N_spec a) as (Ha & _). destruct (dec_of_N_spec b) as (Hb & _). congruence.
Qed.

Lemma tmp_name_inj p a b c d : tmp_name p a b = tmp_name p c d -> a = c /\ b = d.
Proof.
  unfold tmp_name. intro E. apply app_inv_head in E. inv E.
  destruct (dec_of_N_spec a) as (_ & Ha & _). destruct (dec_of_N_spec c) as (_ & Hc & _).
  destruct (digits_split _ _ _ _ Ha Hc H0) as [E1 E2].
  split; apply dec_of_N_inj; auto.
Qed.

Lemma tmp_name_ne_path p a b : tmp_name p a b <> p.
Proof.
  unfold tmp_name. intro E. rewrite <- (app_nil_r p) in E at 2. apply app_inv_head in E. discriminate.
Qed.

Lemma w_tmp_ne_path c : w_tmp c <> w_path c.
Proof. apply tmp_name_ne_path. Qed.

(* every spelling of the path: the temporary path names a file of the SAME directory, called base.pid.tid *)
Lemma has_slash_app a b : has_slash (a ++ b) = has_slash a || has_slash b.
Proof. induction a as [|x a IH]; cbn [app has_slash]; auto. rewrite IH. apply orb_assoc. Qed.

Lemma base_of_noslash p : has_slash p = false -> base_of p = p.
Proof. destruct p as [|x r]; auto. intro H. cbn [base_of]. rewrite H. reflexivity. Qed.

Lemma dir_of_noslash p : has_slash p = false -> dir_of p = [].
Proof. destruct p as [|x r]; auto. intro H. cbn [dir_of]. rewrite H. reflexivity. Qed.

Lemma base_of_app p s : has_slash s = false -> base_of (p ++ s) = base_of p ++ s.
Proof.
  intro Hs. induction p as [|x r IH]; [apply base_of_noslash; exact Hs|].
  change ((x :: r) ++ s) with (x :: (r ++ s)). cbn [base_of].
  change (has_slash (x :: r ++ s)) with (has_slash ((x :: r) ++ s)). rewrite has_slash_app, Hs, orb_false_r.
  destruct (has_slash (x :: r)); [exact IH|reflexivity].
Qed.

Lemma dir_of_app p s : has_slash s = false -> dir_of (p ++ s) = dir_of p.
Proof.
  intro Hs. induction p as [|x r IH]; [apply dir_of_noslash; exact Hs|].
  change ((x :: r) ++ s) with (x :: (r ++ s)). cbn [dir_of].
  change (has_slash (x :: r ++ s)) with (has_slash ((x :: r) ++ s)). rewrite has_slash_app, Hs, orb_false_r.
  destruct (has_slash (x :: r)); [rewrite IH|]; reflexivity.
Qed.

Lemma dir_base p : dir_of p ++ base_of p = p.
Proof.
  induction p as [|x r IH]; auto. cbn [dir_of base_of]. destruct (has_slash (x :: r)); [|reflexivity].
  cbn [app]. rewrite IH. reflexivity.
Qed.

Lemma base_no_slash p : has_slash (base_of p) = false.
Proof.
  induction p as [|x r IH]; auto. cbn [base_of]. destruct (has_slash (x :: r)) eqn:E; [exact IH|exact E].
Qed.

Lemma digits_no_slash l : all_digits l = true -> has_slash l = false.
Proof.
  induction l as [|x l IH]; auto. cbn [all_digits has_slash]. intro H. apply andb_true_iff in H as [Hx Hl].
  rewrite (IH Hl), orb_false_r. destruct (x =? SLASH) eqn:E; auto. apply N.eqb_eq in E. subst x. vm_compute in Hx. discriminate.
Qed.

Lemma suffix_no_slash a b : has_slash (DOT :: dec_of_N a ++ DOT :: dec_of_N b) = false.
Proof.
  destruct (dec_of_N_spec a) as (_ & Ha & _). destruct (dec_of_N_spec b) as (_ & Hb & _).
  change (DOT :: dec_of_N a ++ DOT :: dec_of_N b) with ([DOT] ++ dec_of_N a ++ [DOT] ++ dec_of_N b).
  rewrite !has_slash_app, (digits_no_slash _ Ha), (digits_no_slash _ Hb). reflexivity.
Qed.

Theorem tmp_same_directory p a b :
  dir_of (tmp_name p a b) = dir_of p /\ base_of (tmp_name p a b) = tmp_name (base_of p) a b
  /\ has_slash (base_of (tmp_name p a b)) = false.
Proof.
  unfold tmp_name. pose proof (suffix_no_slash a b) as Hs. split; [|split].
  - apply dir_of_app. exact Hs.
  - apply base_of_app. exact Hs.
  - rewrite base_of_app by exact Hs. rewrite has_slash_app, base_no_slash, Hs. reflexivity.
Qed.

(* ------------------------------------------------------------------ small facts about the data *)
Lemma concat_mk_chunks split : forall data, concat (mk_chunks split data) = data.
Proof.
  induction split as [|n r IH]; intro data; cbn [mk_chunks concat].
  - apply app_nil_r.
  - rewrite IH. apply firstn_skipn.
Qed.

Lemma length_mk_chunks split : forall data, length (mk_chunks split data) = S (length split).
Proof. induction split as [|n r IH]; intro data; cbn [mk_chunks length]; auto. Qed.

Lemma coll_data_none cs : coll_data cs None = None.
Proof. induction cs as [|[b| |k] r IH]; cbn [coll_data option_map]; auto. Qed.

(* ------------------------------------------------------------------ one step: what it may touch *)
Ltac step_open H :=
  unfold wstep, do_write, do_close, accept, to_handler in H;
  repeat (break_match; try discriminate); inv H;
  repeat match goal with E : (_, _) = (_, _) |- _ => inv E end.

Ltac find_simpl :=
  repeat first
    [ rewrite find_set_same | rewrite find_remove_same | rewrite find_append_same
    | rewrite find_set_other by congruence | rewrite find_remove_other by congruence
    | rewrite find_append_other by congruence ].

Lemma os_move_some nt call f src dst f' :
  os_move nt call f src dst = Some f' ->
  exists b, fs_find f src = Some b /\ f' = fs_set (fs_remove f src) dst b.
Proof.
  unfold os_move. intro H. destruct (fs_find f src) as [b|]; [|discriminate].
  exists b. split; auto. repeat (break_match; try discriminate); inv H; auto.
Qed.

Lemma os_move_chosen_none nt f src dst :
  os_move nt (chosen_call nt) f src dst = None -> fs_find f src = None.
Proof.
  unfold os_move, chosen_call. destruct (fs_find f src); auto. destruct nt; intro H; try discriminate;
    destruct (fs_find f dst); discriminate.
Qed.

Ltac use_move :=
  match goal with
  | E : os_move _ _ _ _ _ = Some _ |- _ =>
      let b := fresh "b" in let E1 := fresh "Hsrc" in let E2 := fresh in
      destruct (os_move_some _ _ _ _ _ _ E) as (b & E1 & E2); subst; clear E
  end.

Lemma step_frame c s f s' f' p :
  wstep c s f = (s', f') -> p <> w_tmp c -> p <> w_path c -> fs_find f' p = fs_find f p.
Proof.
  intros H N1 N2. step_open H; try use_move; cbn [w_pc w_buf]; find_simpl; auto.
Qed.

(* only the rename step touches the target, and it installs exactly what the temporary file holds *)
Lemma step_target c s f s' f' :
  wstep c s f = (s', f') ->
  ((w_pc s' <> PDone None \/ w_pc s = PDone None) /\ fs_find f' (w_path c) = fs_find f (w_path c))
  \/ (w_pc s = PRename /\ w_pc s' = PDone None /\
      exists b, fs_find f (w_tmp c) = Some b /\ fs_find f' (w_path c) = Some b /\ fs_find f' (w_tmp c) = None).
Proof.
  intro H. pose proof (w_tmp_ne_path c) as N. assert (N' : w_path c <> w_tmp c) by congruence.
  step_open H; try use_move; cbn [w_pc w_buf];
    try (left; split; [left; discriminate|find_simpl; reflexivity]);
    try (left; split; [right; assumption|reflexivity]).
  - right. repeat split; auto. exists b. find_simpl. auto.
  - left. split; [|reflexivity]. destruct r; [left; congruence|right; reflexivity].
Qed.

(* ------------------------------------------------------------------ the temporary file holds what was written *)
Definition WInv (c : wcfg) (s : wstate) (t : option bytes) (chunks : list bytes) : Prop :=
  exists d b, t = Some d /\ w_buf s = Some b /\ Some (d ++ b ++ concat chunks) = w_new c
              /\ (w_buffered c = false -> b = []).

Definition winv (c : wcfg) (s : wstate) (t : option bytes) : Prop :=
  match w_pc s with
  | PCollect rest i acc => t = Some [] /\ w_buf s = Some [] /\ coll_data rest acc = w_new c
  | PWrite chunks j => WInv c s t chunks
  | PClose None => WInv c s t []
  | PRename => t <> None /\ t = w_new c
  | PRemove _ => t <> None
  | _ => True
  end.

Lemma handler_winv c e b t : winv c {| w_pc := to_handler c e; w_buf := b |} t.
Proof. unfold to_handler, winv. destruct (catches c e); cbn [w_pc]; exact I. Qed.

Lemma do_close_winv c s f pending s' f' :
  (pending = None -> WInv c s (fs_find f (w_tmp c)) []) ->
  do_close c s f pending = (s', f') -> winv c s' (fs_find f' (w_tmp c)).
Proof.
  intros HW H. unfold do_close in H. destruct (plan_find (w_plan c) SClose) as [[k n]|].
  - inv H. apply handler_winv.
  - inv H. destruct pending as [e|]; [apply handler_winv|].
    destruct (HW eq_refl) as (d & b & Ht & Hb & Hn & _). unfold winv. cbn [w_pc].
    rewrite find_append_same, Ht, Hb. cbn [option_map]. rewrite <- Hn. cbn [concat]. rewrite app_nil_r.
    split; [discriminate|reflexivity].
Qed.

Lemma short_find_nil j : short_find [] j = None.
Proof. reflexivity. Qed.

Lemma keeps_retry c j ch n : keeps c -> short_of c j ch = Some n -> w_retry c = true.
Proof.
  intros [H|H] Hs; auto. unfold short_of in Hs. rewrite H in Hs. cbn [short_find] in Hs. discriminate.
Qed.

Lemma do_write_winv c s f chunks j s' f' :
  keeps c ->
  WInv c s (fs_find f (w_tmp c)) chunks ->
  do_write c s f chunks j = (s', f') -> winv c s' (fs_find f' (w_tmp c)).
Proof.
  intros Hk HW H. destruct chunks as [|ch rest]; cbn [do_write] in H.
  - eapply do_close_winv; eauto.
  - destruct (plan_find (w_plan c) (SWrite j)) as [[k n]|].
    + destruct (accept c s f (firstn n ch)). inv H. exact I.
    + destruct (short_of c j ch) as [n|] eqn:Hsh.
      { rewrite (keeps_retry c j ch n Hk Hsh) in H.
        destruct HW as (d & b & Ht & Hb & Hn & Hu). unfold accept in H.
        destruct (w_buffered c) eqn:Hbuf; inv H; unfold winv; cbn [w_pc].
        * exists d, (b ++ firstn n ch). cbn [w_buf]. rewrite Hb. cbn [option_map]. repeat split; auto.
          -- rewrite <- Hn. cbn [concat]. rewrite <- !app_assoc. rewrite (app_assoc (firstn n ch)), firstn_skipn. reflexivity.
          -- intro Hx. congruence.
        * rewrite (Hu eq_refl) in *. exists (d ++ firstn n ch), []. cbn [w_buf]. rewrite find_append_same, Ht. cbn [option_map].
          repeat split; auto. rewrite <- Hn. cbn [concat app]. rewrite <- !app_assoc. rewrite (app_assoc (firstn n ch)), firstn_skipn. reflexivity. }
      destruct HW as (d & b & Ht & Hb & Hn & Hu). unfold accept in H.
      destruct (w_buffered c) eqn:Hbuf; inv H; unfold winv; cbn [w_pc].
      * exists d, (b ++ ch). cbn [w_buf]. rewrite Hb. cbn [option_map]. repeat split; auto.
        -- rewrite <- Hn. cbn [concat]. rewrite <- !app_assoc. reflexivity.
        -- intro Hx. congruence.
      * rewrite (Hu eq_refl) in *. exists (d ++ ch), []. cbn [w_buf]. rewrite find_append_same, Ht. cbn [option_map].
        repeat split; auto. rewrite <- Hn. cbn [concat app]. rewrite <- app_assoc. reflexivity.
Qed.

Lemma step_winv c s f s' f' :
  keeps c ->
  winv c s (fs_find f (w_tmp c)) -> wstep c s f = (s', f') -> winv c s' (fs_find f' (w_tmp c)).
Proof.
  intros Hk HI H. unfold wstep in H. unfold winv in HI. destruct (w_pc s) as [|rest i acc|chunks j|pending| |e|e|r] eqn:Hpc.
  - destruct (plan_find (w_plan c) SOpen) as [[k n]|]; inv H; [apply handler_winv|].
    unfold winv. cbn [w_pc w_buf]. rewrite find_set_same. auto.
  - destruct HI as (Ht & Hb & Hd). destruct rest as [|[b| |k] rest].
    + destruct acc as [data|].
      * eapply do_write_winv; [exact Hk| |exact H]. exists [], []. repeat split; auto.
        cbn [app]. rewrite concat_mk_chunks. exact Hd.
      * eapply do_close_winv; [|exact H]. discriminate.
    + inv H. unfold winv. cbn [w_pc w_buf]. auto.
    + inv H. unfold winv. cbn [w_pc w_buf]. auto.
    + inv H. exact I.
  - eapply do_write_winv; eauto.
  - eapply do_close_winv; [|exact H]. intros ->. exact HI.
  - destruct (plan_find (w_plan c) SRename) as [[k n]|]; [inv H; apply handler_winv|].
    destruct (os_move _ _ _ _ _); inv H; [exact I|apply handler_winv].
  - destruct (plan_find (w_plan c) SExists) as [[k n]|]; [inv H; exact I|].
    destruct (fs_find f (w_tmp c)) eqn:E; inv H; unfold winv; cbn [w_pc]; auto. rewrite E. discriminate.
  - destruct (plan_find (w_plan c) SRemove) as [[k n]|]; [inv H; exact I|].
    destruct (fs_find f (w_tmp c)); inv H; exact I.
  - inv H. unfold winv. rewrite Hpc. exact I.
Qed.

Lemma winit_winv c t : winv c winit t.
Proof. exact I. Qed.

(* ------------------------------------------------------------------ termination *)
Definition pc_fuel (c : wcfg) (p : pc) : nat :=
  match p with
  | POpen => 7 + length (w_colls c) + length (w_split c) + length (w_short c)
  | PCollect rest _ _ => 6 + length rest + length (w_split c) + length (w_short c)
  | PWrite chunks j => 4 + length chunks + shorts_from (w_short c) j
  | PClose _ => 4
  | PRename => 3
  | PExists _ => 2
  | PRemove _ => 1
  | PDone _ => 0
  end.

Lemma handler_fuel c e : (pc_fuel c (to_handler c e) <= 2)%nat.
Proof. unfold to_handler. destruct (catches c e); cbn [pc_fuel]; lia. Qed.

Lemma do_close_fuel c s f pending s' f' :
  do_close c s f pending = (s', f') -> (pc_fuel c (w_pc s') <= 3)%nat.
Proof.
  unfold do_close. intro H. destruct (plan_find (w_plan c) SClose) as [[k n]|]; inv H; cbn [w_pc].
  - pose proof (handler_fuel c (SClose, k)). lia.
  - destruct pending as [e|]; [pose proof (handler_fuel c e); lia|cbn [pc_fuel]; lia].
Qed.

Lemma shorts_from_le p j : (shorts_from p j <= length p)%nat.
Proof.
  unfold shorts_from. induction p as [|e p IH]; cbn [filter length]; auto.
  destruct (Nat.leb j (fst e)); cbn [length]; lia.
Qed.

Lemma shorts_from_S p j : (shorts_from p (S j) <= shorts_from p j)%nat.
Proof.
  unfold shorts_from. induction p as [|[j' n] p IH]; cbn [filter fst]; auto.
  destruct (Nat.leb_spec (S j) j'); destruct (Nat.leb_spec j j'); cbn [length]; lia.
Qed.

Lemma shorts_from_fired p j n : short_find p j = Some n -> (shorts_from p (S j) < shorts_from p j)%nat.
Proof.
  unfold shorts_from. induction p as [|[j' m] p IH]; cbn [short_find filter fst]; [discriminate|].
  pose proof (shorts_from_S p j) as Hm. unfold shorts_from in Hm.
  destruct (Nat.eqb_spec j j') as [->|N]; intro H.
  - destruct (Nat.leb_spec (S j') j'); [lia|]. rewrite Nat.leb_refl. cbn [length]. lia.
  - specialize (IH H). destruct (Nat.leb_spec (S j) j'); destruct (Nat.leb_spec j j'); cbn [length]; lia.
Qed.

Lemma short_of_found c j ch n : short_of c j ch = Some n -> short_find (w_short c) j = Some n.
Proof.
  unfold short_of. destruct (short_find (w_short c) j) as [m|]; [|discriminate].
  destruct (Nat.ltb m (length ch)); congruence.
Qed.

Lemma do_write_fuel c s f chunks j s' f' :
  do_write c s f chunks j = (s', f') -> (pc_fuel c (w_pc s') < 4 + length chunks + shorts_from (w_short c) j)%nat.
Proof.
  intro H. destruct chunks as [|ch rest]; cbn [do_write] in H.
  - apply do_close_fuel in H. cbn [length]. lia.
  - pose proof (shorts_from_S (w_short c) j) as Hm.
    destruct (plan_find (w_plan c) (SWrite j)) as [[k n]|].
    + destruct (accept c s f (firstn n ch)). inv H. cbn [w_pc pc_fuel length]. lia.
    + destruct (short_of c j ch) as [n|] eqn:Hsh.
      * apply short_of_found, shorts_from_fired in Hsh.
        destruct (accept c s f (firstn n ch)). inv H. cbn [w_pc pc_fuel]. destruct (w_retry c); cbn [length]; lia.
      * destruct (accept c s f ch). inv H. cbn [w_pc pc_fuel length]. lia.
Qed.

Lemma step_fuel c s f s' f' :
  wstep c s f = (s', f') ->
  (exists r, w_pc s = PDone r /\ s' = s /\ f' = f) \/ (pc_fuel c (w_pc s') < pc_fuel c (w_pc s))%nat.
Proof.
  intro H. unfold wstep in H. destruct (w_pc s) as [|rest i acc|chunks j|pending| |e|e|r] eqn:Hpc.
  - right. destruct (plan_find (w_plan c) SOpen) as [[k n]|]; inv H; cbn [w_pc].
    + pose proof (handler_fuel c (SOpen, k)). cbn [pc_fuel]. lia.
    + cbn [pc_fuel]. lia.
  - right. destruct rest as [|[b| |k] rest].
    + destruct acc as [data|].
      * apply do_write_fuel in H. rewrite length_mk_chunks in H. pose proof (shorts_from_le (w_short c) 0).
        cbn [pc_fuel length]. lia.
      * apply do_close_fuel in H. cbn [pc_fuel length]. lia.
    + inv H. cbn [w_pc pc_fuel length]. lia.
    + inv H. cbn [w_pc pc_fuel length]. lia.
    + inv H. cbn [w_pc pc_fuel length]. lia.
  - right. apply do_write_fuel in H. cbn [pc_fuel]. lia.
  - right. apply do_close_fuel in H. cbn [pc_fuel]. lia.
  - right. destruct (plan_find (w_plan c) SRename) as [[k n]|].
    + inv H. cbn [w_pc]. pose proof (handler_fuel c (SRename, k)). cbn [pc_fuel]. lia.
    + destruct (os_move _ _ _ _ _); inv H; cbn [w_pc].
      * cbn [pc_fuel]. lia.
      * pose proof (handler_fuel c (SRename, EExc)). cbn [pc_fuel]. lia.
  - right. destruct (plan_find (w_plan c) SExists) as [[k n]|]; [inv H; cbn [w_pc pc_fuel]; lia|].
    destruct (fs_find f (w_tmp c)); inv H; cbn [w_pc pc_fuel]; lia.
  - right. destruct (plan_find (w_plan c) SRemove) as [[k n]|]; [inv H; cbn [w_pc pc_fuel]; lia|].
    destruct (fs_find f (w_tmp c)); inv H; cbn [w_pc pc_fuel]; lia.
  - left. inv H. eauto.
Qed.

Lemma wsteps_done c n : forall s f r, w_pc s = PDone r -> wsteps c n s f = (s, f).
Proof.
  induction n as [|n IH]; intros s f r H; cbn [wsteps]; auto.
  unfold wstep. rewrite H. eapply IH; eauto.
Qed.

Lemma wsteps_terminates c n : forall s f, (pc_fuel c (w_pc s) <= n)%nat ->
  exists r, w_pc (fst (wsteps c n s f)) = PDone r.
Proof.
  induction n as [|n IH]; intros s f Hn; cbn [wsteps].
  - destruct (w_pc s) eqn:E; cbn [pc_fuel] in Hn; try lia. cbn [fst]. eauto.
  - destruct (wstep c s f) as [s' f'] eqn:Hs. destruct (step_fuel _ _ _ _ _ Hs) as [(r & Hr & -> & ->)|Hlt].
    + rewrite (wsteps_done c n s f r Hr). cbn [fst]. eauto.
    + apply IH. lia.
Qed.

Lemma wsteps_plus c n : forall m s f,
  wsteps c (n + m) s f = let '(s', f') := wsteps c n s f in wsteps c m s' f'.
Proof.
  induction n as [|n IH]; intros m s f; cbn [wsteps Nat.add]; auto.
  destruct (wstep c s f) as [s' f']. apply IH.
Qed.

(* invariants of single steps are invariants of runs *)
Lemma wsteps_inv c (P : wstate -> fs -> Prop) :
  (forall s f s' f', P s f -> wstep c s f = (s', f') -> P s' f') ->
  forall n s f, P s f -> P (fst (wsteps c n s f)) (snd (wsteps c n s f)).
Proof.
  intros Hstep. induction n as [|n IH]; intros s f HP; cbn [wsteps]; auto.
  destruct (wstep c s f) as [s' f'] eqn:Hs. apply IH. eapply Hstep; eauto.
Qed.

(* ------------------------------------------------------------------ cleanup, and which error reaches the caller *)
Definition cinv (c : wcfg) (s : wstate) (t : option bytes) : Prop :=
  match w_pc s with
  | PExists e | PRemove e => catches c e = true
  | PDone (Some e) => catches c e = true -> t = None
  | PDone None => t = None
  | _ => True
  end.

Lemma handler_cinv c e b t : cinv c {| w_pc := to_handler c e; w_buf := b |} t.
Proof.
  unfold to_handler, cinv. destruct (catches c e) eqn:E; cbn [w_pc]; auto. congruence.
Qed.

Lemma resume_handler c e : resume c (to_handler c e) = Some e.
Proof. unfold to_handler. destruct (catches c e); reflexivity. Qed.

Lemma do_close_cinv c s f pending s' f' :
  do_close c s f pending = (s', f') -> cinv c s' (fs_find f' (w_tmp c)) /\ resume c (w_pc s') = resume_close c pending.
Proof.
  unfold do_close, resume_close. intro H. destruct (plan_find (w_plan c) SClose) as [[k n]|]; inv H; cbn [w_pc].
  - split; [apply handler_cinv|apply resume_handler].
  - destruct pending as [e|]; [split; [apply handler_cinv|apply resume_handler]|].
    split; [exact I|reflexivity].
Qed.

Lemma do_write_cinv c s f chunks j s' f' :
  do_write c s f chunks j = (s', f') ->
  cinv c s' (fs_find f' (w_tmp c)) /\ (w_short c = [] -> resume c (w_pc s') = resume_write c chunks j).
Proof.
  intro H. destruct chunks as [|ch rest]; cbn [do_write resume_write] in *.
  - apply do_close_cinv in H. split; [apply H|intros _; apply H].
  - destruct (plan_find (w_plan c) (SWrite j)) as [[k n]|].
    + destruct (accept c s f (firstn n ch)). inv H. split; [exact I|reflexivity].
    + destruct (short_of c j ch) as [n|] eqn:Hsh.
      * destruct (accept c s f (firstn n ch)). inv H. split; [exact I|].
        intro Hno. unfold short_of in Hsh. rewrite Hno in Hsh. discriminate.
      * destruct (accept c s f ch). inv H. split; [exact I|reflexivity].
Qed.

Lemma weaken_r (A B P : Prop) : A /\ B -> A /\ (P -> B).
Proof. tauto. Qed.

Lemma step_cinv c s f s' f' :
  nhf c -> winv c s (fs_find f (w_tmp c)) -> cinv c s (fs_find f (w_tmp c)) ->
  wstep c s f = (s', f') ->
  cinv c s' (fs_find f' (w_tmp c)) /\ (w_short c = [] -> resume c (w_pc s') = resume c (w_pc s)).
Proof.
  intros [Hex Hrm] HW HC H. pose proof (w_tmp_ne_path c) as N.
  unfold wstep in H. unfold winv in HW. unfold cinv in HC.
  destruct (w_pc s) as [|rest i acc|chunks j|pending| |e|e|r] eqn:Hpc; cbn [resume].
  - apply weaken_r. destruct (plan_find (w_plan c) SOpen) as [[k n]|]; inv H; cbn [w_pc].
    + split; [apply handler_cinv|apply resume_handler].
    + split; [exact I|reflexivity].
  - destruct rest as [|[b| |k] rest]; cbn [resume_collect].
    + destruct acc as [data|]; [apply do_write_cinv in H|apply weaken_r; apply do_close_cinv in H]; exact H.
    + inv H. split; [exact I|reflexivity].
    + inv H. split; [exact I|reflexivity].
    + inv H. split; [exact I|reflexivity].
  - apply do_write_cinv in H. exact H.
  - apply weaken_r. apply do_close_cinv in H. exact H.
  - apply weaken_r. destruct (plan_find (w_plan c) SRename) as [[k n]|].
    + inv H. cbn [w_pc]. split; [apply handler_cinv|apply resume_handler].
    + destruct (os_move _ _ _ _ _) eqn:Hm.
      * use_move. inv H. cbn [w_pc]. split; [|reflexivity]. unfold cinv. cbn [w_pc]. find_simpl. reflexivity.
      * apply os_move_chosen_none in Hm. destruct HW as [HW _]. congruence.
  - apply weaken_r. rewrite Hex in H. destruct (fs_find f (w_tmp c)) eqn:E; inv H; unfold cinv; cbn [w_pc resume]; auto.
  - apply weaken_r. rewrite Hrm in H. destruct (fs_find f (w_tmp c)) eqn:E; [|congruence]. inv H. unfold cinv. cbn [w_pc resume].
    split; [|reflexivity]. intros _. apply find_remove_same.
  - apply weaken_r. inv H. unfold cinv. rewrite Hpc. cbn [resume]. auto.
Qed.

(* ------------------------------------------------------------------ one call on its own *)
Definition SInv (c : wcfg) (f0 : fs) (s : wstate) (f : fs) : Prop :=
  winv c s (fs_find f (w_tmp c))
  /\ (forall p, p <> w_tmp c -> p <> w_path c -> fs_find f p = fs_find f0 p)
  /\ (w_pc s <> PDone None -> fs_find f (w_path c) = fs_find f0 (w_path c))
  /\ (w_pc s = PDone None -> exists d, w_new c = Some d /\ fs_find f (w_path c) = Some d).

Lemma SInv_init c f0 : SInv c f0 winit f0.
Proof. repeat split; auto. cbn [winit w_pc]. discriminate. Qed.

Lemma SInv_step c f0 s f s' f' : keeps c -> SInv c f0 s f -> wstep c s f = (s', f') -> SInv c f0 s' f'.
Proof.
  intros Hk (HW & HF & HT & HD) H. split; [eapply step_winv; eauto|]. split.
  { intros p N1 N2. rewrite (step_frame _ _ _ _ _ p H N1 N2). auto. }
  destruct (step_target _ _ _ _ _ H) as [[Hpc Ht]|(Hpc & Hpc' & b & Hb & Htb & _)].
  - rewrite Ht. split.
    + intro Hn. apply HT. intro Hs.
      (* s was already finished: the step is the identity *)
      unfold wstep in H. rewrite Hs in H. inv H. contradiction.
    + intro Hd. destruct Hpc as [Hpc|Hpc]; [contradiction|]. apply HD. exact Hpc.
  - split; [intro Hn; contradiction|]. intros _. unfold winv in HW. rewrite Hpc in HW. destruct HW as [_ HW].
    exists b. split; [congruence|exact Htb].
Qed.

Lemma SInv_run c f0 n : keeps c -> SInv c f0 (fst (wsteps c n winit f0)) (snd (wsteps c n winit f0)).
Proof. intro Hk. apply (wsteps_inv c (SInv c f0)); [intros s f s' f'; apply SInv_step; exact Hk|apply SInv_init]. Qed.

(* at every cut point the target is old or complete new *)
Theorem target_old_or_new c f0 n :
  keeps c ->
  let f := snd (wsteps c n winit f0) in
  fs_find f (w_path c) = fs_find f0 (w_path c)
  \/ exists d, w_new c = Some d /\ fs_find f (w_path c) = Some d.
Proof.
  intro Hk. cbn zeta. destruct (SInv_run c f0 n Hk) as (_ & _ & HT & HD).
  destruct (w_pc (fst (wsteps c n winit f0))) as [| | | | | | |[e|]] eqn:E;
    try (left; apply HT; discriminate).
  right. apply HD. reflexivity.
Qed.

(* and no other file than the temporary one is ever touched *)
Theorem others_untouched c f0 n p :
  p <> w_tmp c -> p <> w_path c -> fs_find (snd (wsteps c n winit f0)) p = fs_find f0 p.
Proof.
  intros N1 N2.
  apply (wsteps_inv c (fun _ f => fs_find f p = fs_find f0 p)); [|reflexivity].
  intros s f s' f' HP H. rewrite (step_frame _ _ _ _ _ p H N1 N2). exact HP.
Qed.

(* whatever the short writes do (retried or not): the target is untouched until the call RETURNS; a call that has
   not returned, or that raised, never shows anything but the previous content *)
Theorem target_untouched_unless_returned c f0 n :
  w_pc (fst (wsteps c n winit f0)) <> PDone None ->
  fs_find (snd (wsteps c n winit f0)) (w_path c) = fs_find f0 (w_path c).
Proof.
  apply (wsteps_inv c (fun s f => w_pc s <> PDone None -> fs_find f (w_path c) = fs_find f0 (w_path c))); [|reflexivity].
  intros s f s' f' HP H Hn. destruct (step_target _ _ _ _ _ H) as [[Hpc Ht]|(_ & Hpc' & _)]; [|contradiction].
  rewrite Ht. apply HP. intro Hs. unfold wstep in H. rewrite Hs in H. inv H. contradiction.
Qed.

Theorem terminates c f0 : exists r, w_pc (fst (wfinal c f0)) = PDone r.
Proof. unfold wfinal. apply wsteps_terminates. cbn [winit w_pc pc_fuel]. unfold wbound. lia. Qed.

Theorem final_is_final c f0 n : (wbound c <= n)%nat -> wsteps c n winit f0 = wfinal c f0.
Proof.
  intro Hn. replace n with (wbound c + (n - wbound c))%nat by lia. rewrite wsteps_plus. fold (wfinal c f0).
  destruct (terminates c f0) as [r Hr]. destruct (wfinal c f0) as [s f]. cbn [fst] in Hr.
  eapply wsteps_done; eauto.
Qed.

Definition SInv2 (c : wcfg) (s : wstate) (f : fs) : Prop :=
  winv c s (fs_find f (w_tmp c)) /\ cinv c s (fs_find f (w_tmp c)) /\ (w_short c = [] -> resume c (w_pc s) = wresult c).

Lemma SInv2_run c f0 n : keeps c -> nhf c -> SInv2 c (fst (wsteps c n winit f0)) (snd (wsteps c n winit f0)).
Proof.
  intros Hk Hn. apply (wsteps_inv c (SInv2 c)).
  - intros s f s' f' (HW & HC & HR) H. destruct (step_cinv _ _ _ _ _ Hn HW HC H) as [HC' HR'].
    split; [eapply step_winv; eauto|]. split; auto. intro Hno. rewrite (HR' Hno). auto.
  - repeat split.
Qed.

Lemma no_short_keeps c : w_short c = [] -> keeps c.
Proof. intro H. right. exact H. Qed.

(* the call raises exactly the error of the big-step reading, or returns when that says so *)
Theorem outcome_is_wresult c f0 : w_short c = [] -> nhf c -> outcome (fst (wfinal c f0)) = Some (wresult c).
Proof.
  intros Hno Hn. destruct (terminates c f0) as [r Hr]. unfold wfinal in *.
  destruct (SInv2_run c f0 (wbound c) (no_short_keeps c Hno) Hn) as (_ & _ & HR). specialize (HR Hno).
  unfold outcome. rewrite Hr in *. cbn [resume] in HR. congruence.
Qed.

(* raising: nothing changed, no temporary file *)
Theorem raise_cleans_gen c f0 e :
  keeps c -> nhf c -> outcome (fst (wfinal c f0)) = Some (Some e) -> catches c e = true ->
  fs_same (snd (wfinal c f0)) (fs_remove f0 (w_tmp c)).
Proof.
  intros Hk Hn Ho Hc.
  unfold wfinal in *. destruct (SInv2_run c f0 (wbound c) Hk Hn) as (_ & HC & _).
  destruct (SInv_run c f0 (wbound c) Hk) as (_ & HF & HT & _).
  unfold outcome in Ho. destruct (w_pc (fst (wsteps c (wbound c) winit f0))) eqn:E; try discriminate. inv Ho.
  unfold cinv in HC. rewrite E in HC. pose proof (w_tmp_ne_path c) as N.
  unfold fs_same. intro p. destruct (str_eqb p (w_tmp c)) eqn:E1.
  - apply str_eqb_eq in E1. subst p. rewrite find_remove_same. auto.
  - apply str_eqb_neq in E1. rewrite find_remove_other by auto. destruct (str_eqb p (w_path c)) eqn:E2.
    + apply str_eqb_eq in E2. subst p. apply HT. discriminate.
    + apply str_eqb_neq in E2. apply HF; auto.
Qed.

Theorem raise_cleans c f0 e :
  w_short c = [] -> nhf c -> wresult c = Some e -> catches c e = true ->
  outcome (fst (wfinal c f0)) = Some (Some e) /\ fs_same (snd (wfinal c f0)) (fs_remove f0 (w_tmp c)).
Proof.
  intros Hno Hn Hr Hc. pose proof (outcome_is_wresult c f0 Hno Hn) as Ho. rewrite Hr in Ho. split; auto.
  apply (raise_cleans_gen c f0 e (no_short_keeps c Hno) Hn Ho Hc).
Qed.

(* returning: the target holds the complete new exposition, the temporary file is gone, nothing else changed *)
Theorem return_installs_gen c f0 :
  keeps c -> nhf c -> outcome (fst (wfinal c f0)) = Some None ->
  exists d, w_new c = Some d /\ outcome (fst (wfinal c f0)) = Some None
            /\ fs_same (snd (wfinal c f0)) (fs_set (fs_remove f0 (w_tmp c)) (w_path c) d).
Proof.
  intros Hk Hn Ho.
  unfold wfinal in *. destruct (SInv2_run c f0 (wbound c) Hk Hn) as (_ & HC & _).
  destruct (SInv_run c f0 (wbound c) Hk) as (_ & HF & _ & HD).
  unfold outcome in Ho. destruct (w_pc (fst (wsteps c (wbound c) winit f0))) eqn:E; try discriminate. inv Ho.
  destruct (HD eq_refl) as (d & Hd & Ht). exists d. split; [exact Hd|]. split; [unfold outcome; rewrite E; reflexivity|].
  unfold cinv in HC. rewrite E in HC. pose proof (w_tmp_ne_path c) as N.
  unfold fs_same. intro p. destruct (str_eqb p (w_path c)) eqn:E2.
  - apply str_eqb_eq in E2. subst p. rewrite find_set_same. exact Ht.
  - apply str_eqb_neq in E2. rewrite find_set_other by auto. destruct (str_eqb p (w_tmp c)) eqn:E1.
    + apply str_eqb_eq in E1. subst p. rewrite find_remove_same. auto.
    + apply str_eqb_neq in E1. rewrite find_remove_other by auto. apply HF; auto.
Qed.

Theorem return_installs c f0 :
  w_short c = [] -> nhf c -> wresult c = None ->
  exists d, w_new c = Some d /\ outcome (fst (wfinal c f0)) = Some None
            /\ fs_same (snd (wfinal c f0)) (fs_set (fs_remove f0 (w_tmp c)) (w_path c) d).
Proof.
  intros Hno Hn Hr. pose proof (outcome_is_wresult c f0 Hno Hn) as Ho. rewrite Hr in Ho.
  apply (return_installs_gen c f0 (no_short_keeps c Hno) Hn Ho).
Qed.

(* ------------------------------------------------------------------ the big-step reading, characterised *)
Lemma resume_close_none c pend :
  resume_close c pend = None <->
  plan_find (w_plan c) SClose = None /\ pend = None /\ plan_find (w_plan c) SRename = None.
Proof.
  unfold resume_close. destruct (plan_find (w_plan c) SClose) as [[k n]|].
  - split; [discriminate|intros (H & _); discriminate].
  - destruct pend as [e|].
    + split; [discriminate|intros (_ & H & _); discriminate].
    + destruct (plan_find (w_plan c) SRename) as [[k n]|]; split; auto; try discriminate.
      intros (_ & _ & H). discriminate.
Qed.

Lemma resume_write_none c chunks : forall j,
  resume_write c chunks j = None <->
  plan_find (w_plan c) SClose = None /\ plan_find (w_plan c) SRename = None /\
  forall j', (j <= j' < j + length chunks)%nat -> plan_find (w_plan c) (SWrite j') = None.
Proof.
  induction chunks as [|ch rest IH]; intro j; cbn [resume_write length].
  - rewrite resume_close_none. split.
    + intros (H1 & _ & H2). repeat split; auto. intros j' Hj. lia.
    + intros (H1 & H2 & _). auto.
  - destruct (plan_find (w_plan c) (SWrite j)) as [[k n]|] eqn:E.
    + rewrite resume_close_none. split.
      * intros (_ & H & _). discriminate.
      * intros (_ & _ & H). rewrite H in E by lia. discriminate.
    + rewrite IH. split; intros (H1 & H2 & H3); repeat split; auto; intros j' Hj.
      * destruct (Nat.eq_dec j' j) as [->|Hne]; auto. apply H3. lia.
      * apply H3. lia.
Qed.

Lemma resume_collect_none c rest : forall i acc,
  resume_collect c rest i acc = None <->
  plan_find (w_plan c) SClose = None /\ plan_find (w_plan c) SRename = None /\
  exists data, coll_data rest acc = Some data /\
               forall j, (j <= length (w_split c))%nat -> plan_find (w_plan c) (SWrite j) = None.
Proof.
  induction rest as [|[b| |k] rest IH]; intros i acc; cbn [resume_collect coll_data].
  - destruct acc as [data|].
    + rewrite resume_write_none, length_mk_chunks. split.
      * intros (H1 & H2 & H3). repeat split; auto. exists data. split; auto. intros j Hj. apply H3. lia.
      * intros (H1 & H2 & d & _ & H3). repeat split; auto. intros j Hj. apply H3. lia.
    + rewrite resume_close_none. split.
      * intros (_ & H & _). discriminate.
      * intros (_ & _ & d & H & _). discriminate.
  - apply IH.
  - rewrite IH. rewrite coll_data_none. reflexivity.
  - rewrite resume_close_none. split.
    + intros (_ & H & _). discriminate.
    + intros (_ & _ & d & H & _). discriminate.
Qed.

Theorem wresult_none_iff c : wresult c = None <-> fault_free c.
Proof.
  unfold wresult, fault_free, w_new. cbn [resume]. destruct (plan_find (w_plan c) SOpen) as [[k n]|].
  - split; [discriminate|intros (H & _); discriminate].
  - rewrite resume_collect_none. tauto.
Qed.

(* single faults: the caller sees that very error *)
Lemma plan_find_single s x s' : plan_find [(s, x)] s' = if site_eqb s' s then Some x else None.
Proof. reflexivity. Qed.

Lemma site_eqb_refl s : site_eqb s s = true.
Proof. destruct s; cbn [site_eqb]; auto using Nat.eqb_refl. Qed.

Lemma site_eqb_eq a b : site_eqb a b = true -> a = b.
Proof.
  destruct a, b; cbn [site_eqb]; intro H; try discriminate; auto; apply Nat.eqb_eq in H; congruence.
Qed.

Lemma resume_write_fault c chunks k n : forall j j0,
  (j <= j0 < j + length chunks)%nat ->
  (forall j', (j <= j' < j0)%nat -> plan_find (w_plan c) (SWrite j') = None) ->
  plan_find (w_plan c) (SWrite j0) = Some (k, n) ->
  plan_find (w_plan c) SClose = None ->
  resume_write c chunks j = Some (SWrite j0, k).
Proof.
  induction chunks as [|ch rest IH]; intros j j0 Hj Hbefore Hat Hcl; cbn [length] in Hj; [lia|].
  cbn [resume_write]. destruct (Nat.eq_dec j j0) as [->|Hne].
  - rewrite Hat. unfold resume_close. rewrite Hcl. reflexivity.
  - rewrite Hbefore by lia. apply IH; auto; [lia|]. intros j' Hj'. apply Hbefore. lia.
Qed.

Lemma resume_collect_yields c rest : forall i acc data,
  coll_data rest (Some acc) = Some data ->
  resume_collect c rest i (Some acc) = resume_write c (mk_chunks (w_split c) data) 0.
Proof.
  induction rest as [|[b| |k] rest IH]; intros i acc data H; cbn [resume_collect coll_data option_map] in *.
  - inv H. reflexivity.
  - apply IH. exact H.
  - rewrite coll_data_none in H. discriminate.
  - discriminate.
Qed.

Definition is_raise (co : coutcome) : bool := match co with CRaise _ => true | _ => false end.

Lemma resume_collect_raise c pre k post : forall i acc,
  forallb (fun co => negb (is_raise co)) pre = true ->
  plan_find (w_plan c) SClose = None ->
  resume_collect c (pre ++ CRaise k :: post) i acc = Some (SCollect (i + length pre), k).
Proof.
  induction pre as [|[b| |k'] pre IH]; intros i acc Hpre Hcl; cbn [app resume_collect length forallb is_raise negb andb] in *.
  - unfold resume_close. rewrite Hcl. rewrite Nat.add_0_r. reflexivity.
  - rewrite IH by auto. replace (S i + length pre)%nat with (i + S (length pre))%nat by lia. reflexivity.
  - rewrite IH by auto. replace (S i + length pre)%nat with (i + S (length pre))%nat by lia. reflexivity.
  - discriminate.
Qed.

Lemma resume_collect_bad c rest : forall i,
  forallb (fun co => negb (is_raise co)) rest = true ->
  plan_find (w_plan c) SClose = None ->
  resume_collect c rest i None = Some (SEncode, EExc).
Proof.
  induction rest as [|[b| |k'] rest IH]; intros i Hr Hcl; cbn [resume_collect forallb is_raise negb andb option_map] in *.
  - unfold resume_close. rewrite Hcl. reflexivity.
  - apply IH; auto.
  - apply IH; auto.
  - discriminate.
Qed.

Lemma resume_collect_encode c pre post : forall i acc,
  forallb (fun co => negb (is_raise co)) (pre ++ CBad :: post) = true ->
  plan_find (w_plan c) SClose = None ->
  resume_collect c (pre ++ CBad :: post) i acc = Some (SEncode, EExc).
Proof.
  induction pre as [|[b| |k'] pre IH]; intros i acc Hr Hcl; cbn [app resume_collect forallb is_raise negb andb] in *.
  - apply resume_collect_bad; auto.
  - apply IH; auto.
  - apply IH; auto.
  - discriminate.
Qed.

(* one injected I/O fault, registry fine *)
Lemma wresult_yields c data :
  w_new c = Some data -> plan_find (w_plan c) SOpen = None ->
  wresult c = resume_write c (mk_chunks (w_split c) data) 0.
Proof.
  intros Hd Ho. unfold wresult. cbn [resume]. rewrite Ho. apply resume_collect_yields. exact Hd.
Qed.

Theorem single_io_fault c data s k n :
  w_new c = Some data -> w_plan c = [(s, (k, n))] ->
  (s = SOpen \/ s = SClose \/ s = SRename \/ exists j, s = SWrite j /\ (j <= length (w_split c))%nat) ->
  wresult c = Some (s, k).
Proof.
  intros Hd Hp Hs. destruct Hs as [->|[->|[->|(j & -> & Hj)]]].
  - unfold wresult. cbn [resume]. rewrite Hp. reflexivity.
  - rewrite (wresult_yields c data Hd) by (rewrite Hp; reflexivity).
    generalize (mk_chunks (w_split c) data) 0%nat. intros chunks. induction chunks as [|ch rest IH]; intro j; cbn [resume_write].
    + unfold resume_close. rewrite Hp. reflexivity.
    + rewrite Hp. cbn [plan_find site_eqb]. apply IH.
  - rewrite (wresult_yields c data Hd) by (rewrite Hp; reflexivity).
    generalize (mk_chunks (w_split c) data) 0%nat. intros chunks. induction chunks as [|ch rest IH]; intro j; cbn [resume_write].
    + unfold resume_close. rewrite Hp. reflexivity.
    + rewrite Hp. cbn [plan_find site_eqb]. apply IH.
  - rewrite (wresult_yields c data Hd) by (rewrite Hp; reflexivity).
    apply resume_write_fault with (n := n).
    + rewrite length_mk_chunks. lia.
    + intros j' Hj'. rewrite Hp. cbn [plan_find site_eqb]. destruct (Nat.eqb_spec j' j); [lia|reflexivity].
    + rewrite Hp. cbn [plan_find site_eqb]. rewrite Nat.eqb_refl. reflexivity.
    + rewrite Hp. reflexivity.
Qed.

(* a collector raising part-way through the registry, no injected I/O fault *)
Theorem collector_raise c pre k post :
  w_colls c = pre ++ CRaise k :: post -> forallb (fun co => negb (is_raise co)) pre = true ->
  plan_find (w_plan c) SOpen = None -> plan_find (w_plan c) SClose = None ->
  wresult c = Some (SCollect (length pre), k).
Proof.
  intros Hc Hpre Ho Hcl. unfold wresult. cbn [resume]. rewrite Ho, Hc.
  rewrite resume_collect_raise by auto. reflexivity.
Qed.

(* text that cannot be encoded *)
Theorem encode_error c pre post :
  w_colls c = pre ++ CBad :: post -> forallb (fun co => negb (is_raise co)) (w_colls c) = true ->
  plan_find (w_plan c) SOpen = None -> plan_find (w_plan c) SClose = None ->
  wresult c = Some (SEncode, EExc).
Proof.
  intros Hc Hr Ho Hcl. unfold wresult. cbn [resume]. rewrite Ho. rewrite Hc in *.
  apply resume_collect_encode; auto.
Qed.

(* ------------------------------------------------------------------ several writers under any schedule *)
Lemma sstep_spec : forall ws i f ws' f', sstep i ws f = (ws', f') ->
  (ws' = ws /\ f' = f) \/
  exists pre c s s' post, ws = pre ++ (c, s) :: post /\ ws' = pre ++ (c, s') :: post /\ wstep c s f = (s', f').
Proof.
  induction ws as [|[c s] r IH]; intros i f ws' f' H; simpl sstep in H.
  - inv H. left. split; reflexivity.
  - destruct i as [|i].
    + destruct (wstep c s f) as [s1 f1] eqn:E. inv H. right. exists [], c, s, s1, r. repeat split; auto.
    + destruct (sstep i r f) as [r1 f1] eqn:E. inv H. destruct (IH _ _ _ _ E) as [[-> ->]|(pre & c1 & s1 & s1' & post & -> & -> & Hs)].
      * left. split; reflexivity.
      * right. exists ((c, s) :: pre), c1, s1, s1', post. repeat split; auto.
Qed.

Lemma srun_inv (P : sys -> fs -> Prop) :
  (forall i ws f ws' f', P ws f -> sstep i ws f = (ws', f') -> P ws' f') ->
  forall sched ws f, P ws f -> P (fst (srun sched ws f)) (snd (srun sched ws f)).
Proof.
  intro Hstep. induction sched as [|i r IH]; intros ws f HP; cbn [srun]; auto.
  destruct (sstep i ws f) as [ws' f'] eqn:E. apply IH. eapply Hstep; eauto.
Qed.

(* per-writer invariant, as a function of what its own temporary file holds *)
Definition PW (c : wcfg) (s : wstate) (t : option bytes) : Prop :=
  winv c s t /\ (nhf c -> cinv c s t /\ (w_short c = [] -> resume c (w_pc s) = wresult c)).

Lemma PW_step c s f s' f' :
  keeps c ->
  PW c s (fs_find f (w_tmp c)) -> wstep c s f = (s', f') -> PW c s' (fs_find f' (w_tmp c)).
Proof.
  intros Hk [HW HC] H. split; [eapply step_winv; eauto|]. intro Hn. destruct (HC Hn) as [HC1 HC2].
  destruct (step_cinv _ _ _ _ _ Hn HW HC1 H) as [H1 H2]. split; auto. intro Hno. rewrite (H2 Hno). auto.
Qed.

Lemma PW_init c t : PW c winit t.
Proof. split; [exact I|]. intros _. split; [exact I|reflexivity]. Qed.

Definition tmp_of (cs : wcfg * wstate) : str := w_tmp (fst cs).

(* all writers aim at the same target; their temporary names differ *)
Definition WF (path : str) (ws : sys) : Prop :=
  ((forall cs, In cs ws -> w_path (fst cs) = path) /\ (forall cs, In cs ws -> keeps (fst cs))) /\ NoDup (map tmp_of ws).

Definition installed (path : str) (ws : sys) (f : fs) : Prop :=
  exists c d, In c (map fst ws) /\ w_new c = Some d /\ fs_find f path = Some d.

Definition MInv (path : str) (f0 : fs) (ws : sys) (f : fs) : Prop :=
  WF path ws
  /\ (fs_find f path = fs_find f0 path \/ installed path ws f)
  /\ Forall (fun cs => PW (fst cs) (snd cs) (fs_find f (tmp_of cs))) ws
  /\ ((exists cs, In cs ws /\ w_pc (snd cs) = PDone None) -> installed path ws f)
  /\ (forall p, p <> path -> (forall cs, In cs ws -> p <> tmp_of cs) -> fs_find f p = fs_find f0 p).

Lemma MInv_step path f0 i ws f ws' f' :
  MInv path f0 ws f -> sstep i ws f = (ws', f') -> MInv path f0 ws' f'.
Proof.
  intros ([[Hpath Hkeep] Hnd] & Ht & Hall & Hdone & Hfr) H.
  destruct (sstep_spec _ _ _ _ _ H) as [[-> ->]|(pre & c & s & s' & post & -> & -> & Hs)].
  { repeat split; auto. }
  assert (Hc : w_path c = path) by (apply (Hpath (c, s)); apply in_or_app; right; left; reflexivity).
  assert (Hfst : map fst (pre ++ (c, s') :: post) = map fst (pre ++ (c, s) :: post))
    by (rewrite !map_app; reflexivity).
  assert (Htmp : map tmp_of (pre ++ (c, s') :: post) = map tmp_of (pre ++ (c, s) :: post))
    by (rewrite !map_app; reflexivity).
  (* the other writers' temporary files are not touched by this step *)
  assert (Hother : forall cs, In cs (pre ++ post) -> fs_find f' (tmp_of cs) = fs_find f (tmp_of cs)).
  { intros cs Hin. eapply step_frame; eauto.
    - rewrite map_app in Hnd. cbn [map] in Hnd. apply NoDup_remove_2 in Hnd. rewrite <- map_app in Hnd.
      intro E. apply Hnd. change (tmp_of (c, s)) with (w_tmp c). rewrite <- E.
      apply in_map. exact Hin.
    - rewrite Hc. rewrite <- (Hpath cs).
      + apply w_tmp_ne_path.
      + apply in_app_or in Hin. apply in_or_app. destruct Hin; [left|right; right]; auto. }
  assert (Hown : PW c s' (fs_find f' (w_tmp c))).
  { eapply PW_step; eauto.
    { apply (Hkeep (c, s)). apply in_or_app. right. left. reflexivity. }
    rewrite Forall_forall in Hall. apply (Hall (c, s)). apply in_or_app. right. left. reflexivity. }
  assert (Hall' : Forall (fun cs => PW (fst cs) (snd cs) (fs_find f' (tmp_of cs))) (pre ++ (c, s') :: post)).
  { rewrite Forall_forall in *. intros cs Hin. apply in_app_or in Hin. destruct Hin as [Hin|[<-|Hin]].
    - rewrite Hother by (apply in_or_app; auto). apply Hall. apply in_or_app. auto.
    - exact Hown.
    - rewrite Hother by (apply in_or_app; auto). apply Hall. apply in_or_app. right. right. auto. }
  assert (HWF : WF path (pre ++ (c, s') :: post)).
  { split; [|rewrite Htmp; exact Hnd]. split; intros cs Hin; apply in_app_or in Hin; destruct Hin as [Hin|[<-|Hin]].
    - apply Hpath. apply in_or_app. auto.
    - exact Hc.
    - apply Hpath. apply in_or_app. right. right. auto.
    - apply Hkeep. apply in_or_app. auto.
    - apply (Hkeep (c, s)). apply in_or_app. right. left. reflexivity.
    - apply Hkeep. apply in_or_app. right. right. auto. }
  assert (Hfr' : forall p, p <> path -> (forall cs, In cs (pre ++ (c, s') :: post) -> p <> tmp_of cs) -> fs_find f' p = fs_find f0 p).
  { intros p N1 N2. rewrite (step_frame _ _ _ _ _ p Hs).
    - apply Hfr; auto. intros cs Hin. apply in_app_or in Hin. destruct Hin as [Hin|[<-|Hin]].
      + apply N2. apply in_or_app. auto.
      + apply (N2 (c, s')). apply in_or_app. right. left. reflexivity.
      + apply N2. apply in_or_app. right. right. auto.
    - apply (N2 (c, s')). apply in_or_app. right. left. reflexivity.
    - rewrite Hc. exact N1. }
  destruct (step_target _ _ _ _ _ Hs) as [[Hpc Hsame]|(Hpc & Hpc' & b & Hb & Htb & _)]; rewrite Hc in *.
  - (* the target is not touched *)
    assert (Hinst : installed path (pre ++ (c, s) :: post) f -> installed path (pre ++ (c, s') :: post) f').
    { intros (c1 & d & H1 & H2 & H3). exists c1, d. rewrite Hfst, Hsame. auto. }
    split; [exact HWF|]. split; [rewrite Hsame; destruct Ht; auto|]. split; [exact Hall'|]. split; [|exact Hfr'].
    intros (cs & Hin & Hd). apply Hinst. apply Hdone. apply in_app_or in Hin. destruct Hin as [Hin|[<-|Hin]].
    + exists cs. split; auto. apply in_or_app. auto.
    + cbn [snd] in Hd. destruct Hpc as [Hpc|Hpc]; [contradiction|]. exists (c, s). split; auto. apply in_or_app. right. left. reflexivity.
    + exists cs. split; auto. apply in_or_app. right. right. auto.
  - (* this writer's rename: the target now holds its complete exposition *)
    assert (Hinst : installed path (pre ++ (c, s') :: post) f').
    { exists c, b. rewrite Hfst. split; [rewrite map_app; apply in_or_app; right; left; reflexivity|]. split; auto.
      rewrite Forall_forall in Hall. assert (Hin : In (c, s) (pre ++ (c, s) :: post)) by (apply in_or_app; right; left; reflexivity).
      destruct (Hall _ Hin) as [HW _]. unfold winv in HW. cbn [fst snd] in HW. rewrite Hpc in HW. destruct HW as [_ HW].
      unfold tmp_of in HW. cbn [fst] in HW. congruence. }
    repeat split; auto; apply HWF.
Qed.

Lemma sinit_in cs x : In x (sinit cs) -> snd x = winit /\ In (fst x) cs.
Proof. unfold sinit. intro H. apply in_map_iff in H. destruct H as (c & <- & Hc). auto. Qed.

Lemma MInv_init path f0 cs :
  (forall c, In c cs -> w_path c = path) -> (forall c, In c cs -> keeps c) ->
  NoDup (map w_tmp cs) -> MInv path f0 (sinit cs) f0.
Proof.
  intros Hp Hk Hnd. split; [split; [split|]|].
  - intros x Hx. apply sinit_in in Hx. apply Hp. apply Hx.
  - intros x Hx. apply sinit_in in Hx. apply Hk. apply Hx.
  - unfold sinit. rewrite map_map. exact Hnd.
  - split; [left; reflexivity|]. split.
    + rewrite Forall_forall. intros x Hx. apply sinit_in in Hx. destruct Hx as [-> _]. apply PW_init.
    + split; [|auto]. intros (x & Hx & Hd). apply sinit_in in Hx. destruct Hx as [Hx _]. rewrite Hx in Hd. discriminate.
Qed.

Lemma MInv_run path f0 cs sched :
  (forall c, In c cs -> w_path c = path) -> (forall c, In c cs -> keeps c) -> NoDup (map w_tmp cs) ->
  MInv path f0 (fst (srun sched (sinit cs) f0)) (snd (srun sched (sinit cs) f0)).
Proof.
  intros Hp Hk Hnd. apply (srun_inv (MInv path f0)).
  - intros i ws f ws' f'. apply MInv_step.
  - apply MInv_init; auto.
Qed.

Lemma sstep_cfgs : forall ws i f, map fst (fst (sstep i ws f)) = map fst ws.
Proof.
  induction ws as [|[c s] r IH]; intros i f; cbn [sstep]; auto. destruct i as [|i].
  - destruct (wstep c s f). reflexivity.
  - specialize (IH i f). destruct (sstep i r f). cbn [fst map] in *. congruence.
Qed.

Lemma srun_cfgs : forall sched ws f, map fst (fst (srun sched ws f)) = map fst ws.
Proof.
  induction sched as [|i r IH]; intros ws f; cbn [srun]; auto.
  pose proof (sstep_cfgs ws i f) as H. destruct (sstep i ws f) as [ws' f']. cbn [fst] in H. rewrite IH. exact H.
Qed.

Lemma sinit_cfgs cs : map fst (sinit cs) = cs.
Proof. unfold sinit. rewrite map_map. cbn [fst]. apply map_id. Qed.

(* distinct (pid, tid) pairs give distinct temporary names *)
Lemma distinct_ids_distinct_tmps path cs :
  (forall c, In c cs -> w_path c = path) -> NoDup (map (fun c => (w_pid c, w_tid c)) cs) -> NoDup (map w_tmp cs).
Proof.
  induction cs as [|c r IH]; intros Hp Hnd; cbn [map] in *; [constructor|].
  inv Hnd. constructor.
  - intro Hin. apply H1. apply in_map_iff in Hin. destruct Hin as (c' & E & Hc'). apply in_map_iff. exists c'. split; auto.
    unfold w_tmp in E. rewrite (Hp c) in E by (left; reflexivity). rewrite (Hp c') in E by (right; exact Hc').
    apply tmp_name_inj in E. destruct E as [-> ->]. reflexivity.
  - apply IH; auto. intros c' Hc'. apply Hp. right. exact Hc'.
Qed.

(* at every cut point of every interleaving the target is old or some writer's complete exposition *)
Theorem writers_target path f0 cs sched :
  (forall c, In c cs -> w_path c = path) -> (forall c, In c cs -> keeps c) ->
  NoDup (map (fun c => (w_pid c, w_tid c)) cs) ->
  let f := snd (srun sched (sinit cs) f0) in
  fs_find f path = fs_find f0 path \/ exists c d, In c cs /\ w_new c = Some d /\ fs_find f path = Some d.
Proof.
  intros Hp Hk Hnd. cbn zeta. destruct (MInv_run path f0 cs sched Hp Hk (distinct_ids_distinct_tmps path cs Hp Hnd)) as (_ & Ht & _).
  destruct Ht as [Ht|(c & d & H1 & H2 & H3)]; [left; exact Ht|right].
  exists c, d. rewrite srun_cfgs, sinit_cfgs in H1. auto.
Qed.

(* whenever a writer has finished: it raised/returned exactly what it would have done alone; if it returned, or raised
   an error its handler catches, its temporary file is gone; if some writer returned, the target holds a complete
   exposition of one of the writers *)
Theorem writers_end path f0 cs sched :
  (forall c, In c cs -> w_path c = path) -> (forall c, In c cs -> keeps c) ->
  NoDup (map (fun c => (w_pid c, w_tid c)) cs) ->
  let ws := fst (srun sched (sinit cs) f0) in
  let f := snd (srun sched (sinit cs) f0) in
  (forall c s r, In (c, s) ws -> nhf c -> w_pc s = PDone r ->
     (w_short c = [] -> r = wresult c) /\ (match r with Some e => catches c e = true | None => True end -> fs_find f (w_tmp c) = None))
  /\ ((exists c s, In (c, s) ws /\ w_pc s = PDone None) ->
      exists c d, In c cs /\ w_new c = Some d /\ fs_find f path = Some d)
  /\ (forall p, p <> path -> (forall c, In c cs -> p <> w_tmp c) -> fs_find f p = fs_find f0 p).
Proof.
  intros Hp Hk Hnd. cbn zeta.
  destruct (MInv_run path f0 cs sched Hp Hk (distinct_ids_distinct_tmps path cs Hp Hnd)) as (_ & _ & Hall & Hdone & Hfr).
  split; [|split].
  - intros c s r Hin Hn Hr. rewrite Forall_forall in Hall. destruct (Hall _ Hin) as [_ HC]. cbn [fst snd] in HC.
    destruct (HC Hn) as [HC1 HC2]. rewrite Hr in HC2. cbn [resume] in HC2. split; [exact HC2|].
    unfold cinv in HC1. rewrite Hr in HC1. unfold tmp_of in HC1. cbn [fst] in HC1. destruct r; auto.
  - intros (c & s & Hin & Hd). destruct Hdone as (c1 & d & H1 & H2 & H3).
    + exists (c, s). auto.
    + exists c1, d. rewrite srun_cfgs, sinit_cfgs in H1. auto.
  - intros p N1 N2. apply Hfr; auto. intros x Hx. unfold tmp_of. apply N2.
    rewrite <- (sinit_cfgs cs), <- (srun_cfgs sched (sinit cs) f0). apply in_map. exact Hx.
Qed.

(* all writers fine and finished: everyone returned, no temporary file, the target is one of the new expositions *)
Theorem writers_all_return path f0 cs sched :
  (forall c, In c cs -> w_path c = path) -> NoDup (map (fun c => (w_pid c, w_tid c)) cs) ->
  (forall c, In c cs -> w_short c = [] /\ nhf c /\ fault_free c) -> cs <> [] ->
  let ws := fst (srun sched (sinit cs) f0) in
  let f := snd (srun sched (sinit cs) f0) in
  (forall c s, In (c, s) ws -> exists r, w_pc s = PDone r) ->
  (forall c s, In (c, s) ws -> w_pc s = PDone None)
  /\ (forall c, In c cs -> fs_find f (w_tmp c) = None)
  /\ (exists c d, In c cs /\ w_new c = Some d /\ fs_find f path = Some d).
Proof.
  intros Hp Hnd Hok Hne. cbn zeta. intro Hdone.
  assert (Hk : forall c, In c cs -> keeps c) by (intros c Hc; apply no_short_keeps; apply (Hok c Hc)).
  destruct (writers_end path f0 cs sched Hp Hk Hnd) as (H1 & H2 & _). cbn zeta in *.
  assert (Hcfg : forall c s, In (c, s) (fst (srun sched (sinit cs) f0)) -> In c cs).
  { intros c s Hin. rewrite <- (sinit_cfgs cs), <- (srun_cfgs sched (sinit cs) f0). apply (in_map fst) in Hin. exact Hin. }
  assert (Hret : forall c s, In (c, s) (fst (srun sched (sinit cs) f0)) -> w_pc s = PDone None).
  { intros c s Hin. destruct (Hdone c s Hin) as [r Hr]. destruct (Hok c (Hcfg c s Hin)) as (Hno & Hn & Hff).
    destruct (H1 c s r Hin Hn Hr) as [Hrw _]. rewrite (Hrw Hno) in Hr. apply wresult_none_iff in Hff. rewrite Hff in Hr. exact Hr. }
  split; [exact Hret|]. split.
  - intros c Hc. assert (Hin : In c (map fst (fst (srun sched (sinit cs) f0)))) by (rewrite srun_cfgs, sinit_cfgs; exact Hc).
    apply in_map_iff in Hin. destruct Hin as ([c' s] & E & Hin). cbn [fst] in E. subst c'.
    destruct (Hok c Hc) as (_ & Hn & _). destruct (H1 c s None Hin Hn (Hret c s Hin)) as [_ Ht]. apply Ht. exact I.
  - apply H2. destruct cs as [|c r]; [congruence|].
    assert (Hin : In c (map fst (fst (srun sched (sinit (c :: r)) f0)))) by (rewrite srun_cfgs, sinit_cfgs; left; reflexivity).
    apply in_map_iff in Hin. destruct Hin as ([c' s] & E & Hin). cbn [fst] in E. subst c'.
    exists c, s. split; auto. apply (Hret c s Hin).
Qed.

(* ------------------------------------------------------------------ platform: the code picks the call that replaces *)
Lemma os_move_chosen nt f src dst : os_move nt (chosen_call nt) f src dst = os_move false CallRename f src dst.
Proof. unfold os_move, chosen_call. destruct (fs_find f src); auto. destruct nt; auto. Qed.

Definition set_nt (b : bool) (c : wcfg) : wcfg :=
  {| w_path := w_path c; w_pid := w_pid c; w_tid := w_tid c; w_nt := b; w_buffered := w_buffered c;
     w_colls := w_colls c; w_split := w_split c; w_plan := w_plan c; w_short := w_short c; w_retry := w_retry c;
     w_catch_base := w_catch_base c |}.

Lemma step_platform b c s f : wstep (set_nt b c) s f = wstep c s f.
Proof.
  unfold wstep, do_write, do_close, accept, to_handler, catches, w_tmp, short_of. cbn [set_nt w_path w_pid w_tid w_nt w_buffered w_colls w_split w_plan w_short w_retry w_catch_base].
  rewrite (os_move_chosen b), (os_move_chosen (w_nt c)). reflexivity.
Qed.

Theorem platform_independent b c n : forall s f, wsteps (set_nt b c) n s f = wsteps c n s f.
Proof.
  induction n as [|n IH]; intros s f; cbn [wsteps]; auto. rewrite step_platform. destruct (wstep c s f). apply IH.
Qed.

(* ... and the other call would not do on Windows *)
Lemma rename_on_nt_fails f src dst b : fs_find f dst = Some b -> os_move true CallRename f src dst = None.
Proof. unfold os_move. intro H. rewrite H. destruct (fs_find f src); reflexivity. Qed.

(* ------------------------------------------------------------------ the pinned source: `except Exception` *)
Definition c_kbd : wcfg :=
  {| w_path := s2l "m.prom"; w_pid := 4087; w_tid := 5; w_nt := false; w_buffered := true;
     w_colls := [CRaise EBase]; w_split := []; w_plan := []; w_short := []; w_retry := true; w_catch_base := false |}.

Theorem orig_leaves_temporary :
  exists c f0, w_catch_base c = false /\ nhf c /\ wresult c = Some (SCollect 0, EBase)
    /\ outcome (fst (wfinal c f0)) = Some (Some (SCollect 0, EBase))
    /\ fs_find (snd (wfinal c f0)) (w_tmp c) <> None.
Proof.
  exists c_kbd, []. repeat split; try reflexivity. vm_compute. discriminate.
Qed.

(* ------------------------------------------------------------------ every schedule that gives a writer enough turns finishes it *)
Lemma sstep_nth_same : forall ws i f c s,
  nth_error ws i = Some (c, s) ->
  exists s', nth_error (fst (sstep i ws f)) i = Some (c, s') /\ wstep c s f = (s', snd (sstep i ws f)).
Proof.
  induction ws as [|[c0 s0] r IH]; intros i f c s H; destruct i as [|i]; cbn [nth_error] in H; try discriminate.
  - inv H. cbn [sstep]. destruct (wstep c s f) as [s' f'] eqn:E. exists s'. cbn [fst snd nth_error]. auto.
  - cbn [sstep]. destruct (IH i f c s H) as (s' & H1 & H2). destruct (sstep i r f) as [r' f'].
    exists s'. cbn [fst snd nth_error] in *. auto.
Qed.

Lemma sstep_nth_other : forall ws i j f, i <> j -> nth_error (fst (sstep j ws f)) i = nth_error ws i.
Proof.
  induction ws as [|[c0 s0] r IH]; intros i j f N; cbn [sstep]; auto.
  destruct j as [|j].
  - destruct (wstep c0 s0 f). destruct i as [|i]; [congruence|reflexivity].
  - specialize (IH (pred i) j f). destruct (sstep j r f) as [r' f']. cbn [fst] in *.
    destruct i as [|i]; [reflexivity|]. cbn [nth_error pred] in *. apply IH. congruence.
Qed.

Lemma fuel_zero_done c p : pc_fuel c p = 0%nat -> exists r, p = PDone r.
Proof. destruct p; cbn [pc_fuel]; intro H; try lia. eauto. Qed.

Lemma srun_progress : forall sched ws f i c s,
  nth_error ws i = Some (c, s) ->
  exists s', nth_error (fst (srun sched ws f)) i = Some (c, s')
             /\ (pc_fuel c (w_pc s') <= pc_fuel c (w_pc s) - count_occ Nat.eq_dec sched i)%nat.
Proof.
  induction sched as [|j r IH]; intros ws f i c s H; cbn [srun count_occ].
  - exists s. split; auto. lia.
  - destruct (Nat.eq_dec j i) as [->|N].
    + destruct (sstep_nth_same ws i f c s H) as (s1 & H1 & H2). destruct (sstep i ws f) as [ws1 f1]. cbn [fst snd] in *.
      destruct (IH ws1 f1 i c s1 H1) as (s' & H3 & H4). exists s'. split; auto.
      destruct (step_fuel _ _ _ _ _ H2) as [(r0 & Hr & -> & _)|Hlt]; [rewrite Hr in *; cbn [pc_fuel] in *|]; lia.
    + pose proof (sstep_nth_other ws i j f (not_eq_sym N)) as H1. destruct (sstep j ws f) as [ws1 f1]. cbn [fst] in H1.
      rewrite <- H1 in H. apply IH. exact H.
Qed.

Theorem writers_complete cs sched f0 i c :
  nth_error cs i = Some c -> (wbound c <= count_occ Nat.eq_dec sched i)%nat ->
  exists s r, nth_error (fst (srun sched (sinit cs) f0)) i = Some (c, s) /\ w_pc s = PDone r.
Proof.
  intros Hc Hn. assert (H : nth_error (sinit cs) i = Some (c, winit)).
  { unfold sinit. rewrite nth_error_map, Hc. reflexivity. }
  destruct (srun_progress sched (sinit cs) f0 i c winit H) as (s & H1 & H2). exists s.
  cbn [winit w_pc pc_fuel] in H2. unfold wbound in Hn.
  destruct (fuel_zero_done c (w_pc s)) as [r Hr]; [lia|]. eauto.
Qed.

(* ------------------------------------------------------------------ short writes *)
(* nothing raises: the run stays on the path that ends in a return *)
Definition happy (s : wstate) : Prop :=
  match w_pc s with
  | PCollect rest _ acc => coll_data rest acc <> None
  | PClose (Some _) | PExists _ | PRemove _ | PDone (Some _) => False
  | _ => True
  end.

Lemma do_close_happy c s f s' f' : w_plan c = [] -> do_close c s f None = (s', f') -> happy s'.
Proof. intros Hp H. unfold do_close in H. rewrite Hp in H. cbn [plan_find] in H. inv H. exact I. Qed.

Lemma do_write_happy c s f chunks j s' f' : w_plan c = [] -> do_write c s f chunks j = (s', f') -> happy s'.
Proof.
  intros Hp H. destruct chunks as [|ch rest]; cbn [do_write] in H; [eapply do_close_happy; eauto|].
  rewrite Hp in H. cbn [plan_find] in H. destruct (short_of c j ch) as [n|].
  - destruct (accept c s f (firstn n ch)). inv H. exact I.
  - destruct (accept c s f ch). inv H. exact I.
Qed.

Lemma happy_step c s f s' f' :
  w_plan c = [] -> w_new c <> None -> winv c s (fs_find f (w_tmp c)) -> happy s -> wstep c s f = (s', f') -> happy s'.
Proof.
  intros Hp Hnew HW HH H. unfold wstep in H. unfold happy in HH. unfold winv in HW.
  destruct (w_pc s) as [|rest i acc|chunks j|pending| |e|e|r] eqn:Hpc; try contradiction.
  - rewrite Hp in H. cbn [plan_find] in H. inv H. unfold happy. cbn [w_pc]. exact Hnew.
  - destruct rest as [|[b| |k] rest]; cbn [coll_data] in HH.
    + destruct acc as [data|]; [|congruence]. eapply do_write_happy; eauto.
    + inv H. unfold happy. cbn [w_pc]. exact HH.
    + rewrite coll_data_none in HH. congruence.
    + congruence.
  - eapply do_write_happy; eauto.
  - destruct pending as [e|]; [contradiction|]. eapply do_close_happy; eauto.
  - rewrite Hp in H. cbn [plan_find] in H. destruct (os_move _ _ _ _ _) eqn:Hm.
    + inv H. exact I.
    + apply os_move_chosen_none in Hm. destruct HW as [HW _]. congruence.
  - inv H. unfold happy. rewrite Hpc. exact HH.
Qed.

(* short writes ALONE (no error anywhere, the remainder submitted again) never make the call fail and never cost
   a byte: the call returns, the target holds the complete new exposition, no temporary file, nothing else touched *)
Theorem short_writes_harmless c f0 d :
  w_retry c = true -> w_plan c = [] -> w_new c = Some d ->
  outcome (fst (wfinal c f0)) = Some None
  /\ fs_same (snd (wfinal c f0)) (fs_set (fs_remove f0 (w_tmp c)) (w_path c) d).
Proof.
  intros Hr Hp Hd. assert (Hk : keeps c) by (left; exact Hr).
  assert (Hn : nhf c) by (unfold nhf; rewrite Hp; split; reflexivity).
  assert (Ho : outcome (fst (wfinal c f0)) = Some None).
  { destruct (terminates c f0) as [r Hdone]. unfold wfinal in *.
    assert (HI : winv c (fst (wsteps c (wbound c) winit f0)) (fs_find (snd (wsteps c (wbound c) winit f0)) (w_tmp c))
                 /\ happy (fst (wsteps c (wbound c) winit f0))).
    { apply (wsteps_inv c (fun s f => winv c s (fs_find f (w_tmp c)) /\ happy s)); [|split; exact I].
      intros s f s' f' [HW HH] H. split; [eapply step_winv; eauto|].
      eapply happy_step; eauto. congruence. }
    destruct HI as [_ HH]. unfold happy in HH. unfold outcome. rewrite Hdone in *. destruct r; [contradiction|reflexivity]. }
  split; [exact Ho|]. destruct (return_installs_gen c f0 Hk Hn Ho) as (d' & Hd' & _ & Hs). congruence.
Qed.

(* the handle does NOT submit the remainder again (a raw handle whose write() result is ignored): a short write
   silently loses the tail, the call returns and a strict prefix of the exposition is installed over the target *)
Definition c_short : wcfg :=
  {| w_path := s2l "m.prom"; w_pid := 4087; w_tid := 5; w_nt := false; w_buffered := false;
     w_colls := [CYield (s2l "a 1"); CYield (s2l "b 2")]; w_split := []; w_plan := []; w_short := [(0, 4)]%nat;
     w_retry := false; w_catch_base := true |}.

Theorem short_write_dropped :
  exists c f0 d, w_retry c = false /\ w_plan c = [] /\ w_new c = Some d
    /\ fs_find f0 (w_path c) = Some (s2l "old")
    /\ outcome (fst (wfinal c f0)) = Some None
    /\ fs_find (snd (wfinal c f0)) (w_path c) = Some (firstn 4 d) /\ firstn 4 d <> d /\ firstn 4 d <> s2l "old".
Proof.
  exists c_short, [(s2l "m.prom", s2l "old")], (s2l "a 1b 2"). vm_compute. repeat split; discriminate.
Qed.
