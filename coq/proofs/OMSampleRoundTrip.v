(* C04 L4: a sample line written by the OpenMetrics exposition (model/Expo.v om_sample_line) is read back exactly by
   the OpenMetrics parser's _parse_sample (model/OMParser.v om_parse_sample): name, labels, value, timestamp, exemplar. *)
From V Require Import lib.PyBase lib.Tac lib.PyStr model.Utils model.Validation model.Expo model.TextParser model.OMParser
  proofs.EscapeProofs proofs.ScanFacts proofs.TextParserTotal proofs.LabelRoundTrip proofs.SampleRoundTrip
  proofs.OMLabelRoundTrip.
From Coq Require Import Permutation.
Ltac Zify.zify_post_hook ::= Z.to_euclidean_division_equations.
Open Scope N_scope.

(* ---------- tokens ---------- *)
(* a value / timestamp token of an OpenMetrics line: as in the text format (non-empty, no whitespace, underscore,
   opening brace, quote, backslash) and also no closing brace and no hash.  True of every floatToGoString result,
   every decimal integer, every sec.nsec rendering and every float repr. *)
Definition om_token_ok (t : str) : Prop :=
  token_ok t /\ Forall (fun c => c <> RBRACE /\ c <> HASH) t.

Lemma om_token_all t : om_token_ok t ->
  Forall (fun c => c <> DQ /\ c <> BS /\ c <> SP /\ c <> HASH /\ c <> LBRACE /\ c <> RBRACE) t.
Proof.
  intros [[_ H1] H2]. rewrite Forall_forall in *. intros c Hc. destruct (H1 c Hc) as (Hs & _ & Hl & Hq & Hb).
  destruct (H2 c Hc) as (Hr & Hh). repeat split; auto. intro E; subst c. discriminate.
Qed.

Lemma om_token_ne t : om_token_ok t -> t <> [].
Proof. intros [[H _] _]. exact H. Qed.

Lemma om_token_scan chs t rest : om_token_ok t ->
  (forall c, mem_char c chs = true -> c = DQ \/ c = BS \/ c = SP \/ c = HASH \/ c = LBRACE \/ c = RBRACE) ->
  nuq0 chs (t ++ rest) false false = option_map (fun k => (length t + k)%nat) (nuq0 chs rest false false).
Proof.
  intros Ht Hch. apply plain_scan. intros c Hc. pose proof (om_token_all t Ht) as Ha. rewrite Forall_forall in Ha.
  destruct (Ha c Hc) as (Hq & Hb & Hs & Hh & Hl & Hr). repeat split; auto.
  destruct (mem_char c chs) eqn:E; [|reflexivity]. destruct (Hch c E) as [?|[?|[?|[?|[?|?]]]]]; contradiction.
Qed.

Lemma split_first_none c t : mem_char c t = false -> om_split_first c t = (t, None).
Proof.
  induction t as [|x r IH]; intro H; [reflexivity|]. cbn [mem_char] in H. apply orb_false_iff in H as [H1 H2].
  cbn [om_split_first]. rewrite N.eqb_sym in H1. rewrite H1, IH by exact H2. reflexivity.
Qed.

Lemma split_first_some c t r : mem_char c t = false -> om_split_first c (t ++ c :: r) = (t, Some r).
Proof.
  induction t as [|x t' IH]; intro H; cbn [app om_split_first]; [rewrite N.eqb_refl; reflexivity|].
  cbn [mem_char] in H. apply orb_false_iff in H as [H1 H2]. rewrite N.eqb_sym in H1. rewrite H1, IH by exact H2. reflexivity.
Qed.

Lemma om_token_no_sp t : om_token_ok t -> mem_char SP t = false.
Proof. intros [H _]. apply token_no; [exact H|left; reflexivity]. Qed.

(* ---------- substring test ---------- *)
Lemma starts_with_app p b : starts_with p (p ++ b) = true.
Proof. induction p as [|x p IH]; [reflexivity|]. cbn [app starts_with]. rewrite N.eqb_refl, IH. reflexivity. Qed.

Lemma find_sub_from_app pat a b : forall i, (0 <= i)%Z -> (0 <= find_sub_from pat (a ++ pat ++ b) i)%Z.
Proof.
  induction a as [|x a IH]; intros i Hi.
  - cbn [app]. destruct (pat ++ b) eqn:E; cbn [find_sub_from]; rewrite <- ?E, starts_with_app; exact Hi.
  - cbn [app find_sub_from]. destruct (starts_with pat (x :: a ++ pat ++ b)); [exact Hi|]. apply IH. lia.
Qed.

Lemma contains_sub_app pat a b : contains_sub pat (a ++ pat ++ b) = true.
Proof. unfold contains_sub, find_sub. apply Z.leb_le. apply find_sub_from_app. lia. Qed.

(* ---------- slices ---------- *)
Lemma slice_mid a m b : slice (a ++ m ++ b) (Z.of_nat (length a)) (Z.of_nat (length a + length m)) = m.
Proof.
  rewrite slice_nat by (rewrite !app_length; lia).
  rewrite skipn_app, skipn_all, Nat.sub_diag. cbn [skipn app].
  replace (length a + length m - length a)%nat with (length m) by lia.
  rewrite firstn_app, firstn_all, Nat.sub_diag. cbn [firstn]. apply app_nil_r.
Qed.

(* ---------- _last_unquoted_char ---------- *)
Lemma om_annot_app a : forall b p, exists p', om_annot (a ++ b) p = om_annot a p ++ om_annot b p'.
Proof.
  induction a as [|c a IH]; intros b p; cbn [app om_annot]; [exists p; reflexivity|].
  destruct (IH b (if c =? BS then negb p else false)) as [p' E]. exists p'. rewrite E. reflexivity.
Qed.

Lemma om_annot_length l : forall p, length (om_annot l p) = length l.
Proof. induction l as [|c l IH]; intro p; cbn [om_annot length]; [reflexivity|]. rewrite IH. reflexivity. Qed.

Lemma om_annot_fst l : forall p, map fst (om_annot l p) = l.
Proof. induction l as [|c l IH]; intro p; cbn [om_annot map fst]; [reflexivity|]. rewrite IH. reflexivity. Qed.

Lemma om_luq_skip chs l1 : forall l2 i,
  Forall (fun ce => fst ce <> DQ /\ mem_char (fst ce) chs = false) l1 ->
  (Z.of_nat (length l1) < i)%Z ->
  om_luq chs (l1 ++ l2) i false = om_luq chs l2 (i - Z.of_nat (length l1))%Z false.
Proof.
  induction l1 as [|[c e] l1 IH]; intros l2 i Hall Hi.
  - cbn [app length]. f_equal. lia.
  - inversion Hall as [|? ? [Hq Hm] Hall']; subst. cbn [fst] in *. cbn [app om_luq].
    destruct (Z.leb_spec i 0); [cbn [length] in Hi; lia|].
    destruct (N.eqb_spec c DQ); [contradiction|]. cbn [andb negb]. rewrite Hm.
    rewrite IH; [|exact Hall'|cbn [length] in Hi; lia]. f_equal. cbn [length]. lia.
Qed.

(* the last closing brace, when only plain characters follow it *)
Lemma last_unquoted_rbrace P S0 :
  P <> [] -> Forall (fun c => c <> DQ /\ c <> RBRACE) S0 ->
  om_last_unquoted_char (P ++ RBRACE :: S0) [RBRACE] = Z.of_nat (length P).
Proof.
  intros HP HS. unfold om_last_unquoted_char.
  destruct (om_annot_app P (RBRACE :: S0) false) as [p' E]. rewrite E. cbn [om_annot].
  rewrite rev_app_distr. cbn [rev]. rewrite <- app_assoc. cbn [app].
  rewrite om_luq_skip.
  - rewrite rev_length, om_annot_length. cbn [om_luq].
    assert (Hlen : (zlen (P ++ RBRACE :: S0) - 1 - Z.of_nat (length S0) = Z.of_nat (length P))%Z)
      by (unfold zlen; rewrite app_length; cbn [length]; lia).
    rewrite Hlen. destruct (Z.leb_spec (Z.of_nat (length P)) 0); [destruct P; [congruence|cbn [length] in *; lia]|].
    change (RBRACE =? DQ) with false. cbn [andb negb mem_char]. change (RBRACE =? RBRACE) with true. reflexivity.
  - apply Forall_rev. rewrite Forall_forall. intros [c e] Hin. cbn [fst].
    assert (Hc : In c S0).
    { rewrite <- (om_annot_fst S0 (if RBRACE =? BS then negb p' else false)). apply (in_map fst) in Hin. exact Hin. }
    rewrite Forall_forall in HS. destruct (HS c Hc) as [Hq Hr]. split; [exact Hq|].
    cbn [mem_char]. destruct (N.eqb_spec c RBRACE); [contradiction|reflexivity].
  - rewrite rev_length, om_annot_length. unfold zlen. rewrite app_length. cbn [length].
    destruct P; [congruence|cbn [length]; lia].
Qed.

(* ---------- the character state machine of _parse_remaining_text ---------- *)
Notation R := Build_om_rt.

Section Machine.
  Variable text : str.
  Notation step := (om_rt_step false true true text).
  Notation run := (om_rt_run false true true text).

  Lemma run_app a : forall r b, run r (a ++ b) = (do r' <- run r a; run r' b).
  Proof.
    induction a as [|c a IH]; intros r b; cbn [app om_rt_run]; [reflexivity|].
    destruct (step r c) as [r1|e]; cbn [bind]; [apply IH|reflexivity].
  Qed.

  Lemma step_plain_ts c acc exv exts exl : c <> DQ -> c <> BS -> c <> SP -> c <> HASH ->
    step (R RTs false false acc exv exts exl) c = Ok (R RTs false false (c :: acc) exv exts exl).
  Proof.
    intros Hq Hb Hs Hh. unfold om_rt_step. cbn [rt_state rt_inq rt_esc rt_ts rt_exv rt_exts rt_exl].
    destruct (N.eqb_spec c DQ); [contradiction|]. destruct (N.eqb_spec c BS); [contradiction|]. cbn [andb negb].
    destruct (N.eqb_spec c HASH); [contradiction|]. destruct (N.eqb_spec c SP); [contradiction|]. reflexivity.
  Qed.

  Lemma run_ts tok : forall acc exv exts exl,
    Forall (fun c => c <> DQ /\ c <> BS /\ c <> SP /\ c <> HASH /\ c <> LBRACE /\ c <> RBRACE) tok ->
    run (R RTs false false acc exv exts exl) tok = Ok (R RTs false false (rev tok ++ acc) exv exts exl).
  Proof.
    induction tok as [|c tok IH]; intros acc exv exts exl H; [reflexivity|].
    inversion H as [|? ? (Hq & Hb & Hs & Hh & _) Ht]; subst. cbn [om_rt_run].
    rewrite step_plain_ts by assumption. cbn [bind]. rewrite IH by exact Ht. cbn [rev]. rewrite <- app_assoc. reflexivity.
  Qed.

  Lemma step_plain_exv c ts acc exts exl : c <> DQ -> c <> BS -> c <> SP ->
    step (R RExVal false false ts acc exts exl) c = Ok (R RExVal false false ts (c :: acc) exts exl).
  Proof.
    intros Hq Hb Hs. unfold om_rt_step. cbn [rt_state rt_inq rt_esc rt_ts rt_exv rt_exts rt_exl].
    destruct (N.eqb_spec c DQ); [contradiction|]. destruct (N.eqb_spec c BS); [contradiction|]. cbn [andb negb].
    destruct (N.eqb_spec c SP); [contradiction|]. reflexivity.
  Qed.

  Lemma run_exv tok : forall ts acc exts exl,
    Forall (fun c => c <> DQ /\ c <> BS /\ c <> SP /\ c <> HASH /\ c <> LBRACE /\ c <> RBRACE) tok ->
    run (R RExVal false false ts acc exts exl) tok = Ok (R RExVal false false ts (rev tok ++ acc) exts exl).
  Proof.
    induction tok as [|c tok IH]; intros ts acc exts exl H; [reflexivity|].
    inversion H as [|? ? (Hq & Hb & Hs & _) Ht]; subst. cbn [om_rt_run].
    rewrite step_plain_exv by assumption. cbn [bind]. rewrite IH by exact Ht. cbn [rev]. rewrite <- app_assoc. reflexivity.
  Qed.

  Lemma step_plain_exts c ts exv acc exl : c <> DQ -> c <> BS ->
    step (R RExTs false false ts exv acc exl) c = Ok (R RExTs false false ts exv (c :: acc) exl).
  Proof.
    intros Hq Hb. unfold om_rt_step. cbn [rt_state rt_inq rt_esc rt_ts rt_exv rt_exts rt_exl].
    destruct (N.eqb_spec c DQ); [contradiction|]. destruct (N.eqb_spec c BS); [contradiction|]. reflexivity.
  Qed.

  Lemma run_exts tok : forall ts exv acc exl,
    Forall (fun c => c <> DQ /\ c <> BS /\ c <> SP /\ c <> HASH /\ c <> LBRACE /\ c <> RBRACE) tok ->
    run (R RExTs false false ts exv acc exl) tok = Ok (R RExTs false false ts exv (rev tok ++ acc) exl).
  Proof.
    induction tok as [|c tok IH]; intros ts exv acc exl H; [reflexivity|].
    inversion H as [|? ? (Hq & Hb & _) Ht]; subst. cbn [om_rt_run].
    rewrite step_plain_exts by assumption. cbn [bind]. rewrite IH by exact Ht. cbn [rev]. rewrite <- app_assoc. reflexivity.
  Qed.

  (* inside the exemplar's label block the machine only follows the quote state, exactly like the scanner *)
  Lemma run_parsed l : forall esc inq ts exv exts exl rest,
    nuq0 [RBRACE] (l ++ RBRACE :: rest) esc inq = Some (length l) ->
    run (R RExParsed inq esc ts exv exts exl) (l ++ [RBRACE]) = Ok (R RExValSp false false ts exv exts exl).
  Proof.
    induction l as [|c l IH]; intros esc inq ts exv exts exl rest H.
    - cbn [app nuq0 length] in H. change (RBRACE =? DQ) with false in H. change (RBRACE =? BS) with false in H.
      cbn [andb mem_char] in H. change (RBRACE =? RBRACE) with true in H. cbn [orb] in H.
      destruct inq; cbn [negb andb] in H.
      + destruct (nuq0 [RBRACE] rest false true); discriminate.
      + cbn [app om_rt_run]. unfold om_rt_step. cbn [rt_state rt_inq rt_esc rt_ts rt_exv rt_exts rt_exl].
        change (RBRACE =? DQ) with false. change (RBRACE =? BS) with false. cbn [andb]. reflexivity.
    - cbn [app nuq0 length] in H.
      destruct (negb (if (c =? DQ) && negb esc then negb inq else inq) && mem_char c [RBRACE]) eqn:E; [discriminate|].
      destruct (nuq0 [RBRACE] (l ++ RBRACE :: rest) (if c =? BS then negb esc else false)
                  (if (c =? DQ) && negb esc then negb inq else inq)) as [k|] eqn:E2; [|discriminate].
      cbn [option_map] in H. assert (k = length l) by (inversion H; reflexivity). subst k.
      cbn [app om_rt_run].
      assert (Hstep : step (R RExParsed inq esc ts exv exts exl) c
                      = Ok (R RExParsed (if (c =? DQ) && negb esc then negb inq else inq)
                                        (if c =? BS then negb esc else false) ts exv exts exl)).
      { unfold om_rt_step. cbn [rt_state rt_inq rt_esc rt_ts rt_exv rt_exts rt_exl andb].
        assert (Hesc : (c =? BS) && negb esc = (if c =? BS then negb esc else false)) by (destruct (c =? BS); reflexivity).
        rewrite Hesc.
        destruct (if (c =? DQ) && negb esc then negb inq else inq) eqn:Ei; [reflexivity|].
        cbn [negb andb mem_char orb] in E. rewrite orb_false_r in E. rewrite E. reflexivity. }
      rewrite Hstep. cbn [bind]. eapply IH. exact E2.
  Qed.
End Machine.

(* ---------- value and timestamp hypotheses ---------- *)
Lemma om_sum_len_perm a b : Permutation a b -> om_sum_len a = om_sum_len b.
Proof.
  induction 1 as [|[k v] l l' _ IH|[k1 v1] [k2 v2] l|l1 l2 l3 _ IH1 _ IH2]; cbn [om_sum_len]; try lia.
Qed.

Section Tail.
  Variable fix_tsexp : bool.
  Variable NUM : Type.
  Variable parse_num parse_float : str -> option NUM.
  Variable parse_int : str -> option Z.
  Variable num_eqb : NUM -> NUM -> bool.
  Variable num_isinf : NUM -> bool.
  Notation p_ts := (om_parse_timestamp fix_tsexp NUM parse_float parse_int num_eqb num_isinf).
  Notation p_rem := (om_parse_remaining_text false true true fix_tsexp NUM parse_num parse_float parse_int num_eqb num_isinf).

  Lemma om_parse_value_token t n : om_token_ok t -> parse_num t = Some n -> om_parse_value NUM parse_num t = Ok n.
  Proof.
    intros [Ht _] Hn. unfold om_parse_value. rewrite token_strip, str_eqb_refl by exact Ht. cbn [negb orb].
    rewrite (token_no USCORE t Ht) by (right; reflexivity). rewrite Hn. reflexivity.
  Qed.

  (* what the rendered timestamp must be read as; None renders as nothing and reads as None *)
  Definition ts_reads (t : option om_ts) (tsv : option (om_tsv NUM)) : Prop :=
    match t with
    | None => tsv = None
    | Some t => om_token_ok (render_om_ts t) /\ exists v, p_ts (render_om_ts t) = Ok (Some v) /\ tsv = Some v
    end.

  Definition ex_reads (e : option exemplar) (exr : option (om_exemplar NUM)) : Prop :=
    match e with
    | None => exr = None
    | Some e =>
        Forall key_ok (map fst (ex_labels e)) /\ NoDup (map fst (ex_labels e)) /\
        (om_sum_len (ex_labels e) <= 128)%nat /\
        om_token_ok (go_string (ex_value e)) /\
        exists ev ets, parse_num (go_string (ex_value e)) = Some ev /\ ts_reads (ex_ts e) ets /\
          exr = Some {| oe_labels := sort_kv (ex_labels e); oe_value := ev; oe_ts := ets |}
    end.

  Definition ts_text (t : option om_ts) : str := match t with None => [] | Some t => SP :: render_om_ts t end.
  Definition ex_text (e : option exemplar) : str := match e with None => [] | Some e => exemplar_str true e end.

  Lemma p_ts_nil : p_ts [] = Ok None.
  Proof. reflexivity. Qed.

  (* the exemplar part, as the machine sees it after the hash: space, braces, value, optional timestamp *)
  Lemma exemplar_str_shape e :
    exemplar_str true e = [SP; HASH; SP] ++ [LBRACE] ++ ltext (sort_kv (ex_labels e)) ++ [RBRACE] ++ [SP]
                          ++ go_string (ex_value e) ++ ts_text (ex_ts e).
  Proof.
    unfold exemplar_str. cbv zeta. rewrite ltext_join. unfold ts_text. cbn [app]. rewrite <- !app_assoc. reflexivity.
  Qed.

  (* the run of the machine over  [ts ]# {labels} value[ ts]  *)
  Lemma run_exemplar pre e acc0 exr :
    (pre = [] /\ acc0 = [] \/ exists tok, om_token_ok tok /\ pre = tok ++ [SP] /\ acc0 = rev tok) ->
    ex_reads (Some e) exr ->
    om_rt_run false true true (pre ++ [HASH; SP] ++ [LBRACE] ++ ltext (sort_kv (ex_labels e)) ++ [RBRACE] ++ [SP]
                                          ++ go_string (ex_value e) ++ ts_text (ex_ts e))
                (R RTs false false [] [] [] None)
                (pre ++ [HASH; SP] ++ [LBRACE] ++ ltext (sort_kv (ex_labels e)) ++ [RBRACE] ++ [SP]
                  ++ go_string (ex_value e) ++ ts_text (ex_ts e))
    = Ok (R (match ex_ts e with None => RExVal | Some _ => RExTs end) false false acc0 (rev (go_string (ex_value e)))
            (match ex_ts e with None => [] | Some t => rev (render_om_ts t) end) (Some (sort_kv (ex_labels e)))).
  Proof.
    intros Hpre (Hok & Hnd & Hlen & Hv & ev & ets & Hev & Hets & ->).
    set (L := ltext (sort_kv (ex_labels e))). set (V := go_string (ex_value e)).
    set (T := pre ++ [HASH; SP] ++ [LBRACE] ++ L ++ [RBRACE] ++ [SP] ++ V ++ ts_text (ex_ts e)).
    assert (Hperm : Permutation (map fst (ex_labels e)) (map fst (sort_kv (ex_labels e))))
      by (apply Permutation_map, sort_kv_perm).
    assert (Hok' : Forall key_ok (map fst (sort_kv (ex_labels e)))) by (eapply Permutation_Forall; eauto).
    assert (Hnd' : NoDup (map fst (sort_kv (ex_labels e)))) by (eapply Permutation_NoDup; eauto).
    (* the tail after the closing brace is plain *)
    assert (HtsT : Forall (fun c => c <> DQ /\ c <> BS /\ c <> SP /\ c <> HASH /\ c <> LBRACE /\ c <> RBRACE)
                     (match ex_ts e with None => [] | Some t => render_om_ts t end)).
    { unfold ts_reads in Hets. destruct (ex_ts e); [|constructor]. destruct Hets as [Ht _]. apply om_token_all. exact Ht. }
    assert (Hsuf : Forall (fun c => c <> DQ /\ c <> RBRACE) ([SP] ++ V ++ ts_text (ex_ts e))).
    { apply Forall_app. split; [repeat constructor; discriminate|]. apply Forall_app. split.
      - eapply Forall_impl; [|apply om_token_all; exact Hv]. cbv beta. tauto.
      - unfold ts_text. destruct (ex_ts e); [|constructor]. constructor; [split; discriminate|].
        eapply Forall_impl; [|exact HtsT]. cbv beta. tauto. }
    (* where the braces are *)
    assert (HpreScan : forall chs rest, mem_char HASH chs = false -> mem_char SP chs = false ->
               (forall c, mem_char c chs = true -> c = DQ \/ c = BS \/ c = SP \/ c = HASH \/ c = LBRACE \/ c = RBRACE) ->
               nuq0 chs (pre ++ [HASH; SP] ++ rest) false false
               = option_map (fun k => (length pre + 2 + k)%nat) (nuq0 chs rest false false)).
    { intros chs rest Hh Hs Hch.
      assert (Hhs : nuq0 chs ([HASH; SP] ++ rest) false false = option_map (fun k => (2 + k)%nat) (nuq0 chs rest false false)).
      { cbn [app]. rewrite (nuq0_skip chs HASH) by (try discriminate; exact Hh).
        rewrite (nuq0_skip chs SP) by (try discriminate; exact Hs).
        destruct (nuq0 chs rest false false); reflexivity. }
      destruct Hpre as [[-> _]|(tok & Htok & -> & _)].
      - cbn [app length]. cbn [app] in Hhs. rewrite Hhs. destruct (nuq0 chs rest false false); reflexivity.
      - rewrite <- app_assoc. rewrite om_token_scan by assumption. cbn [app].
        rewrite (nuq0_skip chs SP) by (try discriminate; exact Hs). cbn [app] in Hhs. rewrite Hhs.
        destruct (nuq0 chs rest false false); cbn [option_map]; [|reflexivity]. f_equal.
        rewrite app_length. cbn [length]. lia. }
    assert (Hls : next_unquoted_char T [LBRACE] 0 = Z.of_nat (length (pre ++ [HASH; SP]))).
    { rewrite next_unquoted_char_rel. subst T. rewrite HpreScan; try reflexivity.
      - cbn [app]. rewrite nuq0_hit by (try discriminate; reflexivity). cbn [option_map]. f_equal.
        rewrite app_length. cbn [length]. lia.
      - intros c Hc. cbn [mem_char] in Hc. rewrite orb_false_r in Hc. apply N.eqb_eq in Hc. auto 10. }
    assert (HT : T = (pre ++ [HASH; SP] ++ [LBRACE] ++ L) ++ RBRACE :: ([SP] ++ V ++ ts_text (ex_ts e))).
    { subst T. rewrite <- !app_assoc. cbn [app]. reflexivity. }
    assert (Hle : om_last_unquoted_char T [RBRACE] = Z.of_nat (length (pre ++ [HASH; SP] ++ [LBRACE] ++ L))).
    { rewrite HT. apply last_unquoted_rbrace; [|exact Hsuf]. destruct pre; discriminate. }
    assert (Hslice : slice T (next_unquoted_char T [LBRACE] 0 + 1) (om_last_unquoted_char T [RBRACE]) = L).
    { rewrite Hls, Hle.
      replace (Z.of_nat (length (pre ++ [HASH; SP])) + 1)%Z with (Z.of_nat (length (pre ++ [HASH; SP] ++ [LBRACE])))
        by (rewrite !app_length; cbn [length]; lia).
      replace (length (pre ++ [HASH; SP] ++ [LBRACE] ++ L)) with (length (pre ++ [HASH; SP] ++ [LBRACE]) + length L)%nat
        by (rewrite !app_length; cbn [length]; lia).
      replace T with ((pre ++ [HASH; SP] ++ [LBRACE]) ++ L ++ ([RBRACE] ++ [SP] ++ V ++ ts_text (ex_ts e)))
        by (subst T; rewrite <- !app_assoc; reflexivity).
      apply slice_mid. }
    (* run: the part in front of the opening brace *)
    assert (Hrun1 : om_rt_run false true true T (R RTs false false [] [] [] None) (pre ++ [HASH; SP])
                    = Ok (R RExStart false false acc0 [] [] None)).
    { destruct Hpre as [[-> ->]|(tok & Htok & -> & ->)].
      - reflexivity.
      - rewrite <- app_assoc. rewrite run_app, run_ts by (apply om_token_all; exact Htok). cbn [bind]. rewrite app_nil_r.
        reflexivity. }
    assert (Hstep2 : om_rt_step false true true T (R RExStart false false acc0 [] [] None) LBRACE
                     = Ok (R RExParsed false false acc0 [] [] (Some (sort_kv (ex_labels e))))).
    { unfold om_rt_step. cbn [rt_state rt_inq rt_esc rt_ts rt_exv rt_exts rt_exl].
      change (LBRACE =? DQ) with false. change (LBRACE =? BS) with false. cbn [andb]. change (LBRACE =? LBRACE) with true.
      cbv iota. rewrite Hslice. subst L. rewrite parse_labels_ltext_om by assumption. reflexivity. }
    assert (Hrun3 : om_rt_run false true true T (R RExParsed false false acc0 [] [] (Some (sort_kv (ex_labels e)))) (L ++ [RBRACE])
                    = Ok (R RExValSp false false acc0 [] [] (Some (sort_kv (ex_labels e))))).
    { apply run_parsed with (rest := []). subst L. rewrite (ltext_scan [RBRACE] _ _ chs_ok_rbrace).
      rewrite nuq0_hit by (try discriminate; reflexivity). cbn [option_map]. f_equal. lia. }
    assert (Hrun4 : om_rt_run false true true T (R RExValSp false false acc0 [] [] (Some (sort_kv (ex_labels e)))) ([SP] ++ V)
                    = Ok (R RExVal false false acc0 (rev V) [] (Some (sort_kv (ex_labels e))))).
    { rewrite run_app. cbn [om_rt_run bind]. unfold om_rt_step at 1. cbn [rt_state rt_inq rt_esc rt_ts rt_exv rt_exts rt_exl].
      change (SP =? DQ) with false. change (SP =? BS) with false. cbn [andb]. change (SP =? SP) with true. cbv iota.
      unfold om_rt_set_state. cbn [rt_state rt_inq rt_esc rt_ts rt_exv rt_exts rt_exl bind].
      rewrite run_exv by (apply om_token_all; exact Hv). rewrite app_nil_r. reflexivity. }
    assert (HVne : rev V <> []).
    { intro E. apply (f_equal (@rev char)) in E. rewrite rev_involutive in E. cbn in E. exact (om_token_ne V Hv E). }
    (* assemble *)
    assert (HT2 : T = (pre ++ [HASH; SP]) ++ [LBRACE] ++ (L ++ [RBRACE]) ++ ([SP] ++ V) ++ ts_text (ex_ts e))
      by (subst T; rewrite <- !app_assoc; reflexivity).
    rewrite HT2 at 2.
    rewrite run_app, Hrun1. cbn [bind].
    rewrite (run_app T [LBRACE]). cbn [om_rt_run]. rewrite Hstep2. cbn [bind].
    rewrite (run_app T (L ++ [RBRACE])), Hrun3. cbn [bind].
    rewrite (run_app T ([SP] ++ V)), Hrun4. cbn [bind].
    unfold ts_text. destruct (ex_ts e) as [t|].
    - cbn [om_rt_run]. unfold om_rt_step at 1. cbn [rt_state rt_inq rt_esc rt_ts rt_exv rt_exts rt_exl].
      change (SP =? DQ) with false. change (SP =? BS) with false. cbn [andb]. change (SP =? SP) with true. cbv iota.
      destruct (rev V) as [|v0 vr] eqn:EV; [congruence|].
      unfold om_rt_set_state. cbn [rt_state rt_inq rt_esc rt_ts rt_exv rt_exts rt_exl bind].
      rewrite run_exts by exact HtsT. rewrite app_nil_r. reflexivity.
    - cbn [om_rt_run]. reflexivity.
  Qed.

  (* value [SP timestamp] [ # {labels} value [timestamp]] *)
  Theorem remaining_text_roundtrip vt nv tso tsv exo exr :
    om_token_ok vt -> parse_num vt = Some nv ->
    ts_reads tso tsv -> ex_reads exo exr ->
    p_rem (vt ++ ts_text tso ++ ex_text exo) = Ok (nv, tsv, exr).
  Proof.
    intros Hv Hn Hts Hex. unfold om_parse_remaining_text.
    destruct tso as [t|]; destruct exo as [e|]; unfold ts_text at 1; unfold ex_text.
    - (* timestamp and exemplar *)
      destruct Hts as (Ht & v & Hpt & ->).
      rewrite exemplar_str_shape. cbn [app].
      rewrite (split_first_some SP vt) by (apply om_token_no_sp; exact Hv).
      rewrite (om_parse_value_token vt nv Hv Hn). cbn [bind].
      assert (Hrun := run_exemplar (render_om_ts t ++ [SP]) e (rev (render_om_ts t)) exr
                        (or_intror (ex_intro _ (render_om_ts t) (conj Ht (conj eq_refl eq_refl)))) Hex).
      destruct Hex as (Hok & Hnd & Hlen & Hev & ev & ets & Hpe & Hets & ->).
      rewrite <- !app_assoc in Hrun. cbn [app] in Hrun. fold om_rt_init in Hrun. rewrite Hrun.
      cbn [bind rt_state rt_ts rt_exv rt_exts rt_exl]. rewrite !rev_involutive.
      assert (Hne : rev (render_om_ts t) <> []).
      { intro E. apply (f_equal (@rev char)) in E. rewrite rev_involutive in E. exact (om_token_ne _ Ht E). }
      rewrite Hpt. cbn [bind].
      rewrite <- (om_sum_len_perm _ _ (sort_kv_perm (ex_labels e))).
      replace (128 <? om_sum_len (ex_labels e))%nat with false by (symmetry; apply Nat.ltb_ge; exact Hlen).
      rewrite (om_parse_value_token _ ev Hev Hpe). cbn [bind].
      unfold ts_reads in Hets. destruct (ex_ts e) as [te|].
      + destruct Hets as (Hte & w & Hpw & ->). rewrite rev_involutive, Hpw.
        assert (Hne2 : rev (render_om_ts te) <> []).
        { intro E. apply (f_equal (@rev char)) in E. rewrite rev_involutive in E. exact (om_token_ne _ Hte E). }
        destruct (rev (render_om_ts te)); [congruence|].
        destruct (rev (render_om_ts t)); [congruence|]. reflexivity.
      + subst ets. destruct (rev (render_om_ts t)); [congruence|]. reflexivity.
    - (* timestamp only *)
      destruct Hts as (Ht & v & Hpt & ->). red in Hex. subst exr. rewrite app_nil_r.
      rewrite (split_first_some SP vt) by (apply om_token_no_sp; exact Hv).
      rewrite (om_parse_value_token vt nv Hv Hn). cbn [bind].
      unfold om_rt_init. rewrite run_ts by (apply om_token_all; exact Ht). cbn [bind rt_state rt_ts rt_exts rt_exl].
      rewrite app_nil_r, rev_involutive, Hpt.
      assert (Hne : rev (render_om_ts t) <> []).
      { intro E. apply (f_equal (@rev char)) in E. rewrite rev_involutive in E. exact (om_token_ne _ Ht E). }
      destruct (rev (render_om_ts t)); [congruence|]. reflexivity.
    - (* exemplar only *)
      red in Hts. subst tsv. rewrite exemplar_str_shape. cbn [app].
      rewrite (split_first_some SP vt) by (apply om_token_no_sp; exact Hv).
      rewrite (om_parse_value_token vt nv Hv Hn). cbn [bind].
      assert (Hrun := run_exemplar [] e [] exr (or_introl (conj eq_refl eq_refl)) Hex).
      destruct Hex as (Hok & Hnd & Hlen & Hev & ev & ets & Hpe & Hets & ->).
      cbn [app] in Hrun. fold om_rt_init in Hrun. rewrite Hrun.
      cbn [bind rt_state rt_ts rt_exv rt_exts rt_exl]. rewrite !rev_involutive. cbn [rev].
      rewrite <- (om_sum_len_perm _ _ (sort_kv_perm (ex_labels e))).
      replace (128 <? om_sum_len (ex_labels e))%nat with false by (symmetry; apply Nat.ltb_ge; exact Hlen).
      rewrite (om_parse_value_token _ ev Hev Hpe).
      unfold ts_reads in Hets. destruct (ex_ts e) as [te|].
      + destruct Hets as (Hte & w & Hpw & ->). rewrite rev_involutive.
        assert (Hne2 : rev (render_om_ts te) <> []).
        { intro E. apply (f_equal (@rev char)) in E. rewrite rev_involutive in E. exact (om_token_ne _ Hte E). }
        destruct (rev (render_om_ts te)); [congruence|]. cbn [bind]. rewrite Hpw. reflexivity.
      + subst ets. reflexivity.
    - (* value only *)
      red in Hts, Hex. subst tsv exr. cbn [app]. rewrite app_nil_r.
      rewrite (split_first_none SP vt) by (apply om_token_no_sp; exact Hv).
      rewrite (om_parse_value_token vt nv Hv Hn). reflexivity.
  Qed.
End Tail.

(* ---------- the head of the line: name and label block ---------- *)
Lemma firstn_app_len {A} (a b : list A) k : firstn (length a + k) (a ++ b) = a ++ firstn k b.
Proof. apply firstn_app_2. Qed.

Section Heads.
  Variable fix_tsexp fix_sname : bool.
  Variable NUM : Type.
  Variable parse_num parse_float : str -> option NUM.
  Variable parse_int : str -> option Z.
  Variable num_eqb : NUM -> NUM -> bool.
  Variable num_isinf : NUM -> bool.
  Notation p_rem := (om_parse_remaining_text false true true fix_tsexp NUM parse_num parse_float parse_int num_eqb num_isinf).
  Notation p_sample := (om_parse_sample false true true fix_tsexp fix_sname NUM parse_num parse_float parse_int num_eqb num_isinf).

  (* name{labels} <tail> *)
  Lemma om_parse_sample_legacy_labels n kvs tl nv ts ex :
    is_valid_legacy_metric_name n = true -> kvs <> [] ->
    Forall key_ok (map fst kvs) -> NoDup (map fst kvs) ->
    p_rem tl = Ok (nv, ts, ex) ->
    p_sample (n ++ LBRACE :: ltext kvs ++ RBRACE :: SP :: tl)
    = Ok {| os_name := n; os_labels := Some kvs; os_value := Some nv; os_ts := ts; os_ex := ex; os_nh := None |}.
  Proof.
    intros Hn Hne Hok Hnd Htail. unfold om_parse_sample.
    set (text := n ++ LBRACE :: ltext kvs ++ RBRACE :: SP :: tl).
    assert (Hls : next_unquoted_char text [LBRACE] 0 = Z.of_nat (length n)).
    { rewrite next_unquoted_char_rel. subst text. rewrite name_scan; [|exact Hn|].
      - rewrite nuq0_hit by (try discriminate; reflexivity). cbn [option_map]. f_equal. lia.
      - intros c Hc. destruct (name_rest_plain c Hc) as (_ & _ & Hl & _). cbn [mem_char].
        destruct (N.eqb_spec c LBRACE); [contradiction|reflexivity]. }
    assert (Hle : next_unquoted_char text [RBRACE] 0 = Z.of_nat (length n + 1 + length (ltext kvs))).
    { rewrite next_unquoted_char_rel. subst text. rewrite name_scan; [|exact Hn|].
      - rewrite nuq0_skip by (try discriminate; reflexivity).
        rewrite ltext_scan by exact chs_ok_rbrace.
        rewrite nuq0_hit by (try discriminate; reflexivity). cbn [option_map]. f_equal. lia.
      - intros c Hc. destruct (name_rest_plain c Hc) as (_ & _ & _ & Hr & _). cbn [mem_char].
        destruct (N.eqb_spec c RBRACE); [contradiction|reflexivity]. }
    rewrite Hls, Hle.
    replace (Z.of_nat (length n) =? -1)%Z with false by lia. cbn [orb].
    subst text. rewrite slice_app_prefix.
    assert (Hex : contains_sub OM_exsep n = false) by (apply (no_exsep n (legacy_no_sp n Hn))).
    rewrite Hex, Hn. cbn [negb].
    assert (Hfs : fix_sname && match n with [] => false | _ :: _ => false end = false)
      by (destruct fix_sname, n; reflexivity).
    rewrite Hfs.
    replace (Z.of_nat (length n) + 1)%Z with (Z.of_nat (length n + 1)) by lia.
    assert (Hslice : slice (n ++ LBRACE :: ltext kvs ++ RBRACE :: SP :: tl) (Z.of_nat (length n + 1))
                       (Z.of_nat (length n + 1 + length (ltext kvs))) = ltext kvs).
    { replace (n ++ LBRACE :: ltext kvs ++ RBRACE :: SP :: tl)
        with ((n ++ [LBRACE]) ++ ltext kvs ++ RBRACE :: SP :: tl) by (rewrite <- app_assoc; reflexivity).
      replace (length n + 1)%nat with (length (n ++ [LBRACE])) by (rewrite app_length; reflexivity).
      apply slice_mid. }
    rewrite Hslice, (parse_labels_ltext_om true kvs Hok Hnd). cbn [bind].
    remember (n ++ LBRACE :: ltext kvs ++ RBRACE :: SP :: tl) as T eqn:ET.
    destruct (legacy_name_chars n Hn) as (c & r & En & _). rewrite En. cbv iota. rewrite <- En.
    change OM_name_key with S_name_key. rewrite (keys_no_name kvs Hok). cbn [bind]. subst T.
    replace (Z.of_nat (length n + 1 + length (ltext kvs)) + 2)%Z
      with (Z.of_nat (length (n ++ LBRACE :: ltext kvs ++ [RBRACE; SP])))
      by (rewrite !app_length; cbn [length]; rewrite app_length; cbn [length]; lia).
    replace (n ++ LBRACE :: ltext kvs ++ RBRACE :: SP :: tl)
      with ((n ++ LBRACE :: ltext kvs ++ [RBRACE; SP]) ++ tl)
      by (rewrite <- !app_assoc; cbn [app]; rewrite <- !app_assoc; reflexivity).
    rewrite (slice_app_suffix _ _ _ eq_refl), Htail. reflexivity.
  Qed.

  (* name <tail>   (no labels; the tail may hold an exemplar, whose opening brace then follows ' # ') *)
  Lemma om_parse_sample_bare n tl nv ts ex :
    is_valid_legacy_metric_name n = true ->
    (forall k, nuq0 [LBRACE] tl false false = Some k -> contains_sub OM_exsep (n ++ SP :: firstn k tl) = true) ->
    p_rem tl = Ok (nv, ts, ex) ->
    p_sample (n ++ SP :: tl)
    = Ok {| os_name := n; os_labels := Some []; os_value := Some nv; os_ts := ts; os_ex := ex; os_nh := None |}.
  Proof.
    intros Hn Hsep Htail. unfold om_parse_sample.
    assert (Hcond : (next_unquoted_char (n ++ SP :: tl) [LBRACE] 0 =? -1)%Z
                    || contains_sub OM_exsep (slice_to (n ++ SP :: tl) (next_unquoted_char (n ++ SP :: tl) [LBRACE] 0)) = true).
    { rewrite next_unquoted_char_rel. rewrite name_scan; [|exact Hn|].
      - rewrite nuq0_skip by (try discriminate; reflexivity).
        destruct (nuq0 [LBRACE] tl false false) as [k|] eqn:Ek; cbn [option_map]; [|reflexivity].
        apply orb_true_iff. right.
        pose proof (nuq0_lt _ _ _ _ _ Ek) as Hlt.
        rewrite slice_to_firstn by (rewrite app_length; cbn [length]; lia).
        rewrite firstn_app_len. cbn [firstn]. apply Hsep. reflexivity.
      - intros c Hc. destruct (name_rest_plain c Hc) as (_ & _ & Hl & _). cbn [mem_char].
        destruct (N.eqb_spec c LBRACE); [contradiction|reflexivity]. }
    rewrite Hcond.
    assert (Hne : next_unquoted_char (n ++ SP :: tl) [SP] 0 = Z.of_nat (length n)).
    { rewrite next_unquoted_char_rel. rewrite name_scan; [|exact Hn|].
      - rewrite nuq0_hit by (try discriminate; reflexivity). cbn [option_map]. f_equal. lia.
      - intros c Hc. destruct (name_rest_plain c Hc) as (_ & _ & _ & _ & Hs & _). cbn [mem_char].
        destruct (N.eqb_spec c SP); [contradiction|reflexivity]. }
    rewrite Hne, slice_app_prefix, Hn. cbn [negb].
    replace (Z.of_nat (length n) + 1)%Z with (Z.of_nat (length (n ++ [SP]))) by (rewrite app_length; cbn [length]; lia).
    replace (n ++ SP :: tl) with ((n ++ [SP]) ++ tl) by (rewrite <- app_assoc; reflexivity).
    rewrite (slice_app_suffix _ _ _ eq_refl), Htail. reflexivity.
  Qed.

  (* {"name"} <tail>  and  {"name", labels} <tail> *)
  Lemma om_parse_sample_quoted nm kvs tl nv ts ex :
    Forall key_ok (map fst kvs) -> NoDup (map fst kvs) ->
    p_rem tl = Ok (nv, ts, ex) ->
    p_sample (LBRACE :: quote (escape nm) ++ sep_text true kvs ++ RBRACE :: SP :: tl)
    = Ok {| os_name := nm; os_labels := Some kvs; os_value := Some nv; os_ts := ts; os_ex := ex; os_nh := None |}.
  Proof.
    intros Hok Hnd Htail. unfold om_parse_sample.
    set (inner := quote (escape nm) ++ sep_text true kvs).
    assert (Htext : LBRACE :: quote (escape nm) ++ sep_text true kvs ++ RBRACE :: SP :: tl
                    = [LBRACE] ++ inner ++ RBRACE :: SP :: tl)
      by (subst inner; cbn [app]; rewrite <- app_assoc; reflexivity).
    rewrite Htext. set (text := [LBRACE] ++ inner ++ RBRACE :: SP :: tl).
    assert (Hls : next_unquoted_char text [LBRACE] 0 = 0%Z).
    { rewrite next_unquoted_char_rel. subst text. cbn [app]. rewrite nuq0_hit by (try discriminate; reflexivity). reflexivity. }
    assert (Hinner : forall t, nuq0 [RBRACE] (inner ++ t) false false
                       = option_map (fun k => (length inner + k)%nat) (nuq0 [RBRACE] t false false)).
    { intro t. subst inner. rewrite <- app_assoc.
      destruct (quoted_scan [RBRACE] nm (sep_text true kvs ++ t) eq_refl) as [Hq _]. rewrite Hq.
      destruct kvs as [|kv r].
      - cbn [sep_text app]. rewrite app_nil_r. reflexivity.
      - cbn [sep_text app]. rewrite (nuq0_skip [RBRACE] COMMA) by (try discriminate; reflexivity).
        rewrite (nuq0_skip [RBRACE] SP) by (try discriminate; reflexivity).
        rewrite (ltext_scan [RBRACE] (kv :: r) t chs_ok_rbrace).
        destruct (nuq0 [RBRACE] t false false); cbn [option_map]; [|reflexivity].
        f_equal. rewrite !app_length. cbn [length]. lia. }
    assert (Hle : next_unquoted_char text [RBRACE] 0 = Z.of_nat (1 + length inner)).
    { rewrite next_unquoted_char_rel. subst text. cbn [app]. rewrite nuq0_skip by (try discriminate; reflexivity).
      rewrite Hinner. rewrite nuq0_hit by (try discriminate; reflexivity). cbn [option_map]. f_equal. lia. }
    rewrite Hls, Hle. cbn [Z.eqb orb].
    change (slice_to text 0) with (slice_to text (Z.of_nat 0)). rewrite slice_to_firstn by lia. cbn [firstn].
    change (contains_sub OM_exsep []) with false. cbv iota. rewrite andb_false_r.
    assert (Hslice : slice text (0 + 1) (Z.of_nat (1 + length inner)) = inner).
    { change (0 + 1)%Z with (Z.of_nat (length [LBRACE])). change (1 + length inner)%nat with (length [LBRACE] + length inner)%nat.
      subst text. apply slice_mid. }
    rewrite Hslice. subst inner. rewrite (parse_labels_quoted_name_om true true nm kvs Hok Hnd). cbn [bind].
    change OM_name_key with S_name_key. cbn [d_find]. rewrite str_eqb_refl. cbn [bind d_remove]. rewrite str_eqb_refl.
    replace (Z.of_nat (1 + length (quote (escape nm) ++ sep_text true kvs)) + 2)%Z
      with (Z.of_nat (length ([LBRACE] ++ (quote (escape nm) ++ sep_text true kvs) ++ [RBRACE; SP])))
      by (rewrite !app_length; cbn [length]; lia).
    subst text.
    replace ([LBRACE] ++ (quote (escape nm) ++ sep_text true kvs) ++ RBRACE :: SP :: tl)
      with (([LBRACE] ++ (quote (escape nm) ++ sep_text true kvs) ++ [RBRACE; SP]) ++ tl)
      by (rewrite <- !app_assoc; reflexivity).
    rewrite (slice_app_suffix _ _ _ eq_refl), Htail. reflexivity.
  Qed.
End Heads.

(* ---------- the whole sample line ---------- *)
(* name and label block as om_sample_line writes them *)
Definition om_head (s : sample) : str :=
  let legacy := is_valid_legacy_metric_name (s_name s) in
  let l0 := if legacy then [] else escape_metric_name (s_name s) ++ (match s_labels s with [] => [] | _ => [COMMA; SP] end) in
  let l1 := l0 ++ match s_labels s with [] => [] | _ => labelstr (s_labels s) end in
  let ls := match l1 with [] => [] | _ => LBRACE :: l1 ++ [RBRACE] end in
  if legacy then s_name s ++ ls else ls.

Lemma Ok_inj {A} (a b : A) : Ok a = Ok b -> a = b.
Proof. congruence. Qed.

Lemma line_assoc (a v t x : str) : a ++ [SP] ++ v ++ t ++ x ++ [LF] = (a ++ [SP] ++ v ++ t ++ x) ++ [LF].
Proof. rewrite <- !app_assoc. reflexivity. Qed.

Lemma om_sample_line_shape ftype fname s line :
  Expo.om_sample_line true ftype fname s = Ok line ->
  line = (om_head s ++ [SP] ++ go_string (s_value s) ++ ts_text (s_ts_om s) ++ ex_text (s_ex s)) ++ [LF].
Proof.
  intro H. unfold Expo.om_sample_line in H. cbv zeta in H.
  destruct (s_ex s) as [e|] eqn:Ee; [destruct (is_valid_exemplar_metric ftype fname s)|]; cbn [bind] in H;
    [|discriminate|]; apply Ok_inj in H; subst line; unfold ex_text; exact (line_assoc (om_head s) _ _ _).
Qed.

Lemma om_head_cases s :
  let kvs := sort_kv (s_labels s) in
  if is_valid_legacy_metric_name (s_name s) then
    om_head s = match s_labels s with [] => s_name s | _ => s_name s ++ LBRACE :: ltext kvs ++ [RBRACE] end
  else om_head s = LBRACE :: quote (escape (s_name s)) ++ sep_text true kvs ++ [RBRACE].
Proof.
  cbv zeta. unfold om_head. cbv zeta. destruct (is_valid_legacy_metric_name (s_name s)) eqn:Hn.
  - destruct (s_labels s) as [|l0 lr] eqn:El; [cbn [app]; rewrite app_nil_r; reflexivity|].
    rewrite <- El. unfold labelstr. rewrite <- ltext_join. cbn [app].
    assert (Hne : sort_kv (s_labels s) <> []) by (apply sort_kv_nonempty; rewrite El; discriminate).
    pose proof (ltext_nonempty _ Hne) as Hlne.
    destruct (ltext (sort_kv (s_labels s))) as [|t0 tr] eqn:Elt; [congruence|]. reflexivity.
  - unfold escape_metric_name. rewrite Hn, escape_chain_eq.
    destruct (s_labels s) as [|l0 lr] eqn:El.
    + cbn [sort_kv fold_right sep_text]. unfold quote. cbn [app]. rewrite !app_nil_r. reflexivity.
    + rewrite <- El. unfold labelstr. rewrite <- ltext_join.
      assert (Hne : sort_kv (s_labels s) <> []) by (apply sort_kv_nonempty; rewrite El; discriminate).
      destruct (sort_kv (s_labels s)) as [|k0 kr] eqn:Esk; [congruence|]. cbn [sep_text].
      unfold quote. cbn [app]. rewrite <- !app_assoc. cbn [app]. reflexivity.
Qed.

Section SampleLine.
  Variable fix_tsexp fix_sname : bool.
  Variable NUM : Type.
  Variable parse_num parse_float : str -> option NUM.
  Variable parse_int : str -> option Z.
  Variable num_eqb : NUM -> NUM -> bool.
  Variable num_isinf : NUM -> bool.
  Notation p_sample := (om_parse_sample false true true fix_tsexp fix_sname NUM parse_num parse_float parse_int num_eqb num_isinf).
  Notation ts_rd := (ts_reads fix_tsexp NUM parse_float parse_int num_eqb num_isinf).
  Notation ex_rd := (ex_reads fix_tsexp NUM parse_num parse_float parse_int num_eqb num_isinf).

  (* where the first opening brace of the tail is: nowhere, or right after ' # ' *)
  Lemma tail_lbrace vt tso tsv exo exr pre :
    om_token_ok vt -> ts_rd tso tsv -> ex_rd exo exr ->
    forall k, nuq0 [LBRACE] (vt ++ ts_text tso ++ ex_text exo) false false = Some k ->
    contains_sub OM_exsep (pre ++ firstn k (vt ++ ts_text tso ++ ex_text exo)) = true.
  Proof.
    intros Hv Hts Hex k.
    assert (Hch : forall c, mem_char c [LBRACE] = true -> c = DQ \/ c = BS \/ c = SP \/ c = HASH \/ c = LBRACE \/ c = RBRACE).
    { intros c Hc. cbn [mem_char] in Hc. rewrite orb_false_r in Hc. apply N.eqb_eq in Hc. auto 10. }
    assert (Hscan : forall rest, nuq0 [LBRACE] (vt ++ ts_text tso ++ rest) false false
              = option_map (fun j => (length (vt ++ ts_text tso) + j)%nat) (nuq0 [LBRACE] rest false false)).
    { intro rest. rewrite om_token_scan by assumption. unfold ts_text. red in Hts. destruct tso as [t|].
      - destruct Hts as (Ht & _). cbn [app]. rewrite nuq0_skip by (try discriminate; reflexivity).
        rewrite om_token_scan by assumption.
        destruct (nuq0 [LBRACE] rest false false); cbn [option_map]; [|reflexivity]. f_equal.
        rewrite !app_length. cbn [length]. lia.
      - cbn [app]. rewrite app_nil_r. reflexivity. }
    rewrite Hscan. unfold ex_text. destruct exo as [e|]; [|discriminate].
    rewrite exemplar_str_shape. cbn [app].
    rewrite !nuq0_skip by (try discriminate; reflexivity). rewrite nuq0_hit by (try discriminate; reflexivity).
    cbn [option_map]. intro H. inversion H. clear H.
    replace (vt ++ ts_text tso ++ SP :: HASH :: SP :: LBRACE :: ltext (sort_kv (ex_labels e)) ++
               RBRACE :: SP :: go_string (ex_value e) ++ ts_text (ex_ts e))
      with ((vt ++ ts_text tso) ++ [SP; HASH; SP] ++ LBRACE :: ltext (sort_kv (ex_labels e)) ++
               RBRACE :: SP :: go_string (ex_value e) ++ ts_text (ex_ts e))
      by (rewrite <- !app_assoc; reflexivity).
    rewrite firstn_app_len. change 3%nat with (length [SP; HASH; SP] + 0)%nat. rewrite firstn_app_len. cbn [firstn].
    rewrite app_nil_r, app_assoc. change [SP; HASH; SP] with OM_exsep.
    rewrite <- (app_nil_r OM_exsep) at 2. apply contains_sub_app.
  Qed.

  (* C04 L4 *)
  Theorem om_sample_roundtrip ftype fname s line nv tsv exr :
    Forall key_ok (map fst (s_labels s)) -> NoDup (map fst (s_labels s)) ->
    om_token_ok (go_string (s_value s)) -> parse_num (go_string (s_value s)) = Some nv ->
    ts_rd (s_ts_om s) tsv -> ex_rd (s_ex s) exr ->
    Expo.om_sample_line true ftype fname s = Ok line ->
    exists body, line = body ++ [LF] /\
      p_sample body = Ok {| os_name := s_name s; os_labels := Some (sort_kv (s_labels s)); os_value := Some nv;
                            os_ts := tsv; os_ex := exr; os_nh := None |}.
  Proof.
    intros Hok Hnd Hv Hpv Hts Hex Hline.
    apply om_sample_line_shape in Hline. eexists. split; [exact Hline|].
    set (tl := go_string (s_value s) ++ ts_text (s_ts_om s) ++ ex_text (s_ex s)).
    assert (Htail := remaining_text_roundtrip fix_tsexp NUM parse_num parse_float parse_int num_eqb num_isinf
                       _ nv _ tsv _ exr Hv Hpv Hts Hex). fold tl in Htail.
    assert (Hperm : Permutation (map fst (s_labels s)) (map fst (sort_kv (s_labels s))))
      by (apply Permutation_map, sort_kv_perm).
    assert (Hok' : Forall key_ok (map fst (sort_kv (s_labels s)))) by (eapply Permutation_Forall; eauto).
    assert (Hnd' : NoDup (map fst (sort_kv (s_labels s)))) by (eapply Permutation_NoDup; eauto).
    pose proof (om_head_cases s) as Hh. cbv zeta in Hh.
    destruct (is_valid_legacy_metric_name (s_name s)) eqn:Hn.
    - destruct (s_labels s) as [|l0 lr] eqn:El.
      + rewrite Hh. cbn [sort_kv fold_right app].
        apply om_parse_sample_bare; [exact Hn| |exact Htail].
        intros k Hk. subst tl. change (s_name s ++ SP :: firstn k ?x) with (s_name s ++ [SP] ++ firstn k x).
        rewrite app_assoc. eapply tail_lbrace; eauto.
      + rewrite <- El in *. rewrite Hh. rewrite <- !app_assoc. cbn [app]. rewrite <- !app_assoc. cbn [app].
        apply om_parse_sample_legacy_labels; auto. apply sort_kv_nonempty. rewrite El. discriminate.
    - rewrite Hh. cbn [app]. rewrite <- !app_assoc. cbn [app].
      apply om_parse_sample_quoted; auto.
  Qed.
End SampleLine.

(* ---------- a decidable form of the token hypothesis (what the correspondence harness can test per case) ---------- *)
Definition om_tok_charb (c : char) : bool :=
  negb (is_space_uni c) && negb (c =? USCORE) && negb (c =? LBRACE) && negb (c =? DQ) && negb (c =? BS)
  && negb (c =? RBRACE) && negb (c =? HASH).
Definition om_token_okb (t : str) : bool := match t with [] => false | _ => forallb om_tok_charb t end.

Lemma om_tok_charb_ok c : om_tok_charb c = true ->
  (is_space_uni c = false /\ c <> USCORE /\ c <> LBRACE /\ c <> DQ /\ c <> BS) /\ (c <> RBRACE /\ c <> HASH).
Proof.
  unfold om_tok_charb. rewrite !andb_true_iff, !negb_true_iff, !N.eqb_neq. tauto.
Qed.

Lemma om_token_okb_ok t : om_token_okb t = true -> om_token_ok t.
Proof.
  unfold om_token_okb, om_token_ok, token_ok. destruct t as [|c r]; [discriminate|]. intro H.
  rewrite forallb_forall in H.
  split; [split; [discriminate|]|]; apply Forall_forall; intros x Hx; apply (om_tok_charb_ok x (H x Hx)).
Qed.

(* every character a token may be made of, when it is a digit, a sign, a dot or a letter *)
Lemma om_tok_charb_digit c : is_digit c = true -> om_tok_charb c = true.
Proof.
  unfold is_digit, om_tok_charb, is_space_uni, USCORE, LBRACE, DQ, BS, RBRACE, HASH. intro H.
  apply andb_true_iff in H as [H1 H2]. apply N.leb_le in H1. apply N.leb_le in H2.
  rewrite !andb_true_iff, !negb_true_iff, !orb_false_iff, !andb_false_iff, !N.eqb_neq, !N.leb_gt. lia.
Qed.

(* ---------- integer and sec.nsec timestamps: ts_reads from facts about int() alone ---------- *)
From V Require Import model.Decimal proofs.DecimalFacts.

Lemma all_digits_tokb s : all_digits s = true -> forallb om_tok_charb s = true.
Proof.
  induction s as [|c r IH]; [reflexivity|]. cbn [all_digits forallb]. intro H. apply andb_true_iff in H as [H1 H2].
  rewrite om_tok_charb_digit by exact H1. apply IH. exact H2.
Qed.

Lemma all_digits_no c s : is_digit c = false -> all_digits s = true -> mem_char c s = false.
Proof.
  intros Hc. induction s as [|x r IH]; [reflexivity|]. cbn [all_digits mem_char]. intro H.
  apply andb_true_iff in H as [H1 H2]. rewrite IH by exact H2.
  destruct (N.eqb_spec c x) as [->|_]; [congruence|reflexivity].
Qed.

Lemma dec_of_Z_shape z :
  (exists d, dec_of_Z z = d /\ all_digits d = true /\ d <> [] /\ (0 <= z)%Z) \/
  (exists d, dec_of_Z z = MINUS :: d /\ all_digits d = true /\ d <> [] /\ (z < 0)%Z).
Proof.
  destruct z as [|p|p]; cbn [dec_of_Z].
  - left. exists [ZERO]. repeat split; try discriminate; try lia.
  - left. destruct (dec_of_N_spec (Npos p)) as (_ & H2 & H3). eexists. repeat split; eauto; lia.
  - right. destruct (dec_of_N_spec (Npos p)) as (_ & H2 & H3). eexists. repeat split; eauto; lia.
Qed.

Lemma dec_of_Z_token z : om_token_ok (dec_of_Z z).
Proof.
  apply om_token_okb_ok. destruct (dec_of_Z_shape z) as [(d & -> & Hd & Hne & _)|(d & -> & Hd & Hne & _)].
  - unfold om_token_okb. destruct d; [congruence|]. apply all_digits_tokb. exact Hd.
  - unfold om_token_okb. cbn [forallb]. rewrite all_digits_tokb by exact Hd. reflexivity.
Qed.

Lemma dec_digits_fuel_length fuel : forall n acc k, (1 <= k)%nat -> n < 10 ^ N.of_nat k ->
  (length (dec_digits_fuel fuel n acc) <= length acc + k)%nat.
Proof.
  induction fuel as [|fuel IH]; intros n acc k Hk Hn; cbn [dec_digits_fuel]; [lia|].
  destruct (N.eqb_spec (n / 10) 0) as [Hq|Hq]; [cbn [length]; lia|].
  destruct k as [|[|k]]; [lia| |].
  - exfalso. apply Hq. apply N.div_small. exact Hn.
  - specialize (IH (n / 10) ((48 + n mod 10) :: acc) (S k) ltac:(lia)).
    cbn [length] in IH. etransitivity; [apply IH|lia].
    rewrite (Nat2N.inj_succ (S k)), N.pow_succ_r' in Hn. apply N.div_lt_upper_bound; lia.
Qed.

Lemma pad9_length s : forall n, (length s <= 9)%nat -> (9 <= length s + n)%nat -> length (pad9 s n) = 9%nat.
Proof.
  intros n. revert s. induction n as [|n IH]; intros s H1 H2; cbn [pad9]; [lia|].
  destruct (Nat.ltb_spec (length s) 9); [|lia]. apply IH; cbn [length]; lia.
Qed.

Lemma pad9_digits s : forall n, all_digits s = true -> all_digits (pad9 s n) = true.
Proof.
  intros n. revert s. induction n as [|n IH]; intros s H; cbn [pad9]; [exact H|].
  destruct (Nat.ltb (length s) 9); [|exact H]. apply IH. cbn [all_digits]. rewrite H. reflexivity.
Qed.

Lemma nsec_frac nsec : nsec < 1000000000 ->
  length (pad9 (dec_of_N nsec) 9) = 9%nat /\ all_digits (pad9 (dec_of_N nsec) 9) = true.
Proof.
  intro H. destruct (dec_of_N_spec nsec) as (_ & H2 & _). split; [|apply pad9_digits; exact H2].
  apply pad9_length; [|lia]. unfold dec_of_N.
  pose proof (dec_digits_fuel_length (S (N.to_nat (N.log2 nsec))) nsec [] 9 ltac:(lia) H) as L. cbn [length] in L. lia.
Qed.

Section Timestamps.
  Variable fix_tsexp : bool.
  Variable NUM : Type.
  Variable parse_float : str -> option NUM.
  Variable parse_int : str -> option Z.
  Variable num_eqb : NUM -> NUM -> bool.
  Variable num_isinf : NUM -> bool.
  Notation ts_rd := (ts_reads fix_tsexp NUM parse_float parse_int num_eqb num_isinf).
  Notation p_ts := (om_parse_timestamp fix_tsexp NUM parse_float parse_int num_eqb num_isinf).

  Lemma p_ts_token t : om_token_ok t ->
    p_ts t =
    match parse_int t with
    | Some z => do ts <- om_mk_timestamp NUM z 0; Ok (Some ts)
    | None =>
        let float_branch :=
          match parse_float t with
          | None => Err ValueError
          | Some x => if om_num_nan NUM num_eqb x || num_isinf x then Err ValueError else Ok (Some (OTf x))
          end in
        let '(p0, p1o) := om_split_first OM_DOT t in
        match parse_int p0 with
        | None => float_branch
        | Some sec =>
            match p1o with
            | None => Err IndexError
            | Some p1 =>
                if fix_tsexp && (match parse_int p1 with None => true | Some _ => false end) then float_branch else
                if fix_tsexp && (sec =? 0)%Z && (match p0 with c :: _ => c =? OM_MINUS | [] => false end)
                then float_branch else
                match parse_int (om_ljust9 (firstn 9 p1)) with
                | None => float_branch
                | Some ns => match om_mk_timestamp NUM sec ns with
                             | Ok ts => Ok (Some ts)
                             | Err _ => float_branch
                             end
                end
            end
        end
    end.
  Proof.
    intros [Ht Hx]. unfold om_parse_timestamp. destruct t as [|c r] eqn:E; [destruct Ht; congruence|]. rewrite <- E in *.
    rewrite token_strip, str_eqb_refl by exact Ht. cbn [negb orb].
    rewrite (token_no USCORE t Ht) by (right; reflexivity). rewrite E. reflexivity.
  Qed.

  (* an int timestamp t is written str(t) and read as Timestamp(int(str(t)), 0) *)
  Theorem ts_reads_int z zr : parse_int (dec_of_Z z) = Some zr -> ts_rd (Some (TsInt z)) (Some (OTs zr 0)).
  Proof.
    intro H. unfold ts_reads, render_om_ts. split; [apply dec_of_Z_token|]. eexists. split; [|reflexivity].
    rewrite p_ts_token by apply dec_of_Z_token. rewrite H. unfold om_mk_timestamp. cbn [Z.ltb Z.leb Z.compare orb bind].
    destruct (zr <? 0)%Z; reflexivity.
  Qed.

  (* a Timestamp(sec, nsec), sec >= 0, is written sec.nnnnnnnnn and read as Timestamp(int(sec), int(nnnnnnnnn)),
     given that int() rejects the whole token and reads its two halves *)
  Theorem ts_reads_nanos sec nsec zs zn :
    (0 <= sec)%Z -> nsec < 1000000000 ->
    parse_int (render_om_ts (TsNanos sec nsec)) = None ->
    parse_int (dec_of_Z sec) = Some zs -> parse_int (pad9 (dec_of_N nsec) 9) = Some zn ->
    (0 <= zs)%Z -> (0 <= zn < 1000000000)%Z ->
    ts_rd (Some (TsNanos sec nsec)) (Some (OTs zs zn)).
  Proof.
    intros Hsec Hns Hw Hs Hf Hzs Hzn.
    destruct (dec_of_Z_shape sec) as [(d & Ed & Hd & Hne & _)|(d & _ & _ & _ & Hneg)]; [|lia].
    destruct (nsec_frac nsec Hns) as [Hlen Hfd]. set (F := pad9 (dec_of_N nsec) 9) in *.
    assert (Htok : om_token_ok (render_om_ts (TsNanos sec nsec))).
    { apply om_token_okb_ok. unfold render_om_ts. fold F. rewrite Ed. unfold om_token_okb.
      destruct d as [|d0 dr]; [congruence|]. cbn [app]. change (forallb om_tok_charb ((d0 :: dr) ++ [DOT] ++ F) = true).
      rewrite !forallb_app. rewrite (all_digits_tokb _ Hd), (all_digits_tokb _ Hfd). reflexivity. }
    unfold ts_reads. split; [exact Htok|]. eexists. split; [|reflexivity].
    rewrite p_ts_token by exact Htok. rewrite Hw. cbv zeta.
    unfold render_om_ts. fold F. cbn [app]. change OM_DOT with DOT.
    rewrite (split_first_some DOT (dec_of_Z sec) F) by (rewrite Ed; apply all_digits_no; [reflexivity|exact Hd]).
    rewrite Hs, Hf. cbn [andb]. rewrite andb_false_r.
    assert (Hm : (match dec_of_Z sec with c :: _ => c =? OM_MINUS | [] => false end) = false).
    { rewrite Ed. destruct d as [|d0 dr]; [reflexivity|]. cbn [all_digits] in Hd. apply andb_true_iff in Hd as [Hd0 _].
      unfold is_digit, OM_MINUS in *. lia. }
    rewrite Hm, andb_false_r.
    assert (Hlj : om_ljust9 (firstn 9 F) = F).
    { unfold om_ljust9. rewrite <- Hlen, firstn_all, Nat.sub_diag. cbn [repeat]. apply app_nil_r. }
    rewrite Hlj, Hf. unfold om_mk_timestamp.
    replace ((zn <? 0)%Z || (1000000000 <=? zn)%Z) with false by lia.
    replace (zs <? 0)%Z with false by lia. reflexivity.
  Qed.
End Timestamps.
