(* C04 L5, histograms: a classic histogram family - per label set the buckets with increasing bounds ending in +Inf and
   cumulative counts (exemplars allowed), then optionally _count and _sum, then optionally _created - meets family_acc of
   proofs/OMFamilyRoundTrip.v: the per-sample checks, the grouping, and _check_histogram at the flush. *)
From V Require Import lib.PyBase lib.Tac lib.PyStr model.Utils model.Validation model.Expo model.TextParser model.OMParser
  proofs.LabelRoundTrip proofs.OMSampleRoundTrip proofs.OMDocRoundTrip proofs.OMCounterRoundTrip proofs.OMFamilyRoundTrip
  proofs.OMGroupingFacts proofs.OMSummaryRoundTrip proofs.OMGaugeCounterInst proofs.OMNhNone.
From Coq Require Import Permutation.
Ltac Zify.zify_post_hook ::= Z.to_euclidean_division_equations.
Open Scope N_scope.

Section Histogram.
  Variable fix_nhkeys fix_nhsfx fix_tsmix fix_isnan fix_tsexp fix_sname : bool.
  Variable NUM : Type.
  Variable parse_num parse_float : str -> option NUM.
  Variable parse_int : str -> option Z.
  Variable num_lt num_eqb : NUM -> NUM -> bool.
  Variable num_isinf num_integral num_huge : NUM -> bool.
  Variable num_zero num_one num_inf : NUM.
  Variable ts_float : Z -> Z -> option NUM.
  Variable is_word is_space_re is_digit_re : char -> bool.
  Variable val_of : sample -> NUM.
  Variable ts_of : sample -> option (om_tsv NUM).
  Variable ex_of : sample -> option (om_exemplar NUM).
  Variable n : str.

  Notation ps := (g_ps_of NUM val_of ts_of ex_of).
  Notation rd_ok := (read_ok fix_tsexp NUM parse_num parse_float parse_int num_eqb num_isinf val_of ts_of ex_of).
  Notation num_le := (om_num_le NUM num_lt num_eqb).
  Notation cnt_ok := (counts_ok fix_isnan NUM num_lt num_eqb num_huge num_zero).
  Notation pre_checks := (om_pre_checks NUM parse_float num_lt num_eqb num_integral num_zero num_one num_inf).
  Notation post_checks := (om_post_checks fix_isnan NUM num_lt num_eqb num_huge num_zero num_one).
  Notation s_acc := (sample_acc fix_nhkeys fix_nhsfx fix_isnan fix_tsexp NUM parse_num parse_float parse_int num_lt num_eqb
                       num_isinf num_integral num_huge num_zero num_one num_inf is_word is_space_re is_digit_re val_of ts_of ex_of).
  Notation f_acc := (family_acc fix_nhkeys fix_nhsfx fix_tsmix fix_isnan fix_tsexp NUM parse_num parse_float parse_int num_lt
                       num_eqb num_isinf num_integral num_huge num_zero num_one num_inf ts_float is_word is_space_re is_digit_re
                       val_of ts_of ex_of).
  Notation hist_step := (om_check_hist_step NUM parse_float num_lt num_eqb num_zero num_inf).
  Notation hist_run := (om_check_hist_run NUM parse_float num_lt num_eqb num_zero num_inf).
  Notation do_checks := (om_do_checks NUM num_eqb num_inf).
  Notation check_hist := (om_check_histogram NUM parse_float num_lt num_eqb num_zero num_inf).
  Notation p_text := (om_parse false true fix_nhkeys fix_nhsfx fix_tsmix fix_isnan true true fix_tsexp fix_sname NUM
                      parse_num parse_float parse_int num_lt num_eqb num_isinf num_integral num_huge num_zero num_one num_inf
                      ts_float is_word is_space_re is_digit_re).

  (* the bound of a bucket: float(labels['le']) *)
  Definition bound_of (s : sample) : option NUM :=
    match d_find str_eqb (sort_kv (s_labels s)) OM_le with Some lv => parse_float lv | None => None end.

  (* one sample of a histogram family *)
  Definition om_hsample_ok (s : sample) : Prop :=
    rd_ok s /\ s_ts_om s = None /\
    ((s_name s = n ++ OM_bucket /\
      (exists lv b, In (OM_le, lv) (s_labels s) /\ parse_float lv = Some b /\ str_eqb lv OM_NaN = false /\
                    num_eqb b num_inf && negb (str_eqb lv OM_pInf) = false) /\
      num_integral (val_of s) = true /\ cnt_ok (val_of s))
     \/ (s_name s = n ++ OM_count /\ s_ex s = None /\ num_integral (val_of s) = true /\ cnt_ok (val_of s))
     \/ (s_name s = n ++ OM_sum /\ s_ex s = None /\ cnt_ok (val_of s))
     \/ (s_name s = n ++ OM_created /\ s_ex s = None)).

  (* the group: the labels without le for a bucket, all labels otherwise *)
  Definition hgd (s : sample) : list (str * str) :=
    if str_eqb (s_name s) (n ++ OM_bucket) then d_remove str_eqb (sort_kv (s_labels s)) OM_le else sort_kv (s_labels s).
  Definition hkey (s : sample) : list (str * str) := sort_kv (hgd s).

  Lemma hsample_ts s : om_hsample_ok s -> ts_of s = None.
  Proof. intros ((_ & _ & _ & _ & Hts & _) & Ht & _). rewrite Ht in Hts. exact Hts. Qed.

  Lemma hsample_name s : om_hsample_ok s ->
    exists sfx, s_name s = n ++ sfx /\ (sfx = OM_bucket \/ sfx = OM_count \/ sfx = OM_sum \/ sfx = OM_created).
  Proof. intros (_ & _ & [(H & _)|[(H & _)|[(H & _)|(H & _)]]]); eexists; split; eauto. Qed.

  Lemma hsample_ex s : om_hsample_ok s -> s_name s <> n ++ OM_bucket -> ex_of s = None.
  Proof.
    intros ((_ & _ & _ & _ & _ & Hex) & _ & [(H & _)|[(_ & He & _)|[(_ & He & _)|(_ & He)]]]) Hn; [contradiction|..];
      rewrite He in Hex; exact Hex.
  Qed.

  Lemma hsample_bound s : om_hsample_ok s -> s_name s = n ++ OM_bucket ->
    exists lv b, d_find str_eqb (sort_kv (s_labels s)) OM_le = Some lv /\ parse_float lv = Some b /\ bound_of s = Some b /\
                 str_eqb lv OM_NaN = false /\ num_eqb b num_inf && negb (str_eqb lv OM_pInf) = false.
  Proof.
    intros ((_ & Hnd & _) & _ & [(_ & (lv & b & Hin & Hp & H1 & H2) & _)|[(H & _)|[(H & _)|(H & _)]]]) Hn;
      try (rewrite Hn in H; apply app_inv_head in H; discriminate).
    exists lv, b. pose proof (d_find_sorted _ _ _ Hnd Hin) as Hf. unfold bound_of. rewrite Hf. auto.
  Qed.

  Lemma hsample_gfs typ s : om_hsample_ok s -> typ = OM_histogram \/ typ = OM_gaugehistogram ->
    om_group_for_sample (ps s) n typ = Ok (Some (hgd s)).
  Proof.
    intros Hs Hty. unfold om_group_for_sample, hgd. cbn [os_name os_labels g_ps_of].
    assert (Ht : str_eqb typ OM_info = false /\ str_eqb typ OM_summary = false /\ str_eqb typ OM_stateset = false /\
                 str_eqb typ OM_histogram || str_eqb typ OM_gaugehistogram = true)
      by (destruct Hty as [-> | ->]; repeat split; reflexivity).
    destruct Ht as (-> & -> & -> & ->). cbn [andb].
    destruct (str_eqb (s_name s) (n ++ OM_bucket)) eqn:E; [|reflexivity].
    apply str_eqb_eq in E. destruct (hsample_bound s Hs E) as (lv & b & Hf & _).
    unfold om_labels_of. cbn [os_labels g_ps_of bind]. unfold d_del, d_mem. rewrite Hf. reflexivity.
  Qed.

  Lemma hsample_key s : om_hsample_ok s -> key_of NUM val_of ts_of ex_of OM_histogram n hkey s.
  Proof. intro Hs. exists (hgd s). split; [apply hsample_gfs; auto|reflexivity]. Qed.

  Lemma hsample_pre s : om_hsample_ok s -> pre_checks n (Some OM_histogram) (ps s) = Ok tt.
  Proof.
    intro Hs. unfold om_pre_checks. cbn [os_name os_labels os_value g_ps_of].
    change (om_typ_is (Some OM_histogram) OM_stateset) with false. change (om_typ_is (Some OM_histogram) OM_summary) with false.
    cbv iota. cbn [bind andb].
    pose proof Hs as Hs'.
    destruct Hs as (Hr & Ht & [(Hn & Hle & Hint & _)|[(Hn & _ & Hint & _)|[(Hn & _)|(Hn & _)]]]); rewrite Hn.
    - destruct (hsample_bound s Hs' Hn) as (lv & b & Hf & Hp & _ & Hnan & Hun).
      rewrite str_eqb_refl. unfold om_labels_of. cbn [os_labels g_ps_of bind]. rewrite Hf, Hnan.
      unfold om_uncanonical. rewrite Hp. cbn [bind]. rewrite Hun. cbn [bind]. unfold om_not_integral. rewrite Hint. cbn [negb bind].
      rewrite !str_eqb_app_head. reflexivity.
    - rewrite !str_eqb_app_head. change (str_eqb OM_bucket OM_count) with false. change (str_eqb OM_count OM_count) with true.
      cbn [orb bind]. unfold om_not_integral. rewrite Hint. reflexivity.
    - rewrite !str_eqb_app_head. reflexivity.
    - rewrite !str_eqb_app_head. reflexivity.
  Qed.

  Lemma hsample_post s : om_hsample_ok s -> post_checks n (Some OM_histogram) (ps s) = Ok tt.
  Proof.
    intro Hs. pose proof (hsample_ex s Hs) as Hex. destruct Hs as (Hr & Ht & Hk).
    unfold om_post_checks. cbn [os_name os_value os_ex g_ps_of].
    change (om_typ_is (Some OM_histogram) OM_stateset) with false. change (om_typ_is (Some OM_histogram) OM_info) with false.
    change (om_typ_is (Some OM_histogram) OM_summary) with false. change (om_typ_is (Some OM_histogram) OM_histogram) with true.
    cbn [andb orb]. cbv zeta. cbn [bind].
    destruct Hk as [(Hn & _ & _ & Hc)|[(Hn & _ & _ & Hc)|[(Hn & _ & Hc)|(Hn & _)]]]; rewrite Hn;
      rewrite skipn_app, skipn_all, Nat.sub_diag; cbn [skipn app].
    - change (mem_str OM_bucket [OM_total; OM_sum; OM_count; OM_bucket; OM_gcount; OM_gsum]) with true.
      change (mem_str OM_bucket [OM_total; OM_sum; OM_count; OM_bucket; OM_gcount]) with true. cbv iota.
      rewrite (counts_isnan _ _ _ _ _ _ _ Hc). unfold om_value_of. cbn [bind os_value g_ps_of]. destruct Hc as (_ & -> & _).
      cbn [bind]. rewrite ends_with_app. destruct (ex_of s); reflexivity.
    - change (mem_str OM_count [OM_total; OM_sum; OM_count; OM_bucket; OM_gcount; OM_gsum]) with true.
      change (mem_str OM_count [OM_total; OM_sum; OM_count; OM_bucket; OM_gcount]) with true. cbv iota.
      rewrite (counts_isnan _ _ _ _ _ _ _ Hc). unfold om_value_of. cbn [bind os_value g_ps_of]. destruct Hc as (_ & -> & _).
      cbn [bind]. rewrite Hex; [reflexivity|]. rewrite Hn. intro E. apply app_inv_head in E. discriminate.
    - change (mem_str OM_sum [OM_total; OM_sum; OM_count; OM_bucket; OM_gcount; OM_gsum]) with true.
      change (mem_str OM_sum [OM_total; OM_sum; OM_count; OM_bucket; OM_gcount]) with true. cbv iota.
      rewrite (counts_isnan _ _ _ _ _ _ _ Hc). unfold om_value_of. cbn [bind os_value g_ps_of]. destruct Hc as (_ & -> & _).
      cbn [bind]. rewrite Hex; [reflexivity|]. rewrite Hn. intro E. apply app_inv_head in E. discriminate.
    - change (mem_str OM_created [OM_total; OM_sum; OM_count; OM_bucket; OM_gcount; OM_gsum]) with false.
      change (mem_str OM_created [OM_total; OM_sum; OM_count; OM_bucket; OM_gcount]) with false. cbv iota. cbn [bind].
      rewrite Hex; [reflexivity|]. rewrite Hn. intro E. apply app_inv_head in E. discriminate.
  Qed.

  Lemma hsample_acc s : om_hsample_ok s -> s_acc OM_histogram n s.
  Proof.
    intro Hs. pose proof (hsample_pre s Hs) as Hpre. pose proof (hsample_post s Hs) as Hpost.
    destruct (hsample_name s Hs) as (sfx & Hn & Hsfx). destruct Hs as (Hr & Ht & Hk).
    split; [exact Hr|]. split; [|split; [|split; [exact Hpre|split; [exact Hpost|]]]].
    - destruct Hk as [(Hb & _)|[(_ & He & _)|[(_ & He & _)|(_ & He)]]]; [right|left; exact He..].
      unfold is_valid_exemplar_metric. rewrite Hb. change (contains_sub OM_histogram S_histogram) with true.
      change S_bucket with OM_bucket. rewrite ends_with_app. cbn [andb orb]. rewrite !orb_true_r. reflexivity.
    - rewrite Hn. unfold allowed_names. change (om_type_suffixes OM_histogram [[]]) with [OM_count; OM_sum; OM_bucket; OM_created].
      cbn [map mem_str]. rewrite !str_eqb_app_head. destruct Hsfx as [->|[->|[->| ->]]]; reflexivity.
    - intros _. destruct Hr as (_ & _ & Hv & _ & Hts & _).
      apply (sample_line_not_native fix_nhkeys fix_nhsfx fix_tsexp NUM parse_num parse_float parse_int num_eqb num_isinf
               is_word is_space_re is_digit_re s (ts_of s) Hv Hts).
  Qed.

  (* ---------- _check_histogram ---------- *)
  Definition HV (c b : option NUM) (nb sm : bool) (v : NUM) : om_hv NUM :=
    {| hv_count := c; hv_bucket := b; hv_negb := nb; hv_sum := sm; hv_gsum := false; hv_neggsum := false; hv_value := v |}.

  (* the buckets of one group: bounds strictly increasing (the parser refuses b <= previous), values not decreasing *)
  Fixpoint bchain (pb : option NUM) (pv : NUM) (l : list sample) : Prop :=
    match l with
    | [] => True
    | s :: r => match bound_of s with
                | Some b => (match pb with Some bk => num_le b bk = false | None => True end) /\
                            num_lt (val_of s) pv = false /\ bchain (Some b) (val_of s) r
                | None => False
                end
    end.
  Definition lastb (pb : option NUM) (l : list sample) : option NUM := fold_left (fun _ s => bound_of s) l pb.
  Definition lastv (pv : NUM) (l : list sample) : NUM := fold_left (fun _ s => val_of s) l pv.
  Definition negf (nb : bool) (l : list sample) : bool :=
    fold_left (fun a s => match bound_of s with Some b => if num_lt b num_zero then true else a | None => a end) l nb.

  (* the state of the scan inside / between groups *)
  Definition same_route (st : om_hstate NUM) (k : list (str * str)) (h0 : om_hv NUM) : Prop :=
    exists gd0, hs_group st = Some gd0 /\ sort_kv gd0 = k /\ hs_ts st = None /\ hs_hv st = Some h0.
  Definition new_route (st : om_hstate NUM) (k : list (str * str)) : Prop :=
    hs_ts st = None /\
    (hs_group st = None \/ exists gd0, hs_group st = Some gd0 /\ sort_kv gd0 <> k /\ do_checks (hs_hv st) = Ok tt).

  Lemma optdict_same (gd : list (str * str)) (gd0 : assoc str str) : sort_kv gd0 = sort_kv gd -> om_optdict_eqb (Some gd) (Some gd0) = true.
  Proof. intro E. unfold om_optdict_eqb, om_dict_eqb. rewrite E. apply om_kvs_eqb_eq. reflexivity. Qed.
  Lemma optdict_diff (gd : list (str * str)) (gd0 : assoc str str) : sort_kv gd0 <> sort_kv gd -> om_optdict_eqb (Some gd) (Some gd0) = false.
  Proof.
    intro E. unfold om_optdict_eqb, om_dict_eqb. destruct (om_kvs_eqb (sort_kv gd) (sort_kv gd0)) eqn:H; [|reflexivity].
    apply om_kvs_eqb_eq in H. congruence.
  Qed.

  (* a bucket sample, continuing the group or opening a new one *)
  Lemma hist_step_bucket st s h0 b :
    om_hsample_ok s -> s_name s = n ++ OM_bucket -> bound_of s = Some b ->
    (same_route st (hkey s) h0 \/ (new_route st (hkey s) /\ h0 = om_hv_init NUM num_zero)) ->
    (match hv_bucket h0 with Some bk => num_le b bk = false | None => True end) ->
    num_lt (val_of s) (hv_value h0) = false ->
    hist_step n st (ps s)
    = Ok {| hs_group := Some (hgd s); hs_ts := None;
            hs_hv := Some {| hv_count := hv_count h0; hv_bucket := Some b;
                             hv_negb := if num_lt b num_zero then true else hv_negb h0; hv_sum := hv_sum h0;
                             hv_gsum := hv_gsum h0; hv_neggsum := hv_neggsum h0; hv_value := val_of s |} |}.
  Proof.
    intros Hs Hn Hb Hroute Hbk Hv. unfold om_check_hist_step.
    rewrite (hsample_gfs OM_histogram s Hs (or_introl eq_refl)). cbn [bind os_name os_ts os_labels os_value g_ps_of].
    rewrite (hsample_ts s Hs). rewrite Hn, skipn_app, skipn_all, Nat.sub_diag. cbn [skipn app].
    destruct OM_bucket as [|c0 r0] eqn:Eb; [discriminate|]. rewrite <- Eb.
    match goal with |- bind ?m _ = _ => assert (Hm : m = Ok (Some h0)) end.
    { destruct Hroute as [(gd0 & Hg & Hk & Hts & Hhv)|[(Hts & Hg) ->]].
      - rewrite Hg, Hts, (optdict_same _ _ Hk), Hhv. reflexivity.
      - rewrite Hts. destruct Hg as [Hg|(gd0 & Hg & Hk & Hdc)]; rewrite Hg.
        + reflexivity.
        + rewrite (optdict_diff _ _ Hk), Hdc. reflexivity. }
    rewrite Hm. cbn [bind]. rewrite str_eqb_refl.
    unfold bound_of in Hb. destruct (d_find str_eqb (sort_kv (s_labels s)) OM_le) as [lv|] eqn:Ef; [|discriminate].
    unfold d_get. rewrite Ef. cbn [bind]. rewrite Hb. cbn [bind].
    assert (Hbk' : (match hv_bucket h0 with Some bk => num_le b bk | None => false end) = false)
      by (destruct (hv_bucket h0); [exact Hbk|reflexivity]).
    rewrite Hbk'. unfold om_value_of. cbn [os_value g_ps_of bind]. rewrite Hv. reflexivity.
  Qed.

  (* the other samples of a group *)
  Lemma hist_step_other st s sfx h0 :
    om_hsample_ok s -> s_name s = n ++ sfx -> sfx = OM_count \/ sfx = OM_sum \/ sfx = OM_created ->
    same_route st (hkey s) h0 ->
    hist_step n st (ps s)
    = Ok {| hs_group := Some (hgd s); hs_ts := None;
            hs_hv := Some {| hv_count := if str_eqb sfx OM_count then Some (val_of s) else hv_count h0;
                             hv_bucket := hv_bucket h0; hv_negb := hv_negb h0;
                             hv_sum := if str_eqb sfx OM_sum then true else hv_sum h0;
                             hv_gsum := hv_gsum h0; hv_neggsum := hv_neggsum h0; hv_value := hv_value h0 |} |}.
  Proof.
    intros Hs Hn Hsfx (gd0 & Hg & Hk & Hts & Hhv). unfold om_check_hist_step.
    rewrite (hsample_gfs OM_histogram s Hs (or_introl eq_refl)). cbn [bind os_name os_ts os_labels os_value g_ps_of].
    rewrite (hsample_ts s Hs). rewrite Hn, skipn_app, skipn_all, Nat.sub_diag. cbn [skipn app].
    rewrite Hg, Hts, (optdict_same _ _ Hk), Hhv.
    destruct Hsfx as [->|[->| ->]]; destruct h0; reflexivity.
  Qed.

  (* a run of buckets inside a group *)
  Lemma run_buckets l : forall st k pb pv nb rest,
    same_route st k (HV None pb nb false pv) ->
    Forall (fun s => om_hsample_ok s /\ s_name s = n ++ OM_bucket /\ hkey s = k) l ->
    bchain pb pv l ->
    exists st', hist_run n st (map ps l ++ rest) = hist_run n st' rest /\
                same_route st' k (HV None (lastb pb l) (negf nb l) false (lastv pv l)).
  Proof.
    induction l as [|s l IH]; intros st k pb pv nb rest Hst Hall Hch.
    - exists st. split; [reflexivity|exact Hst].
    - inversion Hall as [|? ? (Hs & Hn & Hk) Hall']; subst. cbn [bchain] in Hch.
      destruct (bound_of s) as [b|] eqn:Eb; [|destruct Hch]. destruct Hch as (Hbk & Hv & Hch).
      cbn [map app om_check_hist_run].
      rewrite (hist_step_bucket st s (HV None pb nb false pv) b Hs Hn Eb (or_introl Hst) Hbk Hv). cbn [bind].
      cbn [HV hv_count hv_bucket hv_negb hv_sum hv_gsum hv_neggsum hv_value].
      match goal with |- exists st', hist_run n ?s1 _ = _ /\ _ =>
        destruct (IH s1 (hkey s) (Some b) (val_of s) (if num_lt b num_zero then true else nb) rest) as (st' & Hrun & Hst'); auto end.
      { exists (hgd s). repeat split; reflexivity. }
      exists st'. split; [exact Hrun|]. unfold lastb, lastv, negf in *. cbn [fold_left]. rewrite Eb. exact Hst'.
  Qed.

  (* one group: buckets, then optionally _count and _sum, then optionally _created *)
  Definition hgroup_ok (grp : list sample) : Prop :=
    exists k bks cs cr, grp = bks ++ cs ++ cr /\
      Forall (fun s => om_hsample_ok s /\ hkey s = k) grp /\
      bks <> [] /\ Forall (fun s => s_name s = n ++ OM_bucket) bks /\ bchain None num_zero bks /\
      (exists b, lastb None bks = Some b /\ num_eqb b num_inf = true) /\
      (cs = [] \/ exists c sm, cs = [c; sm] /\ s_name c = n ++ OM_count /\ s_name sm = n ++ OM_sum /\
                               num_eqb (lastv num_zero bks) (val_of c) = true /\ negf false bks = false) /\
      (cr = [] \/ exists r, cr = [r] /\ s_name r = n ++ OM_created).

  Definition hgroup_key (grp : list sample) : list (str * str) := match grp with s :: _ => hkey s | [] => [] end.

  Lemma run_hgroup grp st rest :
    hgroup_ok grp -> new_route st (hgroup_key grp) ->
    exists st' h, hist_run n st (map ps grp ++ rest) = hist_run n st' rest /\
                  same_route st' (hgroup_key grp) h /\ do_checks (Some h) = Ok tt.
  Proof.
    intros (k & bks & cs & cr & Eg & Hall & Hne & Hbn & Hch & (bl & Hbl & Hinf) & Hcs & Hcr) Hnew.
    destruct bks as [|s0 bks]; [congruence|].
    assert (Hk0 : hgroup_key grp = k).
    { rewrite Eg. cbn [app hgroup_key]. rewrite Eg in Hall. inversion Hall as [|? ? [_ H] _]. exact H. }
    rewrite Hk0 in *. clear Hk0. rewrite Eg in *. clear Eg.
    apply Forall_app in Hall as [Hb Hrest]. apply Forall_app in Hrest as [Hcsa Hcra].
    inversion Hb as [|? ? [Hs0 Hks0] Hb']; subst. inversion Hbn as [|? ? Hn0 Hbn']; subst.
    cbn [bchain] in Hch. destruct (bound_of s0) as [b0|] eqn:Eb0; [|destruct Hch]. destruct Hch as (_ & Hv0 & Hch).
    rewrite !map_app, <- !app_assoc. cbn [map app om_check_hist_run].
    rewrite (hist_step_bucket st s0 (om_hv_init NUM num_zero) b0 Hs0 Hn0 Eb0 (or_intror (conj Hnew eq_refl)) I Hv0).
    cbn [bind om_hv_init hv_count hv_bucket hv_negb hv_sum hv_gsum hv_neggsum hv_value].
    set (st1 := {| hs_group := Some (hgd s0); hs_ts := None; hs_hv := _ |}).
    assert (Hst1 : same_route st1 (hkey s0) (HV None (Some b0) (if num_lt b0 num_zero then true else false) false (val_of s0)))
      by (exists (hgd s0); repeat split; reflexivity).
    destruct (run_buckets bks st1 (hkey s0) (Some b0) (val_of s0) _ (map ps cs ++ map ps cr ++ rest) Hst1) as (st2 & Hrun2 & Hst2); auto.
    { rewrite Forall_forall in *. intros s Hs. destruct (Hb' s Hs) as [H1 H2]. auto. }
    rewrite Hrun2.
    assert (Elb : lastb (Some b0) bks = Some bl) by (unfold lastb in *; cbn [fold_left] in Hbl; rewrite Eb0 in Hbl; exact Hbl).
    assert (Elv : lastv (val_of s0) bks = lastv num_zero (s0 :: bks)) by reflexivity.
    assert (Enf : negf (if num_lt b0 num_zero then true else false) bks = negf false (s0 :: bks))
      by (unfold negf; cbn [fold_left]; rewrite Eb0; reflexivity).
    rewrite Elb in Hst2.
    (* _count and _sum *)
    assert (Hcs' : exists st3 c sm, hist_run n st2 (map ps cs ++ map ps cr ++ rest) = hist_run n st3 (map ps cr ++ rest) /\
               same_route st3 (hkey s0) (HV c (Some bl) (negf (if num_lt b0 num_zero then true else false) bks) sm (lastv (val_of s0) bks)) /\
               do_checks (Some (HV c (Some bl) (negf (if num_lt b0 num_zero then true else false) bks) sm (lastv (val_of s0) bks))) = Ok tt).
    { destruct Hcs as [->|(c & sm & -> & Hnc & Hnsm & Hceq & Hneg)].
      - exists st2, None, false. split; [reflexivity|]. split; [exact Hst2|].
        unfold om_do_checks, HV. cbn [hv_bucket hv_count hv_sum hv_gsum hv_negb hv_neggsum hv_value]. rewrite Hinf.
        cbn [negb andb orb]. rewrite !andb_false_r. reflexivity.
      - inversion Hcsa as [|? ? [Hc Hkc] Hcsa']; subst. inversion Hcsa' as [|? ? [Hsm Hksm] _]; subst.
        cbn [map app om_check_hist_run].
        rewrite <- Hkc in Hst2.
        rewrite (hist_step_other st2 c OM_count _ Hc Hnc (or_introl eq_refl) Hst2). cbn [bind].
        change (str_eqb OM_count OM_count) with true. change (str_eqb OM_count OM_sum) with false. cbv iota.
        cbn [HV hv_count hv_bucket hv_negb hv_sum hv_gsum hv_neggsum hv_value].
        set (st3 := {| hs_group := Some (hgd c); hs_ts := None; hs_hv := _ |}).
        assert (Hst3 : same_route st3 (hkey sm) (HV (Some (val_of c)) (Some bl) (negf (if num_lt b0 num_zero then true else false) bks)
                                                   false (lastv (val_of s0) bks))).
        { exists (hgd c). split; [reflexivity|]. split; [fold (hkey c); congruence|]. split; reflexivity. }
        rewrite (hist_step_other st3 sm OM_sum _ Hsm Hnsm (or_intror (or_introl eq_refl)) Hst3). cbn [bind].
        change (str_eqb OM_sum OM_count) with false. change (str_eqb OM_sum OM_sum) with true. cbv iota.
        cbn [HV hv_count hv_bucket hv_negb hv_sum hv_gsum hv_neggsum hv_value].
        eexists _, (Some (val_of c)), true. split; [reflexivity|]. split.
        + exists (hgd sm). split; [reflexivity|]. split; [fold (hkey sm); congruence|]. split; reflexivity.
        + unfold om_do_checks, HV. cbn [hv_bucket hv_count hv_sum hv_gsum hv_negb hv_neggsum hv_value]. rewrite Hinf.
          rewrite Elv, Hceq, Enf, Hneg. reflexivity. }
    destruct Hcs' as (st3 & c & sm & Hrun3 & Hst3 & Hdc3). rewrite Hrun3.
    (* _created *)
    destruct Hcr as [->|(r & -> & Hnr)].
    - exists st3. eexists. split; [reflexivity|]. split; [exact Hst3|exact Hdc3].
    - inversion Hcra as [|? ? [Hr Hkr] _]; subst. cbn [map app om_check_hist_run].
      rewrite <- Hkr in Hst3.
      rewrite (hist_step_other st3 r OM_created _ Hr Hnr (or_intror (or_intror eq_refl)) Hst3). cbn [bind].
      change (str_eqb OM_created OM_count) with false. change (str_eqb OM_created OM_sum) with false. cbv iota.
      cbn [HV hv_count hv_bucket hv_negb hv_sum hv_gsum hv_neggsum hv_value].
      eexists. eexists. split; [reflexivity|]. split.
      + exists (hgd r). split; [reflexivity|]. split; [fold (hkey r); congruence|]. split; reflexivity.
      + exact Hdc3.
  Qed.

  Lemma run_hgroups groups : forall st,
    Forall hgroup_ok groups -> NoDup (map hgroup_key groups) ->
    hs_ts st = None ->
    (hs_group st = None \/ exists gd0 h, hs_group st = Some gd0 /\ hs_hv st = Some h /\ do_checks (Some h) = Ok tt /\
                                         ~ In (sort_kv gd0) (map hgroup_key groups)) ->
    exists st', hist_run n st (map ps (concat groups)) = Ok st' /\
                (hs_group st' = None \/ exists h, hs_hv st' = Some h /\ do_checks (Some h) = Ok tt).
  Proof.
    induction groups as [|grp groups IH]; intros st Hok Hnd Hts Hst.
    - exists st. split; [reflexivity|]. destruct Hst as [H|(gd0 & h & _ & Hh & Hd & _)]; [left; exact H|right; eauto].
    - inversion Hok as [|? ? Hg Hoks]; subst. inversion Hnd as [|? ? Hnin Hnd']; subst.
      cbn [concat]. rewrite map_app.
      destruct (run_hgroup grp st (map ps (concat groups)) Hg) as (st1 & h1 & Hrun & (gd1 & Hg1 & Hk1 & Hts1 & Hhv1) & Hdc).
      { split; [exact Hts|]. destruct Hst as [H|(gd0 & h & Hg0 & Hh & Hd & Hni)]; [left; exact H|right].
        exists gd0. split; [exact Hg0|]. split; [|rewrite Hh; exact Hd]. intro E. apply Hni. left. symmetry. exact E. }
      rewrite Hrun. apply IH; auto. right. exists gd1, h1. repeat split; auto. rewrite Hk1. exact Hnin.
  Qed.

  Theorem check_hist_groups groups :
    Forall hgroup_ok groups -> NoDup (map hgroup_key groups) ->
    check_hist (map ps (concat groups)) n = Ok tt.
  Proof.
    intros Hok Hnd. unfold om_check_histogram.
    destruct (run_hgroups groups {| hs_group := None; hs_ts := None; hs_hv := None |} Hok Hnd eq_refl (or_introl eq_refl))
      as (st' & Hrun & Hst'). rewrite Hrun. cbn [bind].
    destruct Hst' as [->|(h & Hh & Hd)]; [reflexivity|]. rewrite Hh. destruct (hs_group st'); [exact Hd|reflexivity].
  Qed.

  (* ---------- the family ---------- *)
  Definition histogram_family_wf (f : family) : Prop :=
    f_name f = n /\ n <> [] /\ f_type f = Expo.S_histogram /\
    (f_unit f = [] \/ ends_with (USCORE :: f_unit f) n = true) /\
    exists groups, f_samples f = concat groups /\ Forall hgroup_ok groups /\ NoDup (map hgroup_key groups) /\
                   Forall (fun grp => NoDup (map sid_of grp)) groups.

  Lemma hgroup_samples grp : hgroup_ok grp -> Forall om_hsample_ok grp /\ grp <> [] /\ Forall (fun s => hkey s = hgroup_key grp) grp.
  Proof.
    intros (k & bks & cs & cr & Eg & Hall & Hne & _). split; [eapply Forall_impl; [|exact Hall]; intros s [H _]; exact H|].
    assert (Hk : hgroup_key grp = k).
    { rewrite Eg. destruct bks as [|s0 bks]; [congruence|]. cbn [app hgroup_key]. rewrite Eg in Hall.
      inversion Hall as [|? ? [_ H] _]. exact H. }
    split; [rewrite Eg; destruct bks; [congruence|discriminate]|].
    rewrite Hk. eapply Forall_impl; [|exact Hall]. intros s [_ H]. exact H.
  Qed.

  Theorem histogram_family_acc f : histogram_family_wf f -> f_acc f.
  Proof.
    intros (Hfn & Hne & Hty & Hun & groups & Es & Hok & Hnd & Hsids). unfold family_acc. rewrite Hfn, Hty.
    assert (Hall : Forall om_hsample_ok (f_samples f)).
    { rewrite Es. apply Forall_concat. eapply Forall_impl; [|exact Hok]. intros grp Hg. apply (hgroup_samples grp Hg). }
    split; [exact Hne|]. split; [reflexivity|]. split.
    { unfold unit_ok. rewrite Hfn, Hty. destruct Hun as [Hun|Hun]; [left; exact Hun|right]. repeat split; auto. }
    split; [eapply Forall_impl; [|exact Hall]; apply hsample_acc|].
    split.
    - rewrite Es.
      apply (grun_groups fix_tsmix NUM num_lt num_eqb ts_float val_of ts_of ex_of Expo.S_histogram n hkey groups).
      + rewrite <- Es. eapply Forall_impl; [|exact Hall]. intros s Hs. split; [apply hsample_key; exact Hs|apply hsample_ts; exact Hs].
      + rewrite Forall_forall in *. intros grp Hg. destruct (hgroup_samples grp (Hok grp Hg)) as (_ & Hne' & Hk).
        split; [exact Hne'|]. split; [|apply Hsids; exact Hg].
        destruct grp as [|s0 r0]; [congruence|]. exact Hk.
      + assert (E : map (grp_key hkey) groups = map hgroup_key groups) by (apply map_ext; intros [|? ?]; reflexivity).
        rewrite E. exact Hnd.
    - intros _. rewrite Es. apply check_hist_groups; assumption.
  Qed.

  (* C04 L5, histogram: one classic histogram family and the end marker *)
  Theorem om_histogram_family_roundtrip f text :
    histogram_family_wf f -> om_render true [f] = Ok text -> p_text text = Ok [gfam_of NUM val_of ts_of ex_of f].
  Proof.
    intros Hf Hr.
    apply (om_document_roundtrip fix_nhkeys fix_nhsfx fix_tsmix fix_isnan fix_tsexp fix_sname NUM parse_num parse_float parse_int
             num_lt num_eqb num_isinf num_integral num_huge num_zero num_one num_inf ts_float is_word is_space_re is_digit_re
             val_of ts_of ex_of [f] text); [|repeat constructor|exact Hr].
    constructor; [apply histogram_family_acc; exact Hf|constructor].
  Qed.
End Histogram.
