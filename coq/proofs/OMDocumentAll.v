(* C04 L5: documents over ALL eight metric types: family_wf of OMDocumentRoundTrip.v (gauge, counter, summary, info, stateset,
   histogram) extended by unknown and gaugehistogram. *)
From V Require Import lib.PyBase lib.Tac lib.PyStr model.Utils model.Validation model.Expo model.TextParser model.OMParser
  proofs.LabelRoundTrip proofs.OMSampleRoundTrip proofs.OMDocRoundTrip proofs.OMCounterRoundTrip proofs.OMFamilyRoundTrip
  proofs.OMGroupingFacts proofs.OMSummaryRoundTrip proofs.OMGaugeCounterInst proofs.OMInfoStateRoundTrip proofs.OMHistogramRoundTrip
  proofs.OMDocumentRoundTrip proofs.OMUnknownRoundTrip proofs.OMGaugeHistogramRoundTrip.
From Coq Require Import Permutation.
Open Scope N_scope.

Section DocumentAll.
  Variable fix_nhkeys fix_nhsfx fix_tsmix fix_isnan fix_tsexp fix_sname : bool.
  Variable NUM : Type.
  Variable parse_num parse_float : str -> option NUM.
  Variable parse_int : str -> option Z.
  Variable num_lt num_eqb : NUM -> NUM -> bool.
  Variable num_isinf num_integral num_huge : NUM -> bool.
  Variable num_zero num_one num_inf : NUM.
  Variable ts_float : Z -> Z -> option NUM.
  Variable is_word is_space_re is_digit_re : char -> bool.
  Variable val_of : sample -> NUM.
  Variable ts_of : sample -> option (om_tsv NUM).
  Variable ex_of : sample -> option (om_exemplar NUM).

  Notation p_text := (om_parse false true fix_nhkeys fix_nhsfx fix_tsmix fix_isnan true true fix_tsexp fix_sname NUM
                      parse_num parse_float parse_int num_lt num_eqb num_isinf num_integral num_huge num_zero num_one num_inf
                      ts_float is_word is_space_re is_digit_re).

  Definition family_wf_all (f : family) : Prop :=
    family_wf fix_isnan fix_tsexp NUM parse_num parse_float parse_int num_lt num_eqb num_isinf num_integral num_huge
      num_zero num_one num_inf val_of ts_of ex_of f
    \/ unknown_family_wf fix_tsexp NUM parse_num parse_float parse_int num_eqb num_isinf val_of ts_of ex_of (f_name f) f
    \/ gaugehistogram_family_wf fix_isnan fix_tsexp NUM parse_num parse_float parse_int num_lt num_eqb num_isinf num_integral
         num_huge num_zero num_inf val_of ts_of ex_of (f_name f) f.

  Theorem family_wf_all_acc f : family_wf_all f ->
    family_acc fix_nhkeys fix_nhsfx fix_tsmix fix_isnan fix_tsexp NUM parse_num parse_float parse_int num_lt
      num_eqb num_isinf num_integral num_huge num_zero num_one num_inf ts_float is_word is_space_re is_digit_re
      val_of ts_of ex_of f.
  Proof.
    intros [H|[H|H]].
    - eapply family_wf_acc; exact H.
    - eapply unknown_family_acc; exact H.
    - eapply gaugehistogram_family_acc; exact H.
  Qed.

  Theorem om_document_roundtrip_all fams text :
    Forall family_wf_all fams -> ForallOrdPairs names_apart fams ->
    om_render true fams = Ok text ->
    p_text text = Ok (map (gfam_of NUM val_of ts_of ex_of) fams).
  Proof.
    intros Hwf Hap Hr.
    apply (om_document_roundtrip fix_nhkeys fix_nhsfx fix_tsmix fix_isnan fix_tsexp fix_sname NUM parse_num parse_float parse_int
             num_lt num_eqb num_isinf num_integral num_huge num_zero num_one num_inf ts_float is_word is_space_re is_digit_re
             val_of ts_of ex_of fams text); [|exact Hap|exact Hr].
    eapply Forall_impl; [|exact Hwf]. apply family_wf_all_acc.
  Qed.

  Corollary om_unknown_family_roundtrip n f text :
    unknown_family_wf fix_tsexp NUM parse_num parse_float parse_int num_eqb num_isinf val_of ts_of ex_of n f ->
    om_render true [f] = Ok text -> p_text text = Ok [gfam_of NUM val_of ts_of ex_of f].
  Proof.
    intros Hf Hr. apply (om_document_roundtrip_all [f] text); [|repeat constructor|exact Hr].
    constructor; [|constructor]. right. left. destruct Hf as (Hn & Hrest). rewrite Hn. split; [exact Hn|exact Hrest].
  Qed.

  Corollary om_gaugehistogram_family_roundtrip n f text :
    gaugehistogram_family_wf fix_isnan fix_tsexp NUM parse_num parse_float parse_int num_lt num_eqb num_isinf num_integral
      num_huge num_zero num_inf val_of ts_of ex_of n f ->
    om_render true [f] = Ok text -> p_text text = Ok [gfam_of NUM val_of ts_of ex_of f].
  Proof.
    intros Hf Hr. apply (om_document_roundtrip_all [f] text); [|repeat constructor|exact Hr].
    constructor; [|constructor]. right. right. destruct Hf as (Hn & Hrest). rewrite Hn. split; [exact Hn|exact Hrest].
  Qed.
End DocumentAll.
