(* Non-vacuity witnesses for the unknown and gaugehistogram family theorems and for C04_L5_document_roundtrip_all, with the
   numeric toy oracle of proofs/OMRoundTripWitness2.v. *)
From V Require Import lib.PyBase lib.PyStr model.Utils model.Validation model.Expo model.TextParser model.OMParser
  proofs.LabelRoundTrip proofs.SampleRoundTrip proofs.OMWitness proofs.OMSampleRoundTrip proofs.OMDocRoundTrip
  proofs.OMCounterRoundTrip proofs.OMFamilyRoundTrip proofs.OMGroupingFacts proofs.OMSummaryRoundTrip proofs.OMRoundTripWitness
  proofs.OMGaugeCounterInst proofs.OMInfoStateRoundTrip proofs.OMHistogramRoundTrip proofs.OMDocumentRoundTrip
  proofs.OMRoundTripWitness2 proofs.OMUnknownRoundTrip proofs.OMGaugeHistogramRoundTrip proofs.OMDocumentAll.
From Coq Require Import Permutation.
Open Scope N_scope.

Definition uname : str := hostile_name ++ s2l "u".
Definition hostile_unknown : family :=
  {| f_name := uname; f_doc := [SP; DQ; BS; LF; SP]; f_type := s2l "unknown"; f_unit := [];
     f_samples := [ {| s_name := uname; s_labels := hostile_labels; s_value := FFin true (s2l "1.5"); s_ts_ms := None;
                       s_ts_om := Some (TsNanos 1 500); s_ex := None |};
                    {| s_name := uname; s_labels := []; s_value := FFin false (s2l "-0.5"); s_ts_ms := None;
                       s_ts_om := None; s_ex := None |} ] |}.

Definition ghname : str := hostile_name ++ s2l "gh".
Definition nsample (nm : str) (labels : list (str * str)) (v : string) : sample :=
  {| s_name := nm; s_labels := labels; s_value := FFin false (s2l v); s_ts_ms := None; s_ts_om := None; s_ex := None |}.
Definition gb1 := msample (ghname ++ s2l "_bucket") ((s2l "le", s2l "-1.0") :: hostile_labels) "1.0" (Some hostile_ex).
Definition gb2 := msample (ghname ++ s2l "_bucket") ((s2l "le", s2l "0.5") :: hostile_labels) "3.0" None.
Definition gb3 := msample (ghname ++ s2l "_bucket") ((s2l "le", s2l "+Inf") :: hostile_labels) "4.0" None.
Definition ggc := msample (ghname ++ s2l "_gcount") hostile_labels "4.0" None.
Definition ggs := nsample (ghname ++ s2l "_gsum") hostile_labels "-2.5".
Definition gb0 := msample (ghname ++ s2l "_bucket") [(s2l "le", s2l "+Inf")] "0.0" None.
Definition ghgroups : list (list sample) := [[gb1; gb2; gb3; ggc; ggs]; [gb0]].
Definition hostile_gaugehistogram : family :=
  {| f_name := ghname; f_doc := s2l "d"; f_type := s2l "gaugehistogram"; f_unit := []; f_samples := concat ghgroups |}.

Definition all8_doc : list family := all_doc ++ [hostile_unknown; hostile_gaugehistogram].
Definition all8_text : str := match om_render true all8_doc with Ok t => t | Err _ => [] end.

Notation GHS_OK fix_isnan fix_tsexp :=
  (om_ghsample_ok fix_isnan fix_tsexp Z milli_num milli_num toy_int Z.ltb Z.eqb (fun z => (Z.abs z =? MILLI_INF)%Z)
     (fun z => (z mod 1000 =? 0)%Z) (fun _ => false) 0%Z MILLI_INF milli_val toy_ts toy_ex ghname).

Lemma hostile_unknown_wf fix_tsexp :
  unknown_family_wf fix_tsexp Z milli_num milli_num toy_int Z.eqb (fun z => (Z.abs z =? MILLI_INF)%Z) milli_val toy_ts toy_ex
    uname hostile_unknown.
Proof.
  split; [reflexivity|]. split; [discriminate|]. split; [reflexivity|]. split; [left; reflexivity|]. split.
  - constructor; [|constructor; [|constructor]].
    + split; [|split; reflexivity].
      split; [repeat constructor|]. split; [vm_compute; repeat (constructor; [cbn [In]; intuition discriminate|]); constructor|].
      split; [apply om_token_okb_ok; vm_compute; reflexivity|]. split; [vm_compute; reflexivity|]. split; [|reflexivity].
      split; [apply om_token_okb_ok; vm_compute; reflexivity|]. eexists. split; [|reflexivity].
      destruct fix_tsexp; vm_compute; reflexivity.
    + split; [read_ok_plain|split; reflexivity].
  - repeat constructor. intro P. apply Permutation_length in P. discriminate.
Qed.

Lemma hostile_gaugehistogram_wf fix_isnan fix_tsexp :
  gaugehistogram_family_wf fix_isnan fix_tsexp Z milli_num milli_num toy_int Z.ltb Z.eqb (fun z => (Z.abs z =? MILLI_INF)%Z)
    (fun z => (z mod 1000 =? 0)%Z) (fun _ => false) 0%Z MILLI_INF milli_val toy_ts toy_ex ghname hostile_gaugehistogram.
Proof.
  split; [reflexivity|]. split; [discriminate|]. split; [reflexivity|]. split; [left; reflexivity|].
  exists ghgroups. split; [reflexivity|].
  assert (Hb1 : GHS_OK fix_isnan fix_tsexp gb1).
  { split; [read_ok_ex fix_tsexp|]. split; [reflexivity|]. left. split; [reflexivity|]. split.
    - exists (s2l "-1.0"), (-1000)%Z. repeat split; try reflexivity. left. reflexivity.
    - repeat split; try reflexivity. right. reflexivity. }
  assert (Hb2 : GHS_OK fix_isnan fix_tsexp gb2).
  { split; [read_ok_plain|]. split; [reflexivity|]. left. split; [reflexivity|]. split.
    - exists (s2l "0.5"), 500%Z. repeat split; try reflexivity. left. reflexivity.
    - repeat split; try reflexivity. right. reflexivity. }
  assert (Hb3 : GHS_OK fix_isnan fix_tsexp gb3).
  { split; [read_ok_plain|]. split; [reflexivity|]. left. split; [reflexivity|]. split.
    - exists (s2l "+Inf"), MILLI_INF. repeat split; try reflexivity. left. reflexivity.
    - repeat split; try reflexivity. right. reflexivity. }
  assert (Hgc : GHS_OK fix_isnan fix_tsexp ggc).
  { split; [read_ok_plain|]. split; [reflexivity|]. right. left. repeat split; try reflexivity. right. reflexivity. }
  assert (Hgs : GHS_OK fix_isnan fix_tsexp ggs).
  { split; [read_ok_plain|]. split; [reflexivity|]. right. right. repeat split; try reflexivity. right. reflexivity. }
  assert (Hb0 : GHS_OK fix_isnan fix_tsexp gb0).
  { split; [read_ok_plain|]. split; [reflexivity|]. left. split; [reflexivity|]. split.
    - exists (s2l "+Inf"), MILLI_INF. repeat split; try reflexivity. left. reflexivity.
    - repeat split; try reflexivity. right. reflexivity. }
  split; [|split].
  - constructor; [|constructor; [|constructor]].
    + exists (hkey ghname gb1), [gb1; gb2; gb3], [ggc; ggs]. split; [reflexivity|].
      split; [repeat (constructor; [split; [assumption|vm_compute; reflexivity]|]); constructor|].
      split; [discriminate|]. split; [repeat constructor|]. split; [vm_compute; intuition|].
      split; [exists MILLI_INF; split; vm_compute; reflexivity|].
      right. exists ggc, ggs. repeat split; try (vm_compute; reflexivity).
    + exists (hkey ghname gb0), [gb0], []. split; [reflexivity|].
      split; [repeat (constructor; [split; [assumption|vm_compute; reflexivity]|]); constructor|].
      split; [discriminate|]. split; [repeat constructor|]. split; [vm_compute; intuition|].
      split; [exists MILLI_INF; split; vm_compute; reflexivity|].
      left. reflexivity.
  - vm_compute. repeat (constructor; [cbn [In]; intuition discriminate|]). constructor.
  - constructor; [|constructor; [|constructor]]; vm_compute; repeat (constructor; [cbn [In]; intuition discriminate|]); constructor.
Qed.

Lemma all8_doc_hyps fix_isnan fix_tsexp :
  Forall (family_wf_all fix_isnan fix_tsexp Z milli_num milli_num toy_int Z.ltb Z.eqb (fun z => (Z.abs z =? MILLI_INF)%Z)
            (fun z => (z mod 1000 =? 0)%Z) (fun _ => false) 0%Z 1000%Z MILLI_INF milli_val toy_ts toy_ex) all8_doc
  /\ ForallOrdPairs names_apart all8_doc
  /\ om_render true all8_doc = Ok all8_text.
Proof.
  split; [|split; [|vm_compute; reflexivity]].
  - unfold all8_doc. apply Forall_app. split.
    + eapply Forall_impl; [|apply (all_doc_hyps fix_isnan fix_tsexp)]. intros f H. left. exact H.
    + constructor; [right; left; apply hostile_unknown_wf|]. constructor; [right; right; apply hostile_gaugehistogram_wf|constructor].
  - unfold all8_doc, all_doc, mixed_doc, info_state_doc. cbn [app].
    repeat (constructor; [repeat (constructor; [names_apart_tac|]); constructor|]). constructor.
Qed.

Lemma all8_doc_reads fix_tsexp fix_sname :
  toy_text2 fix_tsexp fix_sname all8_text = Ok (map (gfam_of Z milli_val toy_ts toy_ex) all8_doc).
Proof. destruct fix_tsexp, fix_sname; vm_compute; reflexivity. Qed.
