(* C17: lemmas about the model of the HTTP front-ends (model/Http.v) against model/HttpSpec.v. *)
From V Require Import lib.PyBase lib.Tac model.Http model.HttpSpec.
Ltac Zify.zify_post_hook ::= Z.to_euclidean_division_equations.
Open Scope N_scope.

(* ================================================================ h_split *)
Lemma h_split_nonempty c s : h_split c s <> [].
Proof.
  destruct s as [|x r]; cbn [h_split]; [discriminate|].
  destruct (x =? c); [discriminate|]. destruct (h_split c r); discriminate.
Qed.

Lemma h_split_no c e : ~ In c e -> h_split c e = [e].
Proof.
  induction e as [|x e IH]; intro H; cbn [h_split]; [reflexivity|].
  destruct (N.eqb_spec x c) as [->|Hne]; [exfalso; apply H; left; reflexivity|].
  rewrite IH; [reflexivity|]. intro Hin. apply H. right. exact Hin.
Qed.

Lemma h_split_app c a b : h_split c (a ++ c :: b) = h_split c a ++ h_split c b.
Proof.
  induction a as [|x a IH]; cbn [app h_split].
  - rewrite N.eqb_refl. reflexivity.
  - destruct (x =? c); [rewrite IH; reflexivity|].
    rewrite IH. destruct (h_split c a) as [|h t] eqn:E; [exfalso; exact (h_split_nonempty c a E)|].
    reflexivity.
Qed.

Lemma h_split_first c p r : ~ In c p -> h_split c (p ++ c :: r) = p :: h_split c r.
Proof. intro H. rewrite h_split_app, (h_split_no c p H). reflexivity. Qed.

(* first occurrence of the separator *)
Lemma first_occurrence (c : char) (s : str) :
  ~ In c s \/ exists p r : str, s = p ++ c :: r /\ ~ In c p.
Proof.
  induction s as [|x s IH]; [left; intros []|].
  destruct (N.eq_dec x c) as [->|Hne].
  - right. exists [], s. split; [reflexivity|intros []].
  - destruct IH as [Hno|(p & r & -> & Hp)].
    + left. intros [Hx|Hi]; [congruence|exact (Hno Hi)].
    + right. exists (x :: p), r. split; [reflexivity|].
      intros [Hx|Hi]; [congruence|exact (Hp Hi)].
Qed.

Definition segment_of (c : char) (s e : str) : Prop :=
  exists l r : str, s = l ++ e ++ r /\ ~ In c e
    /\ (l = [] \/ exists l', l = l' ++ [c]) /\ (r = [] \/ exists r', r = c :: r').

Lemma h_split_In_fwd_len c n : forall s e, (length s <= n)%nat -> In e (h_split c s) -> segment_of c s e.
Proof.
  induction n as [|n IH]; intros s e Hlen Hin.
  - destruct s; [|cbn [length] in Hlen; lia].
    cbn [h_split] in Hin. destruct Hin as [<-|[]].
    exists [], []. repeat split; auto; intros [].
  - destruct (first_occurrence c s) as [Hno|(p & r & -> & Hp)].
    + rewrite (h_split_no c s Hno) in Hin. destruct Hin as [<-|[]].
      exists [], []. rewrite app_nil_r. repeat split; auto.
    + rewrite (h_split_first c p r Hp) in Hin. destruct Hin as [<-|Hin].
      * exists [], (c :: r). repeat split; auto. right. exists r. reflexivity.
      * assert (Hl : (length r <= n)%nat).
        { rewrite app_length in Hlen. cbn [length] in Hlen. lia. }
        destruct (IH r e Hl Hin) as (l & r2 & -> & Hc & Hl2 & Hr2).
        exists (p ++ c :: l), r2. repeat split; auto.
        -- rewrite <- app_assoc. reflexivity.
        -- right. destruct Hl2 as [->|(l' & ->)].
           ++ exists p. reflexivity.
           ++ exists (p ++ c :: l'). rewrite <- app_assoc. reflexivity.
Qed.

Lemma h_split_In c s e : In e (h_split c s) <-> segment_of c s e.
Proof.
  split.
  - apply (h_split_In_fwd_len c (length s)). lia.
  - intros (l & r & -> & Hc & Hl & Hr).
    assert (Hhead : In e (h_split c (e ++ r))).
    { destruct Hr as [->|(r' & ->)].
      - rewrite app_nil_r, (h_split_no c e Hc). left. reflexivity.
      - rewrite (h_split_first c e r' Hc). left. reflexivity. }
    destruct Hl as [->|(l' & ->)]; [exact Hhead|].
    rewrite <- app_assoc. cbn [app]. rewrite h_split_app. apply in_or_app. right. exact Hhead.
Qed.

(* ================================================================ h_before *)
Lemma h_before_iff c s p :
  h_before c s = p <-> exists rest, s = p ++ rest /\ ~ In c p /\ (rest = [] \/ exists r, rest = c :: r).
Proof.
  unfold h_before. split.
  - intros <-. destruct (first_occurrence c s) as [Hno|(p & r & -> & Hp)].
    + rewrite (h_split_no c s Hno). cbn [hd]. exists []. rewrite app_nil_r. auto.
    + rewrite (h_split_first c p r Hp). cbn [hd]. exists (c :: r). repeat split; auto.
      right. exists r. reflexivity.
  - intros (rest & -> & Hp & [->|(r & ->)]).
    + rewrite app_nil_r, (h_split_no c p Hp). reflexivity.
    + rewrite (h_split_first c p r Hp). reflexivity.
Qed.

(* ================================================================ h_strip *)
Lemma all_space_nil : all_space [].
Proof. intros x []. Qed.

Lemma all_space_cons x w : h_isspace x = true -> all_space w -> all_space (x :: w).
Proof. intros Hx Hw y [<-|Hy]; auto. Qed.

Lemma all_space_rev w : all_space w -> all_space (rev w).
Proof. intros H x Hx. apply H. apply in_rev. exact Hx. Qed.

Lemma h_lstrip_space w m : all_space w -> h_lstrip (w ++ m) = h_lstrip m.
Proof.
  induction w as [|x w IH]; intro H; [reflexivity|].
  cbn [app h_lstrip]. rewrite (H x (or_introl eq_refl)). apply IH.
  intros y Hy. apply H. right. exact Hy.
Qed.

Lemma h_lstrip_stop x r : h_isspace x = false -> h_lstrip (x :: r) = x :: r.
Proof. intro H. cbn [h_lstrip]. rewrite H. reflexivity. Qed.

Lemma h_lstrip_decomp s :
  exists w, s = w ++ h_lstrip s /\ all_space w
    /\ (h_lstrip s = [] \/ exists x r, h_lstrip s = x :: r /\ h_isspace x = false).
Proof.
  induction s as [|x s IH].
  - exists []. repeat split; auto using all_space_nil.
  - cbn [h_lstrip]. destruct (h_isspace x) eqn:Hx.
    + destruct IH as (w & Hs & Hw & Hd). exists (x :: w). repeat split; auto using all_space_cons.
      cbn [app]. rewrite <- Hs. reflexivity.
    + exists []. repeat split; auto using all_space_nil. right. exists x, s. auto.
Qed.

Lemma h_strip_of_decomp w1 t w2 :
  all_space w1 -> all_space w2 -> trimmed t -> h_strip (w1 ++ t ++ w2) = t.
Proof.
  intros H1 H2 Ht. unfold h_strip. rewrite (h_lstrip_space w1 _ H1).
  destruct Ht as [->|((x & r & Ex & Hx) & (r' & y & Ey & Hy))].
  - cbn [app]. replace (h_lstrip w2) with (@nil N).
    + reflexivity.
    + rewrite <- (app_nil_r w2) at 1. rewrite (h_lstrip_space w2 [] H2). reflexivity.
  - assert (E1 : h_lstrip (t ++ w2) = t ++ w2).
    { rewrite Ex. cbn [app]. apply h_lstrip_stop. exact Hx. }
    rewrite E1, rev_app_distr, (h_lstrip_space (rev w2) _ (all_space_rev _ H2)).
    rewrite Ey, rev_app_distr. cbn [rev app]. rewrite (h_lstrip_stop y (rev r') Hy).
    cbn [rev]. rewrite rev_involutive. reflexivity.
Qed.

Lemma h_strip_aux (m k w2 : str) :
  rev m = w2 ++ k ->
  (m = [] \/ exists x r, m = x :: r /\ h_isspace x = false) ->
  (k = [] \/ exists y r, k = y :: r /\ h_isspace y = false) ->
  m = rev k ++ rev w2 /\ trimmed (rev k).
Proof.
  intros Hr Hm Hk.
  assert (Em : m = rev k ++ rev w2).
  { rewrite <- (rev_involutive m), Hr, rev_app_distr. reflexivity. }
  split; [exact Em|].
  destruct Hk as [->|(y & r & -> & Hy)]; [left; reflexivity|].
  right. split.
  - destruct Hm as [->|(x & r0 & -> & Hx)].
    + exfalso. cbn [rev] in Em. destruct (rev r); discriminate.
    + cbn [rev] in *. destruct (rev r) as [|z q] eqn:Er.
      * cbn [app] in *. injection Em as Exy _. exists y, []. split; [reflexivity|]. exact Hy.
      * cbn [app] in *. injection Em as Exz _. exists z, (q ++ [y]). split; [reflexivity|]. subst z. exact Hx.
  - exists (rev r), y. cbn [rev]. auto.
Qed.

Lemma h_strip_decomp s :
  exists w1 w2, s = w1 ++ h_strip s ++ w2 /\ all_space w1 /\ all_space w2 /\ trimmed (h_strip s).
Proof.
  unfold h_strip.
  destruct (h_lstrip_decomp s) as (w1 & Hs & Hw1 & Hm).
  destruct (h_lstrip_decomp (rev (h_lstrip s))) as (w2 & Hr & Hw2 & Hk).
  destruct (h_strip_aux _ _ _ Hr Hm Hk) as (Em & Ht).
  exists w1, (rev w2). repeat split; auto using all_space_rev.
  rewrite <- Em. exact Hs.
Qed.

Lemma h_strip_iff s t :
  h_strip s = t <-> exists w1 w2, s = w1 ++ t ++ w2 /\ all_space w1 /\ all_space w2 /\ trimmed t.
Proof.
  split.
  - intros <-. apply h_strip_decomp.
  - intros (w1 & w2 & -> & H1 & H2 & Ht). apply h_strip_of_decomp; assumption.
Qed.

(* ================================================================ tokens *)
Lemma space_not_semi x : h_isspace x = true -> x <> H_SEMI.
Proof. intros H ->. vm_compute in H. discriminate. Qed.

Lemma all_space_no_semi w : all_space w -> ~ In H_SEMI w.
Proof. intros H Hin. exact (space_not_semi _ (H _ Hin) eq_refl). Qed.

Lemma element_token_iff e t : element_token e t <-> h_strip (h_before H_SEMI e) = t.
Proof.
  split.
  - intros (w1 & w2 & rest & -> & H1 & H2 & Hrest & Hsemi & Ht).
    assert (Hb : h_before H_SEMI (w1 ++ t ++ w2 ++ rest) = w1 ++ t ++ w2).
    { apply h_before_iff. exists rest. repeat split.
      - repeat rewrite <- app_assoc. reflexivity.
      - intro Hin. apply in_app_or in Hin as [Hin|Hin]; [exact (all_space_no_semi _ H1 Hin)|].
        apply in_app_or in Hin as [Hin|Hin]; [exact (Hsemi Hin)|exact (all_space_no_semi _ H2 Hin)].
      - exact Hrest. }
    rewrite Hb. apply h_strip_of_decomp; assumption.
  - intro H.
    destruct (proj1 (h_before_iff H_SEMI e (h_before H_SEMI e)) eq_refl) as (rest & He & Hp & Hrest).
    destruct (h_strip_decomp (h_before H_SEMI e)) as (w1 & w2 & Hb & H1 & H2 & Ht).
    rewrite H in Hb, Ht.
    exists w1, w2, rest. repeat split; auto.
    + rewrite He at 1. rewrite Hb. repeat rewrite <- app_assoc. reflexivity.
    + intro Hin. apply Hp. rewrite Hb. apply in_or_app. right. apply in_or_app. left. exact Hin.
Qed.

Lemma list_element_iff h e : list_element h e <-> In e (h_split H_COMMA h).
Proof. symmetry. apply h_split_In. Qed.

Lemma lists_token_iff h (P : str -> Prop) :
  lists_token h P <-> exists e, In e (h_split H_COMMA h) /\ P (h_strip (h_before H_SEMI e)).
Proof.
  unfold lists_token. split.
  - intros (e & t & He & Ht & HP). exists e. split; [apply list_element_iff; exact He|].
    apply element_token_iff in Ht. rewrite Ht. exact HP.
  - intros (e & He & HP). exists e, (h_strip (h_before H_SEMI e)). repeat split; auto.
    + apply list_element_iff. exact He.
    + apply element_token_iff. reflexivity.
Qed.

(* ================================================================ choose_encoder *)
Lemma om_listed_iff h :
  h_om_listed h = true <->
  exists e, In e (h_split H_COMMA (h_or_empty h)) /\ h_strip (h_before H_SEMI e) = H_OM_TYPE.
Proof.
  unfold h_om_listed. rewrite existsb_exists. split; intros (e & He & Ht); exists e; split; auto;
    apply str_eqb_eq; exact Ht.
Qed.

Lemma choose_encoder_fst h : fst (h_choose_encoder h) = HOM <-> h_om_listed h = true.
Proof.
  unfold h_choose_encoder. destruct (h_om_listed h); cbn [fst]; split; intro H; auto; discriminate.
Qed.

Lemma om_iff_lists h :
  fst (h_choose_encoder h) = HOM <-> lists_token (h_or_empty h) (fun t => t = H_OM_TYPE).
Proof. rewrite choose_encoder_fst, om_listed_iff, lists_token_iff. reflexivity. Qed.

Lemma choose_encoder_text h : fst (h_choose_encoder h) = HText <-> h_om_listed h = false.
Proof.
  unfold h_choose_encoder. destruct (h_om_listed h); cbn [fst]; split; intro H; auto; discriminate.
Qed.

Lemma choose_encoder_ct h : snd (h_choose_encoder h) = h_content_type (fst (h_choose_encoder h)).
Proof. unfold h_choose_encoder. destruct (h_om_listed h); reflexivity. Qed.

(* ================================================================ gzip_accepted *)
Section Lower.
  Variable lower : str -> str.
  Hypothesis lower_gzip : forall s, lower s = H_GZIP <-> h_ci_gzip s = true.

  Lemma gzip_accepted_iff h :
    h_gzip_accepted lower h = true <->
    exists e, In e (h_split H_COMMA (h_or_empty h)) /\ h_ci_gzip (h_strip (h_before H_SEMI e)) = true.
  Proof.
    unfold h_gzip_accepted. rewrite existsb_exists. split; intros (e & He & Ht); exists e; split; auto.
    - apply lower_gzip. apply str_eqb_eq. exact Ht.
    - apply str_eqb_eq. apply lower_gzip. exact Ht.
  Qed.

  Lemma gzip_iff_lists h :
    h_gzip_accepted lower h = true <-> lists_token (h_or_empty h) (fun t => h_ci_gzip t = true).
  Proof. rewrite gzip_accepted_iff, lists_token_iff. reflexivity. Qed.
End Lower.

(* the sixteen spellings *)
Lemma ci_gzip_spec s :
  h_ci_gzip s = true <->
  exists a b c d, s = [a; b; c; d] /\ (a = 103 \/ a = 71) /\ (b = 122 \/ b = 90)
    /\ (c = 105 \/ c = 73) /\ (d = 112 \/ d = 80).
Proof.
  split.
  - destruct s as [|a [|b [|c [|d [|? ?]]]]]; cbn [h_ci_gzip]; try discriminate.
    intro H. exists a, b, c, d. split; [reflexivity|]. lia.
  - intros (a & b & c & d & -> & Ha & Hb & Hc & Hd). cbn [h_ci_gzip]. lia.
Qed.

(* ================================================================ join / repeated field lines *)
Lemma h_join_cons c a l : l <> [] -> h_join c (a :: l) = a ++ c :: h_join c l.
Proof. destruct l; [congruence|reflexivity]. Qed.

Lemma h_split_join c l : l <> [] -> h_split c (h_join c l) = flat_map (h_split c) l.
Proof.
  induction l as [|a l IH]; [congruence|]. intros _.
  destruct l as [|b l].
  - cbn [h_join flat_map]. rewrite app_nil_r. reflexivity.
  - rewrite h_join_cons by discriminate. rewrite h_split_app, IH by discriminate. reflexivity.
Qed.

Lemma h_join_split c s : h_join c (h_split c s) = s.
Proof.
  induction s as [|x s IH]; [reflexivity|].
  cbn [h_split]. destruct (N.eqb_spec x c) as [->|Hne].
  - rewrite h_join_cons by apply h_split_nonempty. rewrite IH. reflexivity.
  - destruct (h_split c s) as [|h t] eqn:E; [exfalso; exact (h_split_nonempty c s E)|].
    destruct t as [|h2 t].
    + cbn [h_join] in *. rewrite IH. reflexivity.
    + rewrite h_join_cons in * by discriminate. rewrite <- IH. reflexivity.
Qed.

Lemma existsb_flat_map {A B} (f : B -> bool) (g : A -> list B) l :
  existsb f (flat_map g l) = existsb (fun a => existsb f (g a)) l.
Proof.
  induction l as [|a l IH]; [reflexivity|]. cbn [flat_map existsb]. rewrite existsb_app, IH. reflexivity.
Qed.

Lemma om_listed_join l :
  h_om_listed (Some (h_join H_COMMA l)) = existsb (fun v => h_om_listed (Some v)) l.
Proof.
  destruct l as [|a l]; [vm_compute; reflexivity|].
  unfold h_om_listed. cbn [h_or_empty]. rewrite h_split_join by discriminate.
  apply existsb_flat_map.
Qed.

Lemma gzip_accepted_join lower l : lower [] <> H_GZIP ->
  h_gzip_accepted lower (Some (h_join H_COMMA l)) = existsb (fun v => h_gzip_accepted lower (Some v)) l.
Proof.
  intro Hl. destruct l as [|a l].
  - unfold h_gzip_accepted. cbn. apply orb_false_intro; [|reflexivity].
    apply str_eqb_neq. exact Hl.
  - unfold h_gzip_accepted. cbn [h_or_empty]. rewrite h_split_join by discriminate.
    apply existsb_flat_map.
Qed.

(* ================================================================ _bake_output *)
Lemma status_200 : h_status_code H_200 = 200.
Proof. vm_compute. reflexivity. Qed.
Lemma status_405 : h_status_code H_405 = 405.
Proof. vm_compute. reflexivity. Qed.

Lemma or_empty_joined l : h_or_empty (wsgi_joined l) = h_join H_COMMA l.
Proof. destruct l; reflexivity. Qed.

Lemma obs_body c hs b c' hs' b' : Some (h_obs_of c hs b) = Some (h_obs_of c' hs' b') -> b = b'.
Proof. unfold h_obs_of. intro H. injection H. auto. Qed.

Section FrontEnds.
  Variable lower : str -> str.
  Variable parse_qs : str -> hparams.
  Variable urlquery : str -> str.

  Lemma bake_shape accept aenc params dis :
    let r := h_bake_output lower accept aenc params dis in
    let f := fst (h_choose_encoder accept) in
    let gz := negb dis && h_gzip_accepted lower aenc in
    h_status r = H_200
    /\ h_body r = HB_expo f (d_find str_eqb params H_NAME_KEY) gz
    /\ h_header r H_CONTENT_TYPE = Some (h_content_type f)
    /\ h_header r H_CONTENT_ENCODING = (if gz then Some H_GZIP else None)
    /\ h_headers r = (H_CONTENT_TYPE, h_content_type f) :: (if gz then [(H_CONTENT_ENCODING, H_GZIP)] else []).
  Proof.
    unfold h_bake_output, h_choose_encoder.
    destruct (h_om_listed accept); destruct (negb dis && h_gzip_accepted lower aenc);
      cbv zeta; cbn [fst h_status h_body h_headers]; repeat split; reflexivity.
  Qed.

  Lemma bake_or_empty a a' e e' p d :
    h_or_empty a = h_or_empty a' -> h_or_empty e = h_or_empty e' ->
    h_bake_output lower a e p d = h_bake_output lower a' e' p d.
  Proof.
    intros Ha He. unfold h_bake_output, h_choose_encoder, h_om_listed, h_gzip_accepted.
    rewrite Ha, He. reflexivity.
  Qed.

  (* ---------------------------------------------------------------- WSGI dispatch *)
  Lemma wsgi_options dis (env : assoc str str) :
    d_find str_eqb env H_ENV_METHOD = Some H_OPTIONS ->
    h_wsgi_app lower parse_qs dis env =
      Ok {| h_status := H_200; h_headers := [(H_ALLOW, H_ALLOW_VALUE)]; h_body := HB_empty |}.
  Proof.
    intro Hm. unfold h_wsgi_app, d_get. rewrite Hm. cbn [bind]. rewrite str_eqb_refl. reflexivity.
  Qed.

  Lemma wsgi_other dis (env : assoc str str) (m : str) :
    d_find str_eqb env H_ENV_METHOD = Some m -> m <> H_OPTIONS -> m <> H_GET ->
    h_wsgi_app lower parse_qs dis env =
      Ok {| h_status := H_405; h_headers := [(H_ALLOW, H_ALLOW_VALUE)];
            h_body := HB_lit (H_405_PRE ++ H_405 ++ H_405_MID ++ m ++ H_405_POST) |}.
  Proof.
    intros Hm Ho Hg. unfold h_wsgi_app, d_get. rewrite Hm. cbn [bind].
    apply str_eqb_neq in Ho. apply str_eqb_neq in Hg. rewrite Ho, Hg. reflexivity.
  Qed.

  Lemma wsgi_get dis (env : assoc str str) (p : str) :
    d_find str_eqb env H_ENV_METHOD = Some H_GET ->
    d_find str_eqb env H_ENV_PATH = Some p -> p <> H_FAVICON ->
    h_wsgi_app lower parse_qs dis env =
      Ok (h_bake_output lower (d_find str_eqb env H_ENV_ACCEPT) (d_find str_eqb env H_ENV_ACCEPT_ENCODING)
            (parse_qs (h_or_empty (d_find str_eqb env H_ENV_QUERY))) dis).
  Proof.
    intros Hm Hp Hf. unfold h_wsgi_app, d_get. rewrite Hm. cbn [bind].
    replace (str_eqb H_GET H_OPTIONS) with false by reflexivity.
    rewrite str_eqb_refl. cbn [negb]. rewrite Hp. cbn [bind].
    apply str_eqb_neq in Hf. rewrite Hf. reflexivity.
  Qed.

  Lemma wsgi_favicon dis (env : assoc str str) :
    d_find str_eqb env H_ENV_METHOD = Some H_GET ->
    d_find str_eqb env H_ENV_PATH = Some H_FAVICON ->
    h_wsgi_app lower parse_qs dis env = Ok {| h_status := H_200; h_headers := [([], [])]; h_body := HB_empty |}.
  Proof.
    intros Hm Hp. unfold h_wsgi_app, d_get. rewrite Hm. cbn [bind].
    replace (str_eqb H_GET H_OPTIONS) with false by reflexivity.
    rewrite str_eqb_refl. cbn [negb]. rewrite Hp. cbn [bind]. rewrite str_eqb_refl. reflexivity.
  Qed.

  Lemma wsgi_methods dis (env : assoc str str) (m : str) :
    d_find str_eqb env H_ENV_METHOD = Some m ->
    (m = H_OPTIONS -> exists r, h_wsgi_app lower parse_qs dis env = Ok r
        /\ h_status_code (h_status r) = 200 /\ h_header r H_ALLOW = Some H_ALLOW_VALUE /\ h_collects r = false)
    /\ (m <> H_OPTIONS -> m <> H_GET -> exists r, h_wsgi_app lower parse_qs dis env = Ok r
        /\ h_status_code (h_status r) = 405 /\ h_header r H_ALLOW = Some H_ALLOW_VALUE /\ h_collects r = false).
  Proof.
    intro Hm. split.
    - intros ->. eexists. split; [apply wsgi_options; exact Hm|]. repeat split; reflexivity.
    - intros Ho Hg. eexists. split; [apply (wsgi_other dis env m Hm Ho Hg)|]. repeat split; reflexivity.
  Qed.

  (* collect() is reached exactly for GET requests other than the favicon *)
  Lemma wsgi_collects_iff dis (env : assoc str str) r :
    h_wsgi_app lower parse_qs dis env = Ok r ->
    (h_collects r = true <->
       d_find str_eqb env H_ENV_METHOD = Some H_GET /\
       exists p, d_find str_eqb env H_ENV_PATH = Some p /\ p <> H_FAVICON).
  Proof.
    unfold h_wsgi_app, d_get.
    destruct (d_find str_eqb env H_ENV_METHOD) as [m|] eqn:Hm; cbn [bind]; [|discriminate].
    destruct (str_eqb m H_OPTIONS) eqn:Eo.
    - intro H. injection H as <-. apply str_eqb_eq in Eo. subst m. cbn. split; [discriminate|].
      intros (Hg & _). injection Hg as Hg. vm_compute in Hg. discriminate.
    - destruct (str_eqb m H_GET) eqn:Eg; cbn [negb].
      + apply str_eqb_eq in Eg. subst m.
        destruct (d_find str_eqb env H_ENV_PATH) as [p|] eqn:Hp; cbn [bind]; [|discriminate].
        destruct (str_eqb p H_FAVICON) eqn:Ef.
        * intro H. injection H as <-. apply str_eqb_eq in Ef. subst p. cbn. split; [discriminate|].
          intros (_ & p' & Hp' & Hne). congruence.
        * intro H. injection H as <-. apply str_eqb_neq in Ef.
          destruct (bake_shape (d_find str_eqb env H_ENV_ACCEPT) (d_find str_eqb env H_ENV_ACCEPT_ENCODING)
                      (parse_qs (h_or_empty (d_find str_eqb env H_ENV_QUERY))) dis) as (_ & Hb & _).
          unfold h_collects. rewrite Hb. split; auto. intros _. split; auto. exists p. auto.
      + intro H. injection H as <-. apply str_eqb_neq in Eg. cbn. split; [discriminate|].
        intros (Hg & _). congruence.
  Qed.

  (* ---------------------------------------------------------------- the three front-ends on one request *)
  Lemma asgi_header_lines hdrs name : h_asgi_header lower hdrs name = h_join H_COMMA (asgi_lines lower hdrs name).
  Proof. reflexivity. Qed.

  Lemma frontends_agree dis (env : assoc str str) (hdrs : list (str * str)) (q : option str)
        (accepts aencs : list str) (path p : str) :
    d_find str_eqb env H_ENV_METHOD = Some H_GET ->
    d_find str_eqb env H_ENV_PATH = Some p -> p <> H_FAVICON ->
    d_find str_eqb env H_ENV_ACCEPT = wsgi_joined accepts ->
    d_find str_eqb env H_ENV_ACCEPT_ENCODING = wsgi_joined aencs ->
    d_find str_eqb env H_ENV_QUERY = q ->
    asgi_lines lower hdrs H_ACCEPT = accepts ->
    asgi_lines lower hdrs H_ACCEPT_ENCODING = aencs ->
    urlquery path = h_or_empty q ->
    h_obs_asgi (h_asgi_app lower parse_qs dis hdrs q true) = h_obs_wsgi (h_wsgi_app lower parse_qs dis env)
    /\ (dis = false ->
        h_obs_handler (h_handler_get lower parse_qs urlquery accepts aencs path)
        = h_obs_wsgi (h_wsgi_app lower parse_qs dis env)).
  Proof.
    intros Hm Hp Hf Ha He Hq Hla Hle Hu.
    rewrite (wsgi_get dis env p Hm Hp Hf), Ha, He, Hq.
    split.
    - unfold h_asgi_app, h_asgi_core, h_obs_asgi, h_obs_wsgi.
      rewrite !asgi_header_lines, Hla, Hle.
      rewrite (bake_or_empty (Some (h_join H_COMMA accepts)) (wsgi_joined accepts)
                             (Some (h_join H_COMMA aencs)) (wsgi_joined aencs));
        [reflexivity| |]; rewrite or_empty_joined; reflexivity.
    - intros ->. unfold h_handler_get, h_handler_core, h_obs_handler, h_obs_wsgi.
      cbn [hh_code hh_headers hh_body]. rewrite Hu.
      rewrite (bake_or_empty (Some (h_join H_COMMA accepts)) (wsgi_joined accepts)
                             (Some (h_join H_COMMA aencs)) (wsgi_joined aencs));
        [reflexivity| |]; rewrite or_empty_joined; reflexivity.
  Qed.

  (* pinned ASGI source: wrong whenever the query carries a name[] value, right otherwise *)
  Lemma asgi_orig_disagrees dis (env : assoc str str) (hdrs : list (str * str)) (q : option str)
        (accepts aencs : list str) (p : str) (names : list str) :
    d_find str_eqb env H_ENV_METHOD = Some H_GET ->
    d_find str_eqb env H_ENV_PATH = Some p -> p <> H_FAVICON ->
    d_find str_eqb env H_ENV_ACCEPT = wsgi_joined accepts ->
    d_find str_eqb env H_ENV_ACCEPT_ENCODING = wsgi_joined aencs ->
    d_find str_eqb env H_ENV_QUERY = q ->
    asgi_lines lower hdrs H_ACCEPT = accepts ->
    asgi_lines lower hdrs H_ACCEPT_ENCODING = aencs ->
    d_find str_eqb (parse_qs (h_or_empty q)) H_NAME_KEY = Some names ->
    h_obs_asgi (h_asgi_app_orig lower dis hdrs q true) <> h_obs_wsgi (h_wsgi_app lower parse_qs dis env).
  Proof.
    intros Hm Hp Hf Ha He Hq Hla Hle Hn.
    rewrite (wsgi_get dis env p Hm Hp Hf), Ha, He, Hq.
    unfold h_asgi_app_orig, h_asgi_core, h_obs_asgi, h_obs_wsgi. intro H.
    apply obs_body in H.
    match type of H with h_body (h_bake_output _ ?a ?e ?ps ?d) = _ =>
      destruct (bake_shape a e ps d) as (_ & Hb1 & _) end.
    match type of H with _ = h_body (h_bake_output _ ?a ?e ?ps ?d) =>
      destruct (bake_shape a e ps d) as (_ & Hb2 & _) end.
    rewrite Hb1, Hb2, Hn in H. cbn [d_find] in H. discriminate.
  Qed.

  Lemma asgi_orig_agrees_without_names dis hdrs q :
    d_find str_eqb (parse_qs (h_or_empty q)) H_NAME_KEY = None ->
    h_obs_asgi (h_asgi_app_orig lower dis hdrs q true) = h_obs_asgi (h_asgi_app lower parse_qs dis hdrs q true).
  Proof.
    intro Hn. unfold h_asgi_app_orig, h_asgi_app, h_asgi_core, h_obs_asgi, h_bake_output.
    rewrite Hn. reflexivity.
  Qed.

  (* pinned MetricsHandler source: right when there is at most one field line of each name *)
  Lemma handler_orig_agrees_single accepts aencs path :
    (length accepts <= 1)%nat -> (length aencs <= 1)%nat ->
    h_handler_get_orig lower parse_qs urlquery accepts aencs path
    = h_handler_get lower parse_qs urlquery accepts aencs path.
  Proof.
    intros H1 H2. unfold h_handler_get_orig, h_handler_get, h_handler_core.
    rewrite (bake_or_empty (hd_error accepts) (Some (h_join H_COMMA accepts))
                           (hd_error aencs) (Some (h_join H_COMMA aencs))); [reflexivity| |].
    - destruct accepts as [|a [|b l]]; try reflexivity. cbn [length] in H1. lia.
    - destruct aencs as [|a [|b l]]; try reflexivity. cbn [length] in H2. lia.
  Qed.

  (* ---------------------------------------------------------------- a GET, spelled out *)
  Hypothesis lower_gzip : forall s, lower s = H_GZIP <-> h_ci_gzip s = true.

  Lemma bake_spec accept aenc params dis :
    let r := h_bake_output lower accept aenc params dis in
    h_status_code (h_status r) = 200 /\
    exists f gz,
      h_body r = HB_expo f (d_find str_eqb params H_NAME_KEY) gz
      /\ h_header r H_CONTENT_TYPE = Some (h_content_type f)
      /\ (f = HOM <-> lists_token (h_or_empty accept) (fun t => t = H_OM_TYPE))
      /\ (f = HText <-> ~ lists_token (h_or_empty accept) (fun t => t = H_OM_TYPE))
      /\ (gz = true <-> dis = false /\ lists_token (h_or_empty aenc) (fun t => h_ci_gzip t = true))
      /\ h_header r H_CONTENT_ENCODING = (if gz then Some H_GZIP else None).
  Proof.
    cbv zeta. destruct (bake_shape accept aenc params dis) as (Hs & Hb & Hct & Hce & _).
    split; [rewrite Hs; exact status_200|].
    exists (fst (h_choose_encoder accept)), (negb dis && h_gzip_accepted lower aenc).
    repeat split; auto.
    - apply om_iff_lists.
    - apply om_iff_lists.
    - intros Ht Hl. apply om_iff_lists in Hl. congruence.
    - intro Hn. destruct (fst (h_choose_encoder accept)) eqn:E; [reflexivity|].
      exfalso. apply Hn. apply om_iff_lists. exact E.
    - apply andb_true_iff in H as (Hd & _). destruct dis; [discriminate|reflexivity].
    - apply andb_true_iff in H as (_ & Hg). apply (gzip_iff_lists lower lower_gzip). exact Hg.
    - intros (-> & Hl). apply (gzip_iff_lists lower lower_gzip) in Hl. rewrite Hl. reflexivity.
  Qed.
End FrontEnds.

(* ================================================================ refutation witnesses for the pinned sources *)
Definition wit_lower (s : str) : str := s.
Definition wit_urlquery (s : str) : str := [].
Definition wit_env : assoc str str :=
  [(H_ENV_METHOD, H_GET); (H_ENV_PATH, s2l "/metrics"); (H_ENV_QUERY, s2l "name[]=temp")].
Definition wit_parse_qs (s : str) : hparams :=
  if str_eqb s (s2l "name[]=temp") then [(H_NAME_KEY, [s2l "temp"])] else [].

Lemma asgi_orig_witness :
  h_obs_asgi (h_asgi_app_orig wit_lower false [] (Some (s2l "name[]=temp")) true)
  <> h_obs_wsgi (h_wsgi_app wit_lower wit_parse_qs false wit_env)
  /\ h_obs_asgi (h_asgi_app wit_lower wit_parse_qs false [] (Some (s2l "name[]=temp")) true)
     = h_obs_wsgi (h_wsgi_app wit_lower wit_parse_qs false wit_env).
Proof. split; [vm_compute; discriminate|vm_compute; reflexivity]. Qed.

Definition wit_lines : list str := [s2l "text/plain"; H_OM_TYPE].
Definition wit_env2 : assoc str str :=
  [(H_ENV_METHOD, H_GET); (H_ENV_PATH, s2l "/metrics"); (H_ENV_ACCEPT, h_join H_COMMA wit_lines)].

Lemma handler_orig_witness :
  let q0 := fun _ : str => @nil (str * list str) in
  h_obs_handler (h_handler_get_orig wit_lower q0 wit_urlquery wit_lines [] (s2l "/metrics"))
  <> h_obs_wsgi (h_wsgi_app wit_lower q0 false wit_env2)
  /\ h_obs_handler (h_handler_get wit_lower q0 wit_urlquery wit_lines [] (s2l "/metrics"))
     = h_obs_wsgi (h_wsgi_app wit_lower q0 false wit_env2).
Proof. split; [vm_compute; discriminate|vm_compute; reflexivity]. Qed.

(* ================================================================ what the client decodes *)
Section Roundtrip.
  Variable encode : hfmt -> option (list str) -> list N.
  Variable gzip gunzip : list N -> list N.
  Hypothesis gunzip_gzip : forall b, gunzip (gzip b) = b.

  Lemma bake_client_roundtrip lower accept aenc params dis :
    let r := h_bake_output lower accept aenc params dis in
    client_decode gunzip (h_header r H_CONTENT_ENCODING) (h_body_bytes encode gzip (h_body r))
    = encode (fst (h_choose_encoder accept)) (d_find str_eqb params H_NAME_KEY).
  Proof.
    cbv zeta. destruct (bake_shape lower accept aenc params dis) as (_ & Hb & _ & Hce & _).
    rewrite Hb, Hce. destruct (negb dis && h_gzip_accepted lower aenc); cbn [client_decode h_body_bytes].
    - apply gunzip_gzip.
    - reflexivity.
  Qed.
End Roundtrip.

(* ================================================================ the WSGI answer to a GET, spelled out *)
Lemma wsgi_get_spec lower parse_qs dis (env : assoc str str) (p : str) :
  (forall s, lower s = H_GZIP <-> h_ci_gzip s = true) ->
  d_find str_eqb env H_ENV_METHOD = Some H_GET ->
  d_find str_eqb env H_ENV_PATH = Some p -> p <> H_FAVICON ->
  exists r, h_wsgi_app lower parse_qs dis env = Ok r
    /\ h_status_code (h_status r) = 200
    /\ exists f gz,
         h_body r = HB_expo f (d_find str_eqb (parse_qs (h_or_empty (d_find str_eqb env H_ENV_QUERY))) H_NAME_KEY) gz
      /\ h_header r H_CONTENT_TYPE = Some (h_content_type f)
      /\ (f = HOM <-> lists_token (h_or_empty (d_find str_eqb env H_ENV_ACCEPT)) (fun t => t = H_OM_TYPE))
      /\ (f = HText <-> ~ lists_token (h_or_empty (d_find str_eqb env H_ENV_ACCEPT)) (fun t => t = H_OM_TYPE))
      /\ (gz = true <-> dis = false /\
            lists_token (h_or_empty (d_find str_eqb env H_ENV_ACCEPT_ENCODING)) (fun t => h_ci_gzip t = true))
      /\ h_header r H_CONTENT_ENCODING = (if gz then Some H_GZIP else None).
Proof.
  intros Hl Hm Hp Hf. eexists. split; [apply (wsgi_get lower parse_qs dis env p Hm Hp Hf)|].
  apply (bake_spec lower Hl).
Qed.

(* ================================================================ the hypothesis on lower is satisfiable *)
Lemma ascii_lower_char_eq a x : 97 <= x <= 122 -> (ascii_lower_char a = x <-> a = x \/ a = x - 32).
Proof. intro Hx. unfold ascii_lower_char. destruct ((65 <=? a) && (a <=? 90)) eqn:E; lia. Qed.

Lemma ascii_lower_gzip s : ascii_lower s = H_GZIP <-> h_ci_gzip s = true.
Proof.
  rewrite ci_gzip_spec. unfold ascii_lower, H_GZIP. split.
  - destruct s as [|a [|b [|c [|d [|? ?]]]]]; cbn [map]; intro H; try discriminate.
    injection H as Ha Hb Hc Hd. exists a, b, c, d. split; [reflexivity|].
    apply ascii_lower_char_eq in Ha; [|lia]. apply ascii_lower_char_eq in Hb; [|lia].
    apply ascii_lower_char_eq in Hc; [|lia]. apply ascii_lower_char_eq in Hd; [|lia].
    change (103 - 32) with 71 in Ha. change (122 - 32) with 90 in Hb.
    change (105 - 32) with 73 in Hc. change (112 - 32) with 80 in Hd. auto.
  - intros (a & b & c & d & -> & Ha & Hb & Hc & Hd). cbn [map].
    assert (Ea : ascii_lower_char a = 103) by (apply ascii_lower_char_eq; [lia|]; change (103 - 32) with 71; exact Ha).
    assert (Eb : ascii_lower_char b = 122) by (apply ascii_lower_char_eq; [lia|]; change (122 - 32) with 90; exact Hb).
    assert (Ec : ascii_lower_char c = 105) by (apply ascii_lower_char_eq; [lia|]; change (105 - 32) with 73; exact Hc).
    assert (Ed : ascii_lower_char d = 112) by (apply ascii_lower_char_eq; [lia|]; change (112 - 32) with 80; exact Hd).
    rewrite Ea, Eb, Ec, Ed. reflexivity.
Qed.

(* ================================================================ packaged statements for props/C17.v *)
Lemma tokenizer_spec :
  (forall h e, In e (h_split H_COMMA h) <-> list_element h e)
  /\ (forall c s p, h_before c s = p <->
        exists rest, s = p ++ rest /\ ~ In c p /\ (rest = [] \/ exists r, rest = c :: r))
  /\ (forall s t, h_strip s = t <->
        exists w1 w2, s = w1 ++ t ++ w2 /\ all_space w1 /\ all_space w2 /\ trimmed t)
  /\ (forall e t, h_strip (h_before H_SEMI e) = t <-> element_token e t).
Proof.
  repeat split; try (apply list_element_iff); try (apply h_before_iff); try (apply h_strip_iff);
    try (apply element_token_iff).
Qed.

Lemma om_iff_token h :
  fst (h_choose_encoder h) = HOM <->
  exists e, In e (h_split H_COMMA (h_or_empty h)) /\ h_strip (h_before H_SEMI e) = H_OM_TYPE.
Proof. rewrite choose_encoder_fst. apply om_listed_iff. Qed.

Lemma om_iff_listed_full h :
  (fst (h_choose_encoder h) = HOM <-> lists_token (h_or_empty h) (fun t => t = H_OM_TYPE))
  /\ (fst (h_choose_encoder h) = HText <-> ~ lists_token (h_or_empty h) (fun t => t = H_OM_TYPE))
  /\ snd (h_choose_encoder h) = h_content_type (fst (h_choose_encoder h)).
Proof.
  split; [apply om_iff_lists|]. split; [|apply choose_encoder_ct]. split.
  - intros Ht Hl. apply om_iff_lists in Hl. congruence.
  - intro Hn. destruct (fst (h_choose_encoder h)) eqn:E; [reflexivity|].
    exfalso. apply Hn. apply om_iff_lists. exact E.
Qed.

Lemma repeated_field_lines lower (lines : list str) : lower [] <> H_GZIP ->
  h_om_listed (Some (h_join H_COMMA lines)) = existsb (fun v => h_om_listed (Some v)) lines
  /\ h_gzip_accepted lower (Some (h_join H_COMMA lines)) = existsb (fun v => h_gzip_accepted lower (Some v)) lines.
Proof. intro Hl. split; [apply om_listed_join|apply gzip_accepted_join; exact Hl]. Qed.

(* ================================================================ the ASGI and MetricsHandler answers, spelled out *)
Lemma bake_get_answer lower accept aenc params dis :
  (forall s, lower s = H_GZIP <-> h_ci_gzip s = true) ->
  let r := h_bake_output lower accept aenc params dis in
  get_answer dis (h_or_empty accept) (h_or_empty aenc) (d_find str_eqb params H_NAME_KEY)
             (h_status_code (h_status r)) (h_headers r) (h_body r).
Proof. intro Hl. exact (bake_spec lower Hl accept aenc params dis). Qed.

Lemma asgi_get_spec lower parse_qs dis (hdrs : list (str * str)) (q : option str) :
  (forall s, lower s = H_GZIP <-> h_ci_gzip s = true) ->
  exists code hs b,
    h_asgi_app lower parse_qs dis hdrs q true = [HA_start code hs; HA_body b]
    /\ get_answer dis (h_join H_COMMA (asgi_lines lower hdrs H_ACCEPT))
                  (h_join H_COMMA (asgi_lines lower hdrs H_ACCEPT_ENCODING))
                  (d_find str_eqb (parse_qs (h_or_empty q)) H_NAME_KEY) code hs b.
Proof.
  intro Hl. unfold h_asgi_app, h_asgi_core. do 3 eexists. split; [reflexivity|].
  apply (bake_get_answer lower (Some (h_asgi_header lower hdrs H_ACCEPT))
           (Some (h_asgi_header lower hdrs H_ACCEPT_ENCODING)) (parse_qs (h_or_empty q)) dis Hl).
Qed.

Lemma handler_get_spec lower parse_qs urlquery (accepts aencs : list str) (path : str) :
  (forall s, lower s = H_GZIP <-> h_ci_gzip s = true) ->
  let o := h_handler_get lower parse_qs urlquery accepts aencs path in
  get_answer false (h_join H_COMMA accepts) (h_join H_COMMA aencs)
             (d_find str_eqb (parse_qs (urlquery path)) H_NAME_KEY) (hh_code o) (hh_headers o) (hh_body o).
Proof.
  intro Hl. cbv zeta. unfold h_handler_get, h_handler_core. cbn [hh_code hh_headers hh_body].
  apply (bake_get_answer lower (Some (h_join H_COMMA accepts)) (Some (h_join H_COMMA aencs))
           (parse_qs (urlquery path)) false Hl).
Qed.

(* a token is listed in the comma-joined field lines iff it is listed in one of the lines *)
Lemma lists_token_joined (lines : list str) (P : str -> Prop) : lines <> [] ->
  (lists_token (h_join H_COMMA lines) P <-> exists l, In l lines /\ lists_token l P).
Proof.
  intro Hne. rewrite lists_token_iff, (h_split_join H_COMMA lines Hne). split.
  - intros (e & He & HP). apply in_flat_map in He as (l & Hl & He).
    exists l. split; [exact Hl|]. apply lists_token_iff. exists e. auto.
  - intros (l & Hl & Hlt). apply lists_token_iff in Hlt as (e & He & HP).
    exists e. split; [|exact HP]. apply in_flat_map. exists l. auto.
Qed.
