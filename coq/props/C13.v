(* C13 - Float rendering is exact, injective and canonical.
   Statements only; every proof is `exact <lemma>`.  Model: model/Utils.v (floatToGoString as string
   surgery on repr(d)); specification side: model/Decimal.v (what a decimal literal denotes).
   CPython facts used as hypotheses, not proved here: for 1e6 <= d < 1e16 repr(d) has the shape
   D D{6,} '.' D+ with a non-zero first digit (fixed_repr); float(repr x) = x; float() is a function
   of the number a literal denotes.  *)
From V Require Import lib.PyBase model.Utils model.Decimal proofs.UtilsProofs model.LeLabels proofs.LeLabelsProofs.
Open Scope N_scope.

(* every rewritten rendering denotes the same number as repr(d) *)
Theorem C13_value_preserved : forall i0 ir f, fixed_repr i0 ir f ->
  exists v v', denote (i0 :: ir ++ DOT :: f) = Some v
    /\ denote (go_string (FFin true (i0 :: ir ++ DOT :: f))) = Some v'
    /\ same_value v v'.
Proof. exact (fun i0 ir f => go_finite_value_preserved exp_text_2d i0 ir f exp_text_2d_ok). Qed.
Print Assumptions C13_value_preserved.

(* renderings that are not rewritten are repr(d) itself *)
Theorem C13_identity_elsewhere : forall p s,
  p = false \/ (find_char DOT s <= 6)%Z -> go_string (FFin p s) = s.
Proof. exact (go_finite_identity exp_text_2d). Qed.
Print Assumptions C13_identity_elsewhere.

(* distinct numbers never share a rendering (finite case); sign included *)
Theorem C13_injective : forall p1 s1 p2 s2, wf_fin p1 s1 -> wf_fin p2 s2 ->
  go_string (FFin p1 s1) = go_string (FFin p2 s2) ->
  exists v1 v2, denote_signed s1 = Some v1 /\ denote_signed s2 = Some v2 /\ same_signed v1 v2.
Proof. exact (fun p1 s1 p2 s2 => go_finite_injective exp_text_2d p1 s1 p2 s2 exp_text_2d_ok). Qed.
Print Assumptions C13_injective.

(* the three specials are spelled +Inf, -Inf, NaN and are not decimal literals *)
Theorem C13_specials :
  go_string FPosInf = s2l "+Inf" /\ go_string FNegInf = s2l "-Inf" /\ go_string FNaN = s2l "NaN"
  /\ denote_signed (s2l "+Inf") = None /\ denote_signed (s2l "-Inf") = None
  /\ denote_signed (s2l "NaN") = None.
Proof. vm_compute. repeat split. Qed.
Print Assumptions C13_specials.

(* canonical shape from one million up: [1-9](.D*[1-9])? e+XX, XX >= two digits, no needless third *)
Theorem C13_canonical : forall i0 ir f, fixed_repr i0 ir f ->
  exists r' ds, go_string (FFin true (i0 :: ir ++ DOT :: f)) = mant_of i0 r' ++ CH_e :: PLUS :: ds
    /\ 49 <= i0 <= 57 /\ all_digits r' = true
    /\ (r' = [] \/ exists p c, r' = p ++ [c] /\ c <> ZERO)
    /\ two_digit_min (N.of_nat (length ir)) ds.
Proof. exact go_finite_canonical. Qed.
Print Assumptions C13_canonical.

(* the pinned source (before the fix: commit) wrote 'e+0' ++ str(exp): 1e10 -> 1e+010 *)
Theorem C13_canonical_orig_refuted :
  exists e ds, exp_text_orig e = CH_e :: PLUS :: ds /\ ~ two_digit_min e ds.
Proof. exact exp_text_orig_not_canonical. Qed.
Print Assumptions C13_canonical_orig_refuted.

(* multiprocess collector (model/LeLabels.v): label sets of one histogram may have different bucket layouts; every
   label set exposed has, position for position, the renderings of ITS OWN bounds, each with the count of that bound
   (cumulative when accumulating) *)
Theorem C13_le_per_label_set : forall (A : Type) (acc : bool) (sets : list (A * layout)) l out,
  In (l, out) (mp_le_samples acc sets) ->
  exists bs, In (l, bs) sets
    /\ map fst out = map (fun bv => go_string (fst bv)) bs
    /\ map snd out = (if acc then prefix_sums 0 (map snd bs) else map snd bs).
Proof. exact mp_le_own_bounds. Qed.
Print Assumptions C13_le_per_label_set.

Theorem C13_le_label_sets_kept : forall (A : Type) (acc : bool) (sets : list (A * layout)),
  map fst (mp_le_samples acc sets) = map fst sets.
Proof. exact mp_le_label_sets. Qed.
Print Assumptions C13_le_label_sets_kept.

(* two buckets of one exposed label set that share a le label come from bounds with the same rendering
   (hence, by C13_injective, from the same number) *)
Theorem C13_le_distinct_in_label_set : forall (A : Type) (acc : bool) (sets : list (A * layout)) l out i j le n1 n2,
  In (l, out) (mp_le_samples acc sets) ->
  nth_error out i = Some (le, n1) -> nth_error out j = Some (le, n2) ->
  exists bs b1 v1 b2 v2, In (l, bs) sets /\ nth_error bs i = Some (b1, v1) /\ nth_error bs j = Some (b2, v2)
    /\ go_string b1 = go_string b2.
Proof. exact mp_le_distinct. Qed.
Print Assumptions C13_le_distinct_in_label_set.

(* the design that renders the labels once per histogram (from the first label set merged) and reuses them by
   position is refuted: a label set whose top bucket is 2.5e6 is exposed with le = 1e+06, the rendering of none of
   its bounds; and with layouts of different length buckets are dropped *)
Theorem C13_le_shared_refuted :
  (exists (sets : list (N * layout)) l bs out,
    In (l, bs) sets /\ In (l, out) (mp_le_samples_shared sets)
    /\ map fst out <> map (fun bv => go_string (fst bv)) bs
    /\ exists le, In le (map fst out) /\ ~ In le (map (fun bv => go_string (fst bv)) bs))
  /\ (exists (sets : list (N * layout)) l bs out,
    In (l, bs) sets /\ In (l, out) (mp_le_samples_shared sets) /\ (length out < length bs)%nat).
Proof. exact (conj mp_le_shared_wrong_label mp_le_shared_drops_buckets). Qed.
Print Assumptions C13_le_shared_refuted.

(* the instrumentation class (Histogram, model/LeLabels.v): bounds are GIVEN as anything float() takes (B with the
   platform's float() : B -> double, classified); every exposed le is the rendering of the DOUBLE the bound denotes,
   in the given order, +Inf last, with the running count *)
Theorem C13_hist_le_of_the_double : forall (B : Type) (f : B -> fclass) src counts out,
  hist_le_samples B f src counts = Ok out ->
  exists bs, hist_bounds B f src = Ok bs
    /\ (2 <= length bs)%nat
    /\ (exists pre, bs = pre ++ [FPosInf] /\ (pre = map f src \/ pre ++ [FPosInf] = map f src))
    /\ (length counts = length bs ->
          map fst out = map go_string bs /\ map snd out = prefix_sums 0 counts).
Proof. exact hist_le_of_the_double. Qed.
Print Assumptions C13_hist_le_of_the_double.

(* position for position: the i-th given bound is exposed (when a value is kept for it) with le = go_string (float b) *)
Theorem C13_hist_le_nth : forall (B : Type) (f : B -> fclass) src counts out i b,
  hist_le_samples B f src counts = Ok out -> nth_error src i = Some b ->
  (forall le n, nth_error out i = Some (le, n) -> le = go_string (f b))
  /\ ((i < length counts)%nat -> exists n, nth_error out i = Some (go_string (f b), n)).
Proof. exact hist_le_nth_both. Qed.
Print Assumptions C13_hist_le_nth.

(* how a bound was given (type, spelling) does not survive float(): sources denoting the same doubles are exposed
   identically, and one double has one label string at any position of any two histograms *)
Theorem C13_hist_le_spelling_independent : forall (B1 B2 : Type) (f1 : B1 -> fclass) (f2 : B2 -> fclass) s1 s2 counts,
  map f1 s1 = map f2 s2 -> hist_le_samples B1 f1 s1 counts = hist_le_samples B2 f2 s2 counts.
Proof. exact hist_le_spelling_independent. Qed.
Print Assumptions C13_hist_le_spelling_independent.

Theorem C13_hist_le_one_number_one_label :
  forall (B1 B2 : Type) (f1 : B1 -> fclass) (f2 : B2 -> fclass) s1 s2 c1 c2 o1 o2 i j b1 b2 le1 n1 le2 n2,
  hist_le_samples B1 f1 s1 c1 = Ok o1 -> hist_le_samples B2 f2 s2 c2 = Ok o2 ->
  nth_error s1 i = Some b1 -> nth_error s2 j = Some b2 -> f1 b1 = f2 b2 ->
  nth_error o1 i = Some (le1, n1) -> nth_error o2 j = Some (le2, n2) -> le1 = le2.
Proof. exact hist_le_same_number. Qed.
Print Assumptions C13_hist_le_one_number_one_label.

(* the two paths agree: what a process exposes itself is what the multiprocess collector renders for a label set
   with those bounds and counts *)
Theorem C13_hist_le_agrees_with_merge : forall (A B : Type) (f : B -> fclass) (l : A) src counts out bs,
  hist_le_samples B f src counts = Ok out -> hist_bounds B f src = Ok bs ->
  mp_le_samples true [(l, combine bs counts)] = [(l, out)].
Proof. exact hist_le_agrees_with_merge. Qed.
Print Assumptions C13_hist_le_agrees_with_merge.

(* fewer than two buckets is the only refusal, and it is a ValueError *)
Theorem C13_hist_le_only_value_error : forall (B : Type) (f : B -> fclass) src counts e,
  hist_le_samples B f src counts = Err e -> e = ValueError /\ (length (with_inf (map f src)) < 2)%nat.
Proof. exact hist_le_only_value_error. Qed.
Print Assumptions C13_hist_le_only_value_error.

(* the design that renders the labels once in _prepare_buckets and keeps a bound given as text verbatim is refuted:
   two sources denoting the same doubles (0.5, 1e6, +Inf as "0.50", "1000000", "inf" / as numbers) get different
   label strings, the textual one not the renderings of its doubles - while the code exposes both identically *)
Theorem C13_hist_le_verbatim_refuted :
  exists s1 s2 : list given,
    with_inf (map given_float s1) = with_inf (map given_float s2)
    /\ hist_les_verbatim s1 <> hist_les_verbatim s2
    /\ hist_les_verbatim s1 <> map go_string (with_inf (map given_float s1))
    /\ hist_les_verbatim s2 = map go_string (with_inf (map given_float s2))
    /\ forall counts, hist_le_samples given given_float s1 counts = hist_le_samples given given_float s2 counts.
Proof. exact hist_les_verbatim_wrong. Qed.
Print Assumptions C13_hist_le_verbatim_refuted.

(* non-vacuity: 12345678900.0 meets the hypotheses and renders as 1.23456789e+10 *)
Example C13_example :
  fixed_repr 49 (s2l "2345678900") (s2l "0") /\
  go_string (FFin true (s2l "12345678900.0")) = s2l "1.23456789e+10" /\
  go_string_orig (FFin true (s2l "12345678900.0")) = s2l "1.23456789e+010".
Proof.
  split; [|vm_compute; auto].
  constructor; [unfold N.le; split; discriminate|reflexivity|reflexivity|discriminate|vm_compute; repeat constructor].
Qed.
