(* C04, second direction (accepted document -> expose -> parse reproduces the families): parser-side defects.
   Statements only; proofs in proofs/OMWitness.v.

   * C04_timestamp_exponent_orig_refuted: the pinned _parse_timestamp reads the float literal 1.123456789e5 as
     Timestamp(1, 123456789); the exposition writes every float timestamp >= 1e16 (and many below) in that shape, so
     such an accepted document comes back with another timestamp.  Repaired source (fixes/C04-om-timestamp-exponent.diff):
     the literal is the float it denotes.  Holds for ANY oracles answering like CPython on the tokens named in the
     hypotheses.
   * C04_sample_name_orig_refuted: the pinned _parse_sample records the name ' a' (with the space) for the line
     ' a{} 1' inside the family 'a'; exposed, that sample is written {" a"} and is rejected on the way back.  Repaired
     source (fixes/C04-om-sample-name.diff): the line is rejected.
   * C04_implicit_family_name_orig_refuted (+ _witnesses): a sample whose name the family in progress does not allow
     starts an implicit family of type unknown.  The pinned text_fd_to_metric_families names it
     _unquote_unescape(sample.name) although sample.name is already unquoted and unescaped: the quoted sample name
     ' a' gives the family a holding the sample ' a', whose exposition (# TYPE a unknown, then the quoted ' a') is
     rejected with Clashing name.  Repaired source (fixes/C04-om-implicit-family-name.diff, flag fix_sname): the
     family takes the sample's name as it is.
   * C04_implicit_family_enter, C04_unknown_family_samples_named: the repaired model, for ARBITRARY oracles and every
     setting of the other flags: the state a sample opens is named by that sample and allows exactly that name, and
     every family of type unknown that om_parse returns holds only samples carrying the family's name
     (C04_unknown_family_samples_named_orig_refuted: the pinned model does not have that property).
   The round trip itself (parse -> expose -> parse = id on accepted documents) is NOT proved here: it needs the
   exposition model (model/Expo.v, C04's first direction) and is checked by the direct oracle of harness/c04b.py. *)
From V Require Import lib.PyBase lib.PyStr model.OMParser proofs.OMWitness proofs.OMImplicitName.
Open Scope N_scope.

Theorem C04_timestamp_exponent_orig_refuted :
  forall (NUM : Type) (parse_float : str -> option NUM) (parse_int : str -> option Z)
         (num_eqb : NUM -> NUM -> bool) (num_isinf : NUM -> bool) (x : NUM),
    parse_int (s2l "1.123456789e5") = None -> parse_int (s2l "123456789e5") = None ->
    parse_int (s2l "1") = Some 1%Z -> parse_int (s2l "123456789") = Some 123456789%Z ->
    parse_float (s2l "1.123456789e5") = Some x -> num_eqb x x = true /\ num_isinf x = false ->
    om_parse_timestamp false NUM parse_float parse_int num_eqb num_isinf (s2l "1.123456789e5")
      = Ok (Some (OTs 1 123456789))
    /\ om_parse_timestamp true NUM parse_float parse_int num_eqb num_isinf (s2l "1.123456789e5")
      = Ok (Some (OTf x)).
Proof.
  intros NUM pf pi ne ni x H1 H2 H3 H4 H5 H6. split.
  - exact (tsexp_orig NUM pf pi ne ni H1 H3 H4).
  - exact (tsexp_fixed NUM pf pi ne ni x H1 H2 H3 H5 H6).
Qed.
Print Assumptions C04_timestamp_exponent_orig_refuted.

Theorem C04_sample_name_orig_refuted :
  is_ok (toy_parse true true true true true false doc_sname) = true
  /\ toy_parse true true true true true true doc_sname = Err ValueError.
Proof. exact (conj sname_orig sname_fixed). Qed.
Print Assumptions C04_sample_name_orig_refuted.

(* ---- the implicit unknown family is named by its sample (fixes/C04-om-implicit-family-name.diff) ----
   fam_shape r = (family name, type, names of its samples) for every family of the parse result r;
   toy_parse .. sname doc = om_parse with the toy oracles of proofs/OMWitness.v, the last flag being fix_sname.
   doc_implicit_sp is the two-line document whose sample line is the quoted name ' a' in braces followed by 1. *)
Theorem C04_implicit_family_name_orig_refuted :
  fam_shape (toy_parse true true true true true false doc_implicit_sp) = Ok [(s2l "a", OM_unknown, [s2l " a"])]
  /\ fam_shape (toy_parse true true true true true true doc_implicit_sp) = Ok [(s2l " a", OM_unknown, [s2l " a"])].
Proof. exact (conj implicit_sp_orig implicit_sp_fixed). Qed.
Print Assumptions C04_implicit_family_name_orig_refuted.

(* the other shapes: a trailing space, a suffix-like name, a quoted name that itself starts and ends with a quote
   character (the second unquoting strips them), and a quoted UTF-8 name without metadata, which the pinned source
   rejects (no second unquoting took place, and a.b is not a legacy name) *)
Theorem C04_implicit_family_name_witnesses :
  (fam_shape (toy_parse true true true true true false doc_implicit_trail) = Ok [(s2l "a", OM_unknown, [s2l "a "])]
   /\ fam_shape (toy_parse true true true true true true doc_implicit_trail) = Ok [(s2l "a ", OM_unknown, [s2l "a "])])
  /\ (fam_shape (toy_parse true true true true true false doc_implicit_total)
        = Ok [(s2l "a_total", OM_unknown, [s2l " a_total"])]
      /\ fam_shape (toy_parse true true true true true true doc_implicit_total)
        = Ok [(s2l " a_total", OM_unknown, [s2l " a_total"])])
  /\ (fam_shape (toy_parse true true true true true false doc_implicit_quoted) = Ok [(s2l "a", OM_unknown, [s2l """a"""])]
      /\ fam_shape (toy_parse true true true true true true doc_implicit_quoted)
        = Ok [(s2l """a""", OM_unknown, [s2l """a"""])])
  /\ (fam_shape (toy_parse true true true true true false doc_implicit_dotted) = Err ValueError
      /\ fam_shape (toy_parse true true true true true true doc_implicit_dotted) = Ok [(s2l "a.b", OM_unknown, [s2l "a.b"])]).
Proof.
  exact (conj (conj implicit_trail_orig implicit_trail_fixed)
        (conj (conj implicit_total_orig implicit_total_fixed)
        (conj (conj implicit_quoted_orig implicit_quoted_fixed)
              (conj implicit_dotted_orig implicit_dotted_fixed)))).
Qed.
Print Assumptions C04_implicit_family_name_witnesses.

Section C04bNamed.
  Variable legacy guard_fix fix_nhkeys fix_nhsfx fix_tsmix fix_isnan fix_unit fix_quote fix_tsexp : bool.
  Variable NUM : Type.
  Variable parse_num parse_float : str -> option NUM.
  Variable parse_int : str -> option Z.
  Variable num_lt num_eqb : NUM -> NUM -> bool.
  Variable num_isinf num_integral num_huge : NUM -> bool.
  Variable num_zero num_one num_inf : NUM.
  Variable ts_float : Z -> Z -> option NUM.
  Variable is_word is_space_re is_digit_re : char -> bool.

  (* fix_sname = true throughout *)
  Notation parse := (om_parse legacy guard_fix fix_nhkeys fix_nhsfx fix_tsmix fix_isnan fix_unit fix_quote fix_tsexp true
                      NUM parse_num parse_float parse_int num_lt num_eqb num_isinf num_integral num_huge
                      num_zero num_one num_inf ts_float is_word is_space_re is_digit_re).
  Notation enter_family := (om_enter_family legacy guard_fix fix_nhsfx true NUM parse_float num_lt num_eqb num_zero num_inf).
  Notation flush := (om_flush legacy NUM parse_float num_lt num_eqb num_zero num_inf).

  (* a sample (not a native-histogram one) whose name the family in progress does not allow: the family in progress
     is built (flush) and the new state is the empty unknown family named by the sample, allowing exactly its name *)
  Theorem C04_implicit_family_enter : forall st (s : om_sample NUM) st' out,
    enter_family st s false = Ok (st', out) -> mem_str (os_name s) (st_allowed st) = false ->
    st_name st' = Some (os_name s) /\ st_allowed st' = [os_name s] /\ st_typ st' = Some OM_unknown /\
    st_samples st' = [] /\ exists seen', flush st = Ok (out, seen') /\ st_seen st' = seen'.
  Proof.
    exact (enter_family_named legacy guard_fix fix_nhsfx NUM parse_float num_lt num_eqb num_zero num_inf).
  Qed.

  (* document level: whatever the document, a returned family of type unknown (opened by a sample, by metadata without
     a TYPE line, or by `# TYPE name unknown`) holds only samples that carry the family's own name *)
  Theorem C04_unknown_family_samples_named : forall text fams f,
    parse text = Ok fams -> In f fams -> of_type f = OM_unknown ->
    Forall (fun s => os_name s = of_name f) (of_samples f).
  Proof.
    intros text fams f H Hin.
    exact (proj1 (Forall_forall _ _)
             (parse_unknown_named legacy guard_fix fix_nhkeys fix_nhsfx fix_tsmix fix_isnan fix_unit fix_quote fix_tsexp
                NUM parse_num parse_float parse_int num_lt num_eqb num_isinf num_integral num_huge
                num_zero num_one num_inf ts_float is_word is_space_re is_digit_re text fams H) f Hin).
  Qed.
End C04bNamed.
Print Assumptions C04_implicit_family_enter.
Print Assumptions C04_unknown_family_samples_named.

Definition ex_sp_sample : om_sample Z :=
  {| os_name := s2l " a"; os_labels := Some []; os_value := Some 1%Z; os_ts := None; os_ex := None; os_nh := None |}.
Example C04_implicit_family_enter_nonvacuous :
  exists st' out,
    om_enter_family false true true true Z toy_float Z.ltb Z.eqb 0%Z (10 ^ 400)%Z om_st_init ex_sp_sample false = Ok (st', out)
    /\ mem_str (os_name ex_sp_sample) (st_allowed (@om_st_init Z)) = false.
Proof. eexists. eexists. split; vm_compute; reflexivity. Qed.

Example C04_unknown_family_samples_named_nonvacuous :
  exists fams f, toy_parse true true true true true true doc_implicit_sp = Ok fams /\ In f fams /\
                 of_type f = OM_unknown /\ of_samples f <> [].
Proof.
  eexists. eexists. split; [vm_compute; reflexivity|]. split; [left; reflexivity|]. split; [reflexivity|discriminate].
Qed.

(* the pinned model (fix_sname = false) does not have the property *)
Theorem C04_unknown_family_samples_named_orig_refuted :
  exists fams f, toy_parse true true true true true false doc_implicit_sp = Ok fams /\ In f fams /\
                 of_type f = OM_unknown /\ ~ Forall (fun s => os_name s = of_name f) (of_samples f).
Proof. exact parse_unknown_named_orig_refuted. Qed.
Print Assumptions C04_unknown_family_samples_named_orig_refuted.
