(* C04, second direction (accepted document -> expose -> parse reproduces the families): parser-side defects.
   Statements only; proofs in proofs/OMWitness.v.

   * C04_timestamp_exponent_orig_refuted: the pinned _parse_timestamp reads the float literal 1.123456789e5 as
     Timestamp(1, 123456789); the exposition writes every float timestamp >= 1e16 (and many below) in that shape, so
     such an accepted document comes back with another timestamp.  Repaired source (fixes/C04-om-timestamp-exponent.diff):
     the literal is the float it denotes.  Holds for ANY oracles answering like CPython on the tokens named in the
     hypotheses.
   * C04_sample_name_orig_refuted: the pinned _parse_sample records the name ' a' (with the space) for the line
     ' a{} 1' inside the family 'a'; exposed, that sample is written {" a"} and is rejected on the way back.  Repaired
     source (fixes/C04-om-sample-name.diff): the line is rejected.
   The round trip itself (parse -> expose -> parse = id on accepted documents) is NOT proved here: it needs the
   exposition model (model/Expo.v, C04's first direction) and is checked by the direct oracle of harness/c04b.py. *)
From V Require Import lib.PyBase lib.PyStr model.OMParser proofs.OMWitness.
Open Scope N_scope.

Theorem C04_timestamp_exponent_orig_refuted :
  forall (NUM : Type) (parse_float : str -> option NUM) (parse_int : str -> option Z)
         (num_eqb : NUM -> NUM -> bool) (num_isinf : NUM -> bool) (x : NUM),
    parse_int (s2l "1.123456789e5") = None -> parse_int (s2l "123456789e5") = None ->
    parse_int (s2l "1") = Some 1%Z -> parse_int (s2l "123456789") = Some 123456789%Z ->
    parse_float (s2l "1.123456789e5") = Some x -> num_eqb x x = true /\ num_isinf x = false ->
    om_parse_timestamp false NUM parse_float parse_int num_eqb num_isinf (s2l "1.123456789e5")
      = Ok (Some (OTs 1 123456789))
    /\ om_parse_timestamp true NUM parse_float parse_int num_eqb num_isinf (s2l "1.123456789e5")
      = Ok (Some (OTf x)).
Proof.
  intros NUM pf pi ne ni x H1 H2 H3 H4 H5 H6. split.
  - exact (tsexp_orig NUM pf pi ne ni H1 H3 H4).
  - exact (tsexp_fixed NUM pf pi ne ni x H1 H2 H3 H5 H6).
Qed.
Print Assumptions C04_timestamp_exponent_orig_refuted.

Theorem C04_sample_name_orig_refuted :
  is_ok (toy_parse true true true true true false doc_sname) = true
  /\ toy_parse true true true true true true doc_sname = Err ValueError.
Proof. exact (conj sname_orig sname_fixed). Qed.
Print Assumptions C04_sample_name_orig_refuted.
