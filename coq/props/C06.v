(* C06 - A registry never holds two collectors claiming the same series name.
   Statements only; every proof is `exact <lemma>` (proofs/RegistryProofs.v).
   Model: model/Registry.v (register / unregister / set_target_info of prometheus_client/registry.py, with the
   suffix table of _get_names); specification vocabulary: model/RegistrySpec.v (claims, registered, occupied,
   Inv, InvS).  Collectors are abstract: env : cid -> (describe() result if any, collect() result).
   The collectors may CHANGE during a history: run_dyn gives every step its own env, and Nop stands for any
   step that is not a registry call (a collector changing what it describes, created series being switched
   on or off).  The names a collector claims are those recorded when it was registered: Inv does not mention
   env, the suffix table does not mention the created-series setting, unregister does not consult env.
   No Section hypotheses, no platform facts.
   The main model describes the source after fixes/C06-unregister-repeated-names.diff (_get_names records each
   name once) and fixes/C06-reregister-keeps-names.diff (register keeps the names recorded earlier for an
   already registered collector); the pinned source is step_orig / run_orig and merge = false. *)
From V Require Import lib.PyBase model.Registry model.RegistrySpec proofs.RegistryProofs.
Open Scope N_scope.

(* the invariant holds after ANY history of register / unregister / set_target_info calls, failed ones included,
   with auto_describe on or off, whatever the collectors describe at each step *)
Theorem C06_inv_reachable : forall a eops, Inv (run_dyn (empty_reg a) eops).
Proof. exact Inv_reachable_dyn. Qed.
Print Assumptions C06_inv_reachable.

(* ... and is preserved by every single call from any state satisfying it *)
Theorem C06_inv_step : forall env r o, Inv r -> Inv (fst (step env r o)).
Proof. exact Inv_step. Qed.
Print Assumptions C06_inv_step.

(* no two registered collectors claim one name *)
Theorem C06_no_clash : forall r c1 c2 n, Inv r -> claims r c1 n -> claims r c2 n -> c1 = c2.
Proof. exact no_clash. Qed.
Print Assumptions C06_no_clash.

(* while target info is configured no registered collector claims target_info *)
Theorem C06_no_clash_target_info : forall r c, Inv r -> ti r <> [] -> ~ claims r c TI_NAME.
Proof. exact no_clash_target_info. Qed.
Print Assumptions C06_no_clash_target_info.

(* a failed register raises ValueError and leaves the registry exactly as it was (for any _get_names) *)
Theorem C06_failed_register_unchanged : forall env gn mg r c r' e,
  register_gen env gn mg r c = (r', Some e) -> r' = r /\ e = ValueError.
Proof. exact register_fail_unchanged. Qed.
Print Assumptions C06_failed_register_unchanged.

Theorem C06_failed_set_target_info_unchanged : forall r l r' e,
  set_target_info r l = (r', Some e) -> r' = r /\ e = ValueError.
Proof. exact set_target_info_fail_unchanged. Qed.
Print Assumptions C06_failed_set_target_info_unchanged.

(* in general: any call that raises leaves the registry exactly as it was, and raises ValueError - except
   unregister of a collector that is not registered, which raises KeyError *)
Theorem C06_failed_step_unchanged : forall env r o e, Inv r -> snd (step env r o) = Some e ->
  fst (step env r o) = r
  /\ (e = ValueError \/ (e = KeyError /\ exists c, o = Unregister c /\ ~ registered r c)).
Proof. exact failed_step_unchanged. Qed.
Print Assumptions C06_failed_step_unchanged.

(* register fails exactly when one of the names the collector describes NOW - each family name plus the
   suffixes of its type, _created included unconditionally - is taken by a registered collector or target info *)
Theorem C06_register_succeeds_iff : forall env r c, Inv r ->
  (snd (register env r c) = None <->
   forall n, In n (names_of_desc (described (auto r) (env c))) -> ~ occupied r n).
Proof. exact register_succeeds_iff. Qed.
Print Assumptions C06_register_succeeds_iff.

(* a successful register adds those names to the collector's claims and changes nothing else *)
Theorem C06_register_effect : forall env r c, Inv r -> snd (register env r c) = None ->
  (forall c' n, claims (fst (register env r c)) c' n <->
                claims r c' n \/ (c' = c /\ In n (names_of_desc (described (auto r) (env c)))))
  /\ registered (fst (register env r c)) c
  /\ ti (fst (register env r c)) = ti r /\ auto (fst (register env r c)) = auto r.
Proof. exact register_effect. Qed.
Print Assumptions C06_register_effect.

(* configuring target info fails exactly when it is not configured yet and a collector claims target_info *)
Theorem C06_set_target_info_succeeds_iff : forall r l, Inv r -> l <> [] ->
  (snd (set_target_info r l) = None <-> ti r <> [] \/ ~ exists c, claims r c TI_NAME).
Proof. exact set_target_info_succeeds_iff. Qed.
Print Assumptions C06_set_target_info_succeeds_iff.

(* unregister of a registered collector succeeds, and releases all and only the names recorded for it -
   whatever the collector describes by then (unregister takes no environment) *)
Theorem C06_unregister_releases_exactly : forall r c ns, Inv r -> In (c, ns) (c2n r) ->
  snd (unregister r c) = None
  /\ ~ registered (fst (unregister r c)) c
  /\ (forall c' n, claims (fst (unregister r c)) c' n <-> c' <> c /\ claims r c' n)
  /\ (forall n, occupied (fst (unregister r c)) n <-> occupied r n /\ ~ In n ns)
  /\ ti (fst (unregister r c)) = ti r /\ auto (fst (unregister r c)) = auto r.
Proof. exact (unregister_releases_exactly no_env). Qed.
Print Assumptions C06_unregister_releases_exactly.

(* unregister of a collector that is not registered raises KeyError and changes nothing *)
Theorem C06_unregister_unregistered : forall r c, ~ registered r c -> unregister r c = (r, Some KeyError).
Proof. exact unregister_unregistered. Qed.
Print Assumptions C06_unregister_unregistered.

(* after unregister of c, any collector d that only c was blocking can be registered (env = the collectors as
   they are when d is registered) *)
Theorem C06_blocked_registers_after_unregister : forall env r c d, Inv r -> registered r c ->
  (forall n, In n (names_of_desc (described (auto r) (env d))) -> occupied r n -> claims r c n) ->
  snd (register env (fst (unregister r c)) d) = None.
Proof. exact blocked_registers_after_unregister. Qed.
Print Assumptions C06_blocked_registers_after_unregister.

(* while no collector changes (run env = the same env at every step) the recorded names are exactly the
   described ones ... *)
Theorem C06_static_inv_reachable : forall env a ops, InvS env (run env (empty_reg a) ops).
Proof. exact InvS_reachable. Qed.
Print Assumptions C06_static_inv_reachable.

Theorem C06_claims_are_described : forall env r c n, InvS env r -> registered r c ->
  (claims r c n <-> In n (names_of_desc (described (auto r) (env c)))).
Proof. exact claims_are_described. Qed.
Print Assumptions C06_claims_are_described.

(* ... and after unregister the same collector can be registered again *)
Theorem C06_reregister_after_unregister : forall env r c, InvS env r -> registered r c ->
  snd (register env (fst (unregister r c)) c) = None.
Proof. exact reregister_after_unregister. Qed.
Print Assumptions C06_reregister_after_unregister.

(* the pinned source (before fixes/C06-unregister-repeated-names.diff): a collector describing x as counter and
   x_total as gauge records x_total twice; unregister raises KeyError half-way, leaves the collector registered
   with its names freed, and a second claimant of x_total then registers *)
Theorem C06_unregister_orig_refuted :
  exists env ops c,
    let r := run_orig env (empty_reg false) ops in
    registered r c /\ snd (unregister r c) = Some KeyError /\ fst (unregister r c) <> r
    /\ exists d n, let r' := run_orig env r [Unregister c; Register d] in
         c <> d /\ claims r' c n /\ claims r' d n.
Proof. exact unregister_orig_refuted. Qed.
Print Assumptions C06_unregister_orig_refuted.

(* the pinned source (before fixes/C06-reregister-keeps-names.diff): a registered collector that now describes
   other names is registered again; its earlier names are forgotten but stay in the name map, so after
   unregister they are taken although nothing is registered *)
Theorem C06_reregister_orig_refuted :
  exists eops n,
    let r := run_dyn_gen get_names false (empty_reg false) eops in
    c2n r = [] /\ ti r = [] /\ In n (map fst (n2c r)).
Proof. exact reregister_orig_refuted. Qed.
Print Assumptions C06_reregister_orig_refuted.

(* non-vacuity: a Counter-like collector 0 (x: counter), a Gauge-like collector 1 (x_total); 1 is blocked by 0,
   registers after 0 is unregistered, and then blocks 0; target info clashes with an Info-like 'target';
   collector 0 changing into x_total after registration still releases x, x_total, x_created on unregister *)
Definition ex_env (c : cid) : cbeh :=
  if N.eqb c 0 then mk_cbeh (Some [(NAME_x, TCounter)]) []
  else if N.eqb c 1 then mk_cbeh (Some [(NAME_x_total, TGauge)]) []
  else mk_cbeh None [mk_family S_target TInfo [] [] []].
Definition ex_env' (c : cid) : cbeh := mk_cbeh (Some [(NAME_x_total, TGauge)]) [].
Example C06_example :
  let st r o := step ex_env r o in
  let r1 := fst (st (empty_reg true) (Register 0)) in
  snd (st r1 (Register 1)) = Some ValueError
  /\ snd (st (fst (st r1 (Unregister 0))) (Register 1)) = None
  /\ snd (st (fst (st (fst (st r1 (Unregister 0))) (Register 1))) (Register 0)) = Some ValueError
  /\ snd (st (fst (st r1 (Register 2))) (SetTargetInfo [([97], [98])])) = Some ValueError
  /\ snd (st (fst (st r1 (SetTargetInfo [([97], [98])]))) (Register 2)) = Some ValueError
  /\ map fst (n2c r1) = [NAME_x; NAME_x_total; NAME_x ++ S_created]
  /\ n2c (run_dyn (empty_reg true) [(ex_env, Register 0); (ex_env', Nop); (ex_env', Unregister 0)]) = [].
Proof. vm_compute. repeat split. Qed.
