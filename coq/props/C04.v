(* C04 - OpenMetrics exposition and parser are mutually inverse.  Statements only (layered; see DESIGN.md 7/C04). *)
From V Require Import lib.PyBase lib.PyStr model.Validation model.Expo model.TextParser proofs.EscapeProofs proofs.LabelRoundTrip.
Open Scope N_scope.

(* label values, exemplar label values, quoted names: the shared unescaping inverts the shared escaping *)
Theorem C04_L1_unescape_escape : forall s, replace_escaping (escape_chain s) = s.
Proof. exact (fun s => eq_trans (f_equal replace_escaping (escape_chain_eq s)) (unescape_escape s)). Qed.
Print Assumptions C04_L1_unescape_escape.

(* L2: a quoted, escaped string is skipped as a whole by the quote-aware scanner, whatever it contains *)
Theorem C04_L2_quoted_scan : forall chs v rest, mem_char DQ chs = false ->
  ScanFacts.nuq0 chs (quote (escape v) ++ rest) false false
  = option_map (fun k => (length (quote (escape v)) + k)%nat) (ScanFacts.nuq0 chs rest false false)
  /\ ScanFacts.st_after (quote (escape v)) false false = (false, false).
Proof. exact quoted_scan. Qed.
Print Assumptions C04_L2_quoted_scan.

(* L3: the label block both expositions write - names bare when legacy, quoted and escaped otherwise, values
   quoted and escaped, sorted, comma-separated - is read back by parse_labels exactly and in order, for ALL label
   names and values (keys distinct, not reserved '__...', as the constructors guarantee) *)
Theorem C04_L3_labels_roundtrip : forall labels,
  Forall key_ok (map fst labels) -> NoDup (map fst labels) ->
  parse_labels false true (labelstr labels) false = Ok (sort_kv labels).
Proof. exact labelstr_roundtrip. Qed.
Print Assumptions C04_L3_labels_roundtrip.

Example C04_L3_nonvacuous :
  let labels := [([LF; DQ; BS], [DQ; BS; LF; COMMA; RBRACE; EQS]); (s2l "le", s2l "+Inf")] in
  Forall key_ok (map fst labels) /\ NoDup (map fst labels) /\
  parse_labels false true (labelstr labels) false = Ok (sort_kv labels).
Proof.
  cbv zeta. split; [repeat constructor|]. split; [|vm_compute; reflexivity].
  constructor; [intros [H|[]]; discriminate|]. constructor; [intros []|constructor].
Qed.
