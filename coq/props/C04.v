(* C04 - OpenMetrics exposition and parser are mutually inverse.  Statements only (layered; see DESIGN.md 7/C04). *)
From V Require Import lib.PyBase lib.PyStr model.Validation model.Expo model.TextParser proofs.EscapeProofs.
Open Scope N_scope.

(* label values, exemplar label values, quoted names: the shared unescaping inverts the shared escaping *)
Theorem C04_L1_unescape_escape : forall s, replace_escaping (escape_chain s) = s.
Proof. exact (fun s => eq_trans (f_equal replace_escaping (escape_chain_eq s)) (unescape_escape s)). Qed.
Print Assumptions C04_L1_unescape_escape.
