(* C08 - multiprocess collection equals the per-mode aggregate over all worker histories.
   Statements only; every proof is `exact <lemma>` (proofs/MultiprocProofs.v).
   Model: model/Multiproc.v (MultiProcessCollector.merge = _read_metrics + _accumulate_metrics, mark_process_dead);
   specification side: model/MultiprocSpec.v (per-series aggregates over the contributions in read order).
   Input: ANY list of files in read order, each (type, mode, pid, entries key -> (value, timestamp)).
   Parametric in the float type F.  Float facts are Section hypotheses of the one theorem that needs them
   (C08_min_max_order_independent): flt is irreflexive and transitive; on non-NaN values it is a strict total order
   whose incomparability is feqb.  parse_le / fmt_le (float(str), floatToGoString) are uninterpreted. *)
From V Require Import lib.PyBase model.Multiproc model.MultiprocSpec proofs.MultiprocProofs proofs.MultiprocLeProofs.
From Coq Require Import Permutation.
Open Scope N_scope.

(* _read_metrics groups the entries by metric name: one family per name that occurs, its help and type taken from the
   first entry read, its samples = the entries of that name in read order (gauges get the pid of their file as label) *)
Theorem C08_read_groups_by_name :
  forall (F : Type) (fzero : F) (files : list (file F)) (mname : str),
    d_find str_eqb (read_metrics F fzero files) mname = metric_of F fzero (entries_of F mname files).
Proof. exact read_metrics_find. Qed.
Print Assumptions C08_read_groups_by_name.

(* The collector output refines the specification, family by family and series by series:
   a family is reported iff some file has an entry for it, exactly once, with the help/type of its entries; its series
   keys are pairwise distinct; and series k is spec_series = the per-mode aggregate of k's contributions in read order
   (counter/summary: left-to-right sum from 0.0; gauge: min / max / sum / mostrecent / one per pid;
    histogram: sums of the non-bucket samples overlaid with the bucket writes, see C08_histogram_cumulative_count_partial). *)
Theorem C08_aggregate_refines_spec :
  forall (F : Type) (fzero : F) (fadd : F -> F -> F) (flt feqb : F -> F -> bool)
         (parse_le : str -> F) (fmt_le : F -> str) (files : list (file F)) (n : str),
    match entries_of F n files with
    | [] => forall h t ss, ~ In (n, h, t, ss) (merge F fzero fadd flt feqb parse_le fmt_le files)
    | ((f0, (k0, _)) :: _) as es =>
        exists ss, In (n, k_help k0, f_typ F f0, ss) (merge F fzero fadd flt feqb parse_le fmt_le files)
          /\ NoDup (map fst ss)
          /\ (forall h t ss', In (n, h, t, ss') (merge F fzero fadd flt feqb parse_le fmt_le files) ->
                (h, t, ss') = (k_help k0, f_typ F f0, ss))
          /\ forall k, d_find skey_eqb ss k
                       = spec_series F fzero fadd flt feqb parse_le fmt_le (f_typ F f0) (mode_after F [] es) n
                           (map (sample_of F fzero) es) k
    end.
Proof. exact merge_refines. Qed.
Print Assumptions C08_aggregate_refines_spec.

(* No series duplicated or dropped (counters, summaries; labels preserved because the series key IS (name, labels)):
   a series is reported iff some entry carries exactly that name and label set. *)
Theorem C08_no_dup_no_drop_plain :
  forall (F : Type) (fzero : F) (fadd : F -> F -> F) (ss : list (sample F)) (k : skey),
    NoDup (map fst (acc_plain F fzero fadd ss))
    /\ (d_find skey_eqb (acc_plain F fzero fadd ss) k <> None <-> In k (map (full_key F) ss)).
Proof.
  exact (fun F fzero fadd ss k =>
           conj (acc_plain_NoDup F fzero fadd ss)
                (eq_ind_r (fun o => o <> None <-> In k (map (full_key F) ss))
                          (plain_present F fzero fadd ss k) (acc_plain_spec F fzero fadd ss k))).
Qed.
Print Assumptions C08_no_dup_no_drop_plain.

(* Gauges except mostrecent: one series per label set without pid (min/max/sum) or per label set with pid (all/liveall) *)
Theorem C08_no_dup_no_drop_gauge :
  forall (F : Type) (fzero : F) (fadd : F -> F -> F) (flt feqb : F -> F -> bool)
         (mode : str) (ss : list (sample F)) (k : skey),
    is_mode M_mostrecent M_livemostrecent mode = false ->
    NoDup (map fst (acc_gauge F fzero fadd flt feqb mode ss))
    /\ (d_find skey_eqb (acc_gauge F fzero fadd flt feqb mode ss) k <> None <-> In k (map (gauge_keyf F mode) ss)).
Proof.
  exact (fun F fzero fadd flt feqb mode ss k Hm =>
           conj (acc_gauge_NoDup F fzero fadd flt feqb mode ss)
                (eq_ind_r (fun o => o <> None <-> In k (map (gauge_keyf F mode) ss))
                          (gauge_present F fzero fadd flt feqb mode ss k Hm)
                          (acc_gauge_spec F fzero fadd flt feqb mode ss k))).
Qed.
Print Assumptions C08_no_dup_no_drop_gauge.

(* mostrecent: a series is reported iff one of its contributions has a set-time > 0 (a gauge that was never set has
   no set-time and is not reported); never duplicated, never invented *)
Theorem C08_no_dup_no_drop_mostrecent :
  forall (F : Type) (fzero : F) (fadd : F -> F -> F) (flt feqb : F -> F -> bool)
         (mode : str) (ss : list (sample F)) (k : skey),
    is_mode M_min M_livemin mode = false -> is_mode M_max M_livemax mode = false ->
    is_mode M_sum M_livesum mode = false -> is_mode M_mostrecent M_livemostrecent mode = true ->
    NoDup (map fst (acc_gauge F fzero fadd flt feqb mode ss))
    /\ (d_find skey_eqb (acc_gauge F fzero fadd flt feqb mode ss) k <> None <->
        exists s, In s ss /\ without_pid F s = k /\ ts_pos F fzero flt feqb (s_value F s, s_ts F s) = true).
Proof.
  exact (fun F fzero fadd flt feqb mode ss k H1 H2 H3 H4 =>
           conj (acc_gauge_NoDup F fzero fadd flt feqb mode ss)
                (eq_ind_r (fun o => o <> None <-> _)
                          (mostrecent_present F fzero fadd flt feqb mode ss k H1 H2 H3 H4)
                          (acc_gauge_spec F fzero fadd flt feqb mode ss k))).
Qed.
Print Assumptions C08_no_dup_no_drop_mostrecent.

(* min / max: the reported value is one of the contributions and none is smaller / greater (NaN-free contributions) *)
Theorem C08_min_is_least :
  forall (F : Type) (flt : F -> F -> bool) (fin : F -> Prop),
    (forall a, flt a a = false) ->
    (forall a b c, flt a b = true -> flt b c = true -> flt a c = true) ->
    (forall a b c, fin c -> flt a b = true -> flt a c = true \/ flt c b = true) ->
    forall (l : list F) (r : F), Forall fin l -> agg_min F flt l = Some r ->
      In r l /\ forall x, In x l -> flt x r = false.
Proof. exact (fun F flt fin H1 H2 H3 => agg_min_least F flt fin H1 H2 H3). Qed.
Print Assumptions C08_min_is_least.

Theorem C08_max_is_greatest :
  forall (F : Type) (flt : F -> F -> bool) (fin : F -> Prop),
    (forall a, flt a a = false) ->
    (forall a b c, flt a b = true -> flt b c = true -> flt a c = true) ->
    (forall a b c, fin c -> flt a b = true -> flt a c = true \/ flt c b = true) ->
    forall (l : list F) (r : F), Forall fin l -> agg_max F flt l = Some r ->
      In r l /\ forall x, In x l -> flt r x = false.
Proof. exact (fun F flt fin H1 H2 H3 => agg_max_greatest F flt fin H1 H2 H3). Qed.
Print Assumptions C08_max_is_greatest.

(* For NaN-free input the min/max result does not depend on the order in which glob returns the files
   (numerically: same_opt compares with feqb, so 0.0 and -0.0 count as the same result) *)
Theorem C08_min_max_order_independent :
  forall (F : Type) (fzero : F) (fadd : F -> F -> F) (flt feqb : F -> F -> bool) (fin : F -> Prop),
    (forall a, flt a a = false) ->
    (forall a b c, flt a b = true -> flt b c = true -> flt a c = true) ->
    (forall a b c, fin c -> flt a b = true -> flt a c = true \/ flt c b = true) ->
    (forall a b, fin a -> fin b -> flt a b = false -> flt b a = false -> feqb a b = true) ->
    forall (files files' : list (file F)) (n mode : str) (k : skey),
      Permutation files files' ->
      (forall f e, In f files -> In e (f_entries F f) -> fin (fst (snd e))) ->
      is_mode M_min M_livemin mode = true \/ is_mode M_max M_livemax mode = true ->
      same_opt F feqb
        (spec_gauge F fzero fadd flt feqb mode (map (sample_of F fzero) (entries_of F n files)) k)
        (spec_gauge F fzero fadd flt feqb mode (map (sample_of F fzero) (entries_of F n files')) k).
Proof. exact min_max_order_independent. Qed.
Print Assumptions C08_min_max_order_independent.

(* Histogram, one group of bucket series (labels without le): the writes are the cumulative sums in sorted bound
   order under the key (name_bucket, labels + le=floatToGoString(bound)), then _count = the LAST cumulative sum,
   i.e. the value reported for the greatest bound (+Inf).  sort_b only permutes.
   _partial: stated on the list of assignments of one group; that no other assignment hits the same key (distinct
   groups / bounds give distinct keys) is validated by the correspondence, not proved. *)
Theorem C08_histogram_cumulative_count_partial :
  forall (F : Type) (fzero : F) (fadd : F -> F -> F) (flt : F -> F -> bool) (fmt_le : F -> str)
         (mname : str) (ls : labels) (inner : assoc F F),
    let B := sort_b F flt inner in
    bucket_writes F fzero fadd flt fmt_le mname (ls, inner)
    = combine (map (bucket_key F fmt_le mname ls) (map fst B)) (prefix_sums F fadd fzero (map snd B))
      ++ [(count_key mname ls, last (prefix_sums F fadd fzero (map snd B)) fzero)]
    /\ Permutation B inner
    /\ forall i, (i < length B)%nat ->
         nth_error (prefix_sums F fadd fzero (map snd B)) i = Some (fold_left fadd (firstn (S i) (map snd B)) fzero).
Proof.
  exact (fun F fzero fadd flt fmt_le mname ls inner =>
           conj (bucket_writes_spec F fzero fadd flt fmt_le mname ls inner)
                (conj (sort_b_perm F flt inner)
                      (fun i Hi => prefix_sums_nth F fadd (map snd (sort_b F flt inner)) fzero i
                                     (eq_ind_r (fun n => (i < n)%nat) Hi (map_length snd (sort_b F flt inner)))))).
Qed.
Print Assumptions C08_histogram_cumulative_count_partial.

(* Histogram, lifted to the collector output of a whole family: for the label group ls (le removed) with bound/value
   contributions G in read order, B = the distinct parsed bounds with their sums (C08_histogram_per_bound_sum) sorted
   increasingly (C08_histogram_bounds_sorted): the i-th bucket series holds the i-th running sum of B, and _count holds
   the last running sum = the value of the greatest bound (+Inf).  Hypotheses (named platform facts): feqb (float ==)
   is symmetric/transitive on non-NaN bounds; floatToGoString is injective up to == on them (C13). *)
Theorem C08_histogram_cumulative_count :
  forall (F : Type) (fzero : F) (fadd : F -> F -> F) (flt feqb : F -> F -> bool)
         (parse_le : str -> F) (fmt_le : F -> str) (fin : F -> Prop),
    (forall a b, fin a -> fin b -> feqb a b = feqb b a) ->
    (forall a b c, fin a -> fin b -> fin c -> feqb a b = true -> feqb b c = true -> feqb a c = true) ->
    (forall a b, fin a -> fin b -> fmt_le a = fmt_le b -> feqb a b = true) ->
    forall (mname : str) (ss : list (sample F)) (ls : labels),
      let G := group_items F parse_le ss ls in
      let B := sort_b F flt (dfold feqb (upd_sum F fzero fadd) [] G) in
      G <> [] -> Forall (fun bv => fin (fst bv)) G ->
      (forall i b, nth_error (map fst B) i = Some b ->
         d_find skey_eqb (acc_histogram F fzero fadd flt feqb parse_le fmt_le mname ss) (bucket_key F fmt_le mname ls b)
         = nth_error (prefix_sums F fadd fzero (map snd B)) i)
      /\ d_find skey_eqb (acc_histogram F fzero fadd flt feqb parse_le fmt_le mname ss) (count_key mname ls)
         = Some (last (prefix_sums F fadd fzero (map snd B)) fzero).
Proof. exact hist_lookup. Qed.
Print Assumptions C08_histogram_cumulative_count.

(* buckets are merged per PARSED bound: each distinct bound holds the left-to-right sum of the values filed under a
   bound == to it, and no two merged bounds are == *)
Theorem C08_histogram_per_bound_sum :
  forall (F : Type) (fzero : F) (fadd : F -> F -> F) (feqb : F -> F -> bool) (fin : F -> Prop),
    (forall a b, fin a -> fin b -> feqb a b = feqb b a) ->
    (forall a b c, fin a -> fin b -> fin c -> feqb a b = true -> feqb b c = true -> feqb a c = true) ->
    forall (G : list (F * F)) (b : F), Forall (fun bv => fin (fst bv)) G -> fin b ->
      d_find feqb (dfold feqb (upd_sum F fzero fadd) [] G) b = agg_sum F fzero fadd (vals_of feqb b G)
      /\ NoDupK feqb (dfold feqb (upd_sum F fzero fadd) [] G).
Proof.
  exact (fun F fzero fadd feqb fin Hs Ht G b HG Hb =>
           conj (inner_find F fzero fadd feqb fin Hs Ht G b HG Hb) (inner_NoDupK F fzero fadd feqb fin Hs Ht G HG)).
Qed.
Print Assumptions C08_histogram_per_bound_sum.

(* sorted(values.items()) puts the bounds in increasing order (flt irreflexive and transitive): no later bound is
   smaller than an earlier one, so the running sums are the cumulative bucket counts *)
Theorem C08_histogram_bounds_sorted :
  forall (F : Type) (flt : F -> F -> bool),
    (forall a, flt a a = false) ->
    (forall a b c, flt a b = true -> flt b c = true -> flt a c = true) ->
    forall l : list (F * F), Sorted.StronglySorted (bound_le F flt) (sort_b F flt l).
Proof. exact sort_b_sorted. Qed.
Print Assumptions C08_histogram_bounds_sorted.

(* mark_process_dead(pid) removes exactly the five live-mode gauge files of that pid and nothing else *)
Theorem C08_mark_dead_exact :
  forall (pid : str) (dir : list str) (n : str),
    In n (mark_dead pid dir) <-> In n dir /\ ~ exists m, In m LIVE_MODES /\ n = gauge_fname m pid.
Proof. exact mark_dead_spec. Qed.
Print Assumptions C08_mark_dead_exact.

(* `le` is a bucket label for HISTOGRAM families only (Histogram alone reserves the name; Counter, Summary and Gauge accept
   a user label called le): the accumulation dispatches on the family type first, so for any family that is neither a gauge
   nor a histogram every series - keyed by the sample name and the FULL label tuple, a label named le with any value
   included; float() is never applied to it - is reported exactly once and none is dropped. *)
Theorem C08_le_is_a_bucket_label_of_histograms_only :
  forall (F : Type) (fzero : F) (fadd : F -> F -> F) (flt feqb : F -> F -> bool) (parse_le : str -> F) (fmt_le : F -> str)
         (m : metric F) (k : skey),
    str_eqb (m_typ F m) S_gauge = false -> str_eqb (m_typ F m) S_histogram = false ->
    NoDup (map fst (accumulate F fzero fadd flt feqb parse_le fmt_le m))
    /\ (d_find skey_eqb (accumulate F fzero fadd flt feqb parse_le fmt_le m) k <> None
        <-> In k (map (full_key F) (m_samples F m))).
Proof. exact plain_family_series. Qed.
Print Assumptions C08_le_is_a_bucket_label_of_histograms_only.

(* non-vacuity: a counter and a summary whose label is called le, with a value float() rejects and two spellings of one
   number: three separate series, summed per series over the two files; parse_le is never consulted (it maps everything
   to 0 here: had the samples gone through the bucket table they would have been merged and lost) *)
Example C08_user_le_example :
  let k (v : str) := mkKey (s2l "c") (s2l "c_total") [(S_le, v)] (s2l "h") in
  let q := mkKey (s2l "s") (s2l "s_count") [(S_le, s2l "abc"); (s2l "z", s2l "x")] (s2l "h") in
  let c1 := mkFile Z (s2l "counter") [] [] [(k (s2l "abc"), (3%Z, 0%Z)); (k (s2l "1"), (1%Z, 0%Z))] in
  let c2 := mkFile Z (s2l "counter") [] [] [(k (s2l "1.0"), (5%Z, 0%Z)); (k (s2l "abc"), (4%Z, 0%Z))] in
  let s1 := mkFile Z (s2l "summary") [] [] [(q, (2%Z, 0%Z))] in
  merge Z 0%Z Z.add Z.ltb Z.eqb (fun _ => 0%Z) (fun _ => []) [c1; s1; c2]
  = [(s2l "c", s2l "h", s2l "counter", [((s2l "c_total", [(S_le, s2l "abc")]), 7%Z);
                                         ((s2l "c_total", [(S_le, s2l "1")]), 1%Z);
                                         ((s2l "c_total", [(S_le, s2l "1.0")]), 5%Z)]);
     (s2l "s", s2l "h", s2l "summary", [((s2l "s_count", [(S_le, s2l "abc"); (s2l "z", s2l "x")]), 2%Z)])].
Proof. vm_compute. reflexivity. Qed.

(* non-vacuity (F = Z, exact arithmetic): two files of a `max` gauge and a counter; max(-1, 5) = 5 whatever the order,
   the counter sums over both pids, and marking pid 2 dead removes only its livesum file *)
Example C08_example :
  let g := mkKey (s2l "g") (s2l "g") [] (s2l "h") in
  let c := mkKey (s2l "c") (s2l "c_total") [] (s2l "h") in
  let f1 := mkFile Z (s2l "gauge") (s2l "max") (s2l "1") [(g, ((-1)%Z, 0%Z))] in
  let f2 := mkFile Z (s2l "gauge") (s2l "max") (s2l "2") [(g, (5%Z, 0%Z))] in
  let c1 := mkFile Z (s2l "counter") [] [] [(c, (3%Z, 0%Z))] in
  let c2 := mkFile Z (s2l "counter") [] [] [(c, (4%Z, 0%Z))] in
  let out l := merge Z 0%Z Z.add Z.ltb Z.eqb (fun _ => 0%Z) (fun _ => []) l in
  out [f1; c1; f2; c2] = [(s2l "g", s2l "h", s2l "gauge", [((s2l "g", []), 5%Z)]);
                          (s2l "c", s2l "h", s2l "counter", [((s2l "c_total", []), 7%Z)])]
  /\ out [c2; f2; f1; c1] = [(s2l "c", s2l "h", s2l "counter", [((s2l "c_total", []), 7%Z)]);
                             (s2l "g", s2l "h", s2l "gauge", [((s2l "g", []), 5%Z)])]
  /\ mark_dead (s2l "2") [s2l "gauge_livesum_2.db"; s2l "gauge_sum_2.db"; s2l "gauge_livesum_21.db"; s2l "counter_2.db"]
     = [s2l "gauge_sum_2.db"; s2l "gauge_livesum_21.db"; s2l "counter_2.db"].
Proof. vm_compute. repeat split. Qed.
