(* C18 - write_to_textfile replaces the target atomically or not at all.
   Statements only; every proof is `exact <lemma>` (proofs/TextfileProofs.v).  Model: model/Textfile.v -
   one call as an effect machine [wstep] over a file system (name -> bytes); [wsteps c n] = the state after n I/O
   steps, i.e. what a reader or a crash sees at that cut point; [srun sched] = several calls interleaved at their I/O
   steps.  The fault plan [w_plan] is ARBITRARY in every theorem below unless restricted explicitly: any number of
   faults, either class, with any partial write.  [w_catch_base c = true] is the repaired handler
   (`except BaseException`), [false] the pinned source (`except Exception`).
   The one operating-system fact the model assumes is that rename/replace is ONE transition ([os_move]); it is
   part of the model, not a Coq hypothesis, and is listed in the harness' TRUSTED.
   SHORT writes ([w_short]: the OS accepts only a prefix of submission j and reports the count) are ARBITRARY too
   wherever [keeps c] is assumed: [keeps c] = the handle submits the remainder again ([w_retry c = true], what the
   io.BufferedWriter of `open(tmppath, 'wb')` does) or there are no short writes.  The big-step reading [wresult]
   does not know short writes; the theorems that mention it assume [w_short c = []], and their short-write
   counterparts (..._short) are stated on the machine's own outcome.  *)
From V Require Import lib.PyBase model.Textfile proofs.TextfileProofs.
Import TF.
Open Scope N_scope.

(* --- names --- *)
(* path.pid.tid is injective in (pid, tid) and is never the target itself *)
Theorem C18_tmp_names_distinct : forall p a b c d, tmp_name p a b = tmp_name p c d -> a = c /\ b = d.
Proof. exact tmp_name_inj. Qed.
Print Assumptions C18_tmp_names_distinct.

Theorem C18_tmp_is_not_target : forall p a b, tmp_name p a b <> p.
Proof. exact tmp_name_ne_path. Qed.
Print Assumptions C18_tmp_is_not_target.

(* for EVERY spelling of the path (bare file name, ./x, ../d/x, absolute, odd components) the temporary path names
   a file of the same directory as the target, called <base name>.pid.tid: the rename never leaves the directory *)
Theorem C18_tmp_same_directory : forall p a b,
  dir_of (tmp_name p a b) = dir_of p /\ base_of (tmp_name p a b) = tmp_name (base_of p) a b
  /\ has_slash (base_of (tmp_name p a b)) = false.
Proof. exact tmp_same_directory. Qed.
Print Assumptions C18_tmp_same_directory.

(* --- one call --- *)
(* at EVERY cut point of EVERY run (any faults, any classes, either handler, any initial directory) the target holds
   its previous content (or is still absent) or the complete new exposition *)
Theorem C18_target_old_or_new : forall c f0 n,
  keeps c ->
  let f := snd (wsteps c n winit f0) in
  fs_find f (w_path c) = fs_find f0 (w_path c)
  \/ exists d, w_new c = Some d /\ fs_find f (w_path c) = Some d.
Proof. exact target_old_or_new. Qed.
Print Assumptions C18_target_old_or_new.

(* no file other than the target and the call's own temporary file is ever touched *)
Theorem C18_others_untouched : forall c f0 n p,
  p <> w_tmp c -> p <> w_path c -> fs_find (snd (wsteps c n winit f0)) p = fs_find f0 p.
Proof. exact others_untouched. Qed.
Print Assumptions C18_others_untouched.

(* every call finishes within wbound steps, and nothing happens afterwards *)
Theorem C18_terminates : forall c f0,
  (exists r, w_pc (fst (wfinal c f0)) = PDone r) /\ forall n, (wbound c <= n)%nat -> wsteps c n winit f0 = wfinal c f0.
Proof. exact (fun c f0 => conj (terminates c f0) (final_is_final c f0)). Qed.
Print Assumptions C18_terminates.

(* the caller sees exactly the error of the big-step reading [wresult] (first error of open / body / rename, a close
   error replacing the one in flight), provided the handler's own two calls are not faulted as well *)
Theorem C18_error_reaches_caller : forall c f0, w_short c = [] -> nhf c -> outcome (fst (wfinal c f0)) = Some (wresult c).
Proof. exact outcome_is_wresult. Qed.
Print Assumptions C18_error_reaches_caller.

(* the call returns iff nothing at all went wrong: no error is swallowed, none is invented *)
Theorem C18_returns_iff_fault_free : forall c, wresult c = None <-> fault_free c.
Proof. exact wresult_none_iff. Qed.
Print Assumptions C18_returns_iff_fault_free.

(* single faults: that very error (site and class) is the one the caller gets *)
Theorem C18_single_io_fault : forall c data s k n,
  w_new c = Some data -> w_plan c = [(s, (k, n))] ->
  (s = SOpen \/ s = SClose \/ s = SRename \/ exists j, s = SWrite j /\ (j <= length (w_split c))%nat) ->
  wresult c = Some (s, k).
Proof. exact single_io_fault. Qed.
Print Assumptions C18_single_io_fault.

Theorem C18_collector_raise : forall c pre k post,
  w_colls c = pre ++ CRaise k :: post -> forallb (fun co => negb (is_raise co)) pre = true ->
  plan_find (w_plan c) SOpen = None -> plan_find (w_plan c) SClose = None ->
  wresult c = Some (SCollect (length pre), k).
Proof. exact collector_raise. Qed.
Print Assumptions C18_collector_raise.

Theorem C18_encode_error : forall c pre post,
  w_colls c = pre ++ CBad :: post -> forallb (fun co => negb (is_raise co)) (w_colls c) = true ->
  plan_find (w_plan c) SOpen = None -> plan_find (w_plan c) SClose = None ->
  wresult c = Some (SEncode, EExc).
Proof. exact encode_error. Qed.
Print Assumptions C18_encode_error.

(* REPAIRED handler: whenever the call raises - whatever the class - the directory is exactly as before (minus a stale
   file of the same temporary name, if there was one): target unchanged, no temporary file, and the error is e *)
Theorem C18_raise_cleans : forall c f0 e,
  w_short c = [] -> w_catch_base c = true -> nhf c -> wresult c = Some e ->
  outcome (fst (wfinal c f0)) = Some (Some e) /\ fs_same (snd (wfinal c f0)) (fs_remove f0 (w_tmp c)).
Proof.
  exact (fun c f0 e Hno Hb Hn Hr => raise_cleans c f0 e Hno Hn Hr
           (match e as e' return catches c e' = true with (s, EExc) => eq_refl | (s, EBase) => Hb end)).
Qed.
Print Assumptions C18_raise_cleans.

(* the same with ANY short writes in the run (retried): whatever error the call ends with, the directory is as before *)
Theorem C18_raise_cleans_short : forall c f0 e,
  keeps c -> w_catch_base c = true -> nhf c -> outcome (fst (wfinal c f0)) = Some (Some e) ->
  fs_same (snd (wfinal c f0)) (fs_remove f0 (w_tmp c)).
Proof.
  exact (fun c f0 e Hk Hb Hn Ho => raise_cleans_gen c f0 e Hk Hn Ho
           (match e as e' return catches c e' = true with (s, EExc) => eq_refl | (s, EBase) => Hb end)).
Qed.
Print Assumptions C18_raise_cleans_short.

(* PINNED source (`except Exception`): the same holds for Exception-class errors only ... *)
Theorem C18_raise_cleans_orig_partial : forall c f0 s,
  w_short c = [] -> w_catch_base c = false -> nhf c -> wresult c = Some (s, EExc) ->
  outcome (fst (wfinal c f0)) = Some (Some (s, EExc)) /\ fs_same (snd (wfinal c f0)) (fs_remove f0 (w_tmp c)).
Proof. exact (fun c f0 s Hno _ Hn Hr => raise_cleans c f0 (s, EExc) Hno Hn Hr eq_refl). Qed.
Print Assumptions C18_raise_cleans_orig_partial.

(* ... and fails for a collector raising KeyboardInterrupt: the temporary file stays (finding F16) *)
Theorem C18_raise_cleans_orig_refuted :
  exists c f0, w_catch_base c = false /\ nhf c /\ wresult c = Some (SCollect 0, EBase)
    /\ outcome (fst (wfinal c f0)) = Some (Some (SCollect 0, EBase))
    /\ fs_find (snd (wfinal c f0)) (w_tmp c) <> None.
Proof. exact orig_leaves_temporary. Qed.
Print Assumptions C18_raise_cleans_orig_refuted.

(* returning: the target holds the complete new exposition, the temporary file is gone, nothing else changed *)
Theorem C18_return_installs : forall c f0,
  w_short c = [] -> nhf c -> wresult c = None ->
  exists d, w_new c = Some d /\ outcome (fst (wfinal c f0)) = Some None
            /\ fs_same (snd (wfinal c f0)) (fs_set (fs_remove f0 (w_tmp c)) (w_path c) d).
Proof. exact return_installs. Qed.
Print Assumptions C18_return_installs.

(* the same with ANY short writes in the run (retried): a call that returns has installed the complete exposition *)
Theorem C18_return_installs_short : forall c f0,
  keeps c -> nhf c -> outcome (fst (wfinal c f0)) = Some None ->
  exists d, w_new c = Some d /\ outcome (fst (wfinal c f0)) = Some None
            /\ fs_same (snd (wfinal c f0)) (fs_set (fs_remove f0 (w_tmp c)) (w_path c) d).
Proof. exact return_installs_gen. Qed.
Print Assumptions C18_return_installs_short.

(* --- short writes --- *)
(* short writes ALONE, at any submissions, any lengths, retried by the handle: the call returns and the complete
   exposition is installed - not a byte is lost, nothing is left behind *)
Theorem C18_short_writes_harmless : forall c f0 d,
  w_retry c = true -> w_plan c = [] -> w_new c = Some d ->
  outcome (fst (wfinal c f0)) = Some None
  /\ fs_same (snd (wfinal c f0)) (fs_set (fs_remove f0 (w_tmp c)) (w_path c) d).
Proof. exact short_writes_harmless. Qed.
Print Assumptions C18_short_writes_harmless.

(* whatever the handle does about short writes: until the call RETURNS the target shows its previous content *)
Theorem C18_target_untouched_unless_returned : forall c f0 n,
  w_pc (fst (wsteps c n winit f0)) <> PDone None ->
  fs_find (snd (wsteps c n winit f0)) (w_path c) = fs_find f0 (w_path c).
Proof. exact target_untouched_unless_returned. Qed.
Print Assumptions C18_target_untouched_unless_returned.

(* C18_target_old_or_new needs [keeps]: a handle that does not submit the remainder again (buffering=0 and the
   result of write() ignored) returns normally with a strict prefix of the exposition installed over the target *)
Theorem C18_short_write_dropped_refuted :
  exists c f0 d, w_retry c = false /\ w_plan c = [] /\ w_new c = Some d
    /\ fs_find f0 (w_path c) = Some (s2l "old")
    /\ outcome (fst (wfinal c f0)) = Some None
    /\ fs_find (snd (wfinal c f0)) (w_path c) = Some (firstn 4 d) /\ firstn 4 d <> d /\ firstn 4 d <> s2l "old".
Proof. exact short_write_dropped. Qed.
Print Assumptions C18_short_write_dropped_refuted.

(* os.replace on nt, os.rename elsewhere: every run is step for step the same on both kinds of platform *)
Theorem C18_platform_independent : forall b c n s f, wsteps (set_nt b c) n s f = wsteps c n s f.
Proof. exact platform_independent. Qed.
Print Assumptions C18_platform_independent.

(* --- several concurrent calls (threads or processes) with distinct (pid, tid), ANY schedule, ANY faults --- *)
Theorem C18_writers_target : forall path f0 cs sched,
  (forall c, In c cs -> w_path c = path) -> (forall c, In c cs -> keeps c) -> NoDup (map (fun c => (w_pid c, w_tid c)) cs) ->
  let f := snd (srun sched (sinit cs) f0) in
  fs_find f path = fs_find f0 path \/ exists c d, In c cs /\ w_new c = Some d /\ fs_find f path = Some d.
Proof. exact writers_target. Qed.
Print Assumptions C18_writers_target.

(* a finished writer raised/returned exactly what it would have done alone; if it returned, or raised an error its
   handler catches, its temporary file is gone; once any writer returned the target is a complete NEW exposition;
   files that are neither the target nor a writer's temporary are untouched *)
Theorem C18_writers_end : forall path f0 cs sched,
  (forall c, In c cs -> w_path c = path) -> (forall c, In c cs -> keeps c) ->
  NoDup (map (fun c => (w_pid c, w_tid c)) cs) ->
  let ws := fst (srun sched (sinit cs) f0) in
  let f := snd (srun sched (sinit cs) f0) in
  (forall c s r, In (c, s) ws -> nhf c -> w_pc s = PDone r ->
     (w_short c = [] -> r = wresult c) /\ (match r with Some e => catches c e = true | None => True end -> fs_find f (w_tmp c) = None))
  /\ ((exists c s, In (c, s) ws /\ w_pc s = PDone None) ->
      exists c d, In c cs /\ w_new c = Some d /\ fs_find f path = Some d)
  /\ (forall p, p <> path -> (forall c, In c cs -> p <> w_tmp c) -> fs_find f p = fs_find f0 p).
Proof. exact writers_end. Qed.
Print Assumptions C18_writers_end.

(* nothing goes wrong, everybody has finished: everybody returned, no temporary file is left, and the target holds
   the complete exposition of one of them *)
Theorem C18_writers_all_return : forall path f0 cs sched,
  (forall c, In c cs -> w_path c = path) -> NoDup (map (fun c => (w_pid c, w_tid c)) cs) ->
  (forall c, In c cs -> w_short c = [] /\ nhf c /\ fault_free c) -> cs <> [] ->
  let ws := fst (srun sched (sinit cs) f0) in
  let f := snd (srun sched (sinit cs) f0) in
  (forall c s, In (c, s) ws -> exists r, w_pc s = PDone r) ->
  (forall c s, In (c, s) ws -> w_pc s = PDone None)
  /\ (forall c, In c cs -> fs_find f (w_tmp c) = None)
  /\ (exists c d, In c cs /\ w_new c = Some d /\ fs_find f path = Some d).
Proof. exact writers_all_return. Qed.
Print Assumptions C18_writers_all_return.

(* "finished" is reached: any schedule that gives writer i at least wbound turns finishes it (so the hypothesis
   of C18_writers_all_return holds for every schedule that is fair enough, whatever the interleaving) *)
Theorem C18_writers_complete : forall cs sched f0 i c,
  nth_error cs i = Some c -> (wbound c <= count_occ Nat.eq_dec sched i)%nat ->
  exists s r, nth_error (fst (srun sched (sinit cs) f0)) i = Some (c, s) /\ w_pc s = PDone r.
Proof. exact writers_complete. Qed.
Print Assumptions C18_writers_complete.

(* --- non-vacuity --- *)
Definition ex_w (pid tid : N) (colls : list coutcome) (plan : list (site * fault)) : wcfg :=
  {| w_path := s2l "m.prom"; w_pid := pid; w_tid := tid; w_nt := false; w_buffered := true;
     w_colls := colls; w_split := []; w_plan := plan; w_short := []; w_retry := true; w_catch_base := true |}.

(* a clean call over an existing target: every cut point shows old or new, the end shows new and no temporary *)
Example C18_example_clean :
  let c := ex_w 7 9 [CYield (s2l "a 1"); CYield (s2l "b 2")] [] in
  let f0 := [(s2l "m.prom", s2l "old")] in
  fault_free c /\ nhf c /\ w_tmp c = s2l "m.prom.7.9"
  /\ map (fun n => observe (w_path c) (snd (wsteps c n winit f0))) [0; 1; 4; 5; 6]%nat
     = [ ([s2l "m.prom"], Some (s2l "old"));
         ([s2l "m.prom"; s2l "m.prom.7.9"], Some (s2l "old"));
         ([s2l "m.prom"; s2l "m.prom.7.9"], Some (s2l "old"));
         ([s2l "m.prom"; s2l "m.prom.7.9"], Some (s2l "old"));
         ([s2l "m.prom"], Some (s2l "a 1b 2")) ].
Proof.
  cbn zeta. split; [|split; [split; reflexivity|split; vm_compute; reflexivity]].
  split; [reflexivity|]. split; [reflexivity|]. split; [reflexivity|].
  exists (s2l "a 1b 2"). split; [reflexivity|]. intros j _. reflexivity.
Qed.

(* a failing write with 2 of the bytes accepted, then KeyboardInterrupt from a collector: both clean up (repaired) *)
Example C18_example_faults :
  let c1 := ex_w 7 9 [CYield (s2l "a 1")] [(SWrite 0%nat, (EExc, 2%nat))] in
  let c2 := ex_w 7 9 [CYield (s2l "a 1"); CRaise EBase] [] in
  let f0 := [(s2l "m.prom", s2l "old")] in
  wresult c1 = Some (SWrite 0%nat, EExc) /\ wresult c2 = Some (SCollect 1%nat, EBase)
  /\ wfinal c1 f0 = ({| w_pc := PDone (Some (SWrite 0%nat, EExc)); w_buf := None |}, f0)
  /\ wfinal c2 f0 = ({| w_pc := PDone (Some (SCollect 1%nat, EBase)); w_buf := None |}, f0).
Proof. vm_compute. repeat split. Qed.

(* short writes that are retried: submissions 0 and 1 are cut to 2 and 1 bytes; the call returns, target complete;
   the retried remainder hitting a full disk (ENOSPC at submission 1) raises and leaves everything as it was *)
Example C18_example_short :
  let c0 := ex_w 7 9 [CYield (s2l "a 1"); CYield (s2l "b 2")] [] in
  let sh (plan : list (site * fault)) : wcfg :=
    {| w_path := w_path c0; w_pid := 7; w_tid := 9; w_nt := false; w_buffered := false; w_colls := w_colls c0;
       w_split := []; w_plan := plan; w_short := [(0, 2); (1, 1)]%nat; w_retry := true; w_catch_base := true |} in
  let f0 := [(s2l "m.prom", s2l "old")] in
  keeps (sh []) /\ wfinal (sh []) f0 = ({| w_pc := PDone None; w_buf := None |}, [(s2l "m.prom", s2l "a 1b 2")])
  /\ wfinal (sh [(SWrite 1%nat, (EExc, 0%nat))]) f0 = ({| w_pc := PDone (Some (SWrite 1%nat, EExc)); w_buf := None |}, f0).
Proof. cbn zeta. split; [left; reflexivity|]. vm_compute. split; reflexivity. Qed.

(* two writers, one interleaving: the hypotheses of C18_writers_all_return are satisfiable and the end is reached *)
Example C18_example_two_writers :
  let c1 := ex_w 7 9 [CYield (s2l "a 1")] [] in
  let c2 := ex_w 7 10 [CYield (s2l "b 2")] [] in
  let sched := [0; 1; 1; 0; 0; 1; 1; 0; 1; 0]%nat in
  let r := srun sched (sinit [c1; c2]) [] in
  NoDup (map (fun c => (w_pid c, w_tid c)) [c1; c2])
  /\ map (fun cs => outcome (snd cs)) (fst r) = [Some None; Some None]
  /\ snd r = [(s2l "m.prom", s2l "a 1")].
Proof.
  cbn zeta. split; [|vm_compute; split; reflexivity].
  constructor; [|constructor; [intros []|constructor]]. intros [H|[]]. discriminate.
Qed.

(* choosing os.rename on Windows would fail whenever the target exists *)
Example C18_rename_on_nt_fails : forall f src dst b, fs_find f dst = Some b -> os_move true CallRename f src dst = None.
Proof. exact rename_on_nt_fails. Qed.
