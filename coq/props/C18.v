(* C18 - write_to_textfile replaces the target atomically or not at all.
   Statements only; every proof is `exact <lemma>` (proofs/TextfileProofs.v).  Model: model/Textfile.v -
   one call as an effect machine [wstep] over a file system (name -> bytes); [wsteps c n] = the state after n I/O
   steps, i.e. what a reader or a crash sees at that cut point; [srun sched] = several calls interleaved at their I/O
   steps.  The fault plan [w_plan] is ARBITRARY in every theorem below unless restricted explicitly: any number of
   faults, either class, with any partial write.  [w_catch_base c = true] is the repaired handler
   (`except BaseException`), [false] the pinned source (`except Exception`).
   The one operating-system fact the model assumes is that rename/replace is ONE transition ([os_move]); it is
   part of the model, not a Coq hypothesis, and is listed in the harness' TRUSTED.  *)
From V Require Import lib.PyBase model.Textfile proofs.TextfileProofs.
Import TF.
Open Scope N_scope.

(* --- names --- *)
(* path.pid.tid is injective in (pid, tid) and is never the target itself *)
Theorem C18_tmp_names_distinct : forall p a b c d, tmp_name p a b = tmp_name p c d -> a = c /\ b = d.
Proof. exact tmp_name_inj. Qed.
Print Assumptions C18_tmp_names_distinct.

Theorem C18_tmp_is_not_target : forall p a b, tmp_name p a b <> p.
Proof. exact tmp_name_ne_path. Qed.
Print Assumptions C18_tmp_is_not_target.

(* --- one call --- *)
(* at EVERY cut point of EVERY run (any faults, any classes, either handler, any initial directory) the target holds
   its previous content (or is still absent) or the complete new exposition *)
Theorem C18_target_old_or_new : forall c f0 n,
  let f := snd (wsteps c n winit f0) in
  fs_find f (w_path c) = fs_find f0 (w_path c)
  \/ exists d, w_new c = Some d /\ fs_find f (w_path c) = Some d.
Proof. exact target_old_or_new. Qed.
Print Assumptions C18_target_old_or_new.

(* no file other than the target and the call's own temporary file is ever touched *)
Theorem C18_others_untouched : forall c f0 n p,
  p <> w_tmp c -> p <> w_path c -> fs_find (snd (wsteps c n winit f0)) p = fs_find f0 p.
Proof. exact others_untouched. Qed.
Print Assumptions C18_others_untouched.

(* every call finishes within wbound steps, and nothing happens afterwards *)
Theorem C18_terminates : forall c f0,
  (exists r, w_pc (fst (wfinal c f0)) = PDone r) /\ forall n, (wbound c <= n)%nat -> wsteps c n winit f0 = wfinal c f0.
Proof. exact (fun c f0 => conj (terminates c f0) (final_is_final c f0)). Qed.
Print Assumptions C18_terminates.

(* the caller sees exactly the error of the big-step reading [wresult] (first error of open / body / rename, a close
   error replacing the one in flight), provided the handler's own two calls are not faulted as well *)
Theorem C18_error_reaches_caller : forall c f0, nhf c -> outcome (fst (wfinal c f0)) = Some (wresult c).
Proof. exact outcome_is_wresult. Qed.
Print Assumptions C18_error_reaches_caller.

(* the call returns iff nothing at all went wrong: no error is swallowed, none is invented *)
Theorem C18_returns_iff_fault_free : forall c, wresult c = None <-> fault_free c.
Proof. exact wresult_none_iff. Qed.
Print Assumptions C18_returns_iff_fault_free.

(* single faults: that very error (site and class) is the one the caller gets *)
Theorem C18_single_io_fault : forall c data s k n,
  w_new c = Some data -> w_plan c = [(s, (k, n))] ->
  (s = SOpen \/ s = SClose \/ s = SRename \/ exists j, s = SWrite j /\ (j <= length (w_split c))%nat) ->
  wresult c = Some (s, k).
Proof. exact single_io_fault. Qed.
Print Assumptions C18_single_io_fault.

Theorem C18_collector_raise : forall c pre k post,
  w_colls c = pre ++ CRaise k :: post -> forallb (fun co => negb (is_raise co)) pre = true ->
  plan_find (w_plan c) SOpen = None -> plan_find (w_plan c) SClose = None ->
  wresult c = Some (SCollect (length pre), k).
Proof. exact collector_raise. Qed.
Print Assumptions C18_collector_raise.

Theorem C18_encode_error : forall c pre post,
  w_colls c = pre ++ CBad :: post -> forallb (fun co => negb (is_raise co)) (w_colls c) = true ->
  plan_find (w_plan c) SOpen = None -> plan_find (w_plan c) SClose = None ->
  wresult c = Some (SEncode, EExc).
Proof. exact encode_error. Qed.
Print Assumptions C18_encode_error.

(* REPAIRED handler: whenever the call raises - whatever the class - the directory is exactly as before (minus a stale
   file of the same temporary name, if there was one): target unchanged, no temporary file, and the error is e *)
Theorem C18_raise_cleans : forall c f0 e,
  w_catch_base c = true -> nhf c -> wresult c = Some e ->
  outcome (fst (wfinal c f0)) = Some (Some e) /\ fs_same (snd (wfinal c f0)) (fs_remove f0 (w_tmp c)).
Proof.
  exact (fun c f0 e Hb Hn Hr => raise_cleans c f0 e Hn Hr
           (match e as e' return catches c e' = true with (s, EExc) => eq_refl | (s, EBase) => Hb end)).
Qed.
Print Assumptions C18_raise_cleans.

(* PINNED source (`except Exception`): the same holds for Exception-class errors only ... *)
Theorem C18_raise_cleans_orig_partial : forall c f0 s,
  w_catch_base c = false -> nhf c -> wresult c = Some (s, EExc) ->
  outcome (fst (wfinal c f0)) = Some (Some (s, EExc)) /\ fs_same (snd (wfinal c f0)) (fs_remove f0 (w_tmp c)).
Proof. exact (fun c f0 s _ Hn Hr => raise_cleans c f0 (s, EExc) Hn Hr eq_refl). Qed.
Print Assumptions C18_raise_cleans_orig_partial.

(* ... and fails for a collector raising KeyboardInterrupt: the temporary file stays (finding F16) *)
Theorem C18_raise_cleans_orig_refuted :
  exists c f0, w_catch_base c = false /\ nhf c /\ wresult c = Some (SCollect 0, EBase)
    /\ outcome (fst (wfinal c f0)) = Some (Some (SCollect 0, EBase))
    /\ fs_find (snd (wfinal c f0)) (w_tmp c) <> None.
Proof. exact orig_leaves_temporary. Qed.
Print Assumptions C18_raise_cleans_orig_refuted.

(* returning: the target holds the complete new exposition, the temporary file is gone, nothing else changed *)
Theorem C18_return_installs : forall c f0,
  nhf c -> wresult c = None ->
  exists d, w_new c = Some d /\ outcome (fst (wfinal c f0)) = Some None
            /\ fs_same (snd (wfinal c f0)) (fs_set (fs_remove f0 (w_tmp c)) (w_path c) d).
Proof. exact return_installs. Qed.
Print Assumptions C18_return_installs.

(* os.replace on nt, os.rename elsewhere: every run is step for step the same on both kinds of platform *)
Theorem C18_platform_independent : forall b c n s f, wsteps (set_nt b c) n s f = wsteps c n s f.
Proof. exact platform_independent. Qed.
Print Assumptions C18_platform_independent.

(* --- several concurrent calls (threads or processes) with distinct (pid, tid), ANY schedule, ANY faults --- *)
Theorem C18_writers_target : forall path f0 cs sched,
  (forall c, In c cs -> w_path c = path) -> NoDup (map (fun c => (w_pid c, w_tid c)) cs) ->
  let f := snd (srun sched (sinit cs) f0) in
  fs_find f path = fs_find f0 path \/ exists c d, In c cs /\ w_new c = Some d /\ fs_find f path = Some d.
Proof. exact writers_target. Qed.
Print Assumptions C18_writers_target.

(* a finished writer raised/returned exactly what it would have done alone; if it returned, or raised an error its
   handler catches, its temporary file is gone; once any writer returned the target is a complete NEW exposition;
   files that are neither the target nor a writer's temporary are untouched *)
Theorem C18_writers_end : forall path f0 cs sched,
  (forall c, In c cs -> w_path c = path) -> NoDup (map (fun c => (w_pid c, w_tid c)) cs) ->
  let ws := fst (srun sched (sinit cs) f0) in
  let f := snd (srun sched (sinit cs) f0) in
  (forall c s r, In (c, s) ws -> nhf c -> w_pc s = PDone r ->
     r = wresult c /\ (match r with Some e => catches c e = true | None => True end -> fs_find f (w_tmp c) = None))
  /\ ((exists c s, In (c, s) ws /\ w_pc s = PDone None) ->
      exists c d, In c cs /\ w_new c = Some d /\ fs_find f path = Some d)
  /\ (forall p, p <> path -> (forall c, In c cs -> p <> w_tmp c) -> fs_find f p = fs_find f0 p).
Proof. exact writers_end. Qed.
Print Assumptions C18_writers_end.

(* nothing goes wrong, everybody has finished: everybody returned, no temporary file is left, and the target holds
   the complete exposition of one of them *)
Theorem C18_writers_all_return : forall path f0 cs sched,
  (forall c, In c cs -> w_path c = path) -> NoDup (map (fun c => (w_pid c, w_tid c)) cs) ->
  (forall c, In c cs -> nhf c /\ fault_free c) -> cs <> [] ->
  let ws := fst (srun sched (sinit cs) f0) in
  let f := snd (srun sched (sinit cs) f0) in
  (forall c s, In (c, s) ws -> exists r, w_pc s = PDone r) ->
  (forall c s, In (c, s) ws -> w_pc s = PDone None)
  /\ (forall c, In c cs -> fs_find f (w_tmp c) = None)
  /\ (exists c d, In c cs /\ w_new c = Some d /\ fs_find f path = Some d).
Proof. exact writers_all_return. Qed.
Print Assumptions C18_writers_all_return.

(* "finished" is reached: any schedule that gives writer i at least wbound turns finishes it (so the hypothesis
   of C18_writers_all_return holds for every schedule that is fair enough, whatever the interleaving) *)
Theorem C18_writers_complete : forall cs sched f0 i c,
  nth_error cs i = Some c -> (wbound c <= count_occ Nat.eq_dec sched i)%nat ->
  exists s r, nth_error (fst (srun sched (sinit cs) f0)) i = Some (c, s) /\ w_pc s = PDone r.
Proof. exact writers_complete. Qed.
Print Assumptions C18_writers_complete.

(* --- non-vacuity --- *)
Definition ex_w (pid tid : N) (colls : list coutcome) (plan : list (site * fault)) : wcfg :=
  {| w_path := s2l "m.prom"; w_pid := pid; w_tid := tid; w_nt := false; w_buffered := true;
     w_colls := colls; w_split := []; w_plan := plan; w_catch_base := true |}.

(* a clean call over an existing target: every cut point shows old or new, the end shows new and no temporary *)
Example C18_example_clean :
  let c := ex_w 7 9 [CYield (s2l "a 1"); CYield (s2l "b 2")] [] in
  let f0 := [(s2l "m.prom", s2l "old")] in
  fault_free c /\ nhf c /\ w_tmp c = s2l "m.prom.7.9"
  /\ map (fun n => observe (w_path c) (snd (wsteps c n winit f0))) [0; 1; 4; 5; 6]%nat
     = [ ([s2l "m.prom"], Some (s2l "old"));
         ([s2l "m.prom"; s2l "m.prom.7.9"], Some (s2l "old"));
         ([s2l "m.prom"; s2l "m.prom.7.9"], Some (s2l "old"));
         ([s2l "m.prom"; s2l "m.prom.7.9"], Some (s2l "old"));
         ([s2l "m.prom"], Some (s2l "a 1b 2")) ].
Proof.
  cbn zeta. split; [|split; [split; reflexivity|split; vm_compute; reflexivity]].
  split; [reflexivity|]. split; [reflexivity|]. split; [reflexivity|].
  exists (s2l "a 1b 2"). split; [reflexivity|]. intros j _. reflexivity.
Qed.

(* a failing write with 2 of the bytes accepted, then KeyboardInterrupt from a collector: both clean up (repaired) *)
Example C18_example_faults :
  let c1 := ex_w 7 9 [CYield (s2l "a 1")] [(SWrite 0%nat, (EExc, 2%nat))] in
  let c2 := ex_w 7 9 [CYield (s2l "a 1"); CRaise EBase] [] in
  let f0 := [(s2l "m.prom", s2l "old")] in
  wresult c1 = Some (SWrite 0%nat, EExc) /\ wresult c2 = Some (SCollect 1%nat, EBase)
  /\ wfinal c1 f0 = ({| w_pc := PDone (Some (SWrite 0%nat, EExc)); w_buf := None |}, f0)
  /\ wfinal c2 f0 = ({| w_pc := PDone (Some (SCollect 1%nat, EBase)); w_buf := None |}, f0).
Proof. vm_compute. repeat split. Qed.

(* two writers, one interleaving: the hypotheses of C18_writers_all_return are satisfiable and the end is reached *)
Example C18_example_two_writers :
  let c1 := ex_w 7 9 [CYield (s2l "a 1")] [] in
  let c2 := ex_w 7 10 [CYield (s2l "b 2")] [] in
  let sched := [0; 1; 1; 0; 0; 1; 1; 0; 1; 0]%nat in
  let r := srun sched (sinit [c1; c2]) [] in
  NoDup (map (fun c => (w_pid c, w_tid c)) [c1; c2])
  /\ map (fun cs => outcome (snd cs)) (fst r) = [Some None; Some None]
  /\ snd r = [(s2l "m.prom", s2l "a 1")].
Proof.
  cbn zeta. split; [|vm_compute; split; reflexivity].
  constructor; [|constructor; [intros []|constructor]]. intros [H|[]]. discriminate.
Qed.

(* choosing os.rename on Windows would fail whenever the target exists *)
Example C18_rename_on_nt_fails : forall f src dst b, fs_find f dst = Some b -> os_move true CallRename f src dst = None.
Proof. exact rename_on_nt_fails. Qed.
