(* C16 - Timing, in-progress and exception-counting wrappers are transparent and balanced.
   Statements only; every proof is `exact <lemma>` (proofs/WrappersProofs.v).  Model: model/Wrappers.v
     (a) call language + big-step evaluator over (metric state, scripted clock); the three context managers of
         prometheus_client/context_managers.py as enter/exit functions; the exception classes as a finite tree;
     (b) Python argument binding (bind_args) and what the vendored decorator.py generates (signature,
         shortsignature, the forwarding call, the reserved names), composed with
         `def wrapped(func, /, *args, **kwargs)` of context_managers.py (after fixes/C16-func-keyword.diff;
         the pinned `def wrapped(func, *args, **kwargs)` is wrapped_call_orig).
   PARTIAL by design: that the exec-compiled function has the parameters `signature` spells, __wrapped__, and the
   copying of __name__/__doc__/__defaults__/__kwdefaults__ are CPython run-time behaviour; they are observed by the
   correspondence check and the direct oracle of harness/c16.py, not proved.  No Section hypotheses are used. *)
From V Require Import lib.PyBase model.Wrappers proofs.WrappersProofs.
Open Scope N_scope.

(* ---------------------------------------------------------------------------------------------------- *)
(* (a) transparency                                                                                      *)
(* ---------------------------------------------------------------------------------------------------- *)

(* callers observe the same returned object / the same exception object as if every wrapper were removed:
   every body, nesting, wrapper kind, metric state and clock *)
Theorem C16_transparent : forall (b : body) (s s' : st), fst (eval b s) = fst (eval (erase b) s').
Proof. exact transparent. Qed.
Print Assumptions C16_transparent.

(* one wrapper, and a decorated function recursing k times, around any body *)
Theorem C16_transparent_call : forall (w : wrapper) (b : body) (s s' : st),
  fst (eval (Call w b) s) = fst (eval b s') /\ forall k, fst (eval (recurse k w b) s) = fst (eval b s').
Proof. exact (fun w b s s' => conj (transparent_call w b s s') (fun k => transparent_recurse k w b s s')). Qed.
Print Assumptions C16_transparent_call.

(* the mechanism: no __exit__ returns a true value, whatever happened in the block *)
Theorem C16_exit_never_swallows : forall (m : cm) (o : outcome) (s : st), fst (cm_exit m o s) = false.
Proof. exact cm_exit_false. Qed.
Print Assumptions C16_exit_never_swallows.

(* ---------------------------------------------------------------------------------------------------- *)
(* (a) the in-progress gauge                                                                             *)
(* ---------------------------------------------------------------------------------------------------- *)

(* after ANY program - any nesting of wrappers, recursion depth, exception, handler - every gauge that no Timer
   in the program uses as its set() target is back at its prior value *)
Theorem C16_inprogress_balanced : forall (b : body) (s : st) (g : mid),
  no_set_on g b = true -> gau (snd (eval b s)) g = gau s g.
Proof. exact balanced. Qed.
Print Assumptions C16_inprogress_balanced.

(* while the body runs, each read of a gauge gives its prior value plus the number of enclosing
   track_inprogress wrappers on that gauge *)
Theorem C16_inprogress_during : forall (b : body) (s : st),
  no_set_timer b = true -> plog (snd (eval b s)) = plog s ++ probe_spec (gau s) b.
Proof. exact probes. Qed.
Print Assumptions C16_inprogress_during.

(* ---------------------------------------------------------------------------------------------------- *)
(* (a) observations                                                                                      *)
(* ---------------------------------------------------------------------------------------------------- *)

(* for ANY clock (constant, decreasing, exhausted): a program adds exactly one observation per Timer context it
   enters, each non-negative; and a timed call adds exactly one, after those of its body, also when the body raises *)
Theorem C16_one_nonneg_observation :
  (forall (b : body) (s : st), exists new,
     olog (snd (eval b s)) = olog s ++ new /\ length new = timers_entered b /\
     Forall (fun e => (0 <= snd e)%Z) new) /\
  (forall (tg : target) (b : body) (s : st), exists d, (0 <= d)%Z /\
     olog (snd (eval (Call (WTime tg) b) s)) =
     olog (snd (eval b (cm_enter (CmTimer (Fresh (next_t s)) tg) (set_next s (next_t s + 1)))))
       ++ [(target_mid tg, d)]).
Proof. exact (conj observations one_observation). Qed.
Print Assumptions C16_one_nonneg_observation.

(* re-entrancy: the duration a timed call observes is max(reading at ITS exit - reading at ITS entry, 0),
   whatever timed calls (of the same function, recursively) happen inside it *)
Theorem C16_timer_own_interval : forall (tg : target) (b : body) (s : st),
  let s_in := cm_enter (CmTimer (Fresh (next_t s)) tg) (set_next s (next_t s + 1)) in
  let s_out := snd (eval b s_in) in
  olog (snd (eval (Call (WTime tg) b) s)) =
  olog s_out ++ [(target_mid tg, Z.max (fst (tick s_out) - fst (tick s)) 0)].
Proof. exact own_interval. Qed.
Print Assumptions C16_timer_own_interval.

(* ---------------------------------------------------------------------------------------------------- *)
(* (a) the exception counter                                                                             *)
(* ---------------------------------------------------------------------------------------------------- *)

(* the counter goes up by one exactly when an exception whose class descends from a configured class escapes the
   body; no other counter moves.  The configuration is any exception spec: a class or a tuple of specs, nested,
   empty, with repetitions; its classes are the ones named anywhere in it *)
Theorem C16_counts_iff_matching_escapes : forall (c : mid) (excs : espec) (b : body) (s : st),
  (forall c', cnt (snd (eval (Call (WCount c excs) b) s)) c' =
              cnt (snd (eval b s)) c' + (if N.eqb c' c && escapes_matching b excs then 1 else 0)) /\
  (escapes_matching b excs = true <->
   exists k o d, fst (eval b s) = Exn k o /\ In d (spec_classes excs) /\ Ancestor k d).
Proof.
  exact (fun c excs b s => conj (counts_call c excs b s)
           (eq_ind_r (fun r => escapes_matching b excs = true <->
                               exists k o d, r = Exn k o /\ In d (spec_classes excs) /\ Ancestor k d)
                     (escapes_matching_iff b excs) (eval_result b s))).
Qed.
Print Assumptions C16_counts_iff_matching_escapes.

(* the factory hands the configuration on as it was given: with an argument, `except <that argument>` decides -
   also when the argument is a false value such as the empty tuple; without one, `except Exception` *)
Theorem C16_counts_as_configured : forall (c : mid) (arg : option espec) (b : body) (s : st),
  let cfg := match arg with Some e => e | None => EClass C_Exception end in
  (forall c', cnt (snd (eval (Call (count_exceptions c arg) b) s)) c' =
              cnt (snd (eval b s)) c' + (if N.eqb c' c && escapes_matching b cfg then 1 else 0)) /\
  (escapes_matching b cfg = true <-> exists k o, fst (eval b s) = Exn k o /\ Matches k cfg).
Proof.
  exact (fun c arg b s => conj (counts_configured c arg b s)
           (eq_ind_r (fun r => escapes_matching b (match arg with Some e => e | None => EClass C_Exception end) = true <->
                               exists k o, r = Exn k o /\ Matches k (match arg with Some e => e | None => EClass C_Exception end))
                     (escapes_matching_except b _) (eval_result b s))).
Qed.
Print Assumptions C16_counts_as_configured.

(* a configuration that names no class - (), ((),), ((), ()) ... - counts nothing, whatever escapes *)
Theorem C16_nothing_configured_nothing_counted : forall (c : mid) (e : espec) (b : body) (s : st),
  spec_classes e = [] ->
  forall c', cnt (snd (eval (Call (count_exceptions c (Some e)) b) s)) c' = cnt (snd (eval b s)) c'.
Proof. exact counts_nothing_configured. Qed.
Print Assumptions C16_nothing_configured_nothing_counted.

(* over a whole program: the counter moved by the number of its contexts a matching exception escaped from *)
Theorem C16_counts_total : forall (b : body) (s : st) (c : mid), cnt (snd (eval b s)) c = cnt s c + counted c b.
Proof. exact counts. Qed.
Print Assumptions C16_counts_total.

(* isinstance on the modelled classes is descent in the class tree; without an argument the counter takes
   exactly the descendants of Exception - not KeyboardInterrupt, SystemExit, GeneratorExit *)
Theorem C16_isinstance_is_descent :
  (forall k ds, isinstance_any k ds = true <-> exists d, In d ds /\ Ancestor k d) /\
  (forall k, isinstance_spec k default_exceptions = true <-> Ancestor k C_Exception) /\
  (forall k, In k [C_BaseException; C_KeyboardInterrupt; C_SystemExit; C_GeneratorExit; C_UserBase; C_UserExit;
                   C_BaseExceptionGroup; C_UserBaseGroup] ->
             isinstance_spec k default_exceptions = false).
Proof. exact (conj isinstance_any_iff (conj default_matches default_excludes)). Qed.
Print Assumptions C16_isinstance_is_descent.

(* exception groups (PEP 654) are classes of the hierarchy like any other: an escaping ExceptionGroup is counted
   exactly when the configuration names ExceptionGroup itself or one of ITS bases (BaseExceptionGroup, Exception,
   BaseException), a BaseExceptionGroup when it names BaseExceptionGroup or BaseException - whatever exceptions
   the group holds (they do not occur in the model: `except <spec>` matches the group object, never its members;
   that is `except`, not `except*`).  In particular count_exceptions(ValueError) never counts a group. *)
Theorem C16_group_counted_by_its_own_class : forall (c : mid) (e : espec) (o : val) (s : st),
  let run := fun k => cnt (snd (eval (Call (count_exceptions c (Some e)) (Raise k o)) s)) c - cnt s c in
  (run C_ExceptionGroup = 1 <->
   exists d, In d (spec_classes e) /\ In d [C_ExceptionGroup; C_BaseExceptionGroup; C_Exception; C_BaseException]) /\
  (run C_BaseExceptionGroup = 1 <->
   exists d, In d (spec_classes e) /\ In d [C_BaseExceptionGroup; C_BaseException]) /\
  (forall k, run k = if isinstance_spec k e then 1 else 0).
Proof. exact group_counted_by_class. Qed.
Print Assumptions C16_group_counted_by_its_own_class.

(* isinstance(value, spec) is what `except spec:` catches; it depends only on the set of classes the spec names
   (nesting, order, repetition are immaterial); the empty tuple catches nothing; (e,) is e *)
Theorem C16_isinstance_spec_is_except :
  (forall k e, isinstance_spec k e = true <-> Matches k e) /\
  (forall k e, isinstance_spec k e = true <-> exists d, In d (spec_classes e) /\ Ancestor k d) /\
  (forall k e e', (forall d, In d (spec_classes e) <-> In d (spec_classes e')) ->
                  isinstance_spec k e = isinstance_spec k e') /\
  (forall k, isinstance_spec k (ETuple []) = false) /\
  (forall k e, isinstance_spec k (ETuple [e]) = isinstance_spec k e).
Proof.
  exact (conj isinstance_spec_iff (conj isinstance_spec_classes (conj spec_same_classes
          (conj empty_tuple_matches_nothing spec_singleton)))).
Qed.
Print Assumptions C16_isinstance_spec_is_except.

(* ---------------------------------------------------------------------------------------------------- *)
(* (b) binding and forwarding                                                                            *)
(* ---------------------------------------------------------------------------------------------------- *)

(* a function without positional-only parameters: calling the decorated function binds exactly as calling the
   original - every argument shape (defaults, keyword-only with and without defaults, *args, **kwargs), valid or
   not (the same TypeError).  shadowed p = false excludes a keyword-only parameter named _call_/_func_. *)
Theorem C16_forwarding : forall (p : params) (f : val) (pos : list val) (kw : assoc str val),
  posonly p = [] -> NoDup (posonly p ++ args p ++ kwonly p) -> shadowed p = false ->
  wrapped_call p f pos kw = bind_args p pos kw.
Proof. exact forwarding. Qed.
Print Assumptions C16_forwarding.

(* partial (what is missing: calls that pass a keyword spelled like a positional-only parameter):
   with positional-only parameters the same holds for every call without such a keyword *)
Theorem C16_forwarding_partial : forall (p : params) (f : val) (pos : list val) (kw : assoc str val),
  NoDup (posonly p ++ args p ++ kwonly p) -> shadowed p = false ->
  (forall k, In k (map fst kw) -> ~ In k (posonly p)) ->
  wrapped_call p f pos kw = bind_args p pos kw.
Proof. exact forwarding_general. Qed.
Print Assumptions C16_forwarding_partial.

(* F15: def f(a, /, **kw) called f(1, a=2) binds a=1, kw={'a': 2}; the decorated f raises TypeError *)
Theorem C16_forwarding_posonly_refuted :
  exists p pos kw, NoDup (posonly p ++ args p ++ kwonly p) /\ shadowed p = false /\ NoDup (map fst kw) /\
    (exists e, bind_args p pos kw = Ok e) /\ wrapped_call p 0 pos kw = Err TypeError.
Proof.
  exists p_posonly_kw, [1], [(S_a, 2)].
  exact (match posonly_refuted with
         | conj a (conj b (conj c (conj d e))) => conj a (conj b (conj c (conj (ex_intro _ _ d) e))) end).
Qed.
Print Assumptions C16_forwarding_posonly_refuted.

(* the other direction: def f(a, b=5, /) called f(1, b=3) is a TypeError; the decorated f accepts it *)
Theorem C16_forwarding_posonly_accepts_refuted :
  exists p pos kw e, bind_args p pos kw = Err TypeError /\ wrapped_call p 0 pos kw = Ok e.
Proof. exists p_posonly_default, [1], [(S_b, 3)], (mkEnv [1; 3] [] [] []). exact posonly_accepts_refuted. Qed.
Print Assumptions C16_forwarding_posonly_accepts_refuted.

(* the pinned `def wrapped(func, *args, **kwargs)`: def f( **kw ) called f(func=1) raised TypeError
   (repaired by fixes/C16-func-keyword.diff; wrapped_call above is the repaired composition) *)
Theorem C16_forwarding_func_keyword_orig_refuted :
  exists p pos kw, NoDup (posonly p ++ args p ++ kwonly p) /\ posonly p = [] /\ shadowed p = false /\
    (exists e, bind_args p pos kw = Ok e) /\ wrapped_call_orig p 0 pos kw = Err TypeError.
Proof.
  exists p_only_kw, [], [(N_func, 1)].
  exact (match func_keyword_orig_refuted with
         | conj a (conj b (conj c (conj d e))) => conj a (conj b (conj c (conj (ex_intro _ _ d) e))) end).
Qed.
Print Assumptions C16_forwarding_func_keyword_orig_refuted.

(* reserved names: def f( *, _call_=1) decorates, f() returns, the decorated f() raises TypeError; and a positional
   parameter or a function called _call_/_func_ is refused (NameError) when decorating *)
Theorem C16_reserved_name_refuted :
  (exists name p, NoDup (posonly p ++ args p ++ kwonly p) /\ posonly p = [] /\ decorate_ok name p = true /\
     (exists e, bind_args p [] [] = Ok e) /\ wrapped_call p 0 [] [] = Err TypeError) /\
  (exists name p, decorate_ok name p = false).
Proof.
  split.
  - exists S_a, p_kwonly_call.
    exact (match reserved_kwonly_refuted with
           | conj a (conj b (conj c (conj d e))) => conj a (conj b (conj c (conj (ex_intro _ _ d) e))) end).
  - exists S_a, (mkParams [] [N_CALL] [] None [] [] None). exact (proj1 reserved_positional_refused).
Qed.
Print Assumptions C16_reserved_name_refuted.

(* a call that fails to bind fails with TypeError, in the original and in the decorated function *)
Theorem C16_binding_errors_are_TypeError :
  (forall p pos kw e, bind_args p pos kw = Err e -> e = TypeError) /\
  (forall p f pos kw e, wrapped_call p f pos kw = Err e -> e = TypeError).
Proof. exact (conj bind_args_err (wrapped_call_err caller_params)). Qed.
Print Assumptions C16_binding_errors_are_TypeError.

(* __name__: kept (after fixes/C16-lambda-name.diff); the pinned source turned '<lambda>' into '_lambda_' *)
Theorem C16_name_preserved : forall n, decorated_name n = n.
Proof. exact name_preserved. Qed.
Print Assumptions C16_name_preserved.

Theorem C16_name_orig_refuted : exists n, decorated_name_orig n <> n.
Proof. exact name_orig_refuted. Qed.
Print Assumptions C16_name_orig_refuted.

(* ---------------------------------------------------------------------------------------------------- *)
(* non-vacuity and why the hypotheses are there                                                          *)
(* ---------------------------------------------------------------------------------------------------- *)

(* a decorated function on gauge 2, timed on summary 4, counted on counter 0, recursing twice, whose innermost
   body raises KeyError object 7, with a clock that runs backwards *)
Example C16_example_nested :
  let b := recurse 2 (WTrack 2) (Call (WTime (TObserve 4)) (Call (WCount 0 default_exceptions)
             (Seq (Probe 2) (Raise C_KeyError 7)))) in
  let r := eval b (init_st [50; 20]%Z) in
  fst r = Exn C_KeyError 7 /\ gau (snd r) 2 = 0%Z /\ plog (snd r) = [(2, 3%Z)] /\
  olog (snd r) = [(4, 0%Z)] /\ cnt (snd r) 0 = 1 /\ no_set_on 2 b = true /\ no_set_timer b = true.
Proof. vm_compute. repeat split. Qed.

(* KeyboardInterrupt escapes: propagated, gauge restored, observed, NOT counted by the default configuration *)
Example C16_example_base_exception :
  let b := Call (WCount 0 default_exceptions) (Call (WTrack 2) (Call (WTime (TObserve 4)) (Raise C_KeyboardInterrupt 9))) in
  let r := eval b (init_st [10; 25]%Z) in
  fst r = Exn C_KeyboardInterrupt 9 /\ gau (snd r) 2 = 0%Z /\ olog (snd r) = [(4, 15%Z)] /\ cnt (snd r) 0 = 0.
Proof. vm_compute. repeat split. Qed.

(* configurations: the empty tuple counts nothing although a ValueError escapes; a nested tuple with a repeated
   class counts once; KeyboardInterrupt is counted when it is configured and not by a sibling *)
Example C16_example_configurations :
  let run := fun arg k => cnt (snd (eval (Call (count_exceptions 0 arg) (Raise k 1)) (init_st []))) 0 in
  run (Some (ETuple [])) C_ValueError = 0 /\ run None C_ValueError = 1 /\
  run (Some (ETuple [ETuple []; ETuple [ETuple []]])) C_ValueError = 0 /\
  run (Some (ETuple [EClass C_OSError; ETuple [EClass C_LookupError; EClass C_KeyError]; EClass C_KeyError])) C_UserKeyError = 1 /\
  run (Some (ETuple [EClass C_KeyboardInterrupt])) C_KeyboardInterrupt = 1 /\
  run (Some (ETuple [EClass C_SystemExit; EClass C_Exception])) C_KeyboardInterrupt = 0 /\
  Matches C_UserKeyError (ETuple [EClass C_OSError; ETuple [EClass C_LookupError]]) /\
  spec_classes (ETuple [ETuple []; ETuple [ETuple []]]) = [].
Proof.
  vm_compute. repeat split.
  eapply m_tuple; [right; left; reflexivity|]. eapply m_tuple; [left; reflexivity|]. apply m_class.
  apply issubclass_sound. reflexivity.
Qed.

(* why Timer.__call__ uses _new_timer(): ONE Timer object entered inside itself observes, for the outer block,
   the time since the INNER entry (40 - 20), not its own interval (40 - 10) *)
Example C16_example_shared_timer :
  let r := eval (WithHeld 0 (TObserve 4) (WithHeld 0 (TObserve 4) (Return 1))) (init_st [10; 20; 30; 40]%Z) in
  olog (snd r) = [(4, 10%Z); (4, 20%Z)] /\
  olog (snd (eval (Call (WTime (TObserve 4)) (Call (WTime (TObserve 4)) (Return 1))) (init_st [10; 20; 30; 40]%Z)))
    = [(4, 10%Z); (4, 30%Z)].
Proof. vm_compute. repeat split. Qed.

(* why no_set_on: g.time() inside g.track_inprogress() on the same gauge leaves duration - 1 in it *)
Example C16_example_same_gauge :
  let b := Call (WTrack 2) (Call (WTime (TSet 2)) (Return 1)) in
  no_set_on 2 b = false /\ gau (snd (eval b (init_st [10; 25]%Z))) 2 = 14%Z.
Proof. vm_compute. repeat split. Qed.

(* def f(a, b=5, *va, k, m=7, **kw) called f(1, k=2, z=3): the hypotheses of C16_forwarding hold and both sides bind
   a=1 b=5 va=() k=2 m=7 kw={'z': 3};  f(1) is a TypeError (k missing) on both sides *)
Local Open Scope string_scope.
Example C16_example_forwarding :
  let n := fun s : string => s2l s in
  let p := mkParams [] [n "a"; n "b"] [5] (Some (n "va")) [n "k"; n "m"] [(n "m", 7)] (Some (n "kw")) in
  posonly p = [] /\ shadowed p = false /\
  bind_args p [1] [(n "k", 2); (n "z", 3)] = Ok (mkEnv [1; 5] [] [2; 7] [(n "z", 3)]) /\
  wrapped_call p 0 [1] [(n "k", 2); (n "z", 3)] = Ok (mkEnv [1; 5] [] [2; 7] [(n "z", 3)]) /\
  bind_args p [1] [] = Err TypeError /\ wrapped_call p 0 [1] [] = Err TypeError /\
  signature (getfullargspec p) = n "a, b, *va, k=None, m=None, **kw" /\
  shortsignature (getfullargspec p) = n "a, b, *va, k=k, m=m, **kw".
Proof. vm_compute. repeat split. Qed.
