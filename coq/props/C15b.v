(* C15, second part - the rules of the property statement that props/C15.v does not state:
     (a) repeated or late metadata            (b) interleaved or clashing families      (c) units
     (d) repeated '# EOF'                     (e) histogram groups: _count against the +Inf bucket and the bucket rules
                                                  for EVERY group and every placement inside the group
     (f) timestamps inside a group, lifted to the document
     (g) (f) and the family switch hold in every non-histogram family after ANY prefix: the exemption of native-histogram
         samples from the group block belongs to the line, it does not outlive the histogram family.  In the repaired
         source (flag fix_nhsfx, fixes/C15-om-native-foreign-name.diff) the family switch holds in histogram families
         too: only a native sample named like the family in progress is exempt, one of a foreign name is rejected.
   Statements only.  Model: model/OMParser.v; proofs: proofs/OMRulesProofs.v (and proofs/OMRulesLines.v for the concrete
   metadata lines).  As in C15.v every theorem holds for ARBITRARY oracles and both settings of every repair flag, and
   `is_err r` = exists e, r = Err e.

   Shape.  A rule the offending line itself breaks (repeated / late metadata, timestamps, counts not integral) is a
   statement about that line in the state its prefix leads to, at any position of the document.  A rule that
   build_metric enforces when the family is closed (clash, unit, histogram groups) is an invariant of the family in
   progress that no later line repairs (Clash, BadUnit, BadRun): the document is rejected whatever follows.
   reads_meta line kw name text = the line starts with '#', _split_quoted(line, ' ', 3) has at least four parts, the second
   is kw, the third unquotes to name, the fourth is text; C15b_reads_meta_legacy / _quoted show that the lines
   `# KW name text` as written meet it. *)
From V Require Import lib.PyBase lib.PyStr model.Validation model.Expo model.TextParser model.OMParser
  proofs.OMProofs proofs.OMRulesLines proofs.OMRulesProofs.
Open Scope N_scope.

Section C15b.
  Variable legacy guard_fix fix_nhkeys fix_nhsfx fix_tsmix fix_isnan fix_unit fix_quote fix_tsexp fix_sname : bool.
  Variable NUM : Type.
  Variable parse_num parse_float : str -> option NUM.
  Variable parse_int : str -> option Z.
  Variable num_lt num_eqb : NUM -> NUM -> bool.
  Variable num_isinf num_integral num_huge : NUM -> bool.
  Variable num_zero num_one num_inf : NUM.
  Variable ts_float : Z -> Z -> option NUM.
  Variable is_word is_space_re is_digit_re : char -> bool.

  Notation parse := (om_parse legacy guard_fix fix_nhkeys fix_nhsfx fix_tsmix fix_isnan fix_unit fix_quote fix_tsexp fix_sname
                      NUM parse_num parse_float parse_int num_lt num_eqb num_isinf num_integral num_huge
                      num_zero num_one num_inf ts_float is_word is_space_re is_digit_re).
  Notation step := (om_step_line legacy guard_fix fix_nhkeys fix_nhsfx fix_tsmix fix_isnan fix_unit fix_quote fix_tsexp fix_sname
                      NUM parse_num parse_float parse_int num_lt num_eqb num_isinf num_integral num_huge
                      num_zero num_one num_inf ts_float is_word is_space_re is_digit_re).
  Notation prefix := (om_prefix legacy guard_fix fix_nhkeys fix_nhsfx fix_tsmix fix_isnan fix_unit fix_quote fix_tsexp fix_sname
                      NUM parse_num parse_float parse_int num_lt num_eqb num_isinf num_integral num_huge
                      num_zero num_one num_inf ts_float is_word is_space_re is_digit_re).
  Notation sample_line := (om_sample_line legacy guard_fix fix_nhkeys fix_nhsfx fix_tsmix fix_isnan fix_quote fix_tsexp fix_sname
                      NUM parse_num parse_float parse_int num_lt num_eqb num_isinf num_integral num_huge
                      num_zero num_one num_inf ts_float is_word is_space_re is_digit_re).
  Notation read_sample := (om_read_sample legacy guard_fix fix_nhkeys fix_nhsfx fix_quote fix_tsexp fix_sname NUM parse_num parse_float
                             parse_int num_eqb num_isinf is_word is_space_re is_digit_re).
  Notation flush := (om_flush legacy NUM parse_float num_lt num_eqb num_zero num_inf).
  Notation check_hist := (om_check_histogram NUM parse_float num_lt num_eqb num_zero num_inf).
  Notation hist_run := (om_check_hist_run NUM parse_float num_lt num_eqb num_zero num_inf).
  Notation group_step := (om_group_step fix_tsmix NUM num_lt num_eqb ts_float).
  Notation num_le := (om_num_le NUM num_lt num_eqb).
  Notation ts_eqb := (om_ts_eqb NUM num_eqb).
  Notation bucket_of := (is_bucket_of NUM parse_float).
  Notation st0 := (@om_st_init NUM).
  Notation reads := (reads_meta guard_fix).
  Notation implicit_name := (om_implicit_name guard_fix fix_sname NUM).
  Notation meta_of := (meta_for guard_fix).
  Notation field_set := (meta_field NUM).
  Notation ClashS := (Clash NUM).
  Notation BadUnitS := (BadUnit NUM).
  Notation unit_of := (stored_unit fix_unit).
  Notation chain := (hchain NUM num_eqb).
  Notation group_of := (hgroup NUM num_eqb).
  Notation group_end := (hgroup_end NUM).
  Notation sfx := (hsfx NUM).
  Notation offends := (grp_offends NUM parse_float num_eqb num_inf).
  Notation ts_bad := (ts_violation fix_tsmix NUM num_lt ts_float).

  (* =========================== (a) repeated or late metadata =========================== *)
  (* step level, any state: a keyword whose field is already filled for the family in progress (second HELP / TYPE /
     UNIT; any other keyword is rejected outright), or any metadata for it once it has samples *)
  Theorem C15b_meta_repeated_or_late_step : forall st line kw n text,
    reads line kw n text -> st_name st = Some n ->
    field_set st kw = true \/ st_samples st <> [] ->
    is_err (step st line).
  Proof. intros. eapply meta_step_rejected; eassumption. Qed.

  (* document level: the same keyword twice for one family - any prefix, any suffix, any metadata lines of that
     family in between (a sample in between makes the second line late metadata, another family makes it a clash) *)
  Theorem C15b_meta_repeated : forall text a m1 mid m2 b n kw text1 text2,
    om_lines text = a ++ m1 :: mid ++ m2 :: b ->
    reads m1 kw n text1 -> Forall (meta_of n) mid -> reads m2 kw n text2 ->
    is_err (parse text).
  Proof. intros text a m1 mid m2 b n kw t1 t2 H R1 M R2. unfold om_parse. rewrite H. eapply meta_repeated_document; eassumption. Qed.

  (* document level: metadata for the family in progress straight after one of its sample lines *)
  Theorem C15b_meta_late : forall text a s m b n kw mtext,
    om_lines text = (a ++ [s]) ++ m :: b ->
    is_sample_line s = true -> reads m kw n mtext ->
    (forall st acc, prefix st0 (a ++ [s]) [] = Ok (st, acc) -> st_name st = Some n) ->
    is_err (parse text).
  Proof. intros text a s m b n kw t H S R N. unfold om_parse. rewrite H. eapply meta_late_document; eassumption. Qed.

  (* the lines `# KW name text` as written (legacy name bare, any other name quoted and escaped) are read that way *)
  Theorem C15b_reads_meta_legacy : forall kw n text,
    skipsp kw -> is_valid_legacy_metric_name n = true ->
    reads (HASH :: SP :: kw ++ SP :: n ++ SP :: text) kw n text.
  Proof. intros. apply reads_meta_legacy; assumption. Qed.

  Theorem C15b_reads_meta_quoted : forall kw n text,
    skipsp kw -> reads (HASH :: SP :: kw ++ SP :: quote (escape n) ++ SP :: text) kw n text.
  Proof. intros. apply reads_meta_quoted; assumption. Qed.

  Theorem C15b_keywords_plain : skipsp OM_HELP /\ skipsp OM_TYPE /\ skipsp OM_UNIT.
  Proof. exact skipsp_keywords. Qed.

  (* =========================== (b) interleaved or clashing families =========================== *)
  (* Clash st: the family in progress reserves (its name, or name + a suffix of its type) a name an earlier family owns.
     Once that is so the document is rejected, whatever follows *)
  Theorem C15b_clash_is_final : forall text pre post st acc,
    om_lines text = pre ++ post -> prefix st0 pre [] = Ok (st, acc) -> ClashS st -> is_err (parse text).
  Proof. intros text pre post st acc H E C. unfold om_parse. rewrite H. eapply Clash_document; eassumption. Qed.

  (* a metadata line for the name x after another family started, where x is a name that a family n seen earlier owns:
     x = n (interleaved families), x = n + suffix of n's type (e.g. `a_total` gauge after counter `a`), or - for a TYPE
     line - x + suffix of the new type is owned by n (e.g. counter `a` after gauge `a_total`).
     a: the document up to a point where n is in progress; mid: anything accepted; l: the offending line *)
  Theorem C15b_family_clash_meta : forall text a mid l b s1 acc1 s2 acc2 n y kw x ltext,
    om_lines text = a ++ mid ++ l :: b ->
    prefix st0 a [] = Ok (s1, acc1) -> st_name s1 = Some n -> In y (fam_names n (st_typ s1)) ->
    prefix s1 mid acc1 = Ok (s2, acc2) -> st_name s2 <> Some x ->
    reads l kw x ltext ->
    y = x \/ (kw = OM_TYPE /\ exists sfx, In sfx (om_type_suffixes ltext []) /\ y = x ++ sfx) ->
    is_err (parse text).
  Proof.
    intros text a mid l b s1 acc1 s2 acc2 n y kw x lt H E1 N Y E2 NE R XY. unfold om_parse. rewrite H.
    eapply family_clash_meta_document; eassumption.
  Qed.

  (* a sample line whose name the family in progress does not allow, and which an earlier family (or the one it just
     closed) owns: `a 1` after family b started, `a 1` inside counter a, `a_total 1` after counter a was closed.
     implicit_name s = the name of the unknown family the sample starts (om_implicit_name): the sample's name in the
     repaired source (fix_sname), that name unquoted and unescaped once more in the pinned source. *)
  Theorem C15b_family_clash_sample : forall text a mid l b s1 acc1 s2 acc2 n s x,
    om_lines text = a ++ mid ++ l :: b ->
    prefix st0 a [] = Ok (s1, acc1) -> st_name s1 = Some n -> In x (fam_names n (st_typ s1)) ->
    prefix s1 mid acc1 = Ok (s2, acc2) ->
    is_sample_line l = true -> read_sample (st_typ s2) l = Ok (s, false) ->
    mem_str (os_name s) (st_allowed s2) = false -> implicit_name s = Ok x ->
    is_err (parse text).
  Proof.
    intros text a mid l b s1 acc1 s2 acc2 n s x H E1 N Y E2 L R M U. unfold om_parse. rewrite H.
    eapply family_clash_sample_document; eassumption.
  Qed.

  (* =========================== (c) units =========================== *)
  (* unit_of text = the unit the parser stores for `# UNIT name text`: the text itself in the pinned source, the
     unescaped text in the repaired one (fix_unit); an empty stored unit means no unit.
     A non-empty unit that does not suffix the family name: at ANY position, after ANY prefix, whatever follows *)
  Theorem C15b_unit_mismatch : forall text pre l post n utext,
    om_lines text = pre ++ l :: post ->
    reads l OM_UNIT n utext -> unit_of utext <> [] -> ends_with (USCORE :: unit_of utext) n = false ->
    is_err (parse text).
  Proof. intros text pre l post n u H R N E. unfold om_parse. rewrite H. eapply unit_mismatch_document; eassumption. Qed.

  (* a non-empty unit on an info / stateset family, TYPE before UNIT or UNIT before TYPE, any metadata of the family
     in between *)
  Theorem C15b_unit_on_info_stateset : forall text a m1 mid m2 b n t utext,
    om_lines text = a ++ m1 :: mid ++ m2 :: b ->
    t = OM_info \/ t = OM_stateset -> unit_of utext <> [] -> Forall (meta_of n) mid ->
    (reads m1 OM_TYPE n t /\ reads m2 OM_UNIT n utext) \/ (reads m1 OM_UNIT n utext /\ reads m2 OM_TYPE n t) ->
    is_err (parse text).
  Proof.
    intros text a m1 mid m2 b n t u H T N M O. unfold om_parse. rewrite H.
    eapply unit_on_info_stateset_document; eassumption.
  Qed.

  (* the two settings of the repair flag: the pinned source stores the raw text, the repaired one the unescaped text *)
  Theorem C15b_unit_of_flags : forall utext,
    stored_unit false utext = utext /\ stored_unit true utext = om_unescape_help utext.
  Proof. intro. split; reflexivity. Qed.

  (* the general statement: a family in progress with an offending unit is never repaired *)
  Theorem C15b_bad_unit_is_final : forall text pre post st acc,
    om_lines text = pre ++ post -> prefix st0 pre [] = Ok (st, acc) -> BadUnitS st -> is_err (parse text).
  Proof.
    intros text pre post st acc H E B. unfold om_parse. rewrite H. eapply BadUnit_document; eassumption.
  Qed.

  (* =========================== (d) '# EOF' =========================== *)
  (* C15_eof_not_last covers every document in which some '# EOF' line is not the last line; explicitly, two of them *)
  Theorem C15b_eof_repeated : forall text a mid b,
    om_lines text = a ++ OM_EOF :: mid ++ OM_EOF :: b -> is_err (parse text).
  Proof. intros text a mid b H. unfold om_parse. rewrite H. apply eof_repeated_rejected. Qed.

  (* and the three EOF rules together: an accepted document has exactly one '# EOF' line, its last line *)
  Theorem C15b_accepted_eof_unique : forall text fams,
    parse text = Ok fams -> exists a, om_lines text = a ++ [OM_EOF] /\ ~ In OM_EOF a.
  Proof. intros text fams H. unfold om_parse in H. eapply accepted_eof_unique; eassumption. Qed.

  (* =========================== (e) histogram groups =========================== *)
  (* group_of name grp: grp is one group as the scan of _check_histogram sees it - its first sample has a suffix and a
     group key, every later sample either has no suffix (skipped) or compares equal, key and timestamp, to the one
     before it.  grp_bucket_value / grp_count: the value of its last bucket / of its last _count or _gcount.
     _count (or _gcount) different from the last bucket, wherever _count stands in the group (before, between or after
     the buckets, with _sum / _created / anything in between), whatever the labels:  the last group of the family ... *)
  Theorem C15b_hist_count_mismatch_last_group : forall name pre grp vb c,
    group_of name grp -> grp_bucket_value NUM name grp = Some vb -> grp_count NUM name grp = Some c ->
    num_eqb vb c = false ->
    is_err (check_hist (pre ++ grp) name).
  Proof. intros. eapply hist_count_mismatch_end; eassumption. Qed.

  (* ... and any other group, at any position of the sample list, from any state of the scan *)
  Theorem C15b_hist_count_mismatch_any_group : forall name pre grp nxt post vb c st,
    group_of name grp -> grp_bucket_value NUM name grp = Some vb -> grp_count NUM name grp = Some c ->
    num_eqb vb c = false ->
    sfx name nxt <> [] ->
    (forall g, om_group_for_sample nxt name OM_histogram = Ok g ->
               om_optdict_eqb g (fst (group_end name grp)) = false \/
               ts_eqb (os_ts nxt) (snd (group_end name grp)) = false) ->
    is_err (hist_run name st (pre ++ grp ++ nxt :: post)).
  Proof. intros. eapply hist_count_mismatch_inner; eassumption. Qed.

  (* document level, inner group: nothing after the prefix that recorded it repairs the family *)
  Theorem C15b_hist_count_mismatch_document : forall text pre post st acc name spre grp nxt spost vb c,
    om_lines text = pre ++ post -> prefix st0 pre [] = Ok (st, acc) -> st_name st = Some name ->
    hist_typ (st_typ st) -> rev (st_samples st) = spre ++ grp ++ nxt :: spost ->
    group_of name grp -> grp_bucket_value NUM name grp = Some vb -> grp_count NUM name grp = Some c ->
    num_eqb vb c = false ->
    sfx name nxt <> [] ->
    (forall g, om_group_for_sample nxt name OM_histogram = Ok g ->
               om_optdict_eqb g (fst (group_end name grp)) = false \/
               ts_eqb (os_ts nxt) (snd (group_end name grp)) = false) ->
    is_err (parse text).
  Proof.
    intros text pre post st acc name spre grp nxt spost vb c H. intros. unfold om_parse. rewrite H.
    eapply hist_count_mismatch_document; eassumption.
  Qed.

  (* document level, last group of the family: build_metric fails on the family in progress ... *)
  Theorem C15b_hist_count_mismatch_flush : forall pre st acc name spre grp vb c,
    prefix st0 pre [] = Ok (st, acc) -> st_name st = Some name ->
    hist_typ (st_typ st) -> rev (st_samples st) = spre ++ grp ->
    group_of name grp -> grp_bucket_value NUM name grp = Some vb -> grp_count NUM name grp = Some c ->
    num_eqb vb c = false ->
    is_err (flush st).
  Proof. intros. eapply hist_count_mismatch_last_document; eassumption. Qed.

  (* ... so the document is rejected when '# EOF' follows, or a line that opens another family (this lifting holds
     for every reason build_metric may fail: clash, unit, any histogram rule) *)
  Theorem C15b_failing_family_at_eof : forall text pre st acc,
    om_lines text = pre ++ [OM_EOF] -> prefix st0 pre [] = Ok (st, acc) -> is_err (flush st) -> is_err (parse text).
  Proof. intros text pre st acc H E F. unfold om_parse. rewrite H. eapply flush_err_at_eof; eassumption. Qed.

  Theorem C15b_failing_family_closed_by_metadata : forall text pre l post st acc kw x ltext,
    om_lines text = pre ++ l :: post -> prefix st0 pre [] = Ok (st, acc) -> is_err (flush st) ->
    reads l kw x ltext -> st_name st <> Some x ->
    is_err (parse text).
  Proof.
    intros text pre l post st acc kw x lt H E F R N. unfold om_parse. rewrite H.
    eapply closing_meta_document; eassumption.
  Qed.

  Theorem C15b_failing_family_closed_by_sample : forall text pre l post st acc s,
    om_lines text = pre ++ l :: post -> prefix st0 pre [] = Ok (st, acc) -> is_err (flush st) ->
    is_sample_line l = true -> read_sample (st_typ st) l = Ok (s, false) ->
    mem_str (os_name s) (st_allowed st) = false ->
    is_err (parse text).
  Proof.
    intros text pre l post st acc s H E F L R M. unfold om_parse. rewrite H.
    eapply closing_sample_document; eassumption.
  Qed.

  (* a group whose last bucket is not +Inf, whatever stands behind that bucket inside the group (_count, _sum,
     _created: C15_hist_no_inf_last_group / _any_group need the finite bucket to be the last sample of the group) *)
  Theorem C15b_hist_no_inf_last_group : forall name pre grp b,
    group_of name grp -> grp_last_bound NUM parse_float name grp = Some b -> num_eqb b num_inf = false ->
    is_err (check_hist (pre ++ grp) name).
  Proof. intros. eapply hist_no_inf_end; eassumption. Qed.

  Theorem C15b_hist_no_inf_any_group : forall name pre grp nxt post b st,
    group_of name grp -> grp_last_bound NUM parse_float name grp = Some b -> num_eqb b num_inf = false ->
    sfx name nxt <> [] ->
    (forall g, om_group_for_sample nxt name OM_histogram = Ok g ->
               om_optdict_eqb g (fst (group_end name grp)) = false \/
               ts_eqb (os_ts nxt) (snd (group_end name grp)) = false) ->
    is_err (hist_run name st (pre ++ grp ++ nxt :: post)).
  Proof. intros. eapply hist_no_inf_inner; eassumption. Qed.

  (* document level for either offence (grp_offends: _count differs from the last bucket, or the last bucket is not
     +Inf): an inner group of the family in progress - nothing later repairs it - and its last group - build_metric
     fails, see C15b_failing_family_at_eof / _closed_by_metadata / _closed_by_sample *)
  Theorem C15b_hist_offending_group_document : forall text pre post st acc name spre grp nxt spost,
    om_lines text = pre ++ post -> prefix st0 pre [] = Ok (st, acc) -> st_name st = Some name ->
    hist_typ (st_typ st) -> rev (st_samples st) = spre ++ grp ++ nxt :: spost ->
    group_of name grp -> offends name grp ->
    sfx name nxt <> [] ->
    (forall g, om_group_for_sample nxt name OM_histogram = Ok g ->
               om_optdict_eqb g (fst (group_end name grp)) = false \/
               ts_eqb (os_ts nxt) (snd (group_end name grp)) = false) ->
    is_err (parse text).
  Proof.
    intros text pre post st acc name spre grp nxt spost H. intros. unfold om_parse. rewrite H.
    eapply hist_group_offends_document; eassumption.
  Qed.

  Theorem C15b_hist_offending_group_flush : forall pre st acc name spre grp,
    prefix st0 pre [] = Ok (st, acc) -> st_name st = Some name ->
    hist_typ (st_typ st) -> rev (st_samples st) = spre ++ grp ->
    group_of name grp -> offends name grp ->
    is_err (flush st).
  Proof. intros. eapply hist_group_offends_flush; eassumption. Qed.

  (* the repaired duplicate suppression (fixes/C15-om-later-exposure.diff): the sample that moves a group to another
     timestamp is recorded and is then the only member of the duplicate set, so the next sample of the group at that
     timestamp is recorded too unless it is the same series - a later exposure of a histogram group reaches
     _check_histogram whole, and the theorems above apply to it (the pinned step: C15_later_exposure_orig_refuted) *)
  Theorem C15b_later_exposure_recorded : forall st name s1 s2 l1 l2 st1 st2,
    group_step st name s1 = Ok st1 -> ts_eqb (os_ts s1) (st_gts st) = false ->
    group_step st1 name s2 = Ok st2 ->
    os_labels s1 = Some l1 -> os_labels s2 = Some l2 ->
    om_sid_eqb (os_name s2, sort_kv l2) (os_name s1, sort_kv l1) = false ->
    st_samples st2 = s2 :: s1 :: st_samples st.
  Proof. intros. eapply later_exposure_recorded; eassumption. Qed.

  (* bounds not strictly increasing (b2 <= b1) or counts not cumulative (v2 < v1) between two buckets of one group that
     are consecutive among its buckets: other samples of the group may stand between them (C15_hist_adjacent_buckets
     is the case mid = []); any group, any position, any state of the scan *)
  Theorem C15b_hist_buckets_in_group : forall name pre s1 mid s2 post l1 l2 b1 b2 st,
    bucket_of name s1 l1 b1 -> bucket_of name s2 l2 b2 ->
    chain name (Some (d_remove str_eqb l1 OM_le)) (os_ts s1) (mid ++ [s2]) -> Forall (nonbucket NUM name) mid ->
    num_le b2 b1 = true
    \/ (match os_value s1, os_value s2 with Some v1, Some v2 => num_lt v2 v1 = true | _, _ => True end) ->
    is_err (hist_run name st (pre ++ s1 :: mid ++ s2 :: post)).
  Proof. intros. eapply hist_buckets_in_group; eassumption. Qed.

  (* counts not integral, at document level: C15_count_integral + the two liftings, composed.  The line stands at any
     position, in any group of the family in progress *)
  Theorem C15b_count_integral_document : forall text a l b st acc name s v,
    om_lines text = a ++ l :: b -> prefix st0 a [] = Ok (st, acc) -> st_name st = Some name ->
    is_sample_line l = true -> read_sample (st_typ st) l = Ok (s, false) ->
    mem_str (os_name s) (st_allowed st) = true ->
    os_name s = name ++ OM_bucket \/ os_name s = name ++ OM_count \/ os_name s = name ++ OM_gcount ->
    os_value s = Some v -> num_integral v = false ->
    is_err (parse text).
  Proof.
    intros text a l b st acc name s v H. intros. unfold om_parse. rewrite H.
    eapply count_integral_document; eassumption.
  Qed.

  (* =========================== (f) timestamps inside a group =========================== *)
  (* lifting the grouping step to the line and the document (C15_sample_line_rejected covers pre/post checks only) *)
  Theorem C15b_sample_line_group_rejected : forall st line s name,
    read_sample (st_typ st) line = Ok (s, false) ->
    mem_str (os_name s) (st_allowed st) = true -> st_name st = Some name ->
    is_err (group_step st name s) -> is_err (sample_line st line).
  Proof. intros. eapply sample_line_group_err; eassumption. Qed.

  (* a sample-shaped line (not starting with '#') on which the sample reader fails in the state its prefix leads to *)
  Theorem C15b_sample_line_step : forall st l,
    is_sample_line l = true -> is_err (sample_line st l) -> is_err (step st l).
  Proof. intros. eapply step_err_sample; eassumption. Qed.

  (* two consecutive sample lines of one group of the family in progress (same sorted group key): the second has a
     timestamp and the first has none, or the reverse, or both have one and it goes backwards (not for info) *)
  Theorem C15b_timestamps_two_lines : forall text a l1 l2 b st acc name s1 s2 gd1 gd2,
    om_lines text = a ++ l1 :: l2 :: b ->
    prefix st0 a [] = Ok (st, acc) -> st_name st = Some name ->
    mem_str (os_name s1) (st_allowed st) = true -> mem_str (os_name s2) (st_allowed st) = true ->
    is_sample_line l1 = true -> is_sample_line l2 = true ->
    read_sample (st_typ st) l1 = Ok (s1, false) -> read_sample (st_typ st) l2 = Ok (s2, false) ->
    om_group_for_sample s1 name (match st_typ st with Some t => t | None => [] end) = Ok (Some gd1) ->
    om_group_for_sample s2 name (match st_typ st with Some t => t | None => [] end) = Ok (Some gd2) ->
    om_kvs_eqb (sort_kv gd2) (sort_kv gd1) = true ->
    ts_bad (st_typ st) (os_ts s1) (os_ts s2) ->
    is_err (parse text).
  Proof.
    intros text a l1 l2 b st acc name s1 s2 gd1 gd2 H. intros. unfold om_parse. rewrite H.
    eapply timestamps_two_lines_document with (s1 := s1) (s2 := s2) (gd1 := gd1) (gd2 := gd2); eassumption.
  Qed.
  (* =========================== (g) the native-histogram exemption belongs to the line =========================== *)
  (* A native-histogram sample skips the family switch and the whole group block (timestamp presence, timestamps going
     backwards, interleaved groups).  That exemption is decided by the line itself and the type of the family in progress:
     in a family that is not a histogram NO line carries it, whatever the document held before - in particular after a
     histogram family whose last sample was a native histogram.  (The state of the model has no such flag; the theorems
     below make the consequence explicit for a reader of the source, where `is_nh` is a variable of the line loop.) *)
  Theorem C15b_native_flag_needs_histogram : forall typ line s nh,
    om_typ_is typ OM_histogram = false -> read_sample typ line = Ok (s, nh) -> nh = false.
  Proof. intros. eapply read_sample_flag; eassumption. Qed.

  (* the group rules of (f) for every family that is not a histogram, after ANY accepted prefix, with no assumption on
     how the two lines were classified *)
  Theorem C15b_sample_line_group_rejected_any_flag : forall st line s nh name,
    om_typ_is (st_typ st) OM_histogram = false -> read_sample (st_typ st) line = Ok (s, nh) ->
    mem_str (os_name s) (st_allowed st) = true -> st_name st = Some name ->
    is_err (group_step st name s) -> is_err (sample_line st line).
  Proof. intros. eapply sample_line_group_err_any_flag; eassumption. Qed.

  Theorem C15b_timestamps_two_lines_after_any_prefix : forall text a l1 l2 b st acc name s1 s2 nh1 nh2 gd1 gd2,
    om_lines text = a ++ l1 :: l2 :: b ->
    prefix st0 a [] = Ok (st, acc) -> st_name st = Some name -> om_typ_is (st_typ st) OM_histogram = false ->
    mem_str (os_name s1) (st_allowed st) = true -> mem_str (os_name s2) (st_allowed st) = true ->
    is_sample_line l1 = true -> is_sample_line l2 = true ->
    read_sample (st_typ st) l1 = Ok (s1, nh1) -> read_sample (st_typ st) l2 = Ok (s2, nh2) ->
    om_group_for_sample s1 name (match st_typ st with Some t => t | None => [] end) = Ok (Some gd1) ->
    om_group_for_sample s2 name (match st_typ st with Some t => t | None => [] end) = Ok (Some gd2) ->
    om_kvs_eqb (sort_kv gd2) (sort_kv gd1) = true ->
    ts_bad (st_typ st) (os_ts s1) (os_ts s2) ->
    is_err (parse text).
  Proof.
    intros text a l1 l2 b st acc name s1 s2 nh1 nh2 gd1 gd2 H. intros. unfold om_parse. rewrite H.
    eapply timestamps_two_lines_any_flag with (s1 := s1) (s2 := s2) (gd1 := gd1) (gd2 := gd2); eassumption.
  Qed.

  (* the family switch: a sample whose name the family in progress does not allow is never attached to it.  The family
     is closed (flush: its closing checks run, its names are recorded as seen) and the sample starts an unknown family
     of its own name - which is what makes an interleaved family end in a name clash (b).
     In every family that is not a histogram, for every setting of the flags; in the repaired source (fix_nhsfx = true)
     also in a histogram family, as soon as the sample does not carry the family's own name - the one exemption left is
     the native-histogram sample named like the family itself.  (Pinned source: every native sample was exempt, see
     C15_native_sample_foreign_family_orig_refuted.)  The line was then not read as a native histogram. *)
  Theorem C15b_foreign_sample_switches_family : forall st line s nh st' out,
    om_typ_is (st_typ st) OM_histogram = false \/ (fix_nhsfx = true /\ st_name st <> Some (os_name s)) ->
    read_sample (st_typ st) line = Ok (s, nh) ->
    mem_str (os_name s) (st_allowed st) = false -> sample_line st line = Ok (st', out) ->
    st_allowed st' = [os_name s] /\ st_typ st' = Some OM_unknown /\ (exists seen', flush st = Ok (out, seen')) /\ nh = false.
  Proof. intros. eapply foreign_sample_switches_family; eassumption. Qed.

  (* repaired source: a line read as a native-histogram sample whose name is neither allowed by the family in progress
     nor that family's own name is rejected - at the line, and at any position of a document whatever follows:
     no interleaved family, no late metadata, no stray name through a native sample *)
  Theorem C15b_foreign_native_sample_rejected : forall st line s,
    fix_nhsfx = true -> read_sample (st_typ st) line = Ok (s, true) ->
    mem_str (os_name s) (st_allowed st) = false -> st_name st <> Some (os_name s) ->
    is_err (sample_line st line).
  Proof. intros. eapply foreign_native_sample_rejected; eassumption. Qed.

  Theorem C15b_foreign_native_sample_document : forall text pre l post st acc s,
    fix_nhsfx = true -> om_lines text = pre ++ l :: post -> prefix st0 pre [] = Ok (st, acc) ->
    is_sample_line l = true -> read_sample (st_typ st) l = Ok (s, true) ->
    mem_str (os_name s) (st_allowed st) = false -> st_name st <> Some (os_name s) ->
    is_err (parse text).
  Proof.
    intros text pre l post st acc s F H. intros. unfold om_parse. rewrite H.
    eapply foreign_native_sample_document; eassumption.
  Qed.

  (* ... hence an attached native-histogram sample carries the name of the family in progress (or an allowed name) *)
  Theorem C15b_native_sample_attached_own_name : forall st line s st' out,
    fix_nhsfx = true -> read_sample (st_typ st) line = Ok (s, true) -> sample_line st line = Ok (st', out) ->
    st_name st = Some (os_name s) \/ mem_str (os_name s) (st_allowed st) = true.
  Proof. intros. eapply native_sample_attached_own_name; eassumption. Qed.
End C15b.

(* ---- non-vacuity: concrete documents, lines, states and sample lists meeting the hypotheses of each theorem, evaluated with
   the ASCII instance of the oracles (proofs/OMWitness.v: int()/float() read plain digit strings, +Inf and 1.5e0; numbers
   are Z; all repair flags on).  Each example also records the verdict of the model on the whole document. ---- *)
From V Require Import proofs.OMWitness.

Definition tparse := toy_parse true true true true true true.
Definition tprefix := om_prefix false true true true true true true true true true Z toy_int toy_float toy_int
    Z.ltb Z.eqb (fun _ => false) (fun _ => true) (fun z => (2 ^ 1024 <=? Z.abs z)%Z) 0%Z 1%Z (10 ^ 400)%Z
    (fun _ _ => None) toy_word is_space_ascii is_digit.
Definition tread := om_read_sample false true true true true true true Z toy_int toy_float toy_int Z.eqb (fun _ => false)
    toy_word is_space_ascii is_digit.
Definition tflush := om_flush false Z toy_float Z.ltb Z.eqb 0%Z (10 ^ 400)%Z.
Definition tlines (doc : string) : list str := om_lines (s2l doc).
Definition tstate (ls : list str) : om_st Z :=
  match tprefix om_st_init ls [] with Ok (st, _) => st | Err _ => om_st_init end.
Definition tacc (ls : list str) : list (om_family Z) :=
  match tprefix om_st_init ls [] with Ok (_, acc) => acc | Err _ => [] end.
Definition tsample (typ : option str) (l : str) : om_sample Z :=
  match tread typ l with
  | Ok (s, _) => s
  | Err _ => {| os_name := []; os_labels := None; os_value := None; os_ts := None; os_ex := None; os_nh := None |}
  end.
Definition L (s : string) : str := s2l s.
Ltac conjs := repeat match goal with |- _ /\ _ => refine (conj _ _) end.
Ltac fin := vm_compute; first [reflexivity | discriminate | tauto | (left; reflexivity) | (right; reflexivity)].

Definition ex_meta_repeated := "# TYPE a gauge
# HELP a x
# UNIT a 
# HELP a y
a 1
# EOF
"%string.

Example C15b_meta_repeated_nonvacuous :
  tlines ex_meta_repeated = [L "# TYPE a gauge"] ++ L "# HELP a x" :: [L "# UNIT a "] ++ L "# HELP a y" :: [L "a 1"; L "# EOF"]
  /\ reads_meta true (L "# HELP a x") OM_HELP (L "a") (L "x")
  /\ Forall (meta_for true (L "a")) [L "# UNIT a "]
  /\ reads_meta true (L "# HELP a y") OM_HELP (L "a") (L "y")
  /\ tparse ex_meta_repeated = Err ValueError.
Proof.
  split; [vm_compute; reflexivity|].
  split; [exact (reads_meta_legacy true OM_HELP (L "a") (L "x") (proj1 skipsp_keywords) eq_refl)|].
  split; [constructor; [|constructor]; exists OM_UNIT, []; exact (reads_meta_legacy true OM_UNIT (L "a") [] (proj2 (proj2 skipsp_keywords)) eq_refl)|].
  split; [exact (reads_meta_legacy true OM_HELP (L "a") (L "y") (proj1 skipsp_keywords) eq_refl)|].
  vm_compute. reflexivity.
Qed.

Definition ex_meta_late := "# TYPE a gauge
a 1
# HELP a x
# EOF
"%string.
Example C15b_meta_late_nonvacuous :
  tlines ex_meta_late = ([L "# TYPE a gauge"] ++ [L "a 1"]) ++ L "# HELP a x" :: [L "# EOF"]
  /\ is_sample_line (L "a 1") = true
  /\ reads_meta true (L "# HELP a x") OM_HELP (L "a") (L "x")
  /\ (forall st acc, tprefix om_st_init ([L "# TYPE a gauge"] ++ [L "a 1"]) [] = Ok (st, acc) -> st_name st = Some (L "a"))
  /\ tparse ex_meta_late = Err ValueError.
Proof.
  split; [vm_compute; reflexivity|]. split; [reflexivity|].
  split; [exact (reads_meta_legacy true OM_HELP (L "a") (L "x") (proj1 skipsp_keywords) eq_refl)|].
  split; [|vm_compute; reflexivity].
  intros st acc H. vm_compute in H. inversion H; subst. reflexivity.
Qed.

(* (b) *)
Definition ex_clash_meta := "# TYPE a counter
a_total 1
# TYPE b gauge
b 1
# TYPE a_total gauge
# EOF
"%string.
Definition ex_cm_a := [L "# TYPE a counter"; L "a_total 1"].
Definition ex_cm_mid := [L "# TYPE b gauge"; L "b 1"].
Example C15b_family_clash_meta_nonvacuous :
  tlines ex_clash_meta = ex_cm_a ++ ex_cm_mid ++ L "# TYPE a_total gauge" :: [L "# EOF"]
  /\ tprefix om_st_init ex_cm_a [] = Ok (tstate ex_cm_a, tacc ex_cm_a)
  /\ st_name (tstate ex_cm_a) = Some (L "a")
  /\ In (L "a_total") (fam_names (L "a") (st_typ (tstate ex_cm_a)))
  /\ tprefix (tstate ex_cm_a) ex_cm_mid (tacc ex_cm_a) = Ok (tstate (ex_cm_a ++ ex_cm_mid), tacc (ex_cm_a ++ ex_cm_mid))
  /\ st_name (tstate (ex_cm_a ++ ex_cm_mid)) <> Some (L "a_total")
  /\ reads_meta true (L "# TYPE a_total gauge") OM_TYPE (L "a_total") (L "gauge")
  /\ tparse ex_clash_meta = Err ValueError.
Proof.
  split; [vm_compute; reflexivity|]. split; [vm_compute; reflexivity|]. split; [vm_compute; reflexivity|].
  split; [vm_compute; auto|]. split; [vm_compute; reflexivity|]. split; [vm_compute; discriminate|].
  split; [exact (reads_meta_legacy true OM_TYPE (L "a_total") (L "gauge") (proj1 (proj2 skipsp_keywords)) eq_refl)|].
  vm_compute. reflexivity.
Qed.

(* the reverse order: counter a after gauge a_total; the TYPE line makes a + _total a name of the new family *)
Definition ex_clash_rev := "# TYPE a_total gauge
a_total 1
# TYPE a counter
# EOF
"%string.
Definition ex_cr_a := [L "# TYPE a_total gauge"].
Definition ex_cr_mid := [L "a_total 1"].
Example C15b_family_clash_meta_type_nonvacuous :
  tlines ex_clash_rev = ex_cr_a ++ ex_cr_mid ++ L "# TYPE a counter" :: [L "# EOF"]
  /\ st_name (tstate ex_cr_a) = Some (L "a_total")
  /\ In (L "a_total") (fam_names (L "a_total") (st_typ (tstate ex_cr_a)))
  /\ st_name (tstate (ex_cr_a ++ ex_cr_mid)) <> Some (L "a")
  /\ reads_meta true (L "# TYPE a counter") OM_TYPE (L "a") (L "counter")
  /\ In OM_total (om_type_suffixes (L "counter") []) /\ L "a_total" = L "a" ++ OM_total
  /\ tparse ex_clash_rev = Err ValueError.
Proof.
  split; [vm_compute; reflexivity|]. split; [vm_compute; reflexivity|].
  split; [vm_compute; auto|]. split; [vm_compute; discriminate|].
  split; [exact (reads_meta_legacy true OM_TYPE (L "a") (L "counter") (proj1 (proj2 skipsp_keywords)) eq_refl)|].
  split; [vm_compute; auto|]. split; [reflexivity|]. vm_compute. reflexivity.
Qed.

Definition ex_clash_sample := "# TYPE a counter
a_total 1
a 1
# EOF
"%string.
Definition ex_cs_a := [L "# TYPE a counter"].
Definition ex_cs_mid := [L "a_total 1"].
Example C15b_family_clash_sample_nonvacuous :
  tlines ex_clash_sample = ex_cs_a ++ ex_cs_mid ++ L "a 1" :: [L "# EOF"]
  /\ tprefix om_st_init ex_cs_a [] = Ok (tstate ex_cs_a, tacc ex_cs_a)
  /\ st_name (tstate ex_cs_a) = Some (L "a")
  /\ In (L "a") (fam_names (L "a") (st_typ (tstate ex_cs_a)))
  /\ tprefix (tstate ex_cs_a) ex_cs_mid (tacc ex_cs_a) = Ok (tstate (ex_cs_a ++ ex_cs_mid), tacc (ex_cs_a ++ ex_cs_mid))
  /\ is_sample_line (L "a 1") = true
  /\ tread (st_typ (tstate (ex_cs_a ++ ex_cs_mid))) (L "a 1") = Ok (tsample (Some OM_counter) (L "a 1"), false)
  /\ mem_str (os_name (tsample (Some OM_counter) (L "a 1"))) (st_allowed (tstate (ex_cs_a ++ ex_cs_mid))) = false
  /\ om_implicit_name true true Z (tsample (Some OM_counter) (L "a 1")) = Ok (L "a")
  /\ tparse ex_clash_sample = Err ValueError.
Proof. conjs; fin. Qed.

(* (c) *)
Definition ex_unit_mismatch := "# TYPE b gauge
b 1
# TYPE a_seconds gauge
# UNIT a_seconds second
a_seconds 1
# EOF
"%string.
Example C15b_unit_mismatch_nonvacuous :
  tlines ex_unit_mismatch = [L "# TYPE b gauge"; L "b 1"; L "# TYPE a_seconds gauge"] ++ L "# UNIT a_seconds second"
                             :: [L "a_seconds 1"; L "# EOF"]
  /\ reads_meta true (L "# UNIT a_seconds second") OM_UNIT (L "a_seconds") (L "second")
  /\ stored_unit true (L "second") <> [] /\ ends_with (USCORE :: stored_unit true (L "second")) (L "a_seconds") = false
  /\ tparse ex_unit_mismatch = Err ValueError.
Proof.
  split; [vm_compute; reflexivity|].
  split; [exact (reads_meta_legacy true OM_UNIT (L "a_seconds") (L "second") (proj2 (proj2 skipsp_keywords)) eq_refl)|].
  split; [vm_compute; discriminate|]. split; vm_compute; reflexivity.
Qed.

Definition ex_unit_info := "# TYPE a_u info
# HELP a_u x
# UNIT a_u u
a_u_info 1
# EOF
"%string.
Example C15b_unit_on_info_stateset_nonvacuous :
  tlines ex_unit_info = [] ++ L "# TYPE a_u info" :: [L "# HELP a_u x"] ++ L "# UNIT a_u u" :: [L "a_u_info 1"; L "# EOF"]
  /\ stored_unit true (L "u") <> []
  /\ Forall (meta_for true (L "a_u")) [L "# HELP a_u x"]
  /\ reads_meta true (L "# TYPE a_u info") OM_TYPE (L "a_u") OM_info
  /\ reads_meta true (L "# UNIT a_u u") OM_UNIT (L "a_u") (L "u")
  /\ tparse ex_unit_info = Err ValueError.
Proof.
  split; [vm_compute; reflexivity|]. split; [vm_compute; discriminate|].
  split; [constructor; [|constructor]; exists OM_HELP, (L "x");
          exact (reads_meta_legacy true OM_HELP (L "a_u") (L "x") (proj1 skipsp_keywords) eq_refl)|].
  split; [exact (reads_meta_legacy true OM_TYPE (L "a_u") OM_info (proj1 (proj2 skipsp_keywords)) eq_refl)|].
  split; [exact (reads_meta_legacy true OM_UNIT (L "a_u") (L "u") (proj2 (proj2 skipsp_keywords)) eq_refl)|].
  vm_compute. reflexivity.
Qed.

(* (d) *)
Definition ex_eof_twice := "# TYPE a gauge
# EOF
# EOF
"%string.
Example C15b_eof_repeated_nonvacuous :
  tlines ex_eof_twice = [L "# TYPE a gauge"] ++ OM_EOF :: [] ++ OM_EOF :: []
  /\ tparse ex_eof_twice = Err ValueError.
Proof. split; vm_compute; reflexivity. Qed.

(* (e) *)
Definition mk (name : string) (labels : list (string * string)) (v : Z) : om_sample Z :=
  {| os_name := L name; os_labels := Some (map (fun kv => (L (fst kv), L (snd kv))) labels); os_value := Some v;
     os_ts := None; os_ex := None; os_nh := None |}.

(* _count in front of the bucket, _sum between them *)
Definition ex_count_first := "# TYPE a histogram
a_count 4
a_sum 1
a_bucket{le=""+Inf""} 3
# EOF
"%string.
Definition ex_cf_grp : list (om_sample Z) :=
  [mk "a_count" [] 4; mk "a_sum" [] 1; mk "a_bucket" [("le"%string, "+Inf"%string)] 3].
Definition ex_cf_pre := [L "# TYPE a histogram"; L "a_count 4"; L "a_sum 1"; L "a_bucket{le=""+Inf""} 3"].
Example C15b_hist_count_mismatch_last_group_nonvacuous :
  hgroup Z Z.eqb (L "a") ex_cf_grp
  /\ grp_bucket_value Z (L "a") ex_cf_grp = Some 3%Z /\ grp_count Z (L "a") ex_cf_grp = Some 4%Z /\ Z.eqb 3 4 = false
  /\ tlines ex_count_first = ex_cf_pre ++ [OM_EOF]
  /\ tprefix om_st_init ex_cf_pre [] = Ok (tstate ex_cf_pre, tacc ex_cf_pre)
  /\ st_name (tstate ex_cf_pre) = Some (L "a") /\ hist_typ (st_typ (tstate ex_cf_pre))
  /\ rev (st_samples (tstate ex_cf_pre)) = [] ++ ex_cf_grp
  /\ tparse ex_count_first = Err ValueError.
Proof.
  split.
  { cbn [hgroup ex_cf_grp]. split; [vm_compute; discriminate|]. split; [eexists; vm_compute; reflexivity|].
    vm_compute. repeat split; eauto. }
  conjs; fin.
Qed.

(* an inner group: the second group of three, _count first; the next sample has other labels *)
Definition ex_inner := "# TYPE a histogram
a_bucket{x=""0"",le=""+Inf""} 1
a_count{x=""1""} 4
a_sum{x=""1""} 1
a_bucket{x=""1"",le=""2""} 3
a_bucket{x=""1"",le=""+Inf""} 3
a_bucket{x=""2"",le=""+Inf""} 1
# EOF
"%string.
Definition ex_in_grp : list (om_sample Z) :=
  [mk "a_count" [("x"%string, "1"%string)] 4; mk "a_sum" [("x"%string, "1"%string)] 1;
   mk "a_bucket" [("x"%string, "1"%string); ("le"%string, "2"%string)] 3;
   mk "a_bucket" [("x"%string, "1"%string); ("le"%string, "+Inf"%string)] 3].
Definition ex_in_first := mk "a_bucket" [("x"%string, "0"%string); ("le"%string, "+Inf"%string)] 1.
Definition ex_in_nxt := mk "a_bucket" [("x"%string, "2"%string); ("le"%string, "+Inf"%string)] 1.
Definition ex_in_pre := [L "# TYPE a histogram"; L "a_bucket{x=""0"",le=""+Inf""} 1"; L "a_count{x=""1""} 4"; L "a_sum{x=""1""} 1";
                         L "a_bucket{x=""1"",le=""2""} 3"; L "a_bucket{x=""1"",le=""+Inf""} 3"; L "a_bucket{x=""2"",le=""+Inf""} 1"].
Example C15b_hist_count_mismatch_any_group_nonvacuous :
  hgroup Z Z.eqb (L "a") ex_in_grp
  /\ grp_bucket_value Z (L "a") ex_in_grp = Some 3%Z /\ grp_count Z (L "a") ex_in_grp = Some 4%Z /\ Z.eqb 3 4 = false
  /\ hsfx Z (L "a") ex_in_nxt <> []
  /\ (forall g, om_group_for_sample ex_in_nxt (L "a") OM_histogram = Ok g ->
                om_optdict_eqb g (fst (hgroup_end Z (L "a") ex_in_grp)) = false \/
                om_ts_eqb Z Z.eqb (os_ts ex_in_nxt) (snd (hgroup_end Z (L "a") ex_in_grp)) = false)
  /\ tlines ex_inner = ex_in_pre ++ [OM_EOF]
  /\ tprefix om_st_init ex_in_pre [] = Ok (tstate ex_in_pre, tacc ex_in_pre)
  /\ st_name (tstate ex_in_pre) = Some (L "a") /\ hist_typ (st_typ (tstate ex_in_pre))
  /\ rev (st_samples (tstate ex_in_pre)) = [ex_in_first] ++ ex_in_grp ++ ex_in_nxt :: []
  /\ tparse ex_inner = Err ValueError.
Proof.
  refine (conj _ _).
  { cbn [hgroup ex_in_grp]. refine (conj _ _); [vm_compute; discriminate|].
    refine (conj _ _); [eexists; vm_compute; reflexivity|]. vm_compute. repeat split; eauto. }
  do 4 (refine (conj _ _); [fin|]).
  refine (conj _ _).
  { intros g H. vm_compute in H. inversion H; subst. left. vm_compute. reflexivity. }
  conjs; fin.
Qed.

(* the last bucket of the group is not +Inf and _count / _sum stand behind it; and a gaugehistogram group whose _gcount
   differs *)
Definition ex_noinf := "# TYPE a histogram
a_bucket{le=""1""} 3
a_count 3
a_sum 1
# EOF
"%string.
Definition ex_noinf_grp : list (om_sample Z) :=
  [mk "a_bucket" [("le"%string, "1"%string)] 3; mk "a_count" [] 3; mk "a_sum" [] 1].
Definition ex_gcount := "# TYPE a gaugehistogram
a_gcount 4
a_gsum 1
a_bucket{le=""+Inf""} 3
# EOF
"%string.
Definition ex_gcount_grp : list (om_sample Z) :=
  [mk "a_gcount" [] 4; mk "a_gsum" [] 1; mk "a_bucket" [("le"%string, "+Inf"%string)] 3].
Example C15b_hist_no_inf_nonvacuous :
  hgroup Z Z.eqb (L "a") ex_noinf_grp
  /\ grp_last_bound Z toy_float (L "a") ex_noinf_grp = Some 1%Z /\ Z.eqb 1 (10 ^ 400) = false
  /\ grp_offends Z toy_float Z.eqb (10 ^ 400)%Z (L "a") ex_noinf_grp
  /\ rev (st_samples (tstate [L "# TYPE a histogram"; L "a_bucket{le=""1""} 3"; L "a_count 3"; L "a_sum 1"])) = [] ++ ex_noinf_grp
  /\ tparse ex_noinf = Err ValueError
  /\ hgroup Z Z.eqb (L "a") ex_gcount_grp
  /\ grp_bucket_value Z (L "a") ex_gcount_grp = Some 3%Z /\ grp_count Z (L "a") ex_gcount_grp = Some 4%Z
  /\ st_typ (tstate [L "# TYPE a gaugehistogram"; L "a_gcount 4"; L "a_gsum 1"; L "a_bucket{le=""+Inf""} 3"]) = Some OM_gaugehistogram
  /\ rev (st_samples (tstate [L "# TYPE a gaugehistogram"; L "a_gcount 4"; L "a_gsum 1"; L "a_bucket{le=""+Inf""} 3"])) = [] ++ ex_gcount_grp
  /\ tparse ex_gcount = Err ValueError.
Proof.
  refine (conj _ _).
  { cbn [hgroup ex_noinf_grp]. refine (conj _ _); [vm_compute; discriminate|].
    refine (conj _ _); [eexists; vm_compute; reflexivity|]. vm_compute. repeat split; eauto. }
  refine (conj _ _); [fin|]. refine (conj _ _); [fin|].
  refine (conj _ _); [right; exists 1%Z; split; vm_compute; reflexivity|].
  refine (conj _ _); [fin|]. refine (conj _ _); [fin|].
  refine (conj _ _).
  { cbn [hgroup ex_gcount_grp]. refine (conj _ _); [vm_compute; discriminate|].
    refine (conj _ _); [eexists; vm_compute; reflexivity|]. vm_compute. repeat split; eauto. }
  conjs; fin.
Qed.

(* counts not cumulative between two buckets that are not adjacent in the sample list *)
Definition ex_separated := "# TYPE a histogram
a_bucket{le=""1""} 5
a_count 3
a_sum 1
a_bucket{le=""+Inf""} 3
# EOF
"%string.
Definition ex_sep_s1 := mk "a_bucket" [("le"%string, "1"%string)] 5.
Definition ex_sep_mid := [mk "a_count" [] 3; mk "a_sum" [] 1].
Definition ex_sep_s2 := mk "a_bucket" [("le"%string, "+Inf"%string)] 3.
Definition ex_sep_pre := [L "# TYPE a histogram"; L "a_bucket{le=""1""} 5"; L "a_count 3"; L "a_sum 1"; L "a_bucket{le=""+Inf""} 3"].
Example C15b_hist_buckets_in_group_nonvacuous :
  is_bucket_of Z toy_float (L "a") ex_sep_s1 [(L "le", L "1")] 1%Z
  /\ is_bucket_of Z toy_float (L "a") ex_sep_s2 [(L "le", L "+Inf")] (10 ^ 400)%Z
  /\ hchain Z Z.eqb (L "a") (Some (d_remove str_eqb [(L "le", L "1")] OM_le)) (os_ts ex_sep_s1) (ex_sep_mid ++ [ex_sep_s2])
  /\ Forall (nonbucket Z (L "a")) ex_sep_mid
  /\ (match os_value ex_sep_s1, os_value ex_sep_s2 with Some v1, Some v2 => Z.ltb v2 v1 = true | _, _ => True end)
  /\ rev (st_samples (tstate ex_sep_pre)) = [] ++ ex_sep_s1 :: ex_sep_mid ++ ex_sep_s2 :: []
  /\ tparse ex_separated = Err ValueError.
Proof.
  refine (conj _ _); [repeat split; try reflexivity; eexists; split; reflexivity|].
  refine (conj _ _); [repeat split; try reflexivity; eexists; split; vm_compute; reflexivity|].
  refine (conj _ _); [vm_compute; repeat split; eauto|].
  refine (conj _ _); [repeat constructor|].
  conjs; fin.
Qed.

(* the family with the offending last group is closed by '# EOF', by the metadata of the next family, by a sample *)
Definition ex_closed_meta := "# TYPE a histogram
a_count 4
a_sum 1
a_bucket{le=""+Inf""} 3
# TYPE b gauge
b 1
# EOF
"%string.
Definition ex_closed_sample := "# TYPE a histogram
a_count 4
a_sum 1
a_bucket{le=""+Inf""} 3
b 1
# EOF
"%string.
Example C15b_failing_family_closed_nonvacuous :
  (exists e, tflush (tstate ex_cf_pre) = Err e)
  /\ tlines ex_closed_meta = ex_cf_pre ++ L "# TYPE b gauge" :: [L "b 1"; OM_EOF]
  /\ reads_meta true (L "# TYPE b gauge") OM_TYPE (L "b") (L "gauge")
  /\ st_name (tstate ex_cf_pre) <> Some (L "b")
  /\ tparse ex_closed_meta = Err ValueError
  /\ tlines ex_closed_sample = ex_cf_pre ++ L "b 1" :: [OM_EOF]
  /\ is_sample_line (L "b 1") = true
  /\ tread (st_typ (tstate ex_cf_pre)) (L "b 1") = Ok (tsample (Some OM_histogram) (L "b 1"), false)
  /\ mem_str (os_name (tsample (Some OM_histogram) (L "b 1"))) (st_allowed (tstate ex_cf_pre)) = false
  /\ tparse ex_closed_sample = Err ValueError.
Proof.
  refine (conj _ _); [exists ValueError; vm_compute; reflexivity|].
  refine (conj _ _); [fin|].
  refine (conj _ _); [exact (reads_meta_legacy true OM_TYPE (L "b") (L "gauge") (proj1 (proj2 skipsp_keywords)) eq_refl)|].
  conjs; fin.
Qed.

(* counts not integral: float() of the ASCII oracle reads 1.5e0 as the number standing for 1.5; here the value reader
   is that float() and the number standing for 1.5 is the one non-integral number *)
Definition tprefix_i := om_prefix false true true true true true true true true true Z toy_float toy_float toy_int
    Z.ltb Z.eqb (fun _ => false) (fun z => negb (z =? 2)%Z) (fun z => (2 ^ 1024 <=? Z.abs z)%Z) 0%Z 1%Z (10 ^ 400)%Z
    (fun _ _ => None) toy_word is_space_ascii is_digit.
Definition tread_i := om_read_sample false true true true true true true Z toy_float toy_float toy_int Z.eqb (fun _ => false)
    toy_word is_space_ascii is_digit.
Definition tsample_i (typ : option str) (l : str) : om_sample Z :=
  match tread_i typ l with
  | Ok (s, _) => s
  | Err _ => {| os_name := []; os_labels := None; os_value := None; os_ts := None; os_ex := None; os_nh := None |}
  end.
Definition tparse_i (doc : string) := om_parse false true true true true true true true true true Z toy_float toy_float toy_int
    Z.ltb Z.eqb (fun _ => false) (fun z => negb (z =? 2)%Z) (fun z => (2 ^ 1024 <=? Z.abs z)%Z) 0%Z 1%Z (10 ^ 400)%Z
    (fun _ _ => None) toy_word is_space_ascii is_digit (s2l doc).
Definition ex_nonintegral := "# TYPE a histogram
a_bucket{x=""1"",le=""+Inf""} 1
a_count{x=""2""} 1.5e0
a_bucket{x=""2"",le=""+Inf""} 1
# EOF
"%string.
Definition ex_ni_a := [L "# TYPE a histogram"; L "a_bucket{x=""1"",le=""+Inf""} 1"].
Definition ex_ni_st := match tprefix_i om_st_init ex_ni_a [] with Ok (st, _) => st | Err _ => om_st_init end.
Example C15b_count_integral_document_nonvacuous :
  tlines ex_nonintegral = ex_ni_a ++ L "a_count{x=""2""} 1.5e0" :: [L "a_bucket{x=""2"",le=""+Inf""} 1"; OM_EOF]
  /\ (exists acc, tprefix_i om_st_init ex_ni_a [] = Ok (ex_ni_st, acc))
  /\ st_name ex_ni_st = Some (L "a")
  /\ is_sample_line (L "a_count{x=""2""} 1.5e0") = true
  /\ tread_i (st_typ ex_ni_st) (L "a_count{x=""2""} 1.5e0") = Ok (tsample_i (Some OM_histogram) (L "a_count{x=""2""} 1.5e0"), false)
  /\ mem_str (os_name (tsample_i (Some OM_histogram) (L "a_count{x=""2""} 1.5e0"))) (st_allowed ex_ni_st) = true
  /\ os_name (tsample_i (Some OM_histogram) (L "a_count{x=""2""} 1.5e0")) = L "a" ++ OM_count
  /\ os_value (tsample_i (Some OM_histogram) (L "a_count{x=""2""} 1.5e0")) = Some 2%Z
  /\ negb (2 =? 2)%Z = false
  /\ tparse_i ex_nonintegral = Err ValueError.
Proof.
  refine (conj _ _); [fin|]. refine (conj _ _); [eexists; vm_compute; reflexivity|]. conjs; fin.
Qed.

(* (f) *)
Definition ex_ts_back := "# TYPE a gauge
a{x=""1""} 1 7
a{x=""2""} 1 5
a{x=""2""} 2 4
# EOF
"%string.
Definition ex_ts_partial := "# TYPE a gauge
a{x=""1""} 1 7
a{x=""2""} 1 5
a{x=""2""} 2
# EOF
"%string.
Definition ex_ts_a := [L "# TYPE a gauge"; L "a{x=""1""} 1 7"].
Example C15b_timestamps_two_lines_nonvacuous :
  tlines ex_ts_back = ex_ts_a ++ L "a{x=""2""} 1 5" :: L "a{x=""2""} 2 4" :: [OM_EOF]
  /\ tlines ex_ts_partial = ex_ts_a ++ L "a{x=""2""} 1 5" :: L "a{x=""2""} 2" :: [OM_EOF]
  /\ tprefix om_st_init ex_ts_a [] = Ok (tstate ex_ts_a, tacc ex_ts_a)
  /\ st_name (tstate ex_ts_a) = Some (L "a")
  /\ mem_str (L "a") (st_allowed (tstate ex_ts_a)) = true
  /\ tread (st_typ (tstate ex_ts_a)) (L "a{x=""2""} 1 5") = Ok (tsample (Some OM_gauge) (L "a{x=""2""} 1 5"), false)
  /\ tread (st_typ (tstate ex_ts_a)) (L "a{x=""2""} 2 4") = Ok (tsample (Some OM_gauge) (L "a{x=""2""} 2 4"), false)
  /\ tread (st_typ (tstate ex_ts_a)) (L "a{x=""2""} 2") = Ok (tsample (Some OM_gauge) (L "a{x=""2""} 2"), false)
  /\ om_group_for_sample (tsample (Some OM_gauge) (L "a{x=""2""} 1 5")) (L "a") OM_gauge = Ok (Some [(L "x", L "2")])
  /\ om_group_for_sample (tsample (Some OM_gauge) (L "a{x=""2""} 2 4")) (L "a") OM_gauge = Ok (Some [(L "x", L "2")])
  /\ om_group_for_sample (tsample (Some OM_gauge) (L "a{x=""2""} 2")) (L "a") OM_gauge = Ok (Some [(L "x", L "2")])
  /\ ts_violation true Z Z.ltb (fun _ _ => None) (Some OM_gauge)
       (os_ts (tsample (Some OM_gauge) (L "a{x=""2""} 1 5"))) (os_ts (tsample (Some OM_gauge) (L "a{x=""2""} 2 4")))
  /\ ts_violation true Z Z.ltb (fun _ _ => None) (Some OM_gauge)
       (os_ts (tsample (Some OM_gauge) (L "a{x=""2""} 1 5"))) (os_ts (tsample (Some OM_gauge) (L "a{x=""2""} 2")))
  /\ tparse ex_ts_back = Err ValueError /\ tparse ex_ts_partial = Err ValueError.
Proof.
  do 11 (refine (conj _ _); [fin|]).
  refine (conj _ _); [vm_compute; split; reflexivity|].
  refine (conj _ _); [vm_compute; exact I|].
  conjs; fin.
Qed.

(* (g) a native-histogram family in front of the offending family: the line before '# TYPE a gauge' IS read as a native
   histogram (flag true), the two lines of the gauge group are not, and the documents are rejected *)
Definition ex_nh_then_back := "# TYPE h histogram
h {count:1,sum:1,schema:0,zero_threshold:0,zero_count:0}
# TYPE a gauge
a{x=""2""} 1 5
a{x=""2""} 2 4
# EOF
"%string.
Definition ex_nh_then_partial := "# TYPE h histogram
h {count:1,sum:1,schema:0,zero_threshold:0,zero_count:0}
# TYPE a gauge
a{x=""2""} 1 5
a{x=""2""} 2
# EOF
"%string.
Definition ex_nh_then_interleaved := "# TYPE h histogram
h {count:1,sum:1,schema:0,zero_threshold:0,zero_count:0}
# TYPE g gauge
g 1
# TYPE k gauge
k 1
g 2
# EOF
"%string.
Definition ex_nh_a := [L "# TYPE h histogram"; L "h {count:1,sum:1,schema:0,zero_threshold:0,zero_count:0}"; L "# TYPE a gauge"].
Definition ex_nh_k := [L "# TYPE h histogram"; L "h {count:1,sum:1,schema:0,zero_threshold:0,zero_count:0}"; L "# TYPE g gauge";
                       L "g 1"; L "# TYPE k gauge"; L "k 1"].
Example C15b_after_native_histogram_nonvacuous :
  tlines ex_nh_then_back = ex_nh_a ++ L "a{x=""2""} 1 5" :: L "a{x=""2""} 2 4" :: [OM_EOF]
  /\ tlines ex_nh_then_partial = ex_nh_a ++ L "a{x=""2""} 1 5" :: L "a{x=""2""} 2" :: [OM_EOF]
  /\ tprefix om_st_init ex_nh_a [] = Ok (tstate ex_nh_a, tacc ex_nh_a)
  /\ (exists s, tread (Some OM_histogram) (L "h {count:1,sum:1,schema:0,zero_threshold:0,zero_count:0}") = Ok (s, true))
  /\ st_name (tstate ex_nh_a) = Some (L "a")
  /\ om_typ_is (st_typ (tstate ex_nh_a)) OM_histogram = false
  /\ mem_str (L "a") (st_allowed (tstate ex_nh_a)) = true
  /\ tread (st_typ (tstate ex_nh_a)) (L "a{x=""2""} 1 5") = Ok (tsample (Some OM_gauge) (L "a{x=""2""} 1 5"), false)
  /\ tread (st_typ (tstate ex_nh_a)) (L "a{x=""2""} 2 4") = Ok (tsample (Some OM_gauge) (L "a{x=""2""} 2 4"), false)
  /\ tread (st_typ (tstate ex_nh_a)) (L "a{x=""2""} 2") = Ok (tsample (Some OM_gauge) (L "a{x=""2""} 2"), false)
  /\ tparse ex_nh_then_back = Err ValueError /\ tparse ex_nh_then_partial = Err ValueError
  (* the family switch after a native histogram: `g 2` inside family k *)
  /\ tlines ex_nh_then_interleaved = ex_nh_k ++ L "g 2" :: [OM_EOF]
  /\ tprefix om_st_init ex_nh_k [] = Ok (tstate ex_nh_k, tacc ex_nh_k)
  /\ om_typ_is (st_typ (tstate ex_nh_k)) OM_histogram = false
  /\ tread (st_typ (tstate ex_nh_k)) (L "g 2") = Ok (tsample (Some OM_gauge) (L "g 2"), false)
  /\ mem_str (os_name (tsample (Some OM_gauge) (L "g 2"))) (st_allowed (tstate ex_nh_k)) = false
  /\ tparse ex_nh_then_interleaved = Err ValueError.
Proof.
  do 3 (refine (conj _ _); [fin|]).
  refine (conj _ _); [eexists; vm_compute; reflexivity|].
  conjs; fin.
Qed.

(* an accepted document: exactly one '# EOF', the last line *)
Example C15b_accepted_eof_unique_nonvacuous :
  is_ok (tparse ex_meta_late) = false
  /\ exists fams, tparse "# TYPE a gauge
a 1
# EOF
" = Ok fams.
Proof. split; [reflexivity|]. eexists. vm_compute. reflexivity. Qed.

(* REPAIRED finding (fixes/C15-om-later-exposure.diff): a group exposed again at a later timestamp.  The pinned parser
   emptied group_timestamp_samples only when the GROUP changed, not when its timestamp advanced, so at the later
   timestamp every series but the first was dropped as a duplicate before _check_histogram ran: the _count that differs
   from the +Inf bucket (5 against 4), and the bucket that breaks the order, were never seen and the documents were
   accepted.  The model now describes the repaired step; om_group_step_orig is the pinned one. *)
Definition ex_finding_count := "# TYPE a histogram
a_bucket{le=""+Inf""} 3 1
a_count 3 1
a_sum 1 1
a_bucket{le=""+Inf""} 4 2
a_count 5 2
a_sum 1 2
# EOF
"%string.
Definition ex_finding_order := "# TYPE a histogram
a_bucket{le=""1""} 5 1
a_bucket{le=""+Inf""} 5 1
a_bucket{le=""+Inf""} 7 2
a_bucket{le=""1""} 9 2
# EOF
"%string.
Definition ex_two_exposures := "# TYPE a histogram
a_bucket{le=""+Inf""} 3 1
a_count 3 1
a_sum 1 1
a_bucket{le=""+Inf""} 4 2
a_count 4 2
a_sum 2 2
# EOF
"%string.
Definition ex_fc_lines := [L "# TYPE a histogram"; L "a_bucket{le=""+Inf""} 3 1"; L "a_count 3 1"; L "a_sum 1 1";
                           L "a_bucket{le=""+Inf""} 4 2"; L "a_count 5 2"; L "a_sum 1 2"].
(* the repaired model: all six samples reach the group checks, the documents are rejected; a valid second exposure
   keeps its six samples *)
Example C15b_finding_later_exposure_repaired :
  tparse ex_finding_count = Err ValueError /\ tparse ex_finding_order = Err ValueError
  /\ tprefix om_st_init ex_fc_lines [] = Ok (tstate ex_fc_lines, tacc ex_fc_lines)
  /\ length (st_samples (tstate ex_fc_lines)) = 6%nat
  /\ is_ok (tparse ex_two_exposures) = true
  /\ length (st_samples (tstate (tlines ex_two_exposures))) = 6%nat.
Proof. conjs; fin. Qed.

(* the pinned group step against the repaired one, on the samples of ex_finding_count, from the state `# TYPE a histogram`
   leads to: the pinned step keeps 4 of the 6 samples - a_count 5 2 is not among them - and _check_histogram accepts
   the survivors; the repaired step keeps all 6 and _check_histogram rejects them *)
Definition tgroup := om_group_step true Z Z.ltb Z.eqb (fun _ _ => None).
Definition tgroup_orig := om_group_step_orig true Z Z.ltb Z.eqb (fun _ _ => None).
Definition tcheck_hist := om_check_histogram Z toy_float Z.ltb Z.eqb 0%Z (10 ^ 400)%Z.
Fixpoint tsteps (f : om_st Z -> str -> om_sample Z -> res (om_st Z)) (st : om_st Z) (name : str)
                (ss : list (om_sample Z)) : res (om_st Z) :=
  match ss with [] => Ok st | s :: r => do st' <- f st name s; tsteps f st' name r end.
Definition tsamples_after (f : om_st Z -> str -> om_sample Z -> res (om_st Z)) (ss : list (om_sample Z)) : list (om_sample Z) :=
  match tsteps f (tstate [L "# TYPE a histogram"]) (L "a") ss with Ok st => rev (st_samples st) | Err _ => [] end.
Definition ex_fc_samples : list (om_sample Z) := map (tsample (Some OM_histogram)) (tl ex_fc_lines).
Definition ex_fc_count5 : om_sample Z := tsample (Some OM_histogram) (L "a_count 5 2").

Theorem C15_later_exposure_orig_refuted :
  (exists st', tsteps tgroup_orig (tstate [L "# TYPE a histogram"]) (L "a") ex_fc_samples = Ok st')
  /\ length (tsamples_after tgroup_orig ex_fc_samples) = 4%nat
  /\ ~ In ex_fc_count5 (tsamples_after tgroup_orig ex_fc_samples)
  /\ tcheck_hist (tsamples_after tgroup_orig ex_fc_samples) (L "a") = Ok tt
  /\ tsamples_after tgroup ex_fc_samples = ex_fc_samples
  /\ In ex_fc_count5 (tsamples_after tgroup ex_fc_samples)
  /\ tcheck_hist (tsamples_after tgroup ex_fc_samples) (L "a") = Err ValueError
  /\ tparse ex_finding_count = Err ValueError.
Proof.
  refine (conj _ _); [eexists; vm_compute; reflexivity|].
  refine (conj _ _); [vm_compute; reflexivity|].
  refine (conj _ _); [vm_compute; intros H; repeat (destruct H as [H|H]; [discriminate H|]); exact H|].
  refine (conj _ _); [vm_compute; reflexivity|].
  refine (conj _ _); [vm_compute; reflexivity|].
  refine (conj _ _); [vm_compute; tauto|].
  split; vm_compute; reflexivity.
Qed.
Print Assumptions C15_later_exposure_orig_refuted.

(* FIXED (fixes/C15-om-native-foreign-name.diff; known_findings.txt: fixed).  Pinned source: inside a histogram family
   a line that reads as a native histogram is attached to the family in progress WHATEVER ITS NAME (source:
   `if sample.name not in allowed_names and not is_nh`).  So a native sample of family a may sit inside family b
   (interleaved families: b then holds the samples b and a), the metadata of a may follow a's sample when that sample
   stands in another histogram family (late metadata), and a name nobody declared is filed under a: all three documents
   are accepted.  Repaired source (fix_nhsfx): only the native sample named like the family in progress is exempt from
   the family switch; all three documents are rejected (C15b_foreign_native_sample_document, whose hypotheses the
   interleaved document meets).  tparse_nf0 / tprefix_nf0 = the toy instance with fix_nhsfx = false. *)
Definition ex_native_foreign := "# TYPE a histogram
a {count:1,sum:1,schema:0,zero_threshold:0,zero_count:0}
# TYPE b histogram
b {count:1,sum:1,schema:0,zero_threshold:0,zero_count:0}
a {count:2,sum:1,schema:0,zero_threshold:0,zero_count:0}
# EOF
"%string.
Definition ex_native_late_type := "# TYPE b histogram
b {count:1,sum:1,schema:0,zero_threshold:0,zero_count:0}
a {count:2,sum:1,schema:0,zero_threshold:0,zero_count:0}
# TYPE a histogram
# EOF
"%string.
Definition ex_native_stray := "# TYPE a histogram
zzz {count:1,sum:1,schema:0,zero_threshold:0,zero_count:0}
# EOF
"%string.
Definition ex_nf_pre := [L "# TYPE a histogram"; L "a {count:1,sum:1,schema:0,zero_threshold:0,zero_count:0}";
                         L "# TYPE b histogram"; L "b {count:1,sum:1,schema:0,zero_threshold:0,zero_count:0}"].
Definition ex_nf_line := L "a {count:2,sum:1,schema:0,zero_threshold:0,zero_count:0}".
Definition tparse_nf0 := toy_parse true false true true true true.
Definition tprefix_nf0 := om_prefix false true true false true true true true true true Z toy_int toy_float toy_int
    Z.ltb Z.eqb (fun _ => false) (fun _ => true) (fun z => (2 ^ 1024 <=? Z.abs z)%Z) 0%Z 1%Z (10 ^ 400)%Z
    (fun _ _ => None) toy_word is_space_ascii is_digit.
(* (family name, names of its samples) of every returned family *)
Definition nf_shape (r : res (list (om_family Z))) : res (list (str * list str)) :=
  match r with
  | Ok fams => Ok (map (fun f => (of_name f, map (@os_name Z) (of_samples f))) fams)
  | Err e => Err e
  end.
Theorem C15_native_sample_foreign_family_orig_refuted :
  (* pinned model: accepted, the stray sample filed under the family in progress *)
  nf_shape (tparse_nf0 ex_native_foreign) = Ok [(L "a", [L "a"]); (L "b", [L "b"; L "a"])]
  /\ nf_shape (tparse_nf0 ex_native_late_type) = Ok [(L "b", [L "b"; L "a"]); (L "a", [])]
  /\ nf_shape (tparse_nf0 ex_native_stray) = Ok [(L "a", [L "zzz"])]
  /\ (exists st acc, tprefix_nf0 om_st_init (ex_nf_pre ++ [ex_nf_line]) [] = Ok (st, acc)
                     /\ st_name st = Some (L "b") /\ map (@os_name Z) (st_samples st) = [L "a"; L "b"])
  (* repaired model: rejected *)
  /\ tparse ex_native_foreign = Err ValueError
  /\ tparse ex_native_late_type = Err ValueError
  /\ tparse ex_native_stray = Err ValueError
  (* the interleaved document meets the hypotheses of C15b_foreign_native_sample_document *)
  /\ tlines ex_native_foreign = ex_nf_pre ++ ex_nf_line :: [OM_EOF]
  /\ tprefix om_st_init ex_nf_pre [] = Ok (tstate ex_nf_pre, tacc ex_nf_pre)
  /\ is_sample_line ex_nf_line = true
  /\ (exists s, tread (st_typ (tstate ex_nf_pre)) ex_nf_line = Ok (s, true)
                /\ mem_str (os_name s) (st_allowed (tstate ex_nf_pre)) = false
                /\ st_name (tstate ex_nf_pre) <> Some (os_name s)).
Proof.
  do 3 (refine (conj _ _); [vm_compute; reflexivity|]).
  refine (conj _ _); [eexists; eexists; vm_compute; repeat split; reflexivity|].
  do 6 (refine (conj _ _); [vm_compute; reflexivity|]).
  eexists. split; [vm_compute; reflexivity|]. split; [vm_compute; reflexivity|]. vm_compute. discriminate.
Qed.
Print Assumptions C15_native_sample_foreign_family_orig_refuted.

(* the family switch inside a histogram family (repaired source): a float sample of a foreign name closes it *)
Definition ex_hist_switch := [L "# TYPE a histogram"; L "a {count:1,sum:1,schema:0,zero_threshold:0,zero_count:0}"].
Example C15b_foreign_sample_switches_family_in_histogram_nonvacuous :
  tprefix om_st_init ex_hist_switch [] = Ok (tstate ex_hist_switch, tacc ex_hist_switch)
  /\ om_typ_is (st_typ (tstate ex_hist_switch)) OM_histogram = true
  /\ st_name (tstate ex_hist_switch) <> Some (os_name (tsample (Some OM_histogram) (L "b 1")))
  /\ tread (st_typ (tstate ex_hist_switch)) (L "b 1") = Ok (tsample (Some OM_histogram) (L "b 1"), false)
  /\ mem_str (os_name (tsample (Some OM_histogram) (L "b 1"))) (st_allowed (tstate ex_hist_switch)) = false
  /\ (exists st' out, om_sample_line false true true true true true true true true Z toy_int toy_float toy_int
                        Z.ltb Z.eqb (fun _ => false) (fun _ => true) (fun z => (2 ^ 1024 <=? Z.abs z)%Z) 0%Z 1%Z (10 ^ 400)%Z
                        (fun _ _ => None) toy_word is_space_ascii is_digit (tstate ex_hist_switch) (L "b 1") = Ok (st', out))
  (* and the exemption that is left: the native sample named like the family is attached *)
  /\ (exists s st' out, tread (Some OM_histogram) (L "a {count:2,sum:1,schema:0,zero_threshold:0,zero_count:0}") = Ok (s, true)
        /\ om_sample_line false true true true true true true true true Z toy_int toy_float toy_int
             Z.ltb Z.eqb (fun _ => false) (fun _ => true) (fun z => (2 ^ 1024 <=? Z.abs z)%Z) 0%Z 1%Z (10 ^ 400)%Z
             (fun _ _ => None) toy_word is_space_ascii is_digit (tstate ex_hist_switch)
             (L "a {count:2,sum:1,schema:0,zero_threshold:0,zero_count:0}") = Ok (st', out)
        /\ st_name (tstate ex_hist_switch) = Some (os_name s)).
Proof.
  refine (conj _ _); [fin|]. refine (conj _ _); [fin|]. refine (conj _ _); [vm_compute; discriminate|].
  refine (conj _ _); [fin|]. refine (conj _ _); [fin|].
  refine (conj _ _); [eexists; eexists; vm_compute; reflexivity|].
  eexists. eexists. eexists. split; [vm_compute; reflexivity|]. split; vm_compute; reflexivity.
Qed.

(* the state-level statements: a filled field, a clashing family in progress, an offending unit in progress *)
Example C15b_state_hypotheses_nonvacuous :
  (st_name (tstate [L "# TYPE a gauge"; L "# HELP a x"]) = Some (L "a")
   /\ meta_field Z (tstate [L "# TYPE a gauge"; L "# HELP a x"]) OM_HELP = true
   /\ reads_meta true (L "# HELP a y") OM_HELP (L "a") (L "y"))
  /\ Clash Z (tstate (ex_cm_a ++ ex_cm_mid ++ [L "# TYPE a_total gauge"]))
  /\ BadUnit Z (tstate [L "# TYPE b gauge"; L "b 1"; L "# TYPE a_seconds gauge"; L "# UNIT a_seconds second"]).
Proof.
  refine (conj _ _).
  { refine (conj _ _); [fin|]. refine (conj _ _); [fin|].
    exact (reads_meta_legacy true OM_HELP (L "a") (L "y") (proj1 skipsp_keywords) eq_refl). }
  refine (conj _ _).
  { exists (L "a_total"), (L "a_total"). conjs; fin. }
  exists (L "a_seconds"), (L "second"). conjs; fin.
Qed.

Print Assumptions C15b_meta_repeated_or_late_step.
Print Assumptions C15b_meta_repeated.
Print Assumptions C15b_meta_late.
Print Assumptions C15b_reads_meta_legacy.
Print Assumptions C15b_reads_meta_quoted.
Print Assumptions C15b_keywords_plain.
Print Assumptions C15b_clash_is_final.
Print Assumptions C15b_family_clash_meta.
Print Assumptions C15b_family_clash_sample.
Print Assumptions C15b_unit_mismatch.
Print Assumptions C15b_unit_on_info_stateset.
Print Assumptions C15b_unit_of_flags.
Print Assumptions C15b_bad_unit_is_final.
Print Assumptions C15b_eof_repeated.
Print Assumptions C15b_accepted_eof_unique.
Print Assumptions C15b_hist_count_mismatch_last_group.
Print Assumptions C15b_hist_count_mismatch_any_group.
Print Assumptions C15b_hist_count_mismatch_document.
Print Assumptions C15b_hist_count_mismatch_flush.
Print Assumptions C15b_failing_family_at_eof.
Print Assumptions C15b_failing_family_closed_by_metadata.
Print Assumptions C15b_failing_family_closed_by_sample.
Print Assumptions C15b_later_exposure_recorded.
Print Assumptions C15b_hist_buckets_in_group.
Print Assumptions C15b_hist_no_inf_last_group.
Print Assumptions C15b_hist_no_inf_any_group.
Print Assumptions C15b_hist_offending_group_document.
Print Assumptions C15b_hist_offending_group_flush.
Print Assumptions C15b_count_integral_document.
Print Assumptions C15b_sample_line_group_rejected.
Print Assumptions C15b_sample_line_step.
Print Assumptions C15b_timestamps_two_lines.
Print Assumptions C15b_native_flag_needs_histogram.
Print Assumptions C15b_sample_line_group_rejected_any_flag.
Print Assumptions C15b_timestamps_two_lines_after_any_prefix.
Print Assumptions C15b_foreign_sample_switches_family.
Print Assumptions C15b_foreign_native_sample_rejected.
Print Assumptions C15b_foreign_native_sample_document.
Print Assumptions C15b_native_sample_attached_own_name.
