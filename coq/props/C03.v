(* C03 - text exposition parses back to exactly the exposed time series.   (layered: see DESIGN.md 7/C03)
   Statements only.  Models: model/Expo.v (exposition), model/TextParser.v (parser). *)
From V Require Import lib.PyBase lib.PyStr model.Validation model.Expo model.TextParser proofs.EscapeProofs proofs.LabelRoundTrip proofs.SampleRoundTrip proofs.DocRoundTrip.
From V Require Import model.Utils.
Open Scope N_scope.

(* L1: the parser's unescaping inverts the exposition's escaping, for every string *)
Theorem C03_L1_unescape_escape : forall s, replace_escaping (escape_chain s) = s.
Proof. exact (fun s => eq_trans (f_equal replace_escaping (escape_chain_eq s)) (unescape_escape s)). Qed.
Print Assumptions C03_L1_unescape_escape.

Theorem C03_L1_help_unescape_escape : forall s, replace_help_escaping (help_escape_chain s) = s.
Proof. exact (fun s => eq_trans (f_equal replace_help_escaping (help_escape_chain_eq s)) (help_unescape_escape s)). Qed.
Print Assumptions C03_L1_help_unescape_escape.

(* L2: a quoted, escaped string is skipped as a whole by the quote-aware scanner, whatever it contains *)
Theorem C03_L2_quoted_scan : forall chs v rest, mem_char DQ chs = false ->
  ScanFacts.nuq0 chs (quote (escape v) ++ rest) false false
  = option_map (fun k => (length (quote (escape v)) + k)%nat) (ScanFacts.nuq0 chs rest false false)
  /\ ScanFacts.st_after (quote (escape v)) false false = (false, false).
Proof. exact quoted_scan. Qed.
Print Assumptions C03_L2_quoted_scan.

(* L3: the label block both expositions write - names bare when legacy, quoted and escaped otherwise, values
   quoted and escaped, sorted, comma-separated - is read back by parse_labels exactly and in order, for ALL label
   names and values (keys distinct, not reserved '__...', as the constructors guarantee) *)
Theorem C03_L3_labels_roundtrip : forall labels,
  Forall key_ok (map fst labels) -> NoDup (map fst labels) ->
  parse_labels false true (labelstr labels) false = Ok (sort_kv labels).
Proof. exact labelstr_roundtrip. Qed.
Print Assumptions C03_L3_labels_roundtrip.

Example C03_L3_nonvacuous :
  let labels := [([LF; DQ; BS], [DQ; BS; LF; COMMA; RBRACE; EQS]); (s2l "le", s2l "+Inf")] in
  Forall key_ok (map fst labels) /\ NoDup (map fst labels) /\
  parse_labels false true (labelstr labels) false = Ok (sort_kv labels).
Proof.
  cbv zeta. split; [repeat constructor|]. split; [|vm_compute; reflexivity].
  constructor; [intros [H|[]]; discriminate|]. constructor; [intros []|constructor].
Qed.

(* L4: a whole sample line of the text exposition - name (bare when legacy, otherwise quoted inside the braces),
   sorted label block, value, optional millisecond timestamp - is read back by _parse_sample as exactly that sample.
   Hypotheses are about CPython only: the value token floatToGoString produced and the decimal timestamp are plain
   tokens (token_ok: no whitespace, underscore, brace, quote or backslash) and int()/float() read them
   (parse_num ... = Some ...).  The sample NAME, label names and label values are ARBITRARY strings. *)
Theorem C03_L4_sample_roundtrip :
  forall (NUM : Type) (parse_num parse_float : str -> option NUM) (div1000 : NUM -> res NUM) s nv tsv,
    Forall key_ok (map fst (s_labels s)) -> NoDup (map fst (s_labels s)) ->
    token_ok (go_string (s_value s)) -> parse_num (go_string (s_value s)) = Some nv ->
    ts_spec NUM parse_num div1000 s tsv ->
    exists body, text_sample_line s = body ++ [LF] /\
      parse_sample false true NUM parse_num parse_float div1000 true body
      = Ok {| ps_name := s_name s; ps_labels := sort_kv (s_labels s); ps_value := nv; ps_ts := tsv |}.
Proof. exact text_sample_roundtrip. Qed.
Print Assumptions C03_L4_sample_roundtrip.

(* non-vacuity: a hostile sample name and hostile labels, value 1e+06, timestamp 1500 ms *)
Example C03_L4_nonvacuous :
  let s := {| s_name := [LF; DQ; BS; RBRACE]; s_labels := [([DQ; LF], [BS; DQ; COMMA; RBRACE])];
              s_value := FFin true (s2l "1000000.0"); s_ts_ms := Some 1500%Z; s_ts_om := None; s_ex := None |} in
  let body := removelast (text_sample_line s) in
  text_sample_line s = body ++ [LF] /\
    parse_sample false true (str) (fun t => Some t) (fun t => Some t) (fun t => Ok t) true body
    = Ok {| ps_name := s_name s; ps_labels := sort_kv (s_labels s); ps_value := s2l "1e+06"; ps_ts := Some (s2l "1500") |}.
Proof. vm_compute. split; reflexivity. Qed.

(* ================= L5: whole documents =================
   The text exposition of a registry is a sequence of BLOCKS (C03_L5_render_is_blocks): for every family its main block
   - '# HELP', '# TYPE' under the munged name and type (counter -> name_total, info -> name_info/gauge, stateset ->
   gauge, gaugehistogram -> histogram, unknown -> untyped) followed by the sample lines that are not _created/_gsum/
   _gcount series - and then one trailing gauge block per kind of such series present.
   C03_L5_roundtrip: the parser reads a document of blocks back as exactly one family per block, in order, with
   every sample (name, sorted labels, value, timestamp) as written; the family is what Metric(name, help, type) makes
   of the block (C03_L5_munge_*: a counter block loses its _total again, untyped is reported as unknown, other
   types keep name and type; the help text comes back with trailing whitespace removed: parsed_doc).
   Hypotheses (block_ok, chain): names non-empty, consecutive blocks differently named (C06), the type word has no
   whitespace, each sample's name is one the type allows (name, or name + _count/_sum/_bucket), label keys distinct
   and not reserved, and the CPython facts of L4 about the value and timestamp tokens (sample_ok).
   ALL names, label names, label values and help texts are arbitrary strings. *)
Theorem C03_L5_render_is_blocks : forall fams,
  text_render fams = flat_map render_block (flat_map blocks_of fams).
Proof. exact text_render_blocks. Qed.
Print Assumptions C03_L5_render_is_blocks.

Theorem C03_L5_roundtrip :
  forall (NUM : Type) (parse_num parse_float : str -> option NUM) (div1000 : NUM -> res NUM)
         (val_of : sample -> NUM) (ts_of : sample -> option NUM) fams pfams,
    Forall (block_ok NUM parse_num div1000 val_of ts_of) (flat_map blocks_of fams) ->
    chain [] (flat_map blocks_of fams) ->
    Forall2 (fun b f => fam_res NUM val_of ts_of b = Ok f) (flat_map blocks_of fams) pfams ->
    text_parse false true NUM parse_num parse_float div1000 true (text_render fams) = Ok pfams.
Proof.
  exact (fun NUM pn pf dv vo to fams pfams H1 H2 H3 =>
           eq_trans (f_equal _ (text_render_blocks fams))
                    (text_blocks_roundtrip NUM pn pf dv vo to (flat_map blocks_of fams) pfams H1 H2 H3)).
Qed.
Print Assumptions C03_L5_roundtrip.

Theorem C03_L5_munge_counter : forall NUM val_of ts_of n doc ss, n <> [] ->
  fam_res NUM val_of ts_of {| b_name := n ++ TextParser.S_total; b_doc := doc; b_typ := TextParser.S_counter; b_samples := ss |}
  = Ok {| pf_name := n; pf_doc := parsed_doc doc; pf_type := TextParser.S_counter;
          pf_samples := map (ps_of NUM val_of ts_of) ss |}.
Proof. exact fam_res_counter. Qed.
Print Assumptions C03_L5_munge_counter.

Theorem C03_L5_munge_untyped : forall NUM val_of ts_of n doc ss, n <> [] ->
  fam_res NUM val_of ts_of {| b_name := n; b_doc := doc; b_typ := TextParser.S_untyped; b_samples := ss |}
  = Ok {| pf_name := n; pf_doc := parsed_doc doc; pf_type := TextParser.S_unknown;
          pf_samples := map (ps_of NUM val_of ts_of) ss |}.
Proof. exact fam_res_untyped. Qed.
Print Assumptions C03_L5_munge_untyped.

Theorem C03_L5_munge_plain : forall NUM val_of ts_of n doc typ ss, n <> [] ->
  str_eqb typ TextParser.S_counter = false -> str_eqb typ TextParser.S_untyped = false ->
  mem_str typ METRIC_TYPES = true ->
  fam_res NUM val_of ts_of {| b_name := n; b_doc := doc; b_typ := typ; b_samples := ss |}
  = Ok {| pf_name := n; pf_doc := parsed_doc doc; pf_type := typ; pf_samples := map (ps_of NUM val_of ts_of) ss |}.
Proof. exact fam_res_plain. Qed.
Print Assumptions C03_L5_munge_plain.

(* non-vacuity: a counter with a created series and hostile strings everywhere parses back as two families *)
Example C03_L5_nonvacuous :
  let hostile := [DQ; BS; LF; 32; 35] in
  let smp n v := {| s_name := n; s_labels := [(hostile, hostile)]; s_value := FFin true v; s_ts_ms := None;
                    s_ts_om := None; s_ex := None |} in
  let f := {| f_name := hostile; f_doc := hostile; f_type := s2l "counter"; f_unit := [];
              f_samples := [smp (hostile ++ s2l "_total") (s2l "3.0"); smp (hostile ++ s2l "_created") (s2l "123.5")] |} in
  exists pfams, text_parse false true str (fun t => Some t) (fun t => Some t) (fun t => Ok t) true (text_render [f]) = Ok pfams
    /\ map (fun p => (pf_name str p, pf_type str p, length (pf_samples str p))) pfams
       = [(hostile, s2l "counter", 1%nat); (hostile ++ s2l "_created", s2l "gauge", 1%nat)].
Proof. cbv zeta. eexists. split; vm_compute; reflexivity. Qed.
