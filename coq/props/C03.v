(* C03 - text exposition parses back to exactly the exposed time series.   (layered: see DESIGN.md 7/C03)
   Statements only.  Models: model/Expo.v (exposition), model/TextParser.v (parser). *)
From V Require Import lib.PyBase lib.PyStr model.Validation model.Expo model.TextParser proofs.EscapeProofs.
Open Scope N_scope.

(* L1: the parser's unescaping inverts the exposition's escaping, for every string *)
Theorem C03_L1_unescape_escape : forall s, replace_escaping (escape_chain s) = s.
Proof. exact (fun s => eq_trans (f_equal replace_escaping (escape_chain_eq s)) (unescape_escape s)). Qed.
Print Assumptions C03_L1_unescape_escape.

Theorem C03_L1_help_unescape_escape : forall s, replace_help_escaping (help_escape_chain s) = s.
Proof. exact (fun s => eq_trans (f_equal replace_help_escaping (help_escape_chain_eq s)) (help_unescape_escape s)). Qed.
Print Assumptions C03_L1_help_unescape_escape.
