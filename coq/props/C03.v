(* C03 - text exposition parses back to exactly the exposed time series.   (layered: see DESIGN.md 7/C03)
   Statements only.  Models: model/Expo.v (exposition), model/TextParser.v (parser). *)
From V Require Import lib.PyBase lib.PyStr model.Validation model.Expo model.TextParser proofs.EscapeProofs proofs.LabelRoundTrip proofs.SampleRoundTrip.
From V Require Import model.Utils.
Open Scope N_scope.

(* L1: the parser's unescaping inverts the exposition's escaping, for every string *)
Theorem C03_L1_unescape_escape : forall s, replace_escaping (escape_chain s) = s.
Proof. exact (fun s => eq_trans (f_equal replace_escaping (escape_chain_eq s)) (unescape_escape s)). Qed.
Print Assumptions C03_L1_unescape_escape.

Theorem C03_L1_help_unescape_escape : forall s, replace_help_escaping (help_escape_chain s) = s.
Proof. exact (fun s => eq_trans (f_equal replace_help_escaping (help_escape_chain_eq s)) (help_unescape_escape s)). Qed.
Print Assumptions C03_L1_help_unescape_escape.

(* L2: a quoted, escaped string is skipped as a whole by the quote-aware scanner, whatever it contains *)
Theorem C03_L2_quoted_scan : forall chs v rest, mem_char DQ chs = false ->
  ScanFacts.nuq0 chs (quote (escape v) ++ rest) false false
  = option_map (fun k => (length (quote (escape v)) + k)%nat) (ScanFacts.nuq0 chs rest false false)
  /\ ScanFacts.st_after (quote (escape v)) false false = (false, false).
Proof. exact quoted_scan. Qed.
Print Assumptions C03_L2_quoted_scan.

(* L3: the label block both expositions write - names bare when legacy, quoted and escaped otherwise, values
   quoted and escaped, sorted, comma-separated - is read back by parse_labels exactly and in order, for ALL label
   names and values (keys distinct, not reserved '__...', as the constructors guarantee) *)
Theorem C03_L3_labels_roundtrip : forall labels,
  Forall key_ok (map fst labels) -> NoDup (map fst labels) ->
  parse_labels false true (labelstr labels) false = Ok (sort_kv labels).
Proof. exact labelstr_roundtrip. Qed.
Print Assumptions C03_L3_labels_roundtrip.

Example C03_L3_nonvacuous :
  let labels := [([LF; DQ; BS], [DQ; BS; LF; COMMA; RBRACE; EQS]); (s2l "le", s2l "+Inf")] in
  Forall key_ok (map fst labels) /\ NoDup (map fst labels) /\
  parse_labels false true (labelstr labels) false = Ok (sort_kv labels).
Proof.
  cbv zeta. split; [repeat constructor|]. split; [|vm_compute; reflexivity].
  constructor; [intros [H|[]]; discriminate|]. constructor; [intros []|constructor].
Qed.

(* L4: a whole sample line of the text exposition - name (bare when legacy, otherwise quoted inside the braces),
   sorted label block, value, optional millisecond timestamp - is read back by _parse_sample as exactly that sample.
   Hypotheses are about CPython only: the value token floatToGoString produced and the decimal timestamp are plain
   tokens (token_ok: no whitespace, underscore, brace, quote or backslash) and int()/float() read them
   (parse_num ... = Some ...).  The sample NAME, label names and label values are ARBITRARY strings. *)
Theorem C03_L4_sample_roundtrip :
  forall (NUM : Type) (parse_num parse_float : str -> option NUM) (div1000 : NUM -> res NUM) s nv tsv,
    Forall key_ok (map fst (s_labels s)) -> NoDup (map fst (s_labels s)) ->
    token_ok (go_string (s_value s)) -> parse_num (go_string (s_value s)) = Some nv ->
    ts_spec NUM parse_num div1000 s tsv ->
    exists body, text_sample_line s = body ++ [LF] /\
      parse_sample false true NUM parse_num parse_float div1000 true body
      = Ok {| ps_name := s_name s; ps_labels := sort_kv (s_labels s); ps_value := nv; ps_ts := tsv |}.
Proof. exact text_sample_roundtrip. Qed.
Print Assumptions C03_L4_sample_roundtrip.

(* non-vacuity: a hostile sample name and hostile labels, value 1e+06, timestamp 1500 ms *)
Example C03_L4_nonvacuous :
  let s := {| s_name := [LF; DQ; BS; RBRACE]; s_labels := [([DQ; LF], [BS; DQ; COMMA; RBRACE])];
              s_value := FFin true (s2l "1000000.0"); s_ts_ms := Some 1500%Z; s_ts_om := None; s_ex := None |} in
  let body := removelast (text_sample_line s) in
  text_sample_line s = body ++ [LF] /\
    parse_sample false true (str) (fun t => Some t) (fun t => Some t) (fun t => Ok t) true body
    = Ok {| ps_name := s_name s; ps_labels := sort_kv (s_labels s); ps_value := s2l "1e+06"; ps_ts := Some (s2l "1500") |}.
Proof. vm_compute. split; reflexivity. Qed.
