(* C04, first direction, layers L3' - L5: what the OpenMetrics exposition writes is read back by the OpenMetrics parser.
   Statements only; proofs in proofs/OMLabelRoundTrip.v, proofs/OMSampleRoundTrip.v, proofs/OMDocRoundTrip.v (gauges),
   proofs/OMCounterRoundTrip.v (counters with exemplars),
   witnesses in proofs/OMRoundTripWitness.v.  (props/C04.v: the string layers L1-L3 shared with the text format;
   props/C04b.v: parser-side defects of the second direction.)

   Models: model/Expo.v (om_sample_line, om_family, om_render; exq = true is the tree as it is: exemplar label names
   and the unit are escaped) and model/OMParser.v (om_parse_sample, om_parse_remaining_text, the line loop).
   Parser flags: legacy = false (UTF-8 names allowed), guard_fix = true, fix_quote = true (the quote toggle of
   _parse_remaining_text honours backslashes - the tree as it is; with the pinned toggle the statement is false, see
   C04_L4_pinned_quote_toggle_refuted); fix_tsexp and fix_sname are universally quantified (irrelevant here).

   What is a hypothesis and why (all are met by the real exposition output, see C04_L4_nonvacuous):
     key_ok / NoDup     label names (also exemplar label names) are distinct and not reserved ('__...'): the metric
                        constructors and _validate_exemplar reject anything else.  Names and values are otherwise
                        ARBITRARY strings: quotes, backslashes, newlines, commas, braces, '#', spaces.
     om_token_ok        the value / timestamp TOKENS written by floatToGoString, str(int), str(Timestamp), repr(float)
                        are non-empty and hold no whitespace, underscore, brace, quote, backslash or '#'.
     parse_num .. = Some nv, ts_reads   CPython's int()/float() read those tokens (oracle facts, as sample_ok in C03);
                        ts_reads is reduced to facts about int() alone for integer and sec.nsec timestamps by
                        C04_L4_ts_int / C04_L4_ts_nanos.
     om_sum_len <= 128  the exemplar length limit, enforced alike by the API and by the parser.
   The metric NAME is any string (bare when legacy, otherwise quoted inside the braces, followed by ', ').
   Labels come back as the dict whose insertion order is the exposition's order: sorted by name (sort_kv). *)
From V Require Import lib.PyBase lib.PyStr model.Utils model.Validation model.Expo model.TextParser model.OMParser
  proofs.LabelRoundTrip proofs.SampleRoundTrip proofs.OMWitness proofs.OMLabelRoundTrip proofs.OMSampleRoundTrip
  proofs.DocRoundTrip proofs.OMDocRoundTrip proofs.OMCounterRoundTrip proofs.OMRoundTripWitness
  proofs.OMFamilyRoundTrip proofs.OMGroupingFacts proofs.OMSummaryRoundTrip proofs.OMGaugeCounterInst proofs.OMInfoStateRoundTrip proofs.OMNhNone proofs.OMHistogramRoundTrip
  proofs.OMDocumentRoundTrip proofs.OMRoundTripWitness2.
From Coq Require Import Permutation.
Open Scope N_scope.

(* L3': the label block, read by parse_labels in EITHER mode (the OpenMetrics parser calls it with om = true) *)
Theorem C04_L3om_labels_roundtrip : forall om labels,
  Forall key_ok (map fst labels) -> NoDup (map fst labels) ->
  parse_labels false true (labelstr labels) om = Ok (sort_kv labels).
Proof. exact labelstr_roundtrip_om. Qed.
Print Assumptions C04_L3om_labels_roundtrip.

(* ... and the block written for a name that is not a legacy name: the quoted metric name, then the labels *)
Theorem C04_L3om_quoted_name_block : forall om sp nm kvs,
  Forall key_ok (map fst kvs) -> NoDup (map fst kvs) ->
  parse_labels false true (quote (escape nm) ++ sep_text sp kvs) om = Ok ((S_name_key, nm) :: kvs).
Proof. exact parse_labels_quoted_name_om. Qed.
Print Assumptions C04_L3om_quoted_name_block.

(* L4a: the text after the name and label block -  value[ timestamp][ # {labels} value[ timestamp]]  - is read by
   _parse_remaining_text (character state machine, _next_unquoted_char / _last_unquoted_char for the exemplar's
   braces, parse_labels for its labels) as exactly value, timestamp, exemplar *)
Theorem C04_L4a_remaining_text :
  forall (fix_tsexp : bool) (NUM : Type) (parse_num parse_float : str -> option NUM) (parse_int : str -> option Z)
         (num_eqb : NUM -> NUM -> bool) (num_isinf : NUM -> bool) vt nv tso tsv exo exr,
    om_token_ok vt -> parse_num vt = Some nv ->
    ts_reads fix_tsexp NUM parse_float parse_int num_eqb num_isinf tso tsv ->
    ex_reads fix_tsexp NUM parse_num parse_float parse_int num_eqb num_isinf exo exr ->
    om_parse_remaining_text false true true fix_tsexp NUM parse_num parse_float parse_int num_eqb num_isinf
      (vt ++ ts_text tso ++ ex_text exo) = Ok (nv, tsv, exr).
Proof. exact remaining_text_roundtrip. Qed.
Print Assumptions C04_L4a_remaining_text.

(* L4: the whole sample line *)
Theorem C04_L4_sample_roundtrip :
  forall (fix_tsexp fix_sname : bool) (NUM : Type) (parse_num parse_float : str -> option NUM)
         (parse_int : str -> option Z) (num_eqb : NUM -> NUM -> bool) (num_isinf : NUM -> bool)
         (ftype fname : str) (s : sample) (line : str) nv tsv exr,
    Forall key_ok (map fst (s_labels s)) -> NoDup (map fst (s_labels s)) ->
    om_token_ok (go_string (s_value s)) -> parse_num (go_string (s_value s)) = Some nv ->
    ts_reads fix_tsexp NUM parse_float parse_int num_eqb num_isinf (s_ts_om s) tsv ->
    ex_reads fix_tsexp NUM parse_num parse_float parse_int num_eqb num_isinf (s_ex s) exr ->
    Expo.om_sample_line true ftype fname s = Ok line ->
    exists body, line = body ++ [LF] /\
      om_parse_sample false true true fix_tsexp fix_sname NUM parse_num parse_float parse_int num_eqb num_isinf body
      = Ok {| os_name := s_name s; os_labels := Some (sort_kv (s_labels s)); os_value := Some nv;
              os_ts := tsv; os_ex := exr; os_nh := None |}.
Proof. exact om_sample_roundtrip. Qed.
Print Assumptions C04_L4_sample_roundtrip.

(* non-vacuity: a sample whose name, label names, label values, exemplar label names and values hold quotes,
   backslashes, newlines, commas, braces, '#', ' # ' and spaces; value 1e+06, timestamp Timestamp(1, 500), exemplar
   value 0.5 at 1234.  It meets every hypothesis of L4 and is read back (computed on the models). *)
Example C04_L4_nonvacuous : forall fix_tsexp fix_sname,
  (Forall key_ok (map fst (s_labels hostile_sample)) /\ NoDup (map fst (s_labels hostile_sample)) /\
   om_token_ok (go_string (s_value hostile_sample)) /\
   tok_num (go_string (s_value hostile_sample)) = Some (s2l "1e+06") /\
   ts_reads fix_tsexp str tok_num toy_int str_eqb (fun _ => false) (s_ts_om hostile_sample) (Some (OTs 1 500)) /\
   ex_reads fix_tsexp str tok_num tok_num toy_int str_eqb (fun _ => false) (s_ex hostile_sample) (Some hostile_exr) /\
   Expo.om_sample_line true (s2l "histogram") hostile_name hostile_sample = Ok hostile_line)
  /\ toy_sample fix_tsexp fix_sname (removelast hostile_line)
     = Ok {| os_name := hostile_name; os_labels := Some (sort_kv (s_labels hostile_sample));
             os_value := Some (s2l "1e+06"); os_ts := Some (OTs 1 500); os_ex := Some hostile_exr; os_nh := None |}.
Proof. exact (fun a b => conj (hostile_hyps a) (hostile_reads a b)). Qed.

(* with the pinned quote toggle of _parse_remaining_text (fix_quote = false: a backslash-escaped quote inside an
   exemplar label value toggles the quote state) the same line is rejected *)
Theorem C04_L4_pinned_quote_toggle_refuted :
  om_parse_sample false true false true true str tok_num tok_num toy_int str_eqb (fun _ => false) (removelast hostile_line)
  = Err ValueError.
Proof. exact hostile_orig_quote_toggle. Qed.
Print Assumptions C04_L4_pinned_quote_toggle_refuted.

(* L4 timestamps: for the two Timestamp-class renderings ts_reads follows from facts about int() alone.
   An int t is written str(t) and comes back as Timestamp(int(str(t)), 0); a samples.Timestamp(sec, nsec) with
   sec >= 0 is written sec.nnnnnnnnn (nine digits) and comes back as Timestamp(int(sec), int(nnnnnnnnn)), given that
   int() rejects the whole token and reads its halves.  (A float timestamp is written repr(t); what float()/int() make of
   that token stays a hypothesis of the shape ts_reads.) *)
Theorem C04_L4_ts_int :
  forall (fix_tsexp : bool) (NUM : Type) (parse_float : str -> option NUM) (parse_int : str -> option Z)
         (num_eqb : NUM -> NUM -> bool) (num_isinf : NUM -> bool) z zr,
    parse_int (dec_of_Z z) = Some zr ->
    ts_reads fix_tsexp NUM parse_float parse_int num_eqb num_isinf (Some (TsInt z)) (Some (OTs zr 0)).
Proof. exact ts_reads_int. Qed.
Print Assumptions C04_L4_ts_int.

Theorem C04_L4_ts_nanos :
  forall (fix_tsexp : bool) (NUM : Type) (parse_float : str -> option NUM) (parse_int : str -> option Z)
         (num_eqb : NUM -> NUM -> bool) (num_isinf : NUM -> bool) sec nsec zs zn,
    (0 <= sec)%Z -> nsec < 1000000000 ->
    parse_int (render_om_ts (TsNanos sec nsec)) = None ->
    parse_int (dec_of_Z sec) = Some zs -> parse_int (pad9 (dec_of_N nsec) 9) = Some zn ->
    (0 <= zs)%Z -> (0 <= zn < 1000000000)%Z ->
    ts_reads fix_tsexp NUM parse_float parse_int num_eqb num_isinf (Some (TsNanos sec nsec)) (Some (OTs zs zn)).
Proof. exact ts_reads_nanos. Qed.
Print Assumptions C04_L4_ts_nanos.

(* ================= L5: metadata lines and a whole family =================
   L5a  _unescape_help inverts _escape (help text and unit), for every string. *)
Theorem C04_L5_unescape_help_escape : forall s, om_unescape_help (escape_chain s) = s.
Proof. exact om_unescape_help_escape. Qed.
Print Assumptions C04_L5_unescape_help_escape.

(* L5b  the three metadata lines, as the line loop's metadata reader sees them (_split_quoted(line, ' ', 3), name
   token bare or quoted, _unescape_help): '# HELP name text' opens the family and records the help text EXACTLY -
   whatever it is: empty, leading / trailing / inner spaces, quotes, backslashes, newlines, '# EOF' -, '# TYPE name
   word' records the type word and the sample names it allows, '# UNIT name text' records the unit.  The name is ANY
   non-empty string. *)
Theorem C04_L5_help_line :
  forall (NUM : Type) (parse_float : str -> option NUM) (num_lt num_eqb : NUM -> NUM -> bool) (num_zero num_inf : NUM)
         (st : om_st NUM) n doc out seen',
    n <> [] -> om_opt_str_eqb (st_name st) n = false ->
    om_flush false NUM parse_float num_lt num_eqb num_zero num_inf st = Ok (out, seen') ->
    om_meta_line false true true NUM parse_float num_lt num_eqb num_zero num_inf st (om_help_line n doc)
    = Ok ({| st_name := Some n; st_allowed := [n]; st_eof := st_eof st; st_seen := seen'; st_typ := None;
             st_doc := Some doc; st_unit := None; st_group := None; st_seen_groups := []; st_gts := None;
             st_gts_samples := []; st_samples := [] |}, out).
Proof. exact meta_help. Qed.
Print Assumptions C04_L5_help_line.

Theorem C04_L5_type_line :
  forall (NUM : Type) (parse_float : str -> option NUM) (num_lt num_eqb : NUM -> NUM -> bool) (num_zero num_inf : NUM)
         (st : om_st NUM) n typ,
    n <> [] -> st_name st = Some n -> st_samples st = [] -> st_typ st = None -> str_eqb typ OM_untyped = false ->
    om_meta_line false true true NUM parse_float num_lt num_eqb num_zero num_inf st (om_type_line n typ)
    = Ok ({| st_name := st_name st; st_allowed := map (fun sfx => n ++ sfx) (om_type_suffixes typ [[]]);
             st_eof := st_eof st; st_seen := st_seen st; st_typ := Some typ; st_doc := st_doc st; st_unit := st_unit st;
             st_group := st_group st; st_seen_groups := st_seen_groups st; st_gts := st_gts st;
             st_gts_samples := st_gts_samples st; st_samples := st_samples st |}, []).
Proof. exact meta_type. Qed.
Print Assumptions C04_L5_type_line.

Theorem C04_L5_unit_line :
  forall (NUM : Type) (parse_float : str -> option NUM) (num_lt num_eqb : NUM -> NUM -> bool) (num_zero num_inf : NUM)
         (st : om_st NUM) n u,
    n <> [] -> st_name st = Some n -> st_samples st = [] -> st_unit st = None ->
    om_meta_line false true true NUM parse_float num_lt num_eqb num_zero num_inf st (om_unit_line n u)
    = Ok ({| st_name := st_name st; st_allowed := st_allowed st; st_eof := st_eof st; st_seen := st_seen st;
             st_typ := st_typ st; st_doc := st_doc st; st_unit := Some u;
             st_group := st_group st; st_seen_groups := st_seen_groups st; st_gts := st_gts st;
             st_gts_samples := st_gts_samples st; st_samples := st_samples st |}, []).
Proof. exact meta_unit. Qed.
Print Assumptions C04_L5_unit_line.

(* the exposition of one family is exactly these lines, each followed by LF, then '# EOF' *)
Theorem C04_L5_render_is_lines : forall f text, om_render true [f] = Ok text ->
  text = DocRoundTrip.unlines (om_family_lines_of f ++ [Expo.S_EOF]).
Proof. exact om_render_unlines. Qed.
Print Assumptions C04_L5_render_is_lines.

(* L5  a whole GAUGE family: openmetrics generate_latest of a registry holding one gauge family - any non-empty name
   (legacy or not), any help text, optional unit (the name then ends in _unit, as the constructor makes it), any number of
   samples named like the family, each with arbitrary label names and values, value and optional timestamp (om_sample_ok:
   the hypotheses of L4, no exemplar), the label sets pairwise different as dicts - is parsed by
   text_string_to_metric_families back to exactly ONE family with that name, help, type, unit and those samples, in
   order.  All oracles other than the ones named in om_sample_ok are arbitrary; the repair flags other than
   guard_fix / fix_unit / fix_quote are arbitrary. *)
Theorem C04_L5_gauge_family_roundtrip :
  forall (fix_nhkeys fix_nhsfx fix_tsmix fix_isnan fix_tsexp fix_sname : bool) (NUM : Type)
         (parse_num parse_float : str -> option NUM) (parse_int : str -> option Z) (num_lt num_eqb : NUM -> NUM -> bool)
         (num_isinf num_integral num_huge : NUM -> bool) (num_zero num_one num_inf : NUM)
         (ts_float : Z -> Z -> option NUM) (is_word is_space_re is_digit_re : char -> bool)
         (val_of : sample -> NUM) (ts_of : sample -> option (om_tsv NUM)) (n : str) (f : family) (text : str),
    f_name f = n -> n <> [] -> f_type f = Expo.S_gauge ->
    (f_unit f = [] \/ ends_with (USCORE :: f_unit f) n = true) ->
    Forall (om_sample_ok fix_tsexp NUM parse_num parse_float parse_int num_eqb num_isinf val_of ts_of) (f_samples f) ->
    Forall (fun s => s_name s = n) (f_samples f) ->
    ForallOrdPairs (fun s1 s2 => ~ Permutation (s_labels s1) (s_labels s2)) (f_samples f) ->
    om_render true [f] = Ok text ->
    om_parse false true fix_nhkeys fix_nhsfx fix_tsmix fix_isnan true true fix_tsexp fix_sname NUM parse_num parse_float
      parse_int num_lt num_eqb num_isinf num_integral num_huge num_zero num_one num_inf ts_float is_word is_space_re
      is_digit_re text
    = Ok [ {| of_name := n; of_doc := f_doc f; of_type := OM_gauge; of_unit := f_unit f;
              of_samples := map (om_ps_of NUM val_of ts_of) (f_samples f) |} ].
Proof. exact om_gauge_family_roundtrip. Qed.
Print Assumptions C04_L5_gauge_family_roundtrip.

(* L5+  any number of gauge families with different names: the whole exposition of such a registry is parsed back to
   exactly those families, in order (the families in progress are closed by the next # HELP line and by # EOF;
   build_metric's duplicate-name test passes because the names differ) *)
Theorem C04_L5_gauge_families_roundtrip :
  forall (fix_nhkeys fix_nhsfx fix_tsmix fix_isnan fix_tsexp fix_sname : bool) (NUM : Type)
         (parse_num parse_float : str -> option NUM) (parse_int : str -> option Z) (num_lt num_eqb : NUM -> NUM -> bool)
         (num_isinf num_integral num_huge : NUM -> bool) (num_zero num_one num_inf : NUM)
         (ts_float : Z -> Z -> option NUM) (is_word is_space_re is_digit_re : char -> bool)
         (val_of : sample -> NUM) (ts_of : sample -> option (om_tsv NUM)) (fams : list family) (text : str),
    Forall (gauge_family_ok fix_tsexp NUM parse_num parse_float parse_int num_eqb num_isinf val_of ts_of) fams ->
    NoDup (map f_name fams) ->
    om_render true fams = Ok text ->
    om_parse false true fix_nhkeys fix_nhsfx fix_tsmix fix_isnan true true fix_tsexp fix_sname NUM parse_num parse_float
      parse_int num_lt num_eqb num_isinf num_integral num_huge num_zero num_one num_inf ts_float is_word is_space_re
      is_digit_re text
    = Ok (map (fam_of NUM val_of ts_of) fams).
Proof. exact om_gauge_families_roundtrip. Qed.
Print Assumptions C04_L5_gauge_families_roundtrip.

Example C04_L5_families_nonvacuous : forall fix_tsexp fix_sname,
  (Forall (gauge_family_ok fix_tsexp str tok_num tok_num toy_int str_eqb (fun _ => false) hostile_val hostile_ts)
          [hostile_family; plain_family] /\
   NoDup (map f_name [hostile_family; plain_family]) /\
   om_render true [hostile_family; plain_family] = Ok two_text)
  /\ toy_text fix_tsexp fix_sname two_text = Ok (map (fam_of str hostile_val hostile_ts) [hostile_family; plain_family]).
Proof. exact (fun a b => conj (two_families_hyps a) (two_families_read a b)). Qed.

(* non-vacuity: a gauge family whose name, help text, unit, label names and values are hostile (help text with leading
   and trailing spaces, a quote, a backslash, a newline and the words ' # EOF '), two samples, nanosecond and integer
   timestamps: it meets the hypotheses of L5 and is read back (computed on the models) *)
Example C04_L5_nonvacuous : forall fix_tsexp fix_sname,
  (f_name hostile_family <> [] /\ f_type hostile_family = Expo.S_gauge /\
   ends_with (USCORE :: f_unit hostile_family) (f_name hostile_family) = true /\
   Forall (om_sample_ok fix_tsexp str tok_num tok_num toy_int str_eqb (fun _ => false) hostile_val hostile_ts)
          (f_samples hostile_family) /\
   Forall (fun s => s_name s = f_name hostile_family) (f_samples hostile_family) /\
   ForallOrdPairs (fun s1 s2 => ~ Permutation (s_labels s1) (s_labels s2)) (f_samples hostile_family) /\
   om_render true [hostile_family] = Ok hostile_text)
  /\ toy_text fix_tsexp fix_sname hostile_text
     = Ok [ {| of_name := hostile_fname; of_doc := f_doc hostile_family; of_type := OM_gauge; of_unit := s2l "a b";
               of_samples := map (om_ps_of str hostile_val hostile_ts) (f_samples hostile_family) |} ].
Proof. exact (fun a b => conj (hostile_family_hyps a) (hostile_family_reads a b)). Qed.

(* exemplar eligibility: the pinned exposition wrote an exemplar on ANY sample named like its family (operator precedence
   in _is_valid_exemplar_metric), while the parser takes exemplars on counters and histogram buckets only: a gauge sample
   carrying one (Metric.add_sample in a custom collector) was written and then rejected by the parser - an API-built
   content that does not come back.  Repaired source (fixes/C04-exemplar-eligibility.diff): the exposition refuses it
   with ValueError like every other ineligible exemplar. *)
Theorem C04_exemplar_eligibility_orig_refuted :
  is_valid_exemplar_metric_orig (s2l "gauge") (s2l "g") gauge_ex_sample = true /\
  toy_text true true gauge_with_exemplar_text = Err ValueError /\
  is_valid_exemplar_metric (s2l "gauge") (s2l "g") gauge_ex_sample = false /\
  om_render true [gauge_with_exemplar] = Err ValueError.
Proof. exact gauge_exemplar_orig_refuted. Qed.
Print Assumptions C04_exemplar_eligibility_orig_refuted.

(* ... and compared `metric.type in ('gaugehistogram')`, a substring test on a string: a GAUGE family ('gauge' is a substring)
   with a sample named *_bucket was written with its exemplar too.  Repaired source (fixes/C04-exemplar-type-equality.diff):
   equality of types.  Found by the correspondence/direct oracle once the generator produced family names ending in _bucket. *)
Theorem C04_exemplar_type_substring_orig_refuted :
  is_valid_exemplar_metric_orig (s2l "gauge") (s2l "g") gauge_bucket_sample = true /\
  toy_text true true gauge_bucket_text = Err ValueError /\
  is_valid_exemplar_metric (s2l "gauge") (s2l "g") gauge_bucket_sample = false /\
  om_render true [gauge_bucket_family] = Err ValueError.
Proof. exact exemplar_type_substring_orig_refuted. Qed.
Print Assumptions C04_exemplar_type_substring_orig_refuted.

(* L5, counters: one COUNTER family - any non-empty name, any help text, optional unit, samples name_total (value a
   number that is not NaN and not negative, as the validation rules demand; optional EXEMPLAR with arbitrary label names
   and values, value and optional timestamp: ex_reads as in L4) and name_created, arbitrary label names and values,
   no sample timestamps (the instrumentation classes never set one) - followed by # EOF is parsed back to exactly that
   family: every sample with name, labels, value and exemplar.  counter_family_ok spells the hypotheses out; the
   grouping rule of the parser (well_grouped: samples of one label set are consecutive and differently named) is a
   computable test, met by the shape the Counter class produces (C04_L5_counter_grouping). *)
Theorem C04_L5_counter_family_roundtrip :
  forall (fix_nhkeys fix_nhsfx fix_tsmix fix_isnan fix_tsexp fix_sname : bool) (NUM : Type)
         (parse_num parse_float : str -> option NUM) (parse_int : str -> option Z) (num_lt num_eqb : NUM -> NUM -> bool)
         (num_isinf num_integral num_huge : NUM -> bool) (num_zero num_one num_inf : NUM)
         (ts_float : Z -> Z -> option NUM) (is_word is_space_re is_digit_re : char -> bool)
         (val_of : sample -> NUM) (ex_of : sample -> option (om_exemplar NUM)) (n : str) (f : family) (text : str),
    counter_family_ok fix_isnan fix_tsexp NUM parse_num parse_float parse_int num_lt num_eqb num_isinf num_huge num_zero
      val_of ex_of n f ->
    om_render true [f] = Ok text ->
    om_parse false true fix_nhkeys fix_nhsfx fix_tsmix fix_isnan true true fix_tsexp fix_sname NUM parse_num parse_float
      parse_int num_lt num_eqb num_isinf num_integral num_huge num_zero num_one num_inf ts_float is_word is_space_re
      is_digit_re text
    = Ok [cfam_of NUM val_of ex_of f].
Proof. exact om_counter_family_roundtrip. Qed.
Print Assumptions C04_L5_counter_family_roundtrip.

(* what counter_family_ok and om_csample_ok say, unfolded once (so that the statement above can be read here) *)
Example C04_L5_counter_family_ok_unfold :
  forall fix_isnan fix_tsexp NUM parse_num parse_float parse_int num_lt num_eqb num_isinf num_huge num_zero val_of ex_of n f,
    counter_family_ok fix_isnan fix_tsexp NUM parse_num parse_float parse_int num_lt num_eqb num_isinf num_huge num_zero
      val_of ex_of n f
    <-> (f_name f = n /\ n <> [] /\ f_type f = Expo.S_counter /\
         (f_unit f = [] \/ ends_with (USCORE :: f_unit f) n = true) /\
         Forall (fun s =>
           Forall key_ok (map fst (s_labels s)) /\ NoDup (map fst (s_labels s)) /\
           om_token_ok (go_string (s_value s)) /\ parse_num (go_string (s_value s)) = Some (val_of s) /\
           s_ts_om s = None /\
           ex_reads fix_tsexp NUM parse_num parse_float parse_int num_eqb num_isinf (s_ex s) (ex_of s) /\
           ((s_name s = n ++ OM_total /\ num_eqb (val_of s) (val_of s) = true /\ num_lt (val_of s) num_zero = false /\
             (fix_isnan = true \/ num_huge (val_of s) = false))
            \/ (s_name s = n ++ OM_created /\ s_ex s = None))) (f_samples f) /\
         well_grouped None [] [] (f_samples f) = true).
Proof. intros. reflexivity. Qed.

Theorem C04_L5_counter_grouping : forall groups,
  Forall group_ok groups -> NoDup (map group_key groups) -> well_grouped None [] [] (concat groups) = true.
Proof. exact (fun groups H1 H2 => well_grouped_groups groups None [] [] I H1 H2 (fun _ _ H => H)). Qed.
Print Assumptions C04_L5_counter_grouping.

(* non-vacuity: a counter with a hostile name, help text, label names and values, an exemplar with hostile labels and a
   nanosecond timestamp on one _total sample, _created samples, two children *)
Example C04_L5_counter_nonvacuous : forall fix_isnan fix_tsexp fix_sname,
  (counter_family_ok fix_isnan fix_tsexp str tok_num tok_num toy_int (fun _ _ => false) str_eqb (fun _ => false) (fun _ => false)
     (s2l "0") hostile_val hostile_cex hostile_name hostile_counter
   /\ om_render true [hostile_counter] = Ok hostile_counter_text)
  /\ toy_text fix_tsexp fix_sname hostile_counter_text = Ok [cfam_of str hostile_val hostile_cex hostile_counter].
Proof. exact (fun a b c => conj (hostile_counter_hyps a b) (hostile_counter_reads b c)). Qed.

(* ================= L5, general: one family of ANY type, documents of several families =================
   proofs/OMFamilyRoundTrip.v.  g_ps_of s is the parsed form of a sample (name, sorted labels, val_of s, ts_of s, ex_of s).
   family_acc f (abstract well-formedness of a family of type f_type f): the name is not empty, the type word is one of
   the eight metric types, the unit (if any) ends the name and the type is not info / stateset, every sample meets
   sample_acc - the hypotheses of L4 (read_ok), the exposition writes its exemplar (ex_writable), its name is one the
   type allows (allowed_names), the per-sample checks of the line loop pass on its parsed form (om_pre_checks /
   om_post_checks = Ok tt), for a histogram the line is not taken for a native-histogram line -, the group bookkeeping
   accepts the sequence and drops nothing (grun = Some _: a fold of om_group_step on the four fields it reads), and for
   the two histogram types _check_histogram passes at the flush.  The per-type theorems below derive family_acc from
   hypotheses on the values alone.
   C04_L5_family_step: from a state that is not at EOF, whose family in progress (if any) is closed by om_flush with
   result (out, seen), not named like f, and with none of f's reserved names in seen, the lines of f lead to a state of
   the same kind whose om_flush yields exactly [gfam_of f]. *)
Theorem C04_L5_family_step :
  forall (fix_nhkeys fix_nhsfx fix_tsmix fix_isnan fix_tsexp fix_sname : bool) (NUM : Type)
         (parse_num parse_float : str -> option NUM) (parse_int : str -> option Z) (num_lt num_eqb : NUM -> NUM -> bool)
         (num_isinf num_integral num_huge : NUM -> bool) (num_zero num_one num_inf : NUM)
         (ts_float : Z -> Z -> option NUM) (is_word is_space_re is_digit_re : char -> bool)
         (val_of : sample -> NUM) (ts_of : sample -> option (om_tsv NUM)) (ex_of : sample -> option (om_exemplar NUM))
         (st : om_st NUM) (f : family) (more : list str) (acc out : list (om_family NUM)) (seen : list str),
    family_acc fix_nhkeys fix_nhsfx fix_tsmix fix_isnan fix_tsexp NUM parse_num parse_float parse_int num_lt num_eqb
      num_isinf num_integral num_huge num_zero num_one num_inf ts_float is_word is_space_re is_digit_re val_of ts_of ex_of f ->
    st_eof st = false -> om_flush false NUM parse_float num_lt num_eqb num_zero num_inf st = Ok (out, seen) ->
    om_opt_str_eqb (st_name st) (f_name f) = false ->
    existsb (fun x => mem_str x seen) (fnames (f_name f) (f_type f)) = false ->
    exists st',
      om_run_lines false true fix_nhkeys fix_nhsfx fix_tsmix fix_isnan true true fix_tsexp fix_sname NUM parse_num parse_float
        parse_int num_lt num_eqb num_isinf num_integral num_huge num_zero num_one num_inf ts_float is_word is_space_re
        is_digit_re st (om_family_lines_of f ++ more) acc
      = om_run_lines false true fix_nhkeys fix_nhsfx fix_tsmix fix_isnan true true fix_tsexp fix_sname NUM parse_num parse_float
          parse_int num_lt num_eqb num_isinf num_integral num_huge num_zero num_one num_inf ts_float is_word is_space_re
          is_digit_re st' more (acc ++ out) /\
      st_eof st' = false /\ st_name st' = Some (f_name f) /\
      om_flush false NUM parse_float num_lt num_eqb num_zero num_inf st'
      = Ok ([gfam_of NUM val_of ts_of ex_of f], seen ++ fnames (f_name f) (f_type f)).
Proof. exact family_step. Qed.
Print Assumptions C04_L5_family_step.

(* the names build_metric reserves, type by type (names_apart f g: no name reserved by f is reserved by g) *)
Theorem C04_L5_reserved_names : forall n,
  fnames n OM_gauge = [n ++ []] /\
  fnames n OM_counter = [n ++ OM_total; n ++ OM_created; n ++ []] /\
  fnames n OM_summary = [n ++ OM_count; n ++ OM_sum; n ++ OM_created; n ++ []] /\
  fnames n OM_histogram = [n ++ OM_count; n ++ OM_sum; n ++ OM_bucket; n ++ OM_created; n ++ []] /\
  fnames n OM_gaugehistogram = [n ++ OM_gcount; n ++ OM_gsum; n ++ OM_bucket; n ++ []] /\
  fnames n OM_info = [n ++ OM_infosfx; n ++ []] /\
  fnames n OM_stateset = [n ++ []] /\
  fnames n OM_unknown = [n ++ []].
Proof. exact fnames_table. Qed.
Print Assumptions C04_L5_reserved_names.

(* documents, abstractly: families meeting family_acc whose reserved names do not clash *)
Theorem C04_L5_document_roundtrip_acc :
  forall (fix_nhkeys fix_nhsfx fix_tsmix fix_isnan fix_tsexp fix_sname : bool) (NUM : Type)
         (parse_num parse_float : str -> option NUM) (parse_int : str -> option Z) (num_lt num_eqb : NUM -> NUM -> bool)
         (num_isinf num_integral num_huge : NUM -> bool) (num_zero num_one num_inf : NUM)
         (ts_float : Z -> Z -> option NUM) (is_word is_space_re is_digit_re : char -> bool)
         (val_of : sample -> NUM) (ts_of : sample -> option (om_tsv NUM)) (ex_of : sample -> option (om_exemplar NUM))
         (fams : list family) (text : str),
    Forall (family_acc fix_nhkeys fix_nhsfx fix_tsmix fix_isnan fix_tsexp NUM parse_num parse_float parse_int num_lt num_eqb
              num_isinf num_integral num_huge num_zero num_one num_inf ts_float is_word is_space_re is_digit_re
              val_of ts_of ex_of) fams ->
    ForallOrdPairs names_apart fams ->
    om_render true fams = Ok text ->
    om_parse false true fix_nhkeys fix_nhsfx fix_tsmix fix_isnan true true fix_tsexp fix_sname NUM parse_num parse_float
      parse_int num_lt num_eqb num_isinf num_integral num_huge num_zero num_one num_inf ts_float is_word is_space_re
      is_digit_re text
    = Ok (map (gfam_of NUM val_of ts_of ex_of) fams).
Proof. exact om_document_roundtrip. Qed.
Print Assumptions C04_L5_document_roundtrip_acc.

(* the grouping rule for samples WITHOUT timestamps, as a computable test (wgk key), and the shape that meets it: samples
   listed group by group, one group key per group (key s = sorted(_group_for_sample(s).items())), pairwise different
   series (name, labels) inside a group, different keys from group to group - what every instrumentation class produces *)
Theorem C04_L5_grouping : forall (key : sample -> list (str * str)) groups,
  Forall (grp_ok key) groups -> NoDup (map (grp_key key) groups) -> wgk key None [] [] (concat groups) = true.
Proof. exact (fun key groups H1 H2 => wgk_groups key groups None [] [] I H1 H2 (fun _ _ H => H)). Qed.
Print Assumptions C04_L5_grouping.

(* L5, summary: one SUMMARY family - any non-empty name, help, optional unit; samples: n{quantile=q,...} with q read by
   float() as a number in [0, 1] that is not spelt as a non-canonical infinity and a value that is not negative; n_count
   integral, a number, not negative; n_sum a number, not negative; n_created; arbitrary other label names and values;
   no timestamps, no exemplars (the parser takes none on a summary); grouping by wgk (skey n: the labels without
   quantile) - followed by # EOF is parsed back to exactly that family. *)
Theorem C04_L5_summary_family_roundtrip :
  forall (fix_nhkeys fix_nhsfx fix_tsmix fix_isnan fix_tsexp fix_sname : bool) (NUM : Type)
         (parse_num parse_float : str -> option NUM) (parse_int : str -> option Z) (num_lt num_eqb : NUM -> NUM -> bool)
         (num_isinf num_integral num_huge : NUM -> bool) (num_zero num_one num_inf : NUM)
         (ts_float : Z -> Z -> option NUM) (is_word is_space_re is_digit_re : char -> bool)
         (val_of : sample -> NUM) (ts_of : sample -> option (om_tsv NUM)) (ex_of : sample -> option (om_exemplar NUM))
         (n : str) (f : family) (text : str),
    summary_family_ok fix_isnan fix_tsexp NUM parse_num parse_float parse_int num_lt num_eqb num_isinf num_integral num_huge
      num_zero num_one num_inf val_of ts_of ex_of n f ->
    om_render true [f] = Ok text ->
    om_parse false true fix_nhkeys fix_nhsfx fix_tsmix fix_isnan true true fix_tsexp fix_sname NUM parse_num parse_float
      parse_int num_lt num_eqb num_isinf num_integral num_huge num_zero num_one num_inf ts_float is_word is_space_re
      is_digit_re text
    = Ok [gfam_of NUM val_of ts_of ex_of f].
Proof. exact om_summary_family_roundtrip. Qed.
Print Assumptions C04_L5_summary_family_roundtrip.

Example C04_L5_summary_family_ok_unfold :
  forall fix_isnan fix_tsexp NUM parse_num parse_float parse_int num_lt num_eqb num_isinf num_integral num_huge
         num_zero num_one num_inf val_of ts_of ex_of n f,
    summary_family_ok fix_isnan fix_tsexp NUM parse_num parse_float parse_int num_lt num_eqb num_isinf num_integral num_huge
      num_zero num_one num_inf val_of ts_of ex_of n f
    <-> (f_name f = n /\ n <> [] /\ f_type f = Expo.S_summary /\
         (f_unit f = [] \/ ends_with (USCORE :: f_unit f) n = true) /\
         Forall (fun s =>
           read_ok fix_tsexp NUM parse_num parse_float parse_int num_eqb num_isinf val_of ts_of ex_of s /\
           s_ex s = None /\ s_ts_om s = None /\
           ((s_name s = n /\ exists qv q, In (OM_quantile, qv) (s_labels s) /\ parse_float qv = Some q /\
                              om_num_le NUM num_lt num_eqb num_zero q = true /\ om_num_le NUM num_lt num_eqb q num_one = true /\
                              num_eqb q num_inf && negb (str_eqb qv OM_pInf) = false /\
                              num_lt (val_of s) num_zero = false)
            \/ (s_name s = n ++ OM_count /\ num_integral (val_of s) = true /\
                counts_ok fix_isnan NUM num_lt num_eqb num_huge num_zero (val_of s))
            \/ (s_name s = n ++ OM_sum /\ counts_ok fix_isnan NUM num_lt num_eqb num_huge num_zero (val_of s))
            \/ s_name s = n ++ OM_created)) (f_samples f) /\
         wgk (skey n) None [] [] (f_samples f) = true).
Proof. intros. reflexivity. Qed.

(* non-vacuity, with a NUMERIC toy oracle (a number is its value in thousandths, proofs/OMRoundTripWitness2.v): a summary
   with a hostile name, help text, label names and values, quantile samples, two children *)
Example C04_L5_summary_nonvacuous : forall fix_isnan fix_tsexp fix_sname,
  (summary_family_ok fix_isnan fix_tsexp Z milli_num milli_num toy_int Z.ltb Z.eqb (fun z => (Z.abs z =? MILLI_INF)%Z)
     (fun z => (z mod 1000 =? 0)%Z) (fun _ => false) 0%Z 1000%Z MILLI_INF milli_val toy_ts toy_ex hostile_name hostile_summary
   /\ om_render true [hostile_summary] = Ok hostile_summary_text)
  /\ toy_text2 fix_tsexp fix_sname hostile_summary_text = Ok [gfam_of Z milli_val toy_ts toy_ex hostile_summary].
Proof. exact (fun a b c => conj (hostile_summary_hyps a b) (hostile_summary_reads b c)). Qed.

(* L5, documents of mixed types: every family is well formed for its type (family_wf: one of the per-type hypotheses
   - gauge_family_wf, counter_family_wf, summary_family_ok, and the types added in proofs/OMDocumentRoundTrip.v -
   under the family's own name) and the names the families reserve do not clash (names_apart, table above); then the
   exposition of the whole registry is parsed back to exactly those families, in order. *)
Theorem C04_L5_document_roundtrip :
  forall (fix_nhkeys fix_nhsfx fix_tsmix fix_isnan fix_tsexp fix_sname : bool) (NUM : Type)
         (parse_num parse_float : str -> option NUM) (parse_int : str -> option Z) (num_lt num_eqb : NUM -> NUM -> bool)
         (num_isinf num_integral num_huge : NUM -> bool) (num_zero num_one num_inf : NUM)
         (ts_float : Z -> Z -> option NUM) (is_word is_space_re is_digit_re : char -> bool)
         (val_of : sample -> NUM) (ts_of : sample -> option (om_tsv NUM)) (ex_of : sample -> option (om_exemplar NUM))
         (fams : list family) (text : str),
    Forall (family_wf fix_isnan fix_tsexp NUM parse_num parse_float parse_int num_lt num_eqb num_isinf num_integral num_huge
              num_zero num_one num_inf val_of ts_of ex_of) fams ->
    ForallOrdPairs names_apart fams ->
    om_render true fams = Ok text ->
    om_parse false true fix_nhkeys fix_nhsfx fix_tsmix fix_isnan true true fix_tsexp fix_sname NUM parse_num parse_float
      parse_int num_lt num_eqb num_isinf num_integral num_huge num_zero num_one num_inf ts_float is_word is_space_re
      is_digit_re text
    = Ok (map (gfam_of NUM val_of ts_of ex_of) fams).
Proof. exact om_mixed_document_roundtrip. Qed.
Print Assumptions C04_L5_document_roundtrip.

(* non-vacuity: a gauge (unit, nanosecond and integer timestamps), a counter (exemplar with hostile labels) and a summary
   (quantiles), all with hostile names, help texts and labels, in one document *)
Example C04_L5_document_nonvacuous : forall fix_isnan fix_tsexp fix_sname,
  (Forall (family_wf fix_isnan fix_tsexp Z milli_num milli_num toy_int Z.ltb Z.eqb (fun z => (Z.abs z =? MILLI_INF)%Z)
             (fun z => (z mod 1000 =? 0)%Z) (fun _ => false) 0%Z 1000%Z MILLI_INF milli_val toy_ts toy_ex) mixed_doc
   /\ ForallOrdPairs names_apart mixed_doc
   /\ om_render true mixed_doc = Ok mixed_text)
  /\ toy_text2 fix_tsexp fix_sname mixed_text = Ok (map (gfam_of Z milli_val toy_ts toy_ex) mixed_doc).
Proof. exact (fun a b c => conj (mixed_doc_hyps a b) (mixed_doc_reads b c)). Qed.

(* L5, info: one INFO family - any non-empty name n, samples n_info with value 1 (num_eqb v 1), arbitrary label names and
   values, label sets pairwise different (all samples of an info family form ONE group, so the series must differ), no
   unit (the parser refuses one on info), no timestamps, no exemplars. *)
Theorem C04_L5_info_family_roundtrip :
  forall (fix_nhkeys fix_nhsfx fix_tsmix fix_isnan fix_tsexp fix_sname : bool) (NUM : Type)
         (parse_num parse_float : str -> option NUM) (parse_int : str -> option Z) (num_lt num_eqb : NUM -> NUM -> bool)
         (num_isinf num_integral num_huge : NUM -> bool) (num_zero num_one num_inf : NUM)
         (ts_float : Z -> Z -> option NUM) (is_word is_space_re is_digit_re : char -> bool)
         (val_of : sample -> NUM) (ts_of : sample -> option (om_tsv NUM)) (ex_of : sample -> option (om_exemplar NUM))
         (n : str) (f : family) (text : str),
    info_family_wf fix_tsexp NUM parse_num parse_float parse_int num_eqb num_isinf num_one val_of ts_of ex_of n f ->
    om_render true [f] = Ok text ->
    om_parse false true fix_nhkeys fix_nhsfx fix_tsmix fix_isnan true true fix_tsexp fix_sname NUM parse_num parse_float
      parse_int num_lt num_eqb num_isinf num_integral num_huge num_zero num_one num_inf ts_float is_word is_space_re
      is_digit_re text
    = Ok [gfam_of NUM val_of ts_of ex_of f].
Proof. exact om_info_family_roundtrip. Qed.
Print Assumptions C04_L5_info_family_roundtrip.

Example C04_L5_info_family_wf_unfold :
  forall fix_tsexp NUM parse_num parse_float parse_int num_eqb num_isinf num_one val_of ts_of ex_of n f,
    info_family_wf fix_tsexp NUM parse_num parse_float parse_int num_eqb num_isinf num_one val_of ts_of ex_of n f
    <-> (f_name f = n /\ n <> [] /\ f_type f = Expo.S_infot /\ f_unit f = [] /\
         Forall (fun s => read_ok fix_tsexp NUM parse_num parse_float parse_int num_eqb num_isinf val_of ts_of ex_of s /\
                          s_ex s = None /\ s_ts_om s = None /\ s_name s = n ++ OM_infosfx /\
                          num_eqb (val_of s) num_one = true) (f_samples f) /\
         ForallOrdPairs (fun s1 s2 => ~ Permutation (s_labels s1) (s_labels s2)) (f_samples f)).
Proof. intros. reflexivity. Qed.

(* L5, stateset: one STATESET family - samples named n carrying the label n (the state; the family name is a label name
   here, whatever characters it holds), value 0 or 1, grouped by the remaining labels (stkey; wgk as for summaries), no unit,
   no timestamps, no exemplars. *)
Theorem C04_L5_stateset_family_roundtrip :
  forall (fix_nhkeys fix_nhsfx fix_tsmix fix_isnan fix_tsexp fix_sname : bool) (NUM : Type)
         (parse_num parse_float : str -> option NUM) (parse_int : str -> option Z) (num_lt num_eqb : NUM -> NUM -> bool)
         (num_isinf num_integral num_huge : NUM -> bool) (num_zero num_one num_inf : NUM)
         (ts_float : Z -> Z -> option NUM) (is_word is_space_re is_digit_re : char -> bool)
         (val_of : sample -> NUM) (ts_of : sample -> option (om_tsv NUM)) (ex_of : sample -> option (om_exemplar NUM))
         (n : str) (f : family) (text : str),
    stateset_family_wf fix_tsexp NUM parse_num parse_float parse_int num_eqb num_isinf num_zero num_one val_of ts_of ex_of n f ->
    om_render true [f] = Ok text ->
    om_parse false true fix_nhkeys fix_nhsfx fix_tsmix fix_isnan true true fix_tsexp fix_sname NUM parse_num parse_float
      parse_int num_lt num_eqb num_isinf num_integral num_huge num_zero num_one num_inf ts_float is_word is_space_re
      is_digit_re text
    = Ok [gfam_of NUM val_of ts_of ex_of f].
Proof. exact om_stateset_family_roundtrip. Qed.
Print Assumptions C04_L5_stateset_family_roundtrip.

Example C04_L5_stateset_family_wf_unfold :
  forall fix_tsexp NUM parse_num parse_float parse_int num_eqb num_isinf num_zero num_one val_of ts_of ex_of n f,
    stateset_family_wf fix_tsexp NUM parse_num parse_float parse_int num_eqb num_isinf num_zero num_one val_of ts_of ex_of n f
    <-> (f_name f = n /\ n <> [] /\ f_type f = Expo.S_stateset /\ f_unit f = [] /\
         Forall (fun s => read_ok fix_tsexp NUM parse_num parse_float parse_int num_eqb num_isinf val_of ts_of ex_of s /\
                          s_ex s = None /\ s_ts_om s = None /\ s_name s = n /\ (exists st, In (n, st) (s_labels s)) /\
                          num_eqb (val_of s) num_zero || num_eqb (val_of s) num_one = true) (f_samples f) /\
         wgk (stkey n) None [] [] (f_samples f) = true).
Proof. intros. reflexivity. Qed.

(* non-vacuity: an info family and a stateset family (its name, a hostile string, is the state label's name) in one document *)
Example C04_L5_info_stateset_nonvacuous : forall fix_isnan fix_tsexp fix_sname,
  (Forall (family_wf fix_isnan fix_tsexp Z milli_num milli_num toy_int Z.ltb Z.eqb (fun z => (Z.abs z =? MILLI_INF)%Z)
             (fun z => (z mod 1000 =? 0)%Z) (fun _ => false) 0%Z 1000%Z MILLI_INF milli_val toy_ts toy_ex) info_state_doc
   /\ ForallOrdPairs names_apart info_state_doc
   /\ om_render true info_state_doc = Ok info_state_text)
  /\ toy_text2 fix_tsexp fix_sname info_state_text = Ok (map (gfam_of Z milli_val toy_ts toy_ex) info_state_doc).
Proof. exact (fun a b c => conj (info_state_hyps a b) (info_state_reads b c)). Qed.

(* L5, histogram.  Inside a histogram family the line loop first asks _parse_nh_sample whether the line is a native
   histogram sample; a sample line written by the exposition never is (no unquoted opening brace after the label block,
   or the first one follows the hash of an exemplar), whatever its name, labels and exemplar labels hold. *)
Theorem C04_L5_sample_line_not_native :
  forall (fix_nhkeys fix_nhsfx fix_tsexp : bool) (NUM : Type) (parse_num parse_float : str -> option NUM)
         (parse_int : str -> option Z) (num_eqb : NUM -> NUM -> bool) (num_isinf : NUM -> bool)
         (is_word is_space_re is_digit_re : char -> bool) s tsv,
    om_token_ok (go_string (s_value s)) ->
    ts_reads fix_tsexp NUM parse_float parse_int num_eqb num_isinf (s_ts_om s) tsv ->
    om_parse_nh_sample false true fix_nhkeys fix_nhsfx NUM parse_float parse_int is_word is_space_re is_digit_re (om_body s)
    = Ok None.
Proof. exact sample_line_not_native. Qed.
Print Assumptions C04_L5_sample_line_not_native.

(* _check_histogram accepts samples listed group by group when every group (hgroup_ok) is: buckets n_bucket{le=..} with
   bounds float() reads, strictly increasing (the parser refuses b <= previous: bchain), values not decreasing from 0,
   the last bound equal to +Inf; then optionally n_count and n_sum, the count equal to the last bucket value and - a sum
   being present - no negative bound (negf); then optionally n_created; one group key (hkey: the labels without le) per
   group, different keys from group to group. *)
Theorem C04_L5_check_histogram :
  forall (fix_isnan fix_tsexp : bool) (NUM : Type) (parse_num parse_float : str -> option NUM) (parse_int : str -> option Z)
         (num_lt num_eqb : NUM -> NUM -> bool) (num_isinf num_integral num_huge : NUM -> bool) (num_zero num_inf : NUM)
         (val_of : sample -> NUM) (ts_of : sample -> option (om_tsv NUM)) (ex_of : sample -> option (om_exemplar NUM))
         (n : str) groups,
    Forall (hgroup_ok fix_isnan fix_tsexp NUM parse_num parse_float parse_int num_lt num_eqb num_isinf num_integral num_huge
              num_zero num_inf val_of ts_of ex_of n) groups ->
    NoDup (map (hgroup_key n) groups) ->
    om_check_histogram NUM parse_float num_lt num_eqb num_zero num_inf (map (g_ps_of NUM val_of ts_of ex_of) (concat groups)) n
    = Ok tt.
Proof. exact check_hist_groups. Qed.
Print Assumptions C04_L5_check_histogram.

(* one classic HISTOGRAM family - any non-empty name, help, optional unit; samples listed group by group as above, every
   sample with arbitrary label names and values; bucket values integral, numbers, not negative, le not spelt NaN nor as a
   non-canonical infinity; n_count integral; n_count, n_sum numbers, not negative; EXEMPLARS on buckets (ex_reads, as in L4);
   no timestamps; the series of one group pairwise different - followed by # EOF is parsed back to exactly that family:
   through the per-sample checks, the grouping and _check_histogram at the flush. *)
Theorem C04_L5_histogram_family_roundtrip :
  forall (fix_nhkeys fix_nhsfx fix_tsmix fix_isnan fix_tsexp fix_sname : bool) (NUM : Type)
         (parse_num parse_float : str -> option NUM) (parse_int : str -> option Z) (num_lt num_eqb : NUM -> NUM -> bool)
         (num_isinf num_integral num_huge : NUM -> bool) (num_zero num_one num_inf : NUM)
         (ts_float : Z -> Z -> option NUM) (is_word is_space_re is_digit_re : char -> bool)
         (val_of : sample -> NUM) (ts_of : sample -> option (om_tsv NUM)) (ex_of : sample -> option (om_exemplar NUM))
         (n : str) (f : family) (text : str),
    histogram_family_wf fix_isnan fix_tsexp NUM parse_num parse_float parse_int num_lt num_eqb num_isinf num_integral num_huge
      num_zero num_inf val_of ts_of ex_of n f ->
    om_render true [f] = Ok text ->
    om_parse false true fix_nhkeys fix_nhsfx fix_tsmix fix_isnan true true fix_tsexp fix_sname NUM parse_num parse_float
      parse_int num_lt num_eqb num_isinf num_integral num_huge num_zero num_one num_inf ts_float is_word is_space_re
      is_digit_re text
    = Ok [gfam_of NUM val_of ts_of ex_of f].
Proof. exact om_histogram_family_roundtrip. Qed.
Print Assumptions C04_L5_histogram_family_roundtrip.

Example C04_L5_histogram_family_wf_unfold :
  forall fix_isnan fix_tsexp NUM parse_num parse_float parse_int num_lt num_eqb num_isinf num_integral num_huge
         num_zero num_inf val_of ts_of ex_of n f,
    let hs_ok := om_hsample_ok fix_isnan fix_tsexp NUM parse_num parse_float parse_int num_lt num_eqb num_isinf num_integral
                   num_huge num_zero num_inf val_of ts_of ex_of n in
    let bnd := bound_of NUM parse_float in
    (histogram_family_wf fix_isnan fix_tsexp NUM parse_num parse_float parse_int num_lt num_eqb num_isinf num_integral num_huge
       num_zero num_inf val_of ts_of ex_of n f
     <-> (f_name f = n /\ n <> [] /\ f_type f = Expo.S_histogram /\
          (f_unit f = [] \/ ends_with (USCORE :: f_unit f) n = true) /\
          exists groups, f_samples f = concat groups /\
            Forall (fun grp => exists k bks cs cr, grp = bks ++ cs ++ cr /\
                      Forall (fun s => hs_ok s /\ hkey n s = k) grp /\
                      bks <> [] /\ Forall (fun s => s_name s = n ++ OM_bucket) bks /\
                      bchain NUM parse_float num_lt num_eqb val_of None num_zero bks /\
                      (exists b, lastb NUM parse_float None bks = Some b /\ num_eqb b num_inf = true) /\
                      (cs = [] \/ exists c sm, cs = [c; sm] /\ s_name c = n ++ OM_count /\ s_name sm = n ++ OM_sum /\
                                               num_eqb (lastv NUM val_of num_zero bks) (val_of c) = true /\
                                               negf NUM parse_float num_lt num_zero false bks = false) /\
                      (cr = [] \/ exists r, cr = [r] /\ s_name r = n ++ OM_created)) groups /\
            NoDup (map (hgroup_key n) groups) /\ Forall (fun grp => NoDup (map sid_of grp)) groups))
    /\ (forall s, hs_ok s <->
          (read_ok fix_tsexp NUM parse_num parse_float parse_int num_eqb num_isinf val_of ts_of ex_of s /\ s_ts_om s = None /\
           ((s_name s = n ++ OM_bucket /\
             (exists lv b, In (OM_le, lv) (s_labels s) /\ parse_float lv = Some b /\ str_eqb lv OM_NaN = false /\
                           num_eqb b num_inf && negb (str_eqb lv OM_pInf) = false) /\
             num_integral (val_of s) = true /\ counts_ok fix_isnan NUM num_lt num_eqb num_huge num_zero (val_of s))
            \/ (s_name s = n ++ OM_count /\ s_ex s = None /\ num_integral (val_of s) = true /\
                counts_ok fix_isnan NUM num_lt num_eqb num_huge num_zero (val_of s))
            \/ (s_name s = n ++ OM_sum /\ s_ex s = None /\ counts_ok fix_isnan NUM num_lt num_eqb num_huge num_zero (val_of s))
            \/ (s_name s = n ++ OM_created /\ s_ex s = None)))).
Proof. intros. split; [|intro s]; reflexivity. Qed.

(* non-vacuity: a histogram with a hostile name, help, labels; buckets 0.5 / 2.5 / +Inf with two exemplars (one with hostile
   labels and a nanosecond timestamp, one with the empty label set), _count, _sum, _created; a second child with the +Inf
   bucket only *)
Example C04_L5_histogram_nonvacuous : forall fix_isnan fix_tsexp fix_sname,
  (histogram_family_wf fix_isnan fix_tsexp Z milli_num milli_num toy_int Z.ltb Z.eqb (fun z => (Z.abs z =? MILLI_INF)%Z)
     (fun z => (z mod 1000 =? 0)%Z) (fun _ => false) 0%Z MILLI_INF milli_val toy_ts toy_ex hname hostile_histogram
   /\ om_render true [hostile_histogram] = Ok hostile_histogram_text)
  /\ toy_text2 fix_tsexp fix_sname hostile_histogram_text = Ok [gfam_of Z milli_val toy_ts toy_ex hostile_histogram].
Proof. exact (fun a b c => conj (hostile_histogram_hyps a b) (hostile_histogram_reads b c)). Qed.

(* non-vacuity of C04_L5_document_roundtrip with ALL supported types in one document: gauge, counter, summary, info,
   stateset, histogram - hostile names, help texts, labels, exemplars *)
Example C04_L5_document_all_types_nonvacuous : forall fix_isnan fix_tsexp fix_sname,
  (Forall (family_wf fix_isnan fix_tsexp Z milli_num milli_num toy_int Z.ltb Z.eqb (fun z => (Z.abs z =? MILLI_INF)%Z)
             (fun z => (z mod 1000 =? 0)%Z) (fun _ => false) 0%Z 1000%Z MILLI_INF milli_val toy_ts toy_ex) all_doc
   /\ ForallOrdPairs names_apart all_doc
   /\ om_render true all_doc = Ok all_text)
  /\ toy_text2 fix_tsexp fix_sname all_text = Ok (map (gfam_of Z milli_val toy_ts toy_ex) all_doc).
Proof. exact (fun a b c => conj (all_doc_hyps a b) (all_doc_reads b c)). Qed.

(* what family_wf is: the disjunction of the per-type hypotheses, under the family's own name *)
Example C04_L5_family_wf_unfold :
  forall fix_isnan fix_tsexp NUM parse_num parse_float parse_int num_lt num_eqb num_isinf num_integral num_huge
         num_zero num_one num_inf val_of ts_of ex_of f,
    family_wf fix_isnan fix_tsexp NUM parse_num parse_float parse_int num_lt num_eqb num_isinf num_integral num_huge
      num_zero num_one num_inf val_of ts_of ex_of f
    <-> (gauge_family_wf fix_tsexp NUM parse_num parse_float parse_int num_eqb num_isinf val_of ts_of ex_of (f_name f) f
         \/ counter_family_wf fix_isnan fix_tsexp NUM parse_num parse_float parse_int num_lt num_eqb num_isinf num_huge num_zero
              val_of ts_of ex_of (f_name f) f
         \/ summary_family_ok fix_isnan fix_tsexp NUM parse_num parse_float parse_int num_lt num_eqb num_isinf num_integral
              num_huge num_zero num_one num_inf val_of ts_of ex_of (f_name f) f
         \/ info_family_wf fix_tsexp NUM parse_num parse_float parse_int num_eqb num_isinf num_one val_of ts_of ex_of (f_name f) f
         \/ stateset_family_wf fix_tsexp NUM parse_num parse_float parse_int num_eqb num_isinf num_zero num_one val_of ts_of ex_of
              (f_name f) f
         \/ histogram_family_wf fix_isnan fix_tsexp NUM parse_num parse_float parse_int num_lt num_eqb num_isinf num_integral
              num_huge num_zero num_inf val_of ts_of ex_of (f_name f) f).
Proof. intros. reflexivity. Qed.

(* gauge and counter families in the general form used by family_wf (timestamps allowed on gauges, exemplars on _total) *)
Example C04_L5_gauge_counter_wf_unfold :
  forall fix_isnan fix_tsexp NUM parse_num parse_float parse_int num_lt num_eqb num_isinf num_huge num_zero val_of ts_of ex_of n f,
    let rd := read_ok fix_tsexp NUM parse_num parse_float parse_int num_eqb num_isinf val_of ts_of ex_of in
    (gauge_family_wf fix_tsexp NUM parse_num parse_float parse_int num_eqb num_isinf val_of ts_of ex_of n f
     <-> (f_name f = n /\ n <> [] /\ f_type f = Expo.S_gauge /\ (f_unit f = [] \/ ends_with (USCORE :: f_unit f) n = true) /\
          Forall (fun s => rd s /\ s_ex s = None /\ s_name s = n) (f_samples f) /\
          ForallOrdPairs (fun s1 s2 => ~ Permutation (s_labels s1) (s_labels s2)) (f_samples f)))
    /\ (counter_family_wf fix_isnan fix_tsexp NUM parse_num parse_float parse_int num_lt num_eqb num_isinf num_huge num_zero
          val_of ts_of ex_of n f
        <-> (f_name f = n /\ n <> [] /\ f_type f = Expo.S_counter /\ (f_unit f = [] \/ ends_with (USCORE :: f_unit f) n = true) /\
             Forall (fun s => rd s /\ s_ts_om s = None /\
                              ((s_name s = n ++ OM_total /\ counts_ok fix_isnan NUM num_lt num_eqb num_huge num_zero (val_of s))
                               \/ (s_name s = n ++ OM_created /\ s_ex s = None))) (f_samples f) /\
             wgk lkey None [] [] (f_samples f) = true)).
Proof. intros. split; reflexivity. Qed.

(* ================= L5, the two remaining family types and documents over ALL eight types =================
   proofs/OMUnknownRoundTrip.v, proofs/OMGaugeHistogramRoundTrip.v, proofs/OMDocumentAll.v (witnesses: OMRoundTripWitness3.v) *)
From V Require Import proofs.OMUnknownRoundTrip proofs.OMGaugeHistogramRoundTrip proofs.OMDocumentAll proofs.OMRoundTripWitness3.

(* unknown: samples named like the family, any labels, any value, optional timestamps, no exemplars, label sets pairwise
   different - the gauge argument with the type word unknown (om_pre_checks / om_post_checks have no clause for it) *)
Theorem C04_L5_unknown_family_roundtrip :
  forall (fix_nhkeys fix_nhsfx fix_tsmix fix_isnan fix_tsexp fix_sname : bool) (NUM : Type)
         (parse_num parse_float : str -> option NUM) (parse_int : str -> option Z) (num_lt num_eqb : NUM -> NUM -> bool)
         (num_isinf num_integral num_huge : NUM -> bool) (num_zero num_one num_inf : NUM)
         (ts_float : Z -> Z -> option NUM) (is_word is_space_re is_digit_re : char -> bool)
         (val_of : sample -> NUM) (ts_of : sample -> option (om_tsv NUM)) (ex_of : sample -> option (om_exemplar NUM))
         (n : str) (f : family) (text : str),
    unknown_family_wf fix_tsexp NUM parse_num parse_float parse_int num_eqb num_isinf val_of ts_of ex_of n f ->
    om_render true [f] = Ok text ->
    om_parse false true fix_nhkeys fix_nhsfx fix_tsmix fix_isnan true true fix_tsexp fix_sname NUM parse_num parse_float
      parse_int num_lt num_eqb num_isinf num_integral num_huge num_zero num_one num_inf ts_float is_word is_space_re
      is_digit_re text
    = Ok [gfam_of NUM val_of ts_of ex_of f].
Proof. exact om_unknown_family_roundtrip. Qed.
Print Assumptions C04_L5_unknown_family_roundtrip.

Example C04_L5_unknown_family_wf_unfold :
  forall fix_tsexp NUM parse_num parse_float parse_int num_eqb num_isinf val_of ts_of ex_of n f,
    unknown_family_wf fix_tsexp NUM parse_num parse_float parse_int num_eqb num_isinf val_of ts_of ex_of n f
    <-> (f_name f = n /\ n <> [] /\ f_type f = Expo.S_unknown /\ (f_unit f = [] \/ ends_with (USCORE :: f_unit f) n = true) /\
         Forall (fun s => read_ok fix_tsexp NUM parse_num parse_float parse_int num_eqb num_isinf val_of ts_of ex_of s /\
                          s_ex s = None /\ s_name s = n) (f_samples f) /\
         ForallOrdPairs (fun s1 s2 => ~ Permutation (s_labels s1) (s_labels s2)) (f_samples f)).
Proof. intros. reflexivity. Qed.

(* gaugehistogram: groups of n_bucket samples as for a histogram (bounds strictly increasing up to +Inf, values integral,
   numbers, not negative, not decreasing; exemplars on buckets), then optionally n_gcount (integral, equal to the last
   bucket value) and n_gsum TOGETHER; n_gsum is any number (not NaN) and may be negative provided some bound is
   (the parser refuses a negative _gsum with non-negative buckets); no timestamps *)
Theorem C04_L5_gaugehistogram_family_roundtrip :
  forall (fix_nhkeys fix_nhsfx fix_tsmix fix_isnan fix_tsexp fix_sname : bool) (NUM : Type)
         (parse_num parse_float : str -> option NUM) (parse_int : str -> option Z) (num_lt num_eqb : NUM -> NUM -> bool)
         (num_isinf num_integral num_huge : NUM -> bool) (num_zero num_one num_inf : NUM)
         (ts_float : Z -> Z -> option NUM) (is_word is_space_re is_digit_re : char -> bool)
         (val_of : sample -> NUM) (ts_of : sample -> option (om_tsv NUM)) (ex_of : sample -> option (om_exemplar NUM))
         (n : str) (f : family) (text : str),
    gaugehistogram_family_wf fix_isnan fix_tsexp NUM parse_num parse_float parse_int num_lt num_eqb num_isinf num_integral
      num_huge num_zero num_inf val_of ts_of ex_of n f ->
    om_render true [f] = Ok text ->
    om_parse false true fix_nhkeys fix_nhsfx fix_tsmix fix_isnan true true fix_tsexp fix_sname NUM parse_num parse_float
      parse_int num_lt num_eqb num_isinf num_integral num_huge num_zero num_one num_inf ts_float is_word is_space_re
      is_digit_re text
    = Ok [gfam_of NUM val_of ts_of ex_of f].
Proof. exact om_gaugehistogram_family_roundtrip. Qed.
Print Assumptions C04_L5_gaugehistogram_family_roundtrip.

Example C04_L5_gaugehistogram_family_wf_unfold :
  forall fix_isnan fix_tsexp NUM parse_num parse_float parse_int num_lt num_eqb num_isinf num_integral num_huge
         num_zero num_inf val_of ts_of ex_of n f,
    let hs_ok := om_ghsample_ok fix_isnan fix_tsexp NUM parse_num parse_float parse_int num_lt num_eqb num_isinf num_integral
                   num_huge num_zero num_inf val_of ts_of ex_of n in
    (gaugehistogram_family_wf fix_isnan fix_tsexp NUM parse_num parse_float parse_int num_lt num_eqb num_isinf num_integral
       num_huge num_zero num_inf val_of ts_of ex_of n f
     <-> (f_name f = n /\ n <> [] /\ f_type f = Expo.S_gaugehistogram /\
          (f_unit f = [] \/ ends_with (USCORE :: f_unit f) n = true) /\
          exists groups, f_samples f = concat groups /\
            Forall (fun grp => exists k bks cs, grp = bks ++ cs /\
                      Forall (fun s => hs_ok s /\ hkey n s = k) grp /\
                      bks <> [] /\ Forall (fun s => s_name s = n ++ OM_bucket) bks /\
                      bchain NUM parse_float num_lt num_eqb val_of None num_zero bks /\
                      (exists b, lastb NUM parse_float None bks = Some b /\ num_eqb b num_inf = true) /\
                      (cs = [] \/ exists c sm, cs = [c; sm] /\ s_name c = n ++ OM_gcount /\ s_name sm = n ++ OM_gsum /\
                                               num_eqb (lastv NUM val_of num_zero bks) (val_of c) = true /\
                                               (num_lt (val_of sm) num_zero = true ->
                                                negf NUM parse_float num_lt num_zero false bks = true))) groups /\
            NoDup (map (ghgroup_key n) groups) /\ Forall (fun grp => NoDup (map sid_of grp)) groups))
    /\ (forall s, hs_ok s <->
          (read_ok fix_tsexp NUM parse_num parse_float parse_int num_eqb num_isinf val_of ts_of ex_of s /\ s_ts_om s = None /\
           ((s_name s = n ++ OM_bucket /\
             (exists lv b, In (OM_le, lv) (s_labels s) /\ parse_float lv = Some b /\ str_eqb lv OM_NaN = false /\
                           num_eqb b num_inf && negb (str_eqb lv OM_pInf) = false) /\
             num_integral (val_of s) = true /\ counts_ok fix_isnan NUM num_lt num_eqb num_huge num_zero (val_of s))
            \/ (s_name s = n ++ OM_gcount /\ s_ex s = None /\ num_integral (val_of s) = true /\
                counts_ok fix_isnan NUM num_lt num_eqb num_huge num_zero (val_of s))
            \/ (s_name s = n ++ OM_gsum /\ s_ex s = None /\
                num_eqb (val_of s) (val_of s) = true /\ (fix_isnan = true \/ num_huge (val_of s) = false))))).
Proof. intros. split; [|intro s]; reflexivity. Qed.

(* documents over all eight metric types *)
Theorem C04_L5_document_roundtrip_all :
  forall (fix_nhkeys fix_nhsfx fix_tsmix fix_isnan fix_tsexp fix_sname : bool) (NUM : Type)
         (parse_num parse_float : str -> option NUM) (parse_int : str -> option Z) (num_lt num_eqb : NUM -> NUM -> bool)
         (num_isinf num_integral num_huge : NUM -> bool) (num_zero num_one num_inf : NUM)
         (ts_float : Z -> Z -> option NUM) (is_word is_space_re is_digit_re : char -> bool)
         (val_of : sample -> NUM) (ts_of : sample -> option (om_tsv NUM)) (ex_of : sample -> option (om_exemplar NUM))
         (fams : list family) (text : str),
    Forall (family_wf_all fix_isnan fix_tsexp NUM parse_num parse_float parse_int num_lt num_eqb num_isinf num_integral num_huge
              num_zero num_one num_inf val_of ts_of ex_of) fams ->
    ForallOrdPairs names_apart fams ->
    om_render true fams = Ok text ->
    om_parse false true fix_nhkeys fix_nhsfx fix_tsmix fix_isnan true true fix_tsexp fix_sname NUM parse_num parse_float
      parse_int num_lt num_eqb num_isinf num_integral num_huge num_zero num_one num_inf ts_float is_word is_space_re
      is_digit_re text
    = Ok (map (gfam_of NUM val_of ts_of ex_of) fams).
Proof. exact om_document_roundtrip_all. Qed.
Print Assumptions C04_L5_document_roundtrip_all.

Example C04_L5_family_wf_all_unfold :
  forall fix_isnan fix_tsexp NUM parse_num parse_float parse_int num_lt num_eqb num_isinf num_integral num_huge
         num_zero num_one num_inf val_of ts_of ex_of f,
    family_wf_all fix_isnan fix_tsexp NUM parse_num parse_float parse_int num_lt num_eqb num_isinf num_integral num_huge
      num_zero num_one num_inf val_of ts_of ex_of f
    <-> (family_wf fix_isnan fix_tsexp NUM parse_num parse_float parse_int num_lt num_eqb num_isinf num_integral num_huge
           num_zero num_one num_inf val_of ts_of ex_of f
         \/ unknown_family_wf fix_tsexp NUM parse_num parse_float parse_int num_eqb num_isinf val_of ts_of ex_of (f_name f) f
         \/ gaugehistogram_family_wf fix_isnan fix_tsexp NUM parse_num parse_float parse_int num_lt num_eqb num_isinf num_integral
              num_huge num_zero num_inf val_of ts_of ex_of (f_name f) f).
Proof. intros. reflexivity. Qed.

(* non-vacuity: the six-type hostile document of C04_L5_document_all_types_nonvacuous extended by an unknown family (hostile
   name and labels, a nanosecond timestamp, a negative value) and a gaugehistogram (hostile name and labels, bounds -1.0 /
   0.5 / +Inf, an exemplar with hostile labels on a bucket, _gcount, a NEGATIVE _gsum; a second child with +Inf only):
   every family meets family_wf_all (in particular the two new hypotheses), the names do not clash, and the document is read
   back (computed on the models with the numeric toy oracle) *)
Example C04_L5_document_all8_nonvacuous : forall fix_isnan fix_tsexp fix_sname,
  (Forall (family_wf_all fix_isnan fix_tsexp Z milli_num milli_num toy_int Z.ltb Z.eqb (fun z => (Z.abs z =? MILLI_INF)%Z)
             (fun z => (z mod 1000 =? 0)%Z) (fun _ => false) 0%Z 1000%Z MILLI_INF milli_val toy_ts toy_ex) all8_doc
   /\ ForallOrdPairs names_apart all8_doc
   /\ om_render true all8_doc = Ok all8_text)
  /\ toy_text2 fix_tsexp fix_sname all8_text = Ok (map (gfam_of Z milli_val toy_ts toy_ex) all8_doc).
Proof. exact (fun a b c => conj (all8_doc_hyps a b) (all8_doc_reads b c)). Qed.

Example C04_L5_unknown_gaugehistogram_nonvacuous : forall fix_isnan fix_tsexp,
  unknown_family_wf fix_tsexp Z milli_num milli_num toy_int Z.eqb (fun z => (Z.abs z =? MILLI_INF)%Z) milli_val toy_ts toy_ex
    uname hostile_unknown
  /\ gaugehistogram_family_wf fix_isnan fix_tsexp Z milli_num milli_num toy_int Z.ltb Z.eqb (fun z => (Z.abs z =? MILLI_INF)%Z)
       (fun z => (z mod 1000 =? 0)%Z) (fun _ => false) 0%Z MILLI_INF milli_val toy_ts toy_ex ghname hostile_gaugehistogram.
Proof. exact (fun a b => conj (hostile_unknown_wf b) (hostile_gaugehistogram_wf a b)). Qed.
