(* C04, first direction, layers L3' - L5: what the OpenMetrics exposition writes is read back by the OpenMetrics parser.
   Statements only; proofs in proofs/OMLabelRoundTrip.v, proofs/OMSampleRoundTrip.v, proofs/OMDocRoundTrip.v (gauges),
   proofs/OMCounterRoundTrip.v (counters with exemplars),
   witnesses in proofs/OMRoundTripWitness.v.  (props/C04.v: the string layers L1-L3 shared with the text format;
   props/C04b.v: parser-side defects of the second direction.)

   Models: model/Expo.v (om_sample_line, om_family, om_render; exq = true is the tree as it is: exemplar label names
   and the unit are escaped) and model/OMParser.v (om_parse_sample, om_parse_remaining_text, the line loop).
   Parser flags: legacy = false (UTF-8 names allowed), guard_fix = true, fix_quote = true (the quote toggle of
   _parse_remaining_text honours backslashes - the tree as it is; with the pinned toggle the statement is false, see
   C04_L4_pinned_quote_toggle_refuted); fix_tsexp and fix_sname are universally quantified (irrelevant here).

   What is a hypothesis and why (all are met by the real exposition output, see C04_L4_nonvacuous):
     key_ok / NoDup     label names (also exemplar label names) are distinct and not reserved ('__...'): the metric
                        constructors and _validate_exemplar reject anything else.  Names and values are otherwise
                        ARBITRARY strings: quotes, backslashes, newlines, commas, braces, '#', spaces.
     om_token_ok        the value / timestamp TOKENS written by floatToGoString, str(int), str(Timestamp), repr(float)
                        are non-empty and hold no whitespace, underscore, brace, quote, backslash or '#'.
     parse_num .. = Some nv, ts_reads   CPython's int()/float() read those tokens (oracle facts, as sample_ok in C03);
                        ts_reads is reduced to facts about int() alone for integer and sec.nsec timestamps by
                        C04_L4_ts_int / C04_L4_ts_nanos.
     om_sum_len <= 128  the exemplar length limit, enforced alike by the API and by the parser.
   The metric NAME is any string (bare when legacy, otherwise quoted inside the braces, followed by ', ').
   Labels come back as the dict whose insertion order is the exposition's order: sorted by name (sort_kv). *)
From V Require Import lib.PyBase lib.PyStr model.Utils model.Validation model.Expo model.TextParser model.OMParser
  proofs.LabelRoundTrip proofs.SampleRoundTrip proofs.OMWitness proofs.OMLabelRoundTrip proofs.OMSampleRoundTrip
  proofs.DocRoundTrip proofs.OMDocRoundTrip proofs.OMCounterRoundTrip proofs.OMRoundTripWitness.
From Coq Require Import Permutation.
Open Scope N_scope.

(* L3': the label block, read by parse_labels in EITHER mode (the OpenMetrics parser calls it with om = true) *)
Theorem C04_L3om_labels_roundtrip : forall om labels,
  Forall key_ok (map fst labels) -> NoDup (map fst labels) ->
  parse_labels false true (labelstr labels) om = Ok (sort_kv labels).
Proof. exact labelstr_roundtrip_om. Qed.
Print Assumptions C04_L3om_labels_roundtrip.

(* ... and the block written for a name that is not a legacy name: the quoted metric name, then the labels *)
Theorem C04_L3om_quoted_name_block : forall om sp nm kvs,
  Forall key_ok (map fst kvs) -> NoDup (map fst kvs) ->
  parse_labels false true (quote (escape nm) ++ sep_text sp kvs) om = Ok ((S_name_key, nm) :: kvs).
Proof. exact parse_labels_quoted_name_om. Qed.
Print Assumptions C04_L3om_quoted_name_block.

(* L4a: the text after the name and label block -  value[ timestamp][ # {labels} value[ timestamp]]  - is read by
   _parse_remaining_text (character state machine, _next_unquoted_char / _last_unquoted_char for the exemplar's
   braces, parse_labels for its labels) as exactly value, timestamp, exemplar *)
Theorem C04_L4a_remaining_text :
  forall (fix_tsexp : bool) (NUM : Type) (parse_num parse_float : str -> option NUM) (parse_int : str -> option Z)
         (num_eqb : NUM -> NUM -> bool) (num_isinf : NUM -> bool) vt nv tso tsv exo exr,
    om_token_ok vt -> parse_num vt = Some nv ->
    ts_reads fix_tsexp NUM parse_float parse_int num_eqb num_isinf tso tsv ->
    ex_reads fix_tsexp NUM parse_num parse_float parse_int num_eqb num_isinf exo exr ->
    om_parse_remaining_text false true true fix_tsexp NUM parse_num parse_float parse_int num_eqb num_isinf
      (vt ++ ts_text tso ++ ex_text exo) = Ok (nv, tsv, exr).
Proof. exact remaining_text_roundtrip. Qed.
Print Assumptions C04_L4a_remaining_text.

(* L4: the whole sample line *)
Theorem C04_L4_sample_roundtrip :
  forall (fix_tsexp fix_sname : bool) (NUM : Type) (parse_num parse_float : str -> option NUM)
         (parse_int : str -> option Z) (num_eqb : NUM -> NUM -> bool) (num_isinf : NUM -> bool)
         (ftype fname : str) (s : sample) (line : str) nv tsv exr,
    Forall key_ok (map fst (s_labels s)) -> NoDup (map fst (s_labels s)) ->
    om_token_ok (go_string (s_value s)) -> parse_num (go_string (s_value s)) = Some nv ->
    ts_reads fix_tsexp NUM parse_float parse_int num_eqb num_isinf (s_ts_om s) tsv ->
    ex_reads fix_tsexp NUM parse_num parse_float parse_int num_eqb num_isinf (s_ex s) exr ->
    Expo.om_sample_line true ftype fname s = Ok line ->
    exists body, line = body ++ [LF] /\
      om_parse_sample false true true fix_tsexp fix_sname NUM parse_num parse_float parse_int num_eqb num_isinf body
      = Ok {| os_name := s_name s; os_labels := Some (sort_kv (s_labels s)); os_value := Some nv;
              os_ts := tsv; os_ex := exr; os_nh := None |}.
Proof. exact om_sample_roundtrip. Qed.
Print Assumptions C04_L4_sample_roundtrip.

(* non-vacuity: a sample whose name, label names, label values, exemplar label names and values hold quotes,
   backslashes, newlines, commas, braces, '#', ' # ' and spaces; value 1e+06, timestamp Timestamp(1, 500), exemplar
   value 0.5 at 1234.  It meets every hypothesis of L4 and is read back (computed on the models). *)
Example C04_L4_nonvacuous : forall fix_tsexp fix_sname,
  (Forall key_ok (map fst (s_labels hostile_sample)) /\ NoDup (map fst (s_labels hostile_sample)) /\
   om_token_ok (go_string (s_value hostile_sample)) /\
   tok_num (go_string (s_value hostile_sample)) = Some (s2l "1e+06") /\
   ts_reads fix_tsexp str tok_num toy_int str_eqb (fun _ => false) (s_ts_om hostile_sample) (Some (OTs 1 500)) /\
   ex_reads fix_tsexp str tok_num tok_num toy_int str_eqb (fun _ => false) (s_ex hostile_sample) (Some hostile_exr) /\
   Expo.om_sample_line true (s2l "histogram") hostile_name hostile_sample = Ok hostile_line)
  /\ toy_sample fix_tsexp fix_sname (removelast hostile_line)
     = Ok {| os_name := hostile_name; os_labels := Some (sort_kv (s_labels hostile_sample));
             os_value := Some (s2l "1e+06"); os_ts := Some (OTs 1 500); os_ex := Some hostile_exr; os_nh := None |}.
Proof. exact (fun a b => conj (hostile_hyps a) (hostile_reads a b)). Qed.

(* with the pinned quote toggle of _parse_remaining_text (fix_quote = false: a backslash-escaped quote inside an
   exemplar label value toggles the quote state) the same line is rejected *)
Theorem C04_L4_pinned_quote_toggle_refuted :
  om_parse_sample false true false true true str tok_num tok_num toy_int str_eqb (fun _ => false) (removelast hostile_line)
  = Err ValueError.
Proof. exact hostile_orig_quote_toggle. Qed.
Print Assumptions C04_L4_pinned_quote_toggle_refuted.

(* L4 timestamps: for the two Timestamp-class renderings ts_reads follows from facts about int() alone.
   An int t is written str(t) and comes back as Timestamp(int(str(t)), 0); a samples.Timestamp(sec, nsec) with
   sec >= 0 is written sec.nnnnnnnnn (nine digits) and comes back as Timestamp(int(sec), int(nnnnnnnnn)), given that
   int() rejects the whole token and reads its halves.  (A float timestamp is written repr(t); what float()/int() make of
   that token stays a hypothesis of the shape ts_reads.) *)
Theorem C04_L4_ts_int :
  forall (fix_tsexp : bool) (NUM : Type) (parse_float : str -> option NUM) (parse_int : str -> option Z)
         (num_eqb : NUM -> NUM -> bool) (num_isinf : NUM -> bool) z zr,
    parse_int (dec_of_Z z) = Some zr ->
    ts_reads fix_tsexp NUM parse_float parse_int num_eqb num_isinf (Some (TsInt z)) (Some (OTs zr 0)).
Proof. exact ts_reads_int. Qed.
Print Assumptions C04_L4_ts_int.

Theorem C04_L4_ts_nanos :
  forall (fix_tsexp : bool) (NUM : Type) (parse_float : str -> option NUM) (parse_int : str -> option Z)
         (num_eqb : NUM -> NUM -> bool) (num_isinf : NUM -> bool) sec nsec zs zn,
    (0 <= sec)%Z -> nsec < 1000000000 ->
    parse_int (render_om_ts (TsNanos sec nsec)) = None ->
    parse_int (dec_of_Z sec) = Some zs -> parse_int (pad9 (dec_of_N nsec) 9) = Some zn ->
    (0 <= zs)%Z -> (0 <= zn < 1000000000)%Z ->
    ts_reads fix_tsexp NUM parse_float parse_int num_eqb num_isinf (Some (TsNanos sec nsec)) (Some (OTs zs zn)).
Proof. exact ts_reads_nanos. Qed.
Print Assumptions C04_L4_ts_nanos.

(* ================= L5: metadata lines and a whole family =================
   L5a  _unescape_help inverts _escape (help text and unit), for every string. *)
Theorem C04_L5_unescape_help_escape : forall s, om_unescape_help (escape_chain s) = s.
Proof. exact om_unescape_help_escape. Qed.
Print Assumptions C04_L5_unescape_help_escape.

(* L5b  the three metadata lines, as the line loop's metadata reader sees them (_split_quoted(line, ' ', 3), name
   token bare or quoted, _unescape_help): '# HELP name text' opens the family and records the help text EXACTLY -
   whatever it is: empty, leading / trailing / inner spaces, quotes, backslashes, newlines, '# EOF' -, '# TYPE name
   word' records the type word and the sample names it allows, '# UNIT name text' records the unit.  The name is ANY
   non-empty string. *)
Theorem C04_L5_help_line :
  forall (NUM : Type) (parse_float : str -> option NUM) (num_lt num_eqb : NUM -> NUM -> bool) (num_zero num_inf : NUM)
         (st : om_st NUM) n doc out seen',
    n <> [] -> om_opt_str_eqb (st_name st) n = false ->
    om_flush false NUM parse_float num_lt num_eqb num_zero num_inf st = Ok (out, seen') ->
    om_meta_line false true true NUM parse_float num_lt num_eqb num_zero num_inf st (om_help_line n doc)
    = Ok ({| st_name := Some n; st_allowed := [n]; st_eof := st_eof st; st_seen := seen'; st_typ := None;
             st_doc := Some doc; st_unit := None; st_group := None; st_seen_groups := []; st_gts := None;
             st_gts_samples := []; st_samples := [] |}, out).
Proof. exact meta_help. Qed.
Print Assumptions C04_L5_help_line.

Theorem C04_L5_type_line :
  forall (NUM : Type) (parse_float : str -> option NUM) (num_lt num_eqb : NUM -> NUM -> bool) (num_zero num_inf : NUM)
         (st : om_st NUM) n typ,
    n <> [] -> st_name st = Some n -> st_samples st = [] -> st_typ st = None -> str_eqb typ OM_untyped = false ->
    om_meta_line false true true NUM parse_float num_lt num_eqb num_zero num_inf st (om_type_line n typ)
    = Ok ({| st_name := st_name st; st_allowed := map (fun sfx => n ++ sfx) (om_type_suffixes typ [[]]);
             st_eof := st_eof st; st_seen := st_seen st; st_typ := Some typ; st_doc := st_doc st; st_unit := st_unit st;
             st_group := st_group st; st_seen_groups := st_seen_groups st; st_gts := st_gts st;
             st_gts_samples := st_gts_samples st; st_samples := st_samples st |}, []).
Proof. exact meta_type. Qed.
Print Assumptions C04_L5_type_line.

Theorem C04_L5_unit_line :
  forall (NUM : Type) (parse_float : str -> option NUM) (num_lt num_eqb : NUM -> NUM -> bool) (num_zero num_inf : NUM)
         (st : om_st NUM) n u,
    n <> [] -> st_name st = Some n -> st_samples st = [] -> st_unit st = None ->
    om_meta_line false true true NUM parse_float num_lt num_eqb num_zero num_inf st (om_unit_line n u)
    = Ok ({| st_name := st_name st; st_allowed := st_allowed st; st_eof := st_eof st; st_seen := st_seen st;
             st_typ := st_typ st; st_doc := st_doc st; st_unit := Some u;
             st_group := st_group st; st_seen_groups := st_seen_groups st; st_gts := st_gts st;
             st_gts_samples := st_gts_samples st; st_samples := st_samples st |}, []).
Proof. exact meta_unit. Qed.
Print Assumptions C04_L5_unit_line.

(* the exposition of one family is exactly these lines, each followed by LF, then '# EOF' *)
Theorem C04_L5_render_is_lines : forall f text, om_render true [f] = Ok text ->
  text = DocRoundTrip.unlines (om_family_lines_of f ++ [Expo.S_EOF]).
Proof. exact om_render_unlines. Qed.
Print Assumptions C04_L5_render_is_lines.

(* L5  a whole GAUGE family: openmetrics generate_latest of a registry holding one gauge family - any non-empty name
   (legacy or not), any help text, optional unit (the name then ends in _unit, as the constructor makes it), any number of
   samples named like the family, each with arbitrary label names and values, value and optional timestamp (om_sample_ok:
   the hypotheses of L4, no exemplar), the label sets pairwise different as dicts - is parsed by
   text_string_to_metric_families back to exactly ONE family with that name, help, type, unit and those samples, in
   order.  All oracles other than the ones named in om_sample_ok are arbitrary; the repair flags other than
   guard_fix / fix_unit / fix_quote are arbitrary. *)
Theorem C04_L5_gauge_family_roundtrip :
  forall (fix_nhkeys fix_nhsfx fix_tsmix fix_isnan fix_tsexp fix_sname : bool) (NUM : Type)
         (parse_num parse_float : str -> option NUM) (parse_int : str -> option Z) (num_lt num_eqb : NUM -> NUM -> bool)
         (num_isinf num_integral num_huge : NUM -> bool) (num_zero num_one num_inf : NUM)
         (ts_float : Z -> Z -> option NUM) (is_word is_space_re is_digit_re : char -> bool)
         (val_of : sample -> NUM) (ts_of : sample -> option (om_tsv NUM)) (n : str) (f : family) (text : str),
    f_name f = n -> n <> [] -> f_type f = Expo.S_gauge ->
    (f_unit f = [] \/ ends_with (USCORE :: f_unit f) n = true) ->
    Forall (om_sample_ok fix_tsexp NUM parse_num parse_float parse_int num_eqb num_isinf val_of ts_of) (f_samples f) ->
    Forall (fun s => s_name s = n) (f_samples f) ->
    ForallOrdPairs (fun s1 s2 => ~ Permutation (s_labels s1) (s_labels s2)) (f_samples f) ->
    om_render true [f] = Ok text ->
    om_parse false true fix_nhkeys fix_nhsfx fix_tsmix fix_isnan true true fix_tsexp fix_sname NUM parse_num parse_float
      parse_int num_lt num_eqb num_isinf num_integral num_huge num_zero num_one num_inf ts_float is_word is_space_re
      is_digit_re text
    = Ok [ {| of_name := n; of_doc := f_doc f; of_type := OM_gauge; of_unit := f_unit f;
              of_samples := map (om_ps_of NUM val_of ts_of) (f_samples f) |} ].
Proof. exact om_gauge_family_roundtrip. Qed.
Print Assumptions C04_L5_gauge_family_roundtrip.

(* L5+  any number of gauge families with different names: the whole exposition of such a registry is parsed back to
   exactly those families, in order (the families in progress are closed by the next # HELP line and by # EOF;
   build_metric's duplicate-name test passes because the names differ) *)
Theorem C04_L5_gauge_families_roundtrip :
  forall (fix_nhkeys fix_nhsfx fix_tsmix fix_isnan fix_tsexp fix_sname : bool) (NUM : Type)
         (parse_num parse_float : str -> option NUM) (parse_int : str -> option Z) (num_lt num_eqb : NUM -> NUM -> bool)
         (num_isinf num_integral num_huge : NUM -> bool) (num_zero num_one num_inf : NUM)
         (ts_float : Z -> Z -> option NUM) (is_word is_space_re is_digit_re : char -> bool)
         (val_of : sample -> NUM) (ts_of : sample -> option (om_tsv NUM)) (fams : list family) (text : str),
    Forall (gauge_family_ok fix_tsexp NUM parse_num parse_float parse_int num_eqb num_isinf val_of ts_of) fams ->
    NoDup (map f_name fams) ->
    om_render true fams = Ok text ->
    om_parse false true fix_nhkeys fix_nhsfx fix_tsmix fix_isnan true true fix_tsexp fix_sname NUM parse_num parse_float
      parse_int num_lt num_eqb num_isinf num_integral num_huge num_zero num_one num_inf ts_float is_word is_space_re
      is_digit_re text
    = Ok (map (fam_of NUM val_of ts_of) fams).
Proof. exact om_gauge_families_roundtrip. Qed.
Print Assumptions C04_L5_gauge_families_roundtrip.

Example C04_L5_families_nonvacuous : forall fix_tsexp fix_sname,
  (Forall (gauge_family_ok fix_tsexp str tok_num tok_num toy_int str_eqb (fun _ => false) hostile_val hostile_ts)
          [hostile_family; plain_family] /\
   NoDup (map f_name [hostile_family; plain_family]) /\
   om_render true [hostile_family; plain_family] = Ok two_text)
  /\ toy_text fix_tsexp fix_sname two_text = Ok (map (fam_of str hostile_val hostile_ts) [hostile_family; plain_family]).
Proof. exact (fun a b => conj (two_families_hyps a) (two_families_read a b)). Qed.

(* non-vacuity: a gauge family whose name, help text, unit, label names and values are hostile (help text with leading
   and trailing spaces, a quote, a backslash, a newline and the words ' # EOF '), two samples, nanosecond and integer
   timestamps: it meets the hypotheses of L5 and is read back (computed on the models) *)
Example C04_L5_nonvacuous : forall fix_tsexp fix_sname,
  (f_name hostile_family <> [] /\ f_type hostile_family = Expo.S_gauge /\
   ends_with (USCORE :: f_unit hostile_family) (f_name hostile_family) = true /\
   Forall (om_sample_ok fix_tsexp str tok_num tok_num toy_int str_eqb (fun _ => false) hostile_val hostile_ts)
          (f_samples hostile_family) /\
   Forall (fun s => s_name s = f_name hostile_family) (f_samples hostile_family) /\
   ForallOrdPairs (fun s1 s2 => ~ Permutation (s_labels s1) (s_labels s2)) (f_samples hostile_family) /\
   om_render true [hostile_family] = Ok hostile_text)
  /\ toy_text fix_tsexp fix_sname hostile_text
     = Ok [ {| of_name := hostile_fname; of_doc := f_doc hostile_family; of_type := OM_gauge; of_unit := s2l "a b";
               of_samples := map (om_ps_of str hostile_val hostile_ts) (f_samples hostile_family) |} ].
Proof. exact (fun a b => conj (hostile_family_hyps a) (hostile_family_reads a b)). Qed.

(* exemplar eligibility: the pinned exposition wrote an exemplar on ANY sample named like its family (operator precedence
   in _is_valid_exemplar_metric), while the parser takes exemplars on counters and histogram buckets only: a gauge sample
   carrying one (Metric.add_sample in a custom collector) was written and then rejected by the parser - an API-built
   content that does not come back.  Repaired source (fixes/C04-exemplar-eligibility.diff): the exposition refuses it
   with ValueError like every other ineligible exemplar. *)
Theorem C04_exemplar_eligibility_orig_refuted :
  is_valid_exemplar_metric_orig (s2l "gauge") (s2l "g") gauge_ex_sample = true /\
  toy_text true true gauge_with_exemplar_text = Err ValueError /\
  is_valid_exemplar_metric (s2l "gauge") (s2l "g") gauge_ex_sample = false /\
  om_render true [gauge_with_exemplar] = Err ValueError.
Proof. exact gauge_exemplar_orig_refuted. Qed.
Print Assumptions C04_exemplar_eligibility_orig_refuted.

(* ... and compared `metric.type in ('gaugehistogram')`, a substring test on a string: a GAUGE family ('gauge' is a substring)
   with a sample named *_bucket was written with its exemplar too.  Repaired source (fixes/C04-exemplar-type-equality.diff):
   equality of types.  Found by the correspondence/direct oracle once the generator produced family names ending in _bucket. *)
Theorem C04_exemplar_type_substring_orig_refuted :
  is_valid_exemplar_metric_orig (s2l "gauge") (s2l "g") gauge_bucket_sample = true /\
  toy_text true true gauge_bucket_text = Err ValueError /\
  is_valid_exemplar_metric (s2l "gauge") (s2l "g") gauge_bucket_sample = false /\
  om_render true [gauge_bucket_family] = Err ValueError.
Proof. exact exemplar_type_substring_orig_refuted. Qed.
Print Assumptions C04_exemplar_type_substring_orig_refuted.

(* L5, counters: one COUNTER family - any non-empty name, any help text, optional unit, samples name_total (value a
   number that is not NaN and not negative, as the validation rules demand; optional EXEMPLAR with arbitrary label names
   and values, value and optional timestamp: ex_reads as in L4) and name_created, arbitrary label names and values,
   no sample timestamps (the instrumentation classes never set one) - followed by # EOF is parsed back to exactly that
   family: every sample with name, labels, value and exemplar.  counter_family_ok spells the hypotheses out; the
   grouping rule of the parser (well_grouped: samples of one label set are consecutive and differently named) is a
   computable test, met by the shape the Counter class produces (C04_L5_counter_grouping). *)
Theorem C04_L5_counter_family_roundtrip :
  forall (fix_nhkeys fix_nhsfx fix_tsmix fix_isnan fix_tsexp fix_sname : bool) (NUM : Type)
         (parse_num parse_float : str -> option NUM) (parse_int : str -> option Z) (num_lt num_eqb : NUM -> NUM -> bool)
         (num_isinf num_integral num_huge : NUM -> bool) (num_zero num_one num_inf : NUM)
         (ts_float : Z -> Z -> option NUM) (is_word is_space_re is_digit_re : char -> bool)
         (val_of : sample -> NUM) (ex_of : sample -> option (om_exemplar NUM)) (n : str) (f : family) (text : str),
    counter_family_ok fix_isnan fix_tsexp NUM parse_num parse_float parse_int num_lt num_eqb num_isinf num_huge num_zero
      val_of ex_of n f ->
    om_render true [f] = Ok text ->
    om_parse false true fix_nhkeys fix_nhsfx fix_tsmix fix_isnan true true fix_tsexp fix_sname NUM parse_num parse_float
      parse_int num_lt num_eqb num_isinf num_integral num_huge num_zero num_one num_inf ts_float is_word is_space_re
      is_digit_re text
    = Ok [cfam_of NUM val_of ex_of f].
Proof. exact om_counter_family_roundtrip. Qed.
Print Assumptions C04_L5_counter_family_roundtrip.

(* what counter_family_ok and om_csample_ok say, unfolded once (so that the statement above can be read here) *)
Example C04_L5_counter_family_ok_unfold :
  forall fix_isnan fix_tsexp NUM parse_num parse_float parse_int num_lt num_eqb num_isinf num_huge num_zero val_of ex_of n f,
    counter_family_ok fix_isnan fix_tsexp NUM parse_num parse_float parse_int num_lt num_eqb num_isinf num_huge num_zero
      val_of ex_of n f
    <-> (f_name f = n /\ n <> [] /\ f_type f = Expo.S_counter /\
         (f_unit f = [] \/ ends_with (USCORE :: f_unit f) n = true) /\
         Forall (fun s =>
           Forall key_ok (map fst (s_labels s)) /\ NoDup (map fst (s_labels s)) /\
           om_token_ok (go_string (s_value s)) /\ parse_num (go_string (s_value s)) = Some (val_of s) /\
           s_ts_om s = None /\
           ex_reads fix_tsexp NUM parse_num parse_float parse_int num_eqb num_isinf (s_ex s) (ex_of s) /\
           ((s_name s = n ++ OM_total /\ num_eqb (val_of s) (val_of s) = true /\ num_lt (val_of s) num_zero = false /\
             (fix_isnan = true \/ num_huge (val_of s) = false))
            \/ (s_name s = n ++ OM_created /\ s_ex s = None))) (f_samples f) /\
         well_grouped None [] [] (f_samples f) = true).
Proof. intros. reflexivity. Qed.

Theorem C04_L5_counter_grouping : forall groups,
  Forall group_ok groups -> NoDup (map group_key groups) -> well_grouped None [] [] (concat groups) = true.
Proof. exact (fun groups H1 H2 => well_grouped_groups groups None [] [] I H1 H2 (fun _ _ H => H)). Qed.
Print Assumptions C04_L5_counter_grouping.

(* non-vacuity: a counter with a hostile name, help text, label names and values, an exemplar with hostile labels and a
   nanosecond timestamp on one _total sample, _created samples, two children *)
Example C04_L5_counter_nonvacuous : forall fix_isnan fix_tsexp fix_sname,
  (counter_family_ok fix_isnan fix_tsexp str tok_num tok_num toy_int (fun _ _ => false) str_eqb (fun _ => false) (fun _ => false)
     (s2l "0") hostile_val hostile_cex hostile_name hostile_counter
   /\ om_render true [hostile_counter] = Ok hostile_counter_text)
  /\ toy_text fix_tsexp fix_sname hostile_counter_text = Ok [cfam_of str hostile_val hostile_cex hostile_counter].
Proof. exact (fun a b c => conj (hostile_counter_hyps a b) (hostile_counter_reads b c)). Qed.
