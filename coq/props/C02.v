(* C02 - No lost update, error or deadlock under any thread interleaving.  PARTIAL by design (DESIGN.md 7/C02).
   Statements only; every proof is `exact <lemma>` (proofs/ConcProofs.v).  Model: model/Conc.v, an interleaving
   semantics over value cells, child/collector tables and locks; each library operation is a fixed instruction list
   (compile_op) written against values.py / metrics.py / registry.py.

   Everything below holds for EVERY number of threads, every list of thread programs `ps` and every table of
   collector/loop bodies that pass the boolean lock-discipline check `wf` (wf_world), every initial state and EVERY
   schedule `s` (reach = exec along some schedule from the initial configuration).
   What is trusted and not proved (the runtime): one bytecode / one built-in dict operation is atomic (GIL),
   threading.Lock is a mutex, amounts are integers (Z): for binary64 amounts that are not integers the cell is the
   fold in application order (C02_no_lost_update), not THE sum.
   Now proved at the END of this file (proofs/ConcFinalProofs.v, proofs/ConcLabelProofs.v), on top of the first eleven
   theorems, which are unchanged:
   - C02_final_sum_static / C02_final_sum_labelled (+ _noraise): the link to the PROGRAM TEXT.  For threads given as
     lists of library operations (ps = map compile_thread opss), in every reachable configuration in which all threads
     have finished, a counter / summary / histogram cell that is only incremented holds its initial value plus the sum of
     ALL increments the operation lists issue - static cells, and the cells of the labelled child that the table binds
     to a key (C02_labels_returned_child: the child every labels() call returned), any number of value objects per
     child.  Proof: an invariant relating the remaining code of every thread to a suffix-state of its compiled
     operation list.  A thread that raises (duplicate register) abandons its remaining operations, hence the hypothesis
     that no thread raised, or, on the program text, that no operation / body can raise (C02_no_exception: only
     register / unregister can); the _per_thread forms need neither: every thread that finished without raising
     added exactly what its operation list issues.
   - C02_terminates: no call blocks forever - for programs without collect loops / collector calls: every schedule
     takes at most total_steps ps steps, a stuck execution is a finished one, every fair schedule finishes.
     C02_bounded_between_calls: for every world, steps <= total_steps + (2L+1) * (loop / callout instructions run);
     C02_fair_finishes_with_calls: in every disciplined world a fair schedule finishes once its rounds reach that bound.
     What the loop construct of the model does not allow is said at C02_terminates.
   - C02_operations_disciplined / C02_bodies_disciplined: the discipline theorem for children with ANY number of value
     objects and any field.  The bound `child tables numbered below 40` stays: it is the model's lock NUMBERING
     (parent lock of table tb = static lock 10+tb, user-collector mutexes = 50+u, value mutexes = 100+n; lib_disc ranks
     a lock by these ranges), so table 40+ would alias a parent lock with a user / value mutex; lifting it means a
     separate lock constructor per kind in model/Conc.v and in the harness protocol, not a proof change.
   - C02_construct_disciplined / C02_construct_prog_order (end of file): metric CONSTRUCTION on the shared registry
     (OConstruct: allocate the value objects, then register every described name in one critical section) and the
     unregistration of a multi-name collector (OUnregisterN) are operations of the verified class, for every list of
     names and every number of value objects; all theorems over wf_world cover them.
   Still missing for full strength (hence the _partial names above stay): the amounts are integers; the tie of the model
   programs to the Python is the trace-conformance check of harness/c02.py, i.e. differential testing; termination of
   worlds with collect loops has no bound from the program text (collector bodies may call collectors). *)
From V Require Import lib.PyBase model.Conc proofs.ConcProofs.
Open Scope N_scope.

(* the programs of the library's operations pass the discipline check, for all parameters (static cells; child tables
   numbered below 40; children with one value object, i.e. Counter/Gauge children) *)
Theorem C02_operations_disciplined_partial : forall mp ops,
  Forall simple_op ops -> lib_disciplined mp (compile_thread mp ops).
Proof. exact (fun mp ops => compile_disciplined mp ops 10). Qed.
Print Assumptions C02_operations_disciplined_partial.

(* lock discipline: in every reachable configuration a lock is held by at most one thread *)
Theorem C02_mutual_exclusion : forall mp bodies h0 tb0 n0 ps,
  wf_world mp bodies ps -> forall c, reach bodies h0 tb0 n0 ps c ->
  forall l t t', In l (held (thr c t)) -> In l (held (thr c t')) -> t = t'.
Proof. exact fin_mutex. Qed.
Print Assumptions C02_mutual_exclusion.

(* the cell invariant: every cell equals the fold of all updates applied to it, in the order they were applied *)
Theorem C02_no_lost_update : forall mp bodies h0 tb0 n0 ps,
  wf_world mp bodies ps -> forall c, reach bodies h0 tb0 n0 ps c ->
  forall x, heap c x = cur h0 x (trace c).
Proof. exact fin_no_lost_update. Qed.
Print Assumptions C02_no_lost_update.

(* ... which for a cell that is only incremented is THE sum of all increments applied (integer amounts) *)
Theorem C02_no_lost_update_sum_partial : forall mp bodies h0 tb0 n0 ps,
  wf_world mp bodies ps -> forall c, reach bodies h0 tb0 n0 ps c ->
  forall x, only_incs x (trace c) -> heap c x = (h0 x + sum_incs x (trace c))%Z.
Proof. exact fin_sum. Qed.
Print Assumptions C02_no_lost_update_sum_partial.

(* labels(): with no remove()/clear() on the table, two successful look-ups of one key return one child id;
   insertions into a child table only ever happen for an absent key (one entry per key) *)
Theorem C02_labels_shared : forall mp bodies h0 tb0 n0 ps,
  wf_world mp bodies ps -> forall c, reach bodies h0 tb0 n0 ps c ->
  forall tb k tr2 tr1 tr0 t1 t2 c1 c2,
  trace c = tr2 ++ EvLookup t2 tb k (Some c2) :: tr1 ++ EvLookup t1 tb k (Some c1) :: tr0 ->
  create_only (lib_disc mp) tb = true -> no_removal tb (trace c) -> c1 = c2.
Proof. exact fin_labels. Qed.
Print Assumptions C02_labels_shared.

Theorem C02_labels_created_once : forall mp bodies h0 tb0 n0 ps,
  wf_world mp bodies ps -> forall c, reach bodies h0 tb0 n0 ps c ->
  ins_fresh (lib_disc mp) tb0 (trace c) /\ forall tb, tabs c tb = tab_hist tb0 tb (trace c).
Proof. exact fin_ins_fresh. Qed.
Print Assumptions C02_labels_created_once.

(* no deadlock: whenever some thread has not finished, some thread can take a step *)
Theorem C02_deadlock_free : forall mp bodies h0 tb0 n0 ps,
  wf_world mp bodies ps -> forall c, reach bodies h0 tb0 n0 ps c ->
  (exists t, code (thr c t) <> []) -> exists t, step bodies t c <> None.
Proof. exact fin_deadlock_free. Qed.
Print Assumptions C02_deadlock_free.

(* every value a (collect's) load reports is the value the cell held at that moment *)
Theorem C02_collect_sees_held_value : forall mp bodies h0 tb0 n0 ps,
  wf_world mp bodies ps -> forall c, reach bodies h0 tb0 n0 ps c -> loads_ok h0 (trace c).
Proof. exact fin_loads. Qed.
Print Assumptions C02_collect_sees_held_value.

(* a counter cell (only non-negative increments) is never seen to decrease: an older load reports at most a newer one *)
Theorem C02_counter_monotone : forall mp bodies h0 tb0 n0 ps,
  wf_world mp bodies ps -> forall c, reach bodies h0 tb0 n0 ps c ->
  forall x tr2 tr1 tr0 t1 t2 v1 v2,
  trace c = tr2 ++ EvLoad t2 x v2 :: tr1 ++ EvLoad t1 x v1 :: tr0 ->
  only_incs x (trace c) -> nonneg_incs x (trace c) -> (v1 <= v2)%Z.
Proof. exact fin_monotone. Qed.
Print Assumptions C02_counter_monotone.

(* re-entrant collect: every callout (collector.collect() called by registry.collect(), by _multi_samples or by a
   restricted registry) is made while the calling thread holds NO lock; so a collector that registers, unregisters
   or looks up in the same registry is not blocked by its caller, and C02_deadlock_free covers its body *)
Theorem C02_reentrant_collect : forall mp bodies h0 tb0 n0 ps,
  wf_world mp bodies ps -> forall c, reach bodies h0 tb0 n0 ps c ->
  forall t cid hl, In (EvCall t cid hl) (trace c) -> hl = [].
Proof. exact fin_calls. Qed.
Print Assumptions C02_reentrant_collect.

(* the faithful model of an increment WITHOUT the mutex loses an update under some schedule (why the check matters) *)
Theorem C02_unlocked_inc_refuted :
  exists s, let c := exec (fun _ => []) s
                      (init_config (fun _ => 0%Z) (fun _ => []) 0
                         [[Load 10 (SLoc 1); Store (SLoc 1) (EAdd 10 1)]; [Load 10 (SLoc 1); Store (SLoc 1) (EAdd 10 2)]]) in
  heap c (LStat 1) <> (0 + sum_incs (LStat 1) (trace c))%Z.
Proof. exists [0; 1; 0; 1]%nat. vm_compute. discriminate. Qed.
Print Assumptions C02_unlocked_inc_refuted.

(* non-vacuity: two threads incrementing one counter and a labelled child, the library's own programs, are a
   disciplined world, and after the schedule below the counter holds 3 *)
Example C02_example :
  let ps := [compile_thread false [OInc (SLoc 1) 1; OLabelsInc 2 0 1 0 5]; compile_thread false [OInc (SLoc 1) 2; OLabelsInc 2 0 1 0 7]] in
  wf_world false (fun _ => []) ps /\
  heap (exec (fun _ => []) (repeat 0%nat 5 ++ repeat 1%nat 40 ++ repeat 0%nat 40)
          (init_config (fun _ => 0%Z) (fun _ => []) 0 ps)) (LStat 1) = 3%Z.
Proof.
  split; [|vm_compute; reflexivity].
  split; [|intro b; exists 1%nat; reflexivity].
  repeat constructor; apply wf_prog_disciplined; vm_compute; reflexivity.
Qed.

(* ===================================================================================================================
   Final state against the PROGRAM TEXT, termination, widened discipline (proofs/ConcFinalProofs.v)
   =================================================================================================================== *)
From V Require Import proofs.ConcFinalProofs proofs.ConcLabelProofs.

(* (3) the discipline theorem without the one-value-object restriction: labels()/labels().inc() for children with ANY
   number nc of value objects (Summary: 2, Histogram: 1 + buckets) and any field j, in both back-ends; value operations
   on a child held in a register below the program's register base (what collector bodies do) *)
Theorem C02_operations_disciplined : forall mp ops,
  Forall (simple_op_w 10) ops -> lib_disciplined mp (compile_thread mp ops).
Proof. exact (fun mp ops => compile_disciplined_w mp ops 10). Qed.
Print Assumptions C02_operations_disciplined.

Theorem C02_bodies_disciplined : forall mp ops,
  Forall (simple_op_w 6) ops -> lib_disciplined mp (compile_body mp ops).
Proof. exact (fun mp ops => compile_disciplined_w mp ops 6). Qed.
Print Assumptions C02_bodies_disciplined.

Example C02_operations_disciplined_nonvacuous :
  Forall (simple_op_w 10) [OLabelsInc 7 3 2 1 5; OLabels 39 0 16; OInc (SLoc 3) 1; OGet (DLoc 3 0) true true; OCollect 100]
  /\ Forall (simple_op_w 6) [OGet (DLoc 3 0) true true; OMulti 2 101; OLookup 8]
  /\ ~ simple_op (OLabelsInc 7 3 2 1 5).
Proof. split; [repeat constructor|split; [repeat constructor|]]. intros [_ H]. discriminate. Qed.

(* (1) C02_final_sum, static cells (Counter / Gauge.inc values, the count and sum cells of a Summary, the sum and bucket
   cells of a Histogram): when every thread has finished, cell n holds its initial value plus the sum of ALL increments
   the operation lists ISSUE on it (total_issued_stat: the sum over all threads and all their operations OInc (SLoc n) a
   of a).  Hypotheses: no operation SETS cell n; collector / loop bodies do not store to cell n and their jumps stay
   inside them; no thread raised (a thread that raises - a duplicate register() - abandons its remaining operations). *)
Theorem C02_final_sum_static : forall mp bodies h0 tb0 n0 opss n,
  let ps := map (compile_thread mp) opss in
  wf_world mp bodies ps ->
  (forall b, nostore n (bodies b) /\ jumps_in (bodies b)) ->
  Forall (Forall (no_set n)) opss ->
  forall c, reach bodies h0 tb0 n0 ps c -> (forall t, code (thr c t) = []) ->
  (forall t, ~ In (EvExc t) (trace c)) ->
  heap c (LStat n) = (h0 (LStat n) + total_issued_stat n opss)%Z.
Proof. exact final_sum_static. Qed.
Print Assumptions C02_final_sum_static.

(* the same with hypotheses on the program text only: no register()/unregister() among the operations and no Raise in
   the bodies, so that no thread can raise *)
Theorem C02_final_sum_static_noraise : forall mp bodies h0 tb0 n0 opss n,
  let ps := map (compile_thread mp) opss in
  wf_world mp bodies ps ->
  (forall b, nostore n (bodies b) /\ jumps_in (bodies b) /\ noraise (bodies b)) ->
  Forall (Forall (fun o => no_set n o /\ nonraising o)) opss ->
  forall c, reach bodies h0 tb0 n0 ps c -> (forall t, code (thr c t) = []) ->
  heap c (LStat n) = (h0 (LStat n) + total_issued_stat n opss)%Z.
Proof. exact final_sum_static_noraise. Qed.
Print Assumptions C02_final_sum_static_noraise.

(* Summary.observe(v) is [OInc count 1; OInc sum v], Histogram.observe(v) is [OInc sum v; OInc bucket 1] (harness/c02.py,
   model_ops): the final count, sum and bucket cells are instances of the theorem above.  Non-vacuity: two threads, a
   counter (cell 1), a summary (cells 3 = count, 4 = sum) and a labelled two-value child; collector bodies that read;
   an interleaved schedule after which every thread has finished; the three cells hold the issued totals. *)
Example C02_final_sum_static_nonvacuous :
  let opss := [[OInc (SLoc 1) 1; OInc (SLoc 3) 1; OInc (SLoc 4) 5; OLabelsInc 2 0 2 1 5; OCollect 100];
               [OInc (SLoc 1) 2; OGet (SLoc 1) true false; OInc (SLoc 3) 1; OInc (SLoc 4) 7]] in
  let bodies := body_table [(100, compile_body false [OCallReg]); (1, compile_body false [OGet (SLoc 1) true true])] in
  let ps := map (compile_thread false) opss in
  let c := exec bodies (concat (repeat [0; 1]%nat 60)) (init_config (fun _ => 0%Z) (fun tb => if N.eqb tb 0 then [(1, 1)] else []) 0 ps) in
  wf_world false bodies ps /\
  (forall n, (n = 1 \/ n = 3 \/ n = 4) ->
     (forall b, nostore n (bodies b) /\ jumps_in (bodies b) /\ noraise (bodies b)) /\
     Forall (Forall (fun o => no_set n o /\ nonraising o)) opss) /\
  (forall t, code (thr c t) = []) /\
  In (EvCall 0 1 []) (trace c) /\
  (total_issued_stat 1 opss = 3 /\ total_issued_stat 3 opss = 2 /\ total_issued_stat 4 opss = 12)%Z /\
  (heap c (LStat 1) = 3 /\ heap c (LStat 3) = 2 /\ heap c (LStat 4) = 12)%Z.
Proof.
  cbv zeta. split; [|split; [|split; [|split; [|split]]]].
  - split.
    + repeat constructor; apply wf_prog_disciplined; vm_compute; reflexivity.
    + intro b. apply body_table_prop; [exists 1%nat; reflexivity|].
      repeat constructor; apply wf_prog_disciplined; vm_compute; reflexivity.
  - intros n Hn. split.
    + intro b. apply body_table_prop; [repeat split; constructor|].
      repeat constructor; simpl; auto; discriminate.
    + destruct Hn as [->|[->| ->]]; repeat constructor; simpl; auto; discriminate.
  - intro t. destruct t as [|[|t]]; vm_compute; reflexivity.
  - vm_compute. tauto.
  - vm_compute. auto.
  - vm_compute. auto.
Qed.

(* (2) C02_terminates - no call blocks forever.  For worlds whose thread programs contain no loop and no collector
   call (every value / labels / remove / clear / register / unregister operation: `straight`; the bodies are then never
   entered), with total_steps ps = twice the number of instructions of ps:
   (a) NO execution is infinite: every schedule performs at most total_steps ps steps (a scheduled thread that is
       finished or waits for a held lock does not step);
   (b) an execution that cannot be continued (no thread can step) has finished every thread - no deadlock, no call
       left blocked;
   (c) every FAIR schedule finishes: a schedule consisting of at least total_steps ps rounds, each round naming every
       thread at least once (round-robin is one), ends with every thread finished.
   Not covered by (a)-(c): programs with collect() / _multi_samples loops or collector calls; the model's loop runs
   once per entry of a table snapshot taken at run time and a collector body may call collectors again (a body
   [Callout itself] never finishes), so there is no bound from the program text alone; for those worlds
   C02_bounded_between_calls below is the strongest unconditional statement, together with C02_deadlock_free. *)
Theorem C02_terminates : forall mp bodies h0 tb0 n0 ps,
  wf_world mp bodies ps -> Forall straight ps ->
  let c0 := init_config h0 tb0 n0 ps in
  (forall s, (nsteps bodies s c0 <= total_steps ps)%nat) /\
  (forall c, reach bodies h0 tb0 n0 ps c -> (forall t, step bodies t c = None) -> forall t, code (thr c t) = []) /\
  (forall chunks, Forall (fun ch => forall t, (t < length ps)%nat -> In t ch) chunks ->
     (total_steps ps <= length chunks)%nat -> forall t, code (thr (exec bodies (concat chunks) c0) t) = []).
Proof.
  intros mp bodies h0 tb0 n0 ps Hw Hst c0. split; [|split].
  - exact (term_bound bodies h0 tb0 n0 ps Hst).
  - exact (term_complete mp bodies h0 tb0 n0 ps Hw).
  - exact (term_fair0 mp bodies h0 tb0 n0 ps Hw Hst).
Qed.
Print Assumptions C02_terminates.

(* the operation lists without collect / _multi_samples / restricted-registry lookup compile to straight programs *)
Theorem C02_straight_operations : forall mp ops, Forall callfree ops -> straight (compile_thread mp ops).
Proof. exact (fun mp ops => from_straight mp ops 10). Qed.
Print Assumptions C02_straight_operations.

(* every world, loops and collector calls included (no discipline needed): the number of steps of ANY schedule is at
   most total_steps ps plus (2L+1) for each loop / callout instruction executed, L bounding the length of the bodies.
   So an execution is infinite only if it executes infinitely many loop / callout instructions: lock waiting alone
   never prolongs an execution. *)
Theorem C02_bounded_between_calls : forall bodies L h0 tb0 n0 ps s,
  (forall b, (length (bodies b) <= L)%nat) ->
  let c0 := init_config h0 tb0 n0 ps in
  (nsteps bodies s c0 <= total_steps ps + (2 * L + 1) * ncalls bodies s c0)%nat.
Proof. exact bounded_between_calls. Qed.
Print Assumptions C02_bounded_between_calls.

(* non-vacuity: a two-thread world in both back-ends' worst case (multiprocess: labels() nests the store lock inside the
   parent lock), straight and disciplined; 106 steps bound; the round-robin schedule of 106 rounds finishes (46 steps, jumps skip code), and the
   schedule 0,1,1,1,1,1,1,1,1 shows thread 1 blocked on the store lock held by thread 0 (5 steps for 9 entries) *)
Example C02_terminates_nonvacuous :
  let opss := [[OInc (SLoc 1) 1; OLabelsInc 2 0 2 1 5; ORegister 7]; [OLabelsInc 2 0 2 0 1; OInc (SLoc 1) 2; ORemove 2 0]] in
  let ps := map (compile_thread true) opss in
  let c0 := init_config (fun _ => 0%Z) (fun _ => []) 0 ps in
  wf_world true (fun _ => []) ps /\ Forall straight ps /\ total_steps ps = 106%nat /\
  Forall (fun ch => forall t, (t < length ps)%nat -> In t ch) (repeat [0; 1]%nat 106) /\
  nsteps (fun _ => []) (concat (repeat [0; 1]%nat 106)) c0 = 46%nat /\
  nsteps (fun _ => []) (0 :: repeat 1 8)%nat c0 = 5%nat.
Proof.
  cbv zeta. split; [|split; [|split; [|split; [|split]]]].
  - split; [|intro b; exists 1%nat; reflexivity].
    repeat constructor; apply wf_prog_disciplined; vm_compute; reflexivity.
  - repeat constructor.
  - vm_compute. reflexivity.
  - apply Forall_forall. intros ch Hch. apply repeat_spec in Hch. subst ch. simpl.
    intros t Ht. destruct t as [|[|t]]; [auto|auto|lia].
  - vm_compute. reflexivity.
  - vm_compute. reflexivity.
Qed.

(* (1) C02_final_sum, labelled children (proofs/ConcLabelProofs.v).  TB >= 2 is the child table of a labelled parent, K a
   label-value key, J a field of the child (Counter / Gauge child: 0; Summary child: count, sum; Histogram child: sum,
   buckets).  When every thread has finished, the cell J of THE child that the table binds to K holds its initial value
   plus the sum of the amounts of ALL operations `labels(K).inc(a)` on field J that the operation lists issue
   (issuedL_ops TB K J ops = sum of a over the operations OLabelsInc TB K _ J a of ops).  By C02_labels_returned_child
   below that child is the one every labels(K) call of the execution returned.
   Required (lab_ok, quiet): value operations of the thread programs address static cells (a child is reached through
   labels()); labels() is used on child tables (>= 2); nothing is removed from table TB (remove()/clear() on OTHER tables
   is allowed and may run concurrently); collector / loop bodies do not store to child cells, do not insert into child
   tables, do not remove from TB, and their jumps stay inside them; the initial child tables have no shadowed entries,
   ids below the fresh-id counter n0 and no id bound twice (init_ok; children created before the threads start are
   allowed); no thread raised. *)
Theorem C02_final_sum_labelled : forall mp bodies h0 tb0 n0 TB K J cid opss,
  let ps := map (compile_thread mp) opss in
  2 <= TB ->
  (forall b, quiet TB (bodies b)) -> (forall b, jumps_in (bodies b)) ->
  Forall (Forall (lab_ok TB)) opss ->
  wf_world mp bodies ps -> init_ok tb0 n0 ->
  forall c, reach bodies h0 tb0 n0 ps c -> (forall t, code (thr c t) = []) ->
  (forall t, ~ In (EvExc t) (trace c)) ->
  d_find N.eqb (tabs c TB) K = Some cid ->
  heap c (LChild cid J) = (h0 (LChild cid J) + zsum (map (issuedL_ops TB K J) opss))%Z.
Proof.
  intros mp bodies h0 tb0 n0 TB K J cid opss ps H1 H2 H3 H4 H5 H6.
  exact (final_sum_labelled mp bodies h0 tb0 n0 TB K J cid H1 H2 H3 opss H4 H5 H6).
Qed.
Print Assumptions C02_final_sum_labelled.

(* the same with hypotheses on the program text only (no register()/unregister(), no Raise in the bodies) *)
Theorem C02_final_sum_labelled_noraise : forall mp bodies h0 tb0 n0 TB K J cid opss,
  let ps := map (compile_thread mp) opss in
  2 <= TB ->
  (forall b, quiet TB (bodies b) /\ jumps_in (bodies b) /\ noraise (bodies b)) ->
  Forall (Forall (fun o => lab_ok TB o /\ nonraising o)) opss ->
  wf_world mp bodies ps -> init_ok tb0 n0 ->
  forall c, reach bodies h0 tb0 n0 ps c -> (forall t, code (thr c t) = []) ->
  d_find N.eqb (tabs c TB) K = Some cid ->
  heap c (LChild cid J) = (h0 (LChild cid J) + zsum (map (issuedL_ops TB K J) opss))%Z.
Proof. exact final_sum_labelled_noraise. Qed.
Print Assumptions C02_final_sum_labelled_noraise.

(* every labels(K) look-up of the execution that found a child found the child of the final table: one shared child *)
Theorem C02_labels_returned_child : forall mp bodies h0 tb0 n0 TB K opss,
  let ps := map (compile_thread mp) opss in
  2 <= TB -> (forall b, quiet TB (bodies b)) -> (forall b, jumps_in (bodies b)) ->
  Forall (Forall (lab_ok TB)) opss -> wf_world mp bodies ps -> init_ok tb0 n0 ->
  forall c, reach bodies h0 tb0 n0 ps c ->
  forall cid, d_find N.eqb (tabs c TB) K = Some cid ->
  forall t id, In (EvLookup t TB K (Some id)) (trace c) -> id = cid.
Proof. exact labels_returns_final. Qed.
Print Assumptions C02_labels_returned_child.

(* non-vacuity (file-backed store: labels() nests the store lock): two threads create and increment the Summary-like
   children (2 value objects) of keys 0 and 1 of table 2 concurrently, one removes a pre-existing child of ANOTHER table,
   one runs collect(), whose collector 5 walks table 2 and reads every child; all hypotheses hold, every thread
   finishes, key 0 is bound to child 1 whose field 1 holds 5 + 7 = 12 and field 0 holds 1 *)
Example C02_final_sum_labelled_nonvacuous :
  let opss := [[OLabelsInc 2 0 2 1 5; OInc (SLoc 1) 1; OLabelsInc 2 1 2 1 9; OCollect 100];
               [OLabelsInc 2 0 2 1 7; ORemove 3 0; OLabelsInc 2 0 2 0 1]] in
  let bodies := body_table [(100, compile_body true [OCallReg]); (5, compile_body true [OMulti 2 101]);
                            (101, compile_body true [OGet (DLoc 3 1) true false])] in
  let tb0 : tbl -> list (key * N) := fun tb => if N.eqb tb 0 then [(5, 5)] else if N.eqb tb 3 then [(0, 0)] else [] in
  let ps := map (compile_thread true) opss in
  let c := exec bodies (concat (repeat [1; 0; 0]%nat 80)) (init_config (fun _ => 0%Z) tb0 1 ps) in
  (forall b, quiet 2 (bodies b) /\ jumps_in (bodies b) /\ noraise (bodies b)) /\
  Forall (Forall (fun o => lab_ok 2 o /\ nonraising o)) opss /\
  wf_world true bodies ps /\ init_ok tb0 1 /\
  (forall t, code (thr c t) = []) /\
  d_find N.eqb (tabs c 2) 0 = Some 1 /\
  In (EvLoad 0 (LChild 1 1) 12) (trace c) /\
  (zsum (map (issuedL_ops 2 0 1) opss) = 12%Z /\ zsum (map (issuedL_ops 2 0 0) opss) = 1%Z) /\
  (heap c (LChild 1 1) = 12%Z /\ heap c (LChild 1 0) = 1%Z).
Proof.
  cbv zeta. split; [|split; [|split; [|split; [|split; [|split; [|split; [|split]]]]]]].
  - intro b. apply body_table_prop; [repeat split; constructor|].
    repeat constructor; simpl; auto; try discriminate; lia.
  - repeat constructor; simpl; auto; lia.
  - split.
    + repeat constructor; apply wf_prog_disciplined; vm_compute; reflexivity.
    + intro b. apply body_table_prop; [exists 1%nat; reflexivity|].
      repeat constructor; apply wf_prog_disciplined; vm_compute; reflexivity.
  - intros tb Htb. destruct (N.eqb tb 0) eqn:E0; [apply N.eqb_eq in E0; lia|].
    destruct (N.eqb tb 3) eqn:E3.
    + apply N.eqb_eq in E3. subst tb. split.
      * intros k id [H|[]]. injection H as <- <-. split; [reflexivity|lia].
      * intros tb' k k' id Htb' [H|[]] H'. injection H as <- <-.
        destruct (N.eqb tb' 0) eqn:E0'; [apply N.eqb_eq in E0'; lia|].
        destruct (N.eqb tb' 3) eqn:E3'; [|destruct H'].
        apply N.eqb_eq in E3'. destruct H' as [H'|[]]. injection H' as <-. auto.
    + split; [intros k id []|intros tb' k k' id _ []].
  - intro t. destruct t as [|[|t]]; vm_compute; reflexivity.
  - vm_compute. reflexivity.
  - vm_compute. tauto.
  - vm_compute. auto.
  - vm_compute. auto.
Qed.

(* per-thread form of C02_final_sum (no hypothesis that NO thread raised): the cell is the initial value plus the sum
   over the threads of what each thread added, and every thread that finished without raising added exactly the sum of
   the increments its operation list issues - whatever the other threads did, raised or not.  (A thread that raised
   added the increments of the operations it completed before the raise.) *)
Theorem C02_final_sum_static_per_thread : forall mp bodies h0 tb0 n0 opss n,
  let ps := map (compile_thread mp) opss in
  wf_world mp bodies ps ->
  (forall b, nostore n (bodies b) /\ jumps_in (bodies b)) ->
  Forall (Forall (no_set n)) opss ->
  forall c, reach bodies h0 tb0 n0 ps c ->
  heap c (LStat n) = (h0 (LStat n) + zsum (map (fun t => sum_incs_t t (LStat n) (trace c)) (seq 0 (length opss))))%Z /\
  forall t, code (thr c t) = [] -> ~ In (EvExc t) (trace c) ->
            sum_incs_t t (LStat n) (trace c) = issued_stat_ops n (nth t opss []).
Proof. exact final_sum_static_per_thread. Qed.
Print Assumptions C02_final_sum_static_per_thread.

Theorem C02_final_sum_labelled_per_thread : forall mp bodies h0 tb0 n0 TB K J cid opss,
  let ps := map (compile_thread mp) opss in
  2 <= TB -> (forall b, quiet TB (bodies b)) -> (forall b, jumps_in (bodies b)) ->
  Forall (Forall (lab_ok TB)) opss -> wf_world mp bodies ps -> init_ok tb0 n0 ->
  forall c, reach bodies h0 tb0 n0 ps c -> d_find N.eqb (tabs c TB) K = Some cid ->
  heap c (LChild cid J) =
    (h0 (LChild cid J) + zsum (map (fun t => sum_incs_t t (LChild cid J) (trace c)) (seq 0 (length opss))))%Z /\
  forall t, code (thr c t) = [] -> ~ In (EvExc t) (trace c) ->
            sum_incs_t t (LChild cid J) (trace c) = issuedL_ops TB K J (nth t opss []).
Proof.
  intros mp bodies h0 tb0 n0 TB K J cid opss ps H1 H2 H3 H4 H5 H6.
  exact (labelled_per_thread mp bodies h0 tb0 n0 TB K J cid H1 H2 H3 opss H4 H5 H6).
Qed.
Print Assumptions C02_final_sum_labelled_per_thread.

(* non-vacuity: collector 7 is already registered, so thread 0 raises in register(7) and never issues its inc(10);
   thread 1 finishes normally: it added exactly 2 + 4, and the cell holds 1 + 6 *)
Example C02_final_sum_per_thread_nonvacuous :
  let opss := [[OInc (SLoc 1) 1; ORegister 7; OInc (SLoc 1) 10]; [OInc (SLoc 1) 2; OLabelsInc 2 0 1 0 3; OInc (SLoc 1) 4]] in
  let tb0 : tbl -> list (key * N) := fun tb => if N.eqb tb 1 then [(7, 7)] else if N.eqb tb 0 then [(7, 7)] else [] in
  let ps := map (compile_thread false) opss in
  let c := exec (fun _ => []) (concat (repeat [0; 1]%nat 60)) (init_config (fun _ => 0%Z) tb0 0 ps) in
  wf_world false (fun _ => []) ps /\ Forall (Forall (no_set 1)) opss /\
  (forall t, code (thr c t) = []) /\ In (EvExc 0) (trace c) /\ ~ In (EvExc 1) (trace c) /\
  sum_incs_t 1 (LStat 1) (trace c) = 6%Z /\ issued_stat_ops 1 (nth 1 opss []) = 6%Z /\
  heap c (LStat 1) = 7%Z /\ total_issued_stat 1 opss = 17%Z.
Proof.
  cbv zeta. split; [|split; [|split; [|split; [|split; [|split; [|split; [|split]]]]]]].
  - split; [|intro b; exists 1%nat; reflexivity].
    repeat constructor; apply wf_prog_disciplined; vm_compute; reflexivity.
  - repeat constructor.
  - intro t. destruct t as [|[|t]]; vm_compute; reflexivity.
  - vm_compute. tauto.
  - vm_compute. intro H. repeat (destruct H as [H|H]; [discriminate|]). exact H.
  - vm_compute. reflexivity.
  - vm_compute. reflexivity.
  - vm_compute. reflexivity.
  - vm_compute. reflexivity.
Qed.

(* why `child tables numbered below 40` cannot become `any table number`: the bound is the LOCK NUMBERING of
   model/Conc.v.  The parent lock of table tb is the static lock 10+tb; from tb = 40 on it has the number of a
   user-collector mutex (50+u), from tb = 90 on the number of the value mutex of static cell tb-90 (table 91 and cell 1
   share lock 101) and the rank of a value mutex, above the store lock: in the file-backed back-end labels() on table 90
   then FAILS the discipline check (parent lock, then store lock, is no longer an increasing order).  So the statement
   for arbitrary table numbers is false in this model; making it true means one lock constructor per kind of lock in
   model/Conc.v and in the harness protocol (a model change, not a proof).  Between 40 and 89 the check still passes but
   the parent lock aliases a user mutex, so the theorem is not stated there. *)
Example C02_discipline_numbering_limit :
  wf_prog (lib_disc true) (compile_thread true [OLabels 90 0 1]) = false /\
  wf_prog (lib_disc true) (compile_thread true [OLabels 89 0 1]) = true /\
  plock 91 = lk false (SLoc 1).
Proof. vm_compute. auto. Qed.

(* no call raises because of the interleaving: value operations, labels(), remove(), clear(), collect(), _multi_samples
   and restricted-registry look-ups contain no raising path at all, so in a world built from them (bodies likewise) no
   thread ever raises, under any schedule (no discipline needed).  register()/unregister() raise exactly on their
   duplicate / unknown-collector branch (C02_final_sum_per_thread_nonvacuous shows one). *)
Theorem C02_no_exception : forall mp bodies h0 tb0 n0 opss,
  (forall b, noraise (bodies b)) -> Forall (Forall nonraising) opss ->
  forall c, reach bodies h0 tb0 n0 (map (compile_thread mp) opss) c -> forall t, ~ In (EvExc t) (trace c).
Proof. exact no_exception. Qed.
Print Assumptions C02_no_exception.

Example C02_no_exception_nonvacuous :
  let opss := [[OLabelsInc 2 0 1 0 5; ORemove 2 0; OCollect 100]; [OLabelsInc 2 0 1 0 7; OClear 2; OLabels 2 0 1]] in
  let bodies := body_table [(100, compile_body false [OCallReg]); (5, compile_body false [OMulti 2 101]);
                            (101, compile_body false [OGet (DLoc 3 0) true false])] in
  (forall b, noraise (bodies b)) /\ Forall (Forall nonraising) opss.
Proof.
  cbv zeta. split; [|repeat constructor].
  intro b. apply body_table_prop; [constructor|]. repeat constructor; discriminate.
Qed.

(* an update whose AMOUNT cannot be added to the value (inc / observe of a str, None, a Decimal ...) raises by design,
   inside the critical section of the value (`with lock: self._value += amount`, OIncFail x true: the cell is read, the
   addition raises, the unwinding `with` releases the mutex) or before it (OIncFail x false).  Its program passes the
   discipline check (simple_op_w, so C02_operations_disciplined, C02_mutual_exclusion, C02_no_lost_update and
   C02_deadlock_free cover every world that contains it: the series stays usable by the other threads).  Non-vacuity: a
   thread observes 3 and then fails on cell 4, another thread adds 5 to the same cell, interleaved so that the second
   thread waits for the mutex while the first one is failing: both finish, the first one raised, the mutex of the cell
   is free and the cell holds the accepted increments *)
Example C02_failed_update_nonvacuous :
  let opss := [[OInc (SLoc 4) 3; OIncFail (SLoc 4) true]; [OInc (SLoc 4) 5; OIncFail (SLoc 3) false]] in
  let ps := map (compile_thread false) opss in
  let c := exec (fun _ => []) (repeat 0%nat 6 ++ repeat 1%nat 2 ++ repeat 0%nat 6 ++ repeat 1%nat 12)
             (init_config (fun _ => 0%Z) (fun _ => []) 0 ps) in
  Forall (Forall (simple_op_w 10)) opss /\ wf_world false (fun _ => []) ps /\
  heap c (LStat 4) = 8%Z /\ code (thr c 0%nat) = [] /\ code (thr c 1%nat) = [] /\
  In (EvExc 0%nat) (trace c) /\ In (EvExc 1%nat) (trace c) /\ locks c (KStat 104) = None /\
  ~ Forall (Forall nonraising) opss.
Proof.
  cbv zeta. split; [repeat constructor|]. split.
  { split; [|intro b; exists 1%nat; reflexivity].
    repeat constructor; apply wf_prog_disciplined; vm_compute; reflexivity. }
  split; [vm_compute; reflexivity|]. split; [vm_compute; reflexivity|]. split; [vm_compute; reflexivity|].
  split; [vm_compute; tauto|]. split; [vm_compute; tauto|]. split; [vm_compute; reflexivity|].
  intro H. inversion H as [|? ? H1 _]; subst. inversion H1 as [|? ? _ H2]; subst. inversion H2 as [|? ? H3 _]; subst. exact H3.
Qed.

(* C02_terminates for worlds WITH collect() / _multi_samples loops and collector calls (every disciplined world):
   a fair schedule (rounds naming every thread) finishes every thread as soon as its number of rounds reaches
   total_steps ps plus (2L+1) for each loop / callout instruction it executes (L bounds the length of the bodies).
   So a fair execution in which the collectors are entered finitely often finishes; no call stays blocked on a lock.
   (That the collectors ARE entered finitely often is not derivable from the program text in this model: the loop count
   is the size of a run-time snapshot and a collector body may call collectors again.) *)
Theorem C02_fair_finishes_with_calls : forall mp bodies h0 tb0 n0 ps L,
  wf_world mp bodies ps -> (forall b, (length (bodies b) <= L)%nat) ->
  let c0 := init_config h0 tb0 n0 ps in
  forall chunks, Forall (fun ch => forall t, (t < length ps)%nat -> In t ch) chunks ->
  (total_steps ps + (2 * L + 1) * ncalls bodies (concat chunks) c0 <= length chunks)%nat ->
  forall t, code (thr (exec bodies (concat chunks) c0) t) = [].
Proof.
  intros mp bodies h0 tb0 n0 ps L Hw HL c0.
  exact (term_fair_calls0 mp bodies h0 tb0 n0 ps L Hw HL).
Qed.
Print Assumptions C02_fair_finishes_with_calls.

(* non-vacuity: the world of C02_final_sum_labelled_nonvacuous (collect() calling a collector that walks a child table):
   bodies of length <= 4, 156 + 9 * 6 <= 300 rounds *)
Example C02_fair_finishes_with_calls_nonvacuous :
  let opss := [[OLabelsInc 2 0 2 1 5; OInc (SLoc 1) 1; OLabelsInc 2 1 2 1 9; OCollect 100];
               [OLabelsInc 2 0 2 1 7; ORemove 3 0; OLabelsInc 2 0 2 0 1]] in
  let bodies := body_table [(100, compile_body true [OCallReg]); (5, compile_body true [OMulti 2 101]);
                            (101, compile_body true [OGet (DLoc 3 1) true false])] in
  let tb0 : tbl -> list (key * N) := fun tb => if N.eqb tb 0 then [(5, 5)] else if N.eqb tb 3 then [(0, 0)] else [] in
  let ps := map (compile_thread true) opss in
  let c0 := init_config (fun _ => 0%Z) tb0 1 ps in
  let chunks := repeat [1; 0]%nat 300 in
  wf_world true bodies ps /\ (forall b, (length (bodies b) <= 4)%nat) /\
  Forall (fun ch => forall t, (t < length ps)%nat -> In t ch) chunks /\
  ncalls bodies (concat chunks) c0 = 6%nat /\
  (total_steps ps + (2 * 4 + 1) * ncalls bodies (concat chunks) c0 <= length chunks)%nat.
Proof.
  cbv zeta. split; [|split; [|split; [|split]]].
  - split.
    + repeat constructor; apply wf_prog_disciplined; vm_compute; reflexivity.
    + intro b. apply body_table_prop; [exists 1%nat; reflexivity|].
      repeat constructor; apply wf_prog_disciplined; vm_compute; reflexivity.
  - intro b. apply body_table_prop; [simpl; lia|]. repeat constructor; vm_compute; lia.
  - apply Forall_forall. intros ch Hch. apply repeat_spec in Hch. subst ch. simpl.
    intros t Ht. destruct t as [|[|t]]; [auto|auto|lia].
  - vm_compute. reflexivity.
  - apply Nat.leb_le. vm_compute. reflexivity.
Qed.

(* ===================================================================================================================
   Metric construction on a shared registry (model/Conc.v: construct_prog, register_names_prog, unregister_names_prog)
   OConstruct c ks nc = MetricWrapperBase.__init__ with a registry: the nc value objects are allocated first (each takes
   the store lock once in the file-backed back-end; a labelled parent allocates none) and the finished metric is then
   published by registry.register(self), which records EVERY name ks the metric describes (Counter: x, x_total,
   x_created; Histogram: five names) in one critical section after checking each for a duplicate.
   OUnregisterN c ks = registry.unregister of such a collector: every recorded name is released, then the collector.
   Both are in the verified class (C02_operations_disciplined / C02_bodies_disciplined hold for them with NO restriction
   on c, ks, nc), so every theorem above that quantifies over wf_world (mutual exclusion, no lost update, deadlock
   freedom, callouts without locks, loads see held values) covers programs that construct metrics while other threads
   collect, register or unregister; they are loop-free (C02_straight_operations), so C02_terminates covers them; they
   never store to a value cell, so the final-sum theorems hold unchanged in their presence.
   What the model cannot express is a metric that is published BEFORE it is built (the model's cells always exist):
   that the Python allocates before it publishes is checked on the implementation by the direct oracle of
   harness/c02.py (a concurrent collect of a half-built metric raises) and, in the file-backed back-end, by the trace
   conformance (the store-lock sections of the allocation precede the registry section, construct_prog_order). *)
Theorem C02_construct_disciplined : forall mp c ks nc ops,
  Forall (simple_op_w 10) ops ->
  lib_disciplined mp (compile_thread mp (OConstruct c ks nc :: OUnregisterN c ks :: ops)).
Proof.
  intros mp c ks nc ops H. apply (compile_disciplined_w mp _ 10).
  constructor; [exact I|]. constructor; [exact I|]. exact H.
Qed.
Print Assumptions C02_construct_disciplined.

(* the constructor publishes last: its program is the allocation (lock operations only) followed by the registration *)
Theorem C02_construct_prog_order : forall mp rb c ks nc,
  construct_prog mp rb c ks nc = ctor_prog mp nc ++ register_names_prog rb c ks /\ lockonly (ctor_prog mp nc).
Proof. intros. split; [reflexivity|apply ctor_lockonly]. Qed.
Print Assumptions C02_construct_prog_order.

(* non-vacuity (file-backed back-end): thread 0 constructs a histogram (5 names, 4 value objects) and unregisters it,
   thread 1 constructs a labelled counter (3 names, no value object) and increments a counter, thread 2 collects; the
   world is disciplined, straight apart from the collect, nobody raises, the round-robin schedule finishes every
   thread, the collect called collector 21 (registered by thread 1 meanwhile), the final tables hold exactly the names
   of collector 21, and the counter holds its increments *)
Example C02_construct_nonvacuous :
  let opss := [[OConstruct 20 [20; 1020; 2020; 3020; 4020] 4; OUnregisterN 20 [20; 1020; 2020; 3020; 4020]];
               [OConstruct 21 [21; 1021; 2021] 0; OInc (SLoc 1) 5];
               [OInc (SLoc 1) 2; OCollect 100]] in
  let bodies := body_table [(100, compile_body true [OCallReg]); (20, compile_body true [OGet (SLoc 200) true true]);
                            (21, compile_body true [OMulti 4 101]); (101, compile_body true [OGet (DLoc 3 0) true true])] in
  let ps := map (compile_thread true) opss in
  let c := exec bodies (concat (repeat [0; 1; 2]%nat 80)) (init_config (fun _ => 0%Z) (fun _ => []) 0 ps) in
  wf_world true bodies ps /\
  (forall t, code (thr c t) = []) /\ (forall t, ~ In (EvExc t) (trace c)) /\
  In (EvCall 2 21 []) (trace c) /\
  tabs c RC = [(21, 21)] /\ tabs c RN = [(21, 21); (1021, 21); (2021, 21)] /\
  heap c (LStat 1) = 7%Z /\ total_issued_stat 1 opss = 7%Z.
Proof.
  cbv zeta. split; [|split; [|split; [|split; [|split; [|split; [|split]]]]]].
  - split.
    + repeat constructor; apply wf_prog_disciplined; vm_compute; reflexivity.
    + intro b. apply body_table_prop; [exists 1%nat; reflexivity|].
      repeat constructor; apply wf_prog_disciplined; vm_compute; reflexivity.
  - intro t. destruct t as [|[|[|t]]]; vm_compute; reflexivity.
  - intro t. vm_compute. intro H. repeat (destruct H as [H|H]; [discriminate|]). exact H.
  - vm_compute. tauto.
  - vm_compute. reflexivity.
  - vm_compute. reflexivity.
  - vm_compute. reflexivity.
  - vm_compute. reflexivity.
Qed.
