(* C02 - No lost update, error or deadlock under any thread interleaving.  PARTIAL by design (DESIGN.md 7/C02).
   Statements only; every proof is `exact <lemma>` (proofs/ConcProofs.v).  Model: model/Conc.v, an interleaving
   semantics over value cells, child/collector tables and locks; each library operation is a fixed instruction list
   (compile_op) written against values.py / metrics.py / registry.py.

   Everything below holds for EVERY number of threads, every list of thread programs `ps` and every table of
   collector/loop bodies that pass the boolean lock-discipline check `wf` (wf_world), every initial state and EVERY
   schedule `s` (reach = exec along some schedule from the initial configuration).
   What is trusted and not proved (the runtime): one bytecode / one built-in dict operation is atomic (GIL),
   threading.Lock is a mutex, amounts are integers (Z): for binary64 amounts that are not integers the cell is the
   fold in application order (C02_no_lost_update), not THE sum.
   Missing for full strength (hence _partial): the link "every issued increment has been applied when all threads have
   finished" is stated on the trace (sum of the increments APPLIED), not on the program text; the tie of the model
   programs to the Python is the trace-conformance check of harness/c02.py, i.e. differential testing. *)
From V Require Import lib.PyBase model.Conc proofs.ConcProofs.
Open Scope N_scope.

(* the programs of the library's operations pass the discipline check, for all parameters (static cells; child tables
   numbered below 40; children with one value object, i.e. Counter/Gauge children) *)
Theorem C02_operations_disciplined_partial : forall mp ops,
  Forall simple_op ops -> lib_disciplined mp (compile_thread mp ops).
Proof. exact (fun mp ops => compile_disciplined mp ops 10). Qed.
Print Assumptions C02_operations_disciplined_partial.

(* lock discipline: in every reachable configuration a lock is held by at most one thread *)
Theorem C02_mutual_exclusion : forall mp bodies h0 tb0 n0 ps,
  wf_world mp bodies ps -> forall c, reach bodies h0 tb0 n0 ps c ->
  forall l t t', In l (held (thr c t)) -> In l (held (thr c t')) -> t = t'.
Proof. exact fin_mutex. Qed.
Print Assumptions C02_mutual_exclusion.

(* the cell invariant: every cell equals the fold of all updates applied to it, in the order they were applied *)
Theorem C02_no_lost_update : forall mp bodies h0 tb0 n0 ps,
  wf_world mp bodies ps -> forall c, reach bodies h0 tb0 n0 ps c ->
  forall x, heap c x = cur h0 x (trace c).
Proof. exact fin_no_lost_update. Qed.
Print Assumptions C02_no_lost_update.

(* ... which for a cell that is only incremented is THE sum of all increments applied (integer amounts) *)
Theorem C02_no_lost_update_sum_partial : forall mp bodies h0 tb0 n0 ps,
  wf_world mp bodies ps -> forall c, reach bodies h0 tb0 n0 ps c ->
  forall x, only_incs x (trace c) -> heap c x = (h0 x + sum_incs x (trace c))%Z.
Proof. exact fin_sum. Qed.
Print Assumptions C02_no_lost_update_sum_partial.

(* labels(): with no remove()/clear() on the table, two successful look-ups of one key return one child id;
   insertions into a child table only ever happen for an absent key (one entry per key) *)
Theorem C02_labels_shared : forall mp bodies h0 tb0 n0 ps,
  wf_world mp bodies ps -> forall c, reach bodies h0 tb0 n0 ps c ->
  forall tb k tr2 tr1 tr0 t1 t2 c1 c2,
  trace c = tr2 ++ EvLookup t2 tb k (Some c2) :: tr1 ++ EvLookup t1 tb k (Some c1) :: tr0 ->
  create_only (lib_disc mp) tb = true -> no_removal tb (trace c) -> c1 = c2.
Proof. exact fin_labels. Qed.
Print Assumptions C02_labels_shared.

Theorem C02_labels_created_once : forall mp bodies h0 tb0 n0 ps,
  wf_world mp bodies ps -> forall c, reach bodies h0 tb0 n0 ps c ->
  ins_fresh (lib_disc mp) tb0 (trace c) /\ forall tb, tabs c tb = tab_hist tb0 tb (trace c).
Proof. exact fin_ins_fresh. Qed.
Print Assumptions C02_labels_created_once.

(* no deadlock: whenever some thread has not finished, some thread can take a step *)
Theorem C02_deadlock_free : forall mp bodies h0 tb0 n0 ps,
  wf_world mp bodies ps -> forall c, reach bodies h0 tb0 n0 ps c ->
  (exists t, code (thr c t) <> []) -> exists t, step bodies t c <> None.
Proof. exact fin_deadlock_free. Qed.
Print Assumptions C02_deadlock_free.

(* every value a (collect's) load reports is the value the cell held at that moment *)
Theorem C02_collect_sees_held_value : forall mp bodies h0 tb0 n0 ps,
  wf_world mp bodies ps -> forall c, reach bodies h0 tb0 n0 ps c -> loads_ok h0 (trace c).
Proof. exact fin_loads. Qed.
Print Assumptions C02_collect_sees_held_value.

(* a counter cell (only non-negative increments) is never seen to decrease: an older load reports at most a newer one *)
Theorem C02_counter_monotone : forall mp bodies h0 tb0 n0 ps,
  wf_world mp bodies ps -> forall c, reach bodies h0 tb0 n0 ps c ->
  forall x tr2 tr1 tr0 t1 t2 v1 v2,
  trace c = tr2 ++ EvLoad t2 x v2 :: tr1 ++ EvLoad t1 x v1 :: tr0 ->
  only_incs x (trace c) -> nonneg_incs x (trace c) -> (v1 <= v2)%Z.
Proof. exact fin_monotone. Qed.
Print Assumptions C02_counter_monotone.

(* re-entrant collect: every callout (collector.collect() called by registry.collect(), by _multi_samples or by a
   restricted registry) is made while the calling thread holds NO lock; so a collector that registers, unregisters
   or looks up in the same registry is not blocked by its caller, and C02_deadlock_free covers its body *)
Theorem C02_reentrant_collect : forall mp bodies h0 tb0 n0 ps,
  wf_world mp bodies ps -> forall c, reach bodies h0 tb0 n0 ps c ->
  forall t cid hl, In (EvCall t cid hl) (trace c) -> hl = [].
Proof. exact fin_calls. Qed.
Print Assumptions C02_reentrant_collect.

(* the faithful model of an increment WITHOUT the mutex loses an update under some schedule (why the check matters) *)
Theorem C02_unlocked_inc_refuted :
  exists s, let c := exec (fun _ => []) s
                      (init_config (fun _ => 0%Z) (fun _ => []) 0
                         [[Load 10 (SLoc 1); Store (SLoc 1) (EAdd 10 1)]; [Load 10 (SLoc 1); Store (SLoc 1) (EAdd 10 2)]]) in
  heap c (LStat 1) <> (0 + sum_incs (LStat 1) (trace c))%Z.
Proof. exists [0; 1; 0; 1]%nat. vm_compute. discriminate. Qed.
Print Assumptions C02_unlocked_inc_refuted.

(* non-vacuity: two threads incrementing one counter and a labelled child, the library's own programs, are a
   disciplined world, and after the schedule below the counter holds 3 *)
Example C02_example :
  let ps := [compile_thread false [OInc (SLoc 1) 1; OLabelsInc 2 0 1 0 5]; compile_thread false [OInc (SLoc 1) 2; OLabelsInc 2 0 1 0 7]] in
  wf_world false (fun _ => []) ps /\
  heap (exec (fun _ => []) (repeat 0%nat 5 ++ repeat 1%nat 40 ++ repeat 0%nat 40)
          (init_config (fun _ => 0%Z) (fun _ => []) 0 ps)) (LStat 1) = 3%Z.
Proof.
  split; [|vm_compute; reflexivity].
  split; [|intro b; exists 1%nat; reflexivity].
  repeat constructor; apply wf_prog_disciplined; vm_compute; reflexivity.
Qed.
