(* C19 - Pushgateway requests encode job and grouping key losslessly.
   Statements only; every proof is `exact <lemma>` (proofs/GatewayProofs.v).  Model: model/Gateway.v.
     url_of / request_of            the library WITH fixes/C19-space-as-percent20.diff (quote(v, safe=''): space -> %20)
     url_of_orig / request_of_orig  the pinned source (quote_plus: space -> '+')
     pg_decode_text p base url      the Pushgateway's reading of a request URL below `base`; p = false is Go's path
                                    un-escaping ('+' is a plus: the real gateway), p = true is form un-escaping
   Strings are lists of code points, byte strings lists of N below 256.  No section hypotheses: UTF-8, percent-encoding,
   URL-safe base64 and sorting are all defined and proved here.  Outside the model (harness TRUSTED): urlparse's scheme
   detection (the boolean has_scheme), str() of non-string values, generate_latest.                                    *)
From V Require Import lib.PyBase model.Gateway proofs.GatewayProofs.
From Coq Require Import Permutation Sorted.
Open Scope N_scope.

(* --- the three codecs, for ALL inputs ------------------------------------------------------------------------- *)

(* str.encode('utf-8') is inverted by UTF-8 decoding and yields bytes *)
Theorem C19_utf8_inverse : forall s bs, utf8 s = Ok bs ->
  utf8_decode bs = Ok s /\ Forall (fun b => b < 256) bs.
Proof. exact (fun s bs H => conj (utf8_roundtrip s bs H) (utf8_bytes s bs H)). Qed.
Print Assumptions C19_utf8_inverse.

(* it succeeds exactly on sequences of Unicode scalar values, and otherwise raises ValueError (UnicodeEncodeError) *)
Theorem C19_utf8_total : forall s,
  (Forall (fun c => c < 55296 \/ (57344 <= c /\ c < 1114112)) s <-> exists bs, utf8 s = Ok bs) /\ only_VE (utf8 s).
Proof. exact (fun s => conj (utf8_total s) (utf8_only_VE s)). Qed.
Print Assumptions C19_utf8_total.

(* URL-safe base64 with padding, read the Pushgateway's way (trim '=', raw decode): decode . encode = id on all bytes *)
Theorem C19_base64_inverse : forall bs, Forall (fun b => b < 256) bs -> b64_decode (b64_encode bs) = Ok bs.
Proof. exact b64_decode_encode. Qed.
Print Assumptions C19_base64_inverse.

(* quote(v, safe=''): decode . encode = id on all bytes, under the path-style AND the form-style decoder *)
Theorem C19_percent_inverse : forall p bs, Forall (fun b => b < 256) bs -> pct_decode p (quote_bytes bs) = Ok bs.
Proof. exact pct_decode_quote. Qed.
Print Assumptions C19_percent_inverse.

(* quote_plus (pinned source): inverse under the form-style decoder on all bytes; under the path-style decoder only
   in the absence of a space *)
Theorem C19_percent_inverse_orig : forall p bs, Forall (fun b => b < 256) bs -> (p = true \/ ~ In SPACE bs) ->
  pct_decode p (quote_plus_bytes bs) = Ok bs.
Proof. exact pct_decode_quote_plus. Qed.
Print Assumptions C19_percent_inverse_orig.

(* --- the URL ---------------------------------------------------------------------------------------------------- *)

(* full round trip, text level: for every gateway base, job and grouping key with legacy label names, whichever of
   the two un-escaping rules the gateway applies, the URL reads back as the job followed by the sorted labels *)
Theorem C19_roundtrip : forall p base job gk u,
  url_of base job gk = Ok u -> Forall (fun kv => legacy_name (fst kv) = true) gk ->
  pg_decode_text p base u = Ok ((JOB, job) :: sort_items gk).
Proof. exact roundtrip. Qed.
Print Assumptions C19_roundtrip.

(* the same at byte level (what the Go side really holds): the UTF-8 bytes of the job and of every value *)
Theorem C19_roundtrip_bytes : forall p base job gk u,
  url_of base job gk = Ok u -> Forall (fun kv => legacy_name (fst kv) = true) gk ->
  exists jb bl, utf8 job = Ok jb /\ utf8_values (sort_items gk) = Ok bl /\ pg_decode p base u = Ok ((JOB, jb) :: bl).
Proof. exact roundtrip_b. Qed.
Print Assumptions C19_roundtrip_bytes.

(* the same when the rules are applied in the order Go applies them: net/http un-escapes the WHOLE path first
   (path rules), the router then splits it on '/', plain values are taken as they stand and an empty segment does not
   route.  (This is where a %2F would be fatal, and why values with '/' travel as base64.) *)
Theorem C19_roundtrip_go_order : forall base job gk u,
  url_of base job gk = Ok u -> Forall (fun kv => legacy_name (fst kv) = true) gk ->
  exists jb bl, utf8 job = Ok jb /\ utf8_values (sort_items gk) = Ok bl /\ pg_decode_go base u = Ok ((JOB, jb) :: bl).
Proof. exact roundtrip_go. Qed.
Print Assumptions C19_roundtrip_go_order.

(* the request path consists only of characters that stand for themselves in an HTTP request path: unreserved or one
   of / % = @ - never a raw '?', '#', space, line break, '+' or non-ASCII character that a server would cut at or reject *)
Theorem C19_url_path_chars : forall base job gk u,
  url_of base job gk = Ok u -> Forall (fun kv => legacy_name (fst kv) = true) gk ->
  exists path, u = base ++ path /\ path_ok path.
Proof. exact url_path_chars. Qed.
Print Assumptions C19_url_path_chars.

(* "sorted order" means: a permutation of the given items, ascending by key in code-point order *)
Theorem C19_sorted : forall gk,
  Permutation gk (sort_items gk) /\ Sorted (fun a b => str_ltb (fst b) (fst a) = false) (sort_items gk).
Proof. exact (fun gk => conj (sort_items_perm gk) (sort_items_sorted_lt gk)). Qed.
Print Assumptions C19_sorted.

(* and it is THE sorted order: any arrangement of a dict's items (distinct keys) ascending by key - the result of
   Python's sorted(), whatever its algorithm - is sort_items *)
Theorem C19_sorted_unique : forall gk l,
  NoDup (map fst gk) -> Permutation gk l -> Sorted (fun a b => str_ltb (fst b) (fst a) = false) l -> l = sort_items gk.
Proof. exact sort_items_unique. Qed.
Print Assumptions C19_sorted_unique.

(* the encoder is total on Unicode text and fails with ValueError only *)
Theorem C19_encoder_total : forall base job gk,
  (Forall (fun c => c < 55296 \/ (57344 <= c /\ c < 1114112)) job ->
   Forall (fun kv => Forall (fun c => c < 55296 \/ (57344 <= c /\ c < 1114112)) (snd kv)) gk ->
   exists u, url_of base job gk = Ok u)
  /\ only_VE (url_of base job gk).
Proof. exact (fun base job gk => conj (url_total quote_bytes base job gk) (url_only_VE quote_bytes base job gk)). Qed.
Print Assumptions C19_encoder_total.

(* distinct inputs give distinct URLs: equal URLs force the same job and the same grouping key (as a dict) *)
Theorem C19_injective : forall base j1 g1 j2 g2 u,
  url_of base j1 g1 = Ok u -> url_of base j2 g2 = Ok u ->
  Forall (fun kv => legacy_name (fst kv) = true) g1 -> Forall (fun kv => legacy_name (fst kv) = true) g2 ->
  j1 = j2 /\ sort_items g1 = sort_items g2 /\ Permutation g1 g2.
Proof. exact injective. Qed.
Print Assumptions C19_injective.

(* --- the three public functions ----------------------------------------------------------------------------------- *)

(* push = PUT, pushadd = POST, delete = DELETE; the body is the exposition `expo` of the given registry - whatever
   byte string that is, the empty one included - except for delete, where it is empty; the text content type; the
   caller's timeout untouched; the URL is url_of on the normalised gateway *)
Theorem C19_method_body_headers : forall (T : Type) a hs gw job gk expo (t : T) r,
  request_of a hs gw job gk expo t = Ok r ->
  url_of (gateway_base hs gw) job gk = Ok (rq_url r)
  /\ rq_method r = match a with Push => s2l "PUT" | PushAdd => s2l "POST" | Delete => s2l "DELETE" end
  /\ rq_body r = match a with Delete => [] | _ => expo end
  /\ rq_headers r = [(s2l "Content-Type", s2l "text/plain; version=0.0.4; charset=utf-8")]
  /\ rq_timeout r = t.
Proof. exact (@request_shape). Qed.
Print Assumptions C19_method_body_headers.

(* end to end: whatever the handler is given decodes to the inputs, for each of the three functions *)
Theorem C19_request_roundtrip : forall (T : Type) p a hs gw job gk expo (t : T) r,
  request_of a hs gw job gk expo t = Ok r -> Forall (fun kv => legacy_name (fst kv) = true) gk ->
  pg_decode_text p (gateway_base hs gw) (rq_url r) = Ok ((JOB, job) :: sort_items gk).
Proof.
  exact (fun T p a hs gw job gk expo t r H K =>
           roundtrip p _ job gk (rq_url r) (proj1 (request_shape a hs gw job gk expo t r H)) K).
Qed.
Print Assumptions C19_request_roundtrip.

(* a request is produced for every Unicode input *)
Theorem C19_request_total : forall (T : Type) a hs gw job gk expo (t : T),
  Forall (fun c => c < 55296 \/ (57344 <= c /\ c < 1114112)) job ->
  Forall (fun kv => Forall (fun c => c < 55296 \/ (57344 <= c /\ c < 1114112)) (snd kv)) gk ->
  exists r, request_of a hs gw job gk expo t = Ok r.
Proof. exact (@request_total). Qed.
Print Assumptions C19_request_total.

(* the call as a whole (calls_of = the requests handed to the handler, in order): for every Unicode job and grouping
   key, every gateway, every timeout and EVERY exposition - also the empty one of a registry with no collectors or
   whose collectors yield nothing - the handler is given exactly one request, and it is the one described above *)
Theorem C19_exactly_one_request : forall (T : Type) a hs gw job gk expo (t : T),
  Forall (fun c => c < 55296 \/ (57344 <= c /\ c < 1114112)) job ->
  Forall (fun kv => Forall (fun c => c < 55296 \/ (57344 <= c /\ c < 1114112)) (snd kv)) gk ->
  exists r, calls_of a hs gw job gk expo t = Ok [r]
    /\ url_of (gateway_base hs gw) job gk = Ok (rq_url r)
    /\ rq_method r = match a with Push => s2l "PUT" | PushAdd => s2l "POST" | Delete => s2l "DELETE" end
    /\ rq_body r = match a with Delete => [] | _ => expo end
    /\ rq_headers r = [(s2l "Content-Type", s2l "text/plain; version=0.0.4; charset=utf-8")]
    /\ rq_timeout r = t.
Proof. exact (@calls_total). Qed.
Print Assumptions C19_exactly_one_request.

(* never zero, never two: a successful call is one request, and it is request_of *)
Theorem C19_calls_are_one_request : forall (T : Type) a hs gw job gk expo (t : T) l,
  calls_of a hs gw job gk expo t = Ok l <-> exists r, request_of a hs gw job gk expo t = Ok r /\ l = [r].
Proof. exact (@calls_exactly_one). Qed.
Print Assumptions C19_calls_are_one_request.

(* the exposition decides the body and nothing else: pushing an empty registry issues the same PUT / POST to the same
   URL with the same headers and timeout as pushing any other one (so the group IS replaced by "no metrics") *)
Theorem C19_exposition_decides_body_only : forall (T : Type) a hs gw job gk e1 e2 (t : T) r1,
  calls_of a hs gw job gk e1 t = Ok [r1] ->
  exists r2, calls_of a hs gw job gk e2 t = Ok [r2]
    /\ rq_url r2 = rq_url r1 /\ rq_method r2 = rq_method r1 /\ rq_headers r2 = rq_headers r1
    /\ rq_timeout r2 = rq_timeout r1.
Proof. exact (@calls_body_only). Qed.
Print Assumptions C19_exposition_decides_body_only.

(* a call fails with ValueError only (a job or value that is not Unicode text) *)
Theorem C19_calls_only_value_error : forall (T : Type) a hs gw job gk expo (t : T),
  only_VE (calls_of a hs gw job gk expo t).
Proof. exact (@calls_only_VE). Qed.
Print Assumptions C19_calls_only_value_error.

(* --- successive calls in one process ------------------------------------------------------------------------------- *)
(* seq_in h cs = the calls cs made one after the other in a process whose header-list objects (the only mutable thing
   a handler is ever given) are the heap h; every call comes with what its handler does to the list it receives
   (c_acts: append - as basic_auth_handler does -, clear, replace, insert, pop).  call_alone c = the call made in a
   process that has issued nothing.  calls_seq = seq_in on the empty heap.                                           *)

(* independence: whatever the process did before (any heap), and whatever the handlers of the earlier calls did to
   what they were given, every call of the sequence hands its handler exactly what it hands it when made alone *)
Theorem C19_sequence_independent : forall (T : Type) (h : heap) (cs : list (call T)),
  fst (seq_in h cs) = map call_alone cs.
Proof. exact (@seq_independent). Qed.
Print Assumptions C19_sequence_independent.

(* in particular in a fresh process, and a sequence of one call is the call *)
Theorem C19_sequence_fresh : forall (T : Type) (cs : list (call T)) (c : call T),
  calls_seq cs = map call_alone cs
  /\ calls_seq [c] = [calls_of (c_api c) (c_hs c) (c_gw c) (c_job c) (c_gk c) (c_expo c) (c_timeout c)].
Proof. exact (fun T cs c => conj (seq_fresh cs) (seq_fresh [c])). Qed.
Print Assumptions C19_sequence_fresh.

(* the call at any position, after any calls `pre` (other jobs, keys, gateways, registries, handlers) and before any
   `post`: for Unicode inputs exactly one request, to the URL of ITS job and grouping key on ITS gateway, with ITS
   method, body and timeout, and with the text content type as the ONLY header - nothing an earlier request added *)
Theorem C19_sequence_request : forall (T : Type) (h : heap) (pre : list (call T)) c post,
  Forall (fun ch => ch < 55296 \/ (57344 <= ch /\ ch < 1114112)) (c_job c) ->
  Forall (fun kv => Forall (fun ch => ch < 55296 \/ (57344 <= ch /\ ch < 1114112)) (snd kv)) (c_gk c) ->
  exists r, nth_error (fst (seq_in h (pre ++ c :: post))) (length pre) = Some (Ok [r])
    /\ url_of (gateway_base (c_hs c) (c_gw c)) (c_job c) (c_gk c) = Ok (rq_url r)
    /\ rq_method r = match c_api c with Push => s2l "PUT" | PushAdd => s2l "POST" | Delete => s2l "DELETE" end
    /\ rq_body r = match c_api c with Delete => [] | _ => c_expo c end
    /\ rq_headers r = [(s2l "Content-Type", s2l "text/plain; version=0.0.4; charset=utf-8")]
    /\ rq_timeout r = c_timeout c.
Proof. exact (@seq_nth_request). Qed.
Print Assumptions C19_sequence_request.

(* and the other direction: no call touches a header list that an earlier request was given *)
Theorem C19_sequence_earlier_headers_untouched : forall (T : Type) (h : heap) (cs : list (call T)) b,
  (b < length h)%nat -> heap_read (snd (seq_in h cs)) b = heap_read h b.
Proof. exact (@seq_heap_untouched). Qed.
Print Assumptions C19_sequence_earlier_headers_untouched.

(* a gateway given as g, g/, g//..., http://g, http://g/... is the same gateway; https is kept *)
Theorem C19_gateway_spelling : forall g n,
  g <> [] -> rstrip SLASH g = g ->
  gateway_base false (g ++ repeat SLASH n) = s2l "http://" ++ g
  /\ gateway_base true (s2l "http://" ++ g ++ repeat SLASH n) = s2l "http://" ++ g
  /\ gateway_base true (s2l "https://" ++ g ++ repeat SLASH n) = s2l "https://" ++ g.
Proof. exact gateway_spelling. Qed.
Print Assumptions C19_gateway_spelling.

(* whatever the spelling, the normalised gateway never ends in '/', so the URL has no '//' at the join *)
Theorem C19_no_double_slash : forall hs gw p, gateway_base hs gw <> p ++ [SLASH].
Proof. exact gateway_no_double_slash. Qed.
Print Assumptions C19_no_double_slash.

(* --- the pinned source (quote_plus), finding F17 ---------------------------------------------------------------- *)

(* under a form-style reader it is lossless *)
Theorem C19_roundtrip_form_orig : forall base job gk u,
  url_of_orig base job gk = Ok u -> Forall (fun kv => legacy_name (fst kv) = true) gk ->
  pg_decode_form base u = Ok ((JOB, job) :: sort_items gk).
Proof. exact roundtrip_form_orig. Qed.
Print Assumptions C19_roundtrip_form_orig.

(* under the Pushgateway's path-style reader only when no escaped component holds a space
   (partial: the complement is refuted below) *)
Theorem C19_roundtrip_path_orig_partial : forall base job gk u,
  url_of_orig base job gk = Ok u -> Forall (fun kv => legacy_name (fst kv) = true) gk ->
  ~ In SPACE job -> Forall (fun kv => ~ In SPACE (snd kv)) gk ->
  pg_decode_path base u = Ok ((JOB, job) :: sort_items gk).
Proof. exact roundtrip_path_orig. Qed.
Print Assumptions C19_roundtrip_path_orig_partial.

(* job "a b": the pinned source sends .../job/a+b, which the Pushgateway reads as the job "a+b" *)
Theorem C19_roundtrip_path_space_orig_refuted :
  exists base job u, url_of_orig base job [] = Ok u /\ ~ In SPACE u
    /\ pg_decode_path base u = Ok [(JOB, s2l "a+b")] /\ job = s2l "a b"
    /\ pg_decode_path base u <> Ok [(JOB, job)].
Proof. exact roundtrip_path_orig_refuted. Qed.
Print Assumptions C19_roundtrip_path_space_orig_refuted.

(* --- non-vacuity -------------------------------------------------------------------------------------------------- *)
Example C19_example :
  let gk := [(s2l "b", s2l "a/ z"); (s2l "a", s2l "x y+z"); (s2l "B", [])] in
  Forall (fun kv => legacy_name (fst kv) = true) gk
  /\ url_of (gateway_base false (s2l "localhost:9091//")) [106; 233] gk
     = Ok (s2l "http://localhost:9091/metrics/job/j%C3%A9/B@base64/=/a/x%20y%2Bz/b@base64/YS8geg==")
  /\ url_of_orig (gateway_base true (s2l "https://h/pg/")) (s2l "a b") gk
     = Ok (s2l "https://h/pg/metrics/job/a+b/B@base64/=/a/x+y%2Bz/b@base64/YS8geg==")
  /\ pg_decode_path (s2l "http://localhost:9091")
       (s2l "http://localhost:9091/metrics/job/j%C3%A9/B@base64/=/a/x%20y%2Bz/b@base64/YS8geg==")
     = Ok [(s2l "job", [106; 233]); (s2l "B", []); (s2l "a", s2l "x y+z"); (s2l "b", s2l "a/ z")].
Proof. vm_compute. repeat split; repeat constructor. Qed.

(* an empty registry pushed: one PUT with an empty body *)
Example C19_example_empty_push :
  calls_of Push false (s2l "gw:9091") (s2l "nightly") [(s2l "shard", s2l "a b")] [] 7
  = Ok [mkReq (s2l "http://gw:9091/metrics/job/nightly/shard/a%20b") (s2l "PUT") 7
              [(s2l "Content-Type", s2l "text/plain; version=0.0.4; charset=utf-8")] []].
Proof. vm_compute. reflexivity. Qed.

(* an authenticated push (the handler appends an Authorization header to the list it is given), then a delete and a
   pushadd elsewhere: the later requests carry the content type alone, and the first request's list object (address 0)
   still holds what its handler put there *)
Example C19_example_sequence :
  let ct := (s2l "Content-Type", s2l "text/plain; version=0.0.4; charset=utf-8") in
  let auth := (s2l "Authorization", s2l "Basic YTpi") in
  let cs := [mkCall Push false (s2l "internal:9091") (s2l "batch") [(s2l "k", s2l "1")] [35] 30 [HAppend auth];
             mkCall Delete true (s2l "https://other/") (s2l "batch") [(s2l "k", s2l "1.0")] [35] 7 [HClear];
             mkCall PushAdd false (s2l "other") (s2l "a b") [(s2l "k", s2l "True")] [36] 0 [HKeep]] in
  calls_seq cs
  = [Ok [mkReq (s2l "http://internal:9091/metrics/job/batch/k/1") (s2l "PUT") 30 [ct] [35]];
     Ok [mkReq (s2l "https://other/metrics/job/batch/k/1.0") (s2l "DELETE") 7 [ct] []];
     Ok [mkReq (s2l "http://other/metrics/job/a%20b/k/True") (s2l "POST") 0 [ct] [36]]]
  /\ snd (seq_in [] cs) = [[ct; auth]; []; [ct]].
Proof. vm_compute. split; reflexivity. Qed.
