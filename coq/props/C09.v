(* C09 - a change of process identity (fork) never loses or double-counts updates.
   Statements only; every proof is `exact <lemma>` (proofs/ValuesProofs.v).
   Model: model/Values.v - the closure of values.MultiProcessValue over an abstract directory
   (file name -> key -> (value, timestamp)); specification side: model/ValuesSpec.v.
   Parametric in the float type F (fzero, fadd, feqb): no float law is needed by any theorem below.
   Histories: any list of SetPid / New / Inc / Set_ / Get, the identity changing at any point;
   wf_hist = no two live value objects are bound to the same (file prefix, key).
   The theorems named *_any_history carry NO wf_hist hypothesis: they also cover an application that keeps a labels()
   child while its label set is removed / cleared and created again, or that declares a metric twice (several live
   value objects for one series).  For those histories the per-cell fold (C09_sum_conserved) is false with or without
   identity changes - C09_sum_needs_wf_refuted - because two objects overwrite each other through their caches; what the
   property says about WHERE writes go holds for every history. *)
From V Require Import lib.PyBase model.Multiproc model.Values model.ValuesSpec proofs.ValuesProofs.
Open Scope N_scope.

(* A step executed under identity p (the check runs first) changes no file that carries another pid -
   from any state a history can reach, and whatever the directory held before. *)
Theorem C09_writes_only_own_files :
  forall (F : Type) (fzero : F) (fadd : F -> F -> F) (feqb : F -> F -> bool)
         (pid0 : str) (d0 : fs F) (h : list (op F)) (st : state F) (d : fs F) (xs : list (option F))
         (o : op F) (st' : state F) (d' : fs F) (x : option F),
    wf_hist F [] h -> run F fzero fadd feqb (init_state F pid0) d0 h = (st, d, xs) ->
    fresh_op F st o -> step F fzero fadd feqb st d o = (st', d', x) ->
    forall fn : fname, snd fn <> st_actual F st -> d_find fname_eqb d' fn = d_find fname_eqb d fn.
Proof.
  exact (fun F fzero fadd feqb pid0 d0 h st d xs o st' d' x Hwf R =>
           step_own_files F fzero fadd feqb st d o st' d' x (reach_Inv F fzero fadd feqb pid0 d0 h st d xs Hwf R)).
Qed.
Print Assumptions C09_writes_only_own_files.

(* After the identity check (run first by every operation) every live value object is bound to the file of the
   CURRENT identity and its cached (value, timestamp) is what that file held for its key - (0, 0) if absent. *)
Theorem C09_continues_from_file :
  forall (F : Type) (fzero : F) (fadd : F -> F -> F) (feqb : F -> F -> bool)
         (pid0 : str) (d0 : fs F) (h : list (op F)) (st : state F) (d : fs F) (xs : list (option F))
         (st1 : state F) (d1 : fs F),
    wf_hist F [] h -> run F fzero fadd feqb (init_state F pid0) d0 h = (st, d, xs) ->
    check_pid F fzero st d = (st1, d1) ->
    forall (i : nat) (v1 : value F), nth_error (st_values F st1) i = Some v1 ->
      nth_error (map (v_params F) (st_values F st)) i = Some (v_params F v1)
      /\ v_file F v1 = (prefix_of (v_params F v1), st_actual F st)
      /\ (v_val F v1, v_ts F v1)
         = cell_or_zero F fzero d (prefix_of (v_params F v1), st_actual F st) (p_key (v_params F v1)).
Proof.
  exact (fun F fzero fadd feqb pid0 d0 h st d xs st1 d1 Hwf R =>
           check_pid_continues F fzero st d st1 d1 (reach_Inv F fzero fadd feqb pid0 d0 h st d xs Hwf R)).
Qed.
Print Assumptions C09_continues_from_file.

(* value.get() returns what the current identity's file holds *)
Theorem C09_get_reads_own_file :
  forall (F : Type) (fzero : F) (fadd : F -> F -> F) (feqb : F -> F -> bool)
         (pid0 : str) (d0 : fs F) (h : list (op F)) (st : state F) (d : fs F) (xs : list (option F))
         (i : nat) (st' : state F) (d' : fs F) (x : option F),
    wf_hist F [] h -> run F fzero fadd feqb (init_state F pid0) d0 h = (st, d, xs) ->
    step F fzero fadd feqb st d (Get F i) = (st', d', x) ->
    x = option_map (fun p => fst (cell_or_zero F fzero d (prefix_of p, st_actual F st) (p_key p)))
                   (nth_error (map (v_params F) (st_values F st)) i).
Proof.
  exact (fun F fzero fadd feqb pid0 d0 h st d xs i st' d' x Hwf R =>
           get_continues F fzero fadd feqb st d i st' d' x (reach_Inv F fzero fadd feqb pid0 d0 h st d xs Hwf R)).
Qed.
Print Assumptions C09_get_reads_own_file.

(* Float statement of conservation, per file: after ANY history every cell of every file is the left fold, over what
   the file held at the start, of exactly the updates issued through value objects of that (prefix, key) while the
   process identity was the pid of that file - in issue order; nothing is lost, nothing applied twice, nothing
   applied to another identity's file.  (issued is defined on the history alone.) *)
Theorem C09_sum_conserved :
  forall (F : Type) (fzero : F) (fadd : F -> F -> F) (feqb : F -> F -> bool)
         (pid0 : str) (d0 : fs F) (h : list (op F)) (st : state F) (d : fs F) (xs : list (option F)),
    wf_hist F [] h -> run F fzero fadd feqb (init_state F pid0) d0 h = (st, d, xs) ->
    forall (fn : fname) (k : key),
      cell_or_zero F fzero d fn k
      = fold_left (apply_cellop F fzero fadd feqb) (issued F pid0 [] h fn k) (cell_or_zero F fzero d0 fn k).
Proof.
  exact (fun F fzero fadd feqb pid0 d0 h st d xs Hwf R =>
           proj2 (proj2 (run_ok F fzero fadd feqb h (init_state F pid0) d0 st d xs (Inv_init F pid0 d0) Hwf R))).
Qed.
Print Assumptions C09_sum_conserved.

(* Integer-valued corollary (amounts in Z, exact addition): for a series that is only incremented, the sum over the
   files of all identities the history takes = what those files held + the sum of ALL increments ever issued. *)
Theorem C09_sum_conserved_int :
  forall (pids : list str), NoDup pids -> forall (pre : prefix) (k : key)
         (st : state Z) (d : fs Z) (h : list (op Z)) (st' : state Z) (d' : fs Z) (xs : list (option Z)),
    Inv Z st d -> wf_hist Z (map (v_params Z) (st_values Z st)) h ->
    run Z 0%Z Z.add Z.eqb st d h = (st', d', xs) ->
    In (st_actual Z st) pids -> pids_in pids h -> only_incs (map (v_params Z) (st_values Z st)) h pre k ->
    file_total d' pids pre k
    = (file_total d pids pre k + inc_total (map (v_params Z) (st_values Z st)) h pre k)%Z.
Proof. exact sum_conserved_Z. Qed.
Print Assumptions C09_sum_conserved_int.

(* the invariant used above holds at the start of every closure, over any directory *)
Theorem C09_invariant_initially : forall (F : Type) (pid : str) (d : fs F), Inv F (init_state F pid) d.
Proof. exact Inv_init. Qed.
Print Assumptions C09_invariant_initially.

(* Per-pid gauges: the cell of identity p's gauge file is determined by the updates issued under p alone -
   one step changes cell (fn, k) by exactly the update it issues to it, if any (Set_ overwrites, Inc adds). *)
Theorem C09_per_pid_gauge :
  forall (F : Type) (fzero : F) (fadd : F -> F -> F) (feqb : F -> F -> bool)
         (st : state F) (d : fs F) (o : op F) (st' : state F) (d' : fs F) (x : option F),
    Inv F st d -> fresh_op F st o -> step F fzero fadd feqb st d o = (st', d', x) ->
    Inv F st' d' /\
    forall (fn : fname) (k : key),
      cell_or_zero F fzero d' fn k
      = fold_left (apply_cellop F fzero fadd feqb)
          (issued F (st_actual F st) (map (v_params F) (st_values F st)) [o] fn k) (cell_or_zero F fzero d fn k).
Proof.
  exact (fun F fzero fadd feqb st d o st' d' x HI Hf S =>
           match step_ok F fzero fadd feqb st d o st' d' x HI Hf S with
           | conj A (conj _ (conj _ (conj _ B))) => conj A B
           end).
Qed.
Print Assumptions C09_per_pid_gauge.

(* non-vacuity: a counter incremented by 1 under pid "1", by 2 after a change to pid "2", by 4 after returning to "1":
   file 1 holds 5, file 2 holds 2, the total is the 7 issued; the history is well-formed. *)
Example C09_example :
  let P := mkParams (s2l "counter") [] (mkKey (s2l "c") (s2l "c_total") [] (s2l "help")) in
  let h := [New Z P; Inc Z 0 1%Z; SetPid Z (s2l "2"); Inc Z 0 2%Z; SetPid Z (s2l "1"); Inc Z 0 4%Z] in
  wf_hist Z [] h /\
  match run Z 0%Z Z.add Z.eqb (init_state Z (s2l "1")) [] h with
  | (_, d, _) =>
      fst (cell_or_zero Z 0%Z d ((s2l "counter", []), s2l "1") (p_key P)) = 5%Z /\
      fst (cell_or_zero Z 0%Z d ((s2l "counter", []), s2l "2") (p_key P)) = 2%Z /\
      file_total d [s2l "1"; s2l "2"] (s2l "counter", []) (p_key P) = 7%Z
  end.
Proof. vm_compute. repeat split; intros []. Qed.

(* ---------- every history, several live value objects per series included (no wf_hist) ---------- *)

(* A step executed under identity p changes no file that carries another pid, from any state ANY history reaches. *)
Theorem C09_writes_only_own_files_any_history :
  forall (F : Type) (fzero : F) (fadd : F -> F -> F) (feqb : F -> F -> bool)
         (pid0 : str) (d0 : fs F) (h : list (op F)) (st : state F) (d : fs F) (xs : list (option F))
         (o : op F) (st' : state F) (d' : fs F) (x : option F),
    run F fzero fadd feqb (init_state F pid0) d0 h = (st, d, xs) ->
    step F fzero fadd feqb st d o = (st', d', x) ->
    forall fn : fname, snd fn <> st_actual F st -> d_find fname_eqb d' fn = d_find fname_eqb d fn.
Proof.
  exact (fun F fzero fadd feqb pid0 d0 h st d xs o st' d' x R =>
           step_own_files_any F fzero fadd feqb st d o st' d' x (reach_BInv F fzero fadd feqb pid0 d0 h st d xs R)).
Qed.
Print Assumptions C09_writes_only_own_files_any_history.

(* The identity check (run first by every operation) re-binds EVERY live value object - none is dropped, whatever the
   number of objects per series - to the file of the CURRENT identity. *)
Theorem C09_rebinds_every_live_value_any_history :
  forall (F : Type) (fzero : F) (fadd : F -> F -> F) (feqb : F -> F -> bool)
         (pid0 : str) (d0 : fs F) (h : list (op F)) (st : state F) (d : fs F) (xs : list (option F))
         (st1 : state F) (d1 : fs F),
    run F fzero fadd feqb (init_state F pid0) d0 h = (st, d, xs) ->
    check_pid F fzero st d = (st1, d1) ->
    length (st_values F st1) = length (st_values F st)
    /\ forall (i : nat) (v1 : value F), nth_error (st_values F st1) i = Some v1 ->
         nth_error (map (v_params F) (st_values F st)) i = Some (v_params F v1)
         /\ v_file F v1 = (prefix_of (v_params F v1), st_actual F st).
Proof.
  exact (fun F fzero fadd feqb pid0 d0 h st d xs st1 d1 R =>
           check_pid_rebinds_all F fzero st d st1 d1 (reach_BInv F fzero fadd feqb pid0 d0 h st d xs R)).
Qed.
Print Assumptions C09_rebinds_every_live_value_any_history.

(* An inc / set through ANY live value object (the i-th ever created, newest of its series or not) leaves the cell of its
   series in the file of the CURRENT identity. *)
Theorem C09_update_lands_in_own_file_any_history :
  forall (F : Type) (fzero : F) (fadd : F -> F -> F) (feqb : F -> F -> bool)
         (pid0 : str) (d0 : fs F) (h : list (op F)) (st : state F) (d : fs F) (xs : list (option F))
         (i : nat) (a v : F) (ts : option F) (o : op F) (st' : state F) (d' : fs F) (x : option F),
    run F fzero fadd feqb (init_state F pid0) d0 h = (st, d, xs) ->
    o = Inc F i a \/ o = Set_ F i v ts -> step F fzero fadd feqb st d o = (st', d', x) ->
    forall p : params, nth_error (map (v_params F) (st_values F st)) i = Some p ->
      exists y, fs_cell F d' (prefix_of p, st_actual F st) (p_key p) = Some y.
Proof.
  exact (fun F fzero fadd feqb pid0 d0 h st d xs i a v ts o st' d' x R =>
           update_lands_in_own_file F fzero fadd feqb st d i a v ts o st' d' x
             (reach_BInv F fzero fadd feqb pid0 d0 h st d xs R)).
Qed.
Print Assumptions C09_update_lands_in_own_file_any_history.

(* non-vacuity of the wider domain: value objects 0 and 1 describe the SAME series (a kept child and its re-creation);
   the history is not well-formed; after the change to pid "2" an update through the OLDER object 0 lands in file 2 and
   file 1 keeps what it held. *)
Example C09_example_two_objects_one_series :
  let P := mkParams (s2l "counter") [] (mkKey (s2l "c") (s2l "c_total") [] (s2l "help")) in
  let h := [New Z P; Inc Z 0 1%Z; New Z P; SetPid Z (s2l "2"); Inc Z 0 4%Z] in
  ~ wf_hist Z [] h /\
  match run Z 0%Z Z.add Z.eqb (init_state Z (s2l "1")) [] h with
  | (_, d, _) =>
      fst (cell_or_zero Z 0%Z d ((s2l "counter", []), s2l "1") (p_key P)) = 1%Z /\
      fst (cell_or_zero Z 0%Z d ((s2l "counter", []), s2l "2") (p_key P)) = 4%Z
  end.
Proof. split; [cbn; intros [_ [H _]]; apply H; left; reflexivity | vm_compute; split; reflexivity]. Qed.

(* wf_hist cannot be dropped from C09_sum_conserved: with two live objects of one series and NO identity change at all,
   1 and 2 are issued through object 0 and object 1, then 4 through object 0 whose cache is stale: the cell holds 5. *)
Theorem C09_sum_needs_wf_refuted :
  exists (pid0 : str) (h : list (op Z)) (fn : fname) (k : key),
    match run Z 0%Z Z.add Z.eqb (init_state Z pid0) [] h with
    | (_, d, _) =>
        cell_or_zero Z 0%Z d fn k
        <> fold_left (apply_cellop Z 0%Z Z.add Z.eqb) (issued Z pid0 [] h fn k) (cell_or_zero Z 0%Z [] fn k)
    end.
Proof.
  exists (s2l "1").
  exists (let P := mkParams (s2l "counter") [] (mkKey (s2l "c") (s2l "c_total") [] (s2l "help")) in
          [New Z P; Inc Z 0 1%Z; New Z P; Inc Z 1 2%Z; Inc Z 0 4%Z]).
  exists ((s2l "counter", []), s2l "1"), (mkKey (s2l "c") (s2l "c_total") [] (s2l "help")).
  vm_compute. intros H. discriminate H.
Qed.
Print Assumptions C09_sum_needs_wf_refuted.
