(* C11 - Every intermediate on-disk state of the store is readable and a prefix state.
   Statements only.  Model: model/MmapDict.v.  Every writer operation is a list of file effects
   (Create | Truncate n | WriteSlice off bytes, in program order); `trace isz ops` is the whole effect trace of
   MmapedDict(path) on a missing path followed by ops; `cut n tr` is the file after the first n effects - what a
   concurrent collector, or anybody after a SIGKILL of the writer at that point, finds on disk.
   The reader `read_all_from_file` is the REPAIRED MmapedDict.read_all_values_from_file (fixes/C11-empty-file.diff:
   a 0-byte file holds no entries); `read_all_from_file_orig` is the pinned source, refuted below.
   close() is an operation with its own (empty) effect list `close_effects`; `wtrace` is the trace of a writer whose
   forked children close the handles they inherited in between (C11_prefix_forked); `read_listed` is the collector's
   read of one listed file, which may have vanished since the listing (the two C11_vanished theorems).
   Granularity: one slice assignment is one atomic effect (trusted: a slice write to a shared mapping is observed
   whole).  Strength: partial in that sense only; all histories, all cuts.
   THE READER IS NOT ATOMIC with respect to a live writer: read_all_values_from_file makes two read() calls when more
   than one block is in use, and the writer may perform any number of effects in between.  `read_all_from_file_il b1 b2`
   is the reader whose first read sees the file b1 and whose second read sees b2 (proofs/MmapDictIl.v);
   C11_interleaved / C11_interleaved_entries say what it returns for ANY two cuts n1 <= n2 of any history;
   C11_prefix is the case n1 = n2.  What does NOT hold for n1 < n2 is stated too (C11_interleaved_not_a_prefix_state). *)
From V Require Import lib.PyBase model.MmapDict proofs.MmapDictProofs proofs.MmapDictIl.
Open Scope N_scope.

(* For every history and every cut n >= 1 of its effect trace (n = 0 is "no file yet"):
   - the reader returns Ok (state after the first m operations ++ infl), m <= number of operations, where infl is
     empty or is the single NEW key of operation m+1 at (0.0, 0.0)  [inflight_ok];
   - a new writer can open the cut file; after the effects of its __init__ it is in the representation invariant
     for that same state, so all of C10 applies to whatever it does next;
   - the cut file is empty only at n = 1 (created, not yet sized). *)
Theorem C11_prefix : forall isz pg, 8 <= isz -> 4 <= pg -> forall ops tr,
  Forall wf_op ops -> 8 + total (spec ops) < 2147483648 -> trace isz ops = Ok tr ->
  forall n, (1 <= n)%nat ->
  exists bn m infl,
    cut n tr = Ok (Some bn) /\ (m <= length ops)%nat /\
    read_all_from_file pg bn = Ok (spec (firstn m ops) ++ infl) /\
    inflight_ok [] (firstn m ops) (nth_error ops m) infl /\
    (exists h' tr' b', open_ isz (Some bn) = Ok (h', tr') /\ apply_effects (Some bn) tr' = Ok (Some b') /\
                       Rep isz b' h' (spec (firstn m ops) ++ infl)) /\
    ((n = 1%nat /\ bn = []) \/ 8 <= len bn).
Proof. exact cuts_spec. Qed.
Print Assumptions C11_prefix.

(* the trace exists: the writer itself never fails *)
Theorem C11_trace_total : forall isz pg, 8 <= isz -> 4 <= pg -> forall ops,
  Forall wf_op ops -> 8 + total (spec ops) < 2147483648 -> exists tr, trace isz ops = Ok tr.
Proof. exact trace_ok. Qed.
Print Assumptions C11_trace_total.

(* the same from ANY represented state (e.g. after a reopen of a cut file): every prefix of the effects of any
   continuation leaves a represented file for a prefix state (+ in-flight key) *)
Theorem C11_prefix_from : forall isz pg, 8 <= isz -> 4 <= pg -> forall ops b h es,
  Rep isz b h es -> Forall wf_op ops -> 8 + total (spec_from es ops) < 2147483648 ->
  exists h' tr b', run_from isz (Some b, h) ops = Ok (Some b', h', tr) /\
    apply_effects (Some b) tr = Ok (Some b') /\ Rep isz b' h' (spec_from es ops) /\
    forall n, exists bn m infl,
      apply_effects (Some b) (firstn n tr) = Ok (Some bn) /\ (m <= length ops)%nat /\
      Cut isz bn (spec_from es (firstn m ops) ++ infl) /\
      inflight_ok es (firstn m ops) (nth_error ops m) infl.
Proof. exact run_from_spec. Qed.
Print Assumptions C11_prefix_from.

(* one dead worker can never make the reading phase of a scrape fail: in a directory of worker files, each some
   history stopped at an arbitrary cut, the reader returns Ok on every file (the merge that follows is C08's) *)
Theorem C11_scrape_isolated : forall isz pg, 8 <= isz -> 4 <= pg -> forall ws,
  Forall worker_ok ws -> Forall (worker_readable isz pg) ws.
Proof. exact all_workers_readable. Qed.
Print Assumptions C11_scrape_isolated.

(* a key or value that was never written never appears: every entry of such a state was stored by a write_value of
   exactly that (key, value, timestamp) among the first m operations, or zero-initialised by a read_value among them,
   or is the in-flight key of operation m+1 at zero *)
Theorem C11_never_unwritten : forall ops m infl e,
  inflight_ok [] (firstn m ops) (nth_error ops m) infl -> In e (spec (firstn m ops) ++ infl) ->
  written (firstn m ops) e \/ (exists o k, nth_error ops m = Some o /\ keyof o = Some k /\ e = e0 k).
Proof. exact prefix_state_written. Qed.
Print Assumptions C11_never_unwritten.

(* the value update is one 16-byte slice and rewrites exactly the addressed entry, nothing else *)
Theorem C11_value_update_exact : forall es p pre junk k x pos,
  Forall wf_entry es -> wf_value x -> len pre = p -> d_find keq (offsets p es) k = Some pos ->
  apply_effect (Some (pre ++ flat es ++ junk)) (WriteSlice pos (fst x ++ snd x))
  = Ok (Some (pre ++ flat (d_set keq es k x) ++ junk)).
Proof. exact write_value_at. Qed.
Print Assumptions C11_value_update_exact.

(* close() has no file effect, whatever the handle: the file after close() is the file before it.  close() is also run
   by a forked child on the handles it inherited (values.py, pid change) while the parent is still a live writer of the
   same file, so anything else would pull the file from under the parent's mapping. *)
Theorem C11_close_keeps_file : forall (h : handle) (f : fstate), apply_effects f (close_effects h) = Ok f.
Proof. exact close_keeps_file. Qed.
Print Assumptions C11_close_keeps_file.

(* one writer and forked children: ws interleaves the writer's own operations with Fork (a child inherits a copy of
   the handle as it is then) and CloseInherited (the oldest child closes its - possibly stale - copy).  Every cut of
   the whole effect trace is a prefix state of the writer's OWN operations, exactly as in C11_prefix. *)
Theorem C11_prefix_forked : forall isz pg, 8 <= isz -> 4 <= pg -> forall ws tr,
  Forall wf_op (own_ops ws) -> 8 + total (spec (own_ops ws)) < 2147483648 -> wtrace isz ws = Ok tr ->
  forall n, (1 <= n)%nat ->
  exists bn m infl,
    cut n tr = Ok (Some bn) /\ (m <= length (own_ops ws))%nat /\
    read_all_from_file pg bn = Ok (spec (firstn m (own_ops ws)) ++ infl) /\
    inflight_ok [] (firstn m (own_ops ws)) (nth_error (own_ops ws) m) infl /\
    (exists h' tr' b', open_ isz (Some bn) = Ok (h', tr') /\ apply_effects (Some bn) tr' = Ok (Some b') /\
                       Rep isz b' h' (spec (firstn m (own_ops ws)) ++ infl)) /\
    ((n = 1%nat /\ bn = []) \/ 8 <= len bn).
Proof.
  intros isz pg Hi Hp ws tr Hwf Hb Htr.
  apply (cuts_spec isz pg Hi Hp (own_ops ws) tr Hwf Hb). apply (wcuts_spec isz pg Hi Hp ws tr Hwf Hb Htr).
Qed.
Print Assumptions C11_prefix_forked.

(* the same from any represented state, with any set of inherited copies already around *)
Theorem C11_prefix_forked_from : forall isz pg, 8 <= isz -> 4 <= pg -> forall ws b h inh es,
  Rep isz b h es -> Forall wf_op (own_ops ws) -> 8 + total (spec_from es (own_ops ws)) < 2147483648 ->
  exists h' inh' tr b',
    wrun_from isz (Some b, h, inh) ws = Ok (Some b', h', inh', tr) /\
    apply_effects (Some b) tr = Ok (Some b') /\ Rep isz b' h' (spec_from es (own_ops ws)) /\
    (forall n, exists bn m infl,
        apply_effects (Some b) (firstn n tr) = Ok (Some bn) /\ (m <= length (own_ops ws))%nat /\
        Cut isz bn (spec_from es (firstn m (own_ops ws)) ++ infl) /\
        inflight_ok es (firstn m (own_ops ws)) (nth_error (own_ops ws) m) infl).
Proof. exact wrun_from_spec. Qed.
Print Assumptions C11_prefix_forked_from.

(* a file that vanished between the collector's listing and its read (f = None) is skipped exactly when it is a live
   gauge file - typ = 'gauge' and parts[1] starts with 'live', the files mark_process_dead removes - ... *)
Theorem C11_vanished_live_tolerated : forall pg s, read_listed pg S_GAUGE (S_LIVE ++ s) None = Ok [].
Proof. exact vanished_live_ok. Qed.
Print Assumptions C11_vanished_live_tolerated.

(* ... and fails the scrape otherwise (the data of a counter, histogram, summary or non-live gauge file is never
   dropped silently) *)
Theorem C11_vanished_other_raises : forall pg typ p1,
  ~ (typ = S_GAUGE /\ exists s, p1 = S_LIVE ++ s) -> read_listed pg typ p1 None = Err OSError.
Proof. exact vanished_other_raises. Qed.
Print Assumptions C11_vanished_other_raises.

(* F8: with the pinned reader the statement is false at the first cut of EVERY history: after open(path, 'a+b') and
   before truncate the file has size 0 and read_all_values_from_file raises struct.error (which fails the scrape) *)
Theorem C11_prefix_orig_refuted : forall isz pg, 8 <= isz -> 4 <= pg -> forall tr ops,
  trace isz ops = Ok tr ->
  cut 1 tr = Ok (Some []) /\ read_all_from_file_orig pg [] = Err StructError.
Proof. exact first_cut_orig_fails. Qed.
Print Assumptions C11_prefix_orig_refuted.

(* ... and only there: on every non-empty file the repaired reader IS the original one *)
Theorem C11_fix_conservative : forall pg b, len (take pg b) <> 0 ->
  read_all_from_file pg b = read_all_from_file_orig pg b.
Proof. exact reader_fix_conservative. Qed.
Print Assumptions C11_fix_conservative.

(* non-vacuity: the cuts of a two-operation history at the real sizes; cut 1 is the empty file, cut 5 has the new key
   in flight at zero, cut 6 is the completed first write *)
Definition ex_ops : list op := [Write [97] [1;2;3;4;5;6;7;8] zero8; ReadV [98]].
Example C11_example :
  Forall wf_op ex_ops /\ 8 + total (spec ex_ops) < 2147483648 /\
  match trace 65536 ex_ops with
  | Ok tr =>
      length tr = 8%nat /\
      (do f <- cut 1 tr; match f with Some b => read_all_from_file 4096 b | None => Err OSError end) = Ok [] /\
      (do f <- cut 1 tr; match f with Some b => read_all_from_file_orig 4096 b | None => Err OSError end) = Err StructError /\
      (do f <- cut 2 tr; match f with Some b => read_all_from_file 4096 b | None => Err OSError end) = Ok [] /\
      (do f <- cut 4 tr; match f with Some b => read_all_from_file 4096 b | None => Err OSError end) = Ok [] /\
      (do f <- cut 5 tr; match f with Some b => read_all_from_file 4096 b | None => Err OSError end) = Ok [([97], (zero8, zero8))] /\
      (do f <- cut 6 tr; match f with Some b => read_all_from_file 4096 b | None => Err OSError end) = Ok [([97], ([1;2;3;4;5;6;7;8], zero8))] /\
      (do f <- cut 8 tr; match f with Some b => read_all_from_file 4096 b | None => Err OSError end) = Ok (spec ex_ops)
  | Err _ => False
  end.
Proof.
  split; [repeat constructor|]. split; [vm_compute; reflexivity|].
  vm_compute. repeat split; reflexivity.
Qed.

(* non-vacuity: the five live modes of Gauge._MULTIPROC_MODES are tolerated, the five others and the other file types
   are not; a forked child's close between two appends of the writer leaves the trace of the writer alone *)
Example C11_example_vanish :
  (* liveall livemin livemax livesum livemostrecent *)
  Forall (fun m => read_listed 4096 S_GAUGE m None = Ok [])
    [[108;105;118;101;97;108;108]; [108;105;118;101;109;105;110]; [108;105;118;101;109;97;120];
     [108;105;118;101;115;117;109]; [108;105;118;101;109;111;115;116;114;101;99;101;110;116]] /\
  (* all min max sum mostrecent *)
  Forall (fun m => read_listed 4096 S_GAUGE m None = Err OSError)
    [[97;108;108]; [109;105;110]; [109;97;120]; [115;117;109]; [109;111;115;116;114;101;99;101;110;116]] /\
  (* counter_<pid>.db: typ = counter, parts[1] = '<pid>.db' *)
  read_listed 4096 [99;111;117;110;116;101;114] [55;55;55;46;100;98] None = Err OSError.
Proof. vm_compute. repeat constructor. Qed.

Example C11_example_forked :
  wtrace 65536 [Own (Write [97] [1;2;3;4;5;6;7;8] zero8); Fork; Own (ReadV [98]); CloseInherited; Own (ReadV [99])]
  = trace 65536 [Write [97] [1;2;3;4;5;6;7;8] zero8; ReadV [98]; ReadV [99]].
Proof. vm_compute. reflexivity. Qed.

(* ---------- the reader as a sequence of reads over a changing file ---------- *)
(* The reader's first read (one block: the header and the first pg bytes) is served from the file after n1 effects of
   the writer's trace, its second read (the rest of the used bytes, made only when the header of the FIRST read says
   that more than one block is in use) from the file after n2 >= n1 effects.  For every history and all such n1, n2:
   - the reader returns Ok: a writer that appends, grows the file or updates values between the two reads can never make
     the read (hence the scrape) fail;
   - s1 and s2, what an atomic reader returns at n1 and at n2, are prefix states (+ in-flight key) of m1 <= m2
     operations, and the key list of s2 extends the key list of s1;
   - what is returned is mix (pg - 8) s1 s2' with s2' the entries of s2 that have the keys of s1: the bytes of the first
     block as they were at n1, the bytes beyond it as they are at n2, the parse bounded by the header of n1. *)
Theorem C11_interleaved : forall isz pg, 8 <= isz -> 8 <= pg -> forall ops tr,
  Forall wf_op ops -> 8 + total (spec ops) < 2147483648 -> trace isz ops = Ok tr ->
  forall n1 n2, (1 <= n1)%nat -> (n1 <= n2)%nat ->
  exists b1 b2 m1 infl1 m2 infl2,
    cut n1 tr = Ok (Some b1) /\ cut n2 tr = Ok (Some b2) /\
    (m1 <= m2)%nat /\ (m2 <= length ops)%nat /\
    inflight_ok [] (firstn m1 ops) (nth_error ops m1) infl1 /\
    inflight_ok [] (firstn m2 ops) (nth_error ops m2) infl2 /\
    read_all_from_file pg b1 = Ok (spec (firstn m1 ops) ++ infl1) /\
    read_all_from_file pg b2 = Ok (spec (firstn m2 ops) ++ infl2) /\
    (exists ks, map fst (spec (firstn m2 ops) ++ infl2) = map fst (spec (firstn m1 ops) ++ infl1) ++ ks) /\
    read_all_from_file_il pg b1 b2
    = Ok (mix (pg - 8) (spec (firstn m1 ops) ++ infl1)
              (firstn (length (spec (firstn m1 ops) ++ infl1)) (spec (firstn m2 ops) ++ infl2))).
Proof. exact il_cuts. Qed.
Print Assumptions C11_interleaved.

(* the same entry by entry, for an 8-aligned block size (mmap.PAGESIZE is): the list l that is returned
   - has exactly the keys of the state at the first read, in order: no key that was not published when the reader took
     the header, none missing, none that was never written;
   - every entry is the entry of its key in the state at the first read (x) or in the state at the second read (y),
     or - only the one entry whose 16 value bytes straddle the block boundary - the value of x with the timestamp of y;
   - if one block holds everything in use at the first read, l IS the prefix state of the first read, whatever the
     writer does afterwards; and so it is when the writer only appended between the two reads. *)
Theorem C11_interleaved_entries : forall isz pg, 8 <= isz -> 8 <= pg -> forall ops tr,
  pg mod 8 = 0 -> Forall wf_op ops -> 8 + total (spec ops) < 2147483648 -> trace isz ops = Ok tr ->
  forall n1 n2, (1 <= n1)%nat -> (n1 <= n2)%nat ->
  exists b1 b2 m1 infl1 m2 infl2 l,
    cut n1 tr = Ok (Some b1) /\ cut n2 tr = Ok (Some b2) /\
    (m1 <= m2)%nat /\ (m2 <= length ops)%nat /\
    inflight_ok [] (firstn m1 ops) (nth_error ops m1) infl1 /\
    inflight_ok [] (firstn m2 ops) (nth_error ops m2) infl2 /\
    read_all_from_file pg b1 = Ok (spec (firstn m1 ops) ++ infl1) /\
    read_all_from_file pg b2 = Ok (spec (firstn m2 ops) ++ infl2) /\
    read_all_from_file_il pg b1 b2 = Ok l /\
    map fst l = map fst (spec (firstn m1 ops) ++ infl1) /\
    (forall i e, nth_error l i = Some e ->
       exists x y, nth_error (spec (firstn m1 ops) ++ infl1) i = Some x /\
                   nth_error (spec (firstn m2 ops) ++ infl2) i = Some y /\ fst x = fst y /\
                   (e = x \/ e = y \/ e = (fst x, (fst (snd x), snd (snd y))))) /\
    (8 + total (spec (firstn m1 ops) ++ infl1) <= pg -> l = spec (firstn m1 ops) ++ infl1) /\
    (firstn (length (spec (firstn m1 ops) ++ infl1)) (spec (firstn m2 ops) ++ infl2) = spec (firstn m1 ops) ++ infl1 ->
     l = spec (firstn m1 ops) ++ infl1).
Proof. exact il_entries. Qed.
Print Assumptions C11_interleaved_entries.

(* the reader that is atomic with respect to the writer is the case b1 = b2 *)
Theorem C11_interleaved_atomic : forall pg b, read_all_from_file_il pg b b = read_all_from_file pg b.
Proof. exact il_atomic. Qed.
Print Assumptions C11_interleaved_atomic.

(* What a NON-atomic read of a file with more than one block in use is NOT (witnesses at isz = 64, block size 32; trace
   = 3 effects of __init__, then the slice writes of the operations):
   (1) it need not be a prefix state: with key a in the first block and key b beyond it, a reader whose two reads
       straddle `write a; write b` returns a old, b new - each entry is from a prefix state, the list as a whole is the
       state after no prefix of the history;
   (2) it need not even be made of (value, timestamp) pairs that were written: a key whose value sits in the last 8
       bytes of the first block has its timestamp in the second, and a reader whose two reads straddle one
       write_value(key, v2, t2) returns (v1, t2).  The single 16-byte slice assignment makes the update atomic on
       the file; two reads split at an 8-aligned boundary undo that for this one entry. *)
Definition ex_v1 : bytes := [1;1;1;1;1;1;1;1].
Definition ex_t1 : bytes := [2;2;2;2;2;2;2;2].
Definition ex_v2 : bytes := [3;3;3;3;3;3;3;3].
Definition ex_t2 : bytes := [4;4;4;4;4;4;4;4].
Definition ex_mixed : list op :=
  [Write [97] ex_v1 ex_t1; Write [98] ex_v1 ex_t1; Write [97] ex_v2 ex_t2; Write [98] ex_v2 ex_t2].
Definition ex_torn : list op := [Write [97;98;99;100] ex_v1 ex_t1; Write [97;98;99;100] ex_v2 ex_t2].
Theorem C11_interleaved_not_a_prefix_state :
  (* (1) first read after operation 2 (cut 9), second read after operation 4 (cut 11) *)
  (do tr <- trace 64 ex_mixed; read_il_at 32 tr 9 11) = Ok [([97], (ex_v1, ex_t1)); ([98], (ex_v2, ex_t2))] /\
  (forall m, (m <= 4)%nat -> spec (firstn m ex_mixed) <> [([97], (ex_v1, ex_t1)); ([98], (ex_v2, ex_t2))]) /\
  (* (2) first read after operation 1 (cut 6), second read after operation 2 (cut 7) *)
  (do tr <- trace 64 ex_torn; read_il_at 32 tr 6 7) = Ok [([97;98;99;100], (ex_v1, ex_t2))] /\
  ~ written ex_torn ([97;98;99;100], (ex_v1, ex_t2)).
Proof.
  split; [vm_compute; reflexivity|]. split.
  - intros m Hm. destruct m as [|[|[|[|[|m]]]]]; try lia; vm_compute; discriminate.
  - split; [vm_compute; reflexivity|].
    unfold written, ex_torn. cbn [fst snd In]. intros [[H|[H|[]]]|[H _]]; discriminate.
Qed.
Print Assumptions C11_interleaved_not_a_prefix_state.

(* non-vacuity, and the theorem separates readers: with the writer completing one append between the two reads
   (first read at cut 6: key a complete, 32 bytes in use, block size 24; second read at cut 8: key b appended and
   published) the pinned reader returns the state of its first read.  A reader that instead re-reads the first
   `used` bytes from offset 0 and lets the parser take the header from that second buffer (the length fixed by the first
   header, the bound taken from the second) runs off its buffer: struct.error, and the scrape fails. *)
Definition ex_reread_reader (pg : N) (b1 b2 : bytes) : res (list entry) :=
  let data := take pg b1 in
  if len data =? 0 then Ok [] else
  do u <- unpack_i data 0;
  let data' := if (Z.of_N (len data) <? u)%Z then take (Z.to_N u) b2 else data in
  do l <- read_all_values_raw data' 0; Ok (drop_pos l).
Example C11_example_interleaved :
  match trace 64 ex_ops with
  | Ok tr =>
      length tr = 8%nat /\
      read_il_at 24 tr 6 8 = Ok [([97], ([1;2;3;4;5;6;7;8], zero8))] /\
      read_il_at 24 tr 8 8 = Ok (spec ex_ops) /\
      (do f1 <- cut 6 tr; do f2 <- cut 8 tr;
       match f1, f2 with Some b1, Some b2 => ex_reread_reader 24 b1 b2 | _, _ => Err OSError end) = Err StructError
  | Err _ => False
  end.
Proof. vm_compute. repeat split; reflexivity. Qed.
