(* C11 - Every intermediate on-disk state of the store is readable and a prefix state.
   Statements only.  Model: model/MmapDict.v.  Every writer operation is a list of file effects
   (Create | Truncate n | WriteSlice off bytes, in program order); `trace isz ops` is the whole effect trace of
   MmapedDict(path) on a missing path followed by ops; `cut n tr` is the file after the first n effects - what a
   concurrent collector, or anybody after a SIGKILL of the writer at that point, finds on disk.
   The reader `read_all_from_file` is the REPAIRED MmapedDict.read_all_values_from_file (fixes/C11-empty-file.diff:
   a 0-byte file holds no entries); `read_all_from_file_orig` is the pinned source, refuted below.
   close() is an operation with its own (empty) effect list `close_effects`; `wtrace` is the trace of a writer whose
   forked children close the handles they inherited in between (C11_prefix_forked); `read_listed` is the collector's
   read of one listed file, which may have vanished since the listing (the two C11_vanished theorems).
   Granularity: one slice assignment is one atomic effect (trusted: a slice write to a shared mapping is observed
   whole).  Strength: partial in that sense only; all histories, all cuts. *)
From V Require Import lib.PyBase model.MmapDict proofs.MmapDictProofs.
Open Scope N_scope.

(* For every history and every cut n >= 1 of its effect trace (n = 0 is "no file yet"):
   - the reader returns Ok (state after the first m operations ++ infl), m <= number of operations, where infl is
     empty or is the single NEW key of operation m+1 at (0.0, 0.0)  [inflight_ok];
   - a new writer can open the cut file; after the effects of its __init__ it is in the representation invariant
     for that same state, so all of C10 applies to whatever it does next;
   - the cut file is empty only at n = 1 (created, not yet sized). *)
Theorem C11_prefix : forall isz pg, 8 <= isz -> 4 <= pg -> forall ops tr,
  Forall wf_op ops -> 8 + total (spec ops) < 2147483648 -> trace isz ops = Ok tr ->
  forall n, (1 <= n)%nat ->
  exists bn m infl,
    cut n tr = Ok (Some bn) /\ (m <= length ops)%nat /\
    read_all_from_file pg bn = Ok (spec (firstn m ops) ++ infl) /\
    inflight_ok [] (firstn m ops) (nth_error ops m) infl /\
    (exists h' tr' b', open_ isz (Some bn) = Ok (h', tr') /\ apply_effects (Some bn) tr' = Ok (Some b') /\
                       Rep isz b' h' (spec (firstn m ops) ++ infl)) /\
    ((n = 1%nat /\ bn = []) \/ 8 <= len bn).
Proof. exact cuts_spec. Qed.
Print Assumptions C11_prefix.

(* the trace exists: the writer itself never fails *)
Theorem C11_trace_total : forall isz pg, 8 <= isz -> 4 <= pg -> forall ops,
  Forall wf_op ops -> 8 + total (spec ops) < 2147483648 -> exists tr, trace isz ops = Ok tr.
Proof. exact trace_ok. Qed.
Print Assumptions C11_trace_total.

(* the same from ANY represented state (e.g. after a reopen of a cut file): every prefix of the effects of any
   continuation leaves a represented file for a prefix state (+ in-flight key) *)
Theorem C11_prefix_from : forall isz pg, 8 <= isz -> 4 <= pg -> forall ops b h es,
  Rep isz b h es -> Forall wf_op ops -> 8 + total (spec_from es ops) < 2147483648 ->
  exists h' tr b', run_from isz (Some b, h) ops = Ok (Some b', h', tr) /\
    apply_effects (Some b) tr = Ok (Some b') /\ Rep isz b' h' (spec_from es ops) /\
    forall n, exists bn m infl,
      apply_effects (Some b) (firstn n tr) = Ok (Some bn) /\ (m <= length ops)%nat /\
      Cut isz bn (spec_from es (firstn m ops) ++ infl) /\
      inflight_ok es (firstn m ops) (nth_error ops m) infl.
Proof. exact run_from_spec. Qed.
Print Assumptions C11_prefix_from.

(* one dead worker can never make the reading phase of a scrape fail: in a directory of worker files, each some
   history stopped at an arbitrary cut, the reader returns Ok on every file (the merge that follows is C08's) *)
Theorem C11_scrape_isolated : forall isz pg, 8 <= isz -> 4 <= pg -> forall ws,
  Forall worker_ok ws -> Forall (worker_readable isz pg) ws.
Proof. exact all_workers_readable. Qed.
Print Assumptions C11_scrape_isolated.

(* a key or value that was never written never appears: every entry of such a state was stored by a write_value of
   exactly that (key, value, timestamp) among the first m operations, or zero-initialised by a read_value among them,
   or is the in-flight key of operation m+1 at zero *)
Theorem C11_never_unwritten : forall ops m infl e,
  inflight_ok [] (firstn m ops) (nth_error ops m) infl -> In e (spec (firstn m ops) ++ infl) ->
  written (firstn m ops) e \/ (exists o k, nth_error ops m = Some o /\ keyof o = Some k /\ e = e0 k).
Proof. exact prefix_state_written. Qed.
Print Assumptions C11_never_unwritten.

(* the value update is one 16-byte slice and rewrites exactly the addressed entry, nothing else *)
Theorem C11_value_update_exact : forall es p pre junk k x pos,
  Forall wf_entry es -> wf_value x -> len pre = p -> d_find keq (offsets p es) k = Some pos ->
  apply_effect (Some (pre ++ flat es ++ junk)) (WriteSlice pos (fst x ++ snd x))
  = Ok (Some (pre ++ flat (d_set keq es k x) ++ junk)).
Proof. exact write_value_at. Qed.
Print Assumptions C11_value_update_exact.

(* close() has no file effect, whatever the handle: the file after close() is the file before it.  close() is also run
   by a forked child on the handles it inherited (values.py, pid change) while the parent is still a live writer of the
   same file, so anything else would pull the file from under the parent's mapping. *)
Theorem C11_close_keeps_file : forall (h : handle) (f : fstate), apply_effects f (close_effects h) = Ok f.
Proof. exact close_keeps_file. Qed.
Print Assumptions C11_close_keeps_file.

(* one writer and forked children: ws interleaves the writer's own operations with Fork (a child inherits a copy of
   the handle as it is then) and CloseInherited (the oldest child closes its - possibly stale - copy).  Every cut of
   the whole effect trace is a prefix state of the writer's OWN operations, exactly as in C11_prefix. *)
Theorem C11_prefix_forked : forall isz pg, 8 <= isz -> 4 <= pg -> forall ws tr,
  Forall wf_op (own_ops ws) -> 8 + total (spec (own_ops ws)) < 2147483648 -> wtrace isz ws = Ok tr ->
  forall n, (1 <= n)%nat ->
  exists bn m infl,
    cut n tr = Ok (Some bn) /\ (m <= length (own_ops ws))%nat /\
    read_all_from_file pg bn = Ok (spec (firstn m (own_ops ws)) ++ infl) /\
    inflight_ok [] (firstn m (own_ops ws)) (nth_error (own_ops ws) m) infl /\
    (exists h' tr' b', open_ isz (Some bn) = Ok (h', tr') /\ apply_effects (Some bn) tr' = Ok (Some b') /\
                       Rep isz b' h' (spec (firstn m (own_ops ws)) ++ infl)) /\
    ((n = 1%nat /\ bn = []) \/ 8 <= len bn).
Proof.
  intros isz pg Hi Hp ws tr Hwf Hb Htr.
  apply (cuts_spec isz pg Hi Hp (own_ops ws) tr Hwf Hb). apply (wcuts_spec isz pg Hi Hp ws tr Hwf Hb Htr).
Qed.
Print Assumptions C11_prefix_forked.

(* the same from any represented state, with any set of inherited copies already around *)
Theorem C11_prefix_forked_from : forall isz pg, 8 <= isz -> 4 <= pg -> forall ws b h inh es,
  Rep isz b h es -> Forall wf_op (own_ops ws) -> 8 + total (spec_from es (own_ops ws)) < 2147483648 ->
  exists h' inh' tr b',
    wrun_from isz (Some b, h, inh) ws = Ok (Some b', h', inh', tr) /\
    apply_effects (Some b) tr = Ok (Some b') /\ Rep isz b' h' (spec_from es (own_ops ws)) /\
    (forall n, exists bn m infl,
        apply_effects (Some b) (firstn n tr) = Ok (Some bn) /\ (m <= length (own_ops ws))%nat /\
        Cut isz bn (spec_from es (firstn m (own_ops ws)) ++ infl) /\
        inflight_ok es (firstn m (own_ops ws)) (nth_error (own_ops ws) m) infl).
Proof. exact wrun_from_spec. Qed.
Print Assumptions C11_prefix_forked_from.

(* a file that vanished between the collector's listing and its read (f = None) is skipped exactly when it is a live
   gauge file - typ = 'gauge' and parts[1] starts with 'live', the files mark_process_dead removes - ... *)
Theorem C11_vanished_live_tolerated : forall pg s, read_listed pg S_GAUGE (S_LIVE ++ s) None = Ok [].
Proof. exact vanished_live_ok. Qed.
Print Assumptions C11_vanished_live_tolerated.

(* ... and fails the scrape otherwise (the data of a counter, histogram, summary or non-live gauge file is never
   dropped silently) *)
Theorem C11_vanished_other_raises : forall pg typ p1,
  ~ (typ = S_GAUGE /\ exists s, p1 = S_LIVE ++ s) -> read_listed pg typ p1 None = Err OSError.
Proof. exact vanished_other_raises. Qed.
Print Assumptions C11_vanished_other_raises.

(* F8: with the pinned reader the statement is false at the first cut of EVERY history: after open(path, 'a+b') and
   before truncate the file has size 0 and read_all_values_from_file raises struct.error (which fails the scrape) *)
Theorem C11_prefix_orig_refuted : forall isz pg, 8 <= isz -> 4 <= pg -> forall tr ops,
  trace isz ops = Ok tr ->
  cut 1 tr = Ok (Some []) /\ read_all_from_file_orig pg [] = Err StructError.
Proof. exact first_cut_orig_fails. Qed.
Print Assumptions C11_prefix_orig_refuted.

(* ... and only there: on every non-empty file the repaired reader IS the original one *)
Theorem C11_fix_conservative : forall pg b, len (take pg b) <> 0 ->
  read_all_from_file pg b = read_all_from_file_orig pg b.
Proof. exact reader_fix_conservative. Qed.
Print Assumptions C11_fix_conservative.

(* non-vacuity: the cuts of a two-operation history at the real sizes; cut 1 is the empty file, cut 5 has the new key
   in flight at zero, cut 6 is the completed first write *)
Definition ex_ops : list op := [Write [97] [1;2;3;4;5;6;7;8] zero8; ReadV [98]].
Example C11_example :
  Forall wf_op ex_ops /\ 8 + total (spec ex_ops) < 2147483648 /\
  match trace 65536 ex_ops with
  | Ok tr =>
      length tr = 8%nat /\
      (do f <- cut 1 tr; match f with Some b => read_all_from_file 4096 b | None => Err OSError end) = Ok [] /\
      (do f <- cut 1 tr; match f with Some b => read_all_from_file_orig 4096 b | None => Err OSError end) = Err StructError /\
      (do f <- cut 2 tr; match f with Some b => read_all_from_file 4096 b | None => Err OSError end) = Ok [] /\
      (do f <- cut 4 tr; match f with Some b => read_all_from_file 4096 b | None => Err OSError end) = Ok [] /\
      (do f <- cut 5 tr; match f with Some b => read_all_from_file 4096 b | None => Err OSError end) = Ok [([97], (zero8, zero8))] /\
      (do f <- cut 6 tr; match f with Some b => read_all_from_file 4096 b | None => Err OSError end) = Ok [([97], ([1;2;3;4;5;6;7;8], zero8))] /\
      (do f <- cut 8 tr; match f with Some b => read_all_from_file 4096 b | None => Err OSError end) = Ok (spec ex_ops)
  | Err _ => False
  end.
Proof.
  split; [repeat constructor|]. split; [vm_compute; reflexivity|].
  vm_compute. repeat split; reflexivity.
Qed.

(* non-vacuity: the five live modes of Gauge._MULTIPROC_MODES are tolerated, the five others and the other file types
   are not; a forked child's close between two appends of the writer leaves the trace of the writer alone *)
Example C11_example_vanish :
  (* liveall livemin livemax livesum livemostrecent *)
  Forall (fun m => read_listed 4096 S_GAUGE m None = Ok [])
    [[108;105;118;101;97;108;108]; [108;105;118;101;109;105;110]; [108;105;118;101;109;97;120];
     [108;105;118;101;115;117;109]; [108;105;118;101;109;111;115;116;114;101;99;101;110;116]] /\
  (* all min max sum mostrecent *)
  Forall (fun m => read_listed 4096 S_GAUGE m None = Err OSError)
    [[97;108;108]; [109;105;110]; [109;97;120]; [115;117;109]; [109;111;115;116;114;101;99;101;110;116]] /\
  (* counter_<pid>.db: typ = counter, parts[1] = '<pid>.db' *)
  read_listed 4096 [99;111;117;110;116;101;114] [55;55;55;46;100;98] None = Err OSError.
Proof. vm_compute. repeat constructor. Qed.

Example C11_example_forked :
  wtrace 65536 [Own (Write [97] [1;2;3;4;5;6;7;8] zero8); Fork; Own (ReadV [98]); CloseInherited; Own (ReadV [99])]
  = trace 65536 [Write [97] [1;2;3;4;5;6;7;8] zero8; ReadV [98]; ReadV [99]].
Proof. vm_compute. reflexivity. Qed.
