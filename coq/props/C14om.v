(* C14 (OpenMetrics half) - the OpenMetrics parser is total: any input ends in families or ValueError.
   Statements only.  Model: model/OMParser.v; proofs: proofs/OMProofs.v, proofs/OMWitness.v.

   What is proved here:
   * C14_om_*_orig_refuted: the pinned source is NOT total - concrete documents on which the model of the pinned source
     (repair flag off) ends in KeyError / TypeError / AttributeError / OverflowError, and on which the model of the
     repaired source (flag on, fixes/C14-om-*.diff) ends in ValueError or families.  The witnesses are evaluated
     with the ASCII instance of the CPython oracles of proofs/OMWitness.v; the same documents are replayed against the
     real code in every run (harness/omgen.py REGRESSION_DOCS).
   * C14_om_checks_total: for the repaired source, the per-sample stage of the line loop (the checks in front
     of the grouping code, the grouping / timestamp / duplicate bookkeeping, the value and exemplar checks) raises
     nothing but ValueError on every sample that carries a value and labels, for ARBITRARY oracles; the first set of
     checks is what guards the dictionary deletions of the grouping code.
   The full property - the whole-document function returns families or ValueError for every input string and every
   oracle, termination included (C14_om_total), with one theorem per reader (_parse_sample, _parse_remaining_text,
   _parse_nh_sample, _parse_nh_struct, parse_labels in OpenMetrics mode), for _check_histogram / build_metric under
   the invariants of the line loop, and for the fuel of the regex / scanning loops - is stated in props/C14omt.v
   (proofs/OMTotal.v); the statement here is one of its ingredients. *)
From V Require Import lib.PyBase lib.PyStr model.Validation model.Expo model.TextParser model.OMParser
  proofs.OMProofs proofs.OMWitness proofs.OMNhProofs.
Open Scope N_scope.

(* F12: a native-histogram value without its required fields *)
Theorem C14_om_nh_missing_field_orig_refuted :
  toy_parse false true true true true true doc_F12 = Err KeyError
  /\ toy_parse true true true true true true doc_F12 = Err ValueError.
Proof. exact (conj F12_orig F12_fixed). Qed.
Print Assumptions C14_om_nh_missing_field_orig_refuted.

(* F13 and its twin: a native-histogram sample named <family>_total / _gsum / _gcount reaches the float checks *)
Theorem C14_om_nh_value_suffix_orig_refuted :
  toy_parse true false true true true true doc_F13 = Err TypeError
  /\ toy_parse true false true true true true doc_gcount = Err AttributeError
  /\ toy_parse true false true true true true doc_qname = Err AttributeError   (* quoted name: suffix test ran on '' *)
  /\ toy_parse true true true true true true doc_F13 = Err ValueError
  /\ toy_parse true true true true true true doc_gcount = Err ValueError
  /\ toy_parse true true true true true true doc_qname = Err ValueError.
Proof. exact (conj F13_orig (conj gcount_orig (conj qname_orig (conj F13_fixed (conj gcount_fixed qname_fixed))))). Qed.
Print Assumptions C14_om_nh_value_suffix_orig_refuted.

(* F14: Timestamp(1, 0) compared with the float 1.5 inside one group *)
Theorem C14_om_mixed_timestamps_orig_refuted :
  toy_parse true true false true true true doc_F14 = Err AttributeError
  /\ toy_parse true true true true true true doc_F14 = Err ValueError.
Proof. exact (conj F14_orig F14_fixed). Qed.
Print Assumptions C14_om_mixed_timestamps_orig_refuted.

(* math.isnan on a 401-digit integer counter value *)
Theorem C14_om_isnan_overflow_orig_refuted :
  toy_parse true true true false true true doc_huge = Err OverflowError
  /\ is_ok (toy_parse true true true true true true doc_huge) = true.
Proof. exact (conj huge_orig huge_fixed). Qed.
Print Assumptions C14_om_isnan_overflow_orig_refuted.

Section C14om.
  Variable fix_isnan fix_tsmix : bool.
  Variable NUM : Type.
  Variable parse_float : str -> option NUM.
  Variable num_lt num_eqb : NUM -> NUM -> bool.
  Variable num_integral num_huge : NUM -> bool.
  Variable num_zero num_one num_inf : NUM.
  Variable ts_float : Z -> Z -> option NUM.

  Notation post_checks := (om_post_checks fix_isnan NUM num_lt num_eqb num_huge num_zero num_one).
  Notation pre_checks := (om_pre_checks NUM parse_float num_lt num_eqb num_integral num_zero num_one num_inf).
  Notation group_step := (om_group_step fix_tsmix NUM num_lt num_eqb ts_float).

  Theorem C14_om_checks_total : forall st name s v l,
    fix_isnan = true -> fix_tsmix = true -> os_value s = Some v -> os_labels s = Some l ->
    only_VE (pre_checks name (st_typ st) s)
    /\ (pre_checks name (st_typ st) s = Ok tt -> only_VE (group_step st name s))
    /\ only_VE (post_checks name (st_typ st) s).
  Proof.
    intros st name s v l F1 F2 Hv Hl. split; [|split].
    - eapply pre_checks_only_VE; eassumption.
    - intros H. eapply group_step_only_VE; try eassumption. eapply pre_checks_guard; eassumption.
    - eapply post_checks_only_VE; eassumption.
  Qed.
End C14om.
Print Assumptions C14_om_checks_total.

(* _compose_deltas never reads its unbound local `elems` (UnboundLocalError): whatever the text of the native-histogram
   value, the dictionary built from re_deltas.findall holds only captures that start with '-' or a \d character, and
   those do not strip to the empty text.  Platform fact used (Section hypothesis, checked over all code points by
   harness/c14om.check_platform_facts at every run): a \d character is not str.strip() whitespace.
   This is the invariant a pattern accepting the empty list [] breaks. *)
Theorem C14_om_compose_deltas_bound :
  forall (is_digit_re : char -> bool) (parse_int : str -> option Z),
    (forall c, is_digit_re c = true -> is_space_uni c = false) ->
    forall text l name,
      om_findall (om_deltas_at is_digit_re) text = Ok l ->
      om_compose_deltas parse_int (om_dict_of l []) name <> Err UnboundLocalError.
Proof. exact compose_deltas_bound. Qed.
Print Assumptions C14_om_compose_deltas_bound.
