(* C17 - HTTP front-ends serve a body that matches the negotiated headers, and agree.
   Statements only; every proof is `exact <lemma>` (proofs/HttpProofs.v).
   Model: model/Http.v (choose_encoder, gzip_accepted, _bake_output, the WSGI app, the ASGI app,
   MetricsHandler.do_GET); specification side: model/HttpSpec.v (what "the header lists a token" means,
   stated without split/strip; how the runtimes hand one request to the three front-ends).

   PARTIAL by design: wsgiref, http.server / email.parser, gzip, urllib.parse (parse_qs, urlparse) and
   the codecs are trusted runtime.  They appear as universally quantified functions
   (lower, parse_qs, urlquery, encode, gzip, gunzip); the only facts assumed of them are the two
   hypotheses written in the statements:
     lower_gzip   : forall s, lower s = "gzip" <-> s is one of the 16 ASCII case variants of gzip
                    (validated against CPython on every run of the harness, see harness/c17.py)
     gunzip_gzip  : forall b, gunzip (gzip b) = b.
   The models h_asgi_app / h_handler_get describe the REPAIRED sources (fixes/C17-*.diff);
   h_asgi_app_orig / h_handler_get_orig are the pinned sources, refuted below.

   "The registry restricted to the name[] values": model/HttpReg.v gives the symbolic body its meaning over
   the registry model of C06/C07 (model/Registry.v: collect, restricted = RestrictedRegistry.collect) and the
   C17_body_* theorems say that the families behind the body of each front-end are the FILTER of the full
   collection (RegistrySpec.filter_collection): each family at most once, exactly the requested sample
   names, whatever the order / repetition of the name[] values and however many of them one collector
   owns.  Hypotheses: Inv r (holds of every registry reached by register / unregister / set_target_info
   calls, C17_built_registry_inv) and well_described (a collector yields only sample names it claimed;
   without it a restricted registry can not find the collector at all - C07). *)
From V Require Import lib.PyBase model.Registry model.RegistrySpec model.Http model.HttpSpec model.HttpReg
  proofs.HttpProofs proofs.HttpRegProofs.
From Coq Require Import Permutation.
Open Scope N_scope.

(* ---- the three string functions mean what the specification says (for all strings) *)
Theorem C17_tokenizer_spec :
  (forall h e, In e (h_split H_COMMA h) <-> list_element h e)
  /\ (forall c s p, h_before c s = p <->
        exists rest, s = p ++ rest /\ ~ In c p /\ (rest = [] \/ exists r, rest = c :: r))
  /\ (forall s t, h_strip s = t <->
        exists w1 w2, s = w1 ++ t ++ w2 /\ all_space w1 /\ all_space w2 /\ trimmed t)
  /\ (forall e t, h_strip (h_before H_SEMI e) = t <-> element_token e t).
Proof. exact tokenizer_spec. Qed.
Print Assumptions C17_tokenizer_spec.

(* ---- OpenMetrics is chosen IFF some comma-separated element of the Accept header, cut at its first ';'
        and stripped, equals the media type exactly - for ALL header values, absent header included *)
Theorem C17_om_iff_token : forall h,
  fst (h_choose_encoder h) = HOM <->
  exists e, In e (h_split H_COMMA (h_or_empty h)) /\ h_strip (h_before H_SEMI e) = H_OM_TYPE.
Proof. exact om_iff_token. Qed.
Print Assumptions C17_om_iff_token.

(* the same, against the specification that does not mention split / strip *)
Theorem C17_om_iff_listed : forall h,
  (fst (h_choose_encoder h) = HOM <-> lists_token (h_or_empty h) (fun t => t = H_OM_TYPE))
  /\ (fst (h_choose_encoder h) = HText <-> ~ lists_token (h_or_empty h) (fun t => t = H_OM_TYPE))
  /\ snd (h_choose_encoder h) = h_content_type (fst (h_choose_encoder h)).
Proof. exact om_iff_listed_full. Qed.
Print Assumptions C17_om_iff_listed.

(* ---- gzip is accepted IFF some element's token is gzip in any ASCII case *)
Theorem C17_gzip_iff_token : forall lower,
  (forall s, lower s = H_GZIP <-> h_ci_gzip s = true) ->
  forall h, h_gzip_accepted lower h = true <->
    exists e, In e (h_split H_COMMA (h_or_empty h)) /\ h_ci_gzip (h_strip (h_before H_SEMI e)) = true.
Proof. exact gzip_accepted_iff. Qed.
Print Assumptions C17_gzip_iff_token.

Theorem C17_gzip_iff_listed : forall lower,
  (forall s, lower s = H_GZIP <-> h_ci_gzip s = true) ->
  forall h, h_gzip_accepted lower h = true <-> lists_token (h_or_empty h) (fun t => h_ci_gzip t = true).
Proof. exact gzip_iff_lists. Qed.
Print Assumptions C17_gzip_iff_listed.

(* ---- the WSGI answer to every GET (other than the favicon): 200, Content-Type of the body's format,
        OpenMetrics iff listed, restricted to the name[] values, gzip iff enabled and listed,
        Content-Encoding iff gzip *)
Theorem C17_wsgi_get : forall lower parse_qs dis (env : assoc str str) (p : str),
  (forall s, lower s = H_GZIP <-> h_ci_gzip s = true) ->
  d_find str_eqb env H_ENV_METHOD = Some H_GET ->
  d_find str_eqb env H_ENV_PATH = Some p -> p <> H_FAVICON ->
  exists r, h_wsgi_app lower parse_qs dis env = Ok r
    /\ h_status_code (h_status r) = 200
    /\ exists f gz,
         h_body r = HB_expo f (d_find str_eqb (parse_qs (h_or_empty (d_find str_eqb env H_ENV_QUERY))) H_NAME_KEY) gz
      /\ h_header r H_CONTENT_TYPE = Some (h_content_type f)
      /\ (f = HOM <-> lists_token (h_or_empty (d_find str_eqb env H_ENV_ACCEPT)) (fun t => t = H_OM_TYPE))
      /\ (f = HText <-> ~ lists_token (h_or_empty (d_find str_eqb env H_ENV_ACCEPT)) (fun t => t = H_OM_TYPE))
      /\ (gz = true <-> dis = false /\
            lists_token (h_or_empty (d_find str_eqb env H_ENV_ACCEPT_ENCODING)) (fun t => h_ci_gzip t = true))
      /\ h_header r H_CONTENT_ENCODING = (if gz then Some H_GZIP else None).
Proof. exact wsgi_get_spec. Qed.
Print Assumptions C17_wsgi_get.

(* ---- the same answer, stated directly for the ASGI app and for MetricsHandler (get_answer is the
        conjunction proved for WSGI above: 200, Content-Type of the format, OpenMetrics iff listed,
        gzip iff enabled and listed, Content-Encoding iff gzip, body restricted to the name[] values) *)
Theorem C17_asgi_get : forall lower parse_qs dis (hdrs : list (str * str)) (q : option str),
  (forall s, lower s = H_GZIP <-> h_ci_gzip s = true) ->
  exists code hs b,
    h_asgi_app lower parse_qs dis hdrs q true = [HA_start code hs; HA_body b]
    /\ get_answer dis (h_join H_COMMA (asgi_lines lower hdrs H_ACCEPT))
                  (h_join H_COMMA (asgi_lines lower hdrs H_ACCEPT_ENCODING))
                  (d_find str_eqb (parse_qs (h_or_empty q)) H_NAME_KEY) code hs b.
Proof. exact asgi_get_spec. Qed.
Print Assumptions C17_asgi_get.

Theorem C17_handler_get : forall lower parse_qs urlquery (accepts aencs : list str) (path : str),
  (forall s, lower s = H_GZIP <-> h_ci_gzip s = true) ->
  let o := h_handler_get lower parse_qs urlquery accepts aencs path in
  get_answer false (h_join H_COMMA accepts) (h_join H_COMMA aencs)
             (d_find str_eqb (parse_qs (urlquery path)) H_NAME_KEY) (hh_code o) (hh_headers o) (hh_body o).
Proof. exact handler_get_spec. Qed.
Print Assumptions C17_handler_get.

(* ---- the three front-ends give the same (status, Content-Type, Content-Encoding, body) for one request.
        One request = Accept field lines `accepts`, Accept-Encoding field lines `aencs`, query `q`:
        WSGI sees the lines joined with ',' (no key when there is none), ASGI the header list,
        MetricsHandler get_all() and a path whose query part is q; MetricsHandler always compresses. *)
Theorem C17_frontends_agree : forall lower parse_qs urlquery dis (env : assoc str str)
    (hdrs : list (str * str)) (q : option str) (accepts aencs : list str) (path p : str),
  d_find str_eqb env H_ENV_METHOD = Some H_GET ->
  d_find str_eqb env H_ENV_PATH = Some p -> p <> H_FAVICON ->
  d_find str_eqb env H_ENV_ACCEPT = wsgi_joined accepts ->
  d_find str_eqb env H_ENV_ACCEPT_ENCODING = wsgi_joined aencs ->
  d_find str_eqb env H_ENV_QUERY = q ->
  asgi_lines lower hdrs H_ACCEPT = accepts ->
  asgi_lines lower hdrs H_ACCEPT_ENCODING = aencs ->
  urlquery path = h_or_empty q ->
  h_obs_asgi (h_asgi_app lower parse_qs dis hdrs q true) = h_obs_wsgi (h_wsgi_app lower parse_qs dis env)
  /\ (dis = false ->
      h_obs_handler (h_handler_get lower parse_qs urlquery accepts aencs path)
      = h_obs_wsgi (h_wsgi_app lower parse_qs dis env)).
Proof. exact frontends_agree. Qed.
Print Assumptions C17_frontends_agree.

(* repeated field lines count as one comma-joined list: listed in the joined value iff listed in a line *)
Theorem C17_repeated_field_lines : forall lower (lines : list str), lower [] <> H_GZIP ->
  h_om_listed (Some (h_join H_COMMA lines)) = existsb (fun v => h_om_listed (Some v)) lines
  /\ h_gzip_accepted lower (Some (h_join H_COMMA lines)) = existsb (fun v => h_gzip_accepted lower (Some v)) lines.
Proof. exact repeated_field_lines. Qed.
Print Assumptions C17_repeated_field_lines.

Theorem C17_listed_in_joined_lines : forall (lines : list str) (P : str -> Prop), lines <> [] ->
  (lists_token (h_join H_COMMA lines) P <-> exists l, In l lines /\ lists_token l P).
Proof. exact lists_token_joined. Qed.
Print Assumptions C17_listed_in_joined_lines.

(* ---- WSGI method dispatch: OPTIONS -> 200 + Allow; any method other than OPTIONS / GET -> 405 + Allow;
        neither reaches the encoder (collect() is not called) *)
Theorem C17_wsgi_methods : forall lower parse_qs dis (env : assoc str str) (m : str),
  d_find str_eqb env H_ENV_METHOD = Some m ->
  (m = H_OPTIONS -> exists r, h_wsgi_app lower parse_qs dis env = Ok r
      /\ h_status_code (h_status r) = 200 /\ h_header r H_ALLOW = Some H_ALLOW_VALUE /\ h_collects r = false)
  /\ (m <> H_OPTIONS -> m <> H_GET -> exists r, h_wsgi_app lower parse_qs dis env = Ok r
      /\ h_status_code (h_status r) = 405 /\ h_header r H_ALLOW = Some H_ALLOW_VALUE /\ h_collects r = false).
Proof. exact wsgi_methods. Qed.
Print Assumptions C17_wsgi_methods.

(* the encoder is reached exactly by GET requests for a path other than /favicon.ico *)
Theorem C17_wsgi_collects_iff : forall lower parse_qs dis (env : assoc str str) r,
  h_wsgi_app lower parse_qs dis env = Ok r ->
  (h_collects r = true <->
     d_find str_eqb env H_ENV_METHOD = Some H_GET /\
     exists p, d_find str_eqb env H_ENV_PATH = Some p /\ p <> H_FAVICON).
Proof. exact wsgi_collects_iff. Qed.
Print Assumptions C17_wsgi_collects_iff.

(* ---- header and body fit together: a client that gunzips exactly when Content-Encoding is present
        recovers the chosen encoder's exposition of the restricted registry *)
Theorem C17_client_roundtrip : forall (encode : hfmt -> option (list str) -> list N) (gzip gunzip : list N -> list N),
  (forall b, gunzip (gzip b) = b) ->
  forall lower accept aenc params dis,
    let r := h_bake_output lower accept aenc params dis in
    client_decode gunzip (h_header r H_CONTENT_ENCODING) (h_body_bytes encode gzip (h_body r))
    = encode (fst (h_choose_encoder accept)) (d_find str_eqb params H_NAME_KEY).
Proof. exact bake_client_roundtrip. Qed.
Print Assumptions C17_client_roundtrip.

(* ---- the pinned ASGI source (parse_qs on bytes: str key 'name[]' never found) disagrees with WSGI on
        EVERY request whose query carries a name[] value ... *)
Theorem C17_frontends_agree_asgi_orig_refuted : forall lower parse_qs dis (env : assoc str str)
    (hdrs : list (str * str)) (q : option str) (accepts aencs : list str) (p : str) (names : list str),
  d_find str_eqb env H_ENV_METHOD = Some H_GET ->
  d_find str_eqb env H_ENV_PATH = Some p -> p <> H_FAVICON ->
  d_find str_eqb env H_ENV_ACCEPT = wsgi_joined accepts ->
  d_find str_eqb env H_ENV_ACCEPT_ENCODING = wsgi_joined aencs ->
  d_find str_eqb env H_ENV_QUERY = q ->
  asgi_lines lower hdrs H_ACCEPT = accepts ->
  asgi_lines lower hdrs H_ACCEPT_ENCODING = aencs ->
  d_find str_eqb (parse_qs (h_or_empty q)) H_NAME_KEY = Some names ->
  h_obs_asgi (h_asgi_app_orig lower dis hdrs q true) <> h_obs_wsgi (h_wsgi_app lower parse_qs dis env).
Proof. exact asgi_orig_disagrees. Qed.
Print Assumptions C17_frontends_agree_asgi_orig_refuted.

(* ... and behaves as the repaired one on the complement (no name[] value) *)
Theorem C17_asgi_orig_partial : forall lower parse_qs dis (hdrs : list (str * str)) (q : option str),
  d_find str_eqb (parse_qs (h_or_empty q)) H_NAME_KEY = None ->
  h_obs_asgi (h_asgi_app_orig lower dis hdrs q true) = h_obs_asgi (h_asgi_app lower parse_qs dis hdrs q true).
Proof. exact asgi_orig_agrees_without_names. Qed.
Print Assumptions C17_asgi_orig_partial.

(* ---- the pinned MetricsHandler source (headers.get: first field line only) disagrees with WSGI on
        GET /metrics with  Accept: text/plain  +  Accept: application/openmetrics-text ... *)
Theorem C17_frontends_agree_handler_orig_refuted :
  let q0 := fun _ : str => @nil (str * list str) in
  h_obs_handler (h_handler_get_orig wit_lower q0 wit_urlquery wit_lines [] (s2l "/metrics"))
  <> h_obs_wsgi (h_wsgi_app wit_lower q0 false wit_env2)
  /\ h_obs_handler (h_handler_get wit_lower q0 wit_urlquery wit_lines [] (s2l "/metrics"))
     = h_obs_wsgi (h_wsgi_app wit_lower q0 false wit_env2).
Proof. exact handler_orig_witness. Qed.
Print Assumptions C17_frontends_agree_handler_orig_refuted.

(* ... and behaves as the repaired one when no field line is repeated *)
Theorem C17_handler_orig_partial : forall lower parse_qs urlquery (accepts aencs : list str) (path : str),
  (length accepts <= 1)%nat -> (length aencs <= 1)%nat ->
  h_handler_get_orig lower parse_qs urlquery accepts aencs path
  = h_handler_get lower parse_qs urlquery accepts aencs path.
Proof. exact handler_orig_agrees_single. Qed.
Print Assumptions C17_handler_orig_partial.

(* ---- the body is the exposition of the FILTER of the full collection: for one registry r (collectors cenv),
        the families handed to the encoder by each front-end are, as a multiset (RestrictedRegistry iterates
        over a Python set of collectors), the full collection cut down to the name[] values - and the full
        collection itself, in order, when there is no name[] value *)
Theorem C17_body_is_filter : forall cenv r, Inv r -> (forall c, registered r c -> well_described cenv r c) ->
  forall lower parse_qs urlquery dis (env : assoc str str) (p : str)
         (hdrs : list (str * str)) (q : option str) (accepts aencs : list str) (path : str),
  d_find str_eqb env H_ENV_METHOD = Some H_GET ->
  d_find str_eqb env H_ENV_PATH = Some p -> p <> H_FAVICON ->
  (exists resp, h_wsgi_app lower parse_qs dis env = Ok resp
     /\ Permutation (h_body_families cenv r (h_body resp))
          (restricted_to (d_find str_eqb (parse_qs (h_or_empty (d_find str_eqb env H_ENV_QUERY))) H_NAME_KEY)
             (collect cenv r)))
  /\ (exists code hs b, h_asgi_app lower parse_qs dis hdrs q true = [HA_start code hs; HA_body b]
     /\ Permutation (h_body_families cenv r b)
          (restricted_to (d_find str_eqb (parse_qs (h_or_empty q)) H_NAME_KEY) (collect cenv r)))
  /\ Permutation (h_body_families cenv r (hh_body (h_handler_get lower parse_qs urlquery accepts aencs path)))
       (restricted_to (d_find str_eqb (parse_qs (urlquery path)) H_NAME_KEY) (collect cenv r)).
Proof. exact frontends_serve_filter. Qed.
Print Assumptions C17_body_is_filter.

Theorem C17_body_unrestricted_exact : forall cenv r, h_collected cenv r None = collect cenv r.
Proof. exact collected_unrestricted. Qed.
Print Assumptions C17_body_unrestricted_exact.

(* one request: the three front-ends hand the SAME family list to the encoder *)
Theorem C17_frontends_same_families : forall cenv r lower parse_qs urlquery dis (env : assoc str str)
    (hdrs : list (str * str)) (q : option str) (accepts aencs : list str) (path p : str),
  d_find str_eqb env H_ENV_METHOD = Some H_GET ->
  d_find str_eqb env H_ENV_PATH = Some p -> p <> H_FAVICON ->
  d_find str_eqb env H_ENV_QUERY = q ->
  urlquery path = h_or_empty q ->
  exists resp code hs b,
    h_wsgi_app lower parse_qs dis env = Ok resp
    /\ h_asgi_app lower parse_qs dis hdrs q true = [HA_start code hs; HA_body b]
    /\ h_body_families cenv r b = h_body_families cenv r (h_body resp)
    /\ h_body_families cenv r (hh_body (h_handler_get lower parse_qs urlquery accepts aencs path))
       = h_body_families cenv r (h_body resp).
Proof. exact frontends_same_families. Qed.
Print Assumptions C17_frontends_same_families.

(* each family at most once - however many of the requested names one collector owns *)
Theorem C17_body_family_once : forall cenv r, Inv r -> (forall c, registered r c -> well_described cenv r c) ->
  forall names,
  (NoDup (map f_name (collect cenv r)) -> NoDup (map f_name (h_collected cenv r names)))
  /\ (length (h_collected cenv r names) <= length (collect cenv r))%nat.
Proof. exact body_family_once. Qed.
Print Assumptions C17_body_family_once.

(* exactly the requested sample names: nothing else is served, nothing requested is lost *)
Theorem C17_body_requested_samples : forall cenv r, Inv r -> (forall c, registered r c -> well_described cenv r c) ->
  forall ns,
  (forall g s, In g (h_collected cenv r (Some ns)) -> In s (f_samples g) -> In (s_name s) ns)
  /\ (forall f s, In f (collect cenv r) -> In s (f_samples f) -> In (s_name s) ns ->
        exists g, In g (h_collected cenv r (Some ns)) /\ f_name g = f_name f /\ In s (f_samples g)).
Proof. exact body_requested_samples. Qed.
Print Assumptions C17_body_requested_samples.

(* the name[] values are a set: order and repetition do not matter *)
Theorem C17_body_name_set : forall cenv r, Inv r -> (forall c, registered r c -> well_described cenv r c) ->
  forall ns ns', (forall n, In n ns <-> In n ns') ->
  Permutation (h_collected cenv r (Some ns)) (h_collected cenv r (Some ns')).
Proof. exact collected_name_set. Qed.
Print Assumptions C17_body_name_set.

(* what the filter is, family by family *)
Theorem C17_filter_spec : forall ns fams g,
  In g (restricted_to (Some ns) fams) <->
  exists f, In f fams /\ filter (keep ns) (f_samples f) <> []
    /\ g = mk_family (f_name f) (f_typ f) (f_help f) (f_unit f) (filter (keep ns) (f_samples f)).
Proof. exact filter_collection_in. Qed.
Print Assumptions C17_filter_spec.

(* every registry built by CollectorRegistry(target_info=l) + register calls satisfies Inv *)
Theorem C17_built_registry_inv : forall cenv a l cs, Inv (h_build_registry cenv a l cs).
Proof. exact build_registry_inv. Qed.
Print Assumptions C17_built_registry_inv.

(* header and body fit together, over families: the client recovers the chosen encoder's exposition of the
   collected families *)
Theorem C17_client_roundtrip_families : forall cenv (encode : hfmt -> list family -> list N) (gzip gunzip : list N -> list N),
  (forall b, gunzip (gzip b) = b) ->
  forall r lower accept aenc params dis,
    let resp := h_bake_output lower accept aenc params dis in
    client_decode gunzip (h_header resp H_CONTENT_ENCODING) (h_body_bytes_reg cenv encode gzip r (h_body resp))
    = encode (fst (h_choose_encoder accept)) (h_collected cenv r (d_find str_eqb params H_NAME_KEY)).
Proof. exact bake_client_roundtrip_reg. Qed.
Print Assumptions C17_client_roundtrip_families.

(* ---- non-vacuity *)
(* the hypothesis on lower is satisfiable (ASCII lower-casing meets it) *)
Example C17_lower_gzip_satisfiable : forall s, ascii_lower s = H_GZIP <-> h_ci_gzip s = true.
Proof. exact ascii_lower_gzip. Qed.

(* a concrete request: Prometheus' own Accept value, "deflate, GZip;q=0.5", name[]=temp *)
Example C17_example :
  let accept := s2l "application/openmetrics-text;version=1.0.0;q=0.5,text/plain;version=0.0.4;q=0.3,*/*;q=0.2" in
  let aenc := s2l "deflate, GZip;q=0.5" in
  let env := [(H_ENV_METHOD, H_GET); (H_ENV_PATH, s2l "/metrics"); (H_ENV_QUERY, s2l "name[]=temp");
              (H_ENV_ACCEPT, accept); (H_ENV_ACCEPT_ENCODING, aenc)] in
  h_wsgi_app ascii_lower wit_parse_qs false env
  = Ok {| h_status := H_200;
          h_headers := [(H_CONTENT_TYPE, H_CT_OM); (H_CONTENT_ENCODING, H_GZIP)];
          h_body := HB_expo HOM (Some [s2l "temp"]) true |}
  /\ h_obs_asgi (h_asgi_app_orig ascii_lower false
                   [(s2l "Accept", accept); (s2l "ACCEPT-ENCODING", aenc)] (Some (s2l "name[]=temp")) true)
     = Some (200, Some H_CT_OM, Some H_GZIP, HB_expo HOM None true)
  /\ fst (h_choose_encoder (Some (s2l "application/openmetrics-text-foo, application/openmetrics-textx;q=1"))) = HText
  /\ h_gzip_accepted ascii_lower (Some (s2l "x-gzip, gzipx;q=1")) = false.
Proof. vm_compute. repeat split. Qed.

(* HEAD is not GET: 405 with Allow, the encoder is not reached; OPTIONS: 200 with Allow *)
Example C17_example_methods :
  let env (m : str) := [(H_ENV_METHOD, m); (H_ENV_PATH, s2l "/metrics"); (H_ENV_ACCEPT_ENCODING, H_GZIP)] in
  (exists r, h_wsgi_app ascii_lower wit_parse_qs false (env (s2l "HEAD")) = Ok r
     /\ h_status_code (h_status r) = 405 /\ h_header r H_ALLOW = Some H_ALLOW_VALUE /\ h_collects r = false
     /\ h_header r H_CONTENT_ENCODING = None)
  /\ (exists r, h_wsgi_app ascii_lower wit_parse_qs false (env (s2l "OPTIONS")) = Ok r
     /\ h_status_code (h_status r) = 200 /\ h_header r H_ALLOW = Some H_ALLOW_VALUE /\ h_collects r = false)
  /\ (exists r, h_wsgi_app ascii_lower wit_parse_qs false (env (s2l "get")) = Ok r /\ h_status_code (h_status r) = 405).
Proof. vm_compute. repeat split; eexists; repeat split. Qed.

(* a registry with a summary (s_count, s_sum) and a counter (c_total), well described:
   name[]=s_sum&name[]=s_count&name[]=s_sum -> the summary family ONCE with both samples;
   name[]=s_sum&name[]=c_total&name[]=s_count -> both families once each; name[]=s_sum -> one sample *)
Example C17_example_restricted :
  (forall c, registered exr_reg c -> well_described exr_env exr_reg c)
  /\ h_collected exr_env exr_reg (Some [exr_s_sum; exr_s_count; exr_s_sum]) = [exr_summary]
  /\ h_collected exr_env exr_reg (Some [exr_s_sum; exr_c_total; exr_s_count])
     = [mk_family exr_s TSummary [104] [] [mk_sample exr_s_count [] 2; mk_sample exr_s_sum [] 3]; exr_counter]
  /\ h_collected exr_env exr_reg (Some [exr_s_sum])
     = [mk_family exr_s TSummary [104] [] [mk_sample exr_s_sum [] 3]]
  /\ h_collected exr_env exr_reg None = [exr_summary; exr_counter].
Proof. split; [exact exr_well_described|exact exr_example]. Qed.
