(* C14 - both parsers are total: any input ends in families or ValueError.  Statements only. *)
From V Require Import lib.PyBase lib.PyStr model.Validation model.TextParser proofs.TextParserTotal.
Open Scope N_scope.

(* name/label tokens: with the repair, unquoting never raises anything but ValueError *)
Theorem C14_unquote_unescape_total : forall t, only_VE (unquote_unescape_with true t).
Proof. exact unquote_unescape_fixed_VE. Qed.
Print Assumptions C14_unquote_unescape_total.

(* the pinned source indexes the stripped-empty token: '# HELP <U+001C> x' escapes with IndexError *)
Theorem C14_unquote_unescape_orig_refuted : exists t, unquote_unescape_with false t = Err IndexError.
Proof. exact (ex_intro _ [28] unquote_unescape_orig_IndexError). Qed.
Print Assumptions C14_unquote_unescape_orig_refuted.
