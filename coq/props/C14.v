(* C14 - both parsers are total: any input ends in families or ValueError.  Statements only.
   Text half: model/TextParser.v.  CPython's int()/float() are arbitrary functions str -> option NUM
   (their type is their contract: return or raise ValueError); `v / 1000` may raise (div1000 : NUM -> res NUM).
   The theorem holds for EVERY such oracle, both validation modes and every input string, and includes
   termination: the model's loops are fuelled and OutOfFuel is not among the possible outcomes. *)
From V Require Import lib.PyBase lib.PyStr model.Validation model.TextParser proofs.TextParserTotal proofs.ParseSession.
Open Scope N_scope.

Theorem C14_text_total :
  forall (legacy : bool) (NUM : Type) (parse_num parse_float : str -> option NUM) (div1000 : NUM -> res NUM)
         (s : str),
    only_VE (text_parse legacy true NUM parse_num parse_float div1000 true s).
Proof. exact text_parse_total. Qed.
Print Assumptions C14_text_total.

(* the same outcome on every run: the parser model is a function of the input and the oracles *)
Theorem C14_text_deterministic :
  forall legacy NUM parse_num parse_float div1000 s r1 r2,
    text_parse legacy true NUM parse_num parse_float div1000 true s = r1 ->
    text_parse legacy true NUM parse_num parse_float div1000 true s = r2 -> r1 = r2.
Proof. exact (fun _ _ _ _ _ _ r1 r2 H1 H2 => eq_trans (eq_sym H1) H2). Qed.
Print Assumptions C14_text_deterministic.

(* ... and on every run of a process: a run is a sequence of parses (session = the parser mapped over the documents, the
   parser module keeps nothing between calls); the outcome of a document does not depend on what was parsed before or
   after it, and a document met at two points of two runs (again later, or d1 d2 against d2 d1) has one outcome.
   harness/c14hist.py observes this on the implementation: fresh interpreter states, both orders, the warmed checker. *)
Theorem C14_text_history_independent :
  forall legacy NUM parse_num parse_float div1000 (before after : list str) (s : str),
    nth_error (session _ _ (text_parse legacy true NUM parse_num parse_float div1000 true) (before ++ s :: after))
              (length before)
    = Some (text_parse legacy true NUM parse_num parse_float div1000 true s).
Proof. intros; exact (session_history_independent _ _ _ before s after). Qed.
Print Assumptions C14_text_history_independent.

Theorem C14_text_same_outcome_in_any_run :
  forall legacy NUM parse_num parse_float div1000 (run1 run2 : list str) i j s,
    nth_error run1 i = Some s -> nth_error run2 j = Some s ->
    nth_error (session _ _ (text_parse legacy true NUM parse_num parse_float div1000 true) run1) i
    = nth_error (session _ _ (text_parse legacy true NUM parse_num parse_float div1000 true) run2) j.
Proof. intros legacy NUM pn pf dv run1 run2 i j s; exact (session_same_outcome _ _ _ run1 run2 i j s). Qed.
Print Assumptions C14_text_same_outcome_in_any_run.

(* name/label tokens: with the repair, unquoting never raises anything but ValueError *)
Theorem C14_unquote_unescape_total : forall t, only_VE (unquote_unescape_with true t).
Proof. exact unquote_unescape_fixed_VE. Qed.
Print Assumptions C14_unquote_unescape_total.

(* the pinned source indexes the stripped-empty token: '# HELP <U+001C> x' escapes with IndexError *)
Theorem C14_text_total_orig_refuted_IndexError :
  exists s, text_parse false false unit (fun _ => None) (fun _ => None) (fun x => Ok x) true s = Err IndexError.
Proof. exact (ex_intro _ (s2l "# HELP " ++ [28; 32; 120]) eq_refl). Qed.
Print Assumptions C14_text_total_orig_refuted_IndexError.

(* the pinned source lets the OverflowError of `int / 1000` escape: 'a 1 <huge int>' *)
Theorem C14_text_total_orig_refuted_OverflowError :
  exists s, text_parse false true unit (fun _ => Some tt) (fun _ => None) (fun _ => Err OverflowError) false s
            = Err OverflowError.
Proof. exact (ex_intro _ (s2l "a 1 2") eq_refl). Qed.
Print Assumptions C14_text_total_orig_refuted_OverflowError.

(* parse_labels called DIRECTLY on a string starting with a closing brace never terminates in the Python
   source (model: fuel exhausted); the theorem above shows the public entry point can never do that *)
Example C14_parse_labels_direct_loops :
  parse_labels false true (s2l "}x") false = Err OutOfFuel.
Proof. vm_compute. reflexivity. Qed.
