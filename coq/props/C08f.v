(* C08f - multiprocess collection over worker histories WITH FORKS (a pre-forking server: a process that already holds
   metric objects and open files forks its workers).  Statements only; every proof is `exact <lemma>`
   (proofs/MultiForkProofs.v).

   model/MultiFork.v extends the histories of props/C08h.v by
       FFork p c    the process with pid p forks; the new process c holds a copy of p's metric objects and value closure;
   the first call of c that reaches a value object (a metric or labels() child is constructed, inc, set) re-initialises
   every inherited value object against the files of pid c (values.py: __check_for_pid_change + __reset of every value)
   and only then runs.  What the theorems say:

   (1) C08f_without_forks            without fork steps the model is props/C08h.v's.
   (2) C08f_fork_writes_nothing      the fork itself changes no file;
       C08f_step_writes_own_files    a step performed by process c - the re-initialisation after a fork included, whatever
                                     the call constructs - leaves the files of every other pid exactly as they are: a
                                     forked process never creates a series in the file of the process it was forked
                                     from (nor of any other).
   (3) C08f_rebind_is_start_and_labels   the re-initialisation = a process with that pid constructing the metrics, then
                                     labels() for every child it inherited: each inherited series starts at (0.0, 0.0) in
                                     c's own file (or continues the stored pair when pid c had such a file already).
   (4) C08f_fork_free_directory      the directory after ANY history with forks is the directory after the fork-free
                                     history `defork` (fork = no step; the first value-reaching call of a forked process =
                                     HStart, labels() per inherited child, the call; its earlier calls = no steps), and
       C08f_fork_free_in_domain      that history is in the domain of props/C08h.v when the history with forks is.
       Hence every theorem of props/C08h.v holds for the collection after a history with forks, with `steps` := the
       fork-free history: C08f_counter_with_forks and C08f_gauge_min_with_forks spell two of them out - in a min gauge a
       forked worker contributes 0 for every series it inherited, from its first value-reaching call on.

   DOMAIN.  As props/C08h.v (pids without underscore; calls are method calls or labels() with a positive clock).
   remove()/clear() are outside (values.py keeps the value objects of removed children in its list and would
   re-initialise them after a fork).  The entries of one file are listed family by family by the model, in creation order
   by values.py (same cells; the collection does not depend on the order of distinct keys within a file). *)
From V Require Import lib.PyBase model.Metrics model.Equiv model.MultiHist model.MultiFork.
From V Require Import proofs.EquivProofs proofs.MultiHistProofs proofs.MultiCollectProofs proofs.MultiForkProofs.
From V Require model.Multiproc model.Values model.MultiprocSpec.
Open Scope N_scope.

Section C08f.
  Variable F : Type.
  Variables fzero fone : F.
  Variable fadd : F -> F -> F.
  Variable fneg : F -> F.
  Variables flt fle feqb : F -> F -> bool.
  Variable of_Z : Z -> res F.
  Variable zlef : Z -> F -> bool.
  Variable parse_le : str -> F.
  Variable fmt_le : F -> str.

  Variable fams0 : mregistry F.            (* the metrics the first process constructs (every other process inherits or constructs the same) *)
  Variable metas : list fmeta.

  Notation fams := (map (shape_of F) fams0).
  Notation RUN steps := (mp_run_multi F fzero fone fadd fneg flt fle feqb of_Z zlef fmt_le fams metas (mh_init F) steps).
  Notation FSTEP := (mf_step F fzero fone fadd fneg flt fle feqb of_Z zlef fmt_le fams metas).
  Notation FRUN s steps := (mf_run F fzero fone fadd fneg flt fle feqb of_Z zlef fmt_le fams metas s steps).
  Notation DEFORK steps := (defork F fzero fone fadd fneg flt fle feqb of_Z zlef fmt_le fams metas (mf_init F) steps).
  Notation FDIR steps := (h_fs F (f_mh F (FRUN (mf_init F) steps))).

  (* ----- (1) ----- *)
  Theorem C08f_without_forks : forall (steps : list (hstep F)) (s : mh F),
    FRUN (mkMF F s []) (map FStep steps)
    = mkMF F (mp_run_multi F fzero fone fadd fneg flt fle feqb of_Z zlef fmt_le fams metas s steps) [].
  Proof. exact (run_without_forks F fzero fone fadd fneg flt fle feqb of_Z zlef fmt_le fams metas). Qed.

  (* ----- (2) ----- *)
  Theorem C08f_fork_writes_nothing : forall (s : mf F) p c,
    h_fs F (f_mh F (fst (FSTEP s (FFork p c)))) = h_fs F (f_mh F s).
  Proof. exact (fork_writes_nothing F fzero fone fadd fneg flt fle feqb of_Z zlef fmt_le fams metas). Qed.

  Theorem C08f_step_writes_own_files : forall (s : mf F) (st : fstep F) q,
    fpid F st <> q -> ~ In Multiproc.US q -> ~ In Multiproc.US (fpid F st) ->
    fs_of_pid F q (h_fs F (f_mh F (fst (FSTEP s st)))) = fs_of_pid F q (h_fs F (f_mh F s)).
  Proof. exact (step_own_files F fzero fone fadd fneg flt fle feqb of_Z zlef fmt_le fams metas). Qed.

  Hypothesis Hwf : wf_reg F fzero fmt_le metas fams0.

  (* ----- (3) ----- *)
  Theorem C08f_rebind_is_start_and_labels : forall c now (sh : list (shape F)) (d : Values.fs F),
    shape_ok F fams sh ->
    mp_run F fzero fone fadd fneg flt fle feqb of_Z zlef fmt_le metas c
           (mkMp F fams (mp_init_fs F fzero fmt_le c fams metas d)) (at_now F now (inherit_calls F 0 sh))
    = mkMp F sh (rebind F fzero fmt_le c sh metas d).
  Proof.
    exact (rebind_is_replay F fzero fone fadd fneg flt fle feqb of_Z zlef fmt_le fams metas
             (metas_len F fzero fmt_le fams0 metas Hwf)).
  Qed.

  (* ----- (4) ----- *)
  Variable fsteps : list (fstep F).
  Hypothesis Hus : Forall (fun st => ~ In Multiproc.US (fpid F st)) fsteps.
  Hypothesis Hcalls : Forall (fcall_dom F fzero flt) fsteps.

  Theorem C08f_fork_free_directory : FDIR fsteps = h_fs F (RUN (DEFORK fsteps)).
  Proof. exact (forked_dir F fzero fone fadd fneg flt fle feqb of_Z zlef fmt_le fams0 metas fsteps Hwf Hcalls). Qed.

  Theorem C08f_fork_free_in_domain :
    Forall (fun st => ~ In Multiproc.US (hpid F st)) (DEFORK fsteps) /\ Forall (hcall_ok F fzero flt) (DEFORK fsteps).
  Proof.
    exact (conj (plain_us F fzero fone fadd fneg flt fle feqb of_Z zlef fmt_le fams0 metas fsteps Hus)
                (plain_calls F fzero fone fadd fneg flt fle feqb of_Z zlef fmt_le fams0 metas fsteps Hcalls)).
  Qed.

  Hypothesis FLT_ne : forall a b, flt a b = true -> feqb b a = false.
  Let FLT_pos : forall t, flt fzero t = true -> feqb t fzero = false := fun t H => FLT_ne fzero t H.

  Notation COLLECT := (collect_mp F fzero fadd flt feqb parse_le fmt_le (FDIR fsteps)).
  Notation SERIES fam0 k := (d_find Multiproc.skey_eqb (mp_family F (f_name fam0) COLLECT) k).
  Notation readers := (readers F fzero fone fadd fneg flt fle feqb of_Z zlef fmt_le fams0 metas (DEFORK fsteps)).
  Notation per_reader := (per_reader F fzero fadd fneg flt fle of_Z zlef fams0 metas (DEFORK fsteps)).

  Theorem C08f_counter_with_forks : forall f fam0 me lv,
    nth_error fams0 f = Some fam0 -> nth_error metas f = Some me -> f_kind fam0 = KCounter ->
    length lv = length (f_labelnames fam0) ->
    SERIES fam0 (f_name fam0 ++ SUF_total, lab (f_labelnames fam0) lv)
    = MultiprocSpec.agg_sum F fzero fadd (flat_map (per_reader f lv (@ctr_val F)) (readers fam0 me)).
  Proof. exact (counter_forks F fzero fone fadd fneg flt fle feqb of_Z zlef parse_le fmt_le fams0 metas fsteps Hwf Hus Hcalls FLT_pos). Qed.

  Theorem C08f_gauge_min_with_forks : forall f fam0 me lv,
    nth_error fams0 f = Some fam0 -> nth_error metas f = Some me -> f_kind fam0 = KGauge ->
    length lv = length (f_labelnames fam0) ->
    Multiproc.is_mode Multiproc.M_min Multiproc.M_livemin (fm_mode me) = true ->
    SERIES fam0 (f_name fam0, lab (f_labelnames fam0) lv)
    = MultiprocSpec.agg_min F flt (flat_map (per_reader f lv (@gge_val F)) (readers fam0 me)).
  Proof. exact (gauge_min_forks F fzero fone fadd fneg flt fle feqb of_Z zlef parse_le fmt_le fams0 metas fsteps Hwf Hus Hcalls FLT_pos). Qed.
End C08f.

Print Assumptions C08f_without_forks.
Print Assumptions C08f_fork_writes_nothing.
Print Assumptions C08f_step_writes_own_files.
Print Assumptions C08f_rebind_is_start_and_labels.
Print Assumptions C08f_fork_free_directory.
Print Assumptions C08f_fork_free_in_domain.
Print Assumptions C08f_counter_with_forks.
Print Assumptions C08f_gauge_min_with_forks.

(* ===== non-vacuity (exact integer arithmetic; the families of C08h_example: counter c, livesum gauge g{l}, histogram h,
   max gauge m).  Process 1 constructs the metrics, sets g{l=x} = 5, m = -1, c += 2, then FORKS process 22; the parent goes
   on (c += 1); the forked process's first call constructs the new child g{l=y} and sets it to 3, then c += 10.
   The hypotheses hold; the fork-free history is the one written out; the collector computes c_total (2+1) + 10 = 13,
   g{l=x} = 5 + 0 (the forked process holds the inherited child at 0), g{l=y} = 3, m = max(-1, 0) = 0; the files of pid 1
   hold exactly what process 1 wrote - no key of g{l=y}. ===== *)
Import MetricsProofs.Toy Toy12 ToyMulti.
Definition fsteps_ex : list (fstep Z) :=
  [FStep (HStart P1);
   FStep (HCall P1 1000%Z (CUpd 1 (Lab [s2l "x"] []) (SetV (AInt 5))));
   FStep (HCall P1 1001%Z (CUpd 3 Parent (SetV (AInt (-1)))));
   FStep (HCall P1 1002%Z (CUpd 0 Parent (Inc (AInt 2))));
   FFork P1 P2;
   FStep (HCall P1 1003%Z (CUpd 0 Parent (Inc (AInt 1))));
   FStep (HCall P2 1004%Z (CLabels 1 (Lab [s2l "x"] [])));
   FStep (HCall P2 1005%Z (CUpd 1 (Lab [s2l "y"] []) (SetV (AInt 3))));
   FStep (HCall P2 1006%Z (CUpd 0 Parent (Inc (AInt 10))))].
Definition frun_ex := mf_run Z 0%Z 1%Z Z.add Z.opp Z.ltb Z.leb Z.eqb t_of_Z Z.leb tfmt (map (shape_of Z) mfams) mmetas (mf_init Z) fsteps_ex.
Definition fseries_ex (n : str) : list (Multiproc.skey * Z) :=
  mp_family Z n (collect_mp Z 0%Z Z.add Z.ltb Z.eqb tparse tfmt (h_fs Z (f_mh Z frun_ex))).

Example C08f_example :
  wf_reg Z 0%Z tfmt mmetas mfams
  /\ Forall (fun st => ~ In Multiproc.US (fpid Z st)) fsteps_ex /\ Forall (fcall_dom Z 0%Z Z.ltb) fsteps_ex
  /\ defork Z 0%Z 1%Z Z.add Z.opp Z.ltb Z.leb Z.eqb t_of_Z Z.leb tfmt (map (shape_of Z) mfams) mmetas (mf_init Z) fsteps_ex
     = [HStart P1;
        HCall P1 1000%Z (CUpd 1 (Lab [s2l "x"] []) (SetV (AInt 5)));
        HCall P1 1001%Z (CUpd 3 Parent (SetV (AInt (-1))));
        HCall P1 1002%Z (CUpd 0 Parent (Inc (AInt 2)));
        HCall P1 1003%Z (CUpd 0 Parent (Inc (AInt 1)));
        HStart P2; HCall P2 1005%Z (CLabels 1 (Lab [s2l "x"] []));
        HCall P2 1005%Z (CUpd 1 (Lab [s2l "y"] []) (SetV (AInt 3)));
        HCall P2 1006%Z (CUpd 0 Parent (Inc (AInt 10)))]
  /\ (map snd (fseries_ex (s2l "c")), map snd (fseries_ex (s2l "g")), map snd (fseries_ex (s2l "m"))) = ([13%Z], [5%Z; 3%Z], [0%Z])
  /\ f_pending Z frun_ex = []
  /\ fs_of_pid Z P1 (h_fs Z (f_mh Z frun_ex))
     = h_fs Z (mp_run_multi Z 0%Z 1%Z Z.add Z.opp Z.ltb Z.leb Z.eqb t_of_Z Z.leb tfmt (map (shape_of Z) mfams) mmetas (mh_init Z)
                 [HStart P1;
                  HCall P1 1000%Z (CUpd 1 (Lab [s2l "x"] []) (SetV (AInt 5)));
                  HCall P1 1001%Z (CUpd 3 Parent (SetV (AInt (-1))));
                  HCall P1 1002%Z (CUpd 0 Parent (Inc (AInt 2)));
                  HCall P1 1003%Z (CUpd 0 Parent (Inc (AInt 1)))]).
Proof.
  split; [exact m_wf|]. split; [repeat constructor; vm_compute; intuition discriminate|].
  split; [repeat constructor|]. vm_compute. repeat split.
Qed.
