(* C01 - Collected values equal a reference model for every operation history.
   Statements only; every proof is `exact <lemma>` (proofs/MetricsProofs.v).
   Model: model/Metrics.v (the code: cells, non-cumulative buckets, labels()/remove()/clear(), collect).
   Specification: model/MetricsSpec.v (per child the list of ACCEPTED calls since its creation; every exposed value
   is read off that list; acceptance is a stateless verdict on the call).
   `interp_reg sr` is the model state whose cells hold what the histories `sr` denote; a registry of freshly
   constructed metrics is `interp_reg` of empty histories (C01_constructed_is_fresh).
   The main model describes the tree WITH fixes/C01-1..3 applied; `mstep_gen true` / `mstep_orig` is the pinned
   source, refuted below.
   The float type and its operations are Section variables (instantiated with IEEE doubles in ocaml/cmds_c01.ml);
   the only float law used is FL3 (transitivity of <=, for float and for exact int-vs-float comparison). *)
From V Require Import lib.PyBase model.Metrics model.MetricsSpec proofs.MetricsProofs.
From Coq Require Import Permutation Sorted.
Open Scope N_scope.

Section C01.
  Variable F : Type.
  Variables fzero fone finf : F.
  Variable fadd : F -> F -> F.
  Variable fneg : F -> F.
  Variables flt fle feqb : F -> F -> bool.
  Variable of_Z : Z -> res F.              (* float(int): OverflowError beyond the double range *)
  Variable zlef : Z -> F -> bool.          (* Python int <= float: exact *)
  (* FL3 *)
  Hypothesis fle_trans : forall a b c, fle a b = true -> fle b c = true -> fle a c = true.
  Hypothesis zlef_trans : forall z b c, zlef z b = true -> fle b c = true -> zlef z c = true.

  Notation STEP := (mstep fzero fadd fneg flt fle of_Z zlef).
  Notation STEP_ORIG := (mstep_gen fzero fadd fneg flt fle of_Z zlef true).
  Notation RUN := (mrun fzero fadd fneg flt fle of_Z zlef).
  Notation COLLECT := (mcollect fzero fone fle).
  Notation IREG := (interp_reg fzero fadd fneg fle of_Z zlef).
  Notation SSTEP := (spec_step fzero fneg flt of_Z).
  Notation SRUN := (spec_run fzero fneg flt of_Z).
  Notation SOUT := (spec_outcome fzero fneg flt of_Z).
  Notation SCOLLECT := (spec_collect fzero fone fadd fneg fle of_Z zlef).
  Notation VERDICT := (verdict fzero fneg flt of_Z).
  Notation TOUCH := (touch F fzero fadd fneg flt fle of_Z zlef).

  (* ===== refinement: for ALL histories, what collect exposes is what the accepted calls denote ===== *)
  (* wf_family: a histogram's bounds are sorted and non-empty (established by _prepare_buckets, see below) *)
  Theorem C01_refines : forall sr ops, Forall (wf_family F fle) sr ->
    COLLECT (RUN (IREG sr) ops) = SCOLLECT (SRUN sr ops).
  Proof. exact (refines F fzero fone finf fadd fneg flt fle feqb of_Z zlef fle_trans zlef_trans). Qed.

  (* call by call: the next state is the image of the extended histories and the outcome (Ok / which exception)
     is the specification's verdict - so "accepted" in C01_refines means accepted by the code *)
  Theorem C01_step_refines : forall sr o, STEP (IREG sr) o = (IREG (SSTEP sr o), SOUT sr o).
  Proof. exact (step_refines F fzero fadd fneg flt fle feqb of_Z zlef). Qed.


  (* the same for metrics as the constructors build them (no bucket bound NaN): the histories start empty.
     `constructed fam`: fam = mk_family ... for some arguments whose bucket bounds are all <= +Inf *)
  Theorem C01_refines_constructed : forall fams ops, Forall (constructed F fzero finf fle feqb) fams ->
    COLLECT (RUN fams ops) = SCOLLECT (SRUN (map (fresh_of F) fams) ops).
  Proof. exact (refines_constructed F fzero fone finf fadd fneg flt fle feqb of_Z zlef fle_trans zlef_trans). Qed.

  (* reading the specification: a counter total restarts at the last reset and is the left-to-right sum after it *)
  Theorem C01_counter_restarts_at_reset : forall (h : hist F) amts,
    ctr_value fzero fadd of_Z (h ++ Reset :: map Inc amts)
    = fold_left (fun v a => fadd v (aval fzero of_Z a)) amts fzero.
  Proof. exact (counter_restarts_at_reset F fzero fadd of_Z). Qed.

  (* an enum exposes one sample per state, 1 exactly at the current index, which is always a valid index *)
  Theorem C01_enum_one_per_state : forall name lbls states i,
    map (fun s : msample F => ms_val s) (enum_samples name lbls states i)
    = map (fun n => VI (if Nat.eqb n i then 1 else 0)%Z) (seq 0 (length states)).
  Proof. exact (enum_one_per_state F). Qed.

  Theorem C01_enum_index_valid : forall states (h : hist F), states <> [] -> (enum_index states h < length states)%nat.
  Proof. exact (enum_index_valid F fzero fadd fneg flt fle feqb zlef). Qed.

  (* a constructed metric is the image of the empty history; its bounds come from _prepare_buckets *)
  Theorem C01_constructed_is_fresh : forall k name names buckets states fam,
    mk_family fzero finf fle feqb k name names buckets states = Ok fam ->
    fam = interp_family fzero fadd fneg fle of_Z zlef (fresh_family k name names (f_bounds fam) (f_states fam))
    /\ (k = KHistogram -> prepare_buckets finf fle feqb buckets = Ok (f_bounds fam)).
  Proof. exact (mk_family_fresh F fzero finf fadd fneg fle feqb of_Z zlef). Qed.

  (* ===== histogram ===== *)
  (* the cumulative value exposed for bound b is the number of observations a with a <= b (NaN lands nowhere) *)
  Theorem C01_bucket_is_count_le : forall bs obs, adj_sortedb fle bs = true ->
    accum 0 (hist_cells fle zlef bs obs) = map (count_le fle zlef obs) bs.
  Proof. exact (bucket_is_count_le F fzero fone fadd fneg flt fle feqb zlef fle_trans zlef_trans). Qed.

  (* whatever the cells: exposed buckets are non-decreasing in bound order and _count is the last (+Inf) bucket *)
  Theorem C01_hist_cumulative : forall name bounds states lbls s cs,
    exists cum, StronglySorted N.le cum
      /\ child_samples fzero fone fle name bounds states lbls (Hst s cs)
         = bucket_samples name lbls bounds cum
           ++ [mkMSample (name ++ SUF_count) lbls None (VI (Z.of_N (last cum 0)))]
           ++ (if sum_exposed fzero fle bounds then [mkMSample (name ++ SUF_sum) lbls None (VF s)] else []).
  Proof. exact (hist_cumulative F fzero fone fle). Qed.

  Theorem C01_bucket_monotone : forall obs b c, fle b c = true -> count_le fle zlef obs b <= count_le fle zlef obs c.
  Proof. exact (count_le_mono F fadd fneg flt fle feqb zlef fle_trans zlef_trans). Qed.

  (* _prepare_buckets: unsorted input is rejected; an accepted list is the input, +Inf appended unless already last,
     at least two bounds; sorted if no bound exceeds +Inf (i.e. none is NaN) *)
  Theorem C01_prepare_buckets_unsorted : forall src, adj_sortedb fle src = false ->
    prepare_buckets finf fle feqb src = Err ValueError.
  Proof. exact (prepare_buckets_unsorted F finf fle feqb). Qed.

  Theorem C01_prepare_buckets_sorted : forall src bs, prepare_buckets finf fle feqb src = Ok bs ->
    (forall x, In x src -> fle x finf = true) -> adj_sortedb fle bs = true.
  Proof. exact (prepare_buckets_sorted F finf fadd fneg flt fle feqb zlef). Qed.

  Theorem C01_prepare_buckets_shape : forall src bs, prepare_buckets finf fle feqb src = Ok bs ->
    adj_sortedb fle src = true /\ (2 <= length bs)%nat /\ bs <> []
    /\ ((bs = src /\ exists l, last src l = l /\ feqb (last src l) finf = true) \/ bs = src ++ [finf]).
  Proof. exact (prepare_buckets_ok F finf fadd fneg flt fle feqb zlef). Qed.

  (* ===== rejected calls ===== *)
  (* ANY failing call (ValueError, OverflowError, ...) leaves the state - hence every exposed value - as the
     `.labels(...)` part of the call left it; and that part changes nothing unless it created the child *)
  Theorem C01_reject_unchanged : forall r o r' e, STEP r o = (r', Err e) -> r' = TOUCH r o.
  Proof. exact (reject_unchanged F fzero fadd fneg flt fle of_Z zlef). Qed.

  Theorem C01_touch_existing_child : forall r f a m fam k c,
    nth_error r f = Some fam -> resolve (f_labelnames fam) a = Ok (Some k) ->
    d_find key_eqb (f_children fam) k = Some c -> TOUCH r (CUpd f a m) = r.
  Proof. exact (touch_existing F fzero fadd fneg flt fle of_Z zlef). Qed.

  Theorem C01_touch_parent : forall r f m, TOUCH r (CUpd f Parent m) = r.
  Proof. exact (touch_parent F fzero fadd fneg flt fle of_Z zlef). Qed.

  Theorem C01_touch_rejected_labels : forall r f a m fam e,
    nth_error r f = Some fam -> resolve (f_labelnames fam) a = Err e -> TOUCH r (CUpd f a m) = r.
  Proof. exact (touch_rejected F fzero fadd fneg flt fle of_Z zlef). Qed.

  (* the causes the property names are ValueError *)
  Theorem C01_reject_negative_inc : forall names states a, alt0 fzero flt a = true ->
    VERDICT KCounter names states (Inc a) = Err ValueError.
  Proof. exact (reject_negative_inc F fzero fneg flt of_Z). Qed.

  (* ... and only those: 0, -0.0, NaN (not < 0) with a float value are accepted *)
  Theorem C01_accept_nonnegative_inc : forall names states a x, alt0 fzero flt a = false -> to_F of_Z a = Ok x ->
    VERDICT KCounter names states (Inc a) = Ok tt.
  Proof. exact (accept_zero_inc F fzero fneg flt of_Z). Qed.

  Theorem C01_reject_unknown_state : forall names states s, ~ In s states ->
    VERDICT KEnum names states (State s) = Err ValueError.
  Proof. exact (reject_unknown_state F fzero fneg flt of_Z). Qed.

  Theorem C01_reject_labelled_parent : forall sr f sf m, nth_error sr f = Some sf -> f_labelnames sf <> [] ->
    has_method (f_kind sf) m = true -> SOUT sr (CUpd f Parent m) = Err ValueError.
  Proof. exact (reject_labelled_parent F fzero fneg flt of_Z). Qed.

  Theorem C01_reject_bad_labels : forall sr f sf a m e, nth_error sr f = Some sf ->
    resolve (f_labelnames sf) a = Err e ->
    SOUT sr (CUpd f a m) = Err ValueError /\ SOUT sr (CLabels f a) = Err ValueError.
  Proof. exact (reject_bad_labels F fzero fneg flt of_Z). Qed.

  (* ===== children: uniqueness, remove/clear, re-creation ===== *)
  Theorem C01_keys_unique : forall ops r, keys_ok F r -> keys_ok F (RUN r ops).
  Proof. exact (run_keys_ok F fzero fadd fneg flt fle of_Z zlef false). Qed.

  (* remove(vs): exactly the child keyed vs disappears; all others keep their cells and their order *)
  Theorem C01_remove_exact : forall r f vs fam,
    keys_ok F r -> nth_error r f = Some fam -> f_labelnames fam <> [] -> length vs = length (f_labelnames fam) ->
    STEP r (CRemove f vs)
    = (put_family r f (with_children fam (filter (fun kc => negb (key_eqb vs (fst kc))) (f_children fam))), Ok tt).
  Proof. exact (remove_exact F fzero fadd fneg flt fle of_Z zlef). Qed.

  Theorem C01_removed_absent : forall r f vs fam r',
    keys_ok F r -> nth_error r f = Some fam -> STEP r (CRemove f vs) = (r', Ok tt) ->
    exists fam', nth_error r' f = Some fam' /\ d_find key_eqb (f_children fam') vs = None
                 /\ f_labelnames fam' = f_labelnames fam.
  Proof. exact (removed_absent F fzero fadd fneg flt fle of_Z zlef). Qed.

  Theorem C01_cleared_empty : forall r f fam r',
    nth_error r f = Some fam -> f_labelnames fam <> [] -> STEP r (CClear f) = (r', Ok tt) ->
    exists fam', nth_error r' f = Some fam' /\ f_children fam' = [] /\ f_labelnames fam' = f_labelnames fam.
  Proof. exact (cleared_empty F fzero fadd fneg flt fle of_Z zlef). Qed.

  (* addressing an absent (never created, removed or cleared) child: it starts from the initial cells and is last *)
  Theorem C01_recreate_from_zero : forall r f a m fam k,
    nth_error r f = Some fam -> resolve (f_labelnames fam) a = Ok (Some k) ->
    d_find key_eqb (f_children fam) k = None ->
    STEP r (CUpd f a m)
    = (let (c', out) := apply_mop fzero fadd fneg flt fle of_Z zlef false (f_labelnames fam) (f_bounds fam)
                                  (f_states fam) (init_child fzero (f_kind fam) (f_bounds fam)) m in
       (put_family r f (with_children fam (f_children fam ++ [(k, c')])), out)).
  Proof. exact (recreate_from_zero F fzero fadd fneg flt fle of_Z zlef). Qed.

  (* ===== the pinned source (without fixes/C01-*.diff) violates the property ===== *)
  Theorem C01_parent_reset_orig_refuted : forall r f fam,
    nth_error r f = Some fam -> f_labelnames fam <> [] -> f_kind fam = KCounter ->
    STEP_ORIG r (CUpd f Parent Reset) = (r, Err AttributeError).
  Proof. exact (parent_reset_orig F fzero fadd fneg flt fle of_Z zlef). Qed.

  Theorem C01_parent_info_orig_refuted : forall r f fam kv,
    nth_error r f = Some fam -> f_labelnames fam <> [] -> f_kind fam = KInfo ->
    STEP_ORIG r (CUpd f Parent (InfoSet kv)) = (r, Err AttributeError).
  Proof. exact (parent_info_orig F fzero fadd fneg flt fle of_Z zlef). Qed.

  (* Summary.observe(int beyond the float range): the call fails yet _count moved *)
  Theorem C01_summary_count_orig_refuted : forall name z e n s, of_Z z = Err e ->
    let fam := mkMFamily KSummary name [] [] [] (Smy n s) [] in
    exists r', STEP_ORIG [fam] (CUpd 0 Parent (Observe (AInt z))) = (r', Err e)
               /\ COLLECT r' <> COLLECT [fam].
  Proof. exact (summary_count_orig F fzero fone fadd fneg flt fle feqb of_Z zlef). Qed.

  (* Counter.reset() stored the int 0: an int the float cell would refuse is accepted, the exposed value is an int,
     and every later float increment raises; the repaired model keeps the float cell and refuses the int *)
  Theorem C01_reset_int_orig_refuted : forall name z e x, (z <? 0)%Z = false -> of_Z z = Err e -> flt x fzero = false ->
    let fam0 := mkMFamily KCounter name [] [] [] (Ctr (CF fzero)) [] in
    let fam2 := mkMFamily KCounter name [] [] [] (Ctr (CI z)) [] in
    STEP_ORIG [fam0] (CUpd 0 Parent Reset) = ([mkMFamily KCounter name [] [] [] (Ctr (CI 0%Z)) []], Ok tt)
    /\ STEP_ORIG [mkMFamily KCounter name [] [] [] (Ctr (CI 0%Z)) []] (CUpd 0 Parent (Inc (AInt z))) = ([fam2], Ok tt)
    /\ STEP_ORIG [fam2] (CUpd 0 Parent (Inc (AFloat x))) = ([fam2], Err e)
    /\ STEP [fam0] (CUpd 0 Parent Reset) = ([fam0], Ok tt)
    /\ STEP [fam0] (CUpd 0 Parent (Inc (AInt z))) = ([fam0], Err e).
  Proof. exact (reset_int_orig F fzero fadd fneg flt fle of_Z zlef). Qed.
End C01.

(* ===== labels(): keyword and positional calls (no floats involved) ===== *)
(* keyword names in ANY order address the child of the positional call with the values in DECLARATION order *)
Theorem C01_kw_pos_same_child : forall names kw, kw <> [] -> Permutation (map fst kw) names ->
  exists vs, Forall2 (fun l v => d_find str_eqb kw l = Some v) names vs
             /\ resolve names (Lab [] kw) = Ok (Some vs)
             /\ resolve names (Lab vs []) = Ok (Some vs).
Proof. exact kw_pos_same_child. Qed.

Theorem C01_labels_rejections_are_ValueError : forall names a e, resolve names a = Err e -> e = ValueError.
Proof. exact resolve_err_VE. Qed.

Theorem C01_kw_wrong_names_rejected : forall names kw, kw <> [] -> ~ Permutation (map fst kw) names ->
  resolve names (Lab [] kw) = Err ValueError.
Proof. exact resolve_wrong_names. Qed.

Theorem C01_wrong_count_rejected : forall names pos, length pos <> length names ->
  resolve names (Lab pos []) = Err ValueError.
Proof. exact resolve_wrong_count. Qed.

Theorem C01_pos_and_kw_rejected : forall names pos kw, pos <> [] -> kw <> [] -> resolve names (Lab pos kw) = Err ValueError.
Proof. exact resolve_both. Qed.

Theorem C01_labels_on_unlabelled_rejected : forall pos kw, resolve [] (Lab pos kw) = Err ValueError.
Proof. exact resolve_unlabelled. Qed.

Print Assumptions C01_refines.
Print Assumptions C01_step_refines.
Print Assumptions C01_refines_constructed.
Print Assumptions C01_counter_restarts_at_reset.
Print Assumptions C01_enum_one_per_state.
Print Assumptions C01_enum_index_valid.
Print Assumptions C01_constructed_is_fresh.
Print Assumptions C01_bucket_is_count_le.
Print Assumptions C01_hist_cumulative.
Print Assumptions C01_bucket_monotone.
Print Assumptions C01_prepare_buckets_unsorted.
Print Assumptions C01_prepare_buckets_sorted.
Print Assumptions C01_prepare_buckets_shape.
Print Assumptions C01_reject_unchanged.
Print Assumptions C01_touch_existing_child.
Print Assumptions C01_touch_parent.
Print Assumptions C01_touch_rejected_labels.
Print Assumptions C01_reject_negative_inc.
Print Assumptions C01_accept_nonnegative_inc.
Print Assumptions C01_reject_unknown_state.
Print Assumptions C01_reject_labelled_parent.
Print Assumptions C01_reject_bad_labels.
Print Assumptions C01_keys_unique.
Print Assumptions C01_remove_exact.
Print Assumptions C01_removed_absent.
Print Assumptions C01_cleared_empty.
Print Assumptions C01_recreate_from_zero.
Print Assumptions C01_parent_reset_orig_refuted.
Print Assumptions C01_parent_info_orig_refuted.
Print Assumptions C01_summary_count_orig_refuted.
Print Assumptions C01_reset_int_orig_refuted.
Print Assumptions C01_kw_pos_same_child.
Print Assumptions C01_labels_rejections_are_ValueError.
Print Assumptions C01_kw_wrong_names_rejected.
Print Assumptions C01_wrong_count_rejected.
Print Assumptions C01_pos_and_kw_rejected.
Print Assumptions C01_labels_on_unlabelled_rejected.

(* ===== non-vacuity (a toy instance: integers as floats, |z| >= 1000 does not convert) ===== *)
Import Toy.
Definition ex_reg : sregistry Z :=
  [fresh_family KCounter (s2l "c") [s2l "l"] [] [];
   fresh_family KHistogram (s2l "h") [] [(-1)%Z; 1%Z; t_inf] [];
   fresh_family KEnum (s2l "e") [s2l "l"] [] [s2l "a"; s2l "b"]].
Definition ex_ops : list (mcall Z) :=
  [CUpd 0 (Lab [s2l "x"] []) (Inc (AInt 2)); CUpd 0 (Lab [] [(s2l "l", s2l "x")]) (Inc (AFloat 3%Z));
   CUpd 0 (Lab [s2l "x"] []) (Inc (AInt (-1))); CUpd 0 Parent Reset; CUpd 0 (Lab [s2l "y"] []) (Inc (AInt 5000));
   CUpd 1 Parent (Observe (AFloat 1%Z)); CUpd 1 Parent (Observe (AInt 2)); CUpd 1 Parent (Observe (AInt (-5)));
   CUpd 2 (Lab [s2l "k"] []) (State (s2l "b")); CUpd 2 (Lab [s2l "k"] []) (State (s2l "zz"));
   CRemove 0 [s2l "x"]; CUpd 0 (Lab [s2l "x"] []) (Inc (AInt 7))].

(* the hypotheses of C01_refines hold of ex_reg, the histories are non-trivial, and both sides compute to the same
   14 samples: c{l=y} 0, c{l=x} 7 (re-created after remove), h buckets 1,2,3 / count 3 (sum hidden: first bound < 0), e *)
Example C01_example :
  Forall (wf_family Z Z.leb) ex_reg
  /\ tcollect (trun (tinterp ex_reg) ex_ops) = tspec_collect (tspec_run ex_reg ex_ops)
  /\ map (fun s => (ms_val s)) (tcollect (trun (tinterp ex_reg) ex_ops))
     = [VF 0%Z; VF 7%Z; VI 1%Z; VI 2%Z; VI 3%Z; VI 3%Z; VI 0%Z; VI 1%Z]
  /\ map (fun o => snd (tstep (trun (tinterp ex_reg) (firstn 2 ex_ops)) o)) [nth 2 ex_ops (CClear 0); nth 3 ex_ops (CClear 0)]
     = [Err ValueError; Err ValueError].
Proof.
  split; [|vm_compute; repeat split].
  constructor; [intro H; discriminate H|]. constructor; [intros _; split; [reflexivity|discriminate]|].
  constructor; [intro H; discriminate H|constructor].
Qed.
